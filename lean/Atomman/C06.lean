/-
  C06 — per-atom data under edit histories (core Lean only).

  Source: atomman/core/Atoms.py (PropertyDict, Atoms), atomman/core/System.py (symbols/masses
  padding, atoms_prop, atoms_extend, _AtomsIndexer).

  L1 ("what the code does"): a heap of numpy buffers (dtype tag, trailing shape, rows) and
  `Atoms` objects = `natoms` + ordered list `key ↦ Arr` where an `Arr` (one ndarray object) is a
  buffer id plus the list of buffer rows it exposes.  Basic slices give views (same buffer id),
  integer-list / boolean indexing, `deepcopy`, `np.array(np.broadcast_to(..))` and `np.zeros` give
  fresh buffers.  Every API function below is a transcription of the Python body over this
  mini-numpy; the quirks are kept as coded (length-1 broadcast copies, `-1` special case of
  `__intslice`, loops that stop half-way when numpy refuses an assignment, lazy padding of
  symbols/masses in the *getters*).

  The state monad `M` keeps the state reached so far when an operation raises (Python semantics);
  constructors are wrapped in `atomic` (a failed `Atoms(...)`/`System(...)` leaves no object).
-/
import Atomman.Prelude
import Atomman.Box

namespace Atomman.C06
open Atomman

/-! ## cells, dtypes, literal values -/

inductive Cell where
  | int (i : Int)
  | flt (r : Rat)
  | bool (b : Bool)
  | str (s : List Char)
deriving Repr, BEq, DecidableEq, Inhabited

/-- dtype classes; `str w` is numpy `<Uw` (fixed width, longer strings are truncated on write). -/
inductive DType where
  | int
  | flt
  | bool
  | str (w : Nat)
deriving Repr, BEq, DecidableEq, Inhabited

/-- exception classes of the real code (`unmodelled`: outside the modelled grammar, never produced
    for an operation of the documented grammar; the driver leaves the state untouched then). -/
inductive Err where
  | value | type | index | key | assert | format | unmodelled
deriving Repr, BEq, DecidableEq

abbrev Row := List Cell

def Cell.hasType : DType → Cell → Bool
  | .int, .int _ => true
  | .flt, .flt _ => true
  | .bool, .bool _ => true
  | .str w, .str s => decide (s.length ≤ w)
  | _, _ => false

/-- C cast double → int64: truncation toward zero. -/
def truncRat (r : Rat) : Int := if 0 ≤ r then r.floor else -((-r).floor)

/-- numpy's (unsafe) cast on `arr[...] = value`; string ↔ number casts are outside the model. -/
def castCell : DType → Cell → Option Cell
  | .int, .int i => some (.int i)
  | .int, .flt r => some (.int (truncRat r))
  | .int, .bool b => some (.int (if b then 1 else 0))
  | .flt, .int i => some (.flt (i : Rat))
  | .flt, .flt r => some (.flt r)
  | .flt, .bool b => some (.flt (if b then 1 else 0))
  | .bool, .int i => some (.bool (i != 0))
  | .bool, .flt r => some (.bool (r != 0))
  | .bool, .bool b => some (.bool b)
  | .str w, .str s => some (.str (s.take w))
  | _, _ => none

def zeroCell : DType → Cell
  | .int => .int 0
  | .flt => .flt 0
  | .bool => .bool false
  | .str _ => .str []

def Cell.num? : Cell → Option Rat
  | .int i => some (i : Rat)
  | .flt r => some r
  | .bool b => some (if b then 1 else 0)
  | .str _ => none

def prod : List Nat → Nat
  | [] => 1
  | d :: ds => d * prod ds

/-- a literal operand (what the caller passes): dtype, shape, flat C-order data. -/
structure Val where
  dt : DType
  shape : List Nat
  data : List Cell
deriving Repr, BEq, DecidableEq, Inhabited

def Val.ok (v : Val) : Bool :=
  v.data.length == prod v.shape && v.data.all (Cell.hasType v.dt)

/-! ## broadcasting -/

/-- numpy assignment: leading 1-dims of the value are dropped while it has more dims than the target. -/
def stripOnes : List Nat → Nat → List Nat
  | 1 :: ds, k => if ds.length + 1 > k then stripOnes ds k else 1 :: ds
  | ds, _ => ds

def padOnes (v : List Nat) (k : Nat) : List Nat := List.replicate (k - v.length) 1 ++ v

def compat : List Nat → List Nat → Bool
  | [], [] => true
  | v :: vs, t :: ts => (v == t || v == 1) && compat vs ts
  | _, _ => false

/-- flat source index of flat target index `f` (C order), value dims of size 1 are repeated. -/
def srcIdx : List Nat → List Nat → Nat → Nat
  | v :: vs, t :: ts, f =>
    (if v == 1 then 0 else (f / prod ts) % t) * prod vs + srcIdx vs ts (f % prod ts)
  | _, _, _ => 0

/-- `value` broadcast to `tshape` and materialised; `none` = "could not broadcast". -/
def bcast (v : Val) (tshape : List Nat) : Option (List Cell) :=
  let vs := padOnes (stripOnes v.shape tshape.length) tshape.length
  if vs.length = tshape.length ∧ compat vs tshape = true ∧ v.data.length = prod v.shape then
    let idxs := (List.range (prod tshape)).map (srcIdx vs tshape)
    if idxs.all (fun i => decide (i < v.data.length)) then
      some (idxs.map (fun i => v.data.getD i default))
    else none
  else none

/-- cut a flat list into `k` rows of width `w`. -/
def rowsOf (k w : Nat) (flat : List Cell) : List Row :=
  (List.range k).map (fun j => (List.range w).map (fun c => flat.getD (j * w + c) default))

/-! ## heap, arrays, objects -/

structure Buf where
  dt : DType
  trail : List Nat
  rows : List Row
deriving Repr, BEq, DecidableEq, Inhabited

/-- one ndarray object: a buffer and the buffer rows it exposes (in order). -/
structure Arr where
  buf : Nat
  idx : List Nat
deriving Repr, BEq, DecidableEq, Inhabited

structure PropRef where
  key : String
  arr : Arr
deriving Repr, BEq, DecidableEq, Inhabited

structure AtomsObj where
  natoms : Nat
  props : List PropRef
deriving Repr, BEq, DecidableEq, Inhabited

structure SysObj where
  atoms : Nat
  box : Box Rat
  pbc : List Bool
  symbols : List (Option String)
  masses : List (Option Rat)
deriving Repr, BEq, DecidableEq

structure State where
  heap : List Buf := []
  objs : List AtomsObj := []
  syss : List SysObj := []
deriving Repr, BEq, DecidableEq

def emptyBuf : Buf := ⟨.int, [], []⟩
def emptyObj : AtomsObj := ⟨0, []⟩
def unitBox : Box Rat := ⟨⟨⟨1, 0, 0⟩, ⟨0, 1, 0⟩, ⟨0, 0, 1⟩⟩, ⟨0, 0, 0⟩⟩
def emptySys : SysObj := ⟨0, unitBox, [], [], []⟩

def State.buf (s : State) (b : Nat) : Buf := s.heap[b]?.getD emptyBuf
def State.obj (s : State) (o : Nat) : AtomsObj := s.objs[o]?.getD emptyObj
def State.sys (s : State) (i : Nat) : SysObj := s.syss[i]?.getD emptySys

def AtomsObj.find (o : AtomsObj) (key : String) : Option Arr :=
  (o.props.find? (fun p => p.key == key)).map (·.arr)

def AtomsObj.keys (o : AtomsObj) : List String := o.props.map (·.key)

def arrRows (s : State) (a : Arr) : List Row :=
  a.idx.map (fun i => (s.buf a.buf).rows[i]?.getD [])

def arrTrail (s : State) (a : Arr) : List Nat := (s.buf a.buf).trail
def arrDt (s : State) (a : Arr) : DType := (s.buf a.buf).dt

/-- the array as a value (`shape = len :: trail`). -/
def arrVal (s : State) (a : Arr) : Val :=
  ⟨arrDt s a, a.idx.length :: arrTrail s a, (arrRows s a).flatten⟩

/-- two ndarray objects overlap in memory (what `np.shares_memory` reports). -/
def sharesMem (s : State) (a b : Arr) : Bool :=
  a.buf == b.buf && prod (arrTrail s a) != 0 && a.idx.any (fun i => b.idx.contains i)

/-! ## indices -/

inductive Index where
  | int (i : Int)
  | slice (start stop step : Option Int)
  | list (l : List Int)
  | mask (m : List Bool)
deriving Repr, BEq, DecidableEq

/-- result of resolving an index against a leading length: positions, whether numpy returns a view,
    whether the leading axis is dropped (integer index on the ndarray itself), whether it is a boolean
    mask, the number of rows the index *asks for* and whether an integer-list entry is out of bounds
    (numpy checks the shape of an assigned value before the bounds of a list index). -/
structure Sel where
  pos : List Nat
  view : Bool
  scalar : Bool
  mask : Bool := false
  count : Nat := pos.length
  oob : Bool := false
deriving Repr, BEq, DecidableEq

def normInt (n : Nat) (i : Int) : Option Nat :=
  if 0 ≤ i ∧ i < n then some i.toNat
  else if -(n : Int) ≤ i ∧ i < 0 then some (i + n).toNat
  else none

/-- `slice(start, stop, step).indices(n)` expanded (CPython `PySlice_AdjustIndices`), as a filter of
    `range n` so that every position is `< n` by construction. -/
def sliceSel (n : Nat) (start stop : Option Int) (step : Int) : List Nat :=
  let N : Int := n
  if step > 0 then
    let clamp (v : Int) : Int := if v < 0 then max (v + N) 0 else min v N
    let st := match start with | none => 0 | some v => clamp v
    let sp := match stop with | none => N | some v => clamp v
    (List.range n).filter
      (fun (i : Nat) => decide (st ≤ (i : Int) ∧ (i : Int) < sp ∧ ((i : Int) - st) % step = 0))
  else
    let clamp (v : Int) : Int := if v < 0 then max (v + N) (-1) else min v (N - 1)
    let st := match start with | none => N - 1 | some v => clamp v
    let sp := match stop with | none => -1 | some v => clamp v
    ((List.range n).filter
      (fun (i : Nat) => decide (sp < (i : Int) ∧ (i : Int) ≤ st ∧ (st - (i : Int)) % (-step) = 0))).reverse

def maskSel (n : Nat) (m : List Bool) : List Nat :=
  (List.range n).filter (fun i => m[i]?.getD false)

def resolve (n : Nat) : Index → Except Err Sel
  | .int i => match normInt n i with
    | some p => .ok { pos := [p], view := false, scalar := true }
    | none => .error .index
  | .slice st sp step =>
    let k := step.getD 1
    if k = 0 then .error .value else .ok { pos := sliceSel n st sp k, view := true, scalar := false }
  | .list l =>
    let ps := l.filterMap (normInt n)
    .ok { pos := ps, view := false, scalar := false, count := l.length, oob := ps.length != l.length }
  | .mask m =>
    -- numpy accepts an empty boolean index on an axis of any length (selects nothing)
    -- (an empty boolean index of the wrong length does not take numpy's 1-D boolean path)
    if m.length = n then .ok { pos := maskSel n m, view := false, scalar := false, mask := true }
    else if m.length = 0 then .ok { pos := [], view := false, scalar := false }
    else .error .index

/-- `Atoms.__intslice`. -/
def intslice (i : Int) : Index :=
  if i = -1 then .slice (some i) none none else .slice (some i) (some (i + 1)) none

def atomsIndex : Index → Index
  | .int i => intslice i
  | ix => ix

/-! ## the state monad (state survives exceptions) -/

def M (α : Type) := State → Except Err α × State

namespace M
@[inline] def pure {α : Type} (a : α) : M α := fun s => (.ok a, s)
@[inline] def bind {α β : Type} (m : M α) (f : α → M β) : M β := fun s =>
  match m s with
  | (.ok a, s') => f a s'
  | (.error e, s') => (.error e, s')
end M

instance : Monad M where
  pure := M.pure
  bind := M.bind

def fail {α : Type} (e : Err) : M α := fun s => (.error e, s)
def getS : M State := fun s => (.ok s, s)
def modifyS (f : State → State) : M Unit := fun s => (.ok (), f s)
def liftE {α : Type} (e : Except Err α) : M α := fun s => (e, s)
def liftO {α : Type} (e : Err) : Option α → M α
  | some a => M.pure a
  | none => fail e
/-- a constructor call: an exception leaves the state as it was before the call. -/
def atomic {α : Type} (m : M α) : M α := fun s =>
  match m s with
  | (.ok a, s') => (.ok a, s')
  | (.error e, _) => (.error e, s)

def forEach {β : Type} : List β → (β → M Unit) → M Unit
  | [], _ => M.pure ()
  | b :: bs, f => M.bind (f b) (fun _ => forEach bs f)

def mapEach {β γ : Type} : List β → (β → M γ) → M (List γ)
  | [], _ => M.pure []
  | b :: bs, f => M.bind (f b) (fun c => M.bind (mapEach bs f) (fun cs => M.pure (c :: cs)))

/-! ## mini-numpy primitives -/

/-- a fresh buffer holding `rows`. -/
def alloc (dt : DType) (trail : List Nat) (rows : List Row) : M Arr := fun s =>
  (.ok ⟨s.heap.length, List.range rows.length⟩, { s with heap := s.heap ++ [⟨dt, trail, rows⟩] })

/-- a literal of rank ≥ 1 as a fresh ndarray. -/
def allocVal (v : Val) : M Arr :=
  match v.shape with
  | [] => fail .assert
  | n :: trail => alloc v.dt trail (rowsOf n (prod trail) v.data)

/-- `arr[index]` for an index that keeps the leading axis: view or copy. -/
def indexGet (a : Arr) (sel : Sel) : M Arr := fun s =>
  if sel.oob then (.error .index, s) else
  let idx := sel.pos.map (fun p => a.idx[p]?.getD 0)
  if sel.view then (.ok ⟨a.buf, idx⟩, s)
  else alloc (arrDt s a) (arrTrail s a) (arrRows s ⟨a.buf, idx⟩) s

def writeRows (rows : List Row) : List (Nat × Row) → List Row
  | [] => rows
  | (t, r) :: rest => writeRows (rows.set t r) rest

/-- `arr[sel] = value`: broadcast, cast to the buffer's dtype, write through (later duplicates win). -/
def assign (a : Arr) (sel : Sel) (v : Val) : M Unit := fun s =>
  let b := s.buf a.buf
  let k := sel.count
  let tshape := if sel.scalar then b.trail else k :: b.trail
  -- element assignment needs a 0-d value; 1-D boolean assignment needs a 0-d or 1-d value
  if sel.scalar ∧ b.trail = [] ∧ v.shape ≠ [] then (.error .value, s) else
  if sel.mask ∧ b.trail = [] ∧ v.shape.length > 1 then (.error .type, s) else
  match bcast v tshape with
  | none => (.error .value, s)
  | some flat =>
    if sel.oob then (.error .index, s) else
    match flat.mapM (castCell b.dt) with
    | none => (.error .unmodelled, s)
    | some cells =>
      let newRows := rowsOf k (prod b.trail) cells
      let targets := sel.pos.map (fun p => a.idx[p]?.getD 0)
      let b' : Buf := { b with rows := writeRows b.rows (targets.zip newRows) }
      (.ok (), { s with heap := s.heap.set a.buf b' })

def allSel (n : Nat) : Sel := { pos := List.range n, view := true, scalar := false }

/-! ## `Atoms.PropertyDict.__setitem__` -/

/-- the value handed to `view[key] = value`: a caller's literal or an ndarray already on the heap. -/
inductive Src where
  | lit (v : Val)
  | arr (a : Arr)
deriving Repr, BEq, DecidableEq

def srcVal (s : State) : Src → Val
  | .lit v => v
  | .arr a => arrVal s a

def listMin : List Rat → Option Rat
  | [] => none
  | x :: xs => some (xs.foldl (fun m y => if y < m then y else m) x)

def listMax : List Rat → Option Rat
  | [] => none
  | x :: xs => some (xs.foldl (fun m y => if m < y then y else m) x)

def pushObj (o : AtomsObj) : M Nat := fun s => (.ok s.objs.length, { s with objs := s.objs ++ [o] })

def addProp (o : Nat) (key : String) (a : Arr) : M Unit :=
  modifyS (fun s => { s with objs := s.objs.set o { s.obj o with props := (s.obj o).props ++ [⟨key, a⟩] } })

/-- "Broadcast if needed and allowed": the two broadcast branches copy. -/
def viewBcast (s : State) (n : Nat) (src : Src) : M Src :=
  let v := srcVal s src
  match v.shape with
  | [] =>
    match bcast v [n] with
    | some flat => M.pure (Src.lit ⟨v.dt, [n], flat⟩)
    | none => fail .value
  | d :: t =>
    if d = 1 then
      match bcast v (n :: t) with
      | some flat => M.pure (Src.lit ⟨v.dt, n :: t, flat⟩)
      | none => fail .value
    else if d ≠ n then fail .value
    else M.pure src

/-- "Check that atype values are 1 or greater". -/
def viewGuard (key : String) (n : Nat) (v' : Val) : M Unit :=
  if key = "atype" ∧ 0 < n then
    match v'.data.mapM Cell.num? with
    | none => fail .unmodelled
    | some nums =>
      match listMin nums with
      | some m => if m < 1 then fail .value else M.pure ()
      | none => fail .value      -- np.min of an array with a zero-length trailing axis
  else M.pure ()

/-- `view[key] = value` (also reached by `atoms.key = value` and by `Atoms.__init__`). -/
def viewSet (o : Nat) (key : String) (src : Src) : M Unit := do
  let s ← getS
  let n := (s.obj o).natoms
  let src' ← viewBcast s n src
  let v' := srcVal s src'
  viewGuard key n v'
  -- existing key: `self[key][:] = value`; new key: bind the array itself
  match (s.obj o).find key with
  | some a => assign a (allSel n) v'
  | none =>
    let a ← (match src' with
      | .lit lv => allocVal lv
      | .arr a => pure a : M Arr)
    addProp o key a

/-! ## `Atoms.__init__` -/

/-- the assignments of `Atoms.__init__` once the number of atoms is known. -/
def mkAtomsWith (n : Nat) (atypeS posS : Src) (extra : List (String × Src)) : M Nat := do
  let o ← pushObj ⟨n, []⟩
  viewSet o "atype" atypeS
  viewSet o "pos" posS
  forEach extra (fun kv => viewSet o kv.1 kv.2)
  pure o

/-- the number of atoms `Atoms.__init__` infers from `natoms` and the shapes of `atype` and `pos`. -/
def atomsCount (natoms : Option Int) (sa sp : List Nat) : Except Err Nat :=
  match (match sa with
    | [] => .ok 1
    | [n] => .ok n
    | _ => .error .value : Except Err Nat) with
  | .error e => .error e
  | .ok na =>
    match (match sp with
      | [d] => if d = 3 then .ok 1 else .error .value
      | [n, d] => if d = 3 then .ok n else .error .value
      | _ => .error .value : Except Err Nat) with
    | .error e => .error e
    | .ok np =>
      match natoms with
      | some k =>
        if k < 0 then .error .value
        else if (na = 1 ∨ na = k.toNat) ∧ (np = 1 ∨ np = k.toNat) then .ok k.toNat
        else .error .value
      | none =>
        if na = np then .ok na
        else if na = 1 then .ok np
        else if np = 1 then .ok na
        else .error .value

/-- `Atoms(natoms=…, atype=…, pos=…, **extra)`; returns the id of the new object. -/
def mkAtoms (natoms : Option Int) (atype pos : Option Src) (extra : List (String × Src)) : M Nat :=
  atomic do
    let s ← getS
    let atypeS : Src := atype.getD (.lit ⟨.int, [1], [.int 1]⟩)
    let posS : Src := pos.getD (.lit ⟨.flt, [1, 3], [.flt 0, .flt 0, .flt 0]⟩)
    let n ← liftE (atomsCount natoms (srcVal s atypeS).shape (srcVal s posS).shape)
    mkAtomsWith n atypeS posS extra

/-! ## `Atoms` methods -/

def keyErr {α : Type} : Option α → M α := liftO .key

/-- `Atoms.__getitem__`. -/
def getItem (o : Nat) (ix : Index) : M Nat :=
  atomic do
    let s ← getS
    let ob := s.obj o
    let sel ← liftE (resolve ob.natoms (atomsIndex ix))
    let views ← mapEach ob.props (fun p => do
      let a ← indexGet p.arr sel
      pure (⟨p.key, a⟩ : PropRef))
    let atype := (views.find? (fun p => p.key == "atype")).map (fun p => Src.arr p.arr)
    let pos := (views.find? (fun p => p.key == "pos")).map (fun p => Src.arr p.arr)
    let rest := views.filter (fun p => p.key != "atype" && p.key != "pos")
    mkAtoms none atype pos (rest.map (fun p => (p.key, Src.arr p.arr)))

def sameKeys (a b : List String) : Bool :=
  a.length == b.length && a.all (fun k => b.contains k) && b.all (fun k => a.contains k)

/-- `Atoms.__setitem__`: the loop stops at the first key numpy refuses (earlier keys stay written); overlap-safe
    (`arrVal` reads the donor column before `assign` writes, which is what the copy of an overlapping donor gives). -/
def setItem (o : Nat) (ix : Index) (src : Nat) : M Unit := do
  let s ← getS
  let ob := s.obj o
  let sb := s.obj src
  if ¬ sameKeys sb.keys ob.keys then fail .value else
  let sel ← liftE (resolve ob.natoms (atomsIndex ix))
  -- a donor column that may share memory with the target is copied first (fix c2a392c): every column is
  -- assigned from the donor's values as they are when that column's turn comes, never from rows already overwritten
  forEach ob.props (fun p => do
    let s' ← getS
    let a ← keyErr ((s'.obj src).find p.key)
    assign p.arr sel (arrVal s' a))

/-- `Atoms.__deepcopy__`. -/
def deepcopy (o : Nat) : M Nat :=
  atomic do
    let s ← getS
    let ob := s.obj o
    let copies ← mapEach ob.props (fun p => do
      let a ← alloc (arrDt s p.arr) (arrTrail s p.arr) (arrRows s p.arr)
      pure (⟨p.key, a⟩ : PropRef))
    let atype := (copies.find? (fun p => p.key == "atype")).map (fun p => Src.arr p.arr)
    let pos := (copies.find? (fun p => p.key == "pos")).map (fun p => Src.arr p.arr)
    let rest := copies.filter (fun p => p.key != "atype" && p.key != "pos")
    mkAtoms none atype pos (rest.map (fun p => (p.key, Src.arr p.arr)))

/-- `np.min(self.atype) < 1 → ValueError; int(np.max(self.atype))`. -/
def natypes (o : Nat) : M Nat := do
  let s ← getS
  let a ← keyErr ((s.obj o).find "atype")
  match (arrVal s a).data.mapM Cell.num? with
  | none => fail .unmodelled
  | some nums =>
    match listMin nums, listMax nums with
    | some mn, some mx => if mn < 1 then fail .value else pure (truncRat mx).toNat
    | _, _ => fail .value

/-- value read by `prop(key)` / `prop(key, index)`: a copy, returned to the caller. -/
def propGet (o : Nat) (key : String) (ix : Option Index) : M Val := do
  let s ← getS
  let a ← keyErr ((s.obj o).find key)
  match ix with
  | none => pure (arrVal s a)
  | some ix =>
    let sel ← liftE (resolve a.idx.length ix)
    if sel.oob then fail .index else
    let sub : Arr := ⟨a.buf, sel.pos.map (fun p => a.idx[p]?.getD 0)⟩
    let v := arrVal s sub
    pure (if sel.scalar then ⟨v.dt, arrTrail s a, v.data⟩ else v)

/-- `prop(index=…)`: `deepcopy(self[index])`. -/
def propGetAtoms (o : Nat) (ix : Index) : M Nat :=
  atomic do
    let t ← getItem o ix
    deepcopy t

/-- `key == 'atype' and np.size(value) > 0 and np.min(value) < 1` → ValueError. -/
def atypeGuard (key : String) (v : Val) : M Unit :=
  if key = "atype" ∧ v.data ≠ [] then
    match v.data.mapM Cell.num? with
    | none => fail .unmodelled
    | some nums =>
      match listMin nums with
      | some m => if m < 1 then fail .value else pure ()
      | none => pure ()
  else pure ()

/-- `prop(key, value=…)` / `prop(key, index, value)`. -/
def propSet (o : Nat) (key : String) (ix : Option Index) (v : Val) : M Unit := do
  match ix with
  | none => viewSet o key (.lit v)
  | some ix =>
    atypeGuard key v
    let s ← getS
    let a ← keyErr ((s.obj o).find key)
    let sel ← liftE (resolve a.idx.length ix)
    assign a sel v

/-- `prop(index=…, value=atoms)`. -/
def propSetAtoms (o : Nat) (ix : Option Index) (src : Nat) : M Unit :=
  setItem o (ix.getD (.slice none none none)) src

def zerosLike (v : Val) : Val := ⟨v.dt, v.shape, List.replicate (prod v.shape) (zeroCell v.dt)⟩

/-- `np.zeros((natoms,) + np.shape(value), dtype=np.asarray(value).dtype)`: `n` rows of zeros, each shaped like one
    per-atom value. -/
def zerosRows (n : Nat) (v : Val) : Val := ⟨v.dt, n :: v.shape, List.replicate (n * prod v.shape) (zeroCell v.dt)⟩

/-- `prop_atype`. -/
def propAtype (o : Nat) (key : String) (v : Val) (t : Option Int) : M Unit := do
  let s ← getS
  let ta ← keyErr ((s.obj o).find "atype")
  match t with
  | none =>
    match v.shape with
    | [] => fail .type                      -- len() of unsized object
    | nv :: trail =>
      let nt ← natypes o
      if nv < nt then fail .value else
      if arrDt s ta ≠ .int ∨ arrTrail s ta ≠ [] then fail .unmodelled else
      let rows := rowsOf nv (prod trail) v.data
      let picked := (arrVal s ta).data.map (fun c => match c with
        | .int i => rows[(i - 1).toNat]?.getD []
        | _ => [])
      viewSet o key (.lit ⟨v.dt, ta.idx.length :: trail, picked.flatten⟩)
  | some t =>
    let nt ← natypes o
    if ¬ (1 ≤ t ∧ t ≤ nt) then fail .value else
    if arrTrail s ta ≠ [] then fail .unmodelled else
    (match (s.obj o).find key with
      | some _ => pure ()
      | none => viewSet o key (.lit (zerosRows (s.obj o).natoms v)) : M Unit)
    atypeGuard key v
    let s' ← getS
    let a ← keyErr ((s'.obj o).find key)
    let ta' ← keyErr ((s'.obj o).find "atype")
    let mask := (arrVal s' ta').data.map (fun c => c.num? == some (t : Rat))
    assign a { pos := maskSel mask.length mask, view := false, scalar := false, mask := true } v

/-- `Atoms.extend`; `donor` is the object passed (or the `Atoms(natoms=n)` just built). -/
def extendWith (o donor : Nat) : M Nat :=
  atomic do
    let s ← getS
    let self := s.obj o
    let dn := s.obj donor
    let n := dn.natoms
    let index := (List.range self.natoms).map (fun (i : Nat) => (i : Int)) ++ List.replicate n (0 : Int)
    let nw ← getItem o (.list index)
    let total := self.natoms + n
    -- "Create empty values for atoms.props not in newatoms"
    forEach dn.props (fun p => do
      let s1 ← getS
      if ((s1.obj nw).find p.key).isSome then pure () else
      if p.arr.idx = [] then fail .index else      -- atoms.view[prop][0]
      let tr := arrTrail s1 p.arr
      let dt := arrDt s1 p.arr
      viewSet nw p.key (.lit ⟨dt, total :: tr, List.replicate (total * prod tr) (zeroCell dt)⟩))
    -- "Copy values to the extra atoms in newatoms"
    let s2 ← getS
    forEach (s2.obj nw).props (fun p => do
      let s3 ← getS
      let sel : Sel := { pos := sliceSel total (some (self.natoms : Int)) none 1, view := true, scalar := false }
      match (s3.obj donor).find p.key with
      | some da => assign p.arr sel (arrVal s3 da)
      | none =>
        match (s3.obj o).find p.key with
        | none => fail .key
        | some sa =>
          if sa.idx = [] then fail .index else    -- self.view[prop][0]
          let tr := arrTrail s3 sa
          let dt := arrDt s3 sa
          assign p.arr sel ⟨dt, n :: tr, List.replicate (n * prod tr) (zeroCell dt)⟩)
    pure nw

def extendInt (o : Nat) (n : Int) : M Nat :=
  atomic do
    let d ← mkAtoms (some n) none none []
    extendWith o d

/-! ## `System` -/

def padTo {α : Type} (l : List (Option α)) (n : Nat) : List (Option α) :=
  if l.length < n then l ++ List.replicate (n - l.length) none else l

def modifySys (i : Nat) (f : SysObj → SysObj) : M Unit :=
  modifyS (fun s => { s with syss := s.syss.set i (f (s.sys i)) })

/-- `symbols` setter. -/
def symbolsSet (i : Nat) (value : List (Option String)) : M Unit := do
  let s ← getS
  let nt ← natypes (s.sys i).atoms
  modifySys i (fun y => { y with symbols := padTo value nt })

/-- `symbols` getter (pads lazily). -/
def symbolsGet (i : Nat) : M (List (Option String)) := do
  let s ← getS
  let nt ← natypes (s.sys i).atoms
  (if (s.sys i).symbols.length < nt then symbolsSet i (s.sys i).symbols else pure () : M Unit)
  let s' ← getS
  pure (s'.sys i).symbols

/-- `System.natypes`. -/
def sysNatypes (i : Nat) : M Nat := do
  let syms ← symbolsGet i
  let s ← getS
  let nt ← natypes (s.sys i).atoms
  pure (if syms.length > nt then syms.length else nt)

/-- `masses` setter. -/
def massesSet (i : Nat) (value : List (Option Rat)) : M Unit := do
  let nt ← sysNatypes i
  if value.length > nt then fail .value else
  modifySys i (fun y => { y with masses := padTo value nt })

/-- `masses` getter (pads lazily). -/
def massesGet (i : Nat) : M (List (Option Rat)) := do
  let nt ← sysNatypes i
  let s ← getS
  (if (s.sys i).masses.length < nt then massesSet i (s.sys i).masses else pure () : M Unit)
  let s' ← getS
  pure (s'.sys i).masses

/-- `System.atypes`: `tuple(range(1, self.natypes+1))`. -/
def sysAtypes (i : Nat) : M (List Nat) := do
  let n ← sysNatypes i
  pure ((List.range n).map (· + 1))

/-- `sym_dict[symbol] += count` on an association list kept in `sorted(sym_dict)` order. -/
def addSym (k : String) (c : Nat) : List (String × Nat) → List (String × Nat)
  | [] => [(k, c)]
  | (k', c') :: rest =>
    if k = k' then (k', c' + c) :: rest
    else if k < k' then (k, c) :: (k', c') :: rest
    else (k', c') :: addSym k c rest

/-- the loop of `System.composition` over the types `ts`: `none` = "a present type has no symbol"
    (`return None`); `error index` = `self.symbols[i]` out of range. -/
def compCounts (nums : List Rat) (syms : List (Option String)) :
    List Nat → List (String × Nat) → Except Err (Option (List (String × Nat)))
  | [], d => .ok (some d)
  | t :: ts, d =>
    let cnt := (nums.filter (fun q => decide (q = ((t + 1 : Nat) : Rat)))).length
    if cnt = 0 then compCounts nums syms ts d else
    match syms[t]? with
    | none => .error .index
    | some none => .ok none
    | some (some sy) => compCounts nums syms ts (addSym sy cnt d)

/-- reduced formula from the sorted counts (`np.gcd.reduce`, `count // gcd`, count 1 not printed). -/
def compString (d : List (String × Nat)) : String :=
  let g := d.foldl (fun g kv => Nat.gcd g kv.2) 0
  d.foldl (fun acc kv => acc ++ kv.1 ++ (if kv.2 / g = 1 then "" else toString (kv.2 / g))) ""

/-- `System.composition` as a function of the atom types, the symbols and `natypes`. -/
def compOf (nums : List Rat) (syms : List (Option String)) (n : Nat) : Except Err (Option String) :=
  match compCounts nums syms (List.range n) [] with
  | .error e => .error e
  | .ok none => .ok none
  | .ok (some d) =>
    -- `np.gcd.reduce([])` is a float and has no gcd loop: TypeError (reachable only with non-integer atom types)
    if d.isEmpty then .error .type else .ok (some (compString d))

/-- `System.composition` (reads `natypes`, then `symbols`: both pad the stored symbols lazily). -/
def composition (i : Nat) : M (Option String) := do
  let n ← sysNatypes i
  let syms ← symbolsGet i
  let s ← getS
  let a ← keyErr ((s.obj (s.sys i).atoms).find "atype")
  match (arrVal s a).data.mapM Cell.num? with
  | none => fail .unmodelled
  | some nums => liftE (compOf nums syms n)

def pbcSet (i : Nat) (value : List Bool) : M Unit :=
  if value.length ≠ 3 then fail .assert else modifySys i (fun y => { y with pbc := value })

def pushSys (y : SysObj) : M Nat := fun s => (.ok s.syss.length, { s with syss := s.syss ++ [y] })

/-- `System(atoms=…, box=…, pbc=…, symbols=…, masses=…)`. -/
def mkSys (o : Nat) (box : Box Rat) (pbc : List Bool) (symbols : Option (List (Option String)))
    (masses : Option (List (Option Rat))) : M Nat :=
  atomic do
    let ms := masses.getD []
    let sy := symbols.getD (List.replicate ms.length none)
    let i ← pushSys ⟨o, box, [true, true, true], [], []⟩
    pbcSet i pbc
    symbolsSet i sy
    massesSet i ms
    pure i

/-- `box.position_relative_to_cartesian(value)` on a literal (`np.asarray(value, dtype=float)`). -/
def relToCartVal (box : Box Rat) (v : Val) : Except Err Val :=
  match v.shape.getLast? with
  | none => .error .unmodelled            -- 0-d input: IndexError on shape[-1]
  | some d =>
    if d ≠ 3 then .error .value else
    match v.data.mapM (castCell .flt) with
    | none => .error .unmodelled
    | some cells =>
      let nums := cells.map (fun c => match c with | .flt r => r | _ => 0)
      let rows := (List.range (nums.length / 3)).map (fun j =>
        let p := box.relToCart ⟨nums.getD (3 * j) 0, nums.getD (3 * j + 1) 0, nums.getD (3 * j + 2) 0⟩
        [Cell.flt p.x, Cell.flt p.y, Cell.flt p.z])
      .ok ⟨.flt, v.shape, rows.flatten⟩

/-- `atoms_prop(key, index, value, scale=True)` (set branches). -/
def sysPropSetScaled (i : Nat) (key : String) (ix : Option Index) (v : Val) : M Unit := do
  let s ← getS
  let y := s.sys i
  let v' ← liftE (relToCartVal y.box v)
  -- `self.atoms.view[key] = value` / `self.atoms.prop(key=key, index=index, value=value)`
  propSet y.atoms key ix v'

/-- `atoms_prop(index=…, value=atoms, scale=True)`: the donor's `pos` is overwritten first. -/
def sysPropSetAtomsScaled (i : Nat) (ix : Option Index) (src : Nat) : M Unit := do
  let s ← getS
  let y := s.sys i
  let pa ← keyErr ((s.obj src).find "pos")
  let v' ← liftE (relToCartVal y.box (arrVal s pa))
  viewSet src "pos" (.lit v')
  setItem y.atoms (ix.getD (.slice none none none)) src

/-- `box.position_cartesian_to_relative(value)` on a value read from the atoms:
    `np.inner(np.asarray(value, dtype=float) - origin, reciprocal_vects)`, row by row. -/
def cartToRelVal (box : Box Rat) (v : Val) : Except Err Val :=
  match v.shape.getLast? with
  | none => .error .index                 -- 0-d input: IndexError on shape[-1]
  | some d =>
    if d ≠ 3 then .error .value else
    if M3.det box.vects = 0 then .error .unmodelled else     -- LinAlgError (never a generated box)
    match v.data.mapM (castCell .flt) with
    | none => .error .unmodelled
    | some cells =>
      let nums := cells.map (fun c => match c with | .flt r => r | _ => 0)
      let rows := (List.range (nums.length / 3)).map (fun j =>
        let p := box.cartToRel ⟨nums.getD (3 * j) 0, nums.getD (3 * j + 1) 0, nums.getD (3 * j + 2) 0⟩
        [Cell.flt p.x, Cell.flt p.y, Cell.flt p.z])
      .ok ⟨.flt, v.shape, rows.flatten⟩

/-- `atoms_prop(key, index, scale=True)` without value: a pure read,
    `box.position_cartesian_to_relative(self.atoms.view[key][index])`. -/
def sysPropGetScaled (i : Nat) (key : String) (ix : Option Index) : M Val := do
  let s ← getS
  let y := s.sys i
  let v ← propGet y.atoms key ix
  liftE (cartToRelVal y.box v)

/-- `atoms_prop(index=…, scale=True)` without key and value: `newatoms = deepcopy(self.atoms[index])`
    (`deepcopy(self.atoms)` without index), then `newatoms.pos = box.position_cartesian_to_relative(newatoms.pos)`
    — an assignment to an EXISTING key of the new object, i.e. a write through `newatoms.view['pos'][:]`. -/
def sysPropGetAtomsScaled (i : Nat) (ix : Option Index) : M Nat := do
  let s ← getS
  let y := s.sys i
  let t ← (match ix with
    | none => deepcopy y.atoms
    | some ix => propGetAtoms y.atoms ix : M Nat)
  let s1 ← getS
  let pa ← keyErr ((s1.obj t).find "pos")
  let v' ← liftE (cartToRelVal y.box (arrVal s1 pa))
  viewSet t "pos" (.lit v')
  pure t

/-- `copy.deepcopy(system)`: `Atoms.__deepcopy__` for the atoms; box, pbc and the STORED symbols / masses tuples
    are copied as they are (no getter runs: a stale tuple stays stale in the copy). -/
def sysDeepcopy (i : Nat) : M (Nat × Nat) := do
  let s ← getS
  let y := s.sys i
  let a ← deepcopy y.atoms
  let j ← pushSys { y with atoms := a }
  pure (a, j)

/-- `System(atoms=…, box=…, pbc=…, scale=…, symbols=…, masses=…, safecopy=…)` with the two flags the plain `mkSys`
    leaves out: `safecopy=True` builds the system on `deepcopy(atoms)`; `scale=True` ends the constructor with
    `self.atoms_prop('pos', value=self.atoms.pos, scale=True)`, i.e. the positions handed in are box-relative and are
    overwritten IN PLACE by their Cartesian image (without `safecopy` these are the caller's atoms).
    Returns (atoms id the system is built on, system id). -/
def mkSysX (o : Nat) (box : Box Rat) (pbc : List Bool) (symbols : Option (List (Option String)))
    (masses : Option (List (Option Rat))) (scale safecopy : Bool) : M (Nat × Nat) :=
  atomic do
    let a ← (if safecopy then deepcopy o else pure o : M Nat)
    let i ← mkSys a box pbc symbols masses
    (if scale then do
      let s ← getS
      let pa ← keyErr ((s.obj a).find "pos")
      sysPropSetScaled i "pos" none (arrVal s pa)
     else pure () : M Unit)
    pure (a, i)

/-- `_AtomsIndexer.__getitem__`: returns (new atoms id, new system id). -/
def ixGet (i : Nat) (ix : Index) : M (Nat × Nat) := do
  let s ← getS
  let y := s.sys i
  let a ← getItem y.atoms ix
  let syms ← symbolsGet i
  let j ← mkSys a y.box y.pbc (some syms) none
  pure (a, j)

/-- `atoms_extend(value, scale, symbols)`; `offsetDonor = true` reproduces the code as found
    (`atoms.pos[value.natoms:]`), `false` the repaired `atoms.pos[self.natoms:]`. -/
def sysExtend (offsetDonor : Bool) (i : Nat) (value : Int ⊕ Nat) (scale : Bool)
    (symbols : Option (List (Option String))) : M (Nat × Nat) := do
  let s ← getS
  let y := s.sys i
  if scale ∧ value.isLeft then fail .value else
  let syms ← (match symbols with
    | some l => pure l
    | none => symbolsGet i : M (List (Option String)))
  let a ← (match value with
    | .inl n => extendInt y.atoms n
    | .inr d => extendWith y.atoms d)
  (if scale then
    match value with
    | .inl _ => pure ()
    | .inr d => do
      let s1 ← getS
      let pd ← keyErr ((s1.obj d).find "pos")
      let v' ← liftE (relToCartVal y.box (arrVal s1 pd))
      let pa ← keyErr ((s1.obj a).find "pos")
      let off : Nat := if offsetDonor then (s1.obj d).natoms else (s1.obj y.atoms).natoms
      assign pa { pos := sliceSel (s1.obj a).natoms (some (off : Int)) none 1, view := true, scalar := false } v'
   else pure () : M Unit)
  let j ← mkSys a y.box y.pbc (some syms) none
  pure (a, j)

/-- numpy's `dtype.kind` letter of a dtype class (unsigned integers are in the class `int`). -/
def kindOf : DType → String
  | .int => "i"
  | .flt => "f"
  | .bool => "b"
  | .str _ => "U"

/-- `Atoms.__init__`: "integer (or bool) input is stored as float": the kinds of `pos.dtype.kind in 'iub'`. -/
def posCastKinds : List String := ["i", "u", "b"]

/-- the `pos` argument of the constructor as stored: `pos.astype(float)` for the kinds above. -/
def posLit (v : Val) : Val :=
  if posCastKinds.contains (kindOf v.dt) then
    ⟨.flt, v.shape, v.data.map (fun c => (castCell .flt c).getD (.flt 0))⟩
  else v

/-- how a flag documented as `bool` is spelled: a Python `bool`, or something else with a truth value
    (`1`, `0`, `numpy.True_`, `1.0` …): `isinstance(scale, bool)`, `scale is True` and `if scale:` tell them apart. -/
inductive Flag where
  | bool (b : Bool)
  | other (truthy : Bool)
deriving Repr, DecidableEq

def Flag.isBool : Flag → Bool
  | .bool _ => true
  | .other _ => false

def Flag.truthy : Flag → Bool
  | .bool b => b
  | .other t => t

/-! ## tables: `Atoms.df()` / `System.atoms_df(scale)` -/

/-- `tools.indexstr(shape)`: every index of an array of that shape in C order with its `[i][j]…` string. -/
def indexStrs : List Nat → List (List Nat × String)
  | [] => [([], "")]
  | d :: ds => (List.range d).flatMap (fun i =>
      (indexStrs ds).map (fun p => (i :: p.1, "[" ++ toString i ++ "]" ++ p.2)))

/-- flat position (C order) of a multi-index inside one per-atom entry of trailing shape `trail`. -/
def flatIdx : List Nat → List Nat → Nat
  | _ :: ds, i :: is => i * prod ds + flatIdx ds is
  | _, _ => 0

/-- one column of the table: name, dtype class, one cell per atom. -/
structure Column where
  name : String
  dt : DType
  cells : List Cell
deriving Repr, BEq, DecidableEq

/-- the columns one property contributes: `value[(Ellipsis,) + index]` under the name `key + istr` for every index of the
    trailing shape (`value` itself for a scalar property). -/
def valColumns (key : String) (v : Val) : List Column :=
  let trail := v.shape.tail
  let rows := rowsOf (v.shape.headD 0) (prod trail) v.data
  (indexStrs trail).map (fun p => ⟨key ++ p.2, v.dt, rows.map (fun r => r.getD (flatIdx trail p.1) default)⟩)

/-- `Atoms.df()`: the columns of every property, in key order. -/
def dfColumns (s : State) (o : Nat) : List Column :=
  (s.obj o).props.flatMap (fun p => valColumns p.key (arrVal s p.arr))

/-- what `atoms_df` is handed as `scale`: a flag, one property name, a list of names. -/
inductive DfScale where
  | flag (f : Flag)
  | key (k : String)
  | keys (l : List String)
deriving Repr, DecidableEq

def DfScale.isList : DfScale → Bool
  | .keys _ => true
  | _ => false

/-- `[scale]` as a list of names a property key can equal (a flag that is neither `True` nor `False` equals no key). -/
def DfScale.single : DfScale → List String
  | .key k => [k]
  | _ => []

def DfScale.toKeys : DfScale → List String
  | .keys l => l
  | _ => []

/-- `atoms_df`: `True` → `['pos']`, `False` → `[]`, anything that is not a list → `[scale]`. -/
def dfScaleKeys (scale : DfScale) : List String :=
  match scale with
  | .flag (.bool true) => ["pos"]
  | .flag (.bool false) => []
  | .keys l => l
  | sc => sc.single

/-- `System.atoms_df(scale)`: the named properties are converted to box-relative values first (a property that cannot
    be converted raises, in key order). -/
def sysDfColumns (s : State) (i : Nat) (scale : List String) : Except Err (List Column) :=
  let y := s.sys i
  ((s.obj y.atoms).props.mapM (fun p =>
    if scale.contains p.key then (cartToRelVal y.box (arrVal s p.arr)).map (valColumns p.key)
    else .ok (valColumns p.key (arrVal s p.arr)))).map List.flatten

/-! ## operations and the step function -/

inductive Op where
  | new (natoms : Option Int) (atype pos : Option Val) (extra : List (String × Val))
  | setView (o : Nat) (key : String) (v : Val)
  | propGet (o : Nat) (key : String) (ix : Option Index)
  | propKeys (o : Nat)
  | propGetAtoms (o : Nat) (ix : Index)
  | propSet (o : Nat) (key : String) (ix : Option Index) (v : Val)
  | propSetAtoms (o : Nat) (ix : Option Index) (src : Nat)
  | getItem (o : Nat) (ix : Index)
  | setItem (o : Nat) (ix : Index) (src : Nat)
  | propAtype (o : Nat) (key : String) (v : Val) (t : Option Int)
  | extendInt (o : Nat) (n : Int)
  | extendAtoms (o : Nat) (src : Nat)
  | deepcopy (o : Nat)
  | natypes (o : Nat)
  | mkSys (o : Nat) (box : Box Rat) (pbc : List Bool) (symbols : Option (List (Option String)))
      (masses : Option (List (Option Rat)))
  | mkSysX (o : Nat) (box : Box Rat) (pbc : List Bool) (symbols : Option (List (Option String)))
      (masses : Option (List (Option Rat))) (scale safecopy : Bool)
  | symbolsGet (i : Nat)
  | symbolsSet (i : Nat) (l : List (Option String))
  | massesGet (i : Nat)
  | massesSet (i : Nat) (l : List (Option Rat))
  | pbcSet (i : Nat) (l : List Bool)
  | sysNatypes (i : Nat)
  | sysAtypes (i : Nat)
  | composition (i : Nat)
  | sysPropGet (i : Nat) (key : String) (ix : Option Index)
  | sysPropGetAtoms (i : Nat) (ix : Index)
  | sysPropGetScaled (i : Nat) (key : String) (ix : Option Index)
  | sysPropGetAtomsScaled (i : Nat) (ix : Option Index)
  | sysDeepcopy (i : Nat)
  | sysPropSet (i : Nat) (key : String) (ix : Option Index) (v : Val) (scale : Bool)
  | sysPropSetAtoms (i : Nat) (ix : Option Index) (src : Nat) (scale : Bool)
  | sysExtend (i : Nat) (value : Int ⊕ Nat) (scale : Bool) (symbols : Option (List (Option String)))
  | ixGet (i : Nat) (ix : Index)
  | ixSet (i : Nat) (ix : Index) (src : Nat ⊕ Nat)      -- Atoms id ⊕ System id
  | df (o : Nat)
  | sysDf (i : Nat) (scale : DfScale)

inductive Out where
  | unit
  | obj (o : Nat)
  | objSys (o i : Nat)
  | val (v : Val)
  | keys (l : List String)
  | nat (n : Nat)
  | syms (l : List (Option String))
  | masses (l : List (Option Rat))
  | nats (l : List Nat)
  | comp (c : Option String)
  | table (cols : List Column)
deriving Repr, BEq, DecidableEq

/-- literals of an operation are well-formed (checked by the driver's parser as well). -/
def Op.litsOk : Op → Bool
  | .new _ a p ex => (a.map Val.ok).getD true && (p.map Val.ok).getD true && ex.all (fun kv => kv.2.ok)
  | .setView _ _ v => v.ok
  | .propSet _ _ _ v => v.ok
  | .propAtype _ _ v _ => v.ok
  | .sysPropSet _ _ _ v _ => v.ok
  | _ => true

/-- object / system ids mentioned by an operation exist. -/
def Op.idsOk (s : State) : Op → Bool
  | .new .. => true
  | .setView o .. | .propGet o .. | .propKeys o | .propGetAtoms o .. | .propSet o ..
  | .getItem o .. | .propAtype o .. | .extendInt o .. | .deepcopy o | .natypes o | .df o
  | .mkSys o .. | .mkSysX o .. => decide (o < s.objs.length)
  | .propSetAtoms o _ src | .setItem o _ src | .extendAtoms o src =>
    decide (o < s.objs.length) && decide (src < s.objs.length)
  | .symbolsGet i | .symbolsSet i _ | .massesGet i | .massesSet i _ | .pbcSet i _ | .sysNatypes i
  | .sysAtypes i | .composition i
  | .sysPropGet i .. | .sysPropGetAtoms i .. | .sysPropSet i .. | .ixGet i ..
  | .sysPropGetScaled i .. | .sysPropGetAtomsScaled i .. | .sysDeepcopy i | .sysDf i .. =>
    decide (i < s.syss.length)
  | .sysPropSetAtoms i _ src _ => decide (i < s.syss.length) && decide (src < s.objs.length)
  | .sysExtend i v _ _ => decide (i < s.syss.length) && (match v with
    | .inl _ => true
    | .inr d => decide (d < s.objs.length))
  | .ixSet i _ src => decide (i < s.syss.length) && (match src with
    | .inl o => decide (o < s.objs.length)
    | .inr j => decide (j < s.syss.length))

/-- the transcription of each call, parameterised by the `atoms_extend` offset variant. -/
def run (offsetDonor : Bool) : Op → M Out
  | .new n a p ex => do
    let o ← mkAtoms n (a.map .lit) (p.map (fun v => Src.lit (posLit v))) (ex.map (fun kv => (kv.1, Src.lit kv.2)))
    pure (.obj o)
  | .setView o k v => do viewSet o k (.lit v); pure .unit
  | .propGet o k ix => do let v ← propGet o k ix; pure (.val v)
  | .propKeys o => do let s ← getS; pure (.keys (s.obj o).keys)
  | .propGetAtoms o ix => do let n ← propGetAtoms o ix; pure (.obj n)
  | .propSet o k ix v => do propSet o k ix v; pure .unit
  | .propSetAtoms o ix src => do propSetAtoms o ix src; pure .unit
  | .getItem o ix => do let n ← getItem o ix; pure (.obj n)
  | .setItem o ix src => do setItem o ix src; pure .unit
  | .propAtype o k v t => do propAtype o k v t; pure .unit
  | .extendInt o n => do let r ← extendInt o n; pure (.obj r)
  | .extendAtoms o src => do let r ← extendWith o src; pure (.obj r)
  | .deepcopy o => do let r ← deepcopy o; pure (.obj r)
  | .natypes o => do let n ← natypes o; pure (.nat n)
  | .mkSys o box pbc sy ms => do let i ← mkSys o box pbc sy ms; pure (.objSys o i)
  | .mkSysX o box pbc sy ms sc cp => do let r ← mkSysX o box pbc sy ms sc cp; pure (.objSys r.1 r.2)
  | .symbolsGet i => do let l ← symbolsGet i; pure (.syms l)
  | .symbolsSet i l => do symbolsSet i l; pure .unit
  | .massesGet i => do let l ← massesGet i; pure (.masses l)
  | .massesSet i l => do massesSet i l; pure .unit
  | .pbcSet i l => do pbcSet i l; pure .unit
  | .sysNatypes i => do let n ← sysNatypes i; pure (.nat n)
  | .sysAtypes i => do let l ← sysAtypes i; pure (.nats l)
  | .composition i => do let c ← composition i; pure (.comp c)
  | .sysPropGet i k ix => do let s ← getS; let v ← propGet (s.sys i).atoms k ix; pure (.val v)
  | .sysPropGetAtoms i ix => do let s ← getS; let n ← propGetAtoms (s.sys i).atoms ix; pure (.obj n)
  | .sysPropGetScaled i k ix => do let v ← sysPropGetScaled i k ix; pure (.val v)
  | .sysPropGetAtomsScaled i ix => do let n ← sysPropGetAtomsScaled i ix; pure (.obj n)
  | .sysDeepcopy i => do let r ← sysDeepcopy i; pure (.objSys r.1 r.2)
  | .sysPropSet i k ix v scale => do
    let s ← getS
    (if scale then sysPropSetScaled i k ix v else propSet (s.sys i).atoms k ix v : M Unit)
    pure .unit
  | .sysPropSetAtoms i ix src scale => do
    let s ← getS
    (if scale then sysPropSetAtomsScaled i ix src else propSetAtoms (s.sys i).atoms ix src : M Unit)
    pure .unit
  | .sysExtend i v scale sy => do let r ← sysExtend offsetDonor i v scale sy; pure (.objSys r.1 r.2)
  | .ixGet i ix => do let r ← ixGet i ix; pure (.objSys r.1 r.2)
  | .ixSet i ix src => do
    let s ← getS
    (match src with
      | .inl o => setItem (s.sys i).atoms ix o
      | .inr j => setItem (s.sys i).atoms ix (s.sys j).atoms : M Unit)
    pure .unit
  | .df o => do let s ← getS; pure (.table (dfColumns s o))
  | .sysDf i sc => do let s ← getS; let c ← liftE (sysDfColumns s i (dfScaleKeys sc)); pure (.table c)

/-! ## the decisions of the source as functions

  Everything below is option handling / branch selection of `Atoms.py` and `System.py`, written as total functions
  over what the branch conditions look at.  `lean/Atomman/Generated/AtomsSource.lean` is regenerated from the CURRENT
  source (module `ast`) on every check and `Proofs/C06_Source.lean` proves every generated definition equal to the one
  here (`gen_…_eq_model`), and the functions of the model above equal to their factorisation through these decisions. -/

/-- (parameter, default) of a signature, `self` and `**kwargs` left out; defaults as `ast.unparse` prints them. -/
abbrev Sig := List (String × String)

/-- `Atoms.__init__`: the names a per-atom property cannot be created under through the constructor. -/
def sigAtomsInit : Sig :=
  [("natoms", "None"), ("atype", "None"), ("pos", "None"), ("prop", "None"), ("model", "None"), ("safecopy", "False")]
def sigProp : Sig := [("key", "None"), ("index", "None"), ("value", "None"), ("a_id", "None")]
def sigPropAtype : Sig := [("key", ""), ("value", ""), ("atype", "None")]
def sigExtend : Sig := [("value", "")]
def sigAtomsProp : Sig := [("key", "None"), ("index", "None"), ("value", "None"), ("a_id", "None"), ("scale", "False")]
def sigAtomsDf : Sig := [("scale", "False")]
def sigAtomsExtend : Sig := [("value", ""), ("scale", "False"), ("symbols", "None"), ("safecopy", "False")]
def sigSystemInit : Sig :=
  [("atoms", "None"), ("box", "None"), ("pbc", "None"), ("scale", "False"), ("symbols", "None"), ("masses", "None"),
   ("model", "None"), ("safecopy", "False")]

/-- the two keys `Atoms.__init__` / `__deepcopy__` / `__getitem__` treat apart. -/
def reservedKeys : List String := ["atype", "pos"]

/-- default `atype` / `pos` of `Atoms.__init__`: shape and the one value. -/
def defaultAtypeShape : List Nat := [1]
def defaultAtypeValue : Int := 1
def defaultPosShape : List Nat := [1, 3]

/-- `PropertyDict.__setitem__`, "Broadcast if needed and allowed". -/
inductive BcastDecision where
  | scalar    -- np.array(np.broadcast_to(value, (natoms,) + value.shape))
  | row       -- np.array(np.broadcast_to(value, (natoms,) + value.shape[1:]))
  | refuse    -- ValueError('First dimension of value must be 1 or natoms')
  | keep      -- the array itself
deriving Repr, DecidableEq

def bcastDecision (shape : List Nat) (n : Nat) : BcastDecision :=
  match shape with
  | [] => .scalar
  | d :: _ => if d = 1 then .row else if d ≠ n then .refuse else .keep

/-- the three `atype >= 1` guards: (`key == 'atype'`, number of entries looked at, `np.min(value) < 1`). -/
def guardRefuses (isAtype : Prop) (len : Nat) (minLt1 : Prop) : Prop := isAtype ∧ len > 0 ∧ minLt1

/-- existing key: write through `self[key][:] = value`; new key: bind the array. -/
inductive StoreDecision where
  | writeThrough | bindNew
deriving Repr, DecidableEq

def storeDecision (has : Bool) : StoreDecision := if has then .writeThrough else .bindNew

/-- `Atoms.__init__`, the three count blocks (shape of `atype` / `pos` if given; `natoms` if given). -/
def countAtype (atype : Option (List Nat)) : Except Err Int :=
  match atype with
  | none => .ok 1
  | some [] => .ok 1
  | some [n] => .ok n
  | some _ => .error .value

def countPos (pos : Option (List Nat)) : Except Err Int :=
  match pos with
  | none => .ok 1
  | some [d] => if d = 3 then .ok 1 else .error .value
  | some [n, d] => if d = 3 then .ok n else .error .value
  | some _ => .error .value

def countNatoms (natoms : Option Int) (na np : Int) : Except Err Int :=
  match natoms with
  | some k => if (na = 1 ∨ na = k) ∧ (np = 1 ∨ np = k) then .ok k else .error .value
  | none => if na = np then .ok na else if na = 1 then .ok np else if np = 1 then .ok na else .error .value

/-- what a caller hands over as `value`: an array-like literal or an `Atoms` object. -/
inductive CallVal where
  | lit (v : Val)
  | atoms (o : Nat)
deriving Repr, DecidableEq

def CallVal.isAtoms : CallVal → Bool
  | .atoms _ => true
  | .lit _ => false

/-- what a call of `Atoms.prop(key, index, value, a_id)` does. -/
inductive PropAction where
  | refuse (e : Err)
  | keys                                                   -- list(self.view.keys())
  | copyAtoms (index : Option Index)                       -- deepcopy(self[index])
  | copyColumn (key : Option String) (index : Option Index)   -- deepcopy(self.view[key]) / deepcopy(self.view[key][index])
  | setAtoms (index : Option Index) (value : Option CallVal)  -- self[:] = value / self[index] = value
  | setColumn (key : Option String) (value : Option CallVal)  -- self.view[key] = deepcopy(value)
  | writeIndexed (key : Option String) (index : Option Index) (value : Option CallVal)  -- guard; self.view[key][index] = value
deriving Repr, DecidableEq

def propDispatch (key : Option String) (index : Option Index) (value : Option CallVal) (a_id : Option Index) :
    PropAction :=
  if a_id.isSome ∧ index.isSome then .refuse .value else
  let index := if a_id.isSome then a_id else index
  match value, key, index with
  | none, none, none => .keys
  | none, none, some ix => .copyAtoms (some ix)
  | none, some k, ix => .copyColumn (some k) ix
  | some v, none, ix => if v.isAtoms then .setAtoms ix (some v) else .refuse .type
  | some v, some k, none => .setColumn (some k) (some v)
  | some v, some k, some ix => .writeIndexed (some k) (some ix) (some v)

/-- what a call of `System.atoms_prop(key, index, value, a_id, scale)` does. -/
inductive AtomsPropAction where
  | refuse (e : Err)
  | delegate                                               -- self.atoms.prop(key=key, index=index[, value=value], a_id=a_id)
  | scaledAtoms (index : Option Index)                     -- deepcopy(self.atoms[index]) with pos made box-relative
  | scaledColumn (key : Option String) (index : Option Index)
  | scaledSetAtoms (index : Option Index) (value : Option CallVal)
  | scaledSetColumn (key : Option String) (index : Option Index) (value : Option CallVal)
deriving Repr, DecidableEq

def atomsPropDispatch (key : Option String) (index : Option Index) (value : Option CallVal) (a_id : Option Index)
    (scale : Flag) : AtomsPropAction :=
  match scale with
  | .other _ => .refuse .type
  | .bool false => .delegate
  | .bool true =>
    if a_id.isSome ∧ index.isSome then .refuse .value else
    let index := if a_id.isSome then a_id else index
    match value, key with
    | none, none => .scaledAtoms index
    | none, some k => .scaledColumn (some k) index
    | some v, none => if v.isAtoms then .scaledSetAtoms index (some v) else .refuse .type
    | some v, some k => .scaledSetColumn (some k) index (some v)

/-- `prop_atype(key, value)` (no `atype`): the table is long enough. -/
def patypeTableOk (len nt : Nat) : Prop := len ≥ nt

/-- what kind of thing `extend` / `atoms_extend` is handed. -/
inductive ArgKind where
  | int | atoms | other
deriving Repr, DecidableEq

inductive ExtDonor where
  | fresh      -- Atoms(natoms=value)
  | given      -- value
deriving Repr, DecidableEq

inductive ExtAction where
  | refuse (e : Err)
  | extend (donor : ExtDonor)
deriving Repr, DecidableEq

def extendDispatch (kind : ArgKind) : ExtAction :=
  match kind with
  | .int => .extend .fresh
  | .atoms => .extend .given
  | .other => .refuse .type

/-- `System.natypes` from `len(self.symbols)` and `self.__atoms.natypes`. -/
def sysNatypesOf (nsymbols ant : Nat) : Nat := if nsymbols > ant then nsymbols else ant

/-- the getters' "Fill in missing values" tests. -/
def symbolsGetPads (stored ant : Nat) : Prop := stored < ant
def symbolsSetPads (len ant : Nat) : Prop := len < ant
def massesGetPads (stored snt : Nat) : Prop := stored < snt

inductive MassesDecision where
  | pad | refuse | keep
deriving Repr, DecidableEq

def massesSetDecision (len snt : Nat) : MassesDecision :=
  if len < snt then .pad else if len > snt then .refuse else .keep

/-- `pbc` setter: the shape the assertion asks for. -/
def pbcShape : List Nat := [3]

/-- `atoms_extend`: the refusal `scale is True and not isinstance(value, Atoms)`, the later test `if scale:`,
    and where the scaled positions go (`atoms.pos[self.natoms:]`: `false` = not at the donor's length). -/
def atomsExtendRefuses (scale : Flag) (kind : ArgKind) : Prop := scale = .bool true ∧ kind ≠ .atoms
def atomsExtendConverts (scale : Flag) : Prop := scale.truthy = true
def atomsExtendOffsetDonor : Bool := false

/-- `System.__init__`: `isinstance(scale, bool)` else TypeError; conversion `if scale is True`; copy `elif safecopy`. -/
def systemInitRefuses (scale : Flag) : Prop := scale.isBool = false
def systemInitConverts (scale : Flag) : Prop := scale = .bool true
/-- the order in which `System.__init__` assigns through the setters. -/
def systemInitOrder : List String := ["pbc", "symbols", "masses"]

/-! ## the call layer: one Python call with its options → the operation it performs -/

/-- the arguments of `prop` / `atoms_prop` as the caller gives them (`none` = not given / `None`). -/
structure PropArgs where
  key : Option String := none
  index : Option Index := none
  value : Option CallVal := none
  a_id : Option Index := none
deriving Repr, DecidableEq

/-- `atoms.prop(**args)` on object `o`: the operation of the grammar it is, or the refusal of the option handling.
    (`format`: not a call of the grammar - a property value that is an `Atoms` object.) -/
def propCall (o : Nat) (a : PropArgs) : Except Err Op :=
  match propDispatch a.key a.index a.value a.a_id with
  | .refuse e => .error e
  | .keys => .ok (.propKeys o)
  | .copyAtoms (some ix) => .ok (.propGetAtoms o ix)
  | .copyColumn (some k) ix => .ok (.propGet o k ix)
  | .setAtoms ix (some (.atoms src)) => .ok (.propSetAtoms o ix src)
  | .setColumn (some k) (some (.lit v)) => .ok (.propSet o k none v)
  | .writeIndexed (some k) (some ix) (some (.lit v)) => .ok (.propSet o k (some ix) v)
  | _ => .error .format

/-- `system.atoms_prop(**args, scale=…)` on system `i` (whose atoms are object `o`). -/
def atomsPropCall (i o : Nat) (a : PropArgs) (scale : Flag) : Except Err Op :=
  match atomsPropDispatch a.key a.index a.value a.a_id scale with
  | .refuse e => .error e
  | .delegate =>
    (match propCall o a with
     | .ok (.propGet _ k ix) => .ok (.sysPropGet i k ix)
     | .ok (.propGetAtoms _ ix) => .ok (.sysPropGetAtoms i ix)
     | .ok (.propSet _ k ix v) => .ok (.sysPropSet i k ix v false)
     | .ok (.propSetAtoms _ ix src) => .ok (.sysPropSetAtoms i ix src false)
     | r => r)
  | .scaledAtoms ix => .ok (.sysPropGetAtomsScaled i ix)
  | .scaledColumn (some k) ix => .ok (.sysPropGetScaled i k ix)
  | .scaledSetAtoms ix (some (.atoms src)) => .ok (.sysPropSetAtoms i ix src true)
  | .scaledSetColumn (some k) ix (some (.lit v)) => .ok (.sysPropSet i k ix v true)
  | _ => .error .format

/-- `System(atoms=o, box=…, pbc=…, scale=…, symbols=…, masses=…, safecopy=…)` with the flags as spelled. -/
def systemCall (o : Nat) (box : Box Rat) (pbc : List Bool) (symbols : Option (List (Option String)))
    (masses : Option (List (Option Rat))) (scale safecopy : Flag) : Except Err Op :=
  match scale with
  | .other _ => .error .type
  | .bool sc => .ok (.mkSysX o box pbc symbols masses sc safecopy.truthy)

/-- `system.atoms_extend(value, scale=…, symbols=…)`: an int / an `Atoms` object.  (`format`: a truthy non-bool
    `scale` with a count - the code fails on `value.pos` with an AttributeError, not a call of the grammar.) -/
def atomsExtendCall (i : Nat) (value : Int ⊕ Nat) (scale : Flag) (symbols : Option (List (Option String))) :
    Except Err Op :=
  match value, scale with
  | .inl _, .bool true => .error .value
  | .inl _, .other true => .error .format
  | v, sc => .ok (.sysExtend i v sc.truthy symbols)

/-- a call of the API with its options. -/
inductive Call where
  | prop (o : Nat) (a : PropArgs)
  | atomsProp (i : Nat) (a : PropArgs) (scale : Flag)
  | system (o : Nat) (box : Box Rat) (pbc : List Bool) (symbols : Option (List (Option String)))
      (masses : Option (List (Option Rat))) (scale safecopy : Flag)
  | atomsExtend (i : Nat) (value : Int ⊕ Nat) (scale : Flag) (symbols : Option (List (Option String)))
  | raw (op : Op)

def Call.toOp (s : State) : Call → Except Err Op
  | .prop o a => propCall o a
  | .atomsProp i a sc => atomsPropCall i (s.sys i).atoms a sc
  | .system o box pbc sy ms sc cp => systemCall o box pbc sy ms sc cp
  | .atomsExtend i v sc sy => atomsExtendCall i v sc sy
  | .raw op => .ok op

/-- one step of a history.  Malformed literals / dangling ids are `format` errors (the harness never
    sends them); an `unmodelled` outcome leaves the state untouched. -/
def stepWith (offsetDonor : Bool) (s : State) (op : Op) : Except Err Out × State :=
  if ¬ (op.litsOk ∧ op.idsOk s) then (.error .format, s) else
  match run offsetDonor op s with
  | (.error .unmodelled, _) => (.error .unmodelled, s)
  | r => r

/-- the model of the current source (`atoms_extend` writes the scaled positions at `self.natoms`). -/
def step (s : State) (op : Op) : State := (stepWith false s op).2
def output (s : State) (op : Op) : Except Err Out := (stepWith false s op).1

def init : State := {}

/-- one call: a refusal of the option handling changes nothing; otherwise the operation is stepped. -/
def callWith (offsetDonor : Bool) (s : State) (c : Call) : Except Err Out × State :=
  match c.toOp s with
  | .error e => (.error e, s)
  | .ok op => stepWith offsetDonor s op

def callStep (s : State) (c : Call) : State := (callWith false s c).2
def callOutput (s : State) (c : Call) : Except Err Out := (callWith false s c).1


end Atomman.C06
