/-
  C13 — dislocation configurations (core Lean only).

  Sources: atomman/defect/Dislocation/__init__.py  (`__set_cells`, `__identify_shifts`, `set_shift`)
           atomman/defect/Dislocation/_monopole.py (`monopole`, `box_boundary`, `cylinder_boundary`)
           atomman/defect/Dislocation/_periodicarray.py (`periodicarray`, `build_disl_array`,
                                                        `array_boundary`, `linear_displacement`)
           atomman/region/Plane.py, PlaneSet.py, Cylinder.py, Shape.py (`below`, `inside`, `outside`)
           atomman/core/Box.py (`planes`, `volume`)

  Re-used models (imported, not copied): `C04.supersize` (replica order and positions), `C05.wrap`
  (floor of the scaled coordinate on periodic axes, padding of the cell on the others), `dmag2`
  (the 27-image minimum of `dvect_c`), and from C14 the centring matrices, `reduceGcd`, the rounding
  of layer coordinates and the mid-layer shift list.

  External numerical routines are parameters:
    * `fl : K → Int`     `numpy.floor` (driver: `Rat.floor`)
    * `pad : K`          the literal `0.001` of `System.wrap`
    * `sqrt : K → K`     the one square root that cannot be removed by squaring: the cylinder radius
                         `min(‖intersection‖) - width` (driver: `C05.ratSqrt`)
    * `u : V3 K → V3 K`  the elastic displacement field `dislsol.displacement` (driver: the table of
                         the real solver's values at the reference positions, see `monopoleTab`)
    * `ceil(amin / a)`   is passed in as an optional integer per box direction
  The angle comparisons of `__set_cells` (`vect_angle`, `isclose(angle, 90)`, `isclose(angle, min)`)
  are modelled by the order-equivalent comparisons of signed squared cosines; `isclose(·, 90)` is an
  exact zero of the dot product.  The directions `m`, `n` are used un-normalised in the frame of the
  conventional cell (`N = hkl · reciprocal vectors`, `M = N × Ξ`); the code's `m_cart`, `n_cart` are the
  same directions normalised and rotated into the frame of the primitive cell, and every comparison is
  invariant under a common rotation and positive scaling.
-/
import Atomman.Prelude
import Atomman.Box
import Atomman.Dvect
import Atomman.C04
import Atomman.C05
import Atomman.C14

namespace Atomman.C13
open Atomman

abbrev IV := V3 Int

/-! ### Cartesian axes chosen for `m` and `n` -/

inductive Ax | x | y | z
deriving Repr, DecidableEq

def Ax.idx : Ax → Nat | .x => 0 | .y => 1 | .z => 2
def Ax.ofString? : String → Option Ax
  | "x" => some .x | "y" => some .y | "z" => some .z | _ => none
def Ax.unit : Ax → IV | .x => ⟨1, 0, 0⟩ | .y => ⟨0, 1, 0⟩ | .z => ⟨0, 0, 1⟩

/-- `indices[np.isclose(np.abs(v), 1.0)][0]` for an axis vector with entries in {-1, 0, 1}. -/
def axisIndex (v : IV) : Option Nat :=
  if v.x.natAbs = 1 then some 0 else if v.y.natAbs = 1 then some 1 else if v.z.natAbs = 1 then some 2 else none

structure Orient where
  cut : Nat
  line : Nat
  motion : Nat
  /-- `dislsol.ξ = m × n` -/
  xi : IV
deriving Repr, DecidableEq

/-- `cutindex`, `lineindex`, `motionindex`.  `none` = the assertion "m, n axes must be perpendicular"
    of `VolterraDislocation.__mn_check` (the only way two Cartesian axes fail it is `m = n`). -/
def orient (m n : Ax) : Option Orient :=
  if m = n then none else
  let xi := V3.cross m.unit n.unit
  match axisIndex n.unit, axisIndex xi with
  | some c, some l => if c = l then none else some ⟨c, l, 3 - (l + c), xi⟩
  | _, _ => none

/-! ### `__set_cells`: the three integer cell vectors -/

/-- `product(range(-n, n+1), repeat=3)` without `[0,0,0]` (first index slowest). -/
def allUvws (n : Int) : List IV :=
  (intRange (-n) (n + 1)).flatMap fun u => (intRange (-n) (n + 1)).flatMap fun v =>
    (intRange (-n) (n + 1)).filterMap fun w =>
      if u = 0 ∧ v = 0 ∧ w = 0 then none else some (⟨u, v, w⟩ : IV)

section
variable {K : Type} [Add K] [Sub K] [Mul K] [Zero K] [IntCast K] [LT K] [DecidableLT K] [DecidableEq K]

/-- `vector_crystal_to_cartesian(uvw, box)`. -/
def cart (pv : M3 K) (v : IV) : V3 K := M3.vecMul (C14.toK v) pv

/-- candidate with what the comparisons need: `d = cart · axis`, `m2 = |cart|²`. -/
structure Cand (K : Type) where
  v : IV
  d : K
  m2 : K

def mkCand (pv : M3 K) (axis : V3 K) (v : IV) : Cand K :=
  let c := cart pv v
  ⟨v, V3.dot c axis, V3.normSq c⟩

/-- `cos a < cos b` for `cos = d / sqrt m2` (`m2 > 0`), without the square root. -/
def cosLt (a b : Cand K) : Bool :=
  if b.d < 0 then
    (if a.d < 0 then decide (b.d * b.d * a.m2 < a.d * a.d * b.m2) else false)
  else
    (if a.d < 0 then true else decide (a.d * a.d * b.m2 < b.d * b.d * a.m2))

/-- keep the first candidate of largest cosine (= smallest angle): `arr[isclose(angle, angle.min())][0]`. -/
def bestStep (best : Option (Cand K)) (c : Cand K) : Option (Cand K) :=
  match best with
  | none => some c
  | some b => if cosLt b c then some c else some b

def bestOf (l : List (Cand K)) : Option (Cand K) := l.foldl bestStep none

/-- `isclose(n_angle, 90.0)` as an exact zero. -/
def inPlane (pv : M3 K) (N : V3 K) (v : IV) : Bool := decide (V3.dot (cart pv v) N = 0)

/-- in-plane candidate closest to `M` (before the gcd reduction). -/
def searchM (pv : M3 K) (N M : V3 K) (n : Int) : Option (Cand K) :=
  bestOf (((allUvws n).filter (inPlane pv N)).map (mkCand pv M))

/-- candidate closest to `N`. -/
def searchN (pv : M3 K) (N : V3 K) (n : Int) : Option (Cand K) :=
  bestOf ((allUvws n).map (mkCand pv N))

end

/-- the six row orders of `__set_cells`: the row along the line is `ξ` when `m × n` is a positive Cartesian axis
    and `-ξ` when it is a negative one, so that the rotated cell is oriented like the elastic solution. -/
def orderUvws (cut line : Nat) (xi m n : IV) : M3 Int :=
  if cut = 2 then (if line = 0 then ⟨xi, m, n⟩ else ⟨m, -xi, n⟩)
  else if cut = 1 then (if line = 2 then ⟨m, n, xi⟩ else ⟨-xi, n, m⟩)
  else (if line = 1 then ⟨n, xi, m⟩ else ⟨n, m, -xi⟩)

/-- `vector_conventional_to_primitive(ξ_uvw)`; `none` when the result is not integral
    (`System.rotate`: "Rotation uvws must be integer values"). -/
def xiPrim (L : M3 Int) (xi : V3 Rat) : Option IV :=
  let LQ : M3 Rat := ⟨L.r0.map (fun (i : Int) => (i : Rat)), L.r1.map (fun (i : Int) => (i : Rat)),
    L.r2.map (fun (i : Int) => (i : Rat))⟩
  let w := M3.vecMul xi LQ
  if w.x.den = 1 ∧ w.y.den = 1 ∧ w.z.den = 1 then some ⟨w.x.num, w.y.num, w.z.num⟩ else none

structure Cells where
  uvws : M3 Int
  o : Orient
  mRaw : IV
  nRaw : IV
deriving Repr

section
variable {K : Type} [Add K] [Sub K] [Mul K] [Div K] [Zero K] [IntCast K] [LT K] [DecidableLT K] [DecidableEq K]
  [LE K] [DecidableLE K]

/-- primitive cell vectors in the Cartesian frame of the conventional cell: `L⁻¹ · vects`. -/
def primVects (L : M3 Int) (vects : M3 K) : M3 K :=
  let a := C14.adj L
  let d : K := ((M3.det L : Int) : K)
  let m := M3.mul (⟨C14.toK a.r0, C14.toK a.r1, C14.toK a.r2⟩ : M3 K) vects
  ⟨⟨m.r0.x / d, m.r0.y / d, m.r0.z / d⟩, ⟨m.r1.x / d, m.r1.y / d, m.r1.z / d⟩, ⟨m.r2.x / d, m.r2.y / d, m.r2.z / d⟩⟩

/-- direction of the slip-plane normal as `plane_crystal_to_cartesian` forms it before normalising:
    `s * cross(a_uvw · vects, b_uvw · vects)` with the seven zero-pattern branches (shared with
    `free_surface_basis`: `C14.initVectors`).  `none` = "indices cannot be all zeros". -/
def normalDir (vects : M3 K) (hkl : IV) : Option (V3 K) :=
  (C14.initVectors hkl).map fun ini => C14.planeNormal vects ini.s ini.a0 ini.b0

/-- the refusal after `rotate`: in the LAMMPS-normal rotated cell (`a` along x, `b` in the xy plane) the box
    vector along the line must have no component along the cut and motion axes and the in-plane vector none along
    the cut axis (the coded test is `!= 0.0` on entries that the `Box.vects` setter has zeroed when they are below
    `1e-9` of the largest entry: `tol2` is the square of that relative bound, `0` for the exact test).
    In terms of the un-rotated rows `A, B, C`: `xy = A·B/|A|`, `xz = A·C/|A|`,
    `yz = ((B·C)(A·A) - (A·B)(A·C)) / (|A| sqrt((A·A)(B·B) - (A·B)²))`; the scale is the largest squared row length. -/
def aligned (tol2 : K) (o : Orient) (A B C : V3 K) : Bool :=
  let aa := V3.dot A A; let bb := V3.dot B B; let cc := V3.dot C C
  let ab := V3.dot A B; let ac := V3.dot A C; let bc := V3.dot B C
  let mx := fun (x y : K) => if x < y then y else x
  let S := mx (mx aa bb) cc
  let xy0 := decide (ab * ab ≤ tol2 * S * aa)
  let xz0 := decide (ac * ac ≤ tol2 * S * aa)
  let num := bc * aa - ab * ac
  let yz0 := decide (num * num ≤ tol2 * S * aa * (aa * bb - ab * ab))
  if o.cut = 2 then (if o.line = 0 then true else xy0)
  else if o.cut = 1 then (if o.line = 0 then yz0 else yz0 && xz0)
  else (if o.line = 1 then xy0 && xz0 else xy0 && xz0 && yz0)

/-- `__set_cells` up to the call of `rotate`.  Errors: `assert` (m = n), `value` (no in-plane vector, ξ not
    integral in the primitive setting, the three vectors are coplanar: `rotate` refuses, or the rotated cell
    cannot be aligned with the axes of the solution). -/
def setCells (tol2 : K) (pv : M3 K) (N Xi : V3 K) (xiP : IV) (m n : Ax) (maxindex : Int) : Except String Cells :=
  match orient m n with
  | none => .error "assert"
  | some o =>
    let M := V3.cross N Xi
    match searchM pv N M maxindex, searchN pv N maxindex with
    | some cm, some cn =>
      let mu := C14.reduceGcd cm.v
      let nu := C14.reduceGcd cn.v
      let U := orderUvws o.cut o.line xiP mu nu
      if M3.det U = 0 then .error "value" else
      if !aligned tol2 o (cart pv U.r0) (cart pv U.r1) (cart pv U.r2) then .error "value" else .ok ⟨U, o, cm.v, cn.v⟩
    | _, _ => .error "value"

end

/-! ### `__identify_shifts` -/

/-- strictly ascending insertion without duplicates (`np.unique`). -/
def insertUniq (k : Int) : List Int → List Int
  | [] => [k]
  | h :: t => if k < h then k :: h :: t else if k = h then h :: t else h :: insertUniq k t

/-- `np.unique(pos[:, cutindex].round(numdec))`: the distinct rounded coordinates, ascending. -/
def roundedCoords (numdec : Nat) (xs : List Rat) : List Rat :=
  (xs.foldl (fun acc x => insertUniq (C14.roundKey numdec x) acc) []).map
    (fun (k : Int) => (k : Rat) / ((10 ^ numdec : Nat) : Rat))

/-- `numdec = -int(floor(log10(tol)))` for `tol = 10^-k` is `k`; the driver receives `numdec`. -/
def identifyShifts {K : Type} [Add K] [Sub K] [Mul K] [Div K] [Neg K] [Zero K] [IntCast K] [LT K] [DecidableLT K]
    (coords : List K) (W tol : K) : List K := C14.shifts coords W tol

/-! ### size multipliers -/

/-- the `try: assert …` block: three positive integers, the two not along the line even (`none` = TypeError). -/
def checkMults (line : Nat) (s : IV) : Option IV :=
  if 0 < s.x ∧ 0 < s.y ∧ 0 < s.z ∧ s.get ((line + 2) % 3) % 2 = 0 ∧ s.get ((line + 1) % 3) % 2 = 0
  then some s else none

/-- default `[2,2,2]` with 1 along the line. -/
def defaultMults (line : Nat) : IV :=
  ⟨if line = 0 then 1 else 2, if line = 1 then 1 else 2, if line = 2 then 1 else 2⟩

/-- the `amin/bmin/cmin` adjustment of one direction (`q = ceil(min / length)`, `none` when `min ≤ 0`). -/
def minMult (line i : Nat) (q : Option Int) (cur : Int) : Int :=
  match q with
  | none => cur
  | some q =>
    let q' := if i ≠ line ∧ q % 2 = 1 then q + 1 else q
    if q' > cur then q' else cur

/-- `(0, s)` along the line, `(-s // 2, s // 2)` otherwise. -/
def sizeOf (line i : Nat) (s : Int) : C04.Size :=
  if i = line then ⟨0, s⟩ else ⟨(-s) / 2, s / 2⟩

structure Sizes where
  a : C04.Size
  b : C04.Size
  c : C04.Size
deriving Repr, DecidableEq

/-- the whole multiplier handling: `none` = TypeError. -/
def sizes (line : Nat) (mults : Option IV) (qa qb qc : Option Int) : Option Sizes :=
  let s? := match mults with
    | none => some (defaultMults line)
    | some s => checkMults line s
  match s? with
  | none => none
  | some s =>
    some ⟨sizeOf line 0 (minMult line 0 qa s.x), sizeOf line 1 (minMult line 1 qb s.y),
          sizeOf line 2 (minMult line 2 qc s.z)⟩

/-! ### parameter handling: which shift, core centre and boundary width the generators use

  `Dislocation.set_shift` (called by `__init__`, and by `monopole` / `periodicarray` only when a `shift` or a
  `shiftindex` is given in the call), the `center` / `centerscale` and `boundarywidth` / `boundaryscale`
  conversions at the head of `monopole` and `periodicarray`.  The object keeps the last shift it was given. -/

/-- Python list indexing `l[i]` (negative indices count from the end); `none` = IndexError. -/
def pyGet? {α : Type} (l : List α) (i : Int) : Option α :=
  if 0 ≤ i then l[i.toNat]?
  else if -i ≤ (l.length : Int) then l[((l.length : Int) + i).toNat]? else none

/-- the three shift arguments of `__init__`, `set_shift`, `monopole`, `periodicarray`. -/
structure ShiftArgs (K : Type) where
  shift : Option (V3 K)
  index : Option Int
  scale : Bool

section
variable {K : Type} [Add K] [Mul K] [Zero K]

/-- `set_shift(shift, shiftindex, shiftscale)`: an explicitly given vector is taken as it is or, with
    `shiftscale`, relative to the box vectors of the rotated cell (`vector_crystal_to_cartesian`: the *row*
    combination `s · vects`); an index selects from the list of offered shifts, no argument selects the first;
    `shiftscale` says how a *given vector* is read and nothing else.
    Errors: `value` (shift and shiftindex both given), `index` (IndexError of the list). -/
def setShift (vects : M3 K) (shifts : List (V3 K)) (a : ShiftArgs K) : Except String (V3 K) :=
  match a.shift, a.index with
  | some _, some _ => .error "value"
  | some s, none => .ok (if a.scale then M3.vecMul s vects else s)
  | none, some i => match pyGet? shifts i with
    | some s => .ok s
    | none => .error "index"
  | none, none => match shifts with
    | s :: _ => .ok s
    | [] => .error "index"

/-- a call on a `Dislocation` object that touches its shift: `set_shift(...)` itself, or a generator
    (`monopole(...)`, `periodicarray(...)`) with the shift arguments it was given. -/
inductive ShiftCall (K : Type) where
  | set (a : ShiftArgs K)
  | gen (a : ShiftArgs K)

/-- does the generator call `set_shift` at all (`if shift is not None or shiftindex is not None`). -/
def ShiftArgs.given {K : Type} (a : ShiftArgs K) : Bool := a.shift.isSome || a.index.isSome

/-- one call on an object whose current shift is `cur`: new current shift and what the call used (or its
    refusal).  A refused call leaves the shift of the object as it was; a generator called without `shift` and
    `shiftindex` uses the current one whatever `shiftscale` says. -/
def ShiftCall.step (vects : M3 K) (shifts : List (V3 K)) (cur : V3 K) : ShiftCall K → V3 K × Except String (V3 K)
  | .set a => match setShift vects shifts a with
    | .ok s => (s, .ok s)
    | .error e => (cur, .error e)
  | .gen a =>
    if a.given then
      match setShift vects shifts a with
      | .ok s => (s, .ok s)
      | .error e => (cur, .error e)
    else (cur, .ok cur)

/-- a history of calls on one object: final shift and the reply of every call. -/
def runShiftCalls (vects : M3 K) (shifts : List (V3 K)) : V3 K → List (ShiftCall K) → V3 K × List (Except String (V3 K))
  | cur, [] => (cur, [])
  | cur, c :: cs =>
    let r := c.step vects shifts cur
    let rest := runShiftCalls vects shifts r.1 cs
    (rest.1, r.2 :: rest.2)

/-- `center` (default the origin) and `centerscale` (relative to the box vectors of the rotated cell). -/
def resolveCenter (vects : M3 K) (center : Option (V3 K)) (scale : Bool) : V3 K :=
  let c := center.getD ⟨0, 0, 0⟩
  if scale then M3.vecMul c vects else c

/-- `boundarywidth` and `boundaryscale` (relative to the `a` lattice parameter of the *given* unit cell). -/
def resolveWidth (ucellA width : K) (scale : Bool) : K := if scale then width * ucellA else width

end

/-! ### reference system: supersize, shift, wrap -/

abbrev Atom := C04.Atom

def pbcOnly (i : Nat) : V3 Bool := ⟨i = 0, i = 1, i = 2⟩
def pbcExcept (i : Nat) : V3 Bool := ⟨i ≠ 0, i ≠ 1, i ≠ 2⟩

/-- put new positions on a list of atoms (`atoms.pos = …`). -/
def setPos {K : Type} (atoms : List (Atom K)) (ps : List (V3 K)) : List (Atom K) :=
  List.zipWith (fun a p => { a with pos := p }) atoms ps

structure Sys (K : Type) where
  box : Box K
  pbc : V3 Bool
  atoms : List (Atom K)

section
variable {K : Type} [Add K] [Sub K] [Mul K] [Div K] [Zero K] [One K] [IntCast K]
  [LT K] [LE K] [DecidableLT K] [DecidableLE K]

/-- `rcell.supersize(*sizemults)`, `pos += shift`, `wrap()`. -/
def baseSystem (fl : K → Int) (pad : K) (rcell : Sys K) (sz : Sizes) (shift : V3 K) : Sys K :=
  let sb := C04.superBox rcell.box sz.a sz.b sz.c
  let sup := C04.supersizeAtoms rcell.box sz.a sz.b sz.c rcell.atoms
  let w := C05.wrap fl pad sb rcell.pbc (sup.map (fun a => a.pos + shift))
  ⟨w.box, rcell.pbc, setPos sup w.pos⟩

/-- `pos += dislsol.displacement(pos - center)`. -/
@[inline] def displaced (u : V3 K → V3 K) (center p : V3 K) : V3 K := p + u (p - center)

/-- `monopole` before the boundary re-typing: displaced copy, pbc only along the line, `wrap()`. -/
def monopoleRaw (fl : K → Int) (pad : K) (u : V3 K → V3 K) (line : Nat) (center : V3 K) (base : Sys K) : Sys K :=
  let w := C05.wrap fl pad base.box (pbcOnly line) (base.atoms.map (fun a => displaced u center a.pos))
  ⟨w.box, pbcOnly line, setPos base.atoms w.pos⟩

/-- the same with the displacements given as a table (one vector per atom, in order): what the driver runs. -/
def monopoleRawTab (fl : K → Int) (pad : K) (tab : List (V3 K)) (line : Nat) (base : Sys K) : Sys K :=
  let w := C05.wrap fl pad base.box (pbcOnly line) (List.zipWith (fun a d => a.pos + d) base.atoms tab)
  ⟨w.box, pbcOnly line, setPos base.atoms w.pos⟩

end

/-! ### regions -/
section
variable {K : Type} [Add K] [Sub K] [Mul K] [Zero K] [LT K] [LE K] [DecidableLT K] [DecidableLE K]

/-- un-normalised outward normals and points of `Box.planes` (Box.py:405-410). -/
def boxPlanes (b : Box K) : List (V3 K × V3 K) :=
  let a := b.vects.r0; let bb := b.vects.r1; let c := b.vects.r2
  [(V3.cross c bb, b.origin), (V3.cross a c, b.origin), (V3.cross bb a, b.origin),
   (V3.cross bb c, b.origin + a), (V3.cross c a, b.origin + bb), (V3.cross a bb, b.origin + c)]

/-- a point is *not* `below(inclusive=True)` the plane with unit normal `nrm/|nrm|` through
    `pt - width * nrm/|nrm|`: `n̂·p > n̂·pt - width`, in squared form (`g = nrm·(p - pt)`,
    `g > -width·|nrm|` ⇔ `0 ≤ g ∨ g² < width²·|nrm|²` for `width > 0`). -/
def outsidePlane (width : K) (pl : V3 K × V3 K) (p : V3 K) : Bool :=
  let g := V3.dot pl.1 (p - pl.2)
  decide (0 ≤ g) || decide (g * g < width * width * V3.normSq pl.1)

/-- `PlaneSet.outside(pos)` = `~inside(pos, inclusive=True)`. -/
def outsidePlanes (width : K) (pls : List (V3 K × V3 K)) (p : V3 K) : Bool := pls.any (fun pl => outsidePlane width pl p)

/-- planes of `box_boundary`: both faces of the two directions that are not the line, in the coded order. -/
def boxBoundaryPlanes (line : Nat) (b : Box K) : List (V3 K × V3 K) :=
  let pl := boxPlanes b
  ([0, 1, 2].filter (· ≠ line)).flatMap fun i => [pl.getD i (b.origin, b.origin), pl.getD (i + 3) (b.origin, b.origin)]

/-- planes of `array_boundary`: the two faces across the cut direction. -/
def arrayBoundaryPlanes (cut : Nat) (b : Box K) : List (V3 K × V3 K) :=
  let pl := boxPlanes b
  [pl.getD cut (b.origin, b.origin), pl.getD (cut + 3) (b.origin, b.origin)]

end

section
variable {K : Type} [Add K] [Sub K] [Mul K] [Div K] [Zero K] [LT K] [LE K] [DecidableLT K] [DecidableLE K]

/-- 2D cross product. -/
@[inline] def cross2 (a b : K × K) : K := a.1 * b.2 - a.2 * b.1

/-- components along the `m` and `n` axes (`mn.dot(v)` for Cartesian unit vectors `m`, `n`). -/
@[inline] def proj2 (mi ni : Nat) (v : V3 K) : K × K := (v.get mi, v.get ni)

/-- squared distance from (0,0) to the line through `p` with direction `v`: `cross2(p, v)² / |v|²`
    (the norm of `intersection(normal_line, boundary_line)`). -/
def lineDist2 (p v : K × K) : K := cross2 p v * cross2 p v / (v.1 * v.1 + v.2 * v.2)

def min4 (a b c d : K) : K :=
  let m := fun (x y : K) => if y < x then y else x
  m (m (m a b) c) d

/-- `smallest²` of `cylinder_boundary`: the four boundary lines `bot1, bot2, top1, top2`. -/
def cylSmallest2 (mi ni line : Nat) (b : Box K) : K :=
  let v1 := proj2 mi ni (b.vects.row ((line + 1) % 3))     -- box.vects[lineindex - 2]
  let v2 := proj2 mi ni (b.vects.row ((line + 2) % 3))     -- box.vects[lineindex - 1]
  let o := proj2 mi ni b.origin
  min4 (lineDist2 o v1) (lineDist2 o v2) (lineDist2 (o.1 + v2.1, o.2 + v2.2) v1)
       (lineDist2 (o.1 + v1.1, o.2 + v1.2) v2)

/-- `radius = smallest - width`. -/
def cylRadius (sqrt : K → K) (mi ni line : Nat) (b : Box K) (width : K) : K :=
  sqrt (cylSmallest2 mi ni line b) - width

/-- `Cylinder(0, vects[line], radius, endcaps=False).outside(pos)`: `|pos × axis| > radius`, squared. -/
def outsideCyl (L : V3 K) (radius : K) (p : V3 K) : Bool :=
  decide (radius * radius * V3.normSq L < V3.normSq (V3.cross p L))

end

/-! ### boundary re-typing -/

def maxAtype {K : Type} (atoms : List (Atom K)) : Int := atoms.foldl (fun m a => max m a.atype) 0

/-- `System.natypes`: the larger of `len(symbols)` and the largest atype. -/
def natypes {K : Type} (nsym : Nat) (atoms : List (Atom K)) : Int := max (nsym : Int) (maxAtype atoms)

/-- `atype[outside] += natypes`. -/
def retype {K : Type} (out : V3 K → Bool) (nt : Int) (atoms : List (Atom K)) : List (Atom K) :=
  atoms.map fun a => if out a.pos then { a with atype := a.atype + nt } else a

inductive Shape | box | cylinder
deriving Repr, DecidableEq

section
variable {K : Type} [Add K] [Sub K] [Mul K] [Div K] [Zero K] [One K] [IntCast K]
  [LT K] [LE K] [DecidableLT K] [DecidableLE K]

/-- the boundary step of `monopole`: the region is built from the box of the *reference* system and
    tested on the *displaced, wrapped* positions; `natypes` is the reference system's.
    `none` = the assertion `radius > 0` of `Cylinder`. -/
def monopoleBoundary (sqrt : K → K) (o : Orient) (shape : Shape) (width : K) (nsym : Nat)
    (base disl : Sys K) : Option (Sys K) :=
  if width > 0 then
    let nt := natypes nsym base.atoms
    match shape with
    | .box =>
      some { disl with atoms := retype (outsidePlanes width (boxBoundaryPlanes o.line base.box)) nt disl.atoms }
    | .cylinder =>
      let r := cylRadius sqrt o.motion o.cut o.line base.box width
      if r > 0 then
        some { disl with atoms := retype (outsideCyl (base.box.vects.row o.line) r) nt disl.atoms }
      else none
  else some disl

/-- `Dislocation.monopole` (after the multiplier/shift/center parameter handling): reference system and
    dislocation system. -/
def monopole (fl : K → Int) (pad : K) (sqrt : K → K) (u : V3 K → V3 K) (o : Orient) (rcell : Sys K) (sz : Sizes)
    (shift center : V3 K) (shape : Shape) (width : K) (nsym : Nat) : Option (Sys K × Sys K) :=
  let base := baseSystem fl pad rcell sz shift
  let disl := monopoleRaw fl pad u o.line center base
  (monopoleBoundary sqrt o shape width nsym base disl).map fun d => (base, d)

/-- what the driver runs: the displacement table replaces `u`. -/
def monopoleTab (fl : K → Int) (pad : K) (sqrt : K → K) (tab : List (V3 K)) (o : Orient) (rcell : Sys K)
    (sz : Sizes) (shift : V3 K) (shape : Shape) (width : K) (nsym : Nat) : Option (Sys K × Sys K) :=
  let base := baseSystem fl pad rcell sz shift
  let disl := monopoleRawTab fl pad tab o.line base
  (monopoleBoundary sqrt o shape width nsym base disl).map fun d => (base, d)

end

/-! ### periodic array -/
section
variable {K : Type} [Add K] [Sub K] [Mul K] [Div K] [Neg K] [Zero K] [One K] [IntCast K]
  [LT K] [LE K] [DecidableLT K] [DecidableLE K]

def absK (x : K) : K := if x < 0 then -x else x

/-- `np.sign`. -/
def sgn (x : K) : K := if x < 0 then -1 else if 0 < x then 1 else 0

def half : K := 1 / ((2 : Int) : K)
def quarter : K := 1 / ((4 : Int) : K)

/-- `linear_displacement(pos, burgers, length, m, n)` for Cartesian axes `m`, `n`:
    `sign(p·n) * (0.25 - p·m / (2 length)) * burgers`. -/
def linearDisp (mi ni : Nat) (burgers : V3 K) (length : K) (p : V3 K) : V3 K :=
  V3.smul (sgn (p.get ni) * (quarter - p.get mi / (((2 : Int) : K) * length))) burgers

def setRow (m : M3 K) (i : Nat) (r : V3 K) : M3 K :=
  if i = 0 then { m with r0 := r } else if i = 1 then { m with r1 := r } else { m with r2 := r }

/-- `newvects[motionindex] -= burgers/2` when `burgers·m > 0`, `+=` otherwise. -/
def tiltedVects (o : Orient) (vects : M3 K) (burgers : V3 K) : M3 K :=
  let hb := V3.smul half burgers
  let r := vects.row o.motion
  setRow vects o.motion (if 0 < burgers.get o.motion then r - hb else r + hb)

/-- `np.isclose(a, b, rtol, atol)`. -/
def isclose (atol rtol a b : K) : Bool := decide (absK (a - b) ≤ atol + rtol * absK b)

/-- atoms on the slip plane: `isclose(spos[:, cutindex], 0.5, rtol=0)`. -/
def onSlipPlane (atol : K) (box : Box K) (cut : Nat) (atoms : List (Atom K)) : Bool :=
  atoms.any fun a => isclose atol 0 ((box.cartToRel a.pos).get cut) half

/-- atoms on the upper box face along the motion direction (`isclose(spos, 1.0, rtol=0, atol)`) are moved to the
    lower face. -/
def moveUpperFace (atol : K) (box : Box K) (motion : Nat) (atoms : List (Atom K)) : List (Atom K) :=
  atoms.map fun a =>
    if isclose atol 0 ((box.cartToRel a.pos).get motion) 1 then { a with pos := a.pos - box.vects.row motion } else a

/-- indices (in order) of the atoms of the test system within `sburgers` of either face across the motion
    direction. -/
def boundaryIds (o : Orient) (newbox : Box K) (sb : K) (testpos : List (V3 K)) : List Nat :=
  (List.range testpos.length).filter fun i =>
    let s := (newbox.cartToRel (testpos.getD i ⟨0, 0, 0⟩)).get o.motion
    decide (s < sb) || decide (1 - sb < s)

/-- the duplicate loop: boundary atom `i` (all but the last) is a duplicate when its smallest periodic
    distance to a *later* boundary atom is below `cutoff`. -/
def dupIds (newbox : Box K) (pbc : V3 Bool) (cutoff : K) (testpos : List (V3 K)) : List Nat → List Nat
  | [] => []
  | i :: js =>
    let pi := testpos.getD i ⟨0, 0, 0⟩
    let hit := js.any fun j =>
      decide (dmag2 newbox.vects pbc.x pbc.y pbc.z pi (testpos.getD j ⟨0, 0, 0⟩) < cutoff * cutoff)
    if decide (0 < cutoff) && hit then i :: dupIds newbox pbc cutoff testpos js
    else dupIds newbox pbc cutoff testpos js

/-- `Box.volume`. -/
def volume (v : M3 K) : K := absK (M3.det v)

/-- `expected = natoms - natoms * newvolume / volume`. -/
def expectedDel (natoms : Nat) (vects newvects : M3 K) : K :=
  ((natoms : Int) : K) - ((natoms : Int) : K) * volume newvects / volume vects

/-- keep the atoms whose index is not in `dups`, with their indices (`np.where(ii)[0]`). -/
def keepIds (n : Nat) (dups : List Nat) : List Nat := (List.range n).filter (fun i => !dups.contains i)

def gather {α : Type} (l : List α) (ids : List Nat) : List α := ids.filterMap (fun i => l[i]?)

/-- mean of the cut components (`disp[:, cutindex].mean()`). -/
def meanComp (cut : Nat) (ds : List (V3 K)) : K :=
  ds.foldl (fun s d => s + d.get cut) 0 / ((ds.length : Int) : K)

def subComp (cut : Nat) (d : V3 K) (c : K) : V3 K :=
  if cut = 0 then { d with x := d.x - c } else if cut = 1 then { d with y := d.y - c } else { d with z := d.z - c }

/-- the `y <= miny + bwidth | y >= maxy - bwidth` test (with the swap when the cut vector points down). -/
def inSurfaceLayer (cut : Nat) (box : Box K) (bw : K) (p : V3 K) : Bool :=
  let y0 := box.origin.get cut
  let y1 := y0 + (box.vects.row cut).get cut
  let lo := if y1 < y0 then y1 else y0
  let hi := if y1 < y0 then y0 else y1
  decide (p.get cut ≤ lo + bw) || decide (hi - bw ≤ p.get cut)

/-- displacements of the kept atoms: linear everywhere, or the solver's value minus the mean cut component
    in the middle and linear in the two surface layers. -/
def arrayDisp (o : Orient) (linear : Bool) (u : V3 K → V3 K) (center burgers : V3 K) (length bw : K)
    (box : Box K) (ps : List (V3 K)) : List (V3 K) :=
  let lin := fun p => linearDisp o.motion o.cut burgers length (p - center)
  if linear then ps.map lin else
  let el := ps.map (fun p => u (p - center))
  let mean := meanComp o.cut el
  List.zipWith (fun p d => if inSurfaceLayer o.cut box bw p then lin p else subComp o.cut d mean) ps el

structure ArrayOut (K : Type) where
  base : Sys K
  disl : Sys K
  oldId : List Nat
  expected : Int
  dups : List Nat

/-- which refusal: atoms on the slip plane / non-integer deletion count / count mismatch. -/
inductive ArrayErr | slip | nonint | mismatch (expected found : Int)
deriving Repr, DecidableEq

/-- `build_disl_array` + the trimming and boundary step of `periodicarray`.
    `rnd` is Python's `round` (half to even; driver: `C14.roundHalfEven`).
    `elastic` gives the solver's displacement at (position − center) of a kept atom. -/
def periodicArray (fl : K → Int) (rnd : K → Int) (pad : K) (u : V3 K → V3 K) (o : Orient) (base : Sys K)
    (burgers center : V3 K) (linear : Bool) (bw cutoff : K) (atolSlip atolInt rtolInt : K) (nsym : Nat) :
    Except ArrayErr (ArrayOut K) :=
  let base : Sys K := { base with atoms := moveUpperFace atolSlip base.box o.motion base.atoms }
  if onSlipPlane atolSlip base.box o.cut base.atoms then .error .slip else
  let newvects := tiltedVects o base.box.vects burgers
  let newbox : Box K := ⟨newvects, base.box.origin⟩
  let newpbc := pbcExcept o.cut
  let length := absK ((base.box.vects.row o.motion).get o.motion)
  let testpos := base.atoms.map fun a => a.pos + linearDisp o.motion o.cut burgers length (a.pos - center)
  let sb := absK (((2 : Int) : K) * burgers.get o.motion / length)
  let dups := dupIds newbox newpbc cutoff testpos (boundaryIds o newbox sb testpos)
  let n := base.atoms.length
  let keep := keepIds n dups
  let found : Int := (n : Int) - (keep.length : Int)
  let e := expectedDel n base.box.vects newvects
  let er := rnd e
  if !isclose atolInt rtolInt e ((er : Int) : K) then .error .nonint else
  if found ≠ er then .error (.mismatch er found) else
  let kept := gather base.atoms keep
  let ps := kept.map (·.pos)
  let disp := arrayDisp o linear u center burgers length bw base.box ps
  let w := C05.wrap fl pad newbox newpbc (List.zipWith (· + ·) ps disp)
  let disl0 : Sys K := ⟨w.box, newpbc, setPos kept w.pos⟩
  let base' : Sys K := ⟨base.box, base.pbc, kept⟩
  let disl := if bw > 0 then
      { disl0 with atoms := retype (outsidePlanes bw (arrayBoundaryPlanes o.cut base'.box)) (natypes nsym kept) disl0.atoms }
    else disl0
  .ok ⟨base', disl, keep, er, dups⟩

end

/-! ### API level: the argument handling at the head of `monopole` / `periodicarray`

  What the two generators do with their keyword arguments before a system is built, in the order of the source:
  size multipliers (TypeError), `amin / bmin / cmin`, the (lo, hi) pairs, the shift (ValueError / IndexError of
  `set_shift`, which has then NOT stored anything), the centre, the boundary width, and — `monopole` only — the
  refusal of an unknown `boundaryshape` (ValueError; by then `set_shift` HAS stored the requested shift). -/

/-- one entry of a `sizemults` sequence as the `isinstance(·, int)` asserts see it (`True` / `False` are ints). -/
inductive MultEntry | int (v : Int) | other
deriving Repr, DecidableEq

def MultEntry.isInt : Option MultEntry → Bool | some (.int _) => true | _ => false
def MultEntry.val : Option MultEntry → Int | some (.int v) => v | _ => 0

/-- the `try: assert …` block on a sequence of any length and content (`none` = TypeError). -/
def checkMultsRaw (line : Nat) : List MultEntry → Option IV
  | [.int a, .int b, .int c] => checkMults line ⟨a, b, c⟩
  | _ => none

/-- `if amin > 0.0: amult = int(np.ceil(amin / self.rcell.box.a))`: the optional integer `minMult` takes. -/
def minQ {K : Type} [Div K] [Zero K] [LT K] [DecidableLT K] (ceil : K → Int) (vmin len : K) : Option Int :=
  if 0 < vmin then some (ceil (vmin / len)) else none

/-- `numpy.ceil` through the floor: `ceil x = -floor(-x)` (specification: `ceilOfFloor_spec`). -/
def ceilOfFloor {K : Type} [Neg K] (fl : K → Int) (x : K) : Int := -(fl (-x))

/-- `boundaryshape not in ['cylinder', 'box']` → ValueError. -/
def Shape.ofString? : String → Option Shape
  | "cylinder" => some .cylinder | "box" => some .box | _ => none

/-- the keyword arguments of a generator call that are handled before a system is built. -/
structure CallArgs (K : Type) where
  mults : Option (List MultEntry)
  mins : V3 K
  sh : ShiftArgs K
  center : Option (V3 K)
  centerscale : Bool
  shape : String
  width : K
  widthscale : Bool

/-- what the rest of the generator works with. -/
structure Head (K : Type) where
  sizes : Sizes
  shift : V3 K
  center : V3 K
  width : K
  shape : Shape

section
variable {K : Type} [Add K] [Mul K] [Div K] [Zero K] [LT K] [DecidableLT K]

/-- multipliers of a call: `sizemults` checked or defaulted, raised by the three minimum lengths (`lens` =
    `rcell.box.a, b, c`), then the `(lo, hi)` pairs.  `none` = TypeError. -/
def callSizes (ceil : K → Int) (line : Nat) (lens : V3 K) (mults : Option (List MultEntry)) (mins : V3 K) : Option Sizes :=
  let s? := match mults with
    | none => some (defaultMults line)
    | some l => checkMultsRaw line l
  s?.map fun s =>
    ⟨sizeOf line 0 (minMult line 0 (minQ ceil mins.x lens.x) s.x), sizeOf line 1 (minMult line 1 (minQ ceil mins.y lens.y) s.y),
     sizeOf line 2 (minMult line 2 (minQ ceil mins.z lens.z) s.z)⟩

/-- the head of `monopole` (`mono = true`) / `periodicarray` on an object whose stored shift is `cur`: the stored
    shift afterwards and either the refusal class (`type`, `value`, `index`) or the resolved parameters. -/
def callHead (ceil : K → Int) (mono : Bool) (line : Nat) (vects : M3 K) (lens : V3 K) (ucellA : K)
    (shifts : List (V3 K)) (cur : V3 K) (a : CallArgs K) : V3 K × Except String (Head K) :=
  match callSizes ceil line lens a.mults a.mins with
  | none => (cur, .error "type")
  | some sz =>
    match (ShiftCall.gen a.sh).step vects shifts cur with
    | (cur', .error e) => (cur', .error e)
    | (cur', .ok sh) =>
      let c := resolveCenter vects a.center a.centerscale
      let w := resolveWidth ucellA a.width a.widthscale
      if mono then
        match Shape.ofString? a.shape with
        | none => (cur', .error "value")
        | some shp => (cur', .ok ⟨sz, sh, c, w, shp⟩)
      else (cur', .ok ⟨sz, sh, c, w, .box⟩)

end

section
variable {K : Type} [Add K] [Sub K] [Mul K] [Div K] [Zero K] [One K] [IntCast K]
  [LT K] [LE K] [DecidableLT K] [DecidableLE K]

/-- `Dislocation.monopole(**kwargs)` as a whole: argument handling, then the systems (`assert` = the
    `radius > 0` assertion of `Cylinder`).  Returns the object's stored shift afterwards as well. -/
def monopoleCall (fl : K → Int) (ceil : K → Int) (pad : K) (sqrt : K → K) (u : V3 K → V3 K) (o : Orient) (rcell : Sys K)
    (lens : V3 K) (ucellA : K) (nsym : Nat) (shifts : List (V3 K)) (cur : V3 K) (a : CallArgs K) :
    V3 K × Except String (Sys K × Sys K) :=
  match callHead ceil true o.line rcell.box.vects lens ucellA shifts cur a with
  | (cur', .error e) => (cur', .error e)
  | (cur', .ok h) =>
    match monopole fl pad sqrt u o rcell h.sizes h.shift h.center h.shape h.width nsym with
    | none => (cur', .error "assert")
    | some r => (cur', .ok r)

end

section
variable {K : Type} [Add K] [Sub K] [Mul K] [Div K] [Neg K] [Zero K] [One K] [IntCast K]
  [LT K] [LE K] [DecidableLT K] [DecidableLE K]

/-- `Dislocation.periodicarray(**kwargs)` as a whole: argument handling (no shape), reference system, then
    `build_disl_array` with `bwidth = boundarywidth` and the cutoff given or `0.5` (Å, in working units); the refusals
    of `build_disl_array` are ValueErrors. -/
def arrayCall (fl : K → Int) (rnd : K → Int) (ceil : K → Int) (pad : K) (u : V3 K → V3 K) (o : Orient) (rcell : Sys K)
    (lens : V3 K) (ucellA : K) (nsym : Nat) (shifts : List (V3 K)) (cur : V3 K) (a : CallArgs K)
    (burgers : V3 K) (linear : Bool) (cutoff : Option K) (atolSlip atolInt rtolInt : K) :
    V3 K × Except String (ArrayOut K) :=
  match callHead ceil false o.line rcell.box.vects lens ucellA shifts cur a with
  | (cur', .error e) => (cur', .error e)
  | (cur', .ok h) =>
    match periodicArray fl rnd pad u o (baseSystem fl pad rcell h.sizes h.shift) burgers h.center linear h.width
        (cutoff.getD half) atolSlip atolInt rtolInt nsym with
    | .error .slip => (cur', .error "value slip")
    | .error .nonint => (cur', .error "value nonint")
    | .error (.mismatch _ _) => (cur', .error "value mismatch")
    | .ok r => (cur', .ok r)
end

/-! ### disregistry (atomman/defect/disregistry.py) -/
section
variable {K : Type} [Add K] [Sub K] [Mul K] [Div K] [Neg K] [Zero K] [One K] [IntCast K]
  [LT K] [LE K] [DecidableLT K] [DecidableLE K]

/-- `uniquey[uniquey > midy].min()` (`none`: numpy's ValueError for the empty selection). -/
def minAbove (mid : K) : List K → Option K
  | [] => none
  | y :: r =>
    match minAbove mid r with
    | none => if mid < y then some y else none
    | some a => if mid < y then (if y < a then some y else some a) else some a

/-- `uniquey[uniquey < midy].max()`. -/
def maxBelow (mid : K) : List K → Option K
  | [] => none
  | y :: r =>
    match maxBelow mid r with
    | none => if y < mid then some y else none
    | some a => if y < mid then (if a < y then some y else some a) else some a

/-- insertion into a strictly increasing list, dropping equal values. -/
def insertSorted (x : K) : List K → List K
  | [] => [x]
  | y :: r => if x < y then x :: y :: r else if y < x then y :: insertSorted x r else y :: r

/-- `np.unique` (sorted, duplicates removed). -/
def sortedUnique (xs : List K) : List K := xs.foldr insertSorted []

/-- `arr.mean(axis=0)` of displacement vectors. -/
def meanV (ds : List (V3 K)) : V3 K :=
  let s := ds.foldl (· + ·) (⟨0, 0, 0⟩ : V3 K)
  let n : K := ((ds.length : Int) : K)
  ⟨s.x / n, s.y / n, s.z / n⟩

/-- `np.interp(x, xp, fp)` component-wise for increasing `xp`: end values are held outside `[xp₀, xp_last]`. -/
def interpGo (x : K) (x0 : K) (f0 : V3 K) : List K → List (V3 K) → V3 K
  | x1 :: xr, f1 :: fr =>
    if x < x1 then f0 + V3.smul ((x - x0) / (x1 - x0)) (f1 - f0) else interpGo x x1 f1 xr fr
  | _, _ => f0

def interp (xp : List K) (fp : List (V3 K)) (x : K) : V3 K :=
  match xp, fp with
  | x0 :: xr, f0 :: fr => if x ≤ x0 then f0 else interpGo x x0 f0 xr fr
  | _, _ => ⟨0, 0, 0⟩

/-- one atom of the reference system as `disregistry` sees it: coordinate along `m`, along `n`, displacement. -/
structure DRow (K : Type) where
  x : K
  y : K
  d : V3 K

structure Disreg (K : Type) where
  /-- heights (along `n`) of the two atomic planes used -/
  above : K
  below : K
  coord : List K
  vals : List (V3 K)

/-- the atoms of the plane at height `h`: `np.isclose(ally, h)`. -/
def planeRows (atol rtol h : K) (rows : List (DRow K)) : List (DRow K) :=
  rows.filter fun r => isclose atol rtol r.y h

/-- mean displacement of each atomic column of a plane: `disp[np.isclose(xs, ix)].mean(axis=0)` for `ix` in
    `np.unique(xs)`. -/
def columnMeans (atol rtol : K) (pl : List (DRow K)) (ux : List K) : List (V3 K) :=
  ux.map fun ix => meanV ((pl.filter fun r => isclose atol rtol r.x ix).map (·.d))

/-- `disregistry(basesystem, dislsystem, m, n, planepos)` given the displacement of every atom (`disp`, C-level
    `displacement`): the two atomic planes adjoining the slip plane through `planepos`, the union of their atomic
    columns, displacement above minus displacement below, each linearly interpolated to every column.
    Errors: no plane above / below (`ValueError` of the empty `min`/`max`), planes indistinguishable. -/
def disregistry (atol rtol : K) (m n planepos : V3 K) (basepos disp : List (V3 K)) : Except String (Disreg K) :=
  let rows := List.zipWith (fun p d => (⟨V3.dot p m, V3.dot p n, d⟩ : DRow K)) basepos disp
  let midy := V3.dot planepos n
  let ys := rows.map (·.y)
  match minAbove midy ys, maxBelow midy ys with
  | some a, some b =>
    if isclose atol rtol a b then .error "value" else
    let pa := planeRows atol rtol a rows
    let pb := planeRows atol rtol b rows
    let ua := sortedUnique (pa.map (·.x))
    let ub := sortedUnique (pb.map (·.x))
    let coord := sortedUnique (ua ++ ub)
    let ma := columnMeans atol rtol pa ua
    let mb := columnMeans atol rtol pb ub
    .ok ⟨a, b, coord, coord.map fun x => interp ua ma x - interp ub mb x⟩
  | _, _ => .error "value"

end

end Atomman.C13
