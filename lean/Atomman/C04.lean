/-
  C04 — supercells and re-oriented cells (core Lean only).
  Source: atomman/core/System.py `supersize` (lines ~892-1026) and `rotate` (~1028-1151).

  * `supersize`: replica-major ordering exactly as the numpy broadcasting code produces it:
    new index `k = (((r2*m1 + r1)*m0 + r0) * natoms + i`, relative position
    `s/m + r/m` in the box `origin + lo·vects`, `vects[i]*m[i]`; every other per-atom value copied.
  * `rotate` (before `normalize`, which is C05): integer `U`, new vectors `U·vects` at the *same
    origin*, bounding supercell from the 8 corners ∓1, keep atoms with `0 ≤ s < 1`.
    The float tolerance ladder (`isclose(s,0)`, `isclose(s,1)`) is the identity in exact arithmetic.
-/
import Atomman.Prelude
import Atomman.Box

namespace Atomman.C04
open Atomman

/-- one atom: type, Cartesian position, any further per-atom values (opaque payload). -/
structure Atom (K : Type) where
  atype : Int
  pos : V3 K
  extra : List K
deriving Repr, BEq, DecidableEq

/-- multiplier tuple `(lo, hi)` with `lo ≤ 0 ≤ hi`; `m = hi - lo`. -/
structure Size where
  lo : Int
  hi : Int
deriving Repr, BEq, DecidableEq

def Size.mult (s : Size) : Int := s.hi - s.lo

/-- the int / tuple rules of `supersize` (an int `n>0` is `(0,n)`, `n<0` is `(n,0)`; `0` is refused;
    a tuple must satisfy `lo ≤ 0 ≤ hi` and `hi - lo ≠ 0`). -/
def Size.ofInt? (n : Int) : Option Size :=
  if 0 < n then some ⟨0, n⟩ else if n < 0 then some ⟨n, 0⟩ else none

def Size.ofPair? (lo hi : Int) : Option Size :=
  if lo ≤ 0 ∧ 0 ≤ hi ∧ hi - lo ≠ 0 then some ⟨lo, hi⟩ else none

section
variable {K : Type} [Add K] [Sub K] [Mul K] [Div K] [IntCast K]

/-- new box of `supersize`. -/
def superBox (b : Box K) (sa sb sc : Size) : Box K :=
  { origin := b.origin + (V3.smul (sa.lo : K) b.vects.r0 + V3.smul (sb.lo : K) b.vects.r1
                + V3.smul (sc.lo : K) b.vects.r2),
    vects := ⟨V3.smul (sa.mult : K) b.vects.r0, V3.smul (sb.mult : K) b.vects.r1,
              V3.smul (sc.mult : K) b.vects.r2⟩ }

/-- position of replica `(r0,r1,r2)` of an atom as the code computes it: scaled position divided
    by the multipliers plus `r/m`, turned Cartesian in the new box. -/
def replicaPos (b : Box K) (sa sb sc : Size) (p : V3 K) (r0 r1 r2 : Nat) : V3 K :=
  let s := b.cartToRel p
  let s' : V3 K := ⟨s.x / (sa.mult : K) + ((r0 : Int) : K) * (((1 : Int) : K) / (sa.mult : K)),
                    s.y / (sb.mult : K) + ((r1 : Int) : K) * (((1 : Int) : K) / (sb.mult : K)),
                    s.z / (sc.mult : K) + ((r2 : Int) : K) * (((1 : Int) : K) / (sc.mult : K))⟩
  (superBox b sa sb sc).relToCart s'

/-- all replicas in the order of the implementation (replica-major, `r0` fastest). -/
def supersizeAtoms (b : Box K) (sa sb sc : Size) (atoms : List (Atom K)) : List (Atom K) :=
  (List.range sc.mult.toNat).flatMap fun r2 =>
  (List.range sb.mult.toNat).flatMap fun r1 =>
  (List.range sa.mult.toNat).flatMap fun r0 =>
    atoms.map fun a => { a with pos := replicaPos b sa sb sc a.pos r0 r1 r2 }

def supersize (b : Box K) (sa sb sc : Size) (atoms : List (Atom K)) : Box K × List (Atom K) :=
  (superBox b sa sb sc, supersizeAtoms b sa sb sc atoms)

end

/-! ### rotate -/

/-- integer 3x3 times cell: `miller.vector_crystal_to_cartesian(uvws, box)`. -/
def newVects {K : Type} [Add K] [Mul K] [IntCast K] (U : M3 Int) (vects : M3 K) : M3 K :=
  let c : Int → K := fun i => (i : K)
  M3.mul (⟨U.r0.map c, U.r1.map c, U.r2.map c⟩ : M3 K) vects

def minOf (l : List Int) : Int := l.foldl min (l.headD 0)
def maxOf (l : List Int) : Int := l.foldl max (l.headD 0)

/-- the 8 corners of the new cell in index space. -/
def corners (U : M3 Int) : List (V3 Int) :=
  [⟨0, 0, 0⟩, U.r0, U.r1, U.r2, U.r0 + U.r1, U.r0 + U.r2, U.r1 + U.r2, U.r0 + U.r1 + U.r2]

/-- multipliers `(min-1, max+1)` per axis. -/
def rotateSizes (U : M3 Int) : Size × Size × Size :=
  let cs := corners U
  (⟨minOf (cs.map (·.x)) - 1, maxOf (cs.map (·.x)) + 1⟩,
   ⟨minOf (cs.map (·.y)) - 1, maxOf (cs.map (·.y)) + 1⟩,
   ⟨minOf (cs.map (·.z)) - 1, maxOf (cs.map (·.z)) + 1⟩)

section
variable {K : Type} [Add K] [Sub K] [Mul K] [Div K] [IntCast K] [Zero K] [One K] [LT K] [LE K]
  [DecidableLT K] [DecidableLE K]

def inHalfOpen (s : V3 K) : Bool :=
  decide (0 ≤ s.x) && decide (s.x < 1) && decide (0 ≤ s.y) && decide (s.y < 1) &&
  decide (0 ≤ s.z) && decide (s.z < 1)

/-- `np.rint`: the nearest integer `⌊x + 1/2⌋`, an exact half going to the even neighbour. -/
def rintK (fl : K → Int) (x : K) : Int :=
  let h := x + 1 / ((2 : Int) : K)
  let n := fl h
  if decide ((n : K) ≤ h) && decide (h ≤ (n : K)) && decide (n % 2 ≠ 0) then n - 1 else n

/-- `rotate` up to (not including) `normalize`: the new box and the atoms kept.
    The bounding supercell is translated by the whole lattice vector `-rint(origin·V⁻¹)·V` (the nearest one,
    `rintK` = `np.rint`) so that it
    surrounds the Cartesian origin; the new cell `U·vects` is cut out at the Cartesian origin
    (`box_set(vects=…)` resets the origin to zero).  `fl` is the floor function (`Rat.floor` when run).
    `none` = the refusal "vectors are parallel or planar" (`det U = 0`). -/
def rotateRaw (fl : K → Int) (b : Box K) (U : M3 Int) (atoms : List (Atom K)) :
    Option (Box K × List (Atom K)) :=
  if M3.det U = 0 then none else
  let (sa, sb, sc) := rotateSizes U
  let orel := b.cartToRel ⟨0, 0, 0⟩          -- = -(origin · V⁻¹)
  let nsh : V3 K := ⟨((rintK fl (0 - orel.x) : Int) : K), ((rintK fl (0 - orel.y) : Int) : K),
                     ((rintK fl (0 - orel.z) : Int) : K)⟩
  let shift := M3.vecMul nsh b.vects
  let sup := (supersizeAtoms b sa sb sc atoms).map fun a => { a with pos := a.pos - shift }
  let nb : Box K := ⟨newVects U b.vects, ⟨0, 0, 0⟩⟩
  some (nb, sup.filter fun a => inHalfOpen (nb.cartToRel a.pos))

/-- `rotate` (before `normalize`) with the code's own expected-count test
    `newnatoms = round(newvolume / volume) · natoms = |det U| · natoms`: a different number of kept atoms is
    the error "Filtering failed" (`filter`); `value` = parallel or planar vectors. -/
def rotateChecked (fl : K → Int) (b : Box K) (U : M3 Int) (atoms : List (Atom K)) :
    Except String (Box K × List (Atom K)) :=
  match rotateRaw fl b U atoms with
  | none => .error "value"
  | some (nb, kept) =>
    if kept.length = (M3.det U).natAbs * atoms.length then .ok (nb, kept) else .error "filter"

/-- one atom moved by whole cell vectors into the cell `vects` at the Cartesian origin. -/
def wrapAtom (fl : K → Int) (b : Box K) (a : Atom K) : Atom K :=
  let s := (⟨b.vects, ⟨0, 0, 0⟩⟩ : Box K).cartToRel a.pos
  { a with pos := a.pos - M3.vecMul ⟨((fl s.x : Int) : K), ((fl s.y : Int) : K), ((fl s.z : Int) : K)⟩ b.vects }

/-- the "no rotation" shortcut (`uvws` = identity): the system itself, its cell re-expressed around the Cartesian
    origin with the atoms' Cartesian positions kept; `normalize` then wraps every atom into the cell. -/
def rotateIdentity (fl : K → Int) (b : Box K) (atoms : List (Atom K)) : Box K × List (Atom K) :=
  (⟨b.vects, ⟨0, 0, 0⟩⟩, atoms.map (wrapAtom fl b))

/-- `System.rotate` up to `normalize`: identity shortcut, otherwise bounding supercell + filter + count test. -/
def rotate (fl : K → Int) (b : Box K) (U : M3 Int) (atoms : List (Atom K)) :
    Except String (Box K × List (Atom K)) :=
  if U = M3.one then .ok (rotateIdentity fl b atoms) else rotateChecked fl b U atoms

/-! ### the index acceptance test of `rotate` (float / hexagonal 4-index `uvws`)

`int_uvws = rint(uvws); if np.allclose(uvws, int_uvws): uvws = int_uvws else: raise ValueError`.
`np.allclose(a, b)` is `|a - b| ≤ atol + rtol·|b|` entry by entry (`rtol = 1e-5`, `atol = 1e-8`). -/

/-- absolute value of an integer as a scalar. -/
def absIntK (n : Int) : K := if n < 0 then ((-n : Int) : K) else (n : K)

/-- one index: the nearest integer `n = ⌊x + 1/2⌋` (what `rint` returns away from exact halves, which no
    tolerance below 1/2 accepts) if `|x - n| ≤ atol + rtol·|n|`, otherwise refused. -/
def acceptIndex? (fl : K → Int) (rtol atol x : K) : Option Int :=
  let n := fl (x + 1 / ((2 : Int) : K))
  let d := if x < (n : K) then (n : K) - x else x - (n : K)
  if d ≤ atol + rtol * absIntK n then some n else none

def acceptRow? (fl : K → Int) (rtol atol : K) (r : V3 K) : Option (V3 Int) :=
  match acceptIndex? fl rtol atol r.x, acceptIndex? fl rtol atol r.y, acceptIndex? fl rtol atol r.z with
  | some a, some b, some c => some ⟨a, b, c⟩
  | _, _, _ => none

/-- all nine entries must pass (`allclose` is a conjunction). -/
def acceptUvws? (fl : K → Int) (rtol atol : K) (u : M3 K) : Option (M3 Int) :=
  match acceptRow? fl rtol atol u.r0, acceptRow? fl rtol atol u.r1, acceptRow? fl rtol atol u.r2 with
  | some a, some b, some c => some ⟨a, b, c⟩
  | _, _, _ => none

/-- `miller.vector4to3` on one row `[u v t w]`: refused unless `|u + v + t| ≤ atol` (`allclose(sum, 0)`),
    else `[2u + v, 2v + u, w]`. -/
def hex4to3? (atol u v t w : K) : Option (V3 K) :=
  let s := u + v + t
  let d := if s < 0 then 0 - s else s
  if d ≤ atol then some ⟨((2 : Int) : K) * u + v, ((2 : Int) : K) * v + u, w⟩ else none

/-- `System.rotate` (up to `normalize`) as called: rational `uvws` first pass the integer test. -/
def rotateF (fl : K → Int) (rtol atol : K) (b : Box K) (u : M3 K) (atoms : List (Atom K)) :
    Except String (Box K × List (Atom K)) :=
  match acceptUvws? fl rtol atol u with
  | none => .error "value"
  | some U => rotate fl b U atoms

/-! ### the lattice-site test of `conventional_to_primitive` (`check_setting_basis` without the family test)

For every lattice site of the setting there must be exactly one atom *modulo whole cell vectors*
(`index_of_pos` uses the periodic `System.dmag`), all of one type.  The float test `dmag ≈ 0` is
"equal modulo the lattice" in exact arithmetic. -/

def isIntK (fl : K → Int) (x : K) : Bool := decide (x ≤ ((fl x : Int) : K)) && decide (((fl x : Int) : K) ≤ x)

/-- the atom sits on the site with relative coordinates `site`, up to whole cell vectors. -/
def onSite (fl : K → Int) (b : Box K) (site : V3 K) (a : Atom K) : Bool :=
  let s := b.cartToRel a.pos - site
  isIntK fl s.x && isIntK fl s.y && isIntK fl s.z

/-- the loop over the sites: `some false` at the first site without an atom or with an atom of another type
    than the first site's, `none` = "Multiple overlapping atoms found". -/
def checkSites (fl : K → Int) (b : Box K) (atoms : List (Atom K)) : List (V3 K) → Option Int → Option Bool
  | [], _ => some true
  | site :: rest, ty =>
    match (atoms.filter (onSite fl b site)).map (·.atype) with
    | [] => some false
    | [t] =>
      match ty with
      | none => checkSites fl b atoms rest (some t)
      | some t0 => if t = t0 then checkSites fl b atoms rest ty else some false
    | _ => none

/-- relative coordinates of the lattice sites per setting (numerators over `den`). -/
def settingSitesInt : String → Option (Int × List (V3 Int))
  | "p" => some (1, [⟨0, 0, 0⟩])
  | "i" => some (2, [⟨0, 0, 0⟩, ⟨1, 1, 1⟩])
  | "f" => some (2, [⟨0, 0, 0⟩, ⟨1, 1, 0⟩, ⟨1, 0, 1⟩, ⟨0, 1, 1⟩])
  | "a" => some (2, [⟨0, 0, 0⟩, ⟨0, 1, 1⟩])
  | "b" => some (2, [⟨0, 0, 0⟩, ⟨1, 0, 1⟩])
  | "c" => some (2, [⟨0, 0, 0⟩, ⟨1, 1, 0⟩])
  | "t1" => some (3, [⟨0, 0, 0⟩, ⟨2, 1, 1⟩, ⟨1, 2, 2⟩])
  | "t2" => some (3, [⟨0, 0, 0⟩, ⟨1, 2, 1⟩, ⟨2, 1, 2⟩])
  | _ => none

def settingSites (setting : String) : Option (List (V3 K)) :=
  (settingSitesInt setting).map fun (den, l) =>
    l.map fun v => ⟨(v.x : K) / (den : K), (v.y : K) / (den : K), (v.z : K) / (den : K)⟩

/-- `check_setting_basis(ucell, setting, check_family=False)`; outer `none` = unknown setting. -/
def checkBasis (fl : K → Int) (b : Box K) (setting : String) (atoms : List (Atom K)) : Option (Option Bool) :=
  (settingSites (K := K) setting).map fun sites => checkSites fl b atoms sites none

end

/-! ### round 3: names of the per-atom properties, periodicity flags, the object behind the call -/

/-- names of the per-atom properties of the system `supersize` returns, in order: a fresh `Atoms(natoms=…)` holds
    `atype` and `pos`; the copy loop `for key in self.atoms_prop(): if key == 'pos': continue; …` then writes every key
    of the input other than `pos` (over the existing column for `atype`, appended in the input's order otherwise);
    `pos` is written last, over the existing column.  `rotate` slices that system (`Atoms.__getitem__` keeps the keys
    in order); its identity shortcut deep-copies the input (`atype`, `pos`, then the others in order). -/
def copiedKeys (keys : List String) : List String :=
  (keys.filter (fun k => k != "pos")).foldl (fun acc k => if acc.contains k then acc else acc ++ [k]) ["atype", "pos"]

/-- periodicity flags. -/
structure Pbc where
  a : Bool
  b : Bool
  c : Bool
deriving Repr, BEq, DecidableEq

/-- flags of the system `rotate` returns: the general path builds a new `System` (default: fully periodic); the
    identity shortcut copies the input with its flags and then declares the copy fully periodic (repo fix b34107f) -
    `normalize` must wrap the atoms into the cell, not stretch the cell around them. -/
def rotatePbc (U : M3 Int) (pbc : Pbc) : Pbc :=
  if U = M3.one then { pbc with a := true, b := true, c := true } else ⟨true, true, true⟩

/-- a `Box` object: the visible cell and the cached reciprocal vectors (`None` until first asked for; the `vects`
    setter drops the cache). -/
structure BoxObj (K : Type) where
  vects : M3 K
  origin : V3 K
  cache : Option (M3 K)

/-- a `System` object as far as `supersize` / `rotate` read it. -/
structure SysObj (K : Type) where
  box : BoxObj K
  atoms : List (Atom K)
  pbc : Pbc

section
variable {K : Type} [Add K] [Sub K] [Mul K] [Div K] [IntCast K]

def BoxObj.visible (o : BoxObj K) : Box K := ⟨o.vects, o.origin⟩

/-- `Box.reciprocal_vects`: the cached value if there is one, else computed from the cell and stored. -/
def BoxObj.recipC (o : BoxObj K) : M3 K × BoxObj K :=
  match o.cache with
  | some r => (r, o)
  | none => let r := o.visible.recip; (r, { o with cache := some r })

/-- `position_cartesian_to_relative` on the object (reads through the cache, may fill it). -/
def BoxObj.cartToRelC (o : BoxObj K) (p : V3 K) : V3 K × BoxObj K :=
  let (r, o') := o.recipC
  (M3.mulVec r (p - o.origin), o')

/-- the `vects` setter: new cell, cache dropped.  (`origin` setter: no cache involved.) -/
def BoxObj.setVects (o : BoxObj K) (v : M3 K) : BoxObj K := { o with vects := v, cache := none }
def BoxObj.setOrigin (o : BoxObj K) (p : V3 K) : BoxObj K := { o with origin := p }

/-- what the generated histories do to the one object before `supersize` / `rotate` is called on it. -/
inductive HOp (K : Type) where
  | read                                 -- atoms_prop('pos', scale=True) / box.reciprocal_vects: fills the cache
  | setBox (v : M3 K) (o : V3 K) (scale : Bool)   -- box_set(vects=, origin=, scale=): relative (true) / Cartesian positions held
  | setVects (v : M3 K)                  -- box.vects = v (Cartesian positions held)
  | setOrigin (o : V3 K)                 -- box.origin = o
  | rewrite                              -- scaled positions read and written back
  | setPbc (p : Pbc)

/-- scaled positions of all atoms, read through the cache. -/
def SysObj.sposC (s : SysObj K) : List (V3 K) × SysObj K :=
  let (r, b') := s.box.recipC
  (s.atoms.map fun a => M3.mulVec r (a.pos - s.box.origin), { s with box := b' })

/-- positions set from scaled ones: `pos = s·vects + origin`. -/
def SysObj.setSpos (s : SysObj K) (sp : List (V3 K)) : SysObj K :=
  { s with atoms := List.zipWith (fun a q => { a with pos := s.box.visible.relToCart q }) s.atoms sp }

def SysObj.step (s : SysObj K) : HOp K → SysObj K
  | .read => s.sposC.2
  | .setBox v o true =>
    let (sp, s1) := s.sposC
    ({ s1 with box := (s1.box.setVects v).setOrigin o }).setSpos sp
  | .setBox v o false => { s with box := (s.box.setVects v).setOrigin o }
  | .setVects v => { s with box := s.box.setVects v }
  | .setOrigin o => { s with box := s.box.setOrigin o }
  | .rewrite => let (sp, s1) := s.sposC; s1.setSpos sp
  | .setPbc p => { s with pbc := p }

def SysObj.run (s : SysObj K) (ops : List (HOp K)) : SysObj K := ops.foldl SysObj.step s

/-- scaled position of replica `(r0,r1,r2)` in the multiplied cell from the scaled position `q` in the original one. -/
def replicaRel (sa sb sc : Size) (q : V3 K) (r0 r1 r2 : Nat) : V3 K :=
  ⟨q.x / (sa.mult : K) + ((r0 : Int) : K) * (((1 : Int) : K) / (sa.mult : K)),
   q.y / (sb.mult : K) + ((r1 : Int) : K) * (((1 : Int) : K) / (sb.mult : K)),
   q.z / (sc.mult : K) + ((r2 : Int) : K) * (((1 : Int) : K) / (sc.mult : K))⟩

/-- `supersize` on the object: the scaled positions are read through the cache, everything else from the visible
    state.  (Replica `r` of atom `a` sits at `(spos a / m + r / m)` of the multiplied cell.) -/
def SysObj.supersizeC (s : SysObj K) (sa sb sc : Size) : Box K × List (Atom K) :=
  let (sp, s1) := s.sposC
  let nb := superBox s1.box.visible sa sb sc
  (nb,
   (List.range sc.mult.toNat).flatMap fun r2 =>
   (List.range sb.mult.toNat).flatMap fun r1 =>
   (List.range sa.mult.toNat).flatMap fun r0 =>
     List.zipWith (fun a q => { a with pos := nb.relToCart (replicaRel sa sb sc q r0 r1 r2) }) s1.atoms sp)

/-- the cache, if filled, holds the reciprocal vectors of the cell the object shows. -/
def BoxObj.Coherent (o : BoxObj K) : Prop := ∀ r, o.cache = some r → r = o.visible.recip

end

section
variable {K : Type} [Add K] [Sub K] [Mul K] [Div K] [IntCast K] [Zero K] [One K] [LT K] [LE K]
  [DecidableLT K] [DecidableLE K]

/-- `rotate` on the object, general path: the bounding supercell comes from `supersize` on the object (scaled
    positions through the cache); the lattice translation uses `np.linalg.solve` on the visible cell. -/
def SysObj.rotateRawC (fl : K → Int) (s : SysObj K) (U : M3 Int) : Option (Box K × List (Atom K)) :=
  if M3.det U = 0 then none else
  let (sa, sb, sc) := rotateSizes U
  let b := s.box.visible
  let orel := b.cartToRel ⟨0, 0, 0⟩
  let nsh : V3 K := ⟨((rintK fl (0 - orel.x) : Int) : K), ((rintK fl (0 - orel.y) : Int) : K),
                     ((rintK fl (0 - orel.z) : Int) : K)⟩
  let shift := M3.vecMul nsh b.vects
  let sup := ((s.supersizeC sa sb sc).2).map fun a => { a with pos := a.pos - shift }
  let nb : Box K := ⟨newVects U b.vects, ⟨0, 0, 0⟩⟩
  some (nb, sup.filter fun a => inHalfOpen (nb.cartToRel a.pos))

/-- `System.rotate` (up to `normalize`) on the object; the result is fully periodic (`rotatePbc`). -/
def SysObj.rotateC (fl : K → Int) (s : SysObj K) (U : M3 Int) : Except String (Box K × List (Atom K)) × Pbc :=
  (if U = M3.one then .ok (rotateIdentity fl s.box.visible s.atoms) else
    match s.rotateRawC fl U with
    | none => .error "value"
    | some (nb, kept) =>
      if kept.length = (M3.det U).natAbs * s.atoms.length then .ok (nb, kept) else .error "filter",
   rotatePbc U s.pbc)

end


/-! ### round 4: crystal family of a cell, the family test and the tolerances of `conventional_to_primitive`

`Box.identifyfamily(rtol, atol)` is a chain of the predicates `iscubic … istriclinic`, each a conjunction of
`np.isclose` tests between the six lattice parameters `a b c alpha beta gamma` (square roots / arc cosines of the cell
vectors: handed over as numbers) and the constants 90 and 120.  `check_setting_basis(check_family=True)` returns False
unless that family is in the setting's list; then the lattice-site test looks for an atom within `atol` of every site.
`conventional_to_primitive(setting='t')` runs the test for `t1` and for `t2`, each with the caller's tolerances. -/

/-- the six lattice parameters of a cell as `Box.a … Box.gamma` return them (angles in degrees). -/
structure Cell6 (K : Type) where
  a : K
  b : K
  c : K
  al : K
  be : K
  ga : K

inductive Family where
  | cubic | hexagonal | tetragonal | rhombohedral | orthorhombic | monoclinic | triclinic
deriving Repr, BEq, DecidableEq

def Family.name : Family → String
  | .cubic => "cubic" | .hexagonal => "hexagonal" | .tetragonal => "tetragonal" | .rhombohedral => "rhombohedral"
  | .orthorhombic => "orthorhombic" | .monoclinic => "monoclinic" | .triclinic => "triclinic"

section
variable {K : Type} [Add K] [Sub K] [Mul K] [Zero K] [LT K] [LE K] [DecidableLT K] [DecidableLE K]

def absK (x : K) : K := if x < 0 then 0 - x else x

/-- `np.isclose(x, y, rtol=rtol, atol=atol)`: `|x - y| ≤ atol + rtol·|y|` (not symmetric in `x`, `y`). -/
def closeK (rtol atol x y : K) : Bool := decide (absK (x - y) ≤ atol + rtol * absK y)

end

section
variable {K : Type}

/-! the predicates take the closeness test `cl` (`closeK rtol atol` when run) and the constants `n90`, `n120`. -/
def isCubic (cl : K → K → Bool) (n90 : K) (p : Cell6 K) : Bool :=
  cl p.a p.b && cl p.a p.c && cl p.al n90 && cl p.be n90 && cl p.ga n90
def isHexagonal (cl : K → K → Bool) (n90 n120 : K) (p : Cell6 K) : Bool :=
  cl p.a p.b && cl p.al n90 && cl p.be n90 && cl p.ga n120
def isTetragonal (cl : K → K → Bool) (n90 : K) (p : Cell6 K) : Bool :=
  cl p.a p.b && !cl p.a p.c && cl p.al n90 && cl p.be n90 && cl p.ga n90
def isRhombohedral (cl : K → K → Bool) (n90 : K) (p : Cell6 K) : Bool :=
  cl p.a p.b && cl p.a p.c && cl p.al p.be && cl p.al p.ga && !cl p.al n90
/-- `a ≠ b` and `a ≠ c`: nothing is asked of `b` against `c` (an orthorhombic cell may have `b = c`). -/
def isOrthorhombic (cl : K → K → Bool) (n90 : K) (p : Cell6 K) : Bool :=
  !cl p.a p.b && !cl p.a p.c && cl p.al n90 && cl p.be n90 && cl p.ga n90
def isMonoclinic (cl : K → K → Bool) (n90 : K) (p : Cell6 K) : Bool :=
  !cl p.a p.b && !cl p.a p.c && cl p.al n90 && !cl p.be n90 && cl p.ga n90
def isTriclinic (cl : K → K → Bool) (p : Cell6 K) : Bool :=
  !cl p.a p.b && !cl p.a p.c && !cl p.al p.be && !cl p.al p.ga

/-- `Box.identifyfamily`: the first predicate of the chain that holds, `none` if none does. -/
def identifyFamily (cl : K → K → Bool) (n90 n120 : K) (p : Cell6 K) : Option Family :=
  if isCubic cl n90 p then some .cubic
  else if isHexagonal cl n90 n120 p then some .hexagonal
  else if isTetragonal cl n90 p then some .tetragonal
  else if isRhombohedral cl n90 p then some .rhombohedral
  else if isOrthorhombic cl n90 p then some .orthorhombic
  else if isMonoclinic cl n90 p then some .monoclinic
  else if isTriclinic cl p then some .triclinic
  else none

end

/-- crystal families for which a Bravais lattice with the setting exists (`check_setting_basis`). -/
def settingFamilies : String → Option (List Family)
  | "p" => some [.cubic, .hexagonal, .tetragonal, .rhombohedral, .orthorhombic, .monoclinic, .triclinic]
  | "i" => some [.orthorhombic, .tetragonal, .cubic]
  | "f" => some [.orthorhombic, .cubic]
  | "a" => some [.monoclinic, .orthorhombic]
  | "b" => some [.monoclinic, .orthorhombic]
  | "c" => some [.monoclinic, .orthorhombic]
  | "t1" => some [.hexagonal]
  | "t2" => some [.hexagonal]
  | _ => none

/-- `family not in families` (an unidentified family is in no list). -/
def familyAllowed (setting : String) (fam : Option Family) : Bool :=
  match settingFamilies setting, fam with
  | some l, some f => l.contains f
  | _, _ => false

section
variable {K : Type} [Add K] [Sub K] [Mul K] [Div K] [IntCast K] [Zero K] [One K] [LT K] [LE K]
  [DecidableLT K] [DecidableLE K]

/-- the site loop of `check_setting_basis` over any per-site test `hit site atom` (`checkSites` is the instance
    `hit = onSite fl b`). -/
def checkSitesBy (hit : V3 K → Atom K → Bool) (atoms : List (Atom K)) : List (V3 K) → Option Int → Option Bool
  | [], _ => some true
  | site :: rest, ty =>
    match (atoms.filter (hit site)).map (·.atype) with
    | [] => some false
    | [t] =>
      match ty with
      | none => checkSitesBy hit atoms rest (some t)
      | some t0 => if t = t0 then checkSitesBy hit atoms rest ty else some false
    | _ => none

/-- the nearest integer `⌊x + 1/2⌋`. -/
def nearK (fl : K → Int) (x : K) : Int := fl (x + 1 / ((2 : Int) : K))

/-- `index_of_pos` with the caller's tolerance: the atom is within `atol` (Cartesian; `atol2 = atol²`) of the nearest
    periodic image of the site - `np.isclose(dmag, 0.0, rtol, atol)` is `dmag ≤ atol`, `rtol` multiplies `|0.0|`.
    (The nearest image is the one `nearK` picks as long as `atol` is small against the cell, `atol·‖V⁻¹‖ < 1/2`.) -/
def onSiteTol (fl : K → Int) (b : Box K) (atol2 : K) (site : V3 K) (a : Atom K) : Bool :=
  let s := b.cartToRel a.pos - site
  let d : V3 K := ⟨s.x - ((nearK fl s.x : Int) : K), s.y - ((nearK fl s.y : Int) : K), s.z - ((nearK fl s.z : Int) : K)⟩
  decide (V3.normSq (M3.vecMul d b.vects) ≤ atol2)

/-- `check_setting_basis(ucell, setting, rtol, atol, check_family)`: outer `none` = unknown setting, inner `none` =
    "Multiple overlapping atoms found"; `fam` = `ucell.box.identifyfamily(rtol, atol)`. -/
def checkSettingBasis (fl : K → Int) (fam : Option Family) (b : Box K) (atol2 : K) (checkFamily : Bool)
    (setting : String) (atoms : List (Atom K)) : Option (Option Bool) :=
  match settingSites (K := K) setting with
  | none => none
  | some sites =>
    if checkFamily && !familyAllowed setting fam then some (some false)
    else some (checkSitesBy (onSiteTol fl b atol2) atoms sites none)

end

/-- the setting `conventional_to_primitive` works with: `check_basis=False` takes the caller's word; an explicit
    setting must pass the test; `'t'` is tested as `t1` AND as `t2` (both calls are made, with the same tolerances),
    `t1` wins, then `t2`.  Every refusal is a `ValueError`. `chk` = `checkSettingBasis` with the caller's arguments. -/
def resolveSetting (chk : String → Option (Option Bool)) (checkBasis : Bool) (setting : String) : Option String :=
  if !checkBasis then some setting
  else if setting != "t" then
    match chk setting with
    | some (some true) => some setting
    | _ => none
  else
    match chk "t1", chk "t2" with
    | some (some t1), some (some t2) => if t1 then some "t1" else if t2 then some "t2" else none
    | _, _ => none

/-! ### round 6: the call as the user writes it (multiplier arguments), the face-rounding ladder of `rotate`, the integer
matrices the conversions hand to `rotate`.  The definitions below are tied to the CURRENT source by
`Atomman/Generated/SupercellSource.lean` (regenerated on every check) and `Proofs/C04_Source.lean` (`gen_…_eq_model`). -/

/-- a multiplier argument of `supersize` as the caller writes it: an integer, a 2-tuple of integers, anything else
    (float, list, tuple of another length or with non-integer entries). -/
inductive SizeArg where
  | int (n : Int)
  | pair (lo hi : Int)
  | other
deriving Repr, DecidableEq

/-- the argument check of one axis: `value` = `ValueError('Cannot multiply system dimension by zero')`, `type` =
    `TypeError('Invalid system multipliers')`. -/
def SizeArg.resolve : SizeArg → Except String Size
  | .int n => match Size.ofInt? n with
    | some s => .ok s
    | none => .error "value"
  | .pair lo hi =>
    if lo ≤ 0 ∧ 0 ≤ hi then (if hi - lo = 0 then .error "value" else .ok ⟨lo, hi⟩) else .error "type"
  | .other => .error "type"

/-- the loop over the three axes: the first axis that is refused decides the error. -/
def resolveSizes (a0 a1 a2 : SizeArg) : Except String (Size × Size × Size) :=
  match a0.resolve with
  | .error e => .error e
  | .ok sa =>
    match a1.resolve with
    | .error e => .error e
    | .ok sb =>
      match a2.resolve with
      | .error e => .error e
      | .ok sc => .ok (sa, sb, sc)

/-- `System.supersize(a_size, b_size, c_size)` as called. -/
def supersizeApi {K : Type} [Add K] [Sub K] [Mul K] [Div K] [IntCast K]
    (b : Box K) (a0 a1 a2 : SizeArg) (atoms : List (Atom K)) : Except String (Box K × List (Atom K)) :=
  match resolveSizes a0 a1 a2 with
  | .error e => .error e
  | .ok (sa, sb, sc) => .ok (supersize b sa sb sc atoms)

section
variable {K : Type} [Add K] [Sub K] [Mul K] [Div K] [IntCast K] [Zero K] [One K] [LT K] [LE K]
  [DecidableLT K] [DecidableLE K]

/-- one relative coordinate through one rung of the ladder, the two statements in the order of the code:
    `spos[isclose(spos, 0.0, rtol=0.0, atol=atol)] = 0.0` then `spos[isclose(spos, 1.0, rtol=0.0, atol=atol)] = 1.0`. -/
def roundFaces (atol s : K) : K :=
  let s1 := if closeK 0 atol s 0 then 0 else s
  if closeK 0 atol s1 1 then 1 else s1

/-- the atom is kept at this rung: rounded, then `0 ≤ s < 1` on the three coordinates. -/
def ladderKeep (atol : K) (s : V3 K) : Bool :=
  inHalfOpen ⟨roundFaces atol s.x, roundFaces atol s.y, roundFaces atol s.z⟩

/-- the new cell and the translated bounding supercell of `rotate` (what the filter runs over). -/
def rotateSup (fl : K → Int) (b : Box K) (U : M3 Int) (atoms : List (Atom K)) : Box K × List (Atom K) :=
  let (sa, sb, sc) := rotateSizes U
  let orel := b.cartToRel ⟨0, 0, 0⟩
  let nsh : V3 K := ⟨((rintK fl (0 - orel.x) : Int) : K), ((rintK fl (0 - orel.y) : Int) : K),
                     ((rintK fl (0 - orel.z) : Int) : K)⟩
  let shift := M3.vecMul nsh b.vects
  (⟨newVects U b.vects, ⟨0, 0, 0⟩⟩, (supersizeAtoms b sa sb sc atoms).map fun a => { a with pos := a.pos - shift })

/-- the atoms one rung keeps. -/
def ladderFilter (atol : K) (nb : Box K) (sup : List (Atom K)) : List (Atom K) :=
  sup.filter fun a => ladderKeep atol (nb.cartToRel a.pos)

/-- the loop `for atol in tol:` — the first rung whose selection has the expected number of atoms. -/
def ladderLoop (want : Nat) (nb : Box K) (sup : List (Atom K)) : List K → Option (List (Atom K))
  | [] => none
  | t :: ts => if (ladderFilter t nb sup).length = want then some (ladderFilter t nb sup) else ladderLoop want nb sup ts

/-- `System.rotate` up to `normalize` WITH the tolerance ladder (`tols` = the `tol` argument as a list):
    `value` = parallel / planar vectors, `filter` = "Filtering failed" after the last rung. -/
def rotateLadder (fl : K → Int) (tols : List K) (b : Box K) (U : M3 Int) (atoms : List (Atom K)) :
    Except String (Box K × List (Atom K)) :=
  if U = M3.one then .ok (rotateIdentity fl b atoms) else
  if M3.det U = 0 then .error "value" else
  let r := rotateSup fl b U atoms
  match ladderLoop ((M3.det U).natAbs * atoms.length) r.1 r.2 tols with
  | some kept => .ok (r.1, kept)
  | none => .error "filter"

end

/-- `multip`: the primitive supercell `conventional_to_primitive` builds is 3x3x3 for the trigonal settings, 2x2x2 otherwise. -/
def multip (setting : String) : Nat := if ["t1", "t2", "t"].contains setting then 3 else 2

/-- `lattice_vectors` of `miller.vector_primitive_to_conventional` as (denominator, numerators): rows = the primitive
    cell vectors in conventional coordinates. -/
def p2cTable : String → Option (Int × M3 Int)
  | "p" => some (1, ⟨⟨1, 0, 0⟩, ⟨0, 1, 0⟩, ⟨0, 0, 1⟩⟩)
  | "a" => some (2, ⟨⟨2, 0, 0⟩, ⟨0, 1, 1⟩, ⟨0, -1, 1⟩⟩)
  | "b" => some (2, ⟨⟨1, 0, 1⟩, ⟨0, 2, 0⟩, ⟨-1, 0, 1⟩⟩)
  | "c" => some (2, ⟨⟨1, 1, 0⟩, ⟨-1, 1, 0⟩, ⟨0, 0, 2⟩⟩)
  | "i" => some (2, ⟨⟨1, 1, 1⟩, ⟨-1, 1, -1⟩, ⟨-1, -1, 1⟩⟩)
  | "f" => some (2, ⟨⟨1, 1, 0⟩, ⟨0, 1, 1⟩, ⟨1, 0, 1⟩⟩)
  | "t1" => some (3, ⟨⟨2, 1, 1⟩, ⟨-1, 1, 1⟩, ⟨-1, -2, 1⟩⟩)
  | "t2" => some (3, ⟨⟨-2, -1, 1⟩, ⟨1, -1, 1⟩, ⟨1, 2, 1⟩⟩)
  | _ => none

/-- `lattice_vectors` of `miller.vector_conventional_to_primitive`: rows = the conventional cell vectors in primitive
    coordinates (integers). -/
def c2pTable : String → Option (M3 Int)
  | "p" => some ⟨⟨1, 0, 0⟩, ⟨0, 1, 0⟩, ⟨0, 0, 1⟩⟩
  | "a" => some ⟨⟨1, 0, 0⟩, ⟨0, 1, -1⟩, ⟨0, 1, 1⟩⟩
  | "b" => some ⟨⟨1, 0, -1⟩, ⟨0, 1, 0⟩, ⟨1, 0, 1⟩⟩
  | "c" => some ⟨⟨1, -1, 0⟩, ⟨1, 1, 0⟩, ⟨0, 0, 1⟩⟩
  | "i" => some ⟨⟨0, -1, -1⟩, ⟨1, 1, 0⟩, ⟨1, 0, 1⟩⟩
  | "f" => some ⟨⟨1, -1, 1⟩, ⟨1, 1, -1⟩, ⟨-1, 1, 1⟩⟩
  | "t1" => some ⟨⟨1, -1, 0⟩, ⟨0, 1, -1⟩, ⟨1, 1, 1⟩⟩
  | "t2" => some ⟨⟨-1, 1, 0⟩, ⟨0, -1, 1⟩, ⟨1, 1, 1⟩⟩
  | _ => none

def V3.idiv? (m d : Int) (v : V3 Int) : Option (V3 Int) :=
  if (m * v.x) % d = 0 ∧ (m * v.y) % d = 0 ∧ (m * v.z) % d = 0 then some ⟨m * v.x / d, m * v.y / d, m * v.z / d⟩ else none

/-- `(m · N) / d` when every entry divides exactly. -/
def scaleDiv? (m d : Int) (N : M3 Int) : Option (M3 Int) :=
  match V3.idiv? m d N.r0, V3.idiv? m d N.r1, V3.idiv? m d N.r2 with
  | some a, some b, some c => some ⟨a, b, c⟩
  | _, _, _ => none

/-- the vectors `conventional_to_primitive` hands to `rotate`:
    `vector_primitive_to_conventional(multip * identity(3), setting)` = `multip · table[setting]`; `none` = unknown setting
    (`'t'` itself has no table) or a non-integer matrix (which `rotate` would refuse). -/
def c2pUvws (setting : String) : Option (M3 Int) :=
  match p2cTable setting with
  | some (d, N) => scaleDiv? (multip setting) d N
  | none => none

/-- the vectors `primitive_to_conventional` hands to `rotate`: `vector_conventional_to_primitive(identity(3), setting)`. -/
def p2cUvws (setting : String) : Option (M3 Int) := c2pTable setting

/-- keyword defaults of `conventional_to_primitive` (`rtol`, `atol` as num/den; `smallshift` component; flags). -/
structure C2PDefaults where
  setting : String
  rtol : Nat × Nat
  atol : Nat × Nat
  smallshift : Nat × Nat
  checkBasis : Bool
  checkFamily : Bool
  returnTransform : Bool
deriving Repr, DecidableEq

def c2pDefaults : C2PDefaults := ⟨"p", (1, 100000), (1, 100000000), (1, 1000), true, true, false⟩

/-! ### round 6: the numpy bookkeeping of `supersize` — which offset goes with which row

`test = np.empty(m * n); test.shape = (n, m); test[:] = np.arange(m); x = test.T.flatten()` is `colMajorRange n m`
(`j` repeated `n` times for `j = 0 … m-1`); `test.shape = (k, len(v)); test[:] = v; v = test.flatten()` is `tileList k v`;
`new = np.empty((M,) + old.shape); new[:] = old; new.reshape((M * N, …))` takes row `i mod N` of `old`: `tileList M (range N)`. -/

def colMajorRange (rows m : Nat) : List Nat := (List.range m).flatMap fun j => List.replicate rows j
def tileList {α : Type} (k : Nat) (l : List α) : List α := (List.range k).flatMap fun _ => l

/-- the replica counters `x`, `y`, `z` of `supersize` (one entry per row of the result) and the row of the input each
    row of the result is copied from, as the broadcasting statements build them. -/
def offsetsX (N m0 m1 m2 : Nat) : List Nat := tileList m2 (tileList m1 (colMajorRange N m0))
def offsetsY (N m0 m1 m2 : Nat) : List Nat := tileList m2 (colMajorRange (m0 * N) m1)
def offsetsZ (N m0 m1 m2 : Nat) : List Nat := colMajorRange (m1 * (m0 * N)) m2
def copyIndex (N m0 m1 m2 : Nat) : List Nat := tileList (m0 * m1 * m2) (List.range N)

/-- the order of the model (`supersizeAtoms`): replica-major, `r0` fastest, then the atom index. -/
def replicaOrder (N m0 m1 m2 : Nat) : List (Nat × Nat × Nat × Nat) :=
  (List.range m2).flatMap fun r2 => (List.range m1).flatMap fun r1 => (List.range m0).flatMap fun r0 =>
    (List.range N).map fun i => (i, r0, r1, r2)

/-- outcome of one pass of the site loop of `check_setting_basis`: `return b`, the `ValueError`, or on to the next site. -/
inductive SiteStep where
  | ret (b : Bool)
  | raise
  | next (ty : Option Int)
deriving Repr, DecidableEq

/-- one pass of the site loop, given the number of atoms found at the site (`np.sum(index)`), the type of the first of
    them (`ucell.atoms.atype[index][0]`) and the type remembered so far (`atype`, `None` at the first site). -/
def siteStep (count : Nat) (t : Int) (ty : Option Int) : SiteStep :=
  if count = 0 then .ret false else if 1 < count then .raise else
  match ty with
  | none => .next (some t)
  | some atype => if atype ≠ t then .ret false else .next (some atype)

end Atomman.C04
