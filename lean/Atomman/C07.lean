/-
  C07 — written LAMMPS data / dump / table and POSCAR files (core Lean only).

  * `fmtFixed`, `fmtExp`: correctly rounded (half-even on exact ties) `%.nf` / `%.ne` of an exact
    rational, character for character what CPython / glibc print for a double of that value.
  * writers `writeData`, `infoContent`, `writeDump`, `writeTable`, `writePoscar`
    (sources: atomman/dump/atom_data/dump.py, atom_dump/dump.py, table/dump.py, poscar/dump.py,
    `System.wrap` in atomman/core/System.py).  The atom_style → column tables come from
    `Atomman/Generated/AtomStyles.lean` (regenerated from the Python source on every run).
  * INDEPENDENT parsers `parseData`, `parseDump`, `parsePoscar`, written from the published format
    rules (LAMMPS `read_data` / `dump` manual pages, VASP POSCAR), not from atomman's readers, with
    hand-encoded LAMMPS column layouts `lammpsAtomLayout`, `lammpsVelLayout`.

  Text is `List Char` throughout (a token is a `List Char`, a line a list of tokens, a document a list
  of lines); `String` only appears at the driver boundary.  That keeps every theorem about printing
  and parsing inside plain list reasoning.
-/
import Atomman.Prelude
import Atomman.Box
import Atomman.Generated.AtomStyles

namespace Atomman.C07

abbrev Tok := List Char
abbrev Line := List Tok
abbrev Doc := List Line

/-- `cs!"abc"` is the character list `['a','b','c']`, expanded at elaboration time. -/
macro "cs!" s:str : term => do
  let cs := s.getString.toList
  let elems : Array (Lean.TSyntax `term) := (cs.map fun c => (Lean.Syntax.mkCharLit c : Lean.TSyntax `term)).toArray
  `(([$elems,*] : List Char))

/-! ### decimal digits -/

def digitChar (d : Nat) : Char := Char.ofNat (48 + d)

/-- the `w` low decimal digits of `m`, most significant first (zero padded). -/
def padDigits : Nat → Nat → List Char
  | 0, _ => []
  | w + 1, m => padDigits w (m / 10) ++ [digitChar (m % 10)]

/-- number of decimal digits of `m` (`1` for `0`). -/
def width (m : Nat) : Nat := if m < 10 then 1 else width (m / 10) + 1

def natTok (m : Nat) : Tok := padDigits (width m) m

def intTok (i : Int) : Tok := if i < 0 then '-' :: natTok i.natAbs else natTok i.natAbs

def isDigit (c : Char) : Bool := decide (48 ≤ c.toNat) && decide (c.toNat ≤ 57)

/-- value of a digit string read most-significant first (`acc` = value so far). -/
def digitsVal : List Char → Nat → Nat
  | [], acc => acc
  | c :: cs, acc => digitsVal cs (acc * 10 + (c.toNat - 48))

def parseNat? (t : Tok) : Option Nat :=
  if t ≠ [] ∧ t.all isDigit then some (digitsVal t 0) else none

/-- optional sign. -/
def splitSign : List Char → Bool × List Char
  | '-' :: r => (true, r)
  | '+' :: r => (false, r)
  | r => (false, r)

/-- C `strtol`-style integer token (whole token must be consumed). -/
def parseInt? (t : Tok) : Option Int :=
  match parseNat? (splitSign t).2 with
  | some k => some (if (splitSign t).1 then -(k : Int) else (k : Int))
  | none => none

def pow10 (e : Int) : Rat :=
  if 0 ≤ e then ((10 ^ e.toNat : Nat) : Rat) else 1 / ((10 ^ (-e).toNat : Nat) : Rat)

/-- exponent part of a decimal token: empty, or `(e|E) [+-] digits`. -/
def parseExp? (r : List Char) : Option Int :=
  match r with
  | [] => some 0
  | c :: r3 =>
    if c = 'e' ∨ c = 'E' then
      match parseNat? (splitSign r3).2 with
      | some k => some (if (splitSign r3).1 then -(k : Int) else (k : Int))
      | none => none
    else none

/-- fraction part after the integer digits: `. digits` or nothing; returns (fraction digits, rest). -/
def fracPart (r1 : List Char) : List Char × List Char :=
  match r1 with
  | '.' :: r' => r'.span isDigit
  | _ => ([], r1)

/-- unsigned decimal: `digits [. digits] [exponent]` with at least one mantissa digit. -/
def parseUnsigned? (r : List Char) : Option Rat :=
  let ip := (r.span isDigit).1
  let fr := fracPart (r.span isDigit).2
  if ip = [] ∧ fr.1 = [] then none else
  match parseExp? fr.2 with
  | none => none
  | some ex =>
    some (((digitsVal (ip ++ fr.1) 0 : Nat) : Rat) / ((10 ^ fr.1.length : Nat) : Rat) * pow10 ex)

/-- C `strtod`-style decimal token: `[+-] digits [. digits] [(e|E) [+-] digits]`, at least one
    mantissa digit, whole token consumed.  (No hex floats / inf / nan: never written.) -/
def parseNum? (t : Tok) : Option Rat :=
  match parseUnsigned? (splitSign t).2 with
  | some v => some (if (splitSign t).1 then -v else v)
  | none => none

/-! ### correctly rounded `%.nf` and `%.ne` -/

/-- nearest integer to `N / D` (`D > 0`), exact ties to the even neighbour. -/
def roundDiv (N : Int) (D : Nat) : Int :=
  let fl := N / (D : Int)
  let r := N % (D : Int)
  if 2 * r < (D : Int) then fl
  else if (D : Int) < 2 * r then fl + 1
  else if fl % 2 = 0 then fl else fl + 1

/-- the integer `m` with `m / 10ⁿ` = `q` rounded to `n` decimals. -/
def fixedScaled (q : Rat) (n : Nat) : Int := roundDiv (q.num * (10 ^ n : Nat)) q.den

/-- the value the text `fmtFixed q n` denotes. -/
def fixedVal (q : Rat) (n : Nat) : Rat := (fixedScaled q n : Rat) / ((10 ^ n : Nat) : Rat)

/-- `'%.nf' % q` (the sign of a negative value is kept even when it rounds to zero, as in C). -/
def fmtFixed (q : Rat) (n : Nat) : Tok :=
  let m := (fixedScaled q n).natAbs
  (if q < 0 then ['-'] else []) ++ natTok (m / 10 ^ n) ++
    (if n = 0 then [] else '.' :: padDigits n (m % 10 ^ n))

/-- `⌊log₁₀ a⌋` for `a > 0`. -/
def expOf (a : Rat) : Int :=
  let e0 : Int := (width a.num.natAbs : Int) - (width a.den : Int)
  if pow10 e0 ≤ a then e0 else e0 - 1

/-- mantissa (an integer of exactly `n+1` digits) and decimal exponent of `%.ne` of `a > 0`. -/
def expParts (a : Rat) (n : Nat) : Nat × Int :=
  let e := expOf a
  let x := a * pow10 ((n : Int) - e)
  let m := (roundDiv x.num x.den).natAbs
  if m = 10 ^ (n + 1) then (10 ^ n, e + 1) else (m, e)

def expTok (e : Int) : Tok :=
  (if e < 0 then '-' else '+') :: (if e.natAbs < 10 then '0' :: natTok e.natAbs else natTok e.natAbs)

/-- `'%.ne' % q`. -/
def fmtExp (q : Rat) (n : Nat) : Tok :=
  let sign : Tok := if q < 0 then ['-'] else []
  if q = 0 then
    sign ++ '0' :: (if n = 0 then [] else '.' :: padDigits n 0) ++ 'e' :: expTok 0
  else
    let a := if q < 0 then -q else q
    let (m, e) := expParts a n
    sign ++ padDigits 1 (m / 10 ^ n) ++ (if n = 0 then [] else '.' :: padDigits n (m % 10 ^ n))
      ++ 'e' :: expTok e

def expVal (q : Rat) (n : Nat) : Rat :=
  if q = 0 then 0 else
    let a := if q < 0 then -q else q
    let (m, e) := expParts a n
    let v := ((m : Nat) : Rat) * pow10 (e - (n : Int))
    if q < 0 then -v else v

/-- float formats supported by the model: `%.nf`, `%.ne`. -/
inductive Fmt where
  | fixed (n : Nat)
  | exp (n : Nat)
deriving Repr, DecidableEq

def fmtNum : Fmt → Rat → Tok
  | .fixed n, q => fmtFixed q n
  | .exp n, q => fmtExp q n

/-- the exact value denoted by `fmtNum f q`. -/
def fmtVal : Fmt → Rat → Rat
  | .fixed n, q => fixedVal q n
  | .exp n, q => expVal q n

/-! ### documents: rendering and lexing -/

def joinSp : Line → List Char
  | [] => []
  | [t] => t
  | t :: ts => t ++ ' ' :: joinSp ts

/-- every line terminated by a newline (LAMMPS files). -/
def renderLines : Doc → List Char
  | [] => []
  | l :: ls => joinSp l ++ '\n' :: renderLines ls

/-- lines separated by newlines, no terminator after the last (POSCAR: `'\n'.join`). -/
def renderJoin : Doc → List Char
  | [] => []
  | [l] => joinSp l
  | l :: ls => joinSp l ++ '\n' :: renderJoin ls

def isSpace (c : Char) : Bool := c = ' ' || c = '\t' || c = '\r' || c = '\x0c' || c = '\x0b'

/-- split a text into lines at `'\n'` (a trailing newline does not open a further line). -/
def splitLines : List Char → List (List Char)
  | [] => []
  | c :: cs =>
    if c = '\n' then [] :: splitLines cs
    else match splitLines cs with
      | [] => [[c]]
      | l :: ls => (c :: l) :: ls

/-- whitespace-separated tokens of a line. -/
def lexLine : List Char → Line
  | [] => []
  | c :: cs =>
    if isSpace c then lexLine cs
    else
      match cs with
      | [] => [[c]]
      | d :: _ =>
        if isSpace d then [c] :: lexLine cs
        else match lexLine cs with
          | [] => [[c]]
          | t :: ts => (c :: t) :: ts

def lexDoc (text : List Char) : Doc := (splitLines text).map lexLine

/-- the part of a line before the first `#` (LAMMPS comment rule). -/
def stripComment (l : List Char) : List Char := l.takeWhile (· ≠ '#')

/-- the part after the first `#`. -/
def commentOf (l : List Char) : List Char := (l.dropWhile (· ≠ '#')).drop 1

/-! ### systems -/

/-- a per-atom property: `ncomp` values per atom (row-major for array-valued properties). -/
structure Column where
  name : String
  isInt : Bool
  ncomp : Nat
  vals : List (List Rat)
deriving Repr

structure Sys where
  box : Box Rat
  pbc : V3 Bool
  natypes : Nat
  atype : List Int
  pos : List (V3 Rat)
  props : List Column
deriving Repr

def Sys.natoms (s : Sys) : Nat := s.pos.length

def Sys.prop? (s : Sys) (name : String) : Option Column := s.props.find? (·.name = name)

/-- a cell of a written table. -/
inductive Cell where
  | int (i : Int)
  | num (q : Rat)
deriving Repr, DecidableEq

def Cell.tok (f : Fmt) : Cell → Tok
  | .int i => intTok i
  | .num q => fmtNum f q

/-- unit factors: LAMMPS unit kind ↦ factor (value in working units of one LAMMPS unit);
    `none` = no conversion (`lj`). -/
abbrev Units := List (String × Option Rat)

def Units.factor? (u : Units) (kind : String) : Option (Option Rat) := (u.find? (·.1 = kind)).map (·.2)

/-! ### `System.wrap(return_imageflags=True)` -/

def v3get {α : Type} (v : V3 α) (i : Nat) : α := if i = 0 then v.x else if i = 1 then v.y else v.z

def listMin (d : Rat) : List Rat → Rat
  | [] => d
  | x :: xs => xs.foldl (fun a b => if b < a then b else a) x

def listMax (d : Rat) : List Rat → Rat
  | [] => d
  | x :: xs => xs.foldl (fun a b => if a < b then b else a) x

/-- margin by which `wrap` enlarges a non-periodic direction (the literal `0.001`). -/
def wrapMargin : Rat := 1 / 1000

/-- per axis: (lower, upper) bound of the relative coordinate after wrapping. -/
def wrapBounds (periodic : Bool) (s : List Rat) : Rat × Rat :=
  if periodic then (0, 1) else
    let mn := listMin 0 s
    let mx := listMax 1 s
    (if mn ≤ 0 then mn - wrapMargin else 0, if 1 ≤ mx then mx + wrapMargin else 1)

def wrapFlag (periodic : Bool) (s : Rat) : Int := if periodic then s.floor else 0

structure Wrapped where
  box : Box Rat
  pos : List (V3 Rat)
  flags : List (V3 Int)
  /-- relative coordinates (old box) after removing the flags -/
  spos : List (V3 Rat)
  mins : V3 Rat
  maxs : V3 Rat
deriving Repr

def wrap (box : Box Rat) (pbc : V3 Bool) (pos : List (V3 Rat)) : Wrapped :=
  let spos := pos.map box.cartToRel
  let flags : List (V3 Int) := spos.map fun s =>
    ⟨wrapFlag pbc.x s.x, wrapFlag pbc.y s.y, wrapFlag pbc.z s.z⟩
  let bx := wrapBounds pbc.x (spos.map (·.x))
  let by' := wrapBounds pbc.y (spos.map (·.y))
  let bz := wrapBounds pbc.z (spos.map (·.z))
  let spos' := List.zipWith (fun (s : V3 Rat) (f : V3 Int) =>
    (⟨s.x - (f.x : Rat), s.y - (f.y : Rat), s.z - (f.z : Rat)⟩ : V3 Rat)) spos flags
  let mins : V3 Rat := ⟨bx.1, by'.1, bz.1⟩
  let maxs : V3 Rat := ⟨bx.2, by'.2, bz.2⟩
  let origin := box.origin + M3.vecMul mins box.vects
  let vects : M3 Rat := ⟨V3.smul (maxs.x - mins.x) box.vects.r0, V3.smul (maxs.y - mins.y) box.vects.r1,
    V3.smul (maxs.z - mins.z) box.vects.r2⟩
  { box := ⟨vects, origin⟩, pos := spos'.map box.relToCart, flags := flags, spos := spos',
    mins := mins, maxs := maxs }

/-! ### tables (atomman/dump/table/dump.py) -/

/-- one column group of a table: property name, number of components, unit. -/
inductive UnitSpec where
  | none                -- no conversion
  | kind (k : String)   -- LAMMPS unit kind, looked up in `Units`
  | scaled              -- box-relative (`position_cartesian_to_relative`)
deriving Repr, DecidableEq

structure ColSpec where
  prop : String
  names : List String
  unit : UnitSpec
deriving Repr, DecidableEq

def ofGenCol (c : Gen.AtomStyles.Col) : ColSpec :=
  { prop := c.1, names := c.2.1,
    unit := match c.2.2 with
      | none => .none
      | some k => if k = "scaled" then .scaled else .kind k }

/-- errors are the error classes of the wire protocol (`value`, `assert`, …). -/
abbrev Res (α : Type) := Except String α

/-- divide by the unit factor (`uc.get_in_units`). -/
def convert (u : Units) (spec : UnitSpec) (q : Rat) : Res Rat :=
  match spec with
  | .none => pure q
  | .scaled => pure q
  | .kind k =>
    match u.factor? k with
    | some (some f) => pure (q / f)
    | some none => pure q
    | none => throw "value"

def isPosLike (p : String) : Bool := p = "pos" || p = "upos" || p = "spos" || p = "supos"

/-- values of one property for atom `k` as table cells. `ids` are the values of the id column,
    `pos` the positions to write (wrapped ones for a data file). -/
def propCells (s : Sys) (u : Units) (ids : List Int) (pos : List (V3 Rat)) (c : ColSpec) (k : Nat) :
    Res (List Cell) :=
  if c.prop = "a_id" ∨ c.prop = "atom_id" then
    match ids[k]? with
    | some i => pure [.int i]
    | none => throw "value"
  else if c.prop = "atype" then
    match s.atype[k]? with
    | some t => pure [.int t]
    | none => throw "value"
  else
    let raw? : Option (Bool × List Rat) :=
      if isPosLike c.prop then (pos[k]?).map fun p => (false, [p.x, p.y, p.z])
      else match s.prop? c.prop with
        | some col => (col.vals[k]?).map fun v => (col.isInt, v)
        | none => none
    match raw? with
    | none => throw "value"
    | some (isInt, v) =>
      if v.length ≠ c.names.length then throw "value" else
      match (if c.prop = "spos" ∨ c.prop = "supos" then UnitSpec.scaled else c.unit) with
      | .none => pure (v.map fun q => if isInt then .int q.floor else .num q)
      | .scaled =>
        match v with
        | [a, b, cc] => let r := s.box.cartToRel ⟨a, b, cc⟩; pure [.num r.x, .num r.y, .num r.z]
        | _ => throw "value"
      | .kind k => do
        let w ← v.mapM (convert u (.kind k))
        pure (w.map .num)

/-- the rows of a table: one list of cells per atom. -/
def tableRows (s : Sys) (u : Units) (ids : List Int) (pos : List (V3 Rat)) (cols : List ColSpec)
    (extra : List (List Cell)) : Res (List (List Cell)) :=
  (List.range s.natoms).mapM fun k => do
    let cells ← cols.mapM (propCells s u ids pos · k)
    pure (cells.flatten ++ (extra[k]?).getD [])

def rowsDoc (f : Fmt) (rows : List (List Cell)) : Doc := rows.map (·.map (Cell.tok f))

def seqIds (n : Nat) : List Int := (List.range n).map fun (k : Nat) => (k : Int) + 1

/-! ### atom styles -/

def styleWords (style : String) : List String := (style.splitOn " ").filter (· ≠ "")

/-- columns of a base style (an empty generated list records "the Python function raises": no columns). -/
def lookupStyle (tbl : List (String × List Gen.AtomStyles.Col)) (style : String) : Option (List ColSpec) :=
  match tbl.find? (·.1 = style) with
  | some e => if e.2 = [] then none else some (e.2.map ofGenCol)
  | none => none

/-- `hybrid a b …`: the `atomic` columns followed by the not-yet-present properties of each sub-style. -/
def hybridCols (tbl : List (String × List Gen.AtomStyles.Col)) (subs : List String) : Option (List ColSpec) := do
  let base ← lookupStyle tbl "atomic"
  subs.foldlM (fun acc sub => do
    let sc ← lookupStyle tbl sub
    pure (acc ++ sc.filter fun c => !(acc.any (·.prop = c.prop)))) base

def styleCols (tbl : List (String × List Gen.AtomStyles.Col)) (style : String) : Option (List ColSpec) :=
  match styleWords style with
  | "hybrid" :: subs => hybridCols tbl subs
  | [w] => lookupStyle tbl w
  | _ => none

def atomCols (style : String) : Option (List ColSpec) := styleCols Gen.AtomStyles.atomStyles style
def velCols (style : String) : Option (List ColSpec) := styleCols Gen.AtomStyles.velStyles style

/-! ### LAMMPS data file (atomman/dump/atom_data/dump.py) -/

def strTok (s : String) : Tok := s.toList

structure DataOut where
  doc : Doc
  wrapped : Wrapped
deriving Repr

/-- the LAMMPS `xlo xhi … xy xz yz` of a LAMMPS-normal box, in units of `len`. -/
structure HiLo where
  xlo : Rat
  xhi : Rat
  ylo : Rat
  yhi : Rat
  zlo : Rat
  zhi : Rat
  xy : Rat
  xz : Rat
  yz : Rat
deriving Repr, DecidableEq

def hiLoOf (b : Box Rat) : HiLo :=
  { xlo := b.origin.x, xhi := b.origin.x + b.vects.r0.x,
    ylo := b.origin.y, yhi := b.origin.y + b.vects.r1.y,
    zlo := b.origin.z, zhi := b.origin.z + b.vects.r2.z,
    xy := b.vects.r1.x, xz := b.vects.r2.x, yz := b.vects.r2.y }

def HiLo.map (h : HiLo) (f : Rat → Rat) : HiLo :=
  ⟨f h.xlo, f h.xhi, f h.ylo, f h.yhi, f h.zlo, f h.zhi, f h.xy, f h.xz, f h.yz⟩

def lengthFactor (u : Units) : Res (Option Rat) :=
  match u.factor? "length" with
  | some f => pure f
  | none => throw "value"

def divBy (f : Option Rat) (q : Rat) : Rat := match f with | some f => q / f | none => q

def boxLines (f : Fmt) (h : HiLo) : Doc :=
  [[fmtNum f h.xlo, fmtNum f h.xhi, cs!"xlo", cs!"xhi"],
   [fmtNum f h.ylo, fmtNum f h.yhi, cs!"ylo", cs!"yhi"],
   [fmtNum f h.zlo, fmtNum f h.zhi, cs!"zlo", cs!"zhi"]] ++
  (if h.xy ≠ 0 ∨ h.xz ≠ 0 ∨ h.yz ≠ 0 then
    [[fmtNum f h.xy, fmtNum f h.xz, fmtNum f h.yz, cs!"xy", cs!"xz", cs!"yz"]] else [])

def flagCells (flags : List (V3 Int)) : List (List Cell) :=
  if flags.all (fun f => f.x = 0 ∧ f.y = 0 ∧ f.z = 0) then []
  else flags.map fun f => [.int f.x, .int f.y, .int f.z]

/-- the numbers a data file carries, before printing. -/
structure DataParts where
  natoms : Nat
  natypes : Nat
  hilo : HiLo
  rows : List (List Cell)
  vel : Option (List (List Cell))
deriving Repr

/-- the text layout of a data file (header, box lines, `Atoms # style` table, optional `Velocities`). -/
def dataDocOf (f : Fmt) (style : String) (p : DataParts) : Doc :=
  [[], [natTok p.natoms, cs!"atoms"], [natTok p.natypes, cs!"atom", cs!"types"]] ++ boxLines f p.hilo ++
  [[], [cs!"Atoms", cs!"#"] ++ (styleWords style).map strTok, []] ++ rowsDoc f p.rows ++
  (match p.vel with
   | some vr => [[], [cs!"Velocities"], []] ++ rowsDoc f vr
   | none => [])

/-- wrap with image flags, convert to the unit style, build the Atoms / Velocities tables. -/
def dataParts (s : Sys) (style : String) (u : Units) : Res (DataParts × Wrapped) := do
  let w := wrap s.box s.pbc s.pos
  if !w.box.isLammpsNorm then throw "assert"
  let lf ← lengthFactor u
  let h := (hiLoOf w.box).map (divBy lf)
  let cols ← match atomCols style with
    | some c => pure c
    | none => throw "value"
  let ids := seqIds s.natoms
  let s' : Sys := { s with box := w.box, pos := w.pos }
  let rows ← tableRows s' u ids w.pos cols (flagCells w.flags)
  let vel ← if (s.prop? "velocity").isSome then do
      let vc ← match velCols style with
        | some c => pure c
        | none => throw "value"
      let vr ← tableRows s' u ids w.pos vc []
      pure (some vr)
    else pure none
  pure ({ natoms := s.natoms, natypes := s.natypes, hilo := h, rows := rows, vel := vel }, w)

/-- `atom_data.dump(system, atom_style, units, natypes, float_format)`: the file as a document. -/
def writeDataDoc (s : Sys) (style : String) (u : Units) (f : Fmt) : Res DataOut :=
  (dataParts s style u).map fun pw => { doc := dataDocOf f style pw.1, wrapped := pw.2 }

def writeData (s : Sys) (style : String) (u : Units) (f : Fmt) : Res (List Char) :=
  (writeDataDoc s style u f).map fun o => renderLines o.doc

/-- `info_content(system, f, atom_style, units)`; `fname` is the file name when one was given. -/
def infoDoc (pbc : V3 Bool) (style units : String) (fname : Option String) : Doc :=
  let b (p : Bool) : Tok := if p then cs!"p" else cs!"m"
  [[cs!"#", cs!"Script", cs!"and", cs!"atom", cs!"data", cs!"file", cs!"prepared", cs!"using", cs!"atomman",
    cs!"Python", cs!"package"], [],
   [cs!"units", strTok units],
   cs!"atom_style" :: (styleWords style).map strTok, [],
   [cs!"boundary", b pbc.x, b pbc.y, b pbc.z]] ++
  (match fname with
   | some n => [[cs!"read_data", strTok n]]
   | none => [])

def infoContent (pbc : V3 Bool) (style units : String) (fname : Option String) : List Char :=
  renderLines (infoDoc pbc style units fname)

/-- `atom_data.dump(..., return_info=True)`: the file content and the command snippet, both produced from
    the same `style` / `unitsName` (`u` = the conversion factors of that unit style). -/
def dumpData (s : Sys) (style unitsName : String) (u : Units) (f : Fmt) (fname : Option String) :
    Res (List Char × List Char) :=
  (writeData s style u f).map fun content => (content, infoContent s.pbc style unitsName fname)

/-- what a potential object hands to the data-file writer: its unit style, its atom style and the number of
    atom types it defines for the system's symbols. -/
structure PotArgs where
  units : String
  atomStyle : String
  natypes : Nat
deriving Repr

/-- head of `atom_data.dump`: an argument the caller gives is used as given; one left out is taken from the
    potential when there is one, else it is the default (`metal`, `atomic`, the system's number of types).
    Result: (units, atom_style, natypes). -/
def resolveArgs (unitsArg styleArg : Option String) (natypesArg : Option Nat) (pot : Option PotArgs)
    (sysNatypes : Nat) : String × String × Nat :=
  match pot with
  | some p => (unitsArg.getD p.units, styleArg.getD p.atomStyle, natypesArg.getD p.natypes)
  | none => (unitsArg.getD "metal", styleArg.getD "atomic", natypesArg.getD sysNatypes)

/-- `System.dump('atom_data', atom_style=, units=, natypes=, potential=, ...)`: the arguments are resolved, the
    conversion factors of the resolved unit style are looked up (`unitsOf` = `style.unit` evaluated in the
    working units) and content and snippet are produced from the resolved names. -/
def dumpDataWith (s : Sys) (unitsArg styleArg : Option String) (natypesArg : Option Nat) (pot : Option PotArgs)
    (unitsOf : String → Units) (f : Fmt) (fname : Option String) : Res (List Char × List Char) :=
  let r := resolveArgs unitsArg styleArg natypesArg pot s.natypes
  dumpData { s with natypes := r.2.2 } r.2.1 r.1 (unitsOf r.1) f fname

/-! ### where the text goes (tail of all four writers): returned, or written to a file name / an open stream -/

/-- the `f` argument of a writer: not given, a file name, or an open text stream. -/
inductive Target where
  | none
  | path (name : String)
  | stream
deriving Repr, DecidableEq

/-- the name the command snippet may mention: only a file NAME is one. -/
def Target.fname : Target → Option String
  | .path n => some n
  | _ => Option.none

/-- what a call does with the text: is it among the returned values, is the optional second value (command
    snippet / filled-in prop_info) returned, is the text written to the target. -/
structure Delivered where
  returnsContent : Bool
  returnsExtra : Bool
  writes : Bool
deriving Repr, DecidableEq

/-- the text is returned exactly when no target is given, else written to the target (never both); the second value
    is returned exactly when it is asked for. -/
def deliver (t : Target) (wantExtra : Bool) : Delivered :=
  { returnsContent := decide (t = .none), returnsExtra := wantExtra, writes := !decide (t = .none) }

/-- number of returned values: 0 → `None`, 1 → the value itself, 2 → a tuple. -/
def Delivered.count (d : Delivered) : Nat := d.returnsContent.toNat + d.returnsExtra.toNat

/-- outcome of a writer call: the values it returns (in order) and what arrives in the target. -/
structure CallResult where
  returned : List (List Char)
  written : Option (List Char)
deriving Repr, DecidableEq

def callResult (d : Delivered) (content : List Char) (extra : List Char) : CallResult :=
  { returned := (if d.returnsContent then [content] else []) ++ (if d.returnsExtra then [extra] else []),
    written := if d.writes then some content else Option.none }

/-- `System.dump('atom_data', f=, atom_style=, units=, natypes=, potential=, float_format=, return_info=)` as a whole:
    arguments resolved, file and snippet produced from the resolved names (the snippet names the target only when it is
    a file name), text returned or written. -/
def dataCall (s : Sys) (unitsArg styleArg : Option String) (natypesArg : Option Nat) (pot : Option PotArgs)
    (unitsOf : String → Units) (f : Fmt) (t : Target) (returnInfo : Bool) : Res CallResult :=
  (dumpDataWith s unitsArg styleArg natypesArg pot unitsOf f t.fname).map fun ci =>
    callResult (deliver t returnInfo) ci.1 ci.2

/-! ### LAMMPS dump file (atomman/dump/atom_dump/dump.py) -/

def min4 (a b c d : Rat) : Rat :=
  let m (x y : Rat) := if y < x then y else x
  m (m (m a b) c) d
def max4 (a b c d : Rat) : Rat :=
  let m (x y : Rat) := if x < y then y else x
  m (m (m a b) c) d

/-- LAMMPS bounding box of a triclinic cell: `(xlo_bound, xhi_bound, ylo_bound, yhi_bound, zlo, zhi)`. -/
structure BBox where
  xlo : Rat
  xhi : Rat
  ylo : Rat
  yhi : Rat
  zlo : Rat
  zhi : Rat
deriving Repr, DecidableEq

def bboxOf (h : HiLo) : BBox :=
  { xlo := h.xlo + min4 0 h.xy h.xz (h.xy + h.xz), xhi := h.xhi + max4 0 h.xy h.xz (h.xy + h.xz),
    ylo := h.ylo + min4 0 h.yz 0 0, yhi := h.yhi + max4 0 h.yz 0 0, zlo := h.zlo, zhi := h.zhi }

/-- the inverse map of the LAMMPS manual (`dump` page, triclinic box bounds). -/
def hiLoOfBBox (b : BBox) (xy xz yz : Rat) : HiLo :=
  { xlo := b.xlo - min4 0 xy xz (xy + xz), xhi := b.xhi - max4 0 xy xz (xy + xz),
    ylo := b.ylo - min4 0 yz 0 0, yhi := b.yhi - max4 0 yz 0 0, zlo := b.zlo, zhi := b.zhi,
    xy := xy, xz := xz, yz := yz }

def dumpStdCol (prop : String) : Option ColSpec :=
  (Gen.AtomStyles.dumpStandard.find? (·.1 = prop)).map ofGenCol

/-- `[i][j]…` suffixes of a property of the given shape, row-major (`atomman.tools.indexstr`). -/
def indexNames (name : String) : List Nat → List String
  | [] => [name]
  | d :: ds => ((List.range d).map fun i => indexNames (name ++ "[" ++ toString i ++ "]") ds).flatten

/-- column spec of one dumped property: a standard LAMMPS one, or `name[i]…` without conversion. -/
def dumpCol (prop : String) (shape : List Nat) : ColSpec :=
  match dumpStdCol prop with
  | some c => c
  | none => { prop := prop, names := indexNames prop shape, unit := .none }

/-- `atom_dump.dump` without `prop_name`: `atom_id` first, then the system's per-atom properties in their order
    without `atom_id` (`atoms_props.pop(atoms_props.index('atom_id'))`: the first occurrence goes). -/
def defaultDumpNames (atomsProps : List String) : List String := "atom_id" :: atomsProps.erase "atom_id"

/-- `atom_dump.dump` without `shape` / `table_name`: `atom_id` is a scalar, the derived position variants are
    3-vectors, every other property has the shape it is stored with. -/
def defaultDumpShape (name : String) (stored : List Nat) : List Nat :=
  if name = "atom_id" then [] else if ["spos", "upos", "supos"].contains name then [3] else stored

/-- names and shapes `atom_dump.dump` uses when the caller gives neither (`stored` = the system's per-atom
    properties with their shapes, `atype` and `pos` included). -/
def defaultDumpProps (stored : List (String × List Nat)) : List (String × List Nat) :=
  (defaultDumpNames (stored.map (·.1))).map fun n =>
    (n, defaultDumpShape n (((stored.find? (·.1 = n)).map (·.2)).getD []))

def hasDup : List Int → Bool
  | [] => false
  | x :: xs => xs.contains x || hasDup xs

/-- `atom_dump.dump(system, lammps_units, prop_name=props)`; `props` = property names in column order
    with their shapes (`atom_id` first by default). -/
def writeDumpDoc (s : Sys) (props : List (String × List Nat)) (u : Units) (f : Fmt) (timestep : Int) : Res Doc := do
  if !s.box.isLammpsNorm then throw "assert"
  let lf ← lengthFactor u
  let h := (hiLoOf s.box).map (divBy lf)
  let bb := bboxOf h
  let ortho : Bool := h.xy = 0 ∧ h.xz = 0 ∧ h.yz = 0
  let b (p : Bool) : Tok := if p then cs!"pp" else cs!"fm"
  let bounds : Line := [cs!"ITEM:", cs!"BOX", cs!"BOUNDS"] ++ (if ortho then [] else [cs!"xy", cs!"xz", cs!"yz"]) ++
    [b s.pbc.x, b s.pbc.y, b s.pbc.z]
  let boxl : Doc := if ortho then
      [[fmtNum f bb.xlo, fmtNum f bb.xhi], [fmtNum f bb.ylo, fmtNum f bb.yhi], [fmtNum f bb.zlo, fmtNum f bb.zhi]]
    else
      [[fmtNum f bb.xlo, fmtNum f bb.xhi, fmtNum f h.xy], [fmtNum f bb.ylo, fmtNum f bb.yhi, fmtNum f h.xz],
       [fmtNum f bb.zlo, fmtNum f bb.zhi, fmtNum f h.yz]]
  let cols := props.map fun p => dumpCol p.1 p.2
  let ids : List Int := match s.prop? "atom_id" with
    | some c => c.vals.map fun v => (v.headD 0).floor
    | none => seqIds s.natoms
  if hasDup ids then throw "assert"
  let rows ← tableRows s u ids s.pos cols []
  pure ([[cs!"ITEM:", cs!"TIMESTEP"], [intTok timestep], [cs!"ITEM:", cs!"NUMBER", cs!"OF", cs!"ATOMS"],
         [natTok s.natoms], bounds] ++ boxl ++
        [[cs!"ITEM:", cs!"ATOMS"] ++ (cols.map fun c => c.names.map strTok).flatten] ++ rowsDoc f rows)

def writeDump (s : Sys) (props : List (String × List Nat)) (u : Units) (f : Fmt) (timestep : Int) :
    Res (List Char) :=
  (writeDumpDoc s props u f timestep).map renderLines

/-- what a system may hold as its time step (fourth round): nothing at all (`System` has no such attribute of its
    own), `None`, an integer of any width (python int, numpy integers, 0-d integer arrays) or a real number (python
    float, numpy floats, 0-d float arrays: elapsed time / step length is a whole number held as a float). -/
inductive StepVal where
  | absent | none
  | int (i : Int)
  | real (q : Rat)
deriving Repr, DecidableEq

/-- integer part toward zero (what C's and Python's `%i` print of a real number). -/
def truncRat (q : Rat) : Int := if 0 ≤ q then q.floor else -((-q).floor)

/-- the step the dump file names: the number itself (a whole number whatever type carries it); 0 when the system
    has none. -/
def StepVal.step : StepVal → Int
  | .absent => 0
  | .none => 0
  | .int i => i
  | .real q => truncRat q

/-- `atom_dump.dump` of a system holding `sv` as its time step. -/
def writeDumpStep (s : Sys) (props : List (String × List Nat)) (u : Units) (f : Fmt) (sv : StepVal) :
    Res (List Char) :=
  writeDump s props u f sv.step

/-! ### generic table (atomman/dump/table/dump.py) -/

/-- `table.dump(system, prop_name=…, unit=…, header=…)`: `a_id` is always `1..N`. -/
def writeTableDoc (s : Sys) (cols : List ColSpec) (u : Units) (f : Fmt) (header : Bool) : Res Doc := do
  let rows ← tableRows s u (seqIds s.natoms) s.pos cols []
  pure ((if header then [(cols.map fun c => c.names.map strTok).flatten] else []) ++ rowsDoc f rows)

def writeTable (s : Sys) (cols : List ColSpec) (u : Units) (f : Fmt) (header : Bool) : Res (List Char) :=
  (writeTableDoc s cols u f header).map renderLines

/-! ### POSCAR (atomman/dump/poscar/dump.py) -/

def v3div (v : V3 Rat) (c : Rat) : V3 Rat := ⟨v.x / c, v.y / c, v.z / c⟩
def v3line (f : Fmt) (v : V3 Rat) : Line := [fmtNum f v.x, fmtNum f v.y, fmtNum f v.z]

def maxType (l : List Int) : Int := l.foldl (fun a b => if a < b then b else a) 0

def countType (atype : List Int) (t : Int) : Nat := (atype.filter (· = t)).length

/-- the exact numbers a POSCAR file carries (before printing): lattice rows, per-type counts (one for each of
    the system's `natypes` types, zero for a type no atom has — as many as the symbols line has names) and
    coordinate rows grouped by type. -/
structure PoscarNums where
  scale : Rat
  lattice : M3 Rat
  counts : List Nat
  coords : List (V3 Rat)
deriving Repr

/-- values of the atoms of type `1, 2, …, ntypes` in that order (original order within a type). -/
def groupByType {α : Type} (atype : List Int) (xs : List α) (ntypes : Nat) : List α :=
  ((List.range ntypes).map fun (i : Nat) =>
    ((List.zip atype xs).filter (fun e => decide (e.1 = (i : Int) + 1))).map (·.2)).flatten

def poscarNums (s : Sys) (cartesian : Bool) (scale : Rat) : PoscarNums :=
  let coords0 := if cartesian then s.pos.map (v3div · scale) else s.pos.map s.box.cartToRel
  { scale := scale,
    lattice := ⟨v3div s.box.vects.r0 scale, v3div s.box.vects.r1 scale, v3div s.box.vects.r2 scale⟩,
    counts := (List.range s.natypes).map fun (i : Nat) => countType s.atype ((i : Int) + 1),
    coords := groupByType s.atype coords0 s.natypes }

/-- `poscar.dump(system, header, symbols, coordstyle, box_scale, float_format)`; `coordstyle` is a
    single word here. -/
def writePoscarDoc (s : Sys) (header : List String) (symbols : Option (List String)) (coordstyle : String)
    (scale : Rat) (f : Fmt) : Res Doc := do
  -- a universal scaling factor that is negative is, by the POSCAR rules, the cell VOLUME, not a multiplier: refused
  if scale ≤ 0 then throw "value"
  if s.natoms = 0 then throw "value"
  let cart : Bool := match coordstyle.toList with
    | c :: _ => c = 'c' || c = 'C' || c = 'k' || c = 'K'
    | [] => false
  if coordstyle.toList = [] then throw "value"
  let p := poscarNums s cart scale
  let sym : Doc ← match symbols with
    | some l => if l.length ≠ s.natypes then throw "value" else pure [l.map strTok]
    | none => pure []
  pure ([header.map strTok, [fmtNum f scale], v3line f p.lattice.r0, v3line f p.lattice.r1, v3line f p.lattice.r2]
    ++ sym ++ [p.counts.map natTok ++ [[]], [strTok coordstyle]] ++ p.coords.map (v3line f))

def writePoscar (s : Sys) (header : List String) (symbols : Option (List String)) (coordstyle : String)
    (scale : Rat) (f : Fmt) : Res (List Char) :=
  (writePoscarDoc s header symbols coordstyle scale f).map renderJoin

/-! ### the other three writers as whole calls (text returned or written; `atom_dump` / `table` can also return the
    filled-in prop_info, which the model does not carry: `extra` is empty) -/

def dumpCall (s : Sys) (props : List (String × List Nat)) (u : Units) (f : Fmt) (sv : StepVal) (t : Target)
    (returnPropInfo : Bool) : Res CallResult :=
  (writeDumpStep s props u f sv).map fun c => callResult (deliver t returnPropInfo) c []

def tableCall (s : Sys) (cols : List ColSpec) (u : Units) (f : Fmt) (header : Bool) (t : Target)
    (returnPropInfo : Bool) : Res CallResult :=
  (writeTable s cols u f header).map fun c => callResult (deliver t returnPropInfo) c []

def poscarCall (s : Sys) (header : List String) (symbols : Option (List String)) (coordstyle : String)
    (scale : Rat) (f : Fmt) (t : Target) : Res CallResult :=
  (writePoscar s header symbols coordstyle scale f).map fun c => callResult (deliver t false) c []

/-! ## Independent parsers (from the published format rules, not from atomman's readers) -/

/-! ### hand-encoded LAMMPS layouts (read_data manual page, "Atoms section" / "Velocities section") -/

/-- per atom_style: the fields of an `Atoms` line in order, each with the kind of unit it is in. -/
def lammpsAtomLayout : List (String × List (String × Option String)) :=
  let id := ("atom-ID", (none : Option String)); let ty := ("atom-type", (none : Option String))
  let mol := ("molecule-ID", (none : Option String))
  let xyz : List (String × Option String) := [("x", some "length"), ("y", some "length"), ("z", some "length")]
  let q := ("q", some "charge"); let rho := ("density", some "density")
  [("angle", [id, mol, ty] ++ xyz),
   ("atomic", [id, ty] ++ xyz),
   ("body", [id, ty, ("bodyflag", none), ("mass", some "mass")] ++ xyz),
   ("bond", [id, mol, ty] ++ xyz),
   ("charge", [id, ty, q] ++ xyz),
   ("dipole", [id, ty, q] ++ xyz ++ [("mux", some "dipole"), ("muy", some "dipole"), ("muz", some "dipole")]),
   ("electron", [id, ty, q, ("spin", none), ("eradius", some "length")] ++ xyz),
   ("ellipsoid", [id, ty, ("ellipsoidflag", none), rho] ++ xyz),
   ("full", [id, mol, ty, q] ++ xyz),
   ("line", [id, mol, ty, ("lineflag", none), rho] ++ xyz),
   ("meso", [id, ty, ("rho", none), ("e", none), ("cv", none)] ++ xyz),
   ("molecular", [id, mol, ty] ++ xyz),
   ("peri", [id, ty, ("volume", some "volume"), rho] ++ xyz),
   ("smd", [id, ty, mol, ("volume", some "volume"), ("mass", some "mass"), ("kernel-radius", some "length"),
            ("contact-radius", some "length")] ++ xyz),
   ("sphere", [id, ty, ("diameter", some "length"), rho] ++ xyz),
   ("template", [id, mol, ("template-index", none), ("template-atom", none), ty] ++ xyz),
   ("tri", [id, mol, ty, ("triangleflag", none), rho] ++ xyz),
   ("wavepacket", [id, ty, q, ("spin", none), ("eradius", some "length"), ("etag", none), ("cs_re", none),
                   ("cs_im", none)] ++ xyz)]

/-- fields of a `Velocities` line. -/
def lammpsVelLayout : List (String × List (String × Option String)) :=
  let id := ("atom-ID", (none : Option String))
  let v : List (String × Option String) := [("vx", some "velocity"), ("vy", some "velocity"), ("vz", some "velocity")]
  let plain := ["angle", "atomic", "body", "bond", "charge", "dipole", "full", "line", "meso", "molecular", "peri",
    "smd", "template", "tri", "wavepacket"]
  plain.map (fun s => (s, id :: v)) ++
  [("electron", id :: v ++ [("ervel", some "velocity")]),
   ("ellipsoid", id :: v ++ [("lx", some "ang-mom"), ("ly", some "ang-mom"), ("lz", some "ang-mom")]),
   ("sphere", id :: v ++ [("wx", some "ang-vel"), ("wy", some "ang-vel"), ("wz", some "ang-vel")])]

/-- atomman property name ↦ the LAMMPS fields it fills. -/
def propFields : List (String × List String) :=
  [("a_id", ["atom-ID"]), ("atype", ["atom-type"]), ("m_id", ["molecule-ID"]), ("pos", ["x", "y", "z"]),
   ("charge", ["q"]), ("mu", ["mux", "muy", "muz"]), ("bflag", ["bodyflag"]), ("mass", ["mass"]),
   ("espin", ["spin"]), ("eradius", ["eradius"]), ("eflag", ["ellipsoidflag"]), ("density", ["density"]),
   ("lflag", ["lineflag"]), ("rho", ["rho"]), ("e", ["e"]), ("cv", ["cv"]), ("volume", ["volume"]),
   ("kradius", ["kernel-radius"]), ("cradius", ["contact-radius"]), ("diameter", ["diameter"]),
   ("m_template", ["template-index"]), ("a_template", ["template-atom"]), ("tflag", ["triangleflag"]),
   ("e_id", ["etag"]), ("cs_re", ["cs_re"]), ("cs_im", ["cs_im"]),
   ("velocity", ["vx", "vy", "vz"]), ("eradial_velocity", ["ervel"]), ("ang_momentum", ["lx", "ly", "lz"]),
   ("ang_velocity", ["wx", "wy", "wz"])]

/-- the generated (atomman) column list of one style as LAMMPS fields with unit kinds. -/
def genAsFields (cols : List Gen.AtomStyles.Col) : List (String × Option String) :=
  (cols.map fun c =>
    match propFields.find? (·.1 = c.1) with
    | some e => if e.2.length = c.2.1.length then e.2.map fun f => (f, c.2.2) else [("?" ++ c.1, c.2.2)]
    | none => [("?" ++ c.1, c.2.2)]).flatten

/-- attributes of a `dump custom` file (dump manual page): column name ↦ unit kind
    (`"scaled"` = box-relative, none = plain number/integer). -/
def lammpsDumpColumns : List (String × Option String) :=
  [("id", none), ("mol", none), ("proc", none), ("procp1", none), ("type", none), ("element", none),
   ("mass", some "mass"), ("x", some "length"), ("y", some "length"), ("z", some "length"),
   ("xs", some "scaled"), ("ys", some "scaled"), ("zs", some "scaled"),
   ("xu", some "length"), ("yu", some "length"), ("zu", some "length"),
   ("xsu", some "scaled"), ("ysu", some "scaled"), ("zsu", some "scaled"),
   -- atomman keeps `boximage` as a Cartesian shift and writes it box-relative ("scaled"); LAMMPS itself
   -- writes integer image counts.  The table records atomman's convention (see docs/C07.md, not enforced).
   ("ix", some "scaled"), ("iy", some "scaled"), ("iz", some "scaled"),
   ("vx", some "velocity"), ("vy", some "velocity"), ("vz", some "velocity"),
   ("fx", some "force"), ("fy", some "force"), ("fz", some "force"),
   ("q", some "charge"), ("mux", some "dipole"), ("muy", some "dipole"), ("muz", some "dipole"),
   ("mu", some "dipole"), ("radius", some "length"), ("diameter", some "length"),
   ("omegax", some "ang-vel"), ("omegay", some "ang-vel"), ("omegaz", some "ang-vel"),
   ("angmomx", some "ang-mom"), ("angmomy", some "ang-mom"), ("angmomz", some "ang-mom"),
   ("tqx", some "force*length"), ("tqy", some "force*length"), ("tqz", some "force*length")]

def genDumpColumns (cols : List Gen.AtomStyles.Col) : List (String × Option String) :=
  (cols.map fun c => c.2.1.map fun n => (n, c.2.2)).flatten

/-- the unit expressions of the LAMMPS `units` manual page for the kinds that per-atom columns use.
    cgs: charge in statcoulombs, 1 C = 10 c statC with c = 299792458 (the number of m/s); electron: dipole moment in
    Debye.  (Fourth round: the two cgs entries and the electron dipole used numericalunits' `c0` — a velocity in
    working units — as if it were that number; `fix:` 41c0e70, fc85c9a.  What the strings are WORTH is the oracle's
    business: harness `ORACLE_UNITS` evaluates the units page independently of atomman on every run.) -/
def lammpsUnitKinds : List (String × List (String × Option String)) :=
  [("lj", [("mass", none), ("length", none), ("time", none), ("velocity", none), ("force", none), ("charge", none),
           ("dipole", none), ("density", none)]),
   ("real", [("mass", some "g/mol"), ("length", some "angstrom"), ("time", some "fs"), ("velocity", some "angstrom/fs"),
             ("force", some "kcal/(mol*angstrom)"), ("charge", some "e"), ("dipole", some "e*angstrom"),
             ("density", some "g/cm^3")]),
   ("metal", [("mass", some "g/mol"), ("length", some "angstrom"), ("time", some "ps"), ("velocity", some "angstrom/ps"),
              ("force", some "eV/angstrom"), ("charge", some "e"), ("dipole", some "e*angstrom"),
              ("density", some "g/cm^3")]),
   ("si", [("mass", some "kg"), ("length", some "m"), ("time", some "s"), ("velocity", some "m/s"), ("force", some "N"),
           ("charge", some "C"), ("dipole", some "C*m"), ("density", some "kg/m^3")]),
   ("cgs", [("mass", some "g"), ("length", some "cm"), ("time", some "s"), ("velocity", some "cm/s"), ("force", some "dyn"),
            ("charge", some "C/2997924580"), ("dipole", some "C*cm/2997924580"), ("density", some "g/cm^3")]),
   ("electron", [("mass", some "amu"), ("length", some "aBohr"), ("time", some "fs"),
                 ("velocity", some "2*Ry*aBohr/hbar"), ("force", some "2*Ry/aBohr"), ("charge", some "e"),
                 ("dipole", some "debye")]),
   ("micro", [("mass", some "pg"), ("length", some "um"), ("time", some "us"), ("velocity", some "um/us"),
              ("force", some "pg*um/us^2"), ("charge", some "1e-12*C"), ("dipole", some "1e-12*C*um"),
              ("density", some "pg/um^3")]),
   ("nano", [("mass", some "1e-18*g"), ("length", some "nm"), ("time", some "ns"), ("velocity", some "nm/ns"),
             ("force", some "1e-18*g*nm/ns^2"), ("charge", some "e"), ("dipole", some "e*nm"),
             ("density", some "1e-18*g/nm^3")])]

/-- the derived units of one regenerated `style.unit` table are COMPOSED of the style's own base entries the way
    the quantities are defined: angular momentum = distance × velocity × mass, angular velocity = 1 / time,
    volume = distance³ (all absent for the unit-less `lj`).  In the `electron` style velocity is not distance / time
    (Bohr per atomic time unit next to femtoseconds): `mass*length^2/time` is a different unit there. -/
def derivedUnitsComposed (e : String × List (String × Option String)) : Bool :=
  let get := fun (k : String) => (e.2.find? (·.1 = k)).map (·.2)
  match get "length", get "velocity", get "mass", get "time" with
  | some (some l), some (some v), some (some m), some (some t) =>
      get "ang-mom" == some (some (l ++ "*" ++ v ++ "*" ++ m)) && get "ang-vel" == some (some ("1/" ++ t))
        && get "volume" == some (some (l ++ "^3"))
  | some none, some none, some none, some none =>
      get "ang-mom" == some none && get "ang-vel" == some none && get "volume" == some none
  | _, _, _, _ => false

def restrictKinds (kinds : List String) (l : List (String × Option String)) : List (String × Option String) :=
  l.filter fun e => kinds.contains e.1

def perAtomKinds : List String := ["mass", "length", "time", "velocity", "force", "charge", "dipole", "density"]

/-- layout of a (possibly hybrid) style from a base table: `hybrid a b` = atomic fields, then the fields of each
    sub-style that are not yet present. -/
def layoutOf (tbl : List (String × List (String × Option String))) (style : String) :
    Option (List (String × Option String)) :=
  match styleWords style with
  | "hybrid" :: subs => do
    let base ← (tbl.find? (·.1 = "atomic")).map (·.2)
    subs.foldlM (fun acc sub => do
      let sc ← (tbl.find? (·.1 = sub)).map (·.2)
      pure (acc ++ sc.filter fun c => !(acc.any (·.1 = c.1)))) base
  | [w] => (tbl.find? (·.1 = w)).map (·.2)
  | _ => none

/-! ### LAMMPS data file reader (read_data manual page) -/

structure DataHeader where
  natoms : Option Nat := none
  ntypes : Option Nat := none
  x : Option (Rat × Rat) := none
  y : Option (Rat × Rat) := none
  z : Option (Rat × Rat) := none
  tilt : Option (Rat × Rat × Rat) := none
deriving Repr

/-- header keywords whose values this reader does not need (read_data manual page). -/
def ignoredHeaderWords : List Tok :=
  [cs!"bonds", cs!"angles", cs!"dihedrals", cs!"impropers", cs!"ellipsoids", cs!"lines", cs!"triangles", cs!"bodies"]

/-- one header line (comment already stripped, non-blank). `none` = not a header line (a section starts). -/
def headerLine (h : DataHeader) (l : Line) : Option (Option DataHeader) :=
  -- outer none: not a header line; inner none: malformed value
  match l with
  | [n, kw] =>
    if kw = cs!"atoms" then some ((parseNat? n).map fun v => { h with natoms := some v })
    else if ignoredHeaderWords.contains kw then some (some h)
    else none
  | [n, k1, k2] =>
    if k1 = cs!"atom" ∧ k2 = cs!"types" then some ((parseNat? n).map fun v => { h with ntypes := some v })
    else if k2 = cs!"types" then some (some h)
    else none
  | [a, b, k1, k2] =>
    let v : Option (Rat × Rat) := do let a ← parseNum? a; let b ← parseNum? b; pure (a, b)
    if k1 = cs!"xlo" ∧ k2 = cs!"xhi" then some (v.map fun v => { h with x := some v })
    else if k1 = cs!"ylo" ∧ k2 = cs!"yhi" then some (v.map fun v => { h with y := some v })
    else if k1 = cs!"zlo" ∧ k2 = cs!"zhi" then some (v.map fun v => { h with z := some v })
    else none
  | [a, b, c, k1, k2, k3] =>
    if k1 = cs!"xy" ∧ k2 = cs!"xz" ∧ k3 = cs!"yz" then
      some (do let a ← parseNum? a; let b ← parseNum? b; let c ← parseNum? c; pure { h with tilt := some (a, b, c) })
    else none
  | _ => none

/-- read header lines; returns the header and the remaining lines (starting at the first section line). -/
def readHeader : List (List Char) → DataHeader → Option (DataHeader × List (List Char))
  | [], h => some (h, [])
  | l :: ls, h =>
    let toks := lexLine (stripComment l)
    if toks = [] then readHeader ls h
    else match headerLine h toks with
      | none => some (h, l :: ls)
      | some none => none
      | some (some h') => readHeader ls h'

structure DataFile where
  natoms : Nat
  ntypes : Nat
  hilo : HiLo
  styleHint : Line
  atoms : List Line
  velocities : Option (List Line)
deriving Repr

/-- a section body: one blank line, then `n` data lines (comments stripped). -/
def readBody (n : Nat) (ls : List (List Char)) : Option (List Line × List (List Char)) :=
  match ls with
  | [] => if n = 0 then some ([], []) else none
  | b :: rest =>
    if lexLine (stripComment b) ≠ [] then none else
    let body := (rest.take n).map fun l => lexLine (stripComment l)
    if body.length ≠ n ∨ body.any (· = []) then none else some (body, rest.drop n)

structure Sections where
  styleHint : Line := []
  atoms : Option (List Line) := none
  velocities : Option (List Line) := none
deriving Repr

def readSections (natoms ntypes : Nat) : Nat → List (List Char) → Sections → Option Sections
  | 0, ls, s => if ls.all (fun l => lexLine (stripComment l) = []) then some s else none
  | fuel + 1, ls, s =>
    match ls with
    | [] => some s
    | l :: rest =>
      let kw := lexLine (stripComment l)
      if kw = [] then readSections natoms ntypes fuel rest s
      else if kw = [cs!"Atoms"] then
        match readBody natoms rest with
        | some (body, rest') =>
          if s.atoms.isSome then none
          else readSections natoms ntypes fuel rest' { s with atoms := some body, styleHint := lexLine (commentOf l) }
        | none => none
      else if kw = [cs!"Velocities"] then
        match readBody natoms rest with
        | some (body, rest') =>
          if s.velocities.isSome then none else readSections natoms ntypes fuel rest' { s with velocities := some body }
        | none => none
      else if kw = [cs!"Masses"] then
        match readBody ntypes rest with
        | some (_, rest') => readSections natoms ntypes fuel rest' s
        | none => none
      else none

/-- read_data: the first line is a title and is skipped; then header, then sections. -/
def readDataFile (text : List Char) : Option DataFile := do
  let lines := splitLines text
  let (h, rest) ← readHeader (lines.drop 1) {}
  let natoms ← h.natoms
  let ntypes ← h.ntypes
  let x ← h.x
  let y ← h.y
  let z ← h.z
  let t := h.tilt.getD (0, 0, 0)
  let s ← readSections natoms ntypes rest.length rest {}
  let atoms ← s.atoms
  pure { natoms := natoms, ntypes := ntypes,
         hilo := ⟨x.1, x.2, y.1, y.2, z.1, z.2, t.1, t.2.1, t.2.2⟩,
         styleHint := s.styleHint, atoms := atoms, velocities := s.velocities }

/-- one parsed `Atoms` line. `fields` are the values of all layout fields in order. -/
structure AtomRec where
  id : Int
  type : Int
  pos : V3 Rat
  image : V3 Int
  fields : List Rat
deriving Repr

def isIntField (f : String) : Bool :=
  ["atom-ID", "atom-type", "molecule-ID", "bodyflag", "ellipsoidflag", "lineflag", "triangleflag",
   "template-index", "template-atom", "spin", "etag"].contains f

def fieldIdx (layout : List (String × Option String)) (f : String) : Option Nat :=
  let i := layout.findIdx (·.1 = f)
  if i < layout.length then some i else none

/-- interpret one atom line under a layout: exactly the layout's fields, optionally followed by three
    integer image flags. -/
def readAtomLine (layout : List (String × Option String)) (l : Line) : Option AtomRec := do
  let k := layout.length
  if l.length ≠ k ∧ l.length ≠ k + 3 then none
  let vals ← (List.zip layout (l.take k)).mapM fun (fl, t) =>
    if isIntField fl.1 then (parseInt? t).map fun i => (i : Rat) else parseNum? t
  let img ← (l.drop k).mapM parseInt?
  let image : V3 Int := match img with
    | [a, b, c] => ⟨a, b, c⟩
    | _ => ⟨0, 0, 0⟩
  let get (f : String) : Option Rat := do let i ← fieldIdx layout f; vals[i]?
  let id ← get "atom-ID"
  let ty ← get "atom-type"
  let x ← get "x"
  let y ← get "y"
  let z ← get "z"
  pure { id := id.floor, type := ty.floor, pos := ⟨x, y, z⟩, image := image, fields := vals }

structure VelRec where
  id : Int
  fields : List Rat
deriving Repr

def readVelLine (layout : List (String × Option String)) (l : Line) : Option VelRec := do
  if l.length ≠ layout.length then none
  match l with
  | [] => none
  | t :: ts =>
    let id ← parseInt? t
    let vals ← ts.mapM parseNum?
    pure { id := id, fields := (id : Rat) :: vals }

structure ParsedData where
  natoms : Nat
  ntypes : Nat
  hilo : HiLo
  styleHint : Line
  atoms : List AtomRec
  velocities : Option (List VelRec)
deriving Repr

/-- the independent data-file parser; `style` is the atom_style the reading LAMMPS run is in. -/
def parseData (text : List Char) (style : String) : Option ParsedData := do
  let df ← readDataFile text
  let layout ← layoutOf lammpsAtomLayout style
  let atoms ← df.atoms.mapM (readAtomLine layout)
  let vel ← match df.velocities with
    | none => pure none
    | some rows => do
      let vl ← layoutOf lammpsVelLayout style
      let v ← rows.mapM (readVelLine vl)
      pure (some v)
  pure { natoms := df.natoms, ntypes := df.ntypes, hilo := df.hilo, styleHint := df.styleHint,
         atoms := atoms, velocities := vel }

/-- the box a LAMMPS run builds from the header. -/
def boxOfHiLo (h : HiLo) : Box Rat :=
  ⟨⟨⟨h.xhi - h.xlo, 0, 0⟩, ⟨h.xy, h.yhi - h.ylo, 0⟩, ⟨h.xz, h.yz, h.zhi - h.zlo⟩⟩, ⟨h.xlo, h.ylo, h.zlo⟩⟩

/-- position with the image flags applied: `x + ix·a + iy·b + iz·c`. -/
def unwrapPos (h : HiLo) (p : V3 Rat) (i : V3 Int) : V3 Rat :=
  let b := boxOfHiLo h
  p + M3.vecMul ⟨(i.x : Rat), (i.y : Rat), (i.z : Rat)⟩ b.vects

def hasDupInt : List Int → Bool := hasDup

/-- well-formedness of a parsed data file, with slack `eps` on the "inside the box" test (relative units). -/
def dataWellFormed (d : ParsedData) (eps : Rat) : Bool :=
  d.atoms.length = d.natoms &&
  (d.atoms.map (·.id)).all (fun i => 1 ≤ i ∧ i ≤ (d.natoms : Int)) && !hasDup (d.atoms.map (·.id)) &&
  d.atoms.all (fun a => 1 ≤ a.type ∧ a.type ≤ (d.ntypes : Int)) &&
  decide (d.hilo.xlo < d.hilo.xhi) && decide (d.hilo.ylo < d.hilo.yhi) && decide (d.hilo.zlo < d.hilo.zhi) &&
  d.atoms.all (fun a =>
    let r := (boxOfHiLo d.hilo).cartToRel a.pos
    decide (-eps ≤ r.x ∧ r.x ≤ 1 + eps ∧ -eps ≤ r.y ∧ r.y ≤ 1 + eps ∧ -eps ≤ r.z ∧ r.z ≤ 1 + eps)) &&
  (match d.velocities with
   | none => true
   | some v => v.length = d.natoms && !hasDup (v.map (·.id)) &&
       (v.map (·.id)).all (fun i => 1 ≤ i ∧ i ≤ (d.natoms : Int)))

/-! ### LAMMPS dump file reader (dump manual page, `custom` style text format) -/

structure ParsedDump where
  timestep : Int
  natoms : Nat
  triclinic : Bool
  boundary : Line
  bbox : BBox
  hilo : HiLo
  columns : Line
  rows : List (List Rat)
deriving Repr

def itemIs (l : Line) (words : Line) : Bool := l.take (words.length + 1) = cs!"ITEM:" :: words

def parseDumpLines (ls : Doc) : Option ParsedDump := do
  match ls with
  | i1 :: ts :: i2 :: na :: i3 :: bx :: by' :: bz :: i4 :: rest =>
    if !(i1 = [cs!"ITEM:", cs!"TIMESTEP"]) then none
    if !(i2 = [cs!"ITEM:", cs!"NUMBER", cs!"OF", cs!"ATOMS"]) then none
    if !(itemIs i3 [cs!"BOX", cs!"BOUNDS"]) then none
    if !(itemIs i4 [cs!"ATOMS"]) then none
    let timestep ← match ts with | [t] => parseInt? t | _ => none
    let natoms ← match na with | [t] => parseNat? t | _ => none
    let btoks := i3.drop 3
    let tri : Bool := btoks.take 3 == [cs!"xy", cs!"xz", cs!"yz"]
    let boundary := if tri then btoks.drop 3 else btoks
    if boundary.length ≠ 3 then none
    let bxv ← bx.mapM parseNum?
    let byv ← by'.mapM parseNum?
    let bzv ← bz.mapM parseNum?
    let (bb, tilt) ← match tri, bxv, byv, bzv with
      | false, [a, b], [c, d], [e, f] => some ((⟨a, b, c, d, e, f⟩ : BBox), ((0 : Rat), (0 : Rat), (0 : Rat)))
      | true, [a, b, xy], [c, d, xz], [e, f, yz] => some ((⟨a, b, c, d, e, f⟩ : BBox), (xy, xz, yz))
      | _, _, _, _ => none
    let columns := i4.drop 2
    let body := rest.take natoms
    if body.length ≠ natoms then none
    if !((rest.drop natoms).all (· = [])) then none
    let rows ← body.mapM fun l => if l.length ≠ columns.length then none else l.mapM parseNum?
    pure { timestep := timestep, natoms := natoms, triclinic := tri, boundary := boundary, bbox := bb,
           hilo := hiLoOfBBox bb tilt.1 tilt.2.1 tilt.2.2, columns := columns, rows := rows }
  | _ => none

def parseDump (text : List Char) : Option ParsedDump := parseDumpLines (lexDoc text)

def colIdx (cols : Line) (name : Tok) : Option Nat :=
  let i := cols.findIdx (· = name)
  if i < cols.length then some i else none

def rowV3 (cols : Line) (row : List Rat) (a b c : Tok) : Option (V3 Rat) := do
  let i ← colIdx cols a; let j ← colIdx cols b; let k ← colIdx cols c
  pure ⟨← row[i]?, ← row[j]?, ← row[k]?⟩

/-- LAMMPS: scaled (lamda) → box coordinates. -/
def unscale (h : HiLo) (s : V3 Rat) : V3 Rat := (boxOfHiLo h).relToCart s

/-- positions described by a dump file, for the position column variant named by `x` (`x`, `xu`, `xs`, `xsu`). -/
def dumpPositions (d : ParsedDump) (variant : Tok) : Option (List (V3 Rat)) :=
  let scaled := variant = cs!"xs" ∨ variant = cs!"xsu"
  let (a, b, c) : Tok × Tok × Tok :=
    if variant = cs!"x" then (cs!"x", cs!"y", cs!"z")
    else if variant = cs!"xu" then (cs!"xu", cs!"yu", cs!"zu")
    else if variant = cs!"xs" then (cs!"xs", cs!"ys", cs!"zs")
    else (cs!"xsu", cs!"ysu", cs!"zsu")
  d.rows.mapM fun r => (rowV3 d.columns r a b c).map fun v => if scaled then unscale d.hilo v else v

/-! ### POSCAR reader (VASP manual, POSCAR page) -/

structure ParsedPoscar where
  comment : List Char
  scale : Rat
  /-- lattice rows, already multiplied by the scale factor -/
  lattice : M3 Rat
  symbols : Option Line
  counts : List Nat
  cartesian : Bool
  /-- coordinates as written -/
  raw : List (V3 Rat)
  /-- Cartesian positions the file describes: direct → `s · lattice`; Cartesian → `scale · coords` -/
  pos : List (V3 Rat)
deriving Repr

def line3 (l : Line) : Option (V3 Rat) :=
  match l with
  | a :: b :: c :: _ => do pure ⟨← parseNum? a, ← parseNum? b, ← parseNum? c⟩
  | _ => none

def parsePoscar (text : List Char) : Option ParsedPoscar := do
  let raw := splitLines text
  match raw with
  | c0 :: rest =>
    match rest.map lexLine with
    | sc :: a :: b :: c :: l5 :: more =>
      let scale ← match sc with | [t] => parseNum? t | _ => none
      if scale ≤ 0 then none   -- a negative value means "cell volume": not written by atomman
      let a ← line3 a; let b ← line3 b; let c ← line3 c
      let lat : M3 Rat := ⟨V3.smul scale a, V3.smul scale b, V3.smul scale c⟩
      let hasSym := match l5 with
        | t :: _ => (parseNat? t).isNone
        | [] => false
      let (symbols, cl, more) ← if hasSym then
          match more with
          | cl :: m => some (some l5, cl, m)
          | [] => none
        else some (none, l5, more)
      let counts ← cl.mapM parseNat?
      if counts = [] then none
      -- optional "Selective dynamics" line
      let more := match more with
        | (('S' :: _) :: _) :: m => m
        | (('s' :: _) :: _) :: m => m
        | m => m
      match more with
      | mode :: body =>
        let cart := match mode with
          | (ch :: _) :: _ => ch = 'c' || ch = 'C' || ch = 'k' || ch = 'K'
          | _ => false
        let n := counts.foldl (· + ·) 0
        let rows := body.take n
        if rows.length ≠ n then none
        let coords ← rows.mapM line3
        let pos := coords.map fun v => if cart then V3.smul scale v else M3.vecMul v lat
        pure { comment := c0, scale := scale, lattice := lat, symbols := symbols, counts := counts,
               cartesian := cart, raw := coords, pos := pos }
      | [] => none
    | _ => none
  | [] => none

/-! ### generic table reader (whitespace-separated numbers, optional line of column names) -/

/-- the exact value the text of a written cell denotes. -/
def Cell.val (f : Fmt) : Cell → Rat
  | .int i => (i : Rat)
  | .num q => fmtVal f q

structure ParsedTable where
  columns : Option Line
  rows : List (List Rat)
deriving Repr

/-- every line is a row of numbers; with `header` the first line names the columns and every row must have
    exactly that many fields. -/
def parseTable (text : List Char) (header : Bool) : Option ParsedTable :=
  if header then
    match lexDoc text with
    | h :: rest => do
      let rows ← rest.mapM fun l => if l.length ≠ h.length then none else l.mapM parseNum?
      pure { columns := some h, rows := rows }
    | [] => none
  else do
    let rows ← (lexDoc text).mapM fun l => l.mapM parseNum?
    pure { columns := none, rows := rows }

/-- component-wise image of a vector (used to state "every number at its printed precision"). -/
def v3map (g : Rat → Rat) (v : V3 Rat) : V3 Rat := ⟨g v.x, g v.y, g v.z⟩

end Atomman.C07
