/-
  C14 — surface and stacking-fault cells (core Lean only).

  Sources: atomman/defect/free_surface_basis.py, FreeSurface.py, StackingFault.py,
  atomman/tools/miller.py (centring matrices, 3<->4 index conversions), System.wrap.

  * `initVectors`   the seven zero-pattern branches (lcm, sign)            free_surface_basis.py:119-166
  * `genVectors`    `gen_vector(n)` in its enumeration order (with the duplicates `±0` produces)
  * `search1/2`     the two searches as folds; `norm`/`arccos` comparisons are replaced by the
                    order-equivalent comparisons of squared magnitudes and cross-multiplied cosines
  * `basisABC`, `orderRows`, `freeSurfaceBasis`   the whole routine, 3- and 4-index I/O
  * `layerCoords`, `shifts`                        FreeSurface.__init__ (unique layers, mid-layer shifts)
  * `surfaceAtoms`, `vacuumBox`, `surfacePbc`, `cutMult`   FreeSurface.surface (supersize+shift+wrap, multiplier, pbc, vacuum)
  * `faultPos`, `pushAmount`                       StackingFault.fault
  `isclose(x, 0)` is modelled as `x = 0`.
-/
import Atomman.Prelude
import Atomman.Box
import Atomman.C04

namespace Atomman.C14
open Atomman

abbrev IV := V3 Int

/-! ### centring matrices (`miller.vector_conventional_to_primitive`) -/

/-- rows of `lattice_vectors[setting]` in `vector_conventional_to_primitive`. -/
def c2p : String → Option (M3 Int)
  | "p" => some ⟨⟨1, 0, 0⟩, ⟨0, 1, 0⟩, ⟨0, 0, 1⟩⟩
  | "a" => some ⟨⟨1, 0, 0⟩, ⟨0, 1, -1⟩, ⟨0, 1, 1⟩⟩
  | "b" => some ⟨⟨1, 0, -1⟩, ⟨0, 1, 0⟩, ⟨1, 0, 1⟩⟩
  | "c" => some ⟨⟨1, -1, 0⟩, ⟨1, 1, 0⟩, ⟨0, 0, 1⟩⟩
  | "i" => some ⟨⟨0, -1, -1⟩, ⟨1, 1, 0⟩, ⟨1, 0, 1⟩⟩
  | "f" => some ⟨⟨1, -1, 1⟩, ⟨1, 1, -1⟩, ⟨-1, 1, 1⟩⟩
  | "t1" => some ⟨⟨1, -1, 0⟩, ⟨0, 1, -1⟩, ⟨1, 1, 1⟩⟩
  | "t2" => some ⟨⟨-1, 1, 0⟩, ⟨0, -1, 1⟩, ⟨1, 1, 1⟩⟩
  | _ => none

/-- adjugate (transpose of the cofactor matrix): `L * adj L = det L`. The rows of
    `vector_primitive_to_conventional`'s matrix are `adj L / det L`. -/
def adj {K : Type} [Sub K] [Mul K] (m : M3 K) : M3 K :=
  (⟨V3.cross m.r1 m.r2, V3.cross m.r2 m.r0, V3.cross m.r0 m.r1⟩ : M3 K).transpose

/-- `vector_primitive_to_conventional` as exact rationals. -/
def p2cRat (L : M3 Int) (v : IV) : V3 Rat :=
  let w := M3.vecMul v (adj L)
  let d : Rat := (M3.det L : Int)
  ⟨(w.x : Rat) / d, (w.y : Rat) / d, (w.z : Rat) / d⟩

/-! ### the two starting in-plane vectors -/

structure Init where
  a0 : IV
  b0 : IV
  s : Int
deriving Repr, DecidableEq

def ilcm (a b : Int) : Int := ((Int.lcm a b : Nat) : Int)

/-- the seven branches of free_surface_basis.py:119-166 (`none` = `hkl cannot be all zeros`). -/
def initVectors (hkl : IV) : Option Init :=
  let h := hkl.x; let k := hkl.y; let l := hkl.z
  if h ≠ 0 then
    if k ≠ 0 then
      if l ≠ 0 then
        let m := ilcm (ilcm h k) l
        some ⟨⟨-(m / h), m / k, 0⟩, ⟨-(m / h), 0, m / l⟩, Int.sign (h * k * l)⟩
      else
        let m := ilcm h k
        some ⟨⟨-(m / h), m / k, 0⟩, ⟨0, 0, 1⟩, Int.sign (h * k)⟩
    else
      if l ≠ 0 then
        let m := ilcm h l
        some ⟨⟨m / h, 0, -(m / l)⟩, ⟨0, 1, 0⟩, Int.sign (h * l)⟩
      else
        some ⟨⟨0, 1, 0⟩, ⟨0, 0, 1⟩, Int.sign h⟩
  else if k ≠ 0 then
    if l ≠ 0 then
      let m := ilcm k l
      some ⟨⟨0, -(m / k), m / l⟩, ⟨1, 0, 0⟩, Int.sign (k * l)⟩
    else
      some ⟨⟨0, 0, 1⟩, ⟨1, 0, 0⟩, Int.sign k⟩
  else if l ≠ 0 then
    some ⟨⟨1, 0, 0⟩, ⟨0, 1, 0⟩, Int.sign l⟩
  else none

def absMax (v : IV) : Int := max (max (v.x.natAbs : Int) (v.y.natAbs : Int)) (v.z.natAbs : Int)

/-- default `maxindex`. -/
def defaultMaxIndex (a b hkl : IV) : Int := max (max (absMax a) (absMax b)) (absMax hkl)

/-! ### `gen_vector(n)` -/

/-- `0, -0, 1, -1, …, n, -n` (the `for kk in range(0, n+1): for sk in [1, -1]` pair of loops). -/
def signedRange (n : Int) : List Int :=
  (List.range (n + 1).toNat).flatMap (fun (q : Nat) => [(q : Int), -(q : Int)])

/-- all candidate vectors in the order `gen_vector` yields them (k outermost, i innermost). -/
def genVectors (n : Int) : List IV :=
  (signedRange n).flatMap fun k => (signedRange n).flatMap fun j => (signedRange n).filterMap fun i =>
    if i = 0 ∧ j = 0 ∧ k = 0 then none else some (⟨i, j, k⟩ : IV)

/-! ### Cartesian images and the searches -/
section
variable {K : Type} [Add K] [Sub K] [Mul K] [Zero K] [IntCast K] [LT K] [DecidableLT K] [DecidableEq K]

def toK (v : IV) : V3 K := ⟨(v.x : K), (v.y : K), (v.z : K)⟩

/-- `vector_crystal_to_cartesian(uvw, box)` = `uvw.dot(box.vects)`. -/
def cart (vects : M3 K) (v : IV) : V3 K := M3.vecMul (toK v) vects

/-- `planenormal = s * cross(cart a, cart b)`. -/
def planeNormal (vects : M3 K) (s : Int) (a0 b0 : IV) : V3 K :=
  V3.smul (s : K) (V3.cross (cart vects a0) (cart vects b0))

def zeroV : V3 K := ⟨0, 0, 0⟩

/-- in-plane test `isclose(dot(cart, planenormal), 0)` with exact zero. -/
def inPlane (vects : M3 K) (pn : V3 K) (v : IV) : Prop := V3.dot (cart vects v) pn = 0
instance (vects : M3 K) (pn : V3 K) (v : IV) : Decidable (inPlane vects pn v) := by
  unfold inPlane; infer_instance

/-- out-of-plane on the positive side of the normal (`angle < 90`). -/
def towardNormal (vects : M3 K) (pn : V3 K) (v : IV) : Prop := 0 < V3.dot (cart vects v) pn
instance (vects : M3 K) (pn : V3 K) (v : IV) : Decidable (towardNormal vects pn v) := by
  unfold towardNormal; infer_instance

/-- best out-of-plane candidate so far: vector, `d = cart·n`, squared length. -/
structure CBest (K : Type) where
  v : IV
  d : K
  m2 : K

/-- state of the first search. -/
structure S1 (K : Type) where
  a : Option IV
  aMag2 : K
  c : Option (CBest K)

/-- one iteration of the first loop (free_surface_basis.py:195-210).
    `mag < a_mag` ⇔ `m2 < aMag2`;  `angle < c_angle` ⇔ `cos > cos_c` ⇔ `0 < d ∧ d_c² m2 < d² m2_c`
    (`c_angle` starts at 90°, i.e. `0 < d`). -/
def step1 (vects : M3 K) (pn : V3 K) (st : S1 K) (v : IV) : S1 K :=
  let ct := cart vects v
  let m2 := V3.normSq ct
  let d := V3.dot ct pn
  if d = 0 then
    if m2 < st.aMag2 then { st with a := some v, aMag2 := m2 } else st
  else if 0 < d then
    match st.c with
    | none => { st with c := some ⟨v, d, m2⟩ }
    | some cb => if cb.d * cb.d * m2 < d * d * cb.m2 then { st with c := some ⟨v, d, m2⟩ } else st
  else st

def init1 (vects : M3 K) (n : Int) : S1 K := ⟨none, V3.normSq (cart vects ⟨n, n, n⟩), none⟩

def search1 (vects : M3 K) (pn : V3 K) (n : Int) : S1 K :=
  (genVectors n).foldl (step1 vects pn) (init1 vects n)

/-- filter of the second search: in plane, not parallel to `a`, right-handed. -/
def bFilter (vects : M3 K) (pn aCart : V3 K) (v : IV) : Prop :=
  V3.dot (cart vects v) pn = 0 ∧ V3.cross aCart (cart vects v) ≠ zeroV ∧
    0 < V3.dot (V3.cross aCart (cart vects v)) pn
instance (vects : M3 K) (pn aCart : V3 K) (v : IV) : Decidable (bFilter vects pn aCart v) := by
  unfold bFilter; infer_instance

/-- state of the second search: best vector, its squared length, `a·b` of the best
    (`none` = `min_angle` still at its initial 180°). -/
structure S2 (K : Type) where
  b : Option IV
  bMag2 : K
  bDot : Option K

/-- `angle < min_angle` for two candidates of equal length: the larger `a·cart` wins. -/
def angleLess (prev : Option K) (ad : K) : Bool :=
  match prev with
  | none => true
  | some pd => decide (pd < ad)

/-- one iteration of the second loop (free_surface_basis.py:223-239). -/
def step2 (vects : M3 K) (pn aCart : V3 K) (st : S2 K) (v : IV) : S2 K :=
  if bFilter vects pn aCart v then
    let ct := cart vects v
    let m2 := V3.normSq ct
    let ad := V3.dot aCart ct
    if (m2 = st.bMag2 ∧ angleLess st.bDot ad = true) ∨ m2 < st.bMag2 then ⟨some v, m2, some ad⟩ else st
  else st

def init2 (vects : M3 K) (n : Int) : S2 K := ⟨none, V3.normSq (cart vects ⟨n, n, n⟩), none⟩

def search2 (vects : M3 K) (pn aCart : V3 K) (n : Int) : S2 K :=
  (genVectors n).foldl (step2 vects pn aCart) (init2 vects n)

end

/-! ### gcd reduction, ordering, the whole routine -/

def gcd3 (v : IV) : Int := ((Int.gcd ((Int.gcd v.x v.y : Nat) : Int) v.z : Nat) : Int)

/-- `c_uvw / np.gcd.reduce(c_uvw)`. -/
def reduceGcd (v : IV) : IV := let g := gcd3 v; ⟨v.x / g, v.y / g, v.z / g⟩

inductive Cut | a | b | c
deriving Repr, DecidableEq

def Cut.ofString? : String → Option Cut
  | "a" => some .a | "b" => some .b | "c" => some .c | _ => none

def cutIndex : Cut → Nat | .a => 0 | .b => 1 | .c => 2

/-- free_surface_basis.py:244-249. -/
def orderRows (cut : Cut) (a b c : IV) : M3 Int :=
  match cut with
  | .c => ⟨a, b, c⟩
  | .b => ⟨b, c, a⟩
  | .a => ⟨c, a, b⟩

structure ABC (K : Type) where
  a : IV
  b : IV
  c : IV
  n : Int
  pn : V3 K

section
variable {K : Type} [Add K] [Sub K] [Mul K] [Zero K] [IntCast K] [LT K] [DecidableLT K] [DecidableEq K]

/-- the routine up to the choice of row order.  `L` is the centring matrix (`c2p setting`),
    `nOpt` the optional `maxindex`.  Errors: `value` (all-zero hkl), `assert` (a search found nothing). -/
def basisABC (vects : M3 K) (hkl : IV) (L : M3 Int) (nOpt : Option Int) : Except String (ABC K) :=
  match initVectors hkl with
  | none => .error "value"
  | some ini =>
    let a0 := M3.vecMul ini.a0 L
    let b0 := M3.vecMul ini.b0 L
    let n := match nOpt with | some n => n | none => defaultMaxIndex a0 b0 hkl
    let pn := planeNormal vects ini.s a0 b0
    let st1 := search1 vects pn n
    match st1.a, st1.c with
    | some a, some cb =>
      let c := reduceGcd cb.v
      let st2 := search2 vects pn (cart vects a) n
      match st2.b with
      | some b => .ok ⟨a, b, c, n, pn⟩
      | none => .error "assert"
    | _, _ => .error "assert"

def freeSurfaceBasis (vects : M3 K) (hkl : IV) (L : M3 Int) (cut : Cut) (nOpt : Option Int) :
    Except String (M3 Int × V3 K) :=
  match basisABC vects hkl L nOpt with
  | .ok r => .ok (orderRows cut r.a r.b r.c, r.pn)
  | .error e => .error e

end

/-! ### hexagonal 4-index I/O -/

/-- `plane4to3` (`none` = `h+k+i != 0`). -/
def plane4to3 (h k i l : Int) : Option IV := if h + k + i = 0 then some ⟨h, k, l⟩ else none

/-- `vector3to4`: `[(2u-v)/3, (2v-u)/3, -(u+v)/3, w]`. -/
def vector3to4 (v : IV) : List Rat :=
  let u : Rat := ((2 * v.x - v.y : Int) : Rat) / 3
  let w : Rat := ((2 * v.y - v.x : Int) : Rat) / 3
  [u, w, -(u + w), (v.z : Rat)]

/-- `vector4to3` (`none` = `u+v+t != 0`). -/
def vector4to3 (u v t w : Int) : Option IV := if u + v + t = 0 then some ⟨2 * u + v, 2 * v + u, w⟩ else none

section
variable {K : Type} [Add K] [Sub K] [Mul K] [Neg K] [Zero K] [IntCast K] [LT K] [DecidableLT K]

/-- `|x| ≤ t`. -/
def absLe (x t : K) : Bool := !decide (t < x) && !decide (x < -t)

/-- `Box.ishexagonal` on the Gram matrix: `a = b`, `α = β = 90`, `γ = 120`, each relative
    deviation at most `tol` (the coded test uses `isclose` on lengths and angles; the harness only
    counts boxes that are hexagonal to 1e-12 or non-hexagonal by more than 1e-3). -/
def isHexagonal (vects : M3 K) (tol : K) : Bool :=
  let a2 := V3.normSq vects.r0
  let b2 := V3.normSq vects.r1
  let c2 := V3.normSq vects.r2
  let ab := V3.dot vects.r0 vects.r1
  let ac := V3.dot vects.r0 vects.r2
  let bc := V3.dot vects.r1 vects.r2
  absLe (a2 - b2) (tol * a2) && absLe (ab + ab + a2) (tol * a2) &&
    !decide (tol * tol * (a2 * c2) < ac * ac) && !decide (tol * tol * (b2 * c2) < bc * bc)

end

/-! ### FreeSurface: compatibility of the cut vector, layers, shifts -/
section
variable {K : Type} [Add K] [Sub K] [Mul K] [Zero K] [DecidableEq K]

/-- FreeSurface.py:103-116 on the rotated cell `A, B, C` (rows of `uvws · vects`): for cut `a`
    the LAMMPS-normal box needs `xy = xz = 0` (`A·B = A·C = 0`), for cut `b` it needs `yz = 0`
    (`(B·C)(A·A) = (A·B)(A·C)`), cut `c` is always accepted. -/
def cutCompatible (cut : Cut) (A B C : V3 K) : Bool :=
  match cut with
  | .a => V3.dot A B = 0 && V3.dot A C = 0
  | .b => V3.dot B C * V3.dot A A = V3.dot A B * V3.dot A C
  | .c => true

end

/-- round-half-even of a rational. -/
def roundHalfEven (x : Rat) : Int :=
  let f := x.floor
  let r := x - (f : Rat)
  if r < 1/2 then f else if 1/2 < r then f + 1 else if f % 2 = 0 then f else f + 1

/-- key of `pos[:, cut].round(numdec)`. -/
def roundKey (numdec : Nat) (x : Rat) : Int := roundHalfEven (x * ((10 ^ numdec : Nat) : Rat))

/-- insert `(key, x)` into a list sorted strictly by key, keeping the first occurrence of a key. -/
def insertKey (kx : Int × Rat) : List (Int × Rat) → List (Int × Rat)
  | [] => [kx]
  | (k, y) :: t =>
    if kx.1 < k then kx :: (k, y) :: t
    else if kx.1 = k then (k, y) :: t
    else (k, y) :: insertKey kx t

/-- `np.unique(rounded, return_index=True)` then `pos[unique_indices]`: one unrounded
    representative (the first occurrence) per distinct rounded coordinate, ascending. -/
def layerCoords (numdec : Nat) (xs : List Rat) : List Rat :=
  (xs.foldl (fun acc x => insertKey (roundKey numdec x, x) acc) []).map (·.2)

section
variable {K : Type} [Add K] [Sub K] [Mul K] [Div K] [Neg K] [Zero K] [IntCast K] [LT K] [DecidableLT K]

/-- append the periodic replica `coords[0] + W` unless `coords[-1] - coords[0]` is within `tol` of `W`. -/
def withReplica (coords : List K) (W tol : K) : List K :=
  match coords.head?, coords.getLast? with
  | some f, some l => if absLe (l - f - W) tol then coords else coords ++ [f + W]
  | _, _ => coords

/-- consecutive pairs `(coords[i], coords[i+1])`. -/
def consec (l : List K) : List (K × K) := l.zip l.tail

def mid (pq : K × K) : K := (pq.1 + pq.2) / ((2 : Int) : K)

/-- `relshift = W - mid`, folded back into `[0, W]`. -/
def relShift (W : K) (m : K) : K :=
  let r := W - m
  if W < r then r - W else if r < 0 then r + W else r

/-- insertion into an ascending list (sort of the shifts). -/
def insertAsc (x : K) : List K → List K
  | [] => [x]
  | y :: t => if x < y then x :: y :: t else y :: insertAsc x t

def sortAsc (l : List K) : List K := l.foldr insertAsc []

/-- the offered shifts along the cut direction, before sorting. -/
def rawShifts (coords : List K) (W tol : K) : List K :=
  (consec (withReplica coords W tol)).map (fun pq => relShift W (mid pq))

/-- `FreeSurface.shifts[:, cutindex]`. -/
def shifts (coords : List K) (W tol : K) : List K := sortAsc (rawShifts coords W tol)

end

/-! ### FreeSurface.surface: multiplier along the cut, pbc, vacuum -/

/-- `minwidth`/`even` handling of the multiplier along the cut; `ceilq = ceil(minwidth / rcellwidth)`
    is supplied by the caller (`none` when `minwidth` is not given). -/
def cutMult (m : Int) (ceilq : Option Int) (even : Bool) : Int :=
  let m1 := match ceilq with
    | some q => if q > (m.natAbs : Int) then Int.sign m * q else m
    | none => m
  if even && m1 % 2 = 1 then (if m1 > 0 then m1 + 1 else m1 - 1) else m1

/-- pbc of the surface system: everything periodic except the cut direction. -/
def surfacePbc (cut : Cut) : List Bool := [0, 1, 2].map (fun i => i ≠ cutIndex cut)

section
variable {K : Type} [Add K] [Sub K] [Mul K] [Div K] [Zero K] [IntCast K]

def unitV (i : Nat) : V3 K := ⟨((if i = 0 then 1 else 0 : Int) : K), ((if i = 1 then 1 else 0 : Int) : K),
  ((if i = 2 then 1 else 0 : Int) : K)⟩

def setDiag (m : M3 K) (i : Nat) (f : K → K) : M3 K :=
  if i = 0 then { m with r0 := { m.r0 with x := f m.r0.x } }
  else if i = 1 then { m with r1 := { m.r1 with y := f m.r1.y } }
  else { m with r2 := { m.r2 with z := f m.r2.z } }

/-- vacuum insertion: `vects[cut, cut] += vac`, `origin -= ovect * vac / 2`. -/
def vacuumBox (cut : Cut) (box : Box K) (vac : K) : Box K :=
  let i := cutIndex cut
  ⟨setDiag box.vects i (· + vac), box.origin - V3.smul (vac / ((2 : Int) : K)) (unitV i)⟩

end

/-! ### StackingFault.fault -/
section
variable {K : Type} [Add K] [Sub K] [Mul K] [Div K] [Zero K] [IntCast K] [LT K] [DecidableLT K]

/-- `abovefault = pos[:, cutindex] > faultpos_cart`. -/
def isAbove (cut : Cut) (fp : K) (p : V3 K) : Bool := decide (fp < p.get (cutIndex cut))

/-- image flags of `System.wrap`: `floor(spos)` in periodic directions, 0 otherwise. -/
def imageFlags (box : Box K) (pbc : V3 Bool) (fl : K → Int) (p : V3 K) : IV :=
  let s := box.cartToRel p
  ⟨if pbc.x then fl s.x else 0, if pbc.y then fl s.y else 0, if pbc.z then fl s.z else 0⟩

/-- `System.wrap` on one position: `spos -= imageflags`, then unscale. -/
def wrapPos (box : Box K) (pbc : V3 Bool) (fl : K → Int) (p : V3 K) : V3 K :=
  let s := box.cartToRel p
  let n := imageFlags box pbc fl p
  box.relToCart (s - toK n)

/-- one atom of `FreeSurface.surface()` after `supersize`: `pos += shift`, then `wrap()` while all three
    directions are still periodic (pbc is switched off across the cut only afterwards). -/
def surfacePos (box : Box K) (fl : K → Int) (shift p : V3 K) : V3 K :=
  wrapPos box ⟨true, true, true⟩ fl (p + shift)

/-- `FreeSurface.surface()` up to the pbc / vacuum step: `rcell.supersize(*sizemults)` (C04's model),
    `pos += shift`, `wrap()`; a fully periodic `wrap` leaves the box as it is. -/
def surfaceAtoms (rbox : Box K) (sa sb sc : C04.Size) (fl : K → Int) (shift : V3 K)
    (atoms : List (C04.Atom K)) : Box K × List (C04.Atom K) :=
  let sbox := C04.superBox rbox sa sb sc
  (sbox, (C04.supersizeAtoms rbox sa sb sc atoms).map fun a => { a with pos := surfacePos sbox fl shift a.pos })

/-- one atom of `fault()`: shift if above, then wrap. -/
def faultPos (box : Box K) (pbc : V3 Bool) (fl : K → Int) (cut : Cut) (fp : K) (shift : V3 K)
    (p : V3 K) : V3 K :=
  wrapPos box pbc fl (if isAbove cut fp p then p + shift else p)

/-- all atoms. -/
def fault (box : Box K) (pbc : V3 Bool) (fl : K → Int) (cut : Cut) (fp : K) (shift : V3 K)
    (ps : List (V3 K)) : List (V3 K) := ps.map (faultPos box pbc fl cut fp shift)

/-- `faultshift = a1 * a1vect_cart + a2 * a2vect_cart + outofplane * ovect`. -/
def faultShift (a1 a2 oop : K) (a1c a2c : V3 K) (cut : Cut) : V3 K :=
  V3.smul a1 a1c + V3.smul a2 a2c + V3.smul oop (unitV (cutIndex cut))

/-- radicand of the `minimum_r` push: `minimum_r² - d_in1² - d_in2²`. -/
def pushRadicand (cut : Cut) (r : K) (d : V3 K) : K :=
  match cut with
  | .a => r * r - d.y * d.y - d.z * d.z
  | .b => r * r - d.x * d.x - d.z * d.z
  | .c => r * r - d.x * d.x - d.y * d.y

/-- extra out-of-plane shift: `new - dvect_min[cut]`, `new` being the square root (a parameter). -/
def pushAmount (cut : Cut) (sq : K) (d : V3 K) : K := sq - d.get (cutIndex cut)

end


/-! ### relational form of the routine (used where float ties make the coded choice unpredictable)

`validBasis` accepts a triple `(a, b, c)` iff it is *a* possible outcome of the two searches up to
a relative tolerance on the compared quantities: `a` in plane and (nearly) shortest, `c` the gcd
reduction of a candidate on the normal's side with (nearly) the largest cosine, `b` passing the
second filter relative to `a` and (nearly) shortest.  The filters are the same predicates
(`inPlane`, `towardNormal`, `bFilter`) the theorems are about. -/
namespace Rel

def inRange (n : Int) (v : IV) : Bool :=
  decide (v.x.natAbs ≤ n.toNat) && decide (v.y.natAbs ≤ n.toNat) && decide (v.z.natAbs ≤ n.toNat) &&
    !(v.x == 0 && v.y == 0 && v.z == 0)

def unorder (cut : Cut) (m : M3 Int) : IV × IV × IV :=
  match cut with
  | .c => (m.r0, m.r1, m.r2)
  | .b => (m.r2, m.r0, m.r1)
  | .a => (m.r1, m.r2, m.r0)

section
variable {K : Type} [Add K] [Sub K] [Mul K] [Zero K] [IntCast K] [LT K] [DecidableLT K] [DecidableEq K]

/-- `tol = tn / td` (relative, on squared lengths and squared cosines). -/
def validBasis (vects : M3 K) (hkl : IV) (L : M3 Int) (cut : Cut) (nOpt : Option Int)
    (uvws : M3 Int) (tn td : Int) : String :=
  match initVectors hkl with
  | none => "0 hkl-zero"
  | some ini =>
    let a0 := M3.vecMul ini.a0 L
    let b0 := M3.vecMul ini.b0 L
    let n := match nOpt with | some n => n | none => defaultMaxIndex a0 b0 hkl
    let pn := planeNormal vects ini.s a0 b0
    let (a, b, c) := unorder cut uvws
    let cands := genVectors n
    let m2 := fun v => V3.normSq (cart vects v)
    let dn := fun v => V3.dot (cart vects v) pn
    let bound := m2 ⟨n, n, n⟩
    let up : K := ((td + tn : Int) : K)
    let dnn : K := ((td - tn : Int) : K)
    let one : K := ((td : Int) : K)
    if !(inRange n a && decide (inPlane vects pn a)) then "0 a-not-a-candidate-in-plane"
    else if !(decide (m2 a * one < bound * up)) then "0 a-not-below-initial-bound"
    else if cands.any (fun v => decide (inPlane vects pn v) && decide (m2 v * up < m2 a * one)) then "0 a-not-shortest"
    else if gcd3 c ≠ 1 then "0 c-not-reduced"
    else if !(cands.any (fun v => decide (towardNormal vects pn v) && decide (reduceGcd v = c))) then "0 c-not-from-candidate"
    else if cands.any (fun v => decide (towardNormal vects pn v) &&
        decide (dn c * dn c * m2 v * one < dn v * dn v * m2 c * dnn)) then "0 c-not-closest-to-normal"
    else
      let aC := cart vects a
      if !(inRange n b && decide (bFilter vects pn aC b)) then "0 b-fails-filter"
      else if !(decide (m2 b * one < bound * up)) then "0 b-not-below-initial-bound"
      else if cands.any (fun v => decide (bFilter vects pn aC v) && decide (m2 v * up < m2 b * one)) then "0 b-not-shortest"
      else "1"

end

end Rel

end Atomman.C14
