/-
  C14 — surface and stacking-fault cells (core Lean only).

  Sources: atomman/defect/free_surface_basis.py, FreeSurface.py, StackingFault.py,
  atomman/tools/miller.py (centring matrices, 3<->4 index conversions), System.wrap.

  * `initVectors`   the seven zero-pattern branches (lcm, sign)            free_surface_basis.py:119-166
  * `genVectors`    `gen_vector(n)` in its enumeration order (with the duplicates `±0` produces)
  * `search1/2`     the two searches as folds; `norm`/`arccos` comparisons are replaced by the
                    order-equivalent comparisons of squared magnitudes and cross-multiplied cosines
  * `basisABC`, `orderRows`, `freeSurfaceBasis`   the whole routine, 3- and 4-index I/O
  * `layerCoords`, `shifts`                        FreeSurface.__init__ (unique layers, mid-layer shifts)
  * `surfaceAtoms`, `vacuumBox`, `surfacePbc`, `cutMult`   FreeSurface.surface (supersize+shift+wrap, multiplier, pbc, vacuum)
  * `faultPos`, `pushAmount`                       StackingFault.fault
  `isclose(x, 0)` is modelled as `x = 0`.
-/
import Atomman.Prelude
import Atomman.Box
import Atomman.C04

namespace Atomman.C14
open Atomman

abbrev IV := V3 Int

/-! ### centring matrices (`miller.vector_conventional_to_primitive`) -/

/-- rows of `lattice_vectors[setting]` in `vector_conventional_to_primitive`. -/
def c2p : String → Option (M3 Int)
  | "p" => some ⟨⟨1, 0, 0⟩, ⟨0, 1, 0⟩, ⟨0, 0, 1⟩⟩
  | "a" => some ⟨⟨1, 0, 0⟩, ⟨0, 1, -1⟩, ⟨0, 1, 1⟩⟩
  | "b" => some ⟨⟨1, 0, -1⟩, ⟨0, 1, 0⟩, ⟨1, 0, 1⟩⟩
  | "c" => some ⟨⟨1, -1, 0⟩, ⟨1, 1, 0⟩, ⟨0, 0, 1⟩⟩
  | "i" => some ⟨⟨0, -1, -1⟩, ⟨1, 1, 0⟩, ⟨1, 0, 1⟩⟩
  | "f" => some ⟨⟨1, -1, 1⟩, ⟨1, 1, -1⟩, ⟨-1, 1, 1⟩⟩
  | "t1" => some ⟨⟨1, -1, 0⟩, ⟨0, 1, -1⟩, ⟨1, 1, 1⟩⟩
  | "t2" => some ⟨⟨-1, 1, 0⟩, ⟨0, -1, 1⟩, ⟨1, 1, 1⟩⟩
  | _ => none

/-- adjugate (transpose of the cofactor matrix): `L * adj L = det L`. The rows of
    `vector_primitive_to_conventional`'s matrix are `adj L / det L`. -/
def adj {K : Type} [Sub K] [Mul K] (m : M3 K) : M3 K :=
  (⟨V3.cross m.r1 m.r2, V3.cross m.r2 m.r0, V3.cross m.r0 m.r1⟩ : M3 K).transpose

/-- `vector_primitive_to_conventional` as exact rationals. -/
def p2cRat (L : M3 Int) (v : IV) : V3 Rat :=
  let w := M3.vecMul v (adj L)
  let d : Rat := (M3.det L : Int)
  ⟨(w.x : Rat) / d, (w.y : Rat) / d, (w.z : Rat) / d⟩

/-! ### the two starting in-plane vectors -/

structure Init where
  a0 : IV
  b0 : IV
  s : Int
deriving Repr, DecidableEq

def ilcm (a b : Int) : Int := ((Int.lcm a b : Nat) : Int)

/-- the seven branches of free_surface_basis.py:119-166 (`none` = `hkl cannot be all zeros`). -/
def initVectors (hkl : IV) : Option Init :=
  let h := hkl.x; let k := hkl.y; let l := hkl.z
  if h ≠ 0 then
    if k ≠ 0 then
      if l ≠ 0 then
        let m := ilcm (ilcm h k) l
        some ⟨⟨-(m / h), m / k, 0⟩, ⟨-(m / h), 0, m / l⟩, Int.sign (h * k * l)⟩
      else
        let m := ilcm h k
        some ⟨⟨-(m / h), m / k, 0⟩, ⟨0, 0, 1⟩, Int.sign (h * k)⟩
    else
      if l ≠ 0 then
        let m := ilcm h l
        some ⟨⟨m / h, 0, -(m / l)⟩, ⟨0, 1, 0⟩, Int.sign (h * l)⟩
      else
        some ⟨⟨0, 1, 0⟩, ⟨0, 0, 1⟩, Int.sign h⟩
  else if k ≠ 0 then
    if l ≠ 0 then
      let m := ilcm k l
      some ⟨⟨0, -(m / k), m / l⟩, ⟨1, 0, 0⟩, Int.sign (k * l)⟩
    else
      some ⟨⟨0, 0, 1⟩, ⟨1, 0, 0⟩, Int.sign k⟩
  else if l ≠ 0 then
    some ⟨⟨1, 0, 0⟩, ⟨0, 1, 0⟩, Int.sign l⟩
  else none

def absMax (v : IV) : Int := max (max (v.x.natAbs : Int) (v.y.natAbs : Int)) (v.z.natAbs : Int)

/-- default `maxindex`. -/
def defaultMaxIndex (a b hkl : IV) : Int := max (max (absMax a) (absMax b)) (absMax hkl)

/-! ### `gen_vector(n)` -/

/-- `0, -0, 1, -1, …, n, -n` (the `for kk in range(0, n+1): for sk in [1, -1]` pair of loops). -/
def signedRange (n : Int) : List Int :=
  (List.range (n + 1).toNat).flatMap (fun (q : Nat) => [(q : Int), -(q : Int)])

/-- all candidate vectors in the order `gen_vector` yields them (k outermost, i innermost). -/
def genVectors (n : Int) : List IV :=
  (signedRange n).flatMap fun k => (signedRange n).flatMap fun j => (signedRange n).filterMap fun i =>
    if i = 0 ∧ j = 0 ∧ k = 0 then none else some (⟨i, j, k⟩ : IV)

/-! ### Cartesian images and the searches -/
section
variable {K : Type} [Add K] [Sub K] [Mul K] [Zero K] [IntCast K] [LT K] [DecidableLT K] [DecidableEq K]

def toK (v : IV) : V3 K := ⟨(v.x : K), (v.y : K), (v.z : K)⟩

/-- `vector_crystal_to_cartesian(uvw, box)` = `uvw.dot(box.vects)`. -/
def cart (vects : M3 K) (v : IV) : V3 K := M3.vecMul (toK v) vects

/-- `planenormal = s * cross(cart a, cart b)`. -/
def planeNormal (vects : M3 K) (s : Int) (a0 b0 : IV) : V3 K :=
  V3.smul (s : K) (V3.cross (cart vects a0) (cart vects b0))

def zeroV : V3 K := ⟨0, 0, 0⟩

/-- in-plane test `isclose(dot(cart, planenormal), 0)` with exact zero. -/
def inPlane (vects : M3 K) (pn : V3 K) (v : IV) : Prop := V3.dot (cart vects v) pn = 0
instance (vects : M3 K) (pn : V3 K) (v : IV) : Decidable (inPlane vects pn v) := by
  unfold inPlane; infer_instance

/-- out-of-plane on the positive side of the normal (`angle < 90`). -/
def towardNormal (vects : M3 K) (pn : V3 K) (v : IV) : Prop := 0 < V3.dot (cart vects v) pn
instance (vects : M3 K) (pn : V3 K) (v : IV) : Decidable (towardNormal vects pn v) := by
  unfold towardNormal; infer_instance

/-- best out-of-plane candidate so far: vector, `d = cart·n`, squared length. -/
structure CBest (K : Type) where
  v : IV
  d : K
  m2 : K

/-- state of the first search. -/
structure S1 (K : Type) where
  a : Option IV
  aMag2 : K
  c : Option (CBest K)

/-- one iteration of the first loop (free_surface_basis.py:195-210).
    `mag < a_mag` ⇔ `m2 < aMag2`;  `angle < c_angle` ⇔ `cos > cos_c` ⇔ `0 < d ∧ d_c² m2 < d² m2_c`
    (`c_angle` starts at 90°, i.e. `0 < d`). -/
def step1 (vects : M3 K) (pn : V3 K) (st : S1 K) (v : IV) : S1 K :=
  let ct := cart vects v
  let m2 := V3.normSq ct
  let d := V3.dot ct pn
  if d = 0 then
    if m2 < st.aMag2 then { st with a := some v, aMag2 := m2 } else st
  else if 0 < d then
    match st.c with
    | none => { st with c := some ⟨v, d, m2⟩ }
    | some cb => if cb.d * cb.d * m2 < d * d * cb.m2 then { st with c := some ⟨v, d, m2⟩ } else st
  else st

def init1 (vects : M3 K) (n : Int) : S1 K := ⟨none, V3.normSq (cart vects ⟨n, n, n⟩), none⟩

def search1 (vects : M3 K) (pn : V3 K) (n : Int) : S1 K :=
  (genVectors n).foldl (step1 vects pn) (init1 vects n)

/-- filter of the second search: in plane, not parallel to `a`, right-handed. -/
def bFilter (vects : M3 K) (pn aCart : V3 K) (v : IV) : Prop :=
  V3.dot (cart vects v) pn = 0 ∧ V3.cross aCart (cart vects v) ≠ zeroV ∧
    0 < V3.dot (V3.cross aCart (cart vects v)) pn
instance (vects : M3 K) (pn aCart : V3 K) (v : IV) : Decidable (bFilter vects pn aCart v) := by
  unfold bFilter; infer_instance

/-- state of the second search: best vector, its squared length, `a·b` of the best
    (`none` = `min_angle` still at its initial 180°). -/
structure S2 (K : Type) where
  b : Option IV
  bMag2 : K
  bDot : Option K

/-- `angle < min_angle` for two candidates of equal length: the larger `a·cart` wins. -/
def angleLess (prev : Option K) (ad : K) : Bool :=
  match prev with
  | none => true
  | some pd => decide (pd < ad)

/-- one iteration of the second loop (free_surface_basis.py:223-239). -/
def step2 (vects : M3 K) (pn aCart : V3 K) (st : S2 K) (v : IV) : S2 K :=
  if bFilter vects pn aCart v then
    let ct := cart vects v
    let m2 := V3.normSq ct
    let ad := V3.dot aCart ct
    if (m2 = st.bMag2 ∧ angleLess st.bDot ad = true) ∨ m2 < st.bMag2 then ⟨some v, m2, some ad⟩ else st
  else st

def init2 (vects : M3 K) (n : Int) : S2 K := ⟨none, V3.normSq (cart vects ⟨n, n, n⟩), none⟩

def search2 (vects : M3 K) (pn aCart : V3 K) (n : Int) : S2 K :=
  (genVectors n).foldl (step2 vects pn aCart) (init2 vects n)

end

/-! ### gcd reduction, ordering, the whole routine -/

def gcd3 (v : IV) : Int := ((Int.gcd ((Int.gcd v.x v.y : Nat) : Int) v.z : Nat) : Int)

/-- `c_uvw / np.gcd.reduce(c_uvw)`. -/
def reduceGcd (v : IV) : IV := let g := gcd3 v; ⟨v.x / g, v.y / g, v.z / g⟩

inductive Cut | a | b | c
deriving Repr, DecidableEq

def Cut.ofString? : String → Option Cut
  | "a" => some .a | "b" => some .b | "c" => some .c | _ => none

def cutIndex : Cut → Nat | .a => 0 | .b => 1 | .c => 2

/-- free_surface_basis.py:244-249. -/
def orderRows (cut : Cut) (a b c : IV) : M3 Int :=
  match cut with
  | .c => ⟨a, b, c⟩
  | .b => ⟨b, c, a⟩
  | .a => ⟨c, a, b⟩

structure ABC (K : Type) where
  a : IV
  b : IV
  c : IV
  n : Int
  pn : V3 K

section
variable {K : Type} [Add K] [Sub K] [Mul K] [Zero K] [IntCast K] [LT K] [DecidableLT K] [DecidableEq K]

/-- the routine up to the choice of row order.  `L` is the centring matrix (`c2p setting`),
    `nOpt` the optional `maxindex`.  Errors: `value` (all-zero hkl), `assert` (a search found nothing). -/
def basisABC (vects : M3 K) (hkl : IV) (L : M3 Int) (nOpt : Option Int) : Except String (ABC K) :=
  match initVectors hkl with
  | none => .error "value"
  | some ini =>
    let a0 := M3.vecMul ini.a0 L
    let b0 := M3.vecMul ini.b0 L
    let n := match nOpt with | some n => n | none => defaultMaxIndex a0 b0 hkl
    let pn := planeNormal vects ini.s a0 b0
    let st1 := search1 vects pn n
    match st1.a, st1.c with
    | some a, some cb =>
      let c := reduceGcd cb.v
      let st2 := search2 vects pn (cart vects a) n
      match st2.b with
      | some b => .ok ⟨a, b, c, n, pn⟩
      | none => .error "assert"
    | _, _ => .error "assert"

def freeSurfaceBasis (vects : M3 K) (hkl : IV) (L : M3 Int) (cut : Cut) (nOpt : Option Int) :
    Except String (M3 Int × V3 K) :=
  match basisABC vects hkl L nOpt with
  | .ok r => .ok (orderRows cut r.a r.b r.c, r.pn)
  | .error e => .error e

end

/-! ### hexagonal 4-index I/O -/

/-- `plane4to3` (`none` = `h+k+i != 0`). -/
def plane4to3 (h k i l : Int) : Option IV := if h + k + i = 0 then some ⟨h, k, l⟩ else none

/-- `vector3to4`: `[(2u-v)/3, (2v-u)/3, -(u+v)/3, w]`. -/
def vector3to4 (v : IV) : List Rat :=
  let u : Rat := ((2 * v.x - v.y : Int) : Rat) / 3
  let w : Rat := ((2 * v.y - v.x : Int) : Rat) / 3
  [u, w, -(u + w), (v.z : Rat)]

/-- `vector4to3` (`none` = `u+v+t != 0`). -/
def vector4to3 (u v t w : Int) : Option IV := if u + v + t = 0 then some ⟨2 * u + v, 2 * v + u, w⟩ else none

section
variable {K : Type} [Add K] [Sub K] [Mul K] [Neg K] [Zero K] [IntCast K] [LT K] [DecidableLT K]

/-- `|x| ≤ t`. -/
def absLe (x t : K) : Bool := !decide (t < x) && !decide (x < -t)

/-- `Box.ishexagonal` on the Gram matrix: `a = b`, `α = β = 90`, `γ = 120`, each relative
    deviation at most `tol` (the coded test uses `isclose` on lengths and angles; the harness only
    counts boxes that are hexagonal to 1e-12 or non-hexagonal by more than 1e-3). -/
def isHexagonal (vects : M3 K) (tol : K) : Bool :=
  let a2 := V3.normSq vects.r0
  let b2 := V3.normSq vects.r1
  let c2 := V3.normSq vects.r2
  let ab := V3.dot vects.r0 vects.r1
  let ac := V3.dot vects.r0 vects.r2
  let bc := V3.dot vects.r1 vects.r2
  absLe (a2 - b2) (tol * a2) && absLe (ab + ab + a2) (tol * a2) &&
    !decide (tol * tol * (a2 * c2) < ac * ac) && !decide (tol * tol * (b2 * c2) < bc * bc)

end

/-! ### the public entry point `free_surface_basis(hkl, box, cutboxvector, maxindex, return_hexagonal, ...,
conventional_setting)`: form of `hkl`, default of `return_hexagonal`, refusals, then the routine -/

/-- free_surface_basis.py:89-103: `len` indices were given, `hex = box.ishexagonal()`, `rh = return_hexagonal`.
    Result: (Miller-Bravais output?, was the plane converted with `plane4to3`?); `value` = ValueError
    (4 indices with a non-hexagonal box, Miller-Bravais output asked for a non-hexagonal box, any other length). -/
def hklForm (len : Nat) (hex : Bool) (rh : Option Bool) : Except String (Bool × Bool) :=
  if len = 4 then (if hex then .ok (rh.getD true, true) else .error "value")
  else if len = 3 then
    (match rh with
     | some true => if hex then .ok (true, false) else .error "value"
     | _ => .ok (false, false))
  else .error "value"

/-- the three-index plane the routine works with (`plane4to3` refuses `h + k + i ≠ 0`). -/
def planeOf (idx : List Int) (conv : Bool) : Except String IV :=
  match idx, conv with
  | [h, k, i, l], true => match plane4to3 h k i l with
    | some v => .ok v
    | none => .error "value"
  | [h, k, l], false => .ok ⟨h, k, l⟩
  | _, _ => .error "value"

section
variable {K : Type} [Add K] [Sub K] [Mul K] [Zero K] [IntCast K] [LT K] [DecidableLT K] [DecidableEq K]

/-- the whole call: form of the plane, centring matrix of `conventional_setting` (`"p"` when not given; an unknown
    key is a ValueError of `miller.vector_conventional_to_primitive`), the routine, the row order.
    Result: the integer rows, whether they are reported in Miller-Bravais form (`vector3to4` of each row), the normal. -/
def fsbEntry (vects : M3 K) (idx : List Int) (hex : Bool) (rh : Option Bool) (setting : String) (cut : Cut)
    (nOpt : Option Int) : Except String (M3 Int × Bool × V3 K) :=
  match hklForm idx.length hex rh with
  | .error e => .error e
  | .ok (rh', conv) =>
    match planeOf idx conv with
    | .error e => .error e
    | .ok hkl =>
      match c2p setting with
      | none => .error "value"
      | some L =>
        match freeSurfaceBasis vects hkl L cut nOpt with
        | .error e => .error e
        | .ok (uv, pn) => .ok (uv, rh', pn)

end

/-! ### FreeSurface: compatibility of the cut vector, layers, shifts -/
section
variable {K : Type} [Add K] [Sub K] [Mul K] [Zero K] [DecidableEq K]

/-- FreeSurface.py:103-116 on the rotated cell `A, B, C` (rows of `uvws · vects`): for cut `a`
    the LAMMPS-normal box needs `xy = xz = 0` (`A·B = A·C = 0`), for cut `b` it needs `yz = 0`
    (`(B·C)(A·A) = (A·B)(A·C)`), cut `c` is always accepted. -/
def cutCompatible (cut : Cut) (A B C : V3 K) : Bool :=
  match cut with
  | .a => V3.dot A B = 0 && V3.dot A C = 0
  | .b => V3.dot B C * V3.dot A A = V3.dot A B * V3.dot A C
  | .c => true

end

/-- round-half-even of a rational. -/
def roundHalfEven (x : Rat) : Int :=
  let f := x.floor
  let r := x - (f : Rat)
  if r < 1/2 then f else if 1/2 < r then f + 1 else if f % 2 = 0 then f else f + 1

/-- key of `pos[:, cut].round(numdec)`. -/
def roundKey (numdec : Nat) (x : Rat) : Int := roundHalfEven (x * ((10 ^ numdec : Nat) : Rat))

/-- insert `(key, x)` into a list sorted strictly by key, keeping the first occurrence of a key. -/
def insertKey (kx : Int × Rat) : List (Int × Rat) → List (Int × Rat)
  | [] => [kx]
  | (k, y) :: t =>
    if kx.1 < k then kx :: (k, y) :: t
    else if kx.1 = k then (k, y) :: t
    else (k, y) :: insertKey kx t

/-- `np.unique(rounded, return_index=True)` then `pos[unique_indices]`: one unrounded
    representative (the first occurrence) per distinct rounded coordinate, ascending. -/
def layerCoords (numdec : Nat) (xs : List Rat) : List Rat :=
  (xs.foldl (fun acc x => insertKey (roundKey numdec x, x) acc) []).map (·.2)

section
variable {K : Type} [Add K] [Sub K] [Mul K] [Div K] [Neg K] [Zero K] [IntCast K] [LT K] [DecidableLT K]

/-- append the periodic replica `coords[0] + W` unless `coords[-1] - coords[0]` is within `tol` of `W`. -/
def withReplica (coords : List K) (W tol : K) : List K :=
  match coords.head?, coords.getLast? with
  | some f, some l => if absLe (l - f - W) tol then coords else coords ++ [f + W]
  | _, _ => coords

/-- consecutive pairs `(coords[i], coords[i+1])`. -/
def consec (l : List K) : List (K × K) := l.zip l.tail

def mid (pq : K × K) : K := (pq.1 + pq.2) / ((2 : Int) : K)

/-- `relshift = W - mid`, folded back into `[0, W]`. -/
def relShift (W : K) (m : K) : K :=
  let r := W - m
  if W < r then r - W else if r < 0 then r + W else r

/-- insertion into an ascending list (sort of the shifts). -/
def insertAsc (x : K) : List K → List K
  | [] => [x]
  | y :: t => if x < y then x :: y :: t else y :: insertAsc x t

def sortAsc (l : List K) : List K := l.foldr insertAsc []

/-- the offered shifts along the cut direction, before sorting. -/
def rawShifts (coords : List K) (W tol : K) : List K :=
  (consec (withReplica coords W tol)).map (fun pq => relShift W (mid pq))

/-- `FreeSurface.shifts[:, cutindex]`. -/
def shifts (coords : List K) (W tol : K) : List K := sortAsc (rawShifts coords W tol)

end

/-! ### FreeSurface.surface: multiplier along the cut, pbc, vacuum -/

/-- `minwidth`/`even` handling of the multiplier along the cut; `ceilq = ceil(minwidth / rcellwidth)`
    is supplied by the caller (`none` when `minwidth` is not given). -/
def cutMult (m : Int) (ceilq : Option Int) (even : Bool) : Int :=
  let m1 := match ceilq with
    | some q => if q > (m.natAbs : Int) then Int.sign m * q else m
    | none => m
  if even && m1 % 2 = 1 then (if m1 > 0 then m1 + 1 else m1 - 1) else m1

/-- pbc of the surface system: everything periodic except the cut direction. -/
def surfacePbc (cut : Cut) : List Bool := [0, 1, 2].map (fun i => i ≠ cutIndex cut)

section
variable {K : Type} [Add K] [Sub K] [Mul K] [Div K] [Zero K] [IntCast K]

def unitV (i : Nat) : V3 K := ⟨((if i = 0 then 1 else 0 : Int) : K), ((if i = 1 then 1 else 0 : Int) : K),
  ((if i = 2 then 1 else 0 : Int) : K)⟩

def setDiag (m : M3 K) (i : Nat) (f : K → K) : M3 K :=
  if i = 0 then { m with r0 := { m.r0 with x := f m.r0.x } }
  else if i = 1 then { m with r1 := { m.r1 with y := f m.r1.y } }
  else { m with r2 := { m.r2 with z := f m.r2.z } }

/-- vacuum insertion: `vects[cut, cut] += vac`, `origin -= ovect * vac / 2`. -/
def vacuumBox (cut : Cut) (box : Box K) (vac : K) : Box K :=
  let i := cutIndex cut
  ⟨setDiag box.vects i (· + vac), box.origin - V3.smul (vac / ((2 : Int) : K)) (unitV i)⟩

end

/-! ### StackingFault.fault -/
section
variable {K : Type} [Add K] [Sub K] [Mul K] [Div K] [Zero K] [IntCast K] [LT K] [DecidableLT K]

/-- `abovefault = pos[:, cutindex] > faultpos_cart`. -/
def isAbove (cut : Cut) (fp : K) (p : V3 K) : Bool := decide (fp < p.get (cutIndex cut))

/-- image flags of `System.wrap`: `floor(spos)` in periodic directions, 0 otherwise. -/
def imageFlags (box : Box K) (pbc : V3 Bool) (fl : K → Int) (p : V3 K) : IV :=
  let s := box.cartToRel p
  ⟨if pbc.x then fl s.x else 0, if pbc.y then fl s.y else 0, if pbc.z then fl s.z else 0⟩

/-- `System.wrap` on one position: `spos -= imageflags`, then unscale. -/
def wrapPos (box : Box K) (pbc : V3 Bool) (fl : K → Int) (p : V3 K) : V3 K :=
  let s := box.cartToRel p
  let n := imageFlags box pbc fl p
  box.relToCart (s - toK n)

/-- one atom of `FreeSurface.surface()` after `supersize`: `pos += shift`, then `wrap()` while all three
    directions are still periodic (pbc is switched off across the cut only afterwards). -/
def surfacePos (box : Box K) (fl : K → Int) (shift p : V3 K) : V3 K :=
  wrapPos box ⟨true, true, true⟩ fl (p + shift)

/-- `FreeSurface.surface()` up to the pbc / vacuum step: `rcell.supersize(*sizemults)` (C04's model),
    `pos += shift`, `wrap()`; a fully periodic `wrap` leaves the box as it is. -/
def surfaceAtoms (rbox : Box K) (sa sb sc : C04.Size) (fl : K → Int) (shift : V3 K)
    (atoms : List (C04.Atom K)) : Box K × List (C04.Atom K) :=
  let sbox := C04.superBox rbox sa sb sc
  (sbox, (C04.supersizeAtoms rbox sa sb sc atoms).map fun a => { a with pos := surfacePos sbox fl shift a.pos })

/-- one atom of `fault()`: shift if above, then wrap. -/
def faultPos (box : Box K) (pbc : V3 Bool) (fl : K → Int) (cut : Cut) (fp : K) (shift : V3 K)
    (p : V3 K) : V3 K :=
  wrapPos box pbc fl (if isAbove cut fp p then p + shift else p)

/-- all atoms. -/
def fault (box : Box K) (pbc : V3 Bool) (fl : K → Int) (cut : Cut) (fp : K) (shift : V3 K)
    (ps : List (V3 K)) : List (V3 K) := ps.map (faultPos box pbc fl cut fp shift)

/-- `faultshift = a1 * a1vect_cart + a2 * a2vect_cart + outofplane * ovect`. -/
def faultShift (a1 a2 oop : K) (a1c a2c : V3 K) (cut : Cut) : V3 K :=
  V3.smul a1 a1c + V3.smul a2 a2c + V3.smul oop (unitV (cutIndex cut))

/-- radicand of the `minimum_r` push: `minimum_r² - d_in1² - d_in2²`. -/
def pushRadicand (cut : Cut) (r : K) (d : V3 K) : K :=
  match cut with
  | .a => r * r - d.y * d.y - d.z * d.z
  | .b => r * r - d.x * d.x - d.z * d.z
  | .c => r * r - d.x * d.x - d.y * d.y

/-- extra out-of-plane shift: `new - dvect_min[cut]`, `new` being the square root (a parameter). -/
def pushAmount (cut : Cut) (sq : K) (d : V3 K) : K := sq - d.get (cutIndex cut)

end

/-! ### FreeSurface / StackingFault as objects: what is kept between calls

`FreeSurface` keeps `shift`, `system`, `surfacearea`; `StackingFault` adds `faultpos_rel`, `faultpos_cart`,
the cached `abovefault` mask and the two shift vectors `a1vect_cart`, `a2vect_cart`.  `fault()` reads the
*cached* mask and the *stored* system: the operations below mirror which attribute each call assigns and in
which order, including what a refused call leaves behind. -/

/-- `shift=` / `shiftindex=` / `shiftscale=` of `__init__`, `set_shift`, `surface`. -/
inductive ShiftArg (K : Type) where
  | keep                    -- neither given
  | vec (v : V3 K)          -- `shift=v` (absolute)
  | rel (v : V3 K)          -- `shift=v, shiftscale=True`
  | idx (i : Int)           -- `shiftindex=i` (numpy indexing: negative indices count from the end)
  | both                    -- both given: ValueError

/-- `faultpos_rel=` / `faultpos_cart=`. -/
inductive FaultPosArg (K : Type) where
  | none | rel (r : K) | cart (c : K) | both

/-- one entry of `sizemults`: an int or a `(lo, hi)` tuple. -/
inductive MultArg where
  | int (m : Int) | pair (lo hi : Int)

/-- `a1=, a2=, outofplane=` / `faultshift=` of `fault()`. -/
inductive FShiftArg (K : Type) where
  | none
  | coeffs (a1 a2 oop : Option K)
  | direct (v : V3 K)
  | both

/-- how `fault()` reads its four optional arguments `a1, a2, outofplane, faultshift` (StackingFault.py:540-553):
    any coefficient given → coefficients (both kinds → ValueError), else the explicit vector, else nothing. -/
def FShiftArg.ofOptions {K : Type} (a1 a2 oop : Option K) (fs : Option (V3 K)) : FShiftArg K :=
  if a1.isSome || a2.isSome || oop.isSome then
    (match fs with | some _ => FShiftArg.both | Option.none => FShiftArg.coeffs a1 a2 oop)
  else match fs with | some v => FShiftArg.direct v | Option.none => FShiftArg.none

/-- numpy / Python indexing of a list by a possibly negative integer. -/
def pyIndex {α : Type} (l : List α) (i : Int) : Option α :=
  let n : Int := l.length
  if 0 ≤ i ∧ i < n then l[i.toNat]? else if -n ≤ i ∧ i < 0 then l[(i + n).toNat]? else none

/-- what `__init__` fixes: cut vector, rotated cell, offered shifts, the map from primitive crystal indices to
    Cartesian vectors in the rotated frame (`transform . vector_crystal_to_cartesian`), the centring matrix,
    the floor of `wrap`, the absolute tolerance of `np.isclose(x, 0.0)`. -/
structure SFStatic (K : Type) where
  cut : Cut
  rbox : Box K
  ratoms : List (C04.Atom K)
  shifts : List (V3 K)
  mcart : M3 K
  L : M3 Int
  fl : K → Int
  atol : K

/-- the built surface system; `area2` is the square of `surfacearea`. -/
structure SurfSys (K : Type) where
  box : Box K
  pbc : V3 Bool
  atoms : List (C04.Atom K)
  area2 : K

/-- mutable attributes of the object. -/
structure SFState (K : Type) where
  shift : V3 K
  system : Option (SurfSys K)
  fpRel : Option K
  fpCart : Option K
  above : Option (List Bool)
  a1c : V3 K
  a2c : V3 K

/-- arguments of `surface()`; `ceilq = ceil(minwidth / rcellwidth)` (none: no `minwidth`). -/
structure SurfArgs (K : Type) where
  shift : ShiftArg K
  m0 : MultArg
  m1 : MultArg
  m2 : MultArg
  ceilq : Option Int
  even : Bool
  vac : Option K
  fpos : FaultPosArg K

/-- arguments of `fault()`: optional overrides of the two shift vectors (conventional indices, 3-index form),
    optional fault position, the shift. -/
structure FaultArgs (K : Type) where
  a1v : Option (V3 K)
  a2v : Option (V3 K)
  fpos : FaultPosArg K
  fshift : FShiftArg K

/-- `supersize`'s reading of one multiplier: a malformed tuple is a TypeError, a zero extent a ValueError
    (an int `0` falls through to a subscript error: TypeError). -/
def MultArg.size? : MultArg → Except String C04.Size
  | .int m => match C04.Size.ofInt? m with | some s => .ok s | none => .error "type"
  | .pair lo hi => match C04.Size.ofPair? lo hi with
    | some s => .ok s
    | none => if lo ≤ 0 ∧ 0 ≤ hi then .error "value" else .error "type"

/-- `minwidth` / `even` on the multiplier along the cut (an int; a tuple passes only when neither is used). -/
def effMult (ceilq : Option Int) (even : Bool) : MultArg → Except String MultArg
  | .int m => .ok (.int (cutMult m ceilq even))
  | .pair lo hi => if ceilq.isNone && !even then .ok (.pair lo hi) else .error "type"

/-- pbc of the surface system as a triple. -/
def cutPbc (cut : Cut) : V3 Bool := ⟨cutIndex cut != 0, cutIndex cut != 1, cutIndex cut != 2⟩

section
variable {K : Type} [Add K] [Sub K] [Mul K] [Div K] [Neg K] [Zero K] [IntCast K] [LT K] [DecidableLT K]

/-- the three sizes `supersize` receives. -/
def sizesOf (cut : Cut) (a : SurfArgs K) : Except String (C04.Size × C04.Size × C04.Size) := do
  let e0 ← if cutIndex cut = 0 then effMult a.ceilq a.even a.m0 else pure a.m0
  let e1 ← if cutIndex cut = 1 then effMult a.ceilq a.even a.m1 else pure a.m1
  let e2 ← if cutIndex cut = 2 then effMult a.ceilq a.even a.m2 else pure a.m2
  let s0 ← e0.size?
  let s1 ← e1.size?
  let s2 ← e2.size?
  pure (s0, s1, s2)

/-- square of `surfacearea`: `|b x c|²`, `|a x c|²`, `|a x b|²` for cut a, b, c. -/
def area2 (cut : Cut) (box : Box K) : K :=
  match cut with
  | .a => V3.normSq (V3.cross box.vects.r1 box.vects.r2)
  | .b => V3.normSq (V3.cross box.vects.r0 box.vects.r2)
  | .c => V3.normSq (V3.cross box.vects.r0 box.vects.r1)

/-- the system `surface()` stores: supersize + shift + wrap (all periodic), pbc off across the cut, vacuum. -/
def buildSurface (st : SFStatic K) (shift : V3 K) (s0 s1 s2 : C04.Size) (vac : Option K) : SurfSys K :=
  let sa := surfaceAtoms st.rbox s0 s1 s2 st.fl shift st.ratoms
  let box := match vac with
    | some v => vacuumBox st.cut sa.1 v
    | none => sa.1
  ⟨box, cutPbc st.cut, sa.2, area2 st.cut box⟩

def resolveShift (st : SFStatic K) (cur : V3 K) : ShiftArg K → Except String (V3 K)
  | .keep => .ok cur
  | .vec v => .ok v
  | .rel v => .ok (M3.vecMul v st.rbox.vects)
  | .idx i => match pyIndex st.shifts i with
    | some s => .ok s
    | none => .error "index"
  | .both => .error "value"

/-- `set_shift()`: with neither argument the first offered shift is selected. -/
def setShiftOp (st : SFStatic K) (o : SFState K) (a : ShiftArg K) : SFState K × Except String Unit :=
  match a with
  | .keep => match st.shifts.head? with
    | some s => ({ o with shift := s }, .ok ())
    | none => (o, .error "index")
  | a => match resolveShift st o.shift a with
    | .ok s => ({ o with shift := s }, .ok ())
    | .error e => (o, .error e)

/-- `FreeSurface.surface()`: the shift is assigned first; a refusal by `supersize` or for a negative
    vacuum width leaves the previous system in place. -/
def surfaceBase (st : SFStatic K) (o : SFState K) (a : SurfArgs K) : SFState K × Except String Unit :=
  match resolveShift st o.shift a.shift with
  | .error e => (o, .error e)
  | .ok sh =>
    let o1 := { o with shift := sh }
    match sizesOf st.cut a with
    | .error e => (o1, .error e)
    | .ok (s0, s1, s2) =>
      match a.vac with
      | some v =>
        if v < 0 then (o1, .error "value")
        else ({ o1 with system := some (buildSurface st sh s0 s1 s2 (some v)) }, .ok ())
      | none => ({ o1 with system := some (buildSurface st sh s0 s1 s2 none) }, .ok ())

/-- `abovefault = system.atoms.pos[:, cutindex] > faultpos_cart`. -/
def maskOf (cut : Cut) (fp : K) (atoms : List (C04.Atom K)) : List Bool :=
  atoms.map fun a => isAbove cut fp a.pos

/-- `faultpos_rel` setter: range check, assign, then `faultpos_cart` and the mask from the *current* system. -/
def setFpRel (st : SFStatic K) (o : SFState K) (r : K) : SFState K × Except String Unit :=
  if r < 0 ∨ ((1 : Int) : K) < r then (o, .error "value") else
  let o1 := { o with fpRel := some r }
  match o.system with
  | none => (o1, .error "attr")
  | some s =>
    let i := cutIndex st.cut
    let fc := s.box.origin.get i + r * (s.box.vects.row i).get i
    ({ o1 with fpCart := some fc, above := some (maskOf st.cut fc s.atoms) }, .ok ())

/-- `faultpos_cart` setter. -/
def setFpCart (st : SFStatic K) (o : SFState K) (c : K) : SFState K × Except String Unit :=
  match o.system with
  | none => (o, .error "attr")
  | some s =>
    let i := cutIndex st.cut
    let r := (c - s.box.origin.get i) / (s.box.vects.row i).get i
    if r < 0 ∨ ((1 : Int) : K) < r then (o, .error "value") else
    ({ o with fpRel := some r, fpCart := some c, above := some (maskOf st.cut c s.atoms) }, .ok ())

/-- the `faultpos_cart` / `faultpos_rel` block of `surface()` (`dflt`: 0.5 when neither is given) and of
    `fault()` / `iterfaultmap()` (nothing when neither is given). -/
def setFaultpos (st : SFStatic K) (o : SFState K) (dflt : Bool) : FaultPosArg K → SFState K × Except String Unit
  | .both => (o, .error "value")
  | .cart c => setFpCart st o c
  | .rel r => setFpRel st o r
  | .none => if dflt then setFpRel st o (((1 : Int) : K) / ((2 : Int) : K)) else (o, .ok ())

/-- sequencing of two steps of a call: a refusal stops the call and keeps the state reached so far. -/
def andThen {α : Type} (r : SFState K × Except String Unit) (f : SFState K → SFState K × Except String α) :
    SFState K × Except String α :=
  match r with
  | (o, .error e) => (o, .error e)
  | (o, .ok _) => f o

/-- forget the fault plane of the previous system. -/
def forgetFault (o : SFState K) : SFState K := { o with fpRel := none, fpCart := none, above := none }

/-- `StackingFault.surface()`: the base class builds and stores the system, the fault position of the
    previous system is forgotten, then the fault position (default 0.5) and the mask are set on the new one. -/
def surfaceSF (st : SFStatic K) (o : SFState K) (a : SurfArgs K) : SFState K × Except String Unit :=
  andThen (surfaceBase st o a) fun o1 => setFaultpos st (forgetFault o1) true a.fpos

/-- `a1vect_uvw` / `a2vect_uvw` setter (`first`: a1): conventional → primitive → Cartesian in the rotated frame,
    refused unless the component along the cut passes `np.isclose(x, 0.0)`. -/
def setAvect (st : SFStatic K) (o : SFState K) (first : Bool) (uvw : V3 K) : SFState K × Except String Unit :=
  let prim := M3.vecMul uvw (⟨toK st.L.r0, toK st.L.r1, toK st.L.r2⟩ : M3 K)
  let c := M3.vecMul prim st.mcart
  if absLe (c.get (cutIndex st.cut)) st.atol then
    (if first then { o with a1c := c } else { o with a2c := c }, .ok ())
  else (o, .error "value")

/-- shift + wrap with a *given* mask (what `fault()` does with the cached `abovefault`). -/
def faultWith (box : Box K) (pbc : V3 Bool) (fl : K → Int) (mask : List Bool) (shift : V3 K)
    (ps : List (V3 K)) : List (V3 K) :=
  (ps.zip mask).map fun pm => wrapPos box pbc fl (if pm.2 then pm.1 + shift else pm.1)

def zeroV3 : V3 K := ⟨0, 0, 0⟩

/-- an optional override of one shift vector. -/
def optAvect (st : SFStatic K) (o : SFState K) (first : Bool) : Option (V3 K) → SFState K × Except String Unit
  | some u => setAvect st o first u
  | none => (o, .ok ())

/-- the overrides at the head of `fault()` / `iterfaultmap()`, in the coded order. -/
def faultPrelude (st : SFStatic K) (o : SFState K) (a1v a2v : Option (V3 K)) (fpos : FaultPosArg K) :
    SFState K × Except String Unit :=
  andThen (optAvect st o true a1v) fun o1 =>
  andThen (optAvect st o1 false a2v) fun o2 =>
  setFaultpos st o2 false fpos

/-- the shift vector `fault()` applies. -/
def resolveFShift (cut : Cut) (o : SFState K) : FShiftArg K → Except String (V3 K)
  | .both => .error "value"
  | .none => .ok zeroV3
  | .direct v => .ok v
  | .coeffs a1 a2 oop => .ok (faultShift (a1.getD 0) (a2.getD 0) (oop.getD 0) o.a1c o.a2c cut)

/-- the body of `fault()` after the overrides: deep copy of the stored system, the cached mask, wrap. -/
def faultCore (st : SFStatic K) (o : SFState K) (fs : FShiftArg K) : Except String (List (V3 K)) :=
  match resolveFShift st.cut o fs with
  | .error e => .error e
  | .ok sh =>
    match o.system, o.above with
    | some s, some m =>
      if m.length = s.atoms.length then
        .ok (faultWith s.box s.pbc st.fl m sh (s.atoms.map (·.pos)))
      else .error "index"
    | _, _ => .error "attr"

/-- `StackingFault.fault()` (without `minimum_r`). -/
def faultOp (st : SFStatic K) (o : SFState K) (a : FaultArgs K) : SFState K × Except String (List (V3 K)) :=
  andThen (faultPrelude st o a.a1v a.a2v a.fpos) fun o1 => (o1, faultCore st o1 a.fshift)

/-- the `(a1, a2)` mesh of `iterfaultmap` in its iteration order (`a2` outer, `a1` inner). -/
def faultMesh (n1 n2 : Nat) : List (K × K) :=
  (List.range n2).flatMap fun (j : Nat) => (List.range n1).map fun (i : Nat) =>
    (((Int.ofNat i : Int) : K) / ((Int.ofNat n1 : Int) : K), ((Int.ofNat j : Int) : K) / ((Int.ofNat n2 : Int) : K))

/-- `iterfaultmap()`: overrides once, then `fault(a1=, a2=, outofplane=)` per mesh point. -/
def iterFaultMap (st : SFStatic K) (o : SFState K) (a1v a2v : Option (V3 K)) (fpos : FaultPosArg K)
    (n1 n2 : Nat) (oop : Option K) : SFState K × Except String (List (K × K × List (V3 K))) :=
  andThen (faultPrelude st o a1v a2v fpos) fun o1 =>
    (o1, (faultMesh n1 n2).mapM fun ab =>
      (faultCore st o1 (.coeffs (some ab.1) (some ab.2) oop)).map fun ps => (ab.1, ab.2, ps))

/-- a new object: `set_shift` of the constructor, the shift vectors are the two in-plane cell vectors of the
    rotated cell (`a1index, a2index = (1,2), (2,0), (0,1)` for cut a, b, c), nothing built. -/
def sfNew (st : SFStatic K) (a : ShiftArg K) : Except String (SFState K) :=
  let a1 := st.rbox.vects.row ((cutIndex st.cut + 1) % 3)
  let a2 := st.rbox.vects.row ((cutIndex st.cut + 2) % 3)
  let o0 : SFState K := ⟨zeroV3, none, none, none, none, a1, a2⟩
  match setShiftOp st o0 a with
  | (o, .ok ()) => .ok o
  | (_, .error e) => .error e

/-- the calls of a history and what each returns. -/
inductive SFOp (K : Type) where
  | setShift (a : ShiftArg K)
  | surface (a : SurfArgs K)
  | fpRel (r : K)
  | fpCart (c : K)
  | fault (a : FaultArgs K)
  | faultMap (a1v a2v : Option (V3 K)) (fpos : FaultPosArg K) (n1 n2 : Nat) (oop : Option K)

inductive SFObs (K : Type) where
  | unit
  | positions (ps : List (V3 K))
  | map (l : List (K × K × List (V3 K)))

def sfStep (st : SFStatic K) (o : SFState K) : SFOp K → SFState K × Except String (SFObs K)
  | .setShift a => let r := setShiftOp st o a; (r.1, r.2.map fun _ => .unit)
  | .surface a => let r := surfaceSF st o a; (r.1, r.2.map fun _ => .unit)
  | .fpRel x => let r := setFpRel st o x; (r.1, r.2.map fun _ => .unit)
  | .fpCart x => let r := setFpCart st o x; (r.1, r.2.map fun _ => .unit)
  | .fault a => let r := faultOp st o a; (r.1, r.2.map .positions)
  | .faultMap a1v a2v fpos n1 n2 oop =>
    let r := iterFaultMap st o a1v a2v fpos n1 n2 oop; (r.1, r.2.map .map)

/-- a history: final state and everything the calls returned. -/
def sfRun (st : SFStatic K) : SFState K → List (SFOp K) → SFState K × List (Except String (SFObs K))
  | o, [] => (o, [])
  | o, op :: t =>
    let r := sfStep st o op
    let rest := sfRun st r.1 t
    (rest.1, r.2 :: rest.2)

end


/-! ### relational form of the routine (used where float ties make the coded choice unpredictable)

`validBasis` accepts a triple `(a, b, c)` iff it is *a* possible outcome of the two searches up to
a relative tolerance on the compared quantities: `a` in plane and (nearly) shortest, `c` the gcd
reduction of a candidate on the normal's side with (nearly) the largest cosine, `b` passing the
second filter relative to `a` and (nearly) shortest.  The filters are the same predicates
(`inPlane`, `towardNormal`, `bFilter`) the theorems are about. -/
namespace Rel

def inRange (n : Int) (v : IV) : Bool :=
  decide (v.x.natAbs ≤ n.toNat) && decide (v.y.natAbs ≤ n.toNat) && decide (v.z.natAbs ≤ n.toNat) &&
    !(v.x == 0 && v.y == 0 && v.z == 0)

def unorder (cut : Cut) (m : M3 Int) : IV × IV × IV :=
  match cut with
  | .c => (m.r0, m.r1, m.r2)
  | .b => (m.r2, m.r0, m.r1)
  | .a => (m.r1, m.r2, m.r0)

section
variable {K : Type} [Add K] [Sub K] [Mul K] [Zero K] [IntCast K] [LT K] [DecidableLT K] [DecidableEq K]

/-- `tol = tn / td` (relative, on squared lengths and squared cosines). -/
def validBasis (vects : M3 K) (hkl : IV) (L : M3 Int) (cut : Cut) (nOpt : Option Int)
    (uvws : M3 Int) (tn td : Int) : String :=
  match initVectors hkl with
  | none => "0 hkl-zero"
  | some ini =>
    let a0 := M3.vecMul ini.a0 L
    let b0 := M3.vecMul ini.b0 L
    let n := match nOpt with | some n => n | none => defaultMaxIndex a0 b0 hkl
    let pn := planeNormal vects ini.s a0 b0
    let (a, b, c) := unorder cut uvws
    let cands := genVectors n
    let m2 := fun v => V3.normSq (cart vects v)
    let dn := fun v => V3.dot (cart vects v) pn
    let bound := m2 ⟨n, n, n⟩
    let up : K := ((td + tn : Int) : K)
    let dnn : K := ((td - tn : Int) : K)
    let one : K := ((td : Int) : K)
    if !(inRange n a && decide (inPlane vects pn a)) then "0 a-not-a-candidate-in-plane"
    else if !(decide (m2 a * one < bound * up)) then "0 a-not-below-initial-bound"
    else if cands.any (fun v => decide (inPlane vects pn v) && decide (m2 v * up < m2 a * one)) then "0 a-not-shortest"
    else if gcd3 c ≠ 1 then "0 c-not-reduced"
    else if !(cands.any (fun v => decide (towardNormal vects pn v) && decide (reduceGcd v = c))) then "0 c-not-from-candidate"
    else if cands.any (fun v => decide (towardNormal vects pn v) &&
        decide (dn c * dn c * m2 v * one < dn v * dn v * m2 c * dnn)) then "0 c-not-closest-to-normal"
    else
      let aC := cart vects a
      if !(inRange n b && decide (bFilter vects pn aC b)) then "0 b-fails-filter"
      else if !(decide (m2 b * one < bound * up)) then "0 b-not-below-initial-bound"
      else if cands.any (fun v => decide (bFilter vects pn aC v) && decide (m2 v * up < m2 b * one)) then "0 b-not-shortest"
      else "1"

end

end Rel

end Atomman.C14
