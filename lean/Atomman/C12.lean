/-
  C12 — Volterra dislocation fields (atomman/defect/{VolterraDislocation,Stroh,IsotropicVolterraDislocation,
  solve_volterra_dislocation,dislocation_system_transform}.py, ElasticConstants.Cijkl / transform).

  Core Lean only.  Every numerical definition is polymorphic over a scalar type `F` and uses core
  arithmetic classes only, so that the same definition is
    * executed by the driver at `F := Cx Rat` (complex numbers as pairs of exact rationals), and
    * reasoned about for every field in `Proofs/C12.lean` (`Cx K` is shown to be a field there).

  External numerical routines are *parameters*:
    * `numpy.linalg.eig`      → the six modes `(pₐ, Aₐ, Lₐ)` are inputs (`Mode`), the eigen equation
                                 `N v = p v` is a hypothesis / a residual recomputed by the driver;
    * `numpy.linalg.inv(nn)`  → `nnInv` is an input with hypothesis `nn·nnInv = 1`
                                 (the driver uses the exact adjugate inverse);
    * `k**.5`                 → `sqrtk` input with residual `sqrtk² - k`;
    * `np.log`, `np.arctan`   → the values `ln ηₐ`, `arctan(y/x)` are inputs (never computed in Lean);
    * `π`                     → an input scalar `pi`;  `1j` → an input scalar `I` (`⟨0,1⟩` in the driver).
  The field formulas are kept as the **coefficients** of `ln ηₐ` (displacement) resp. `1/ηₐ` (strain,
  stress), `ηₐ = x·m + pₐ x·n`, with the alternating ± pattern `updn = [1,-1,1,-1,1,-1]` exactly as coded.
-/
import Atomman.Prelude
import Atomman.Generated.IsoVolterra

namespace Atomman.C12

/-! ### complex numbers as pairs over `K` -/

structure Cx (K : Type) where
  re : K
  im : K
deriving Repr, BEq, DecidableEq

namespace Cx
variable {K : Type}

@[inline] def add [Add K] (a b : Cx K) : Cx K := ⟨a.re + b.re, a.im + b.im⟩
@[inline] def sub [Sub K] (a b : Cx K) : Cx K := ⟨a.re - b.re, a.im - b.im⟩
@[inline] def neg [Neg K] (a : Cx K) : Cx K := ⟨-a.re, -a.im⟩
@[inline] def mul [Add K] [Sub K] [Mul K] (a b : Cx K) : Cx K :=
  ⟨a.re * b.re - a.im * b.im, a.re * b.im + a.im * b.re⟩
/-- `conj a / |a|²`; meaningful only for `a ≠ 0` (`x / 0` is whatever `K` says it is). -/
@[inline] def inv [Add K] [Mul K] [Neg K] [Div K] (a : Cx K) : Cx K :=
  ⟨a.re / (a.re * a.re + a.im * a.im), (-a.im) / (a.re * a.re + a.im * a.im)⟩
@[inline] def div [Add K] [Sub K] [Mul K] [Neg K] [Div K] (a b : Cx K) : Cx K := mul a (inv b)
@[inline] def conj [Neg K] (a : Cx K) : Cx K := ⟨a.re, -a.im⟩
@[inline] def ofReal [Zero K] (r : K) : Cx K := ⟨r, 0⟩
/-- the imaginary unit (numpy `1j`). -/
@[inline] def I [Zero K] [One K] : Cx K := ⟨0, 1⟩

instance [Add K] : Add (Cx K) := ⟨add⟩
instance [Sub K] : Sub (Cx K) := ⟨sub⟩
instance [Neg K] : Neg (Cx K) := ⟨neg⟩
instance [Add K] [Sub K] [Mul K] : Mul (Cx K) := ⟨mul⟩
instance [Add K] [Mul K] [Neg K] [Div K] : Inv (Cx K) := ⟨inv⟩
instance [Add K] [Sub K] [Mul K] [Neg K] [Div K] : Div (Cx K) := ⟨div⟩
instance [Zero K] : Zero (Cx K) := ⟨⟨0, 0⟩⟩
instance [Zero K] [One K] : One (Cx K) := ⟨⟨1, 0⟩⟩
instance [Zero K] [NatCast K] : NatCast (Cx K) := ⟨fun n => ⟨(n : K), 0⟩⟩
instance [Zero K] [IntCast K] : IntCast (Cx K) := ⟨fun n => ⟨(n : K), 0⟩⟩
end Cx

/-! ### index sums, vectors, tensors -/

variable {F : Type}

abbrev Vec (F : Type) := Fin 3 → F
abbrev Mat (F : Type) := Fin 3 → Fin 3 → F
abbrev Ten4 (F : Type) := Fin 3 → Fin 3 → Fin 3 → Fin 3 → F

@[inline] def sum3 [Add F] (f : Fin 3 → F) : F := f 0 + f 1 + f 2
@[inline] def sum6 [Add F] (f : Fin 6 → F) : F := f 0 + f 1 + f 2 + f 3 + f 4 + f 5

def dot [Add F] [Mul F] (a b : Vec F) : F := sum3 fun i => a i * b i
def cross [Sub F] [Mul F] (a b : Vec F) : Vec F := fun i =>
  a (i + 1) * b (i + 2) - a (i + 2) * b (i + 1)
def matVec [Add F] [Mul F] (M : Mat F) (v : Vec F) : Vec F := fun i => sum3 fun j => M i j * v j
def matMul [Add F] [Mul F] (M N : Mat F) : Mat F := fun i k => sum3 fun j => M i j * N j k
def kron [Zero F] [One F] (i j : Fin 3) : F := if i = j then 1 else 0
def kron6 [Zero F] [One F] (i j : Fin 6) : F := if i = j then 1 else 0

/-- Voigt index of a symmetric pair: 00→0, 11→1, 22→2, 12→3, 02→4, 01→5. -/
def voigt (i j : Fin 3) : Fin 6 :=
  if i = j then ⟨i.val, by omega⟩ else ⟨(6 - i.val - j.val) % 6, Nat.mod_lt _ (by decide)⟩

/-- `ElasticConstants.Cijkl` getter: `C[i,j,k,l] = c[voigt i j, voigt k l]`. -/
def cijkl (c : Fin 6 → Fin 6 → F) : Ten4 F := fun i j k l => c (voigt i j) (voigt k l)

/-- representative index pair of a Voigt index as used by the `Cijkl` *setter*
    (`[0,0],[1,1],[2,2],[1,2],[0,2],[0,1]`). -/
def unvoigt (a : Fin 6) : Fin 3 × Fin 3 :=
  match a.val with
  | 0 => (0, 0) | 1 => (1, 1) | 2 => (2, 2) | 3 => (1, 2) | 4 => (0, 2) | _ => (0, 1)

/-- `ElasticConstants.Cijkl` setter: the 6x6 array read off the representatives. -/
def toVoigt (C : Ten4 F) : Fin 6 → Fin 6 → F := fun a b =>
  C (unvoigt a).1 (unvoigt a).2 (unvoigt b).1 (unvoigt b).2

/-- `ElasticConstants.transform`: `Q = einsum('km,ln->mnkl',T,T)`,
    `C' = einsum('ghij,ghmn,mnkl->ijkl', Q, C, Q)`, i.e. `C'_ijkl = Σ T_ig T_jh T_km T_ln C_ghmn`. -/
def rotC [Add F] [Mul F] (T : Mat F) (C : Ten4 F) : Ten4 F := fun i j k l =>
  sum3 fun g => T i g * sum3 fun h => T j h * sum3 fun m => T k m * sum3 fun n => T l n * C g h m n

/-- `einsum('i,ijkl,l', a, C, b)`: the 3x3 matrix `(ab)_jk = Σ_i Σ_l a_i C_ijkl b_l`. -/
def contract [Add F] [Mul F] (a : Vec F) (C : Ten4 F) (b : Vec F) : Mat F := fun j k =>
  sum3 fun i => sum3 fun l => a i * C i j k l * b l

/-! ### orientation handling (VolterraDislocation.solve, __mn_check, __find_transform) -/

/-- the unit-norm and perpendicularity guard of `__mn_check` for array-valued axes:
    `|‖axis‖ - 1| ≤ tol` (written without the square root: `(1-tol)² ≤ ‖axis‖² ≤ (1+tol)²`,
    equivalent for `0 ≤ tol ≤ 1`) for BOTH axes, and `|m·n| ≤ tol`. -/
def unitOk [Add F] [Sub F] [Mul F] [One F] [LE F] [DecidableLE F] (tol : F) (a : Vec F) : Bool :=
  decide ((1 - tol) * (1 - tol) ≤ dot a a) && decide (dot a a ≤ (1 + tol) * (1 + tol))

def mnAccept [Add F] [Sub F] [Mul F] [Neg F] [One F] [LE F] [DecidableLE F] (tol : F) (m n : Vec F) : Bool :=
  unitOk tol m && unitOk tol n && decide (-tol ≤ dot m n) && decide (dot m n ≤ tol)

/-- `cart_axes=True`: exactly one component within `tol` of 1. -/
def cartAligned [Add F] [Sub F] [One F] [Neg F] [LE F] [DecidableLE F] (tol : F) (a : Vec F) : Bool :=
  let near (v : F) : Nat := if decide (-tol ≤ v - 1) && decide (v - 1 ≤ tol) then 1 else 0
  near (a 0) + near (a 1) + near (a 2) == 1

/-- `__find_transform` / `dislocation_system_transform`: rows `[m_axis, n_axis, ξ_axis]`
    (`m_axis = n_axis × ξ_axis`) multiplied from the left by `T = [m, n, m×n]ᵀ`:
    `transform[i][c] = m_i·m_axis_c + n_i·n_axis_c + (m×n)_i·ξ_axis_c`. -/
def findTransform [Add F] [Sub F] [Mul F] (m n nAxis ξAxis : Vec F) : Mat F := fun i c =>
  m i * (cross nAxis ξAxis) c + n i * nAxis c + (cross m n) i * ξAxis c

/-- `Box.vector_crystal_to_cartesian` of a Miller line `[uvw]` in the cell with rows `a, b, c`: `u a + v b + w c`. -/
def millerLine [Add F] [Mul F] (V : Mat F) (u : Vec F) : Vec F := fun c => sum3 fun i => u i * V i c

/-- the normal of the Miller plane `(hkl)` as the reciprocal-lattice vector times the cell volume,
    `h (b×c) + k (c×a) + l (a×b)`: for a right-handed cell a POSITIVE multiple of the unit vector that
    `plane_crystal_to_cartesian` returns (whatever pair of in-plane lattice vectors the code picks for the zero pattern
    and the signs of `h, k, l`). -/
def millerNormal [Add F] [Sub F] [Mul F] (V : Mat F) (h : Vec F) : Vec F := fun c =>
  h 0 * cross (V 1) (V 2) c + h 1 * cross (V 2) (V 0) c + h 2 * cross (V 0) (V 1) c

/-- `a[isclose(a / big, 0, atol=tol)] = 0` -/
def chop [Zero F] [Neg F] [Div F] [LE F] [DecidableLE F] (tol big v : F) : F :=
  if decide (-tol ≤ v / big) && decide (v / big ≤ tol) then 0 else v

/-! ### the Stroh sextic formalism (Stroh.solve) -/

/-- one eigen-mode as returned by the eigen-solver: eigenvalue `p`, eigenvector split `(A, L)`. -/
structure Mode (F : Type) where
  p : F
  A : Vec F
  L : Vec F

/-- the frame and medium after orientation handling. -/
structure Setup (F : Type) where
  C : Ten4 F
  m : Vec F
  n : Vec F
  b : Vec F

section stroh
variable [Add F] [Sub F] [Mul F] [Div F] [Neg F] [NatCast F]

def Setup.mm (s : Setup F) : Mat F := contract s.m s.C s.m
def Setup.mn (s : Setup F) : Mat F := contract s.m s.C s.n
def Setup.nm (s : Setup F) : Mat F := contract s.n s.C s.m
def Setup.nn (s : Setup F) : Mat F := contract s.n s.C s.n

/-- quadrants of `N` (`nnInv` = `np.linalg.inv(nn)`): `NB = -nn⁻¹`, `NA = NB·nm`, `NC = mn·NA + mm`, `ND = mn·NB`. -/
def NB (nnInv : Mat F) : Mat F := fun i j => -(nnInv i j)
def NA (s : Setup F) (nnInv : Mat F) : Mat F := matMul (NB nnInv) s.nm
def NC (s : Setup F) (nnInv : Mat F) : Mat F := fun i j => matMul s.mn (NA s nnInv) i j + s.mm i j
def ND (s : Setup F) (nnInv : Mat F) : Mat F := matMul s.mn (NB nnInv)

/-- `N v - p v` for `v = (A, L)`: upper and lower halves. -/
def eigResTop (s : Setup F) (nnInv : Mat F) (μ : Mode F) : Vec F := fun i =>
  matVec (NA s nnInv) μ.A i + matVec (NB nnInv) μ.L i - μ.p * μ.A i
def eigResBot (s : Setup F) (nnInv : Mat F) (μ : Mode F) : Vec F := fun i =>
  matVec (NC s nnInv) μ.A i + matVec (ND s nnInv) μ.L i - μ.p * μ.L i

/-- the sextic matrix `mm + p (mn + nm) + p² nn`. -/
def sextic (s : Setup F) (p : F) : Mat F := fun i j =>
  s.mm i j + p * (s.mn i j + s.nm i j) + p * p * s.nn i j

/-- `k = 1 / (2 Σ_i A_i L_i)` -/
def kOf (μ : Mode F) : F := ((1 : Nat) : F) / (((2 : Nat) : F) * dot μ.A μ.L)

/-- `updn = [1, -1, 1, -1, 1, -1]` -/
def updn (a : Fin 6) : F := if a.val % 2 = 0 then ((1 : Nat) : F) else -((1 : Nat) : F)

/-- the first three self-checks: `Σ k A⊗L` (must be 1), `Σ k A⊗A`, `Σ k L⊗L` (must be 0). -/
def chkAL (μ : Fin 6 → Mode F) (k : Fin 6 → F) : Mat F := fun i j => sum6 fun a => k a * (μ a).A i * (μ a).L j
def chkAA (μ : Fin 6 → Mode F) (k : Fin 6 → F) : Mat F := fun i j => sum6 fun a => k a * (μ a).A i * (μ a).A j
def chkLL (μ : Fin 6 → Mode F) (k : Fin 6 → F) : Mat F := fun i j => sum6 fun a => k a * (μ a).L i * (μ a).L j
/-- fourth self-check (must be the 6x6 identity): `√k_s √k_t (A_s·L_t + A_t·L_s)`. -/
def chkST (μ : Fin 6 → Mode F) (sk : Fin 6 → F) (s t : Fin 6) : F :=
  sk s * sk t * dot (μ s).A (μ t).L + sk s * sk t * dot (μ t).A (μ s).L

/-- `K_tensor = 1j · einsum('s,s,si,sj->ij', updn, k, L, L)` (before the round-off clean-up). -/
def kTensor (I : F) (μ : Fin 6 → Mode F) (k : Fin 6 → F) : Mat F := fun i j =>
  I * sum6 fun a => updn a * k a * (μ a).L i * (μ a).L j

/-- `kLb = k * updn * (L·b)` -/
def kLb (s : Setup F) (μ : Fin 6 → Mode F) (k : Fin 6 → F) (a : Fin 6) : F :=
  k a * updn a * dot (μ a).L s.b

/-- `mpn = m + outer(p, n)` -/
def mpn (s : Setup F) (μ : Mode F) : Vec F := fun i => s.m i + μ.p * s.n i

/-- `η_a = x·m + p_a x·n` -/
def eta (s : Setup F) (μ : Mode F) (x : Vec F) : F := dot x s.m + μ.p * dot x s.n

/-- coefficient of `ln η_a` in `displacement`: `1/(2π·1j) · kLb_a · A_ai`. -/
def dispCoef (pi I : F) (s : Setup F) (μ : Fin 6 → Mode F) (k : Fin 6 → F) (a : Fin 6) : Vec F := fun i =>
  ((1 : Nat) : F) / (((2 : Nat) : F) * pi * I) * (kLb s μ k a * (μ a).A i)

/-- coefficient of `1/η_a` in `strain`: `1/(4π·1j) · kLb_a · (mpn_ai A_aj + mpn_aj A_ai)`. -/
def strainCoef (pi I : F) (s : Setup F) (μ : Fin 6 → Mode F) (k : Fin 6 → F) (a : Fin 6) : Mat F := fun i j =>
  ((1 : Nat) : F) / (((4 : Nat) : F) * pi * I)
    * (kLb s μ k a * (mpn s (μ a) i * (μ a).A j + mpn s (μ a) j * (μ a).A i))

/-- coefficient of `1/η_a` in `stress`: `1/(2π·1j) · kLb_a · Σ_kl C_ijkl mpn_al A_ak`
    (`einsum('a, ijkl, alk, ...a -> ...ij', kLb, C, Ampn, 1/eta)`, `Ampn_aij = mpn_ai A_aj`). -/
def stressCoef (pi I : F) (s : Setup F) (μ : Fin 6 → Mode F) (k : Fin 6 → F) (a : Fin 6) : Mat F := fun i j =>
  ((1 : Nat) : F) / (((2 : Nat) : F) * pi * I)
    * (kLb s μ k a * sum3 fun k' => sum3 fun l => s.C i j k' l * (mpn s (μ a) l * (μ a).A k'))

/-- displacement at a point, given the values `lnη a` of `np.log(eta)` there. -/
def dispAt (pi I : F) (s : Setup F) (μ : Fin 6 → Mode F) (k : Fin 6 → F) (lnη : Fin 6 → F) : Vec F := fun i =>
  sum6 fun a => dispCoef pi I s μ k a i * lnη a

def strainAt (pi I : F) (s : Setup F) (μ : Fin 6 → Mode F) (k : Fin 6 → F) (x : Vec F) : Mat F := fun i j =>
  sum6 fun a => strainCoef pi I s μ k a i j * (((1 : Nat) : F) / eta s (μ a) x)

def stressAt (pi I : F) (s : Setup F) (μ : Fin 6 → Mode F) (k : Fin 6 → F) (x : Vec F) : Mat F := fun i j =>
  sum6 fun a => stressCoef pi I s μ k a i j * (((1 : Nat) : F) / eta s (μ a) x)

/-- jump of the displacement when every `ln η_a` jumps by `updn_a · 2π·1j`
    (`+2πi` for the modes listed first in each conjugate pair, `-2πi` for their conjugates). -/
def dispJump (pi I : F) (s : Setup F) (μ : Fin 6 → Mode F) (k : Fin 6 → F) : Vec F :=
  dispAt pi I s μ k (fun a => updn a * (((2 : Nat) : F) * pi * I))

/-- `K_coeff = b·K·b / b·b`, `preln = b·K·b / 4π` -/
def kCoeff (K : Mat F) (b : Vec F) : F := dot b (matVec K b) / dot b b
def preln (pi : F) (K : Mat F) (b : Vec F) : F := dot b (matVec K b) / (((4 : Nat) : F) * pi)

end stroh

/-! ### rotating a whole problem (covariance) -/
section rot
variable [Add F] [Mul F]
def rotVec (R : Mat F) (v : Vec F) : Vec F := matVec R v
def rotMat (R : Mat F) (M : Mat F) : Mat F := fun i j => sum3 fun g => R i g * sum3 fun h => R j h * M g h
def rotMode (R : Mat F) (μ : Mode F) : Mode F := ⟨μ.p, rotVec R μ.A, rotVec R μ.L⟩
def rotSetup (R : Mat F) (s : Setup F) : Setup F := ⟨rotC R s.C, rotVec R s.m, rotVec R s.n, rotVec R s.b⟩
end rot

/-! ### isotropic closed form (IsotropicVolterraDislocation) — formulas are generated, the plumbing is here -/
section iso
variable {K : Type}

/-- `theta()`: `arctan(y/x)` mapped to `(-π, π]`... as coded: `x = 0` special cases, `+π` for `x < 0`,
    then `-2π` where the value is `≥ π` (so the negative x axis itself gets `-π`).
    `atn` is the value of `np.arctan(y / x)` (ignored when `x = 0` and `y ≠ 0`). -/
def thetaOf [Add K] [Sub K] [Mul K] [Div K] [Neg K] [NatCast K] [LT K] [DecidableLT K] [DecidableEq K]
    (pi x y atn : K) : K :=
  let zero : K := ((0 : Nat) : K)
  let t0 := if x = zero ∧ zero < y then pi / ((2 : Nat) : K)
            else if x = zero ∧ y < zero then -pi / ((2 : Nat) : K) else atn
  let t1 := if x < zero then t0 + pi else t0
  if t1 < pi then t1 else t1 - ((2 : Nat) : K) * pi

variable [Add K] [Sub K] [Mul K] [Div K] [Neg K] [NatCast K]

/-- local → lab: `einsum('mi, nj, ...ij -> ...mn', T, T, local)` with `T = [m, n, ξ]ᵀ`, `T_mi = frame_i[m]`. -/
def toLab (m n ξ : Vec K) (loc : Mat K) : Mat K :=
  let fr : Fin 3 → Vec K := fun i => if i.val = 0 then m else if i.val = 1 then n else ξ
  fun a b => sum3 fun i => sum3 fun j => fr i a * fr j b * loc i j

/-- `disp = outer(disp_ξ, ξ) + outer(disp_m, m) + outer(disp_n, n)` -/
def isoDispLab (m n ξ : Vec K) (dm dn dξ : K) : Vec K := fun c => dξ * ξ c + dm * m c + dn * n c

structure IsoSetup (K : Type) where
  m : Vec K
  n : Vec K
  b : Vec K
  mu : K
  nu : K

def IsoSetup.ξ (s : IsoSetup K) : Vec K := cross s.m s.n
def IsoSetup.x (s : IsoSetup K) (pos : Vec K) : K := dot pos s.m
def IsoSetup.y (s : IsoSetup K) (pos : Vec K) : K := dot pos s.n
def IsoSetup.bs (s : IsoSetup K) : K := dot s.b s.ξ
def IsoSetup.be (s : IsoSetup K) : K := dot s.b s.m

def isoStrainLab (pi : K) (s : IsoSetup K) (pos : Vec K) : Mat K :=
  toLab s.m s.n s.ξ (Gen.isoStrain (s.x pos) (s.y pos) s.nu s.be s.bs pi)
def isoStressLab (pi : K) (s : IsoSetup K) (pos : Vec K) : Mat K :=
  toLab s.m s.n s.ξ (Gen.isoStress (s.x pos) (s.y pos) s.nu s.mu s.be s.bs pi)
def isoDisplacement (log : K → K) (pi theta : K) (s : IsoSetup K) (pos : Vec K) : Vec K :=
  let x := s.x pos; let y := s.y pos
  isoDispLab s.m s.n s.ξ (Gen.isoDisp_m log x y s.nu s.be s.bs pi theta)
    (Gen.isoDisp_n log x y s.nu s.be s.bs pi theta) (Gen.isoDisp_ξ log x y s.nu s.be s.bs pi theta)
/-- `K = transᵀ · diag(K_e, K_e, K_s) · trans`, `trans = [m, n, ξ]` -/
def isoKTensor (s : IsoSetup K) : Mat K :=
  let ke := Gen.isoKe s.mu s.nu; let ks := Gen.isoKs s.mu s.nu
  fun a b => ke * s.m a * s.m b + ke * s.n a * s.n b + ks * s.ξ a * s.ξ b

end iso

/-! ### orientation handling, continued: axes_check, crystal → Cartesian, round-off clean-up -/
section orient
variable [Add F] [Sub F] [Mul F] [Div F] [Neg F] [LE F] [DecidableLE F] [LT F] [DecidableLT F]

def absF [Zero F] (v : F) : F := if v < 0 then -v else v

/-- `numpy.allclose(a, b, atol, rtol)` for one entry: `|a - b| ≤ atol + rtol·|b|`. -/
def closeTo [Zero F] (atol rtol a b : F) : Bool := decide (absF (a - b) ≤ atol + rtol * absF b)

/-- `uaxes = (axes.T / norm(axes, axis=1)).T`; `norms` are the three row norms (`numpy.linalg.norm`, a parameter
    with residual `normsᵢ² = Σⱼ axesᵢⱼ²`). -/
def unitAxes (axes : Mat F) (norms : Vec F) : Mat F := fun i j => axes i j / norms i

/-- `axes_check`: `allclose(u uᵀ, 1, atol=tol)` and `allclose(u₀ × u₁, u₂, atol=tol)` (numpy's default
    `rtol = 1e-5` is the parameter `rtol`). -/
def axesOrthOk [Zero F] [One F] (tol rtol : F) (u : Mat F) : Bool :=
  fin3All fun i => fin3All fun j => closeTo tol rtol (dot (u i) (u j)) (kron i j)
where fin3All (p : Fin 3 → Bool) : Bool := p 0 && p 1 && p 2

def axesRightOk [Zero F] (tol rtol : F) (u : Mat F) : Bool :=
  let c := cross (u 0) (u 1)
  closeTo tol rtol (c 0) (u 2 0) && closeTo tol rtol (c 1) (u 2 1) && closeTo tol rtol (c 2) (u 2 2)

/-- `miller.vector_crystal_to_cartesian(u, box)`: `u · vects` (rows of `vects` are the cell vectors). -/
def crystalToCart (vects : Mat F) (u : Vec F) : Vec F := fun c => sum3 fun i => u i * vects i c

/-- `C[abs(C / C.max()) < tol] = 0` of `ElasticConstants.transform` (strict, unlike `chop`). -/
def chopLt [Zero F] (tol big v : F) : F := if absF (v / big) < tol then 0 else v

def listMax (d : F) (l : List F) : F := l.foldl (fun a b => if a < b then b else a) d

/-- all 81 entries of a 4-tensor / 9 of a matrix / 3 of a vector, in numpy `ravel` order. -/
def ten4ToList (C : Ten4 F) : List F :=
  [0, 1, 2].flatMap fun (i : Fin 3) => [0, 1, 2].flatMap fun (j : Fin 3) => [0, 1, 2].flatMap fun (k : Fin 3) =>
    [0, 1, 2].map fun (l : Fin 3) => C i j k l

/-- `ElasticConstants.transform(T)` followed by the `Cijkl` setter: the rotated, cleaned 6x6 array. -/
def orientC [Zero F] (tol : F) (T : Mat F) (c : Fin 6 → Fin 6 → F) : Fin 6 → Fin 6 → F :=
  let C' := rotC T (cijkl c)
  let l := ten4ToList C'
  let big := listMax (l.headD 0) l
  toVoigt fun i j k l => chopLt tol big (C' i j k l)

/-- `burgers = T · (burgers · vects)`, then entries with `|b/max|b|| ≤ tol` zeroed. -/
def orientB [Zero F] (tol : F) (T vects : Mat F) (b : Vec F) : Vec F :=
  let b' := matVec T (crystalToCart vects b)
  let big := listMax (absF (b' 0)) [absF (b' 1), absF (b' 2)]
  fun i => chop tol big (b' i)

/-- `np.abs(b).max()` -/
def maxAbs3 [Zero F] (b : Vec F) : F := listMax (absF (b 0)) [absF (b 1), absF (b 2)]

/-- `IsotropicVolterraDislocation.solve` (repo fix 9765d33): the closed form carries only `b·m` and `b·ξ`, so a
    Burgers vector with `|b·n| > tol · max|bᵢ|` is refused (`ValueError`). -/
def isoInPlaneOk [Zero F] (tol : F) (b n : Vec F) : Bool :=
  !(decide (tol * maxAbs3 b < absF (dot b n)))

end orient

/-! ### the entry point `solve_volterra_dislocation` -/

inductive Solver where
  | stroh
  | iso
deriving Repr, DecidableEq

/-- `IsotropicVolterraDislocation` accepts (does not raise `ValueError`): `isoNormal` is the value of
    `C.is_normal('isotropic', atol=0.0, rtol=1e-4)` (property C11, a parameter here), `inPlane` the in-plane test. -/
def isoAccept (isoNormal inPlane : Bool) : Bool := isoNormal && inPlane

/-- `solve_volterra_dislocation`: `try: return Stroh(...)  except ValueError: return IsotropicVolterraDislocation(...)`.
    `strohOk` = `Stroh.solve` does not raise (`strohAccept` on the eigen-solver's output); `none` = the `ValueError`
    of the isotropic solver propagates. -/
def dispatch (strohOk isoNormal inPlane : Bool) : Option Solver :=
  if strohOk then some .stroh else if isoAccept isoNormal inPlane then some .iso else none

/-! ### acceptance tests of `Stroh.solve` (the four `allclose` self-checks and the real-`K_tensor` test) -/
section accept
variable {K : Type} [Add K] [Sub K] [Mul K] [Div K] [Neg K] [Zero K] [One K] [NatCast K]
  [LE K] [DecidableLE K] [LT K] [DecidableLT K]

def Cx.normSq (z : Cx K) : K := z.re * z.re + z.im * z.im

/-- `|z - w| ≤ atol + rtol·w` for a complex `z` and a real `w ≥ 0`, written without the square root. -/
def closeToReal (atol rtol : K) (z : Cx K) (w : K) : Bool :=
  decide (Cx.normSq (z - ⟨w, 0⟩) ≤ (atol + rtol * w) * (atol + rtol * w))

def all3 (p : Fin 3 → Bool) : Bool := p 0 && p 1 && p 2
def all6 (p : Fin 6 → Bool) : Bool := p 0 && p 1 && p 2 && p 3 && p 4 && p 5

/-- a complex number times / over a real one (numpy: complex array `* Cmax`, `/ Cmax`). -/
def Cx.rmul (r : K) (z : Cx K) : Cx K := ⟨z.re * r, z.im * r⟩
def Cx.rdiv (z : Cx K) (r : K) : Cx K := ⟨z.re / r, z.im / r⟩

/-- `Cmax = np.abs(Cijkl).max()` -/
def maxAbsTen4 (C : Ten4 K) : K := listMax 0 ((ten4ToList C).map absF)

/-- the four assertions of `Stroh.solve` (`np.allclose(..., atol=tol)`, default `rtol` a parameter);
    `sk` is `k**.5` (a parameter with residual `sk² = k`).  `Σ k A⊗A` carries the unit of `1/C` and `Σ k L⊗L` the
    unit of `C`: the code multiplies resp. divides them by `cmax = np.abs(Cijkl).max()` before comparing with the
    unitless `tol` (repo fix: before, stiffnesses above 3e7 or below 3e-8 — e.g. in Pa — were always refused). -/
def strohChecksOk (tol rtol cmax : K) (μ : Fin 6 → Mode (Cx K)) (k sk : Fin 6 → Cx K) : Bool :=
  (all3 fun i => all3 fun j => closeToReal tol rtol (chkAL μ k i j) (kron i j))
  && (all3 fun i => all3 fun j => closeToReal tol rtol (Cx.rmul cmax (chkAA μ k i j)) 0)
  && (all3 fun i => all3 fun j => closeToReal tol rtol (Cx.rdiv (chkLL μ k i j) cmax) 0)
  && (all6 fun s => all6 fun t => closeToReal tol rtol (chkST μ sk s t) (kron6 s t))

/-- `np.real_if_close(K, tol)` returns a real array iff every `|Im| < tol`. -/
def kIsReal (tol : K) (Kt : Mat (Cx K)) : Bool :=
  all3 fun i => all3 fun j => decide (-tol < (Kt i j).im) && decide ((Kt i j).im < tol)

/-- `Stroh.solve` accepts the eigen-solver output (does not raise `ValueError`). -/
def strohAccept (tol rtol cmax : K) (μ : Fin 6 → Mode (Cx K)) (k sk : Fin 6 → Cx K) : Bool :=
  strohChecksOk tol rtol cmax μ k sk && kIsReal tol (kTensor Cx.I μ k)

/-- `K = real_if_close(K); K[isclose(K / K.max(), 0, atol=tol)] = 0` on the real parts. -/
def kClean (tol : K) (Kt : Mat (Cx K)) : Mat K :=
  let l := [0, 1, 2].flatMap fun (i : Fin 3) => [0, 1, 2].map fun (j : Fin 3) => (Kt i j).re
  let big := listMax (l.headD 0) l
  fun i j => chop tol big (Kt i j).re

end accept

/-! ### object-level semantics: what a solved object holds, what the caller may edit, what a method call reads -/
section obj
variable {F : Type}

/-- the caller's argument objects (contents at some moment): the medium (an `ElasticConstants` object), the orientation
    array, the axes and the Burgers vector.  The caller may edit every one of them in place at any time. -/
structure Args (F : Type) where
  C : Ten4 F
  T : Mat F
  m : Vec F
  n : Vec F
  b : Vec F

/-- a solved `Stroh` object: private COPIES of what `solve()` computed from the arguments as they were then (medium and
    Burgers vector rotated into the solver frame, the axes) and of the eigen-solution. -/
structure SObj (F : Type) where
  s : Setup F
  μ : Fin 6 → Mode F
  k : Fin 6 → F

/-- `VolterraDislocation.solve` without the round-off clean-ups: `C.transform(T)`, `T·b`, `m`, `n`. -/
def Args.setup [Add F] [Mul F] (a : Args F) : Setup F := ⟨rotC a.T a.C, a.m, a.n, matVec a.T a.b⟩

/-- the world of one session: the caller's argument objects, ONE coordinate array that is handed to every call, the
    solved object. -/
structure World (F : Type) where
  args : Args F
  pos : List (Vec F)
  obj : SObj F

/-- in-place edits by the caller, between method calls. -/
inductive Edit (F : Type) where
  | argC (C : Ten4 F)
  | argT (T : Mat F)
  | argM (v : Vec F)
  | argN (v : Vec F)
  | argB (v : Vec F)
  | posSet (i : Nat) (x : Vec F)         -- `pos[i] = x`
  | posScale (t : F)                      -- `pos *= t`
  | posShift (d : Vec F)                  -- `pos += d`
  | posCol (j : Fin 3) (h : F)            -- `pos[:, j] += h`
  | posAll (l : List (Vec F))             -- `pos[...] = l` / `np.copyto(pos, l)`

def editPos [Add F] [Mul F] : List (Vec F) → Edit F → List (Vec F)
  | l, .posSet i x => l.set i x
  | l, .posScale t => l.map fun x c => t * x c
  | l, .posShift d => l.map fun x c => x c + d c
  | l, .posCol j h => l.map fun x c => if c = j then x c + h else x c
  | _, .posAll l' => l'
  | l, _ => l

def editArgs : Args F → Edit F → Args F
  | a, .argC C => { a with C := C }
  | a, .argT T => { a with T := T }
  | a, .argM v => { a with m := v }
  | a, .argN v => { a with n := v }
  | a, .argB v => { a with b := v }
  | a, _ => a

/-- an edit changes the caller's objects and NEVER the solved object. -/
def World.edit [Add F] [Mul F] (w : World F) (e : Edit F) : World F :=
  { w with args := editArgs w.args e, pos := editPos w.pos e }

variable [Add F] [Sub F] [Mul F] [Div F] [Neg F] [NatCast F]

/-- `obj.eta(pos)`, `obj.strain(pos)`, `obj.stress(pos)`, `obj.displacement(pos)` (with the values of `np.log(eta)` as
    inputs): functions of the solved object and of the CURRENT contents of the array, returning new values. -/
def World.etas (w : World F) : List (Fin 6 → F) := w.pos.map fun x a => eta w.obj.s (w.obj.μ a) x
def World.strains (pi I : F) (w : World F) : List (Mat F) := w.pos.map (strainAt pi I w.obj.s w.obj.μ w.obj.k)
def World.stresses (pi I : F) (w : World F) : List (Mat F) := w.pos.map (stressAt pi I w.obj.s w.obj.μ w.obj.k)
def World.disps (pi I : F) (w : World F) (logs : List (Fin 6 → F)) : List (Vec F) :=
  logs.map (dispAt pi I w.obj.s w.obj.μ w.obj.k)

end obj

/-! ### API level: signature, option handling and order of `VolterraDislocation.solve` (round 5)

    The generated `Atomman/Generated/StrohSource.lean` re-derives every definition of this section (and the Stroh /
    orientation formulas above) from the CURRENT source with `ast`; `Proofs/C12_Source.lean` proves generated = model. -/

/-- parameters (after `self`) of `VolterraDislocation.__init__` / `.solve`, `Stroh.solve`, `IsotropicVolterraDislocation.solve`
    and `solve_volterra_dislocation`, with their defaults as source text (`""` = no default). -/
def solveSig : List (String × String) :=
  [("C", ""), ("burgers", ""), ("ξ_uvw", "None"), ("slip_hkl", "None"), ("transform", "None"), ("axes", "None"),
   ("box", "None"), ("m", "'x'"), ("n", "'y'"), ("cart_axes", "False"), ("tol", "1e-08")]

/-- how every layer hands the arguments on: `C`, `burgers` by position, every other parameter by keyword under its own
    name (`name=name`). -/
def forwardOf (sig : List (String × String)) : List String × List (String × String) :=
  ((sig.take 2).map Prod.fst, (sig.drop 2).map fun p => (p.1, p.1))

/-- the value bound to the local `transform` of `VolterraDislocation.solve` as it moves through the option handling. -/
inductive TVal (M : Type) where
  | raw (x : M)        -- the caller's array (from `transform=` or `axes=`), not yet checked
  | checked (x : M)    -- after `axes_check` (rows normalised, orthogonality / handedness tested)
  | miller             -- built by `__find_transform(ξ_uvw, slip_hkl, m, n, box)`
  | eye                -- `np.eye(3)`
deriving Repr, DecidableEq

def TVal.check {M : Type} : TVal M → TVal M
  | .raw x => .checked x
  | t => t

/-- option handling of `VolterraDislocation.solve`: `ξ`, `hkl` = "`ξ_uvw` / `slip_hkl` is not None"; Miller indices need
    both and exclude `transform` / `axes`; `axes` is an alias of `transform` (both given: refused); nothing given: the
    identity.  Every refusal is an `AssertionError`. -/
def routeOf {M : Type} (ξ hkl : Bool) (transform axes : Option M) : Except String (TVal M) :=
  match ξ, hkl, transform, axes with
  | true, true, none, none => .ok .miller
  | false, false, none, none => .ok .eye
  | false, false, some t, none => .ok (.checked t)
  | false, false, none, some a => .ok (.checked a)
  | _, _, _, _ => .error "assert"

/-- `axis_value`: the strings `'x' 'y' 'z'` stand for the Cartesian axes (and skip every check). -/
def axisOfStr [NatCast F] (s : String) : Option (Vec F) :=
  let one : F := ((1 : Nat) : F)
  let zero : F := ((0 : Nat) : F)
  if s = "x" then some fun i => if i.val = 0 then one else zero
  else if s = "y" then some fun i => if i.val = 1 then one else zero
  else if s = "z" then some fun i => if i.val = 2 then one else zero
  else none

section base
variable [Add F] [Sub F] [Mul F] [Div F] [Neg F] [Zero F] [One F] [LE F] [DecidableLE F] [LT F] [DecidableLT F]

/-- what `axis_value` asserts for one axis: nothing for a string, unit norm (and Cartesian alignment under `cart_axes`)
    for an array. -/
def axisOk (tol : F) (cart isStr : Bool) (a : Vec F) : Bool :=
  isStr || (unitOk tol a && (!cart || cartAligned tol a))

/-- `axes_check(axes)` as a partial function: the normalised rows, or `ValueError`. -/
def axesCheck (tol rtol : F) (ax : Mat F) (norms : Vec F) : Except String (Mat F) :=
  let u := unitAxes ax norms
  if !(axesOrthOk tol rtol u) then .error "value" else if !(axesRightOk tol rtol u) then .error "value" else .ok u

/-- everything `VolterraDislocation.solve` is handed (numpy's `norm` of rows and the Miller → Cartesian conversions of
    property C16 are parameters). -/
structure BaseIn (F : Type) where
  tol : F                     -- the solver's `tol`
  tolAx : F                   -- default `tol` of `axes_check` and of `ElasticConstants.transform` (both called without one)
  rtol : F                    -- numpy's default `rtol` of `allclose`
  cart : Bool
  mStr : Bool
  nStr : Bool
  m : Vec F
  n : Vec F
  ξ : Bool
  hkl : Bool
  transform : Option (Mat F)
  axes : Option (Mat F)
  norms : Vec F               -- row norms of the array given as `transform=` / `axes=`
  norms2 : Vec F              -- row norms of the final transform (`ElasticConstants.transform` normalises again)
  nAxis : Vec F
  ξAxis : Vec F
  vects : Mat F
  c : Fin 6 → Fin 6 → F
  b : Vec F

structure BaseOut (F : Type) where
  T : Mat F
  c : Fin 6 → Fin 6 → F
  b : Vec F

/-- the orientation matrix the route leads to. -/
def baseTransform (a : BaseIn F) : Except String (Mat F) :=
  match routeOf a.ξ a.hkl a.transform a.axes with
  | .error e => .error e
  | .ok (.checked x) => axesCheck a.tolAx a.rtol x a.norms
  | .ok .miller => .ok (findTransform a.m a.n a.nAxis a.ξAxis)
  | .ok .eye => .ok fun i j => kron i j
  | .ok (.raw _) => .error "unreachable"

/-- `VolterraDislocation.solve` in the order of the source: axis checks (`AssertionError`), option handling
    (`AssertionError`), `axes_check` (`ValueError`), Burgers vector to the solver frame with its clean-up, then
    `C.transform` (which runs `axes_check` once more: `ValueError` for a Miller line outside the Miller plane). -/
def baseSolve (a : BaseIn F) : Except String (BaseOut F) :=
  if !(axisOk a.tol a.cart a.mStr a.m) then .error "assert" else
  if !(axisOk a.tol a.cart a.nStr a.n) then .error "assert" else
  if !(decide (-a.tol ≤ dot a.m a.n) && decide (dot a.m a.n ≤ a.tol)) then .error "assert" else
  match baseTransform a with
  | .error e => .error e
  | .ok T =>
    match axesCheck a.tolAx a.rtol T a.norms2 with
    | .error e => .error e
    | .ok T2 => .ok ⟨T, orientC a.tolAx T2 a.c, orientB a.tol T a.vects a.b⟩

end base

/-! ### helpers for the driver -/

def vecOfList [Zero F] (l : List F) : Vec F := fun i => l.getD i.val 0
def matOfList [Zero F] (l : List F) : Mat F := fun i j => l.getD (3 * i.val + j.val) 0
def mat6OfList [Zero F] (l : List F) : Fin 6 → Fin 6 → F := fun i j => l.getD (6 * i.val + j.val) 0
def fin3 : List (Fin 3) := [0, 1, 2]
def fin6 : List (Fin 6) := [0, 1, 2, 3, 4, 5]
def vecToList (v : Vec F) : List F := fin3.map v
def matToList (M : Mat F) : List F := fin3.flatMap fun i => fin3.map fun j => M i j
/-- exact adjugate inverse of a 3x3 matrix (driver stand-in for `np.linalg.inv`; meaningful for `det ≠ 0`). -/
def det3 [Add F] [Sub F] [Mul F] (M : Mat F) : F := dot (M 0) (cross (M 1) (M 2))
def inv3 [Add F] [Sub F] [Mul F] [Div F] (M : Mat F) : Mat F :=
  let d := det3 M
  fun i j => (cross (M (j + 1)) (M (j + 2))) i / d

end Atomman.C12
