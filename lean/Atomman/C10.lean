/-
  C10 — model of atomman's JSON/XML data-model writers and readers (core Lean only).

  Sources: atomman/unitconvert.py (`model`, `value_unit`, `get_in_units`, `set_in_units`),
  atomman/core/Box.py (`Box.model`, `vects` setter), atomman/core/Atoms.py (`Atoms.model`,
  `Atoms.__init__(model=…)`, `PropertyDict.__setitem__`), atomman/core/System.py (`System.model`,
  `System.__init__(model=…)`, `symbols`/`masses` setters), atomman/core/ElasticConstants.py
  (`model`, `Cij` setter), DataModelDict (`append`, `aslist`, XML list collapse).

  A working-unit configuration is a function `fac : String → K` giving, for a unit string, the factor
  `uc.parse(unit)` under that configuration (the unit-expression parser itself is property C09).
-/
import Atomman.Prelude
import Atomman.Box

namespace Atomman.C10

/-! ### the data-model tree -/

/-- a JSON/XML scalar. -/
inductive Sc (K : Type) where
  | flt (x : K)
  | int (i : Int)
  | str (s : String)
  | bool (b : Bool)
  | null
deriving Repr

/-- `DataModelDict`: an ordered key → value tree; values are scalars, lists or sub-trees. -/
inductive DM (K : Type) where
  | leaf (v : Sc K)
  | list (l : List (DM K))
  | node (kv : List (String × DM K))

variable {K : Type}

namespace DM

/-- `term[key]` on a dictionary (absent key / not a dictionary: `none`, i.e. `KeyError`). -/
def get? : DM K → String → Option (DM K)
  | node kv, k => kv.lookup k
  | _, _ => none

/-- `DataModelDict.aslist(key)`. -/
def aslist (t : DM K) (k : String) : List (DM K) :=
  match t.get? k with
  | none => []
  | some (list l) => l
  | some x => [x]

/-- the keys of a dictionary, in order (`list(term.keys())`; not a dictionary: none). -/
def keys : DM K → List String
  | node kv => kv.map Prod.fst
  | _ => []

/-- a string-valued entry. -/
def getStr? (t : DM K) (k : String) : Option String :=
  match t.get? k with
  | some (leaf (.str s)) => some s
  | _ => none

end DM

/-- `[f x for x in l]` where `f` may raise. -/
def mapOpt {α β : Type} (f : α → Option β) : List α → Option (List β)
  | [] => some []
  | a :: l =>
    match f a, mapOpt f l with
    | some b, some bs => some (b :: bs)
    | _, _ => none

/-- the effect of `d.append(key, v)` for each `v` in turn on a dictionary that has no `key` yet:
    nothing, a single value, or a list. -/
def appendAll (k : String) : List (DM K) → List (String × DM K)
  | [] => []
  | [v] => [(k, v)]
  | v :: w :: vs => [(k, DM.list (v :: w :: vs))]

/-! ### the XML text codec collapses one-element lists (`<k>v</k>` is not a list) -/

mutual
  def xmlNorm : DM K → DM K
    | .leaf v => .leaf v
    | .list l => match xmlNormL l with
      | [x] => x
      | l' => .list l'
    | .node kv => .node (xmlNormKV kv)
  def xmlNormL : List (DM K) → List (DM K)
    | [] => []
    | x :: xs => xmlNorm x :: xmlNormL xs
  def xmlNormKV : List (String × DM K) → List (String × DM K)
    | [] => []
    | (k, v) :: r => (k, xmlNorm v) :: xmlNormKV r
end

/-! ### arrays: shape and row-major buffer of one dtype class -/

/-- the buffer of a numpy array, by dtype class. -/
inductive Data (K : Type) where
  | flt (l : List K)
  | int (l : List Int)
  | str (l : List String)
deriving Repr

structure Arr (K : Type) where
  shape : List Nat
  data : Data K
deriving Repr

def prodNat (s : List Nat) : Nat := s.foldr (· * ·) 1

namespace Data

def length : Data K → Nat
  | flt l => l.length
  | int l => l.length
  | str l => l.length

/-- `.tolist()` of the flat buffer. -/
def toScs : Data K → List (Sc K)
  | flt l => l.map Sc.flt
  | int l => l.map Sc.int
  | str l => l.map Sc.str

/-- `np.asarray(value) / f` (true division: integers become floats; strings raise). -/
def divBy [Div K] [IntCast K] (f : K) : Data K → Option (Data K)
  | flt l => some (flt (l.map (· / f)))
  | int l => some (flt (l.map (fun (i : Int) => (i : K) / f)))
  | str _ => none

/-- `np.asarray(value) * f` for a float factor. -/
def mulBy [Mul K] [IntCast K] (f : K) : Data K → Option (Data K)
  | flt l => some (flt (l.map (· * f)))
  | int l => some (flt (l.map (fun (i : Int) => (i : K) * f)))
  | str _ => none

/-- `np.asarray(value) * 1` for the *integer* 1 that `parse('scaled')` returns: dtype kept. -/
def mulOne : Data K → Option (Data K)
  | str _ => none
  | d => some d

/-- integers seen as floats (`np.asarray(value, dtype=float)`). -/
def toFlt [IntCast K] : Data K → Option (List K)
  | flt l => some l
  | int l => some (l.map (fun (i : Int) => (i : K)))
  | str _ => none

/-- `n` copies of the buffer (numpy broadcast along a new/unit leading axis). -/
def rep (n : Nat) : Data K → Data K
  | flt l => flt (List.replicate n l).flatten
  | int l => int (List.replicate n l).flatten
  | str l => str (List.replicate n l).flatten

end Data

namespace Sc
def int? : Sc K → Option Int
  | int i => some i
  | _ => none
def num? [IntCast K] : Sc K → Option K
  | flt x => some x
  | int i => some (i : K)
  | _ => none
def str? : Sc K → Option String
  | str s => some s
  | _ => none
end Sc

/-- `np.asarray(list of scalars)`: all ints → int array; ints and floats → float array;
    all strings → string array; `[]` → empty float array; anything else is refused. -/
def Data.ofScs [IntCast K] (l : List (Sc K)) : Option (Data K) :=
  match l with
  | [] => some (.flt [])
  | _ =>
    match mapOpt Sc.int? l with
    | some is => some (.int is)
    | none =>
      match mapOpt Sc.num? l with
      | some xs => some (.flt xs)
      | none => (mapOpt Sc.str? l).map .str

def leaves? : List (DM K) → Option (List (Sc K))
  | [] => some []
  | .leaf v :: r => (leaves? r).map (v :: ·)
  | _ :: _ => none

def natList? : List (Sc K) → Option (List Nat)
  | [] => some []
  | .int i :: r => if 0 ≤ i then (natList? r).map (i.toNat :: ·) else none
  | _ :: _ => none

/-! ### nested arrays (`ndarray.tolist()`), flatten / reshape row-major -/

inductive Nest (α : Type) where
  | val (a : α)
  | arr (l : List (Nest α))

/-- `n` consecutive chunks of length `k`. -/
def chunks {α : Type} (k : Nat) : Nat → List α → List (List α)
  | 0, _ => []
  | n + 1, l => l.take k :: chunks k n (l.drop k)

/-- `t` is a nested array of shape `s`. -/
def Nest.HasShape {α : Type} : List Nat → Nest α → Prop
  | [], .val _ => True
  | [], .arr _ => False
  | _ :: _, .val _ => False
  | n :: s, .arr l => l.length = n ∧ ∀ x ∈ l, Nest.HasShape s x

/-- `ndarray.flatten()` (row-major) of a nested array of shape `s`. -/
def Nest.flatten {α : Type} : List Nat → Nest α → List α
  | [], .val a => [a]
  | [], .arr _ => []
  | _ :: _, .val _ => []
  | _ :: s, .arr l => (l.map (Nest.flatten s)).flatten

/-- `ndarray.reshape(s)` of a flat buffer, as a nested array. -/
def unflatten {α : Type} : List Nat → List α → Nest α
  | [], [] => .arr []
  | [], x :: _ => .val x
  | n :: s, d => .arr ((chunks (prodNat s) n d).map (unflatten s))

/-! ### `uc.model` and `uc.value_unit` -/

/-- `uc.parse(units)` for a unit *string*: `'scaled'` is 1, anything else is looked up. -/
def factor [One K] (fac : String → K) (u : String) : K :=
  if u = "scaled" then 1 else fac u

def unitEntry (units : Option String) : List (String × DM K) :=
  match units with
  | none => []
  | some u => [("unit", .leaf (.str u))]

/-- the `value` entry: a scalar for rank 0, the flat list otherwise. -/
def valueNode (sh : List Nat) (scs : List (Sc K)) : Option (DM K) :=
  match sh with
  | [] =>
    match scs with
    | [x] => some (.leaf x)
    | _ => none
  | _ :: _ => some (.list (scs.map .leaf))

/-- the `shape` entry, written for rank ≥ 2 only. -/
def shapeEntry (sh : List Nat) : List (String × DM K) :=
  match sh with
  | [] => []
  | [_] => []
  | n :: m :: r => [("shape", .list (((n :: m :: r).map (fun (k : Nat) => (Sc.int (Int.ofNat k) : Sc K))).map .leaf))]

/-- `get_in_units(value, units)` when `units` is given. -/
def writeData [Div K] [One K] [IntCast K] (fac : String → K) (units : Option String) (d : Data K) :
    Option (Data K) :=
  match units with
  | none => some d
  | some u => d.divBy (factor fac u)

/-- `uc.model(value, units)`; `none` is a raised exception. -/
def ucModel [Div K] [One K] [IntCast K] (fac : String → K) (units : Option String) (a : Arr K) :
    Option (DM K) :=
  match writeData fac units a.data with
  | none => none
  | some d =>
    match valueNode a.shape d.toScs with
    | none => none
    | some v => some (.node (("value", v) :: (shapeEntry a.shape ++ unitEntry units)))

/-- the `unit` entry of a term: `term.get('unit', None)`. -/
def unitOf? (t : DM K) : Option (Option String) :=
  match t.get? "unit" with
  | none => some none
  | some (.leaf .null) => some none
  | some (.leaf (.str u)) => some (some u)
  | some _ => none

/-- `set_in_units(value, unit)` / `np.asarray(value)` on the parsed buffer. -/
def applyUnit [Mul K] [One K] [IntCast K] (fac : String → K) (unit : Option String) (d : Data K) :
    Option (Data K) :=
  match unit with
  | none => some d
  | some u => if u = "scaled" then d.mulOne else d.mulBy (fac u)

/-- `uc.value_unit(term)`. -/
def valueUnit [Mul K] [One K] [IntCast K] (fac : String → K) (t : DM K) : Option (Arr K) :=
  match t.get? "value", unitOf? t with
  | some v, some unit =>
    let parsed : Option (List Nat × Data K) := match v with
      | .leaf s => (Data.ofScs [s]).map (fun d => ([], d))
      | .list l => match leaves? l with
        | some scs => (Data.ofScs scs).map (fun d => ([scs.length], d))
        | none => none
      | .node _ => none
    match parsed with
    | none => none
    | some (sh0, d0) =>
      match applyUnit fac unit d0 with
      | none => none
      | some d =>
        match t.get? "shape" with
        | none => some ⟨sh0, d⟩
        | some (.list shl) =>
          match (leaves? shl).bind natList? with
          | some sh => if prodNat sh = d.length then some ⟨sh, d⟩ else none
          | none => none
        | some (.leaf (.int i)) =>            -- XML collapse of a one-element shape list
          if 0 ≤ i ∧ i.toNat = d.length then some ⟨[i.toNat], d⟩ else none
        | some _ => none
  | _, _ => none

/-- `uc.model(value, units, error=e)` for a float error array of the same shape: the error is converted like the
    value and stored under `error`, between `value` and `shape`. -/
def ucModelE [Div K] [One K] [IntCast K] (fac : String → K) (units : Option String) (a : Arr K) (e : List K) :
    Option (DM K) :=
  match writeData fac units a.data, writeData fac units (.flt e) with
  | some d, some de =>
    match valueNode a.shape d.toScs, valueNode a.shape de.toScs with
    | some v, some ve => some (.node (("value", v) :: ("error", ve) :: (shapeEntry a.shape ++ unitEntry units)))
    | _, _ => none
  | _, _ => none

/-- the term `uc.error_unit` works on: `term['error']` in the place of `term['value']` (`KeyError` when absent),
    with the same `unit` and `shape` entries. -/
def errTerm : DM K → Option (DM K)
  | .node kv =>
    match kv.lookup "error" with
    | some ve => some (.node (("value", ve) :: kv.filter (fun e => e.1 != "value" && e.1 != "error")))
    | none => none
  | _ => none

/-- `uc.error_unit(term)`. -/
def errorUnit [Mul K] [One K] [IntCast K] (fac : String → K) (t : DM K) : Option (Arr K) :=
  (errTerm t).bind (valueUnit fac)

/-! ### near-zero clean-up shared by `Box.vects` and `ElasticConstants.Cij` setters -/

def absK [Neg K] [OfNat K 0] [LT K] [DecidableLT K] (x : K) : K := if x < 0 then -x else x
def maxK [LT K] [DecidableLT K] (a b : K) : K := if a < b then b else a

/-- `value[np.isclose(value / m, 0.0, atol=eps)] = 0.0`. -/
def zeroSmall [Neg K] [Div K] [OfNat K 0] [LT K] [DecidableLT K] (eps m : K) (l : List K) : List K :=
  l.map (fun v => if eps < absK (v / m) then v else 0)

/-- the `atol` of the near-zero clean-up of the `Box.vects` and `ElasticConstants.Cij` setters and of the symmetry
    test of the latter (`np.isclose(…, atol=1e-9)`; tied to the source by `Generated/ModelSource.lean`). -/
def setterAtol : Rat := mkRat 1 1000000000

/-! ### Box -/

def vecArr (v : V3 K) : Arr K := ⟨[3], .flt v.toList⟩

def arrV3? [IntCast K] (a : Arr K) : Option (V3 K) :=
  match a.shape, a.data.toFlt with
  | [3], some [x, y, z] => some ⟨x, y, z⟩
  | _, _ => none

/-- `Box.model(length_unit=u)`. -/
def boxModel [Div K] [One K] [IntCast K] (fac : String → K) (u : Option String) (b : Box K) :
    Option (DM K) :=
  match ucModel fac u (vecArr b.vects.r0), ucModel fac u (vecArr b.vects.r1),
        ucModel fac u (vecArr b.vects.r2), ucModel fac u (vecArr b.origin) with
  | some a, some b', some c, some o =>
    some (.node [("box", .node [("avect", a), ("bvect", b'), ("cvect", c), ("origin", o)])])
  | _, _, _, _ => none

/-- `Box.vects` setter: entries with `|v / max|v|| ≤ eps` are set to 0. -/
def cleanVects [Neg K] [Div K] [OfNat K 0] [LT K] [DecidableLT K] (eps : K) (m : M3 K) : M3 K :=
  let l := m.toList
  let mx := (l.map absK).foldl maxK 0
  match M3.ofList? (zeroSmall eps mx l) with
  | some m' => m'
  | none => m

/-- `Box.model(model=t)`: `find('box')`, four `value_unit`s, `set(avect, bvect, cvect, origin)`. -/
def boxRead [Mul K] [Div K] [Neg K] [One K] [OfNat K 0] [IntCast K] [LT K] [DecidableLT K]
    (fac : String → K) (eps : K) (t : DM K) : Option (Box K) :=
  match t.get? "box" with
  | none => none
  | some m =>
    let rd (k : String) : Option (V3 K) :=
      match m.get? k with
      | none => none
      | some x => (valueUnit fac x).bind arrV3?
    match rd "avect", rd "bvect", rd "cvect", rd "origin" with
    | some a, some b, some c, some o => some ⟨cleanVects eps ⟨a, b, c⟩, o⟩
    | _, _, _, _ => none

/-! ### Atoms -/

/-- per-atom properties in dictionary order; every array has leading dimension `natoms`. -/
structure AtomsM (K : Type) where
  natoms : Nat
  props : List (String × Arr K)
deriving Repr

/-- `Atoms.model`: `pos` without a unit is written in angstrom. -/
def effUnit (p : String) (u : Option String) : Option String :=
  if p = "pos" then (match u with | none => some "angstrom" | some v => some v) else u

def propModel [Div K] [One K] [IntCast K] (fac : String → K) (a : AtomsM K)
    (pu : String × Option String) : Option (DM K) :=
  match a.props.lookup pu.1 with
  | none => none
  | some arr =>
    match ucModel fac (effUnit pu.1 pu.2) arr with
    | none => none
    | some d => some (.node [("name", .leaf (.str pu.1)), ("data", d)])

/-- `Atoms.model(prop_unit=pu)` (`pu` is a dict: its keys are distinct). -/
def atomsModel [Div K] [One K] [IntCast K] (fac : String → K) (pu : List (String × Option String))
    (a : AtomsM K) : Option (DM K) :=
  match mapOpt (propModel fac a) pu with
  | none => none
  | some ps =>
    some (.node [("atoms", .node (("natoms", .leaf (.int a.natoms)) :: appendAll "property" ps))])

/-- `OrderedDict.__setitem__`: overwrite in place or append. -/
def dictSet {α : Type} (d : List (String × α)) (k : String) (v : α) : List (String × α) :=
  if d.any (fun e => e.1 == k) then d.map (fun e => if e.1 == k then (k, v) else e) else d ++ [(k, v)]

/-- the property names of an `Atoms` object in its own order (`self.prop()`). -/
def AtomsM.names (a : AtomsM K) : List String := a.props.map Prod.fst

/-- The argument handling at the top of `Atoms.model(prop_name, unit, prop_unit)` (shared by `System.model` and
    `dump('system_model')`, which hand their arguments through): the `prop_unit` dictionary the rest of the method
    works with.  `own` = the object's property names in its own order.  `none` = the documented `ValueError`
    (`prop_unit` together with `prop_name` / `unit`; lists of different lengths).  Without `prop_unit` the
    dictionary is filled from `zip(prop_name, unit)` (a repeated name keeps its first position and its last unit),
    `prop_name` defaults to the object's own names, `unit` to `None` for every name. -/
def resolveCall (own : List String) (propName : Option (List String)) (unit : Option (List (Option String)))
    (propUnit : Option (List (String × Option String))) : Option (List (String × Option String)) :=
  match propUnit with
  | some pu =>
    match propName, unit with
    | none, none => some pu
    | _, _ => none
  | none =>
    let names := propName.getD own
    let units := unit.getD (names.map (fun _ => none))
    if units.length = names.length then some ((names.zip units).foldl (fun d e => dictSet d e.1 e.2) []) else none

/-- `Atoms.model(prop_name=…, unit=…, prop_unit=…)` in whichever form the arguments are given. -/
def atomsModelCall [Div K] [One K] [IntCast K] (fac : String → K) (propName : Option (List String))
    (unit : Option (List (Option String))) (propUnit : Option (List (String × Option String))) (a : AtomsM K) :
    Option (DM K) :=
  (resolveCall a.names propName unit propUnit).bind (fun pu => atomsModel fac pu a)

/-- `PropertyDict.__setitem__` broadcast rule for a new key. -/
def bcast (natoms : Nat) (a : Arr K) : Option (Arr K) :=
  match a.shape with
  | [] => some ⟨[natoms], a.data.rep natoms⟩
  | n :: t =>
    if n = 1 then some ⟨natoms :: t, a.data.rep natoms⟩
    else if n = natoms then some a else none

def propRead [Mul K] [One K] [IntCast K] (fac : String → K) (pm : DM K) : Option (String × Arr K) :=
  match pm.getStr? "name", pm.get? "data" with
  | some name, some d => (valueUnit fac d).map (fun a => (name, a))
  | _, _ => none

def Data.minInt? : Data K → Option Int
  | .int (i :: l) => some (l.foldl min i)
  | _ => none

def Data.maxInt? : Data K → Option Int
  | .int (i :: l) => some (l.foldl max i)
  | _ => none

/-- `Atoms.__init__(natoms=n, prop=props)`: `atype` and `pos` first, broadcasting, `atype ≥ 1`.
    (`atype` of an integer dtype is required here; numpy would accept floats too.) -/
def atomsOfProps [OfNat K 0] (natoms : Nat) (props : List (String × Arr K)) : Option (AtomsM K) :=
  let atype : Arr K := (props.lookup "atype").getD ⟨[1], .int [1]⟩
  let pos : Arr K := (props.lookup "pos").getD ⟨[1, 3], .flt [0, 0, 0]⟩
  let rest := props.filter (fun e => e.1 != "atype" && e.1 != "pos")
  let nA? : Option Nat := match atype.shape with
    | [] => some 1
    | [n] => some n
    | _ => none
  let nP? : Option Nat := match pos.shape with
    | [3] => some 1
    | [n, 3] => some n
    | _ => none
  match nA?, nP? with
  | some nA, some nP =>
    if (nA = 1 ∨ nA = natoms) ∧ (nP = 1 ∨ nP = natoms) then
      match bcast natoms atype, bcast natoms pos, mapOpt (fun e => (bcast natoms e.2).map (fun a => (e.1, a))) rest with
      | some at', some pos', some rest' =>
        match at'.data.minInt? with
        | some mn => if mn < 1 then none else some ⟨natoms, ("atype", at') :: ("pos", pos') :: rest'⟩
        | none => none
      | _, _, _ => none
    else none
  | _, _ => none

/-- `Atoms(model=t)`. -/
def atomsRead [Mul K] [One K] [OfNat K 0] [IntCast K] (fac : String → K) (t : DM K) : Option (AtomsM K) :=
  match t.get? "atoms" with
  | none => none
  | some m =>
    match m.get? "natoms" with
    | some (.leaf (.int n)) =>
      if n < 0 then none else
      match mapOpt (propRead fac) (m.aslist "property") with
      | none => none
      | some ps => atomsOfProps n.toNat (ps.foldl (fun d e => dictSet d e.1 e.2) [])
    | _ => none

/-- `Atoms.natypes`. -/
def AtomsM.natypes (a : AtomsM K) : Option Nat :=
  match a.props.lookup "atype" with
  | some arr => arr.data.maxInt?.map Int.toNat
  | none => none

/-! ### System -/

structure SystemM (K : Type) where
  box : Box K
  pbc : List Bool
  symbols : List (Option String)
  masses : List (Option K)
  atoms : AtomsM K

/-- apply `f` to consecutive triples (`(..., 3)` arrays). -/
def mapRows3 (f : V3 K → V3 K) : List K → Option (List K)
  | [] => some []
  | x :: y :: z :: r => (mapRows3 f r).map ((f ⟨x, y, z⟩).toList ++ ·)
  | _ => none

/-- `box.position_cartesian_to_relative(arr)` / `position_relative_to_cartesian(arr)` on an array. -/
def mapPositions [IntCast K] (f : V3 K → V3 K) (a : Arr K) : Option (Arr K) :=
  match a.shape.getLast?, a.data.toFlt with
  | some 3, some l => (mapRows3 f l).map (fun l' => ⟨a.shape, .flt l'⟩)
  | _, _ => none

/-- one property of `System.model`: `Atoms.model`'s entry, re-written in box-relative
    coordinates when its unit is `'scaled'`. -/
def sysPropModel [Add K] [Sub K] [Mul K] [Div K] [One K] [IntCast K]
    (fac : String → K) (s : SystemM K) (pu : String × Option String) : Option (DM K) :=
  match propModel fac s.atoms pu with
  | none => none
  | some pm =>
    if effUnit pu.1 pu.2 = some "scaled" then
      match pm.get? "data" with
      | none => none
      | some d =>
        match (valueUnit fac d).bind (mapPositions s.box.cartToRel) with
        | none => none
        | some rel =>
          match ucModel fac (some "scaled") rel with
          | none => none
          | some d' => some (.node [("name", .leaf (.str pu.1)), ("data", d')])
    else some pm

def symLeaf : Option String → DM K
  | none => .leaf .null
  | some s => .leaf (.str s)

def massLeaf : Option K → DM K
  | none => .leaf .null
  | some m => .leaf (.flt m)

/-- `System.model(box_unit, prop_unit=pu)`. -/
def systemModel [Add K] [Sub K] [Mul K] [Div K] [One K] [IntCast K]
    (fac : String → K) (boxUnit : Option String) (pu : List (String × Option String))
    (s : SystemM K) : Option (DM K) :=
  match boxModel fac boxUnit s.box, mapOpt (sysPropModel fac s) pu with
  | some (.node [("box", bm)]), some ps =>
    let masses := if s.masses.any Option.isSome then s.masses.map massLeaf else []
    some (.node [("atomic-system", .node (
      [("box", bm), ("periodic-boundary-condition", .list (s.pbc.map (fun b => .leaf (.bool b))))]
      ++ appendAll "atom-type-symbol" (s.symbols.map symLeaf)
      ++ appendAll "atom-type-mass" masses
      ++ [("atoms", .node (("natoms", .leaf (.int s.atoms.natoms)) :: appendAll "property" ps))]))])
  | _, _ => none

/-- `System.model(box_unit, prop_name=…, unit=…, prop_unit=…)` in whichever form the arguments are given (they are
    handed to `Atoms.model` as they are). -/
def systemModelCall [Add K] [Sub K] [Mul K] [Div K] [One K] [IntCast K]
    (fac : String → K) (boxUnit : Option String) (propName : Option (List String))
    (unit : Option (List (Option String))) (propUnit : Option (List (String × Option String))) (s : SystemM K) :
    Option (DM K) :=
  (resolveCall s.atoms.names propName unit propUnit).bind (fun pu => systemModel fac boxUnit pu s)

/-- what the text encoding does to a tree on its way from the writer to the reader: no text (`tree`) and JSON text are
    the identity, XML text collapses one-element lists (`xmlNorm`); any other format name is refused. -/
def encode (via : String) (t : DM K) : Option (DM K) :=
  if via = "tree" ∨ via = "json" then some t else if via = "xml" then some (xmlNorm t) else none

/-- where `dump('system_model', system, f=…)` puts its result: nowhere (`f is None`: the value is returned), into an
    object with a `write` method, or into the file at a path whose extension `os.path.splitext(f)[1][1:]` is `ext`. -/
inductive DumpTarget where
  | returned
  | handle
  | path (ext : String)

/-- the `format` variable of `dump` after its defaulting: the argument when given; otherwise nothing when the value is
    returned, `'json'` for a handle (`os.path.splitext` raises on it), the extension for a path. -/
def dumpFormatName (format : Option String) (tgt : DumpTarget) : Option String :=
  match format, tgt with
  | some f, _ => some f
  | none, .returned => none
  | none, .handle => some "json"
  | none, .path ext => some ext

/-- what `dump` produces: `some "tree"` = the DataModelDict itself, `some "json"` / `some "xml"` = text of that kind
    (returned or written), `none` = NOTHING (the `if / elif` chain on `format.lower()` has no `else`: `None` is
    returned, a file is left empty).  The comparison is case-insensitive. -/
def dumpEncoding (format : Option String) (tgt : DumpTarget) : Option String :=
  match dumpFormatName format tgt with
  | none => some "tree"
  | some f => if f.toLower = "xml" then some "xml" else if f.toLower = "json" then some "json" else none

/-- pad with `None` up to length `n`. -/
def fillNone {α : Type} (l : List (Option α)) (n : Nat) : List (Option α) :=
  l ++ List.replicate (n - l.length) none

def pbcOf? : DM K → Option Bool
  | .leaf (.bool b) => some b
  | .leaf (.int i) => some (i != 0)
  | _ => none

def symOf? : DM K → Option (Option String)
  | .leaf (.str s) => some (some s)
  | .leaf .null => some none
  | _ => none

def massOf? [IntCast K] : DM K → Option (Option K)
  | .leaf (.flt x) => some (some x)
  | .leaf (.int i) => some (some (i : K))
  | .leaf .null => some none
  | _ => none

/-- the names of the properties stored with unit `'scaled'`. -/
def scaledNames (m : DM K) : List String :=
  (m.aslist "property").filterMap (fun pm =>
    match pm.getStr? "name", pm.get? "data" with
    | some name, some d => if d.getStr? "unit" = some "scaled" then some name else none
    | _, _ => none)

/-- `System(model=t)`. -/
def systemRead [Add K] [Sub K] [Mul K] [Div K] [Neg K] [One K] [OfNat K 0] [IntCast K] [LT K] [DecidableLT K]
    (fac : String → K) (eps : K) (t : DM K) : Option (SystemM K) :=
  match t.get? "atomic-system" with
  | none => none
  | some m =>
    match boxRead fac eps m, atomsRead fac m, m.get? "periodic-boundary-condition", m.get? "atoms" with
    | some box, some atoms, some (.list pl), some am =>
      match mapOpt pbcOf? pl, mapOpt symOf? (m.aslist "atom-type-symbol"),
            mapOpt massOf? (m.aslist "atom-type-mass"), atoms.natypes with
      | some pbc, some syms, some masses, some nat =>
        if pbc.length ≠ 3 then none else
        let syms' := fillNone syms nat
        let natS := if nat < syms'.length then syms'.length else nat
        if natS < masses.length then none else
        let masses' := fillNone masses natS
        let sc := scaledNames am
        match mapOpt (fun e =>
            if sc.contains e.1 then (mapPositions box.relToCart e.2).map (fun a => (e.1, a)) else some e) atoms.props with
        | some props' => some ⟨box, pbc, syms', masses', ⟨atoms.natoms, props'⟩⟩
        | none => none
      | _, _, _, _ => none
    | _, _, _, _ => none

/-! ### `DataModelDict.finds` / `find` and `load('system_model', model, key=, index=)` -/

mutual
  /-- `DataModelDict.finds(key)` (`__gen_dict_value`): every value stored under `key` at any depth, in document order —
      for each entry of a dictionary first its own value when the key matches (a list value contributes its elements),
      then whatever is found inside the value (inside each element of a list value); a list inside a list is not
      searched. -/
  def DM.finds (key : String) : DM K → List (DM K)
    | .node kv => findsKV key kv
    | _ => []
  def findsKV (key : String) : List (String × DM K) → List (DM K)
    | [] => []
    | (k, v) :: r =>
      (if k = key then (match v with | .list l => l | x => [x]) else [])
        ++ (match v with
            | .node kv' => findsKV key kv'
            | .list l => findsL key l
            | .leaf _ => [])
        ++ findsKV key r
  def findsL (key : String) : List (DM K) → List (DM K)
    | [] => []
    | .node kv :: r => findsKV key kv ++ findsL key r
    | _ :: r => findsL key r
end

/-- `DataModelDict.find(key)`: the one value found; none or several are a `ValueError`. -/
def DM.find? (t : DM K) (key : String) : Option (DM K) :=
  match t.finds key with
  | [x] => some x
  | _ => none

/-- `l[i]` of python: negative indices count from the end, anything outside raises. -/
def pyIndex {α : Type} (l : List α) (i : Int) : Option α :=
  if 0 ≤ i then l[i.toNat]?
  else if (-i).toNat ≤ l.length then l[l.length - (-i).toNat]? else none

/-- `load('system_model', model, key=key, index=index)` for an entry with a `box` (the crystal-prototype `cell`
    branch is outside the model): all values under `key` at any depth, the `index`-th of them (python indexing), read as
    `System(model=DM([('atomic-system', entry)]))`. -/
def loadSystem [Add K] [Sub K] [Mul K] [Div K] [Neg K] [One K] [OfNat K 0] [IntCast K] [LT K] [DecidableLT K]
    (fac : String → K) (eps : K) (key : String) (index : Int) (t : DM K) : Option (SystemM K) :=
  match pyIndex (t.finds key) index with
  | some (.node kv) =>
    if kv.any (fun e => e.1 == "box") then systemRead fac eps (.node [("atomic-system", .node kv)]) else none
  | _ => none

/-- the API level: `system.dump('system_model', format=via, box_unit=…, prop_name=…, unit=…, prop_unit=…)` under the
    writing configuration `facW`, then `load('system_model', text)` / `System(model=text)` under the reading
    configuration `facR`.  `none` = some step raises. -/
def systemDumpLoad [Add K] [Sub K] [Mul K] [Div K] [Neg K] [One K] [OfNat K 0] [IntCast K] [LT K] [DecidableLT K]
    (facW facR : String → K) (eps : K) (via : String) (boxUnit : Option String) (propName : Option (List String))
    (unit : Option (List (Option String))) (propUnit : Option (List (String × Option String))) (s : SystemM K) :
    Option (SystemM K) :=
  ((systemModelCall facW boxUnit propName unit propUnit s).bind (encode via)).bind (systemRead facR eps)

/-- the same for `Atoms.model(…)` → text → `Atoms(model=text)`. -/
def atomsDumpLoad [Mul K] [Div K] [One K] [OfNat K 0] [IntCast K]
    (facW facR : String → K) (via : String) (propName : Option (List String))
    (unit : Option (List (Option String))) (propUnit : Option (List (String × Option String))) (a : AtomsM K) :
    Option (AtomsM K) :=
  ((atomsModelCall facW propName unit propUnit a).bind (encode via)).bind (atomsRead facR)

/-! ### ElasticConstants -/

/-- `ElasticConstants.Cij` setter on the 36 row-major entries: positive maximum, near-zero
    entries zeroed, symmetry within `|a - b| ≤ atol + rtol |b|`. -/
def cijSet [Add K] [Sub K] [Mul K] [Div K] [Neg K] [OfNat K 0] [LT K] [DecidableLT K]
    (eps atol rtol : K) (l : List K) : Option (List K) :=
  match l with
  | [] => none
  | x :: r =>
    if l.length ≠ 36 then none else
    let mx := r.foldl maxK x
    if ¬ (0 < mx) then none else
    let c := zeroSmall eps mx l
    let ok := (List.range 6).all (fun i => (List.range i).all (fun j =>
      let a := c.getD (6 * i + j) 0
      let b := c.getD (6 * j + i) 0
      ¬ (atol + rtol * absK b < absK (a - b))))
    if ok then some c else none

/-- `ElasticConstants.model(unit=u, crystal_system=…)`; `norm` is `normalized_as(crystal_system).Cij`. -/
def ecModel [Div K] [One K] [IntCast K] (fac : String → K) (u : Option String)
    (norm : List K → List K) (c : List K) : Option (DM K) :=
  match ucModel fac u ⟨[6, 6], .flt (norm c)⟩ with
  | none => none
  | some m => some (.node [("elastic-constants", .node [("Cij", m)])])

/-- `ElasticConstants(model=t)` (new `Cij` format). -/
def ecRead [Add K] [Sub K] [Mul K] [Div K] [Neg K] [One K] [OfNat K 0] [IntCast K] [LT K] [DecidableLT K]
    (fac : String → K) (eps atol rtol : K) (t : DM K) : Option (List K) :=
  match t.get? "elastic-constants" with
  | none => none
  | some m =>
    match m.get? "Cij" with
    | none => none
    | some cm =>
      match valueUnit fac cm with
      | some ⟨[6, 6], d⟩ => d.toFlt.bind (cijSet eps atol rtol)
      | _ => none

/-! ### `ElasticConstants.normalized_as` and the crystal-system constructors it calls -/

section forms
variable [Add K] [Sub K] [Mul K] [Div K] [Neg K] [OfNat K 0] [IntCast K]

/-- `ElasticConstants.cubic(C11, C12, C44)`: the 6×6 array, row-major. -/
def cubicForm (c11 c12 c44 : K) : List K :=
  [c11, c12, c12, 0, 0, 0,
   c12, c11, c12, 0, 0, 0,
   c12, c12, c11, 0, 0, 0,
   0, 0, 0, c44, 0, 0,
   0, 0, 0, 0, c44, 0,
   0, 0, 0, 0, 0, c44]

/-- `ElasticConstants.isotropic(mu=…, K=…)`: `C44 = mu`, `C12 = K - 2 C44 / 3`, `C11 = C12 + 2 C44`. -/
def isoForm (mu k : K) : List K :=
  let c12 := k - ((2 : Int) : K) * mu / ((3 : Int) : K)
  cubicForm (c12 + ((2 : Int) : K) * mu) c12 mu

/-- `ElasticConstants.hexagonal(C11, C33, C12, C13, C44)`: `C66 = (C11 - C12) / 2`. -/
def hexForm (c11 c33 c12 c13 c44 : K) : List K :=
  [c11, c12, c13, 0, 0, 0,
   c12, c11, c13, 0, 0, 0,
   c13, c13, c33, 0, 0, 0,
   0, 0, 0, c44, 0, 0,
   0, 0, 0, 0, c44, 0,
   0, 0, 0, 0, 0, (c11 - c12) / ((2 : Int) : K)]

/-- `ElasticConstants.tetragonal(C11, C33, C12, C13, C44, C66, C16)` (seven constants, `C26 = -C16`). -/
def tetraForm (c11 c33 c12 c13 c44 c66 c16 : K) : List K :=
  [c11, c12, c13, 0, 0, c16,
   c12, c11, c13, 0, 0, -c16,
   c13, c13, c33, 0, 0, 0,
   0, 0, 0, c44, 0, 0,
   0, 0, 0, 0, c44, 0,
   c16, -c16, 0, 0, 0, c66]

/-- `ElasticConstants.rhombohedral(C11, C33, C12, C13, C14, C15, C44)` (seven constants,
    `C66 = (C11 - C12) / 2`). -/
def rhomboForm (c11 c33 c12 c13 c14 c15 c44 : K) : List K :=
  [c11, c12, c13, c14, c15, 0,
   c12, c11, c13, -c14, -c15, 0,
   c13, c13, c33, 0, 0, 0,
   c14, -c14, 0, c44, 0, -c15,
   c15, -c15, 0, 0, c44, c14,
   0, 0, 0, -c15, c14, (c11 - c12) / ((2 : Int) : K)]

/-- `ElasticConstants.orthorhombic(…)` (nine constants). -/
def orthoForm (c11 c22 c33 c12 c13 c23 c44 c55 c66 : K) : List K :=
  [c11, c12, c13, 0, 0, 0,
   c12, c22, c23, 0, 0, 0,
   c13, c23, c33, 0, 0, 0,
   0, 0, 0, c44, 0, 0,
   0, 0, 0, 0, c55, 0,
   0, 0, 0, 0, 0, c66]

/-- `ElasticConstants.monoclinic(…)` (thirteen constants: the nine orthorhombic ones and `C15`, `C25`, `C35`, `C46`). -/
def monoForm (c11 c12 c13 c15 c22 c23 c25 c33 c35 c44 c46 c55 c66 : K) : List K :=
  [c11, c12, c13, 0, c15, 0,
   c12, c22, c23, 0, c25, 0,
   c13, c23, c33, 0, c35, 0,
   0, 0, 0, c44, 0, c46,
   c15, c25, c35, 0, c55, 0,
   0, 0, 0, c46, 0, c66]

set_option linter.unusedVariables false in
/-- the array handed to the `Cij` setter by `normalized_as(cs)`: the named constants are averaged from the
    36 entries `aij` of `self.Cij` and passed to the crystal-system constructor (`ElasticConstants(**c_dict)`
    dispatches on the number of keywords and on `C14`).  `muK` are `self.shear()`, `self.bulk()` (Hill
    estimates: they need the inverse 6×6 array, property C11), `none` when they raise.  `'monoclinic'` (repo fix
    877d779) keeps the thirteen constants of the upper triangle and zeroes the rest, like `'orthorhombic'`.  An
    unknown crystal system is a `ValueError`. -/
def normForm (muK : Option (K × K)) (cs : String) (c : List K) : Option (List K) :=
  match c with
  | a00 :: a01 :: a02 :: a03 :: a04 :: a05
    :: a10 :: a11 :: a12 :: a13 :: a14 :: a15
    :: a20 :: a21 :: a22 :: a23 :: a24 :: a25
    :: a30 :: a31 :: a32 :: a33 :: a34 :: a35
    :: a40 :: a41 :: a42 :: a43 :: a44 :: a45
    :: a50 :: a51 :: a52 :: a53 :: a54 :: a55
    :: [] =>
    let two : K := ((2 : Int) : K)
    let three : K := ((3 : Int) : K)
    if cs = "triclinic" then some c
    else if cs = "isotropic" then muK.map (fun mk => isoForm mk.1 mk.2)
    else if cs = "cubic" then
      some (cubicForm ((a00 + a11 + a22) / three) ((a01 + a02 + a12) / three) ((a33 + a44 + a55) / three))
    else if cs = "hexagonal" then
      some (hexForm ((a00 + a11) / two) a22 ((a01 + (a00 - two * a55)) / two) ((a02 + a12) / two)
        ((a33 + a44) / two))
    else if cs = "tetragonal" then
      some (tetraForm ((a00 + a11) / two) a22 a01 ((a02 + a12) / two) ((a33 + a44) / two) a55
        ((a05 - a15) / two))
    else if cs = "rhombohedral" then
      some (rhomboForm ((a00 + a11) / two) a22 ((a01 + (a00 - two * a55)) / two) ((a02 + a12) / two)
        ((a03 - a13) / two) ((a04 - a14 - a35) / three) ((a33 + a44) / two))
    else if cs = "orthorhombic" then
      some (orthoForm a00 a11 a22 a01 a02 a12 a33 a44 a55)
    else if cs = "monoclinic" then
      some (monoForm a00 a01 a02 a04 a11 a12 a14 a22 a24 a33 a35 a44 a55)
    else none
  | _ => none

end forms

/-- `self.normalized_as(cs).Cij`: the form above through the `Cij` setter of the new object. -/
def normalizedAs [Add K] [Sub K] [Mul K] [Div K] [Neg K] [OfNat K 0] [IntCast K] [LT K] [DecidableLT K]
    (eps atol rtol : K) (muK : Option (K × K)) (cs : String) (c : List K) : Option (List K) :=
  (normForm muK cs c).bind (cijSet eps atol rtol)

/-- `ElasticConstants.model(unit=u, crystal_system=cs)` with `normalized_as` inside the model. -/
def ecModelCS [Add K] [Sub K] [Mul K] [Div K] [Neg K] [One K] [OfNat K 0] [IntCast K] [LT K] [DecidableLT K]
    (fac : String → K) (u : Option String) (eps atol rtol : K) (muK : Option (K × K)) (cs : String)
    (c : List K) : Option (DM K) :=
  match normalizedAs eps atol rtol muK cs c with
  | none => none
  | some nc => ecModel fac u (fun _ => nc) c

/-! ### the legacy `C` / `ij` format of `ElasticConstants.model(model=…)`

  The reader tries the `Cij` entry first; when ANYTHING in that fails (bare `except:`) it reads the old format: a list
  `C` of `{stiffness: value-with-unit, ij: "i j"}` entries, turned into keywords `C<i><j>` and handed to
  `ElasticConstants(**c_dict)`, which dispatches on the NUMBER of keywords (and on `C14` for 6 / 7 of them). -/

/-- `'C' + C['ij'][0] + C['ij'][2]` (a string shorter than three characters is an `IndexError`). -/
def legacyKey (ij : String) : Option String :=
  match ij.toList with
  | a :: _ :: b :: _ => some ("C" ++ String.ofList [a, b])
  | _ => none

section legacy
variable [Add K] [Sub K] [Mul K] [Div K] [Neg K] [OfNat K 0] [IntCast K]

/-- `ElasticConstants(**c_dict)` for the keyword sets of the standard representations (isotropic `C11 C12`, cubic,
    5-constant hexagonal, 6- / 7-constant tetragonal, 6- / 7-constant rhombohedral, orthorhombic, monoclinic,
    triclinic): `__init__` dispatches on the number of keywords, the constructor pops the ones it knows and refuses
    when one is missing (so with `n` distinct keywords present the set is exactly the listed one).  `kw` is a
    dictionary (distinct keys).  Sets with a redundant `C66` (hexagonal 6, rhombohedral 8: an `np.isclose` assertion)
    and the other isotropic pairs are outside the model (`none` here). -/
def legacyForm (kw : List (String × K)) : Option (List K) :=
  let n := kw.length
  let has : String → Bool := fun k => kw.any (fun e => e.1 == k)
  let g : String → K := fun k => (kw.lookup k).getD 0
  let two : K := ((2 : Int) : K)
  if n = 2 then
    if ["C11", "C12"].all has then some (cubicForm (g "C11") (g "C12") ((g "C11" - g "C12") / two)) else none
  else if n = 3 then
    if ["C11", "C12", "C44"].all has then some (cubicForm (g "C11") (g "C12") (g "C44")) else none
  else if n = 5 then
    if ["C11", "C33", "C12", "C13", "C44"].all has then
      some (hexForm (g "C11") (g "C33") (g "C12") (g "C13") (g "C44")) else none
  else if n = 6 ∨ n = 7 then
    if has "C14" then
      if ["C11", "C33", "C12", "C13", "C44"].all has ∧ (n = 6 ∨ has "C15") then
        some (rhomboForm (g "C11") (g "C33") (g "C12") (g "C13") (g "C14") (if n = 6 then 0 else g "C15") (g "C44"))
      else none
    else if ["C11", "C33", "C12", "C13", "C44", "C66"].all has ∧ (n = 6 ∨ has "C16") then
      some (tetraForm (g "C11") (g "C33") (g "C12") (g "C13") (g "C44") (g "C66") (if n = 6 then 0 else g "C16"))
    else none
  else if n = 9 then
    if ["C11", "C22", "C33", "C12", "C13", "C23", "C44", "C55", "C66"].all has then
      some (orthoForm (g "C11") (g "C22") (g "C33") (g "C12") (g "C13") (g "C23") (g "C44") (g "C55") (g "C66"))
    else none
  else if n = 13 then
    if ["C11", "C12", "C13", "C15", "C22", "C23", "C25", "C33", "C35", "C44", "C46", "C55", "C66"].all has then
      some (monoForm (g "C11") (g "C12") (g "C13") (g "C15") (g "C22") (g "C23") (g "C25") (g "C33") (g "C35")
        (g "C44") (g "C46") (g "C55") (g "C66"))
    else none
  else if n = 21 then
    if ["C11", "C12", "C13", "C14", "C15", "C16", "C22", "C23", "C24", "C25", "C26", "C33", "C34", "C35", "C36",
        "C44", "C45", "C46", "C55", "C56", "C66"].all has then
      some [g "C11", g "C12", g "C13", g "C14", g "C15", g "C16",
            g "C12", g "C22", g "C23", g "C24", g "C25", g "C26",
            g "C13", g "C23", g "C33", g "C34", g "C35", g "C36",
            g "C14", g "C24", g "C34", g "C44", g "C45", g "C46",
            g "C15", g "C25", g "C35", g "C45", g "C55", g "C56",
            g "C16", g "C26", g "C36", g "C46", g "C56", g "C66"]
    else none
  else none

end legacy

/-- one entry of the old list: `c_dict['C' + ij[0] + ij[2]] = uc.value_unit(C['stiffness'])` (a scalar). -/
def legacyEntryRead [Mul K] [One K] [IntCast K] (fac : String → K) (e : DM K) : Option (String × K) :=
  match e.getStr? "ij", e.get? "stiffness" with
  | some ij, some st =>
    match legacyKey ij, valueUnit fac st with
    | some k, some ⟨[], d⟩ =>
      match d.toFlt with
      | some [x] => some (k, x)
      | _ => none
    | _, _ => none
  | _, _ => none

/-- the `except:` branch: `for C in model['C']` (a list), later entries overwrite earlier ones of the same key. -/
def ecReadLegacy [Add K] [Sub K] [Mul K] [Div K] [Neg K] [One K] [OfNat K 0] [IntCast K] [LT K] [DecidableLT K]
    (fac : String → K) (eps atol rtol : K) (t : DM K) : Option (List K) :=
  match t.get? "elastic-constants" with
  | none => none
  | some m =>
    match m.get? "C" with
    | some (.list l) =>
      match mapOpt (legacyEntryRead fac) l with
      | none => none
      | some es =>
        ((legacyForm (es.foldl (fun d e => dictSet d e.1 e.2) [])).bind (cijSet eps atol rtol)).bind
          (cijSet eps atol rtol)
    | _ => none

/-- `ElasticConstants(model=t)` as the source has it: the new format, and the old one when that raises. -/
def ecReadAny [Add K] [Sub K] [Mul K] [Div K] [Neg K] [One K] [OfNat K 0] [IntCast K] [LT K] [DecidableLT K]
    (fac : String → K) (eps atol rtol : K) (t : DM K) : Option (List K) :=
  match ecRead fac eps atol rtol t with
  | some c => some c
  | none => ecReadLegacy fac eps atol rtol t

/-! ### the other API-level round trips: writer → text encoding → reader -/

/-- `uc.value_unit(text(uc.model(a, units)))`. -/
def valueDumpLoad [Mul K] [Div K] [One K] [IntCast K] (facW facR : String → K) (via : String) (units : Option String)
    (a : Arr K) : Option (Arr K) :=
  ((ucModel facW units a).bind (encode via)).bind (valueUnit facR)

/-- `Box(model=text(box.model(length_unit=u)))`. -/
def boxDumpLoad [Mul K] [Div K] [Neg K] [One K] [OfNat K 0] [IntCast K] [LT K] [DecidableLT K]
    (facW facR : String → K) (eps : K) (via : String) (u : Option String) (b : Box K) : Option (Box K) :=
  ((boxModel facW u b).bind (encode via)).bind (boxRead facR eps)

/-- `ElasticConstants(model=text(ec.model(unit=u, crystal_system=cs)))`. -/
def ecDumpLoad [Add K] [Sub K] [Mul K] [Div K] [Neg K] [One K] [OfNat K 0] [IntCast K] [LT K] [DecidableLT K]
    (facW facR : String → K) (eps atol rtol : K) (via : String) (u : Option String) (muK : Option (K × K))
    (cs : String) (c : List K) : Option (List K) :=
  ((ecModelCS facW u eps atol rtol muK cs c).bind (encode via)).bind (ecRead facR eps atol rtol)

/-! ### objects with state

  A `Box` object keeps `__reciprocal_vects` once `reciprocal_vects` was asked for (by
  `position_cartesian_to_relative`, hence by `System.model` with a `'scaled'` property); the `vects` setter —
  and so `set(...)`, and so `Box.model(model=…)` on an existing object — drops it. -/

structure BoxObj (K : Type) where
  box : Box K
  cache : Option (M3 K)

namespace BoxObj
variable [Add K] [Sub K] [Mul K] [Div K]

/-- a freshly constructed `Box`. -/
def ofBox (b : Box K) : BoxObj K := ⟨b, none⟩

/-- the `reciprocal_vects` property: computed on first use, then kept. -/
def recipVects (b : BoxObj K) : M3 K × BoxObj K :=
  match b.cache with
  | some r => (r, b)
  | none => (b.box.recip, ⟨b.box, some b.box.recip⟩)

/-- `position_cartesian_to_relative`: `np.inner(pos - origin, self.reciprocal_vects)`. -/
def cartToRel (b : BoxObj K) (p : V3 K) : V3 K × BoxObj K :=
  ((M3.mulVec b.recipVects.1 (p - b.box.origin)), b.recipVects.2)

/-- the `vects` setter: near-zero clean-up, the kept reciprocal vectors are dropped. -/
def setVects [Neg K] [OfNat K 0] [LT K] [DecidableLT K] (eps : K) (b : BoxObj K) (m : M3 K) : BoxObj K :=
  ⟨⟨cleanVects eps m, b.box.origin⟩, none⟩

/-- the `origin` setter (the reciprocal vectors do not depend on it). -/
def setOrigin (b : BoxObj K) (o : V3 K) : BoxObj K := ⟨⟨b.box.vects, o⟩, b.cache⟩

/-- `box.model(model=t)` on an existing object: the four vectors are read and handed to
    `set(avect=…, bvect=…, cvect=…, origin=…)`, i.e. to the two setters. -/
def readModel [Neg K] [One K] [OfNat K 0] [IntCast K] [LT K] [DecidableLT K]
    (fac : String → K) (eps : K) (b : BoxObj K) (t : DM K) : Option (BoxObj K) :=
  match boxRead fac eps t with
  | none => none
  | some bx => some ((⟨⟨bx.vects, b.box.origin⟩, none⟩ : BoxObj K).setOrigin bx.origin)

/-- the kept reciprocal vectors, if any, are those of the current cell. -/
def Coherent (b : BoxObj K) : Prop := ∀ r, b.cache = some r → r = b.box.recip

end BoxObj

/-- `sysPropModel` with the Cartesian → relative map as a parameter. -/
def sysPropModelR [Mul K] [Div K] [One K] [IntCast K]
    (fac : String → K) (c2r : V3 K → V3 K) (a : AtomsM K) (pu : String × Option String) : Option (DM K) :=
  match propModel fac a pu with
  | none => none
  | some pm =>
    if effUnit pu.1 pu.2 = some "scaled" then
      match pm.get? "data" with
      | none => none
      | some d =>
        match (valueUnit fac d).bind (mapPositions c2r) with
        | none => none
        | some rel =>
          match ucModel fac (some "scaled") rel with
          | none => none
          | some d' => some (.node [("name", .leaf (.str pu.1)), ("data", d')])
    else some pm

/-- `systemModel` with the Cartesian → relative map as a parameter. -/
def systemModelR [Mul K] [Div K] [One K] [IntCast K]
    (fac : String → K) (boxUnit : Option String) (pu : List (String × Option String))
    (s : SystemM K) (c2r : V3 K → V3 K) : Option (DM K) :=
  match boxModel fac boxUnit s.box, mapOpt (sysPropModelR fac c2r s.atoms) pu with
  | some (.node [("box", bm)]), some ps =>
    let masses := if s.masses.any Option.isSome then s.masses.map massLeaf else []
    some (.node [("atomic-system", .node (
      [("box", bm), ("periodic-boundary-condition", .list (s.pbc.map (fun b => .leaf (.bool b))))]
      ++ appendAll "atom-type-symbol" (s.symbols.map symLeaf)
      ++ appendAll "atom-type-mass" masses
      ++ [("atoms", .node (("natoms", .leaf (.int s.atoms.natoms)) :: appendAll "property" ps))]))])
  | _, _ => none

/-- a `System` object: it *holds* its `Box` object (no copy), so the box's kept state travels with it. -/
structure SysObj (K : Type) where
  bobj : BoxObj K
  pbc : List Bool
  symbols : List (Option String)
  masses : List (Option K)
  atoms : AtomsM K

/-- the value of the object: what a freshly built `System` with the same content would be. -/
def SysObj.toSystem (s : SysObj K) : SystemM K := ⟨s.bobj.box, s.pbc, s.symbols, s.masses, s.atoms⟩

/-- `system.model(box_unit, prop_unit=pu)` on the object: a `'scaled'` property goes through the box object's
    `position_cartesian_to_relative`, i.e. through the kept reciprocal vectors (filled on first use). -/
def SysObj.model [Add K] [Sub K] [Mul K] [Div K] [One K] [IntCast K]
    (fac : String → K) (boxUnit : Option String) (pu : List (String × Option String)) (s : SysObj K) :
    Option (DM K) × SysObj K :=
  if pu.any (fun e => effUnit e.1 e.2 = some "scaled") then
    (systemModelR fac boxUnit pu s.toSystem (fun p => (s.bobj.cartToRel p).1),
     { s with bobj := s.bobj.recipVects.2 })
  else (systemModelR fac boxUnit pu s.toSystem (fun p => (s.bobj.cartToRel p).1), s)

/-- the flat `pos` buffer of the object's atoms (empty when there is no float `pos`). -/
def SysObj.positions (s : SysObj K) : List K :=
  match s.atoms.props.lookup "pos" with
  | some ⟨_, .flt l⟩ => l
  | _ => []

/-- `system.atoms.pos[i, j] = v`: an in-place edit of one coordinate through the array the object hands out
    (flat index `3 i + j`).  Only the per-atom data change: the `Box` object and whatever it keeps are untouched. -/
def SysObj.setPosAt (s : SysObj K) (i : Nat) (v : K) : SysObj K :=
  { s with atoms := ⟨s.atoms.natoms, s.atoms.props.map (fun e =>
      if e.1 = "pos" then
        match e.2 with
        | ⟨sh, .flt l⟩ => (e.1, ⟨sh, .flt (l.set i v)⟩)
        | a => (e.1, a)
      else e)⟩ }

end Atomman.C10
