/-
  C16 — Miller / Miller–Bravais index conversions, plane normals, centering conversions,
  index reduction / enumeration / parsing, and crystal-family identification.

  Sources: atomman/tools/miller.py, atomman/core/Box.py (family predicates, identifyfamily),
  atomman/tools/crystalsystem.py (the same predicates as stand-alone functions).
  CORE LEAN ONLY.  Indices are `Int` where the code requires integers, cells are generic over `K`.
  The centering tables come from `Atomman/Generated/MillerTables.lean` (regenerated from
  miller.py on every run).
-/
import Atomman.Prelude
import Atomman.Box
import Atomman.Generated.MillerTables

namespace Atomman.C16

/-- error classes of the real code (`ValueError`, `AssertionError`, `ZeroDivisionError`);
    `format` = input outside the modelled grammar (never produced for generated cases). -/
inductive Err where
  | value | assert | zerodiv | format
deriving Repr, DecidableEq, BEq

def Err.toString : Err → String
  | .value => "err:value" | .assert => "err:assert" | .zerodiv => "err:zerodiv" | .format => "err:format"

/-! ### 3 ↔ 4 index conversions (miller.py:14-150) -/

@[ext] structure V4 (K : Type) where
  a : K
  b : K
  c : K
  d : K
deriving Repr, BEq, DecidableEq

section conv
variable {K : Type}

/-- absolute value with core classes only. -/
@[inline] def absK [Zero K] [Neg K] [LT K] [DecidableLT K] (x : K) : K := if x < 0 then -x else x

/-- the guard `np.allclose(indices[..., :3].sum(axis=-1), 0.0)` for one index set:
    `|s - 0| ≤ atol + rtol·|0|`, i.e. `|s| ≤ atol` (numpy default `atol = 1e-8`). -/
@[inline] def sumIsZero [Zero K] [Neg K] [LT K] [DecidableLT K] [LE K] [DecidableLE K]
    (atol s : K) : Bool := decide (absK s ≤ atol)

/-- `plane3to4`: (hkl) → (h k i l) with `i = -(h+k)`. -/
def plane3to4 [Add K] [Neg K] (p : V3 K) : V4 K := ⟨p.x, p.y, -(p.x + p.y), p.z⟩

/-- `plane4to3`: (h k i l) → (hkl); `ValueError` unless `h+k+i` is (numerically) zero. -/
def plane4to3 [Zero K] [Add K] [Neg K] [LT K] [DecidableLT K] [LE K] [DecidableLE K]
    (atol : K) (q : V4 K) : Except Err (V3 K) :=
  if sumIsZero atol (q.a + q.b + q.c) then .ok ⟨q.a, q.b, q.d⟩ else .error .value

/-- `vector3to4`: [uvw] → [u' v' t w] with `u' = (2u-v)/3`, `v' = (2v-u)/3`, `t = -(u'+v')`. -/
def vector3to4 [Add K] [Sub K] [Mul K] [Div K] [Neg K] [NatCast K] (p : V3 K) : V4 K :=
  let u := (((2 : Nat) : K) * p.x - p.y) / ((3 : Nat) : K)
  let v := (((2 : Nat) : K) * p.y - p.x) / ((3 : Nat) : K)
  ⟨u, v, -(u + v), p.z⟩

/-- `vector4to3`: [u v t w] → [2u+v, 2v+u, w]; `ValueError` unless `u+v+t` is (numerically) zero. -/
def vector4to3 [Zero K] [Add K] [Mul K] [Neg K] [NatCast K] [LT K] [DecidableLT K] [LE K] [DecidableLE K]
    (atol : K) (q : V4 K) : Except Err (V3 K) :=
  if sumIsZero atol (q.a + q.b + q.c) then
    .ok ⟨((2 : Nat) : K) * q.a + q.b, ((2 : Nat) : K) * q.b + q.a, q.d⟩
  else .error .value

/-- the guard on an ARRAY of index sets: `np.allclose(indices[..., :3].sum(axis=-1), 0.0)` is one test for the
    whole array, true iff every row's own sum is within `atol`. -/
def guardAll [Zero K] [Add K] [Neg K] [LT K] [DecidableLT K] [LE K] [DecidableLE K]
    (atol : K) (rows : List (V4 K)) : Bool := rows.all fun q => sumIsZero atol (q.a + q.b + q.c)

/-- `plane4to3` on an array of index sets (leading shape flattened): rejected as a whole unless every row passes. -/
def plane4to3Arr [Zero K] [Add K] [Neg K] [LT K] [DecidableLT K] [LE K] [DecidableLE K]
    (atol : K) (rows : List (V4 K)) : Except Err (List (V3 K)) :=
  if guardAll atol rows then .ok (rows.map fun q => ⟨q.a, q.b, q.d⟩) else .error .value

/-- `vector4to3` on an array of index sets. -/
def vector4to3Arr [Zero K] [Add K] [Mul K] [Neg K] [NatCast K] [LT K] [DecidableLT K] [LE K] [DecidableLE K]
    (atol : K) (rows : List (V4 K)) : Except Err (List (V3 K)) :=
  if guardAll atol rows then
    .ok (rows.map fun q => ⟨((2 : Nat) : K) * q.a + q.b, ((2 : Nat) : K) * q.b + q.a, q.d⟩)
  else .error .value

/-- `vector_crystal_to_cartesian(indices, box)`: 4 indices need a hexagonal box and go through
    `vector4to3`; then `indices.dot(box.vects)`. `isHex` is `box.ishexagonal()`. -/
def vectorCrystalToCartesian [Zero K] [Add K] [Mul K] [Neg K] [NatCast K] [LT K] [DecidableLT K]
    [LE K] [DecidableLE K] (atol : K) (isHex : Bool) (V : M3 K) (idx : List K) : Except Err (V3 K) :=
  match idx with
  | [u, v, t, w] =>
    if isHex then
      match vector4to3 atol ⟨u, v, t, w⟩ with
      | .ok p => .ok (M3.vecMul p V)
      | .error e => .error e
    else .error .value
  | [u, v, w] => .ok (M3.vecMul ⟨u, v, w⟩ V)
  | _ => .error .value

end conv

/-! ### plane normal (miller.py:339-458) -/

/-- the two in-plane lattice vectors and the sign chosen by `plane_cryst_2_cart`, branch by branch.
    `np.lcm` is the lcm of absolute values, `np.array([-m / h, …], dtype=int)` is a true division
    followed by truncation (`Int.tdiv`), `np.sign` is `Int.sign`. -/
def planeInPlane (h k l : Int) : Except Err (V3 Int × V3 Int × Int) :=
  if h ≠ 0 then
    if k ≠ 0 then
      if l ≠ 0 then
        let m : Int := ((Int.lcm ((Int.lcm h k : Nat) : Int) l : Nat) : Int)
        let s := Int.sign (h * k * l)
        .ok (⟨Int.tdiv (-m) h, Int.tdiv m k, 0⟩, ⟨Int.tdiv (-m) h, 0, Int.tdiv m l⟩, s)
      else
        let m : Int := ((Int.lcm h k : Nat) : Int)
        let s := Int.sign (h * k)
        .ok (⟨Int.tdiv (-m) h, Int.tdiv m k, 0⟩, ⟨0, 0, 1⟩, s)
    else
      if l ≠ 0 then
        let m : Int := ((Int.lcm h l : Nat) : Int)
        let s := Int.sign (h * l)
        .ok (⟨Int.tdiv m h, 0, Int.tdiv (-m) l⟩, ⟨0, 1, 0⟩, s)
      else
        .ok (⟨0, 1, 0⟩, ⟨0, 0, 1⟩, Int.sign h)
  else if k ≠ 0 then
    if l ≠ 0 then
      let m : Int := ((Int.lcm k l : Nat) : Int)
      let s := Int.sign (k * l)
      .ok (⟨0, Int.tdiv (-m) k, Int.tdiv m l⟩, ⟨1, 0, 0⟩, s)
    else
      .ok (⟨0, 0, 1⟩, ⟨1, 0, 0⟩, Int.sign k)
  else if l ≠ 0 then
    .ok (⟨1, 0, 0⟩, ⟨0, 1, 0⟩, Int.sign l)
  else .error .value

section normal
variable {K : Type}

@[inline] def castV [IntCast K] (v : V3 Int) : V3 K := ⟨(v.x : K), (v.y : K), (v.z : K)⟩

/-- `s * np.cross(a_uvw.dot(box.vects), b_uvw.dot(box.vects))` for given in-plane vectors. -/
@[inline] def normalOf [Add K] [Sub K] [Mul K] [IntCast K] (V : M3 K) (a b : V3 Int) (s : Int) : V3 K :=
  V3.smul (s : K) (V3.cross (M3.vecMul (castV a) V) (M3.vecMul (castV b) V))

/-- the plane normal before the final division by its (positive) norm. -/
def planeNormalUnnorm [Add K] [Sub K] [Mul K] [IntCast K] (V : M3 K) (h k l : Int) : Except Err (V3 K) :=
  match planeInPlane h k l with
  | .ok (a, b, s) => .ok (normalOf V a b s)
  | .error e => .error e

/-- `plane_crystal_to_cartesian(indices, box)` on integer indices, before normalisation.
    4 indices need a hexagonal box and go through `plane4to3` (guard evaluated in `K`). -/
def planeCrystalToCartesianUnnorm [Zero K] [Add K] [Sub K] [Mul K] [Neg K] [IntCast K] [LT K] [DecidableLT K]
    [LE K] [DecidableLE K] (atol : K) (isHex : Bool) (V : M3 K) (idx : List Int) : Except Err (V3 K) :=
  match idx with
  | [h, k, i, l] =>
    if isHex then
      if sumIsZero atol (((h + k + i : Int)) : K) then planeNormalUnnorm V h k l else .error .value
    else .error .value
  | [h, k, l] => planeNormalUnnorm V h k l
  | _ => .error .value

/-- `np.asarray(x, dtype=int)` on a float: truncation toward zero. -/
def truncRat (q : Rat) : Int := Int.tdiv q.num (q.den : Int)

/-- one entry of `np.allclose(indices, np.asarray(indices, dtype=int))` (numpy defaults `rtol`, `atol`):
    `|x - trunc x| ≤ atol + rtol·|trunc x|`. -/
def isIntLike (rtol atol q : Rat) : Bool :=
  decide (absK (q - (truncRat q : Rat)) ≤ atol + rtol * absK ((truncRat q : Int) : Rat))

/-- `plane_crystal_to_cartesian` for ONE index set given as numbers (what an array row holds): the integer test, then
    the integer routine on the truncated values. -/
def planeRow (rtol atol gatol : Rat) (isHex : Bool) (V : M3 Rat) (r : List Rat) : Except Err (V3 Rat) :=
  if r.all (isIntLike rtol atol) then planeCrystalToCartesianUnnorm gatol isHex V (r.map truncRat) else .error .value

/-- `plane_crystal_to_cartesian` on an ARRAY of index sets (leading shape flattened).  The code applies its tests to
    the whole array (`allclose` of the sums, `allclose` against the integer cast) and then works row by row
    (`apply_along_axis`, the zero row raises there); every failure is a `ValueError`, so the array is accepted iff
    every row is, and then holds the row results (`planeArr_ok_iff`, `planeArr_rows`). -/
def planeArr (rtol atol gatol : Rat) (isHex : Bool) (V : M3 Rat) (rows : List (List Rat)) : Except Err (List (V3 Rat)) :=
  if rows.all (fun r => (planeRow rtol atol gatol isHex V r).toBool) then
    .ok (rows.filterMap fun r => match planeRow rtol atol gatol isHex V r with | .ok n => some n | .error _ => none)
  else .error .value

/-- final step `planenormal / np.linalg.norm(planenormal)`; `nrm` is the norm (external sqrt). -/
@[inline] def normalise [Div K] (n : V3 K) (nrm : K) : V3 K := ⟨n.x / nrm, n.y / nrm, n.z / nrm⟩

/-- reciprocal-lattice vector `h a* + k b* + l c*` of the cell with rows `V`
    (`Box.reciprocal_vects = inv(vects).T`, rows `a*, b*, c*`). -/
@[inline] def recipVector [Add K] [Sub K] [Mul K] [Div K] [IntCast K] (V : M3 K) (h k l : Int) : V3 K :=
  M3.vecMul (castV ⟨h, k, l⟩) (M3.inv V).transpose

end normal

/-! ### centering conversions (miller.py:191-337), tables generated -/

section centering
variable {K : Type} [NatCast K] [Div K] [Neg K] [Add K] [Mul K]

/-- `vector_primitive_to_conventional(indices, setting)`: `indices.dot(lat)`; unknown setting → ValueError. -/
def vectorPrimitiveToConventional (setting : String) (p : V3 K) : Except Err (V3 K) :=
  match Gen.primToConv? (K := K) setting with
  | some m => .ok (M3.vecMul p m)
  | none => .error .value

/-- `vector_conventional_to_primitive(indices, setting)`. -/
def vectorConventionalToPrimitive (setting : String) (p : V3 K) : Except Err (V3 K) :=
  match Gen.convToPrim? (K := K) setting with
  | some m => .ok (M3.vecMul p m)
  | none => .error .value

end centering

/-! ### reduce_indices, all_indices (miller.py:519-585) -/

/-- `np.gcd.reduce(indices, axis=-1)`: gcd of the absolute values, identity 0. -/
def gcdList (l : List Int) : Nat := l.foldl (fun (g : Nat) (x : Int) => Int.gcd (g : Int) x) 0

/-- `reduce_indices` for one index set (3 or 4 entries): floor division by the gcd.
    (numpy integer floor division by zero yields 0, as `Int.fdiv x 0 = 0`.) -/
def reduceIndices (l : List Int) : Except Err (List Int) :=
  if l.length = 3 ∨ l.length = 4 then
    let n : Int := (gcdList l : Nat)
    .ok (l.map (fun x => Int.fdiv x n))
  else .error .value

/-- lexicographic order on integer lists (as `np.unique(axis=0)` sorts rows). -/
def lexLt : List Int → List Int → Bool
  | [], [] => false
  | [], _ :: _ => true
  | _ :: _, [] => false
  | a :: as, b :: bs => if a < b then true else if b < a then false else lexLt as bs

/-- insert into a strictly sorted list, dropping duplicates. -/
def insertUniq (x : List Int) : List (List Int) → List (List Int)
  | [] => [x]
  | y :: ys => if lexLt x y then x :: y :: ys else if x = y then y :: ys else y :: insertUniq x ys

def sortUniq (l : List (List Int)) : List (List Int) := l.foldl (fun acc x => insertUniq x acc) []

/-- `np.arange(-m, m+1)` for an integer `m` (empty when `m < 0`). -/
def indexRange (m : Int) : List Int := intRange (-m) (m + 1)

/-- `all_indices(maxindex, reduce)`: rows in the order produced by
    `meshgrid(i,i,i)` (`'xy'` indexing: v slowest, then u, then w), zero row removed;
    with `reduce`: every row reduced, then `np.unique(axis=0)` (sorted, distinct). -/
def allIndices (m : Int) (reduce : Bool) : List (List Int) :=
  let r := indexRange m
  let rows := (r.flatMap fun v => r.flatMap fun u => r.map fun w => [u, v, w]).filter
    (fun t => t.foldl (fun acc x => acc + x.natAbs) 0 ≠ 0)
  if reduce then
    sortUniq (rows.map fun t => match reduceIndices t with | .ok t' => t' | .error _ => t)
  else rows

/-! ### fromstring (miller.py:460-517) on character lists -/

def findIdx (c : Char) : List Char → Option Nat
  | [] => none
  | x :: xs => if x = c then some 0 else (findIdx c xs).map (· + 1)

/-- split on a separator character (like `str.split(sep)`: keeps empty pieces). -/
def splitOnChar (c : Char) : List Char → List (List Char)
  | [] => [[]]
  | x :: xs =>
    if x = c then [] :: splitOnChar c xs
    else match splitOnChar c xs with
      | [] => [[x]]
      | w :: ws => (x :: w) :: ws

def digitVal? (c : Char) : Option Nat :=
  if '0' ≤ c ∧ c ≤ '9' then some (c.toNat - '0'.toNat) else none

def parseNatAcc : Nat → List Char → Option Nat
  | acc, [] => some acc
  | acc, c :: cs => match digitVal? c with
    | some d => parseNatAcc (acc * 10 + d) cs
    | none => none

/-- decimal natural number, at least one digit. -/
def parseNat? : List Char → Option Nat
  | [] => none
  | cs => parseNatAcc 0 cs

/-- integer numeral: optional sign, digits. -/
def parseInt? : List Char → Option Int
  | '-' :: cs => (parseNat? cs).map (fun n => -(n : Int))
  | '+' :: cs => (parseNat? cs).map (fun n => (n : Int))
  | cs => (parseNat? cs).map (fun n => (n : Int))

def trimSpaces (cs : List Char) : List Char :=
  ((cs.dropWhile (· = ' ')).reverse.dropWhile (· = ' ')).reverse

/-- space-separated tokens (`np.fromstring(..., sep=' ')`): empty pieces dropped. -/
def spaceTokens (cs : List Char) : List (List Char) := (splitOnChar ' ' cs).filter (fun w => !w.isEmpty)

/-- which bracket pair `fromstring` looks at: the first kind, in the order `[ ( < {`,
    whose opening character occurs in the string. -/
def bracketPairs : List (Char × Char) := [('[', ']'), ('(', ')'), ('<', '>'), ('{', '}')]

def findBracket (cs : List Char) : List (Char × Char) → Option (Nat × Char)
  | [] => none
  | (o, c) :: rest => match findIdx o cs with
    | some i => some (i, c)
    | none => findBracket cs rest

/-- characters that can occur in some Python `float()` literal (digits, sign, point, exponent,
    underscore, blanks, the letters of inf/nan/infinity). -/
def floatChar (c : Char) : Bool :=
  ('0' ≤ c && c ≤ '9') || "+-._eE \t\ninfatyINFATY".toList.contains c

/-- the leading fraction `value[:openindex]` (only looked at when `openindex > 0`): exactly one `/`,
    both terms through `float()`.  Numerals outside the integer grammar give `.format` (not modelled:
    Python's float grammar) unless they contain a character no float literal contains (`ValueError`). -/
def fracOf (P : List Char) : Except Err Rat :=
  if P.length > 0 then
    match splitOnChar '/' P with
    | [p, q] =>
      match parseInt? (trimSpaces p), parseInt? (trimSpaces q) with
      | some p, some q => if q = 0 then .error .zerodiv else .ok ((p : Rat) / (q : Rat))
      | _, _ =>
        -- `float(term)`: a character that no Python float literal contains gives ValueError;
        -- anything else is outside the modelled (integer) numeral grammar
        if (trimSpaces p).isEmpty || (trimSpaces q).isEmpty then .error .value      -- float('') raises ValueError
        else if (p ++ q).all floatChar then .error .format else .error .value
    | _ => .error .assert               -- 'fraction can only have one /'
  else .ok 1

/-- `fromstring(value)`: result `fraction * array` as exact rationals.
    Numerals outside the integer grammar give `.format` (not modelled: Python's float grammar). -/
def fromChars (cs : List Char) : Except Err (List Rat) :=
  match findBracket cs bracketPairs with
  | none =>
    -- legacy reader: just numbers, no brackets, no fraction
    match (spaceTokens cs).mapM parseInt? with
    | none => if cs.all floatChar then .error .format else .error .value   -- numpy: 'unmatched data' is a ValueError
    | some idx => if idx.length = 3 ∨ idx.length = 4 then .ok (idx.map fun (i : Int) => (i : Rat)) else .error .assert
  | some (openIdx, closeCh) =>
    match findIdx closeCh cs with
    | none => .error .value                 -- `value.index(']')` raises ValueError
    | some closeIdx =>
      match fracOf (cs.take openIdx) with
      | .error e => .error e
      | .ok frac =>
        let inner := (cs.take closeIdx).drop (openIdx + 1)      -- value[openindex+1 : closeindex]
        match (spaceTokens inner).mapM parseInt? with
        | none => if inner.all floatChar then .error .format else .error .value
        | some idx =>
          if idx.length = 3 ∨ idx.length = 4 then .ok (idx.map fun (i : Int) => frac * (i : Rat))
          else .error .assert

def natDigits : Nat → List Char
  | n => if _h : n < 10 then [Char.ofNat (n + '0'.toNat)] else natDigits (n / 10) ++ [Char.ofNat (n % 10 + '0'.toNat)]
decreasing_by omega

def renderInt (i : Int) : List Char :=
  if i < 0 then '-' :: natDigits i.natAbs else natDigits i.natAbs

def intercalateSp : List (List Char) → List Char
  | [] => []
  | [w] => w
  | w :: ws => w ++ ' ' :: intercalateSp ws

/-- how an index string is written: optional `p/q ` prefix, bracket kind `k`, indices separated by
    single spaces. -/
def render (frac : Option (Int × Nat)) (k : Char × Char) (idx : List Int) : List Char :=
  (match frac with
   | none => []
   | some (p, q) => renderInt p ++ '/' :: natDigits q ++ [' ']) ++
  k.1 :: intercalateSp (idx.map renderInt) ++ [k.2]

/-- `n` blanks. -/
def spaces (n : Nat) : List Char := List.replicate n ' '

/-- value of the optional leading fraction (as `fromChars` computes it: `p / q` in ℚ). -/
def fracVal : Option (Int × Nat) → Rat
  | none => 1
  | some (p, q) => (p : Rat) / (((q : Nat) : Int) : Rat)

/-- the part of an index string before the opening bracket: nothing, or `lead` blanks, `p/q`, `gap` blanks. -/
def prefixW (frac : Option (Int × Nat)) (lead gap : Nat) : List Char :=
  match frac with
  | none => []
  | some (p, q) => spaces lead ++ renderInt p ++ '/' :: natDigits q ++ spaces gap

/-- bracket contents with free spacing: `pad1` blanks, the first index, every further index preceded by
    `n+1` blanks, `pad2` blanks. -/
def bodyW (pad1 : Nat) (first : Int) (rest : List (Nat × Int)) (pad2 : Nat) : List Char :=
  spaces pad1 ++ renderInt first ++ rest.flatMap (fun ni => spaces (ni.1 + 1) ++ renderInt ni.2) ++ spaces pad2

/-- a well-formed index string with free spacing (everything `render` writes, plus any number of blanks
    before the fraction, between fraction and bracket, inside the brackets, between indices, after the
    closing bracket). -/
def renderW (frac : Option (Int × Nat)) (lead gap : Nat) (k : Char × Char) (pad1 : Nat) (first : Int)
    (rest : List (Nat × Int)) (pad2 trail : Nat) : List Char :=
  prefixW frac lead gap ++ k.1 :: bodyW pad1 first rest pad2 ++ k.2 :: spaces trail

/-! ### family predicates and `identifyfamily` (Box.py:834-1058, crystalsystem.py) -/

structure CellParams (K : Type) where
  a : K
  b : K
  c : K
  alpha : K
  beta : K
  gamma : K
deriving Repr, BEq

inductive Family where
  | cubic | hexagonal | tetragonal | rhombohedral | orthorhombic | monoclinic | triclinic
deriving Repr, DecidableEq, BEq

def Family.toString : Family → String
  | .cubic => "cubic" | .hexagonal => "hexagonal" | .tetragonal => "tetragonal"
  | .rhombohedral => "rhombohedral" | .orthorhombic => "orthorhombic" | .monoclinic => "monoclinic"
  | .triclinic => "triclinic"

section family
variable {K : Type} [Zero K] [Add K] [Sub K] [Mul K] [Neg K] [NatCast K] [LT K] [DecidableLT K] [LE K] [DecidableLE K]

/-- `np.isclose(x, y, rtol=rtol, atol=atol)`: `|x - y| ≤ atol + rtol·|y|` (asymmetric in `y`). -/
@[inline] def isclose (rtol atol x y : K) : Bool := decide (absK (x - y) ≤ atol + rtol * absK y)

@[inline] def deg90 : K := ((90 : Nat) : K)
@[inline] def deg120 : K := ((120 : Nat) : K)

def isCubic (rtol atol : K) (p : CellParams K) : Bool :=
  isclose rtol atol p.a p.b && isclose rtol atol p.a p.c && isclose rtol atol p.alpha deg90
    && isclose rtol atol p.beta deg90 && isclose rtol atol p.gamma deg90

def isHexagonal (rtol atol : K) (p : CellParams K) : Bool :=
  isclose rtol atol p.a p.b && isclose rtol atol p.alpha deg90 && isclose rtol atol p.beta deg90
    && isclose rtol atol p.gamma deg120

def isTetragonal (rtol atol : K) (p : CellParams K) : Bool :=
  isclose rtol atol p.a p.b && !isclose rtol atol p.a p.c && isclose rtol atol p.alpha deg90
    && isclose rtol atol p.beta deg90 && isclose rtol atol p.gamma deg90

def isRhombohedral (rtol atol : K) (p : CellParams K) : Bool :=
  isclose rtol atol p.a p.b && isclose rtol atol p.a p.c && isclose rtol atol p.alpha p.beta
    && isclose rtol atol p.alpha p.gamma && !isclose rtol atol p.alpha deg90

def isOrthorhombic (rtol atol : K) (p : CellParams K) : Bool :=
  !isclose rtol atol p.a p.b && !isclose rtol atol p.a p.c && isclose rtol atol p.alpha deg90
    && isclose rtol atol p.beta deg90 && isclose rtol atol p.gamma deg90

def isMonoclinic (rtol atol : K) (p : CellParams K) : Bool :=
  !isclose rtol atol p.a p.b && !isclose rtol atol p.a p.c && isclose rtol atol p.alpha deg90
    && !isclose rtol atol p.beta deg90 && isclose rtol atol p.gamma deg90

def isTriclinic (rtol atol : K) (p : CellParams K) : Bool :=
  !isclose rtol atol p.a p.b && !isclose rtol atol p.a p.c && !isclose rtol atol p.alpha p.beta
    && !isclose rtol atol p.alpha p.gamma

/-- `identifyfamily`: the first predicate that holds, in the order of the `if/elif` chain. -/
def identifyFamily (rtol atol : K) (p : CellParams K) : Option Family :=
  if isCubic rtol atol p then some .cubic
  else if isHexagonal rtol atol p then some .hexagonal
  else if isTetragonal rtol atol p then some .tetragonal
  else if isRhombohedral rtol atol p then some .rhombohedral
  else if isOrthorhombic rtol atol p then some .orthorhombic
  else if isMonoclinic rtol atol p then some .monoclinic
  else if isTriclinic rtol atol p then some .triclinic
  else none

end family

/-! ### the `Box` OBJECT (Box.py:26-61, 245-280, 465-680, 725-775, 1018-1058): state, setters, and the
    Box-method entry points `Box.vector_crystal_to_cartesian`, `Box.plane_crystal_to_cartesian`,
    `Box.identifyfamily`, `Box.is<family>`, `Box.reciprocal_vects`, `Box.position_relative_to_cartesian` -/

/-- everything a `Box` object holds: `vects`, `origin`, the memoised `reciprocal_vects` (the only cached
    quantity of the real class; `None` = not computed), and the six cell parameters measured from the
    CURRENT `vects` (`Box.a … gamma` are sqrt/arccos of `vects`: external functions, so every setter of
    `vects` is given the new measured values).  There is no other state: nothing is remembered from
    earlier queries. -/
structure BoxObj (K : Type) where
  box : Box K
  par : CellParams K
  recipCache : Option (M3 K)

namespace BoxObj
variable {K : Type}

/-- `Box(vects=V, origin=org)` (and every other constructor form once it has computed `V`, `org`). -/
def new (V : M3 K) (org : V3 K) (p : CellParams K) : BoxObj K := ⟨⟨V, org⟩, p, none⟩

/-- the `vects` setter: `origin` kept, `__reciprocal_vects` reset. -/
def setVects (o : BoxObj K) (V : M3 K) (p : CellParams K) : BoxObj K := ⟨⟨V, o.box.origin⟩, p, none⟩

/-- the `origin` setter: cell and cache kept. -/
def setOrigin (o : BoxObj K) (org : V3 K) : BoxObj K := ⟨⟨o.box.vects, org⟩, o.par, o.recipCache⟩

/-- `Box.set(vects=…, origin=…)`, `set_vectors`, `set_abc`, `set_lengths`, `set_hi_los`, `Box.model(model)`,
    `System.box_set`: all end in `self.vects = V; self.origin = org`. -/
def set (o : BoxObj K) (V : M3 K) (org : V3 K) (p : CellParams K) : BoxObj K := (o.setVects V p).setOrigin org

/-- the `reciprocal_vects` property: computed from the current `vects` when the cache is empty, then kept. -/
def reciprocalVects [Add K] [Sub K] [Mul K] [Div K] (o : BoxObj K) : BoxObj K × M3 K :=
  match o.recipCache with
  | some r => (o, r)
  | none => (⟨o.box, o.par, some o.box.recip⟩, o.box.recip)

/-- numpy/atomman default tolerances `rtol=1e-05`, `atol=1e-08` of `Box.ishexagonal()` as called by miller.py. -/
@[inline] def defaultRtol [NatCast K] [Div K] : K := ((1 : Nat) : K) / ((100000 : Nat) : K)
@[inline] def defaultAtol [NatCast K] [Div K] : K := ((1 : Nat) : K) / ((100000000 : Nat) : K)

section queries
variable [Zero K] [Add K] [Sub K] [Mul K] [Div K] [Neg K] [NatCast K] [LT K] [DecidableLT K] [LE K] [DecidableLE K]

/-- `box.ishexagonal()` with default tolerances (the test miller.py applies to four-index input). -/
def isHex (o : BoxObj K) : Bool := isHexagonal defaultRtol defaultAtol o.par

/-- `Box.identifyfamily(rtol, atol)`: a function of the CURRENT cell only. -/
def identifyFamily (rtol atol : K) (o : BoxObj K) : Option Family := C16.identifyFamily rtol atol o.par

/-- `Box.vector_crystal_to_cartesian(indices)`: `miller.vector_crystal_to_cartesian(indices, self)`;
    the origin takes no part. -/
def vectorCrystalToCartesian (atol : K) (o : BoxObj K) (idx : List K) : Except Err (V3 K) :=
  C16.vectorCrystalToCartesian atol o.isHex o.box.vects idx

/-- `Box.plane_crystal_to_cartesian(indices)` before normalisation. -/
def planeCrystalToCartesianUnnorm [IntCast K] (atol : K) (o : BoxObj K) (idx : List Int) : Except Err (V3 K) :=
  C16.planeCrystalToCartesianUnnorm atol o.isHex o.box.vects idx

/-- `Box.position_relative_to_cartesian` (the only one of these that sees the origin). -/
def relToCart (o : BoxObj K) (s : V3 K) : V3 K := o.box.relToCart s

end queries

/-- the state-changing operations on one object. -/
inductive Op (K : Type) where
  | setVects (V : M3 K) (p : CellParams K)
  | setOrigin (org : V3 K)
  | set (V : M3 K) (org : V3 K) (p : CellParams K)
  | readRecip

def step [Add K] [Sub K] [Mul K] [Div K] (o : BoxObj K) : Op K → BoxObj K
  | .setVects V p => o.setVects V p
  | .setOrigin org => o.setOrigin org
  | .set V org p => o.set V org p
  | .readRecip => o.reciprocalVects.1

/-- a history of operations applied to one object. -/
def run [Add K] [Sub K] [Mul K] [Div K] (o : BoxObj K) (ops : List (Op K)) : BoxObj K := ops.foldl step o

/-- the cache is empty or holds the reciprocal vectors of the current cell. -/
def CacheValid [Add K] [Sub K] [Mul K] [Div K] (o : BoxObj K) : Prop :=
  o.recipCache = none ∨ o.recipCache = some o.box.recip

end BoxObj

/-! ### the CALLER's memory: arrays the caller holds, calls of the functions of this property on them, and
    in-place writes by the caller.

    Every function of this property is a function of the CONTENTS of its arguments: it does not write into an
    argument, and what it returns is a new array that shares nothing with an argument or with an earlier
    result.  In a functional model this is true by construction (there is nothing a Lean function could write
    into); it is made an explicit part of the model here so that (1) it can be stated as theorems about
    histories `call → caller overwrites something → call`, and (2) the correspondence can run the same history
    on the model and on real numpy arrays (integer and float dtype, contiguous arrays and views of larger
    tables) and compare the WHOLE memory after every step: an implementation that reduces its argument in
    place, or hands out one cached array twice, differs from this model. -/

/-- arrays by address (= position); `α` is the type of an array's contents. -/
structure Mem (α : Type) where
  cells : List α

namespace Mem
variable {α : Type}

def empty : Mem α := ⟨[]⟩

def size (m : Mem α) : Nat := m.cells.length

def get? (m : Mem α) (a : Nat) : Option α := m.cells[a]?

/-- the caller creates an array; it gets the next free address. -/
def alloc (m : Mem α) (v : α) : Mem α × Nat := (⟨m.cells ++ [v]⟩, m.size)

/-- the caller overwrites, in place, an array it holds (an argument of an earlier call or a result it was
    handed): `b *= a`, `n /= norm(n)`, `t[2] = 0`. An address not in use is ignored. -/
def scribble (m : Mem α) (a : Nat) (v : α) : Mem α := ⟨m.cells.set a v⟩

/-- a call `f(array at src)`.  The result is a NEW array at the next free address; no existing array, the
    argument included, is touched; a call that raises leaves the memory as it was.
    `none` = `src` is not an address in use (harness error). -/
def call (m : Mem α) (f : α → Except Err α) (src : Nat) : Mem α × Option (Except Err (Nat × α)) :=
  match m.get? src with
  | none => (m, none)
  | some x =>
    match f x with
    | .ok r => (⟨m.cells ++ [r]⟩, some (.ok (m.size, r)))
    | .error e => (m, some (.error e))

/-- a call without array argument (`fromstring(text)`, `all_indices(m, reduce)`): `r` is what it returns. -/
def callConst (m : Mem α) (r : Except Err α) : Mem α × Except Err (Nat × α) :=
  match r with
  | .ok r => (⟨m.cells ++ [r]⟩, .ok (m.size, r))
  | .error e => (m, .error e)

/-- what can happen to the caller's memory. -/
inductive Op (α : Type) where
  | alloc (v : α)
  | scribble (a : Nat) (v : α)
  | call (f : α → Except Err α) (src : Nat)
  | callConst (r : Except Err α)

def step (m : Mem α) : Op α → Mem α
  | .alloc v => (m.alloc v).1
  | .scribble a v => m.scribble a v
  | .call f src => (m.call f src).1
  | .callConst r => (m.callConst r).1

def run (m : Mem α) (ops : List (Op α)) : Mem α := ops.foldl step m

/-- the only operation that changes the contents of the array at `a`. -/
def Op.writes (a : Nat) : Op α → Bool
  | .scribble b _ => b == a
  | _ => false

end Mem

/-- contents of one caller-side array in the driver: rows of equal width (an index set per row). -/
abbrev Rows := List (List Rat)

end Atomman.C16
