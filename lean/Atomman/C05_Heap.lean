/-
  C05 — two things the value-level model (`CSys`) does not say (core Lean only):

    * WHICH OBJECT a call works on.  `System.wrap` changes the object it is called on in place and returns nothing (or
      the image flags); `System.normalize` / `atomman.lammps.normalize` start with `system = deepcopy(system)`: they
      allocate a NEW object, work on that, hand it back and never write to the object they were given.  `Heap` is a
      store of objects addressed by their index; `wrapH` / `normalizeH` are the two calls on it.
    * THE VALUES of the per-atom properties carried along.  An object holds, beside the state `CSys` describes, the
      entries of `Atoms.view` other than the positions: `(name, one value per atom)` in insertion order (`atype` first).
      `wrap` writes `view['pos']` (through `atoms_prop`) and the box, nothing else; `normalize` copies every entry with
      `Atoms.__deepcopy__`, whose statements `<k> = deepcopy(self.view['<src>'])`, `for key in self.view: if key not in
      [...]: d[key] = deepcopy(self.view[<src>])` are read off the source by `translate()` (`WrapSource.atomsCopySource`,
      `atomsCopyLoopSource`, `atomsCopyReserved`) and run by `copyView`.

  Sources: atomman/core/System.py (`wrap`, `normalize`), atomman/lammps/normalize.py (`deepcopy(system)`),
           atomman/core/Atoms.py (`__deepcopy__`).
-/
import Atomman.C05_Src

namespace Atomman.C05
open Atomman

variable {K V α : Type}

/-! ### `Atoms.__deepcopy__` on the entries of the view -/

/-- which entry of the old view each explicitly copied key is read from: `atype = deepcopy(self.view['atype'])`,
    `pos = deepcopy(self.view['pos'])`, handed on as `Atoms(atype=atype, pos=pos, **d)`. -/
def atomsCopySource : List (String × String) := [("atype", "atype"), ("pos", "pos")]
/-- `d[key] = deepcopy(self.view[key])`: the loop stores under `key` what it read under `key`. -/
def atomsCopyLoopSource : String := "key"

/-- the entries of the copy: first the explicitly named keys (each with the value found under its source key), then every
    entry whose key is not in the loop's exclusion list, in the order of the view.  `loopSrc = "key"` is the loop reading
    the entry it is at; anything else is a fixed key the loop would read for every entry. -/
def copyView (explicit : List (String × String)) (loopSrc : String) (reserved : List String)
    (view : List (String × α)) : List (String × α) :=
  explicit.flatMap (fun ks => (view.filter (fun kv => kv.1 == ks.2)).map (fun kv => (ks.1, kv.2)))
  ++ (view.filter (fun kv => !reserved.contains kv.1)).flatMap (fun kv =>
      if loopSrc == "key" then [kv] else (view.filter (fun e => e.1 == loopSrc)).map (fun e => (kv.1, e.2)))

/-! ### objects and the store -/

/-- one `System` object: the state of `CSys` plus the entries of `atoms.view` other than `pos`. -/
structure HObj (K V : Type) where
  sys : CSys K
  /-- `(name, one value per atom)`, in the order of the view; never contains the key `pos` (that is `sys.pos`) -/
  props : List (String × List V)

/-- the store: address = index; objects are never freed. -/
abbrev Heap (K V : Type) := List (HObj K V)

/-- every property has one row per atom. -/
def HObj.RowAligned (o : HObj K V) : Prop := ∀ kv ∈ o.props, kv.2.length = o.sys.pos.length

section
variable [Add K] [Sub K] [Mul K] [Div K] [Neg K] [Zero K] [One K] [IntCast K]
  [LT K] [LE K] [DecidableLT K] [DecidableLE K]

/-- `heap[a].wrap(<flag>)`: the object at `a` is rewritten in place (box and positions; the properties are not touched),
    no object is created; what the call evaluates to is `None` or the flags.  `none` = no object at `a`. -/
def wrapH (P : Params K) (h : Heap K V) (a : Nat) (flag : Option PyVal) :
    Option (Option (List (V3 Int)) × Heap K V) :=
  match h[a]? with
  | none => none
  | some o =>
    let w := o.sys.wrapApi P flag
    some (w.1, h.set a { o with sys := w.2 })

/-- what `normalize` hands back: the address of the new object and, if asked for, the transformation. -/
structure NormRet (K V : Type) where
  heap : Heap K V
  addr : Nat
  transform : Option (M3 K)
  flags : List (V3 Int)

/-- `heap[a].normalize(<style>, <flag>)`: a refusal leaves the store as it is; otherwise ONE object is appended (the
    deep copy the work was done on: new box and positions, cache empty after the final write of the box, periodicity of
    the input, properties copied by `Atoms.__deepcopy__`) and nothing that existed is written to. -/
def normalizeH (P : Params K) (explicit : List (String × String)) (loopSrc : String) (reserved : List String)
    (h : Heap K V) (a : Nat) (style flag : Option PyVal) : Option (Except Err (NormRet K V)) :=
  match h[a]? with
  | none => none
  | some o =>
    match o.sys.normalizeApi P style flag with
    | .error e => some (.error e)
    | .ok (z, rt) =>
      some (.ok ⟨h ++ [⟨⟨z.box, none, o.sys.pbc, z.pos⟩, copyView explicit loopSrc reserved o.props⟩],
                 h.length, if rt then some z.transform else none, z.flags⟩)

end

end Atomman.C05
