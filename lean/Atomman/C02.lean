/-
  C02 — periodic separation: what sits *around* the shared `dvect`/`dmag2` loops
  (`Atomman/Dvect.lean`): lattice images with unbounded integer shifts, the wrappers'
  broadcasting rule, the index-or-position dispatch of `System.dvect/dmag` with the `len==1`
  squeeze, `displacement` with its reference box, the tie margin used by the tolerance regime.
  Core Lean only.  Sources: atomman/core/dvect.pyx, dmag.pyx, displacement.py, System.py.
-/
import Atomman.Prelude
import Atomman.Box
import Atomman.Dvect

namespace Atomman.C02

/-- an integer shift `(x, y, z)` of the three cell vectors. -/
abbrev Shift := Int × Int × Int

/-- the shift vanishes on every non-periodic axis (no bound on its size). -/
def Shift.respects (n : Shift) (px py pz : Bool) : Prop :=
  (px = false → n.1 = 0) ∧ (py = false → n.2.1 = 0) ∧ (pz = false → n.2.2 = 0)

/-- … and each component is `-1`, `0` or `1`: exactly the candidates the C loops visit
    (including the unshifted one). -/
def Shift.admissible (n : Shift) (px py pz : Bool) : Prop :=
  (n.1 = -1 ∨ n.1 = 0 ∨ n.1 = 1) ∧ (n.2.1 = -1 ∨ n.2.1 = 0 ∨ n.2.1 = 1) ∧
  (n.2.2 = -1 ∨ n.2.2 = 0 ∨ n.2.2 = 1) ∧ n.respects px py pz

section
variable {K : Type} [Add K] [Sub K] [Mul K] [IntCast K] [LT K] [DecidableLT K]

/-- `n · vects = n₀ a + n₁ b + n₂ c`. -/
@[inline] def latticeVec (vects : M3 K) (n : Shift) : V3 K :=
  M3.vecMul ⟨(n.1 : K), (n.2.1 : K), (n.2.2 : K)⟩ vects

/-- the point lies in the closed cell: relative coordinates `0 ≤ s ≤ 1` on all three axes. -/
def InCell [Div K] [LE K] [Zero K] [One K] (b : Box K) (p : V3 K) : Prop :=
  let s := b.cartToRel p
  (0 ≤ s.x ∧ s.x ≤ 1) ∧ (0 ≤ s.y ∧ s.y ≤ 1) ∧ (0 ≤ s.z ∧ s.z ≤ 1)

/-! ### wrappers `dvect(pos_0, pos_1, box, pbc)` / `dmag(...)`: broadcasting -/

/-- `if len(pos_0) == 1: broadcast pos_0; elif len(pos_1) == 1: broadcast pos_1;
    elif len(pos_0) != len(pos_1): raise ValueError`. -/
def broadcast {α : Type} (a b : List α) : Option (List (α × α)) :=
  match a, b with
  | [x], _ => some (b.map fun y => (x, y))
  | _, [y] => some (a.map fun x => (x, y))
  | _, _ => if a.length = b.length then some (a.zip b) else none

def dvectArr (vects : M3 K) (px py pz : Bool) (pos0 pos1 : List (V3 K)) : Option (List (V3 K)) :=
  (broadcast pos0 pos1).map fun l => l.map fun pq => dvect vects px py pz pq.1 pq.2

/-- squared values of `dmag` (the wrapper returns `dmag2_c(...) ** 0.5`). -/
def dmag2Arr (vects : M3 K) (px py pz : Bool) (pos0 pos1 : List (V3 K)) : Option (List K) :=
  (broadcast pos0 pos1).map fun l => l.map fun pq => dmag2 vects px py pz pq.1 pq.2

/-! ### tie margin (tolerance regime of the correspondence) -/

/-- all candidates in loop order, the unshifted one first. -/
def candidates (px py pz : Bool) : List Shift := (0, 0, 0) :: imageShifts px py pz

/-- smallest excess squared length of a candidate whose vector differs from the chosen one;
    `none` if every candidate equals the result (e.g. no periodic direction). -/
def tieMargin [DecidableEq K] (vects : M3 K) (px py pz : Bool) (p0 p1 : V3 K) : Option K :=
  let d0 := p1 - p0
  let r := dvect vects px py pz p0 p1
  let m := V3.normSq r
  (candidates px py pz).foldl (fun acc s =>
    let t := shiftBy vects d0 s
    if t = r then acc else
      let e := V3.normSq t - m
      match acc with
      | none => some e
      | some a => if e < a then some e else some a) none

/-! ### `System.dvect` / `System.dmag`: index-or-position dispatch, squeeze -/

/-- what a caller may pass as `pos_0` / `pos_1`. -/
inductive Sel (K : Type) where
  | idx (i : Int)                                   -- python int / numpy integer scalar
  | slice (start stop : Option Int) (step : Option Int)   -- python slice
  | list (l : List Int)                             -- list / 1-D int array used as an index
  | tuple (l : List Int)                            -- python tuple of ints: a multi-axis index
  | ipos (rows : List (Int × Int × Int))            -- (k,3) array of integer dtype (integer-valued positions)
  | pos (l : List (V3 K))                           -- explicit float position(s)

/-- `slice(start, stop, step).indices(n)` expanded (CPython `PySlice_AdjustIndices`);
    `none` for `step == 0` (ValueError). -/
def sliceIndices (n : Nat) (start stop step : Option Int) : Option (List Nat) :=
  let st : Int := step.getD 1
  let n' : Int := n
  if st = 0 then none
  else if 0 < st then
    let norm (v : Int) : Int := if v < 0 then max (v + n') 0 else min v n'
    let lo := match start with | none => 0 | some v => norm v
    let hi := match stop with | none => n' | some v => norm v
    let cnt := if lo < hi then ((hi - lo + st - 1) / st).toNat else 0
    some ((List.range cnt).map fun (k : Nat) => (lo + (k : Int) * st).toNat)
  else
    let norm (v : Int) : Int := if v < 0 then max (v + n') (-1) else min v (n' - 1)
    let lo := match start with | none => n' - 1 | some v => norm v
    let hi := match stop with | none => -1 | some v => norm v
    let cnt := if hi < lo then ((lo - hi + (-st) - 1) / (-st)).toNat else 0
    some ((List.range cnt).map fun (k : Nat) => (lo + (k : Int) * st).toNat)

/-- python index wrap: `-n ≤ i < n`. -/
def wrapIndex (n : Nat) (i : Int) : Option Nat :=
  if 0 ≤ i ∧ i < (n : Int) then some i.toNat
  else if i < 0 ∧ -(n : Int) ≤ i then some (i + (n : Int)).toNat
  else none

/-- `try: self.atoms.pos[sel]  except: np.asarray(sel)` followed by the wrapper's own checks.
    Errors: `type` — a 0-d value reaches `dvect` (out-of-range int, bad slice, a 2-tuple that
    addresses one coordinate); `value` — a 3-d array reaches `dvect` (an integer (k,3) array whose
    entries are all usable as indices is taken as a fancy index: shape (k,3,3));
    `undefined` — the real code would read out of bounds (never generated by the harness). -/
def select (atoms : List (V3 K)) : Sel K → Except String (List (V3 K))
  | .idx i =>
    match wrapIndex atoms.length i with
    | some k => match atoms[k]? with
      | some p => .ok [p]
      | none => .error "type"
    | none => .error "type"
  | .slice a b c =>
    match sliceIndices atoms.length a b c with
    | some ks => .ok (ks.filterMap fun k => atoms[k]?)
    | none => .error "type"
  | .list l =>
    match l.mapM (wrapIndex atoms.length) with
    | some ks => .ok (ks.filterMap fun k => atoms[k]?)
    | none =>
      -- not usable as an index: `np.asarray(l)` is taken as ONE position if it has 3 entries
      match l with
      | [a, b, c] => .ok [⟨(a : K), (b : K), (c : K)⟩]
      | _ => .error "undefined"
  | .tuple l =>
    match l with
    | [i] =>                      -- `pos[(i,)]` is `pos[i]`
      match wrapIndex atoms.length i with
      | some k => match atoms[k]? with
        | some p => .ok [p]
        | none => .error "undefined"
      | none => .error "undefined"
    | [i, j] =>                   -- `pos[i, j]`: one coordinate, a 0-d value
      match wrapIndex atoms.length i, wrapIndex 3 j with
      | some _, some _ => .error "type"
      | _, _ => .error "undefined"
    | [a, b, c] => .ok [⟨(a : K), (b : K), (c : K)⟩]   -- too many indices -> `np.asarray`: ONE position
    | _ => .error "undefined"
  | .ipos rows =>
    let flat := rows.flatMap fun r => [r.1, r.2.1, r.2.2]
    match flat.mapM (wrapIndex atoms.length) with
    | some _ => .error "value"    -- a valid fancy index: (k,3,3) reaches the wrapper
    | none => .ok (rows.map fun r => ⟨(r.1 : K), (r.2.1 : K), (r.2.2 : K)⟩)
  | .pos l => .ok l

/-- both arguments are converted before the wrapper looks at either; the wrapper then rejects a
    0-d `pos_0`, a 0-d `pos_1` (TypeError) before anything that depends on the shapes (ValueError). -/
def selectBoth (atoms : List (V3 K)) (s0 s1 : Sel K) : Except String (List (V3 K) × List (V3 K)) :=
  match select atoms s0, select atoms s1 with
  | .ok a, .ok b => .ok (a, b)
  | .error e0, .ok _ => .error e0
  | .ok _, .error e1 => .error e1
  | .error e0, .error e1 =>
    if e0 = "undefined" ∨ e1 = "undefined" then .error "undefined"
    else if e0 = "type" ∨ e1 = "type" then .error "type"
    else .error e0

/-- `(squeezed?, values)`: `if len(vects) == 1: return vects[0]`. -/
def squeeze {α : Type} (l : List α) : Bool × List α := (l.length == 1, l)

def sysDvect (atoms : List (V3 K)) (vects : M3 K) (px py pz : Bool) (s0 s1 : Sel K) :
    Except String (Bool × List (V3 K)) := do
  let (a, b) ← selectBoth atoms s0 s1
  match dvectArr vects px py pz a b with
  | some r => pure (squeeze r)
  | none => throw "value"

def sysDmag2 (atoms : List (V3 K)) (vects : M3 K) (px py pz : Bool) (s0 s1 : Sel K) :
    Except String (Bool × List K) := do
  let (a, b) ← selectBoth atoms s0 s1
  match dmag2Arr vects px py pz a b with
  | some r => pure (squeeze r)
  | none => throw "value"

/-! ### `displacement(system_0, system_1, box_reference)` -/

/-- what `displacement` reads of a system: cell vectors, pbc, positions. -/
structure Sys (K : Type) where
  vects : M3 K
  px : Bool
  py : Bool
  pz : Bool
  pos : List (V3 K)

/-- atom-by-atom separation under the chosen cell (`none` = plain difference). -/
def dispWith (ref : Option (M3 K × Bool × Bool × Bool)) (a b : V3 K) : V3 K :=
  match ref with
  | none => b - a
  | some (v, px, py, pz) => dvect v px py pz a b

/-- which cell `box_reference` selects: `'final'` → system_1's, `'initial'` → system_0's,
    `None` → no cell (plain difference); anything else is rejected (outer `none`). -/
def refBox (s0 s1 : Sys K) (boxReference : String) : Option (Option (M3 K × Bool × Bool × Bool)) :=
  if boxReference = "final" then some (some (s1.vects, s1.px, s1.py, s1.pz))
  else if boxReference = "initial" then some (some (s0.vects, s0.px, s0.py, s0.pz))
  else if boxReference = "None" then some none
  else none

/-- `Except`: `value` for different atom counts (checked first) or an unknown `box_reference`. -/
def displacement (s0 s1 : Sys K) (boxReference : String) : Except String (List (V3 K)) :=
  if s0.pos.length ≠ s1.pos.length then .error "value"
  else match refBox s0 s1 boxReference with
    | some rb => .ok (List.zipWith (dispWith rb) s0.pos s1.pos)
    | none => .error "value"

/-! ### API level: what a caller may hand to `atomman.dvect` / `atomman.dmag` (the wrappers' own argument handling)

  `np.asarray(pos, dtype=float64)`, the `ndim == 0` refusal, the `ndim == 1` → `[np.newaxis, :]` step, the broadcasting
  chain, `pbc[0], pbc[1], pbc[2]` coerced to C `bint` (truth value), the typed-memoryview coercion `const double[:,:]`
  of the kernel (any other rank: ValueError).  `Atomman/Generated/DvectSource.lean` is regenerated from the source in
  terms of these primitives and proved equal to `dvectApi` / `dmag2Api` below (`Proofs/C02_Source.lean`). -/

/-- the shapes `np.asarray(pos, dtype=float64)` can have that the real code handles in a defined way. -/
inductive PosArg (K : Type) where
  | scalar                        -- 0-d (a python number, an out-of-range index converted by `np.asarray`)
  | flat (p : V3 K)               -- shape (3,): one point
  | rows (l : List (V3 K))        -- shape (n,3)
  | rank3 (n : Nat)               -- shape (n,3,3) (a fancy index of integer triples applied to `atoms.pos`)

namespace PosArg
def ndim : PosArg K → Nat
  | .scalar => 0 | .flat _ => 1 | .rows _ => 2 | .rank3 _ => 3
/-- `pos[np.newaxis, :]` (applied by the wrappers only when `ndim == 1`). -/
def newaxis : PosArg K → PosArg K
  | .flat p => .rows [p] | a => a
/-- `len(pos)` (never asked of a 0-d value). -/
def len : PosArg K → Nat
  | .scalar => 0 | .flat _ => 3 | .rows l => l.length | .rank3 n => n
/-- `np.broadcast_to(a, b.shape)` for an `a` of length 1; numpy's ValueError is `err:value`. -/
def bcast (a b : PosArg K) : Except String (PosArg K) :=
  match a, b with
  | .rows [x], .rows l => .ok (.rows (l.map fun _ => x))
  | .rows [_], .rank3 n => .ok (.rank3 n)
  | .rank3 (.succ .zero), .rank3 n => .ok (.rank3 n)
  | _, _ => .error "value"
/-- the rows the kernel will see for an argument the wrapper accepts on its own (`none`: 0-d or rank 3). -/
def rowsOf : PosArg K → Option (List (V3 K))
  | .flat p => some [p] | .rows l => some l | _ => none
end PosArg

/-- `pbc[k]` handed to a `bint` parameter: the truth value of the entry; a missing entry is an unchecked read
    (`@cython.boundscheck(False)`), `none`. -/
def flagAt (pbc : List Int) (k : Nat) : Option Bool := pbc[k]?.map fun v => v != 0

/-- the kernel call: both arguments are coerced to `const double[:,:]` (another rank: ValueError), the loop runs over
    `pos_0.shape[0]` rows and reads row `i` of both (a shorter `pos_1` would be an unchecked read). -/
def kernelCall {α : Type} (f : V3 K → V3 K → α) (a b : PosArg K) : Except String (List α) :=
  match a, b with
  | .rows l0, .rows l1 => if l1.length < l0.length then .error "undefined" else .ok (List.zipWith f l0 l1)
  | _, _ => .error "value"

/-- hand model of the argument handling shared by `dvect()` and `dmag()`: the pairs the kernel sees. -/
def apiPairs (a0 a1 : PosArg K) : Except String (List (V3 K × V3 K)) :=
  match a0, a1 with
  | .scalar, _ => .error "type"
  | _, .scalar => .error "type"
  | .rank3 _, _ => .error "value"
  | _, .rank3 _ => .error "value"
  | .flat p, .flat q => .ok [(p, q)]
  | .flat p, .rows l => .ok (l.map fun q => (p, q))
  | .rows l, .flat q => match broadcast l [q] with | some r => .ok r | none => .error "value"
  | .rows l0, .rows l1 => match broadcast l0 l1 with | some r => .ok r | none => .error "value"

/-- the three flags the kernel receives (`none`: fewer than three entries, undefined behaviour of the real code). -/
def apiFlags (pbc : List Int) : Option (Bool × Bool × Bool) :=
  match pbc with
  | a :: b :: c :: _ => some (a != 0, b != 0, c != 0)
  | _ => none

/-- `atomman.dvect(pos_0, pos_1, box, pbc)` as a caller sees it. -/
def dvectApi (vects : M3 K) (pbc : List Int) (a0 a1 : PosArg K) : Except String (List (V3 K)) :=
  match apiPairs a0 a1 with
  | .error e => .error e
  | .ok l => match apiFlags pbc with
    | none => .error "undefined"
    | some (px, py, pz) => .ok (l.map fun pq => dvect vects px py pz pq.1 pq.2)

/-- `atomman.dmag(pos_0, pos_1, box, pbc)`, squared (the wrapper returns `dmag2_c(...) ** 0.5`). -/
def dmag2Api (vects : M3 K) (pbc : List Int) (a0 a1 : PosArg K) : Except String (List K) :=
  match apiPairs a0 a1 with
  | .error e => .error e
  | .ok l => match apiFlags pbc with
    | none => .error "undefined"
    | some (px, py, pz) => .ok (l.map fun pq => dmag2 vects px py pz pq.1 pq.2)

/-- `System.natoms`. -/
def Sys.natoms (s : Sys K) : Nat := s.pos.length
/-- `System.pbc` as the wrapper reads it: a bool array, entries 0/1. -/
def Sys.flags (s : Sys K) : List Int := [if s.px then 1 else 0, if s.py then 1 else 0, if s.pz then 1 else 0]

/-- `System.pbc = value`: `np.asarray(value, dtype=bool)`, `assert pbc.shape == (3,)`. -/
def pbcSetterArg (value : List Int) : Option (Bool × Bool × Bool) :=
  match value with
  | [a, b, c] => some (a != 0, b != 0, c != 0)
  | _ => none

/-! ### objects with state: `Box` and `System` are mutable, several Systems may hold the SAME Box

  `System(box=B)` keeps the object `B` itself, `System.box` hands it out, `Box.vects = …`,
  `Box.origin = …`, `Box.set(…)` and `System.box_set(…)` change it in place; `System.pbc` hands
  out the live flag array (`system.pbc[k] = flag` edits it in place), `System.atoms.pos` the live
  position array.  Every query (`atomman.dvect/dmag` with a Box object, `System.dvect/dmag`,
  `atomman.displacement`) reads the values the objects hold *at the time of the call*. -/

/-- a System: which Box object it holds (index into the heap of boxes), its flags, its positions. -/
structure SysSt (K : Type) where
  box : Nat
  px : Bool
  py : Bool
  pz : Bool
  pos : List (V3 K)

/-- the heap: Box objects and System objects in creation order. -/
structure World (K : Type) where
  boxes : List (Box K)
  systems : List (SysSt K)

/-- state-changing operations. -/
inductive Op (K : Type) where
  | newBox (v : M3 K) (o : V3 K)                               -- `Box(vects=v, origin=o)`
  | newSys (box : Nat) (px py pz : Bool) (pos : List (V3 K))   -- `System(atoms, box=B, pbc)`
  | boxVects (b : Nat) (v : M3 K)                              -- `B.vects = v` (origin kept)
  | boxOrigin (b : Nat) (o : V3 K)                             -- `B.origin = o` / `B.set(origin=o)`
  | boxSet (b : Nat) (v : M3 K) (o : V3 K)                     -- `B.set(vects=v, origin=o)` and the other complete forms
  | sysBoxSet (s : Nat) (v : M3 K) (o : V3 K) (scale : Bool)   -- `S.box_set(vects=v, origin=o, scale=…)`
  | pbcSet (s : Nat) (px py pz : Bool)                         -- `S.pbc = (…)`
  | pbcEdit (s : Nat) (axis : Nat) (flag : Bool)               -- `S.pbc[axis] = flag`
  | posEdit (s : Nat) (i : Nat) (p : V3 K)                     -- `S.atoms.pos[i] = p`
  | posSet (s : Nat) (pos : List (V3 K))                       -- `S.atoms.pos[:] = …` (same number of atoms)

/-- replace entry `i` (`none` if there is no such entry). -/
def setAt {α : Type} (l : List α) (i : Nat) (a : α) : Option (List α) :=
  if i < l.length then some (l.set i a) else none

def SysSt.setFlag (st : SysSt K) (axis : Nat) (flag : Bool) : Option (SysSt K) :=
  match axis with
  | 0 => some { st with px := flag }
  | 1 => some { st with py := flag }
  | 2 => some { st with pz := flag }
  | _ => none

namespace World

def empty : World K := ⟨[], []⟩

/-- one operation; `none` when it names an object / atom / axis that does not exist. -/
def step [Div K] (w : World K) : Op K → Option (World K)
  | .newBox v o => some { w with boxes := w.boxes ++ [⟨v, o⟩] }
  | .newSys b px py pz pos =>
    if b < w.boxes.length then some { w with systems := w.systems ++ [⟨b, px, py, pz, pos⟩] } else none
  | .boxVects b v => do
    let old ← w.boxes[b]?
    let bs ← setAt w.boxes b ⟨v, old.origin⟩
    pure { w with boxes := bs }
  | .boxOrigin b o => do
    let old ← w.boxes[b]?
    let bs ← setAt w.boxes b ⟨old.vects, o⟩
    pure { w with boxes := bs }
  | .boxSet b v o => do
    let bs ← setAt w.boxes b ⟨v, o⟩
    pure { w with boxes := bs }
  | .sysBoxSet s v o scale => do
    let st ← w.systems[s]?
    let old ← w.boxes[st.box]?
    let bs ← setAt w.boxes st.box ⟨v, o⟩
    if scale then
      -- only THIS system's positions follow the cell; others holding the same Box keep theirs
      let pos := st.pos.map fun p => Box.relToCart ⟨v, o⟩ (old.cartToRel p)
      let ss ← setAt w.systems s { st with pos := pos }
      pure ⟨bs, ss⟩
    else pure { w with boxes := bs }
  | .pbcSet s px py pz => do
    let st ← w.systems[s]?
    let ss ← setAt w.systems s { st with px := px, py := py, pz := pz }
    pure { w with systems := ss }
  | .pbcEdit s axis flag => do
    let st ← w.systems[s]?
    let st' ← st.setFlag axis flag
    let ss ← setAt w.systems s st'
    pure { w with systems := ss }
  | .posEdit s i p => do
    let st ← w.systems[s]?
    let ps ← setAt st.pos i p
    let ss ← setAt w.systems s { st with pos := ps }
    pure { w with systems := ss }
  | .posSet s pos => do
    let st ← w.systems[s]?
    if pos.length ≠ st.pos.length then none else
    let ss ← setAt w.systems s { st with pos := pos }
    pure { w with systems := ss }

/-! the three things `System.box_set` does, as separate primitives (the generated `sysBoxSet` of
    `Generated/DvectSource.lean` composes them in the order the SOURCE has them) -/

/-- `self.atoms_prop('pos', scale=True)`: the positions relative to the Box the System holds NOW. -/
def sposOf [Div K] (w : World K) (s : Nat) : Option (List (V3 K)) := do
  let st ← w.systems[s]?
  let b ← w.boxes[st.box]?
  pure (st.pos.map b.cartToRel)

/-- `self.box.set(vects=v, origin=o)`: the Box OBJECT the System holds is changed in place. -/
def boxSetOf (w : World K) (s : Nat) (v : M3 K) (o : V3 K) : Option (World K) := do
  let st ← w.systems[s]?
  let bs ← setAt w.boxes st.box ⟨v, o⟩
  pure { w with boxes := bs }

/-- `self.atoms_prop('pos', value=spos, scale=True)`: Cartesian positions from relative ones under the Box held NOW;
    only THIS System's positions change. -/
def setSpos (w : World K) (s : Nat) (spos : List (V3 K)) : Option (World K) := do
  let st ← w.systems[s]?
  let b ← w.boxes[st.box]?
  let ss ← setAt w.systems s { st with pos := spos.map b.relToCart }
  pure { w with systems := ss }

/-- a whole history. -/
def run [Div K] (w : World K) : List (Op K) → Option (World K)
  | [] => some w
  | op :: ops => (w.step op).bind fun w' => run w' ops

/-- what `displacement` / `System.dvect` read of system `s` right now. -/
def sysView (w : World K) (s : Nat) : Option (Sys K) := do
  let st ← w.systems[s]?
  let b ← w.boxes[st.box]?
  pure ⟨b.vects, st.px, st.py, st.pz, st.pos⟩

/-- `atomman.dvect(pos0, pos1, B, pbc)` with the Box object `B`. -/
def arrDvect (w : World K) (b : Nat) (px py pz : Bool) (pos0 pos1 : List (V3 K)) : Except String (List (V3 K)) :=
  match w.boxes[b]? with
  | none => .error "op"
  | some bx => match dvectArr bx.vects px py pz pos0 pos1 with
    | some r => .ok r
    | none => .error "value"

/-- `atomman.dmag(pos0, pos1, B, pbc)`, squared. -/
def arrDmag2 (w : World K) (b : Nat) (px py pz : Bool) (pos0 pos1 : List (V3 K)) : Except String (List K) :=
  match w.boxes[b]? with
  | none => .error "op"
  | some bx => match dmag2Arr bx.vects px py pz pos0 pos1 with
    | some r => .ok r
    | none => .error "value"

/-- `S.dvect(sel0, sel1)`. -/
def sysDvect (w : World K) (s : Nat) (s0 s1 : Sel K) : Except String (Bool × List (V3 K)) :=
  match w.sysView s with
  | none => .error "op"
  | some v => C02.sysDvect v.pos v.vects v.px v.py v.pz s0 s1

/-- `S.dmag(sel0, sel1)`, squared. -/
def sysDmag2 (w : World K) (s : Nat) (s0 s1 : Sel K) : Except String (Bool × List K) :=
  match w.sysView s with
  | none => .error "op"
  | some v => C02.sysDmag2 v.pos v.vects v.px v.py v.pz s0 s1

/-- `atomman.displacement(S0, S1, box_reference)`. -/
def disp (w : World K) (s0 s1 : Nat) (ref : String) : Except String (List (V3 K)) :=
  match w.sysView s0, w.sysView s1 with
  | some a, some b => displacement a b ref
  | _, _ => .error "op"

end World

end
end Atomman.C02
