/-
  C02 — periodic separation: what sits *around* the shared `dvect`/`dmag2` loops
  (`Atomman/Dvect.lean`): lattice images with unbounded integer shifts, the wrappers'
  broadcasting rule, the index-or-position dispatch of `System.dvect/dmag` with the `len==1`
  squeeze, `displacement` with its reference box, the tie margin used by the tolerance regime.
  Core Lean only.  Sources: atomman/core/dvect.pyx, dmag.pyx, displacement.py, System.py.
-/
import Atomman.Prelude
import Atomman.Box
import Atomman.Dvect

namespace Atomman.C02

/-- an integer shift `(x, y, z)` of the three cell vectors. -/
abbrev Shift := Int × Int × Int

/-- the shift vanishes on every non-periodic axis (no bound on its size). -/
def Shift.respects (n : Shift) (px py pz : Bool) : Prop :=
  (px = false → n.1 = 0) ∧ (py = false → n.2.1 = 0) ∧ (pz = false → n.2.2 = 0)

/-- … and each component is `-1`, `0` or `1`: exactly the candidates the C loops visit
    (including the unshifted one). -/
def Shift.admissible (n : Shift) (px py pz : Bool) : Prop :=
  (n.1 = -1 ∨ n.1 = 0 ∨ n.1 = 1) ∧ (n.2.1 = -1 ∨ n.2.1 = 0 ∨ n.2.1 = 1) ∧
  (n.2.2 = -1 ∨ n.2.2 = 0 ∨ n.2.2 = 1) ∧ n.respects px py pz

section
variable {K : Type} [Add K] [Sub K] [Mul K] [IntCast K] [LT K] [DecidableLT K]

/-- `n · vects = n₀ a + n₁ b + n₂ c`. -/
@[inline] def latticeVec (vects : M3 K) (n : Shift) : V3 K :=
  M3.vecMul ⟨(n.1 : K), (n.2.1 : K), (n.2.2 : K)⟩ vects

/-- the point lies in the closed cell: relative coordinates `0 ≤ s ≤ 1` on all three axes. -/
def InCell [Div K] [LE K] [Zero K] [One K] (b : Box K) (p : V3 K) : Prop :=
  let s := b.cartToRel p
  (0 ≤ s.x ∧ s.x ≤ 1) ∧ (0 ≤ s.y ∧ s.y ≤ 1) ∧ (0 ≤ s.z ∧ s.z ≤ 1)

/-! ### wrappers `dvect(pos_0, pos_1, box, pbc)` / `dmag(...)`: broadcasting -/

/-- `if len(pos_0) == 1: broadcast pos_0; elif len(pos_1) == 1: broadcast pos_1;
    elif len(pos_0) != len(pos_1): raise ValueError`. -/
def broadcast {α : Type} (a b : List α) : Option (List (α × α)) :=
  match a, b with
  | [x], _ => some (b.map fun y => (x, y))
  | _, [y] => some (a.map fun x => (x, y))
  | _, _ => if a.length = b.length then some (a.zip b) else none

def dvectArr (vects : M3 K) (px py pz : Bool) (pos0 pos1 : List (V3 K)) : Option (List (V3 K)) :=
  (broadcast pos0 pos1).map fun l => l.map fun pq => dvect vects px py pz pq.1 pq.2

/-- squared values of `dmag` (the wrapper returns `dmag2_c(...) ** 0.5`). -/
def dmag2Arr (vects : M3 K) (px py pz : Bool) (pos0 pos1 : List (V3 K)) : Option (List K) :=
  (broadcast pos0 pos1).map fun l => l.map fun pq => dmag2 vects px py pz pq.1 pq.2

/-! ### tie margin (tolerance regime of the correspondence) -/

/-- all candidates in loop order, the unshifted one first. -/
def candidates (px py pz : Bool) : List Shift := (0, 0, 0) :: imageShifts px py pz

/-- smallest excess squared length of a candidate whose vector differs from the chosen one;
    `none` if every candidate equals the result (e.g. no periodic direction). -/
def tieMargin [DecidableEq K] (vects : M3 K) (px py pz : Bool) (p0 p1 : V3 K) : Option K :=
  let d0 := p1 - p0
  let r := dvect vects px py pz p0 p1
  let m := V3.normSq r
  (candidates px py pz).foldl (fun acc s =>
    let t := shiftBy vects d0 s
    if t = r then acc else
      let e := V3.normSq t - m
      match acc with
      | none => some e
      | some a => if e < a then some e else some a) none

/-! ### `System.dvect` / `System.dmag`: index-or-position dispatch, squeeze -/

/-- what a caller may pass as `pos_0` / `pos_1`. -/
inductive Sel (K : Type) where
  | idx (i : Int)                                   -- python int
  | slice (start stop : Option Int) (step : Option Int)   -- python slice
  | list (l : List Int)                             -- list / int array used as an index
  | pos (l : List (V3 K))                           -- explicit float position(s)

/-- `slice(start, stop, step).indices(n)` expanded (CPython `PySlice_AdjustIndices`);
    `none` for `step == 0` (ValueError). -/
def sliceIndices (n : Nat) (start stop step : Option Int) : Option (List Nat) :=
  let st : Int := step.getD 1
  let n' : Int := n
  if st = 0 then none
  else if 0 < st then
    let norm (v : Int) : Int := if v < 0 then max (v + n') 0 else min v n'
    let lo := match start with | none => 0 | some v => norm v
    let hi := match stop with | none => n' | some v => norm v
    let cnt := if lo < hi then ((hi - lo + st - 1) / st).toNat else 0
    some ((List.range cnt).map fun (k : Nat) => (lo + (k : Int) * st).toNat)
  else
    let norm (v : Int) : Int := if v < 0 then max (v + n') (-1) else min v (n' - 1)
    let lo := match start with | none => n' - 1 | some v => norm v
    let hi := match stop with | none => -1 | some v => norm v
    let cnt := if hi < lo then ((lo - hi + (-st) - 1) / (-st)).toNat else 0
    some ((List.range cnt).map fun (k : Nat) => (lo + (k : Int) * st).toNat)

/-- python index wrap: `-n ≤ i < n`. -/
def wrapIndex (n : Nat) (i : Int) : Option Nat :=
  if 0 ≤ i ∧ i < (n : Int) then some i.toNat
  else if i < 0 ∧ -(n : Int) ≤ i then some (i + (n : Int)).toNat
  else none

/-- `try: self.atoms.pos[sel]  except: np.asarray(sel)` followed by the wrapper's own checks.
    Errors: `type` — a 0-d value reaches `dvect` (out-of-range int, bad slice);
    `undefined` — the real code would read out of bounds (never generated by the harness). -/
def select (atoms : List (V3 K)) : Sel K → Except String (List (V3 K))
  | .idx i =>
    match wrapIndex atoms.length i with
    | some k => match atoms[k]? with
      | some p => .ok [p]
      | none => .error "type"
    | none => .error "type"
  | .slice a b c =>
    match sliceIndices atoms.length a b c with
    | some ks => .ok (ks.filterMap fun k => atoms[k]?)
    | none => .error "type"
  | .list l =>
    match l.mapM (wrapIndex atoms.length) with
    | some ks => .ok (ks.filterMap fun k => atoms[k]?)
    | none =>
      -- not usable as an index: `np.asarray(l)` is taken as ONE position if it has 3 entries
      match l with
      | [a, b, c] => .ok [⟨(a : K), (b : K), (c : K)⟩]
      | _ => .error "undefined"
  | .pos l => .ok l

/-- `(squeezed?, values)`: `if len(vects) == 1: return vects[0]`. -/
def squeeze {α : Type} (l : List α) : Bool × List α := (l.length == 1, l)

def sysDvect (atoms : List (V3 K)) (vects : M3 K) (px py pz : Bool) (s0 s1 : Sel K) :
    Except String (Bool × List (V3 K)) := do
  let a ← select atoms s0
  let b ← select atoms s1
  match dvectArr vects px py pz a b with
  | some r => pure (squeeze r)
  | none => throw "value"

def sysDmag2 (atoms : List (V3 K)) (vects : M3 K) (px py pz : Bool) (s0 s1 : Sel K) :
    Except String (Bool × List K) := do
  let a ← select atoms s0
  let b ← select atoms s1
  match dmag2Arr vects px py pz a b with
  | some r => pure (squeeze r)
  | none => throw "value"

/-! ### `displacement(system_0, system_1, box_reference)` -/

/-- what `displacement` reads of a system: cell vectors, pbc, positions. -/
structure Sys (K : Type) where
  vects : M3 K
  px : Bool
  py : Bool
  pz : Bool
  pos : List (V3 K)

/-- atom-by-atom separation under the chosen cell (`none` = plain difference). -/
def dispWith (ref : Option (M3 K × Bool × Bool × Bool)) (a b : V3 K) : V3 K :=
  match ref with
  | none => b - a
  | some (v, px, py, pz) => dvect v px py pz a b

/-- which cell `box_reference` selects: `'final'` → system_1's, `'initial'` → system_0's,
    `None` → no cell (plain difference); anything else is rejected (outer `none`). -/
def refBox (s0 s1 : Sys K) (boxReference : String) : Option (Option (M3 K × Bool × Bool × Bool)) :=
  if boxReference = "final" then some (some (s1.vects, s1.px, s1.py, s1.pz))
  else if boxReference = "initial" then some (some (s0.vects, s0.px, s0.py, s0.pz))
  else if boxReference = "None" then some none
  else none

/-- `Except`: `value` for different atom counts (checked first) or an unknown `box_reference`. -/
def displacement (s0 s1 : Sys K) (boxReference : String) : Except String (List (V3 K)) :=
  if s0.pos.length ≠ s1.pos.length then .error "value"
  else match refBox s0 s1 boxReference with
    | some rb => .ok (List.zipWith (dispWith rb) s0.pos s1.pos)
    | none => .error "value"

end
end Atomman.C02
