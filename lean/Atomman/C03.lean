/-
  C03 — model of `atomman.core.nlist.nlist`, `atomman.core.NeighborList` (core Lean only, exact over `Rat`).

  Source: atomman/core/nlist.pyx, atomman/core/NeighborList.py, atomman/core/dmag.pyx (through
  `Atomman.dmag2` of Atomman/Dvect.lean: same loops, same order, same strict `<`).

  Pipeline of `nlist` as coded:
    1. superbox: min / max over the 8 cell corners, padded by `1.01 * cutoff`              (`mkGrid`)
    2. bin edges `supermin + k * cutoff` (`np.arange`), `np.digitize(x, edges) - 1`          (`binIdx`)
    3. ghost images over the pbc shift loops, kept when *strictly* inside the superbox       (`ghostEntries`)
    4. bins filled in the order real atoms, ghosts                                           (`members`)
    5. sweep over every occupied bin (real or ghost): own bin + the 13 stencil bins visited
       before the centre bin; pairs `(short[u], long[v])`, `v > u`                            (`cands`)
    6. distance test with `dmag2` on the *real* indices, strict `<`, `uindex != vindex`       (`accept`)
    7. sorted symmetric insertion, once as growing lists (`insertPairL`) and once on
       fixed-capacity rows `[count, n1, n2, …, junk…]` with `initialsize`/`deltasize`
       growth exactly as coded (`insertPairA`)
  `NeighborList`: `coord = nlist[:,0]`, `[i] = nlist[i, 1:][:coord[i]]` (`absRow`); text `dump`/`load`
  (`render`/`parse`).

  Not modelled: the order in which `np.unique` (byte-wise sort of the int64 triples) hands the occupied
  bins to the sweep — `alg_eq_compared` (Proofs/C03.lean) shows the result does not depend on the order of
  the compared pairs.  The bin table `xyzbins` is modelled twice: bins as lists (`members`) and as
  fixed-capacity rows `[count, a_1, …]` with the growth test / widths / copy loop taken from the source by the
  translator (`Generated/NlistStorage.lean`, `fillBins`, `membersA`); `bins_refine` (Proofs) shows both agree.
  The per-atom array growth constants of the source are tied to `insertPairA` by `nbr_growth_as_modelled`.

  Object level: `Op`, `applyOp`, `answers` — a `System` is its current (box, pbc, positions); every
  `neighborlist` call is answered from the state at the time of the call.
-/
import Atomman.Prelude
import Atomman.Dvect
import Atomman.Generated.NlistStorage
import Atomman.Generated.NlistSource

namespace Atomman.C03

abbrev Idx := Int × Int × Int

/-- what `nlist` reads from the `System`. -/
structure Sys where
  vects : M3 Rat
  origin : V3 Rat
  px : Bool
  py : Bool
  pz : Bool
  pos : List (V3 Rat)

namespace Sys
def natoms (S : Sys) : Nat := S.pos.length
def posOf (S : Sys) (i : Nat) : V3 Rat := S.pos.getD i ⟨0, 0, 0⟩
end Sys

/-! ### 1. superbox -/

/-- coefficient triples `(x, y, z)` in the order of the loops `for z … for y … for x`. -/
def cornerCoeffs : List (Rat × Rat × Rat) :=
  [(0, 0, 0), (1, 0, 0), (0, 1, 0), (1, 1, 0), (0, 0, 1), (1, 0, 1), (0, 1, 1), (1, 1, 1)]

/-- `origin[j] + x * vects[0, j] + y * vects[1, j] + z * vects[2, j]`. -/
def cornerAt (S : Sys) (c : Rat × Rat × Rat) : V3 Rat :=
  ⟨S.origin.x + c.1 * S.vects.r0.x + c.2.1 * S.vects.r1.x + c.2.2 * S.vects.r2.x,
   S.origin.y + c.1 * S.vects.r0.y + c.2.1 * S.vects.r1.y + c.2.2 * S.vects.r2.y,
   S.origin.z + c.1 * S.vects.r0.z + c.2.1 * S.vects.r1.z + c.2.2 * S.vects.r2.z⟩

def corners (S : Sys) : List (V3 Rat) := cornerCoeffs.map (cornerAt S)

/-- `if corner < supermin[j]: supermin[j] = corner`. -/
def minStep (m c : Rat) : Rat := if c < m then c else m
/-- `if corner > supermax[j]: supermax[j] = corner`. -/
def maxStep (m c : Rat) : Rat := if m < c then c else m

/-- smallest / largest `j`-coordinate (`f` is the projection) over origin and the 8 corners. -/
def cornerMin (S : Sys) (f : V3 Rat → Rat) : Rat :=
  (corners S).foldl (fun m c => minStep m (f c)) (f S.origin)
def cornerMax (S : Sys) (f : V3 Rat → Rat) : Rat :=
  (corners S).foldl (fun m c => maxStep m (f c)) (f S.origin)

/-- the padding factor `1.01`. -/
def pad : Rat := 101 / 100

/-- superbox and bins. `lo = supermin`, `hi = supermax`, `c = binsize = cutoff`, `n* = len(*bins)`. -/
structure Grid where
  lo : V3 Rat
  hi : V3 Rat
  c : Rat
  nx : Nat
  ny : Nat
  nz : Nat

/-- `len(np.arange(lo, hi + c, c))  =  ceil((hi + c - lo) / c)`. -/
def numBins (lo hi c : Rat) : Nat := (((hi + c) - lo) / c).ceil.toNat

def mkGrid (S : Sys) (cutoff : Rat) : Grid :=
  let lo : V3 Rat := ⟨cornerMin S (·.x) - pad * cutoff, cornerMin S (·.y) - pad * cutoff,
                      cornerMin S (·.z) - pad * cutoff⟩
  let hi : V3 Rat := ⟨cornerMax S (·.x) + pad * cutoff, cornerMax S (·.y) + pad * cutoff,
                      cornerMax S (·.z) + pad * cutoff⟩
  { lo := lo, hi := hi, c := cutoff,
    nx := numBins lo.x hi.x cutoff, ny := numBins lo.y hi.y cutoff, nz := numBins lo.z hi.z cutoff }

/-! ### 2. bins -/

/-- `np.arange(lo, …, c)`: the edges `lo + k * c`, `k < n`. -/
def edges (lo c : Rat) (n : Nat) : List Rat := (List.range n).map (fun (k : Nat) => lo + (k : Rat) * c)

/-- `np.digitize(x, edges)` for increasing edges: the number of edges `≤ x`. -/
def digitize (x : Rat) (es : List Rat) : Nat := es.countP (fun e => decide (e ≤ x))

/-- `np.digitize(x, bins) - 1`. -/
def binIdx (lo c : Rat) (n : Nat) (x : Rat) : Int := (digitize x (edges lo c n) : Int) - 1

def binOf (G : Grid) (p : V3 Rat) : Idx :=
  (binIdx G.lo.x G.c G.nx p.x, binIdx G.lo.y G.c G.ny p.y, binIdx G.lo.z G.c G.nz p.z)

/-! ### 3. ghosts -/

/-- the strict superbox test of the ghost loop. -/
def inSuper (G : Grid) (q : V3 Rat) : Bool :=
  decide (G.lo.x < q.x) && decide (q.x < G.hi.x) && decide (G.lo.y < q.y) && decide (q.y < G.hi.y)
    && decide (G.lo.z < q.z) && decide (q.z < G.hi.z)

/-- `x * vects[0, j] + y * vects[1, j] + z * vects[2, j] + posv[i, j]`. -/
def ghostPos (S : Sys) (s : Int × Int × Int) (i : Nat) : V3 Rat :=
  let p := S.posOf i
  ⟨(s.1 : Rat) * S.vects.r0.x + (s.2.1 : Rat) * S.vects.r1.x + (s.2.2 : Rat) * S.vects.r2.x + p.x,
   (s.1 : Rat) * S.vects.r0.y + (s.2.1 : Rat) * S.vects.r1.y + (s.2.2 : Rat) * S.vects.r2.y + p.y,
   (s.1 : Rat) * S.vects.r0.z + (s.2.1 : Rat) * S.vects.r1.z + (s.2.2 : Rat) * S.vects.r2.z + p.z⟩

/-- `(atomindex[n], xyzindex[n])` for the real atoms. -/
def realEntries (S : Sys) (G : Grid) : List (Nat × Idx) :=
  (List.range S.natoms).map (fun i => (i, binOf G (S.posOf i)))

/-- ghosts: the loops `for x … for y … for z` with `(0,0,0)` skipped are `imageShifts` (the very loops of
    `dmag2_c`); inside, `for i in range(natoms)` keeps `i` when the image is strictly inside. -/
def ghostEntries (S : Sys) (G : Grid) : List (Nat × Idx) :=
  (imageShifts S.px S.py S.pz).flatMap fun s =>
    (List.range S.natoms).filterMap fun i =>
      let q := ghostPos S s i
      if inSuper G q then some (i, binOf G q) else none

def entries (S : Sys) (G : Grid) : List (Nat × Idx) := realEntries S G ++ ghostEntries S G

/-! ### 4./5. bins, stencil, compared pairs -/

/-- content of bin `b` in fill order (`xyzbins[x, y, z, 1..c]`). -/
def members (es : List (Nat × Idx)) (b : Idx) : List Nat :=
  (es.filter (fun e => e.2 == b)).map (·.1)

/-- the bins swept: every bin holding a real atom or a ghost (`unique_rows2(xyzindex)` after the ghosts
    were appended), here in order of first occurrence. -/
def occupied (es : List (Nat × Idx)) : List Idx := (es.map (·.2)).eraseDups

/-- all 27 offsets `(dx, dy, dz)` in the order `for dz … for dy … for dx`. -/
def stencilAll : List Idx :=
  ([-1, 0, 1] : List Int).flatMap fun dz => ([-1, 0, 1] : List Int).flatMap fun dy =>
    ([-1, 0, 1] : List Int).map fun dx => (dx, dy, dz)

/-- the offsets visited before the `break` at the centre bin. -/
def halfStencil : List Idx := stencilAll.takeWhile (fun d => !(d == ((0, 0, 0) : Idx)))

def addIdx (b d : Idx) : Idx := (b.1 + d.1, b.2.1 + d.2.1, b.2.2 + d.2.2)

/-- "Skip non-existant neighbor bins". -/
def skipBin (G : Grid) (b : Idx) : Bool :=
  decide (b.1 < 0) || b.1 == (G.nx : Int) || decide (b.2.1 < 0) || b.2.1 == (G.ny : Int)
    || decide (b.2.2 < 0) || b.2.2 == (G.nz : Int)

/-- `longlist` without its `shortlist` prefix: members of the stencil bins that exist. -/
def stencilMembers (G : Grid) (es : List (Nat × Idx)) (b : Idx) : List Nat :=
  halfStencil.flatMap fun d => if skipBin G (addIdx b d) then [] else members es (addIdx b d)

/-- `for u in range(len(shortlist)): for v in range(u+1, len(longlist))` with
    `longlist = shortlist ++ rest`: the pairs `(shortlist[u], longlist[v])` in loop order. -/
def pairsOf : List Nat → List Nat → List (Nat × Nat)
  | [], _ => []
  | a :: s, rest => (s ++ rest).map (fun x => (a, x)) ++ pairsOf s rest

def binPairs (G : Grid) (es : List (Nat × Idx)) (b : Idx) : List (Nat × Nat) :=
  pairsOf (members es b) (stencilMembers G es b)

/-- every pair `(uindex, vindex)` whose distance is evaluated, in order. -/
def candsOf (G : Grid) (es : List (Nat × Idx)) : List (Nat × Nat) :=
  (occupied es).flatMap (binPairs G es)

def cands (S : Sys) (cutoff : Rat) : List (Nat × Nat) :=
  let G := mkGrid S cutoff
  candsOf G (entries S G)

/-! ### 4b. the bin table `xyzbins[x, y, z, :]` as fixed-capacity rows `[count, a_1, …, a_maxatomsperbin]` -/

/-- the constants and tests of the growth block of the bin table, as functions of (`c`,) `maxatomsperbin`. -/
structure BinParams where
  init : Nat                      -- `maxatomsperbin = 40`
  initWidth : Nat → Nat           -- last dimension of `xyzbins`
  trigger : Nat → Nat → Bool      -- `if c == maxatomsperbin`
  newWidth : Nat → Nat            -- last dimension of `newbins`
  copyCols : Nat → Nat            -- `for l in range(maxatomsperbin + 1)`
  grow : Nat → Nat                -- `maxatomsperbin += 10`

/-- what stands in nlist.pyx now (regenerated from the source on every run). -/
def srcBinParams : BinParams :=
  ⟨Gen.binInit, Gen.binInitWidth, Gen.binTrigger, Gen.binNewWidth, Gen.binCopyCols, Gen.binGrow⟩

/-- `maxatomsperbin`, the last dimension of the array, and the rows that were written so far (latest first;
    a bin without an entry is a row of zeros: `np.zeros`). -/
structure BinTab where
  maxapb : Nat
  width : Nat
  tab : List (Idx × List Nat)

/-- `xyzbins[x, y, z, :]`. -/
def BinTab.get (st : BinTab) (b : Idx) : List Nat :=
  match st.tab.lookup b with
  | some r => r
  | none => List.replicate st.width 0

/-- one row of `newbins`: zeros, columns `l < copyCols` copied. -/
def growBinRow (P : BinParams) (m : Nat) (row : List Nat) : List Nat :=
  (List.range (P.newWidth m)).map fun l => if l < P.copyCols m then row.getD l 0 else 0

/-- the body of `for n in range(atomindex.shape[0])` for the entry `(atomindex[n], xyzindex[n])`. -/
def binFill (P : BinParams) (st : BinTab) (e : Nat × Idx) : BinTab :=
  let c := (st.get e.2).getD 0 0 + 1
  let st1 : BinTab :=
    if P.trigger c st.maxapb then
      ⟨P.grow st.maxapb, P.newWidth st.maxapb, st.tab.map fun kv => (kv.1, growBinRow P st.maxapb kv.2)⟩
    else st
  ⟨st1.maxapb, st1.width, (e.2, ((st1.get e.2).set 0 c).set c e.1) :: st1.tab⟩

def initBins (P : BinParams) : BinTab := ⟨P.init, P.initWidth P.init, []⟩

def fillBins (P : BinParams) (es : List (Nat × Idx)) : BinTab := es.foldl (binFill P) (initBins P)

/-- `xyzbins[x, y, z, 1 .. c]` with `c = xyzbins[x, y, z, 0]`: what the sweep reads. -/
def membersA (st : BinTab) (b : Idx) : List Nat := ((st.get b).drop 1).take ((st.get b).getD 0 0)

def stencilMembersA (G : Grid) (st : BinTab) (b : Idx) : List Nat :=
  halfStencil.flatMap fun d => if skipBin G (addIdx b d) then [] else membersA st (addIdx b d)

def binPairsA (G : Grid) (st : BinTab) (b : Idx) : List (Nat × Nat) :=
  pairsOf (membersA st b) (stencilMembersA G st b)

/-- the compared pairs when the bins are read from the capacity table filled as coded. -/
def candsOfA (P : BinParams) (G : Grid) (es : List (Nat × Idx)) : List (Nat × Nat) :=
  let st := fillBins P es
  (occupied es).flatMap (binPairsA G st)

def candsA (P : BinParams) (S : Sys) (cutoff : Rat) : List (Nat × Nat) :=
  let G := mkGrid S cutoff
  candsOfA P G (entries S G)

/-! ### 6. distance test -/

def dist2 (S : Sys) (u v : Nat) : Rat := dmag2 S.vects S.px S.py S.pz (S.posOf u) (S.posOf v)

/-- `if dmag2[w] < cutoff2: … if uindex != vindex:`. -/
def accept (S : Sys) (c2 : Rat) (uv : Nat × Nat) : Bool :=
  decide (dist2 S uv.1 uv.2 < c2) && (uv.1 != uv.2)

/-- `for u in range(len(shortlist)): for v in range(u + 1, len(longlist))` written with the indices of the source:
    `(shortlist[u], longlist[v])`, `longlist = shortlist ++ rest`, first `v` = `Src.vStart u`
    (`pairsOf_eq_loops`, Proofs/C03_Source.lean: this is `pairsOf`). -/
def pairLoops (short rest : List Nat) : List (Nat × Nat) :=
  (List.range short.length).flatMap fun u =>
    ((short ++ rest).drop (Src.vStart u)).map fun x => (short.getD u 0, x)

/-! ### 7a. insertion, rows as growing lists -/

abbrev Rows := List (List Nat)

/-- first loop over `neighbors[uindex, 1..count]`: `false` when `vindex` is met before a larger entry. -/
def scanL (v : Nat) : List Nat → Bool
  | [] => true
  | a :: l => if a = v then false else if v < a then true else scanL v l

/-- insert `v` in front of the first entry larger than `v` (at the end when there is none). -/
def insBefore (v : Nat) : List Nat → List Nat
  | [] => [v]
  | a :: l => if v < a then v :: a :: l else a :: insBefore v l

def insertPairL (rows : Rows) (u v : Nat) : Rows :=
  if scanL v (rows.getD u []) then (rows.modify u (insBefore v)).modify v (insBefore u) else rows

/-- one compared pair; `acc` is the acceptance test (`accept S c2` in the algorithm). -/
def stepLW (acc : Nat × Nat → Bool) (rows : Rows) (uv : Nat × Nat) : Rows :=
  if acc uv then insertPairL rows uv.1 uv.2 else rows

def runLW (acc : Nat × Nat → Bool) (n : Nat) (cs : List (Nat × Nat)) : Rows :=
  cs.foldl (stepLW acc) (List.replicate n [])

def runL (S : Sys) (c2 : Rat) (cs : List (Nat × Nat)) : Rows := runLW (accept S c2) S.natoms cs

/-- the neighbor lists of `nlist(system, cutoff)`, list storage. -/
def nlistL (S : Sys) (cutoff : Rat) : Rows := runL S (cutoff * cutoff) (cands S cutoff)

/-- the specification: ascending list of all `j ≠ i` with `dmag2 i j < cutoff²`. -/
def nlistSpec (S : Sys) (cutoff : Rat) (i : Nat) : List Nat :=
  (List.range S.natoms).filter (fun j => decide (j ≠ i) && decide (dist2 S i j < cutoff * cutoff))

/-! ### 7b. insertion on fixed-capacity rows `[count, n_1, …, n_maxn]` -/

structure ArrState where
  maxn : Nat              -- `maxneighbors`
  rows : List (List Nat)  -- `neighbors`, every row of length `maxneighbors + 1`

/-- `for j in range(1, count + 1)`: `(new, uj)`; `fuel` = remaining iterations, exhausted loop gives
    `uj = count + 1`. -/
def scanLoopA (row : List Nat) (v : Nat) : Nat → Nat → Bool × Nat
  | 0, j => (true, j)
  | f + 1, j =>
    let e := row.getD j 0
    if e = v then (false, j) else if v < e then (true, j) else scanLoopA row v f (j + 1)

/-- the `vj` loop (no equality test). -/
def posLoopA (row : List Nat) (u : Nat) : Nat → Nat → Nat
  | 0, j => j
  | f + 1, j => if u < row.getD j 0 then j else posLoopA row u f (j + 1)

/-- `for j in range(count, uj - 1, -1): row[j] = row[j - 1]`; the first argument is the loop variable. -/
def shiftLoop (uj : Nat) : Nat → List Nat → List Nat
  | 0, row => row
  | j + 1, row => if j + 1 < uj then row else shiftLoop uj j (row.set (j + 1) (row.getD j 0))

/-- `newneighbors = np.empty((natoms, maxneighbors + deltasize + 1))`, columns `0..maxneighbors` copied;
    `junk r k` is whatever `np.empty` left in row `r`, column `k`. -/
def growRows (junk : Nat → Nat → Nat) (maxn delta : Nat) (rows : List (List Nat)) : List (List Nat) :=
  rows.mapIdx fun r row => row.take (maxn + 1) ++ (List.range delta).map (fun k => junk r (maxn + 1 + k))

def insertPairA (junk : Nat → Nat → Nat) (delta : Nat) (st : ArrState) (u v : Nat) : ArrState :=
  let ru := st.rows.getD u []
  let rv := st.rows.getD v []
  let cu := ru.getD 0 0
  let cv := rv.getD 0 0
  let (new, uj) := scanLoopA ru v cu 1
  if new then
    let vj := posLoopA rv u cv 1
    -- increase coordination
    let rows1 := (st.rows.modify u (·.set 0 (cu + 1))).modify v (·.set 0 (cv + 1))
    -- extend if needed
    let st1 : ArrState :=
      if st.maxn < cu + 1 || st.maxn < cv + 1 then ⟨st.maxn + delta, growRows junk st.maxn delta rows1⟩
      else ⟨st.maxn, rows1⟩
    -- shift, then assign
    let rows2 := st1.rows.modify u (shiftLoop uj (cu + 1))
    let rows3 := rows2.modify v (shiftLoop vj (cv + 1))
    let rows4 := rows3.modify u (·.set uj v)
    let rows5 := rows4.modify v (·.set vj u)
    ⟨st1.maxn, rows5⟩
  else st

def stepAW (junk : Nat → Nat → Nat) (delta : Nat) (acc : Nat × Nat → Bool) (st : ArrState) (uv : Nat × Nat) :
    ArrState :=
  if acc uv then insertPairA junk delta st uv.1 uv.2 else st

/-- `np.empty((natoms, initialsize + 1))` with column 0 set to 0. -/
def initA (junk : Nat → Nat → Nat) (n init : Nat) : ArrState :=
  ⟨init, (List.range n).map fun r => 0 :: (List.range init).map (fun k => junk r (k + 1))⟩

def runAW (junk : Nat → Nat → Nat) (init delta : Nat) (acc : Nat × Nat → Bool) (n : Nat)
    (cs : List (Nat × Nat)) : ArrState :=
  cs.foldl (stepAW junk delta acc) (initA junk n init)

def runA (junk : Nat → Nat → Nat) (init delta : Nat) (S : Sys) (c2 : Rat) (cs : List (Nat × Nat)) : ArrState :=
  runAW junk init delta (accept S c2) S.natoms cs

/-- the array returned by `nlist(system, cutoff, initialsize, deltasize)`. -/
def nlistA (junk : Nat → Nat → Nat) (init delta : Nat) (S : Sys) (cutoff : Rat) : ArrState :=
  runA junk init delta S (cutoff * cutoff) (cands S cutoff)

/-- the whole of `nlist(system, cutoff, initialsize, deltasize)` with both capacity tables as coded (bin table with
    the growth constants `P`, per-atom rows with `initialsize`/`deltasize`). -/
def nlistFull (P : BinParams) (junk : Nat → Nat → Nat) (init delta : Nat) (S : Sys) (cutoff : Rat) : ArrState :=
  runA junk init delta S (cutoff * cutoff) (candsA P S cutoff)

/-! ### call forms: a storage size given by the caller or left out -/

/-- how `initialsize` / `deltasize` reach `nlist`: given by the caller (handed on unchanged by `NeighborList.__init__`,
    `build`, `System.neighborlist`), left out in a call through `NeighborList(system=, cutoff=)` /
    `System.neighborlist(cutoff=)` (the default of `build` is handed on), or left out in a direct call
    `nlist(system, cutoff)` (its own default).  The defaults are the ones standing in the source of the run. -/
inductive SizeArg where
  | given (n : Nat)
  | viaBuild
  | viaNlist
deriving DecidableEq, Repr

def initialsizeOf : SizeArg → Nat
  | .given n => n
  | .viaBuild => Src.buildDefInitialsize
  | .viaNlist => Src.defInitialsize

def deltasizeOf : SizeArg → Nat
  | .given n => n
  | .viaBuild => Src.buildDefDeltasize
  | .viaNlist => Src.defDeltasize

/-- the array behind the `NeighborList` a call returns, whatever way the two sizes were (not) given. -/
def nlistCall (junk : Nat → Nat → Nat) (a b : SizeArg) (S : Sys) (cutoff : Rat) : ArrState :=
  nlistFull srcBinParams junk (initialsizeOf a) (deltasizeOf b) S cutoff

/-! ### object level: a `System` that is modified between `neighborlist` calls -/

/-- what a caller can do to a `System` between two neighbor-list calls (each replaces one part of the state;
    operations that compute — scaled setters, `wrap`, `box_set(scale=True)` — are the assignment of their result). -/
inductive Op where
  | setPos (i : Nat) (p : V3 Rat)          -- `system.atoms.pos[i] = p`
  | setAll (ps : List (V3 Rat))            -- `system.atoms.pos = ps`, also `atoms_extend` / `atoms_ix[...]`
  | setBox (v : M3 Rat) (o : V3 Rat)       -- `system.box_set(vects=v, origin=o)`
  | setPbc (px py pz : Bool)               -- `system.pbc = (px, py, pz)`
  | query (cutoff : Rat)                   -- `system.neighborlist(cutoff=…)` / `NeighborList(system=…, cutoff=…)`

def applyOp (S : Sys) : Op → Sys
  | .setPos i p => { S with pos := S.pos.set i p }
  | .setAll ps => { S with pos := ps }
  | .setBox v o => { S with vects := v, origin := o }
  | .setPbc px py pz => { S with px := px, py := py, pz := pz }
  | .query _ => S

/-- the answers to the `query` operations of a sequence, in order: each is computed from the state the system has
    when the call is made (no memory of earlier calls). -/
def answers (S : Sys) : List Op → List Rows
  | [] => []
  | .query c :: ops => nlistL S c :: answers S ops
  | op :: ops => answers (applyOp S op) ops

/-- the state after a sequence of operations. -/
def finalState (S : Sys) (ops : List Op) : Sys := ops.foldl applyOp S

/-! ### `NeighborList`: coord / [i] -/

/-- `coord[i] = nlist[i, 0]`. -/
def coordOf (row : List Nat) : Nat := row.getD 0 0
/-- `NeighborList[i] = nlist[i, 1:][:coord[i]]`. -/
def absRow (row : List Nat) : List Nat := (row.drop 1).take (coordOf row)
def absRows (rows : List (List Nat)) : Rows := rows.map absRow

/-! ### text dump / load -/

def header : List (List Char) :=
  ["# Neighbor list:".toList, "# The first column gives an atom index.".toList,
   "# The rest of the columns are the indexes of the identified neighbors.".toList]

/-- `'%i' % i` followed by `' %i' % j` for each neighbor. -/
def renderLine (i : Nat) (row : List Nat) : List Char :=
  Nat.toDigits 10 i ++ row.flatMap (fun j => ' ' :: Nat.toDigits 10 j)

def renderLines (rows : Rows) : List (List Char) :=
  header ++ rows.mapIdx (fun i row => renderLine i row)

/-- `NeighborList.dump`: every line followed by `'\n'`. -/
def render (rows : Rows) : List Char := (renderLines rows).flatMap (fun l => l ++ ['\n'])

/-- `NeighborList.dump` as it stands in the source (header writes, index format, neighbor format and end of line
    regenerated from `NeighborList.py` on every run); `dump_as_modelled` (Proofs) shows it is `render`. -/
def renderGen (rows : Rows) : List Char :=
  Gen.dumpHeader ++ (rows.mapIdx fun i row => Gen.dumpIdx i ++ row.flatMap Gen.dumpNbr ++ Gen.dumpEol).flatten

/-- `int(term)` restricted to plain digit strings. -/
def parseNat? (t : List Char) : Option Nat :=
  if t ≠ [] ∧ t.all Char.isDigit then some (Nat.ofDigitChars 10 t 0) else none

/-- `line.split()` (blanks only). -/
def splitBlank (l : List Char) : List (List Char) := (l.splitOn ' ').filter (· ≠ [])

inductive Line where
  | comment : Line
  | entry : Nat → List Nat → Line
  | bad : Line
deriving DecidableEq, Repr

def Line.isBad : Line → Bool
  | .bad => true
  | _ => false

def Line.entry? : Line → Option (Nat × List Nat)
  | .entry i js => some (i, js)
  | _ => none

def parseLine (l : List Char) : Line :=
  match splitBlank l with
  | [] => .bad                         -- `terms[0]` raises IndexError
  | t :: ts =>
    if t.head? = some '#' then .comment else
    match parseNat? t, ts.mapM parseNat? with
    | some i, some js => .entry i js
    | _, _ => .bad

/-- the lines of a file (text iteration: pieces terminated by `'\n'`, no empty last piece). -/
def fileLines (txt : List Char) : List (List Char) :=
  let ps := txt.splitOn '\n'
  if ps.getLast? = some [] then ps.dropLast else ps

/-- `NeighborList.load`: first pass counts the entry lines (`natoms`), second pass fills row `i`. -/
def parse (txt : List Char) : Option Rows :=
  let ls := (fileLines txt).map parseLine
  if ls.any Line.isBad then none else
  let es := ls.filterMap Line.entry?
  let n := es.length
  es.foldlM (fun rows (e : Nat × List Nat) => if e.1 < n then some (rows.set e.1 e.2) else none)
    (List.replicate n [])

/-! ### driver-side helpers: proximity flags (not part of the algorithm) -/

def ratAbs' (r : Rat) : Rat := if r < 0 then -r else r

/-- `dist2 S j i` for all `j < i` (row `i`, column `j`): the driver evaluates each distance once. -/
def distTable (S : Sys) : Array (Array Rat) :=
  ((List.range S.natoms).map fun i => ((List.range i).map fun j => dist2 S j i).toArray).toArray

def tableDist (t : Array (Array Rat)) (u v : Nat) : Rat :=
  if u < v then (t.getD v #[]).getD u 0 else (t.getD u #[]).getD v 0

/-- `accept S c2` read off the table (`dist2` is symmetric: theorem `dist2_symm`). -/
def tableAccept (t : Array (Array Rat)) (c2 : Rat) (uv : Nat × Nat) : Bool :=
  (uv.1 != uv.2) && decide (tableDist t uv.1 uv.2 < c2)

/-- some pair `j < i` has `|dmag2 - cutoff²| ≤ tol * cutoff²`. -/
def nearCutoff (t : Array (Array Rat)) (cutoff tol : Rat) : Bool :=
  let c2 := cutoff * cutoff
  t.any fun row => row.any fun d => decide (ratAbs' (d - c2) ≤ tol * c2)

/-- `x` within `tol * c` of one of the bin edges `lo + k c` or of `hi`. -/
def nearEdge1 (lo hi c tol x : Rat) : Bool :=
  let t := (x - lo) / c
  let f := t - (t.floor : Rat)
  decide (f ≤ tol) || decide (1 - f ≤ tol) || decide (ratAbs' (x - hi) ≤ tol * c)

def nearEdgeP (G : Grid) (tol : Rat) (q : V3 Rat) : Bool :=
  nearEdge1 G.lo.x G.hi.x G.c tol q.x || nearEdge1 G.lo.y G.hi.y G.c tol q.y || nearEdge1 G.lo.z G.hi.z G.c tol q.z

/-- a real atom, or an image that is inside (or within `tol` of) the superbox, lies within `tol * c` of a
    bin edge / the superbox boundary: binning may then differ from floating point. -/
def nearEdge (S : Sys) (G : Grid) (tol : Rat) : Bool :=
  ((List.range S.natoms).any fun i => nearEdgeP G tol (S.posOf i)) ||
  ((imageShifts S.px S.py S.pz).any fun s => (List.range S.natoms).any fun i =>
    let q := ghostPos S s i
    let m := tol * G.c
    decide (G.lo.x - m < q.x) && decide (q.x < G.hi.x + m) && decide (G.lo.y - m < q.y) && decide (q.y < G.hi.y + m)
      && decide (G.lo.z - m < q.z) && decide (q.z < G.hi.z + m) && nearEdgeP G tol q)

/-- every real atom gets a bin index `≥ 0` on every axis (otherwise the implementation indexes out of
    bounds: not a defined input). -/
def validEntries (es : List (Nat × Idx)) : Bool :=
  es.all fun e => decide (0 ≤ e.2.1) && decide (0 ≤ e.2.2.1) && decide (0 ≤ e.2.2.2)

end Atomman.C03
