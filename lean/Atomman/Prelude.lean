/-
  Atomman.Prelude — shared definitions of the model (core Lean only, no Mathlib).

  Numerical definitions are polymorphic over a scalar type `K` and use only core
  arithmetic classes, so that the same definition is
    * executed at `K := Rat` by the driver (`Main.lean`), and
    * reasoned about for every (linearly ordered) field in `Proofs/*.lean`.
-/
namespace Atomman

/-! ### wire format -/

/-- parse `p/q` or `p` (decimal integers, `p` possibly negative). -/
def parseRat? (s : String) : Option Rat :=
  match s.splitOn "/" with
  | [p] => p.toInt?.map (fun i => (i : Rat))
  | [p, q] =>
    match p.toInt?, q.toNat? with
    | some p, some q => if q = 0 then none else some (mkRat p q)
    | _, _ => none
  | _ => none

def showRat (r : Rat) : String :=
  if r.den = 1 then toString r.num else toString r.num ++ "/" ++ toString r.den

def showRats (l : List Rat) : String := " ".intercalate (l.map showRat)
def showInts (l : List Int) : String := " ".intercalate (l.map toString)

def parseRats? (l : List String) : Option (List Rat) := l.mapM parseRat?
def parseInts? (l : List String) : Option (List Int) := l.mapM String.toInt?
def parseNats? (l : List String) : Option (List Nat) := l.mapM String.toNat?

def tokens (line : String) : List String :=
  (line.trimAscii.toString.splitOn " ").filter (· ≠ "")

def showBool (b : Bool) : String := if b then "1" else "0"
def parseBool? (s : String) : Option Bool :=
  if s = "1" then some true else if s = "0" then some false else none

/-! ### 3-vectors and 3x3 matrices (rows) over any scalar type -/

@[ext] structure V3 (K : Type) where
  x : K
  y : K
  z : K
deriving Repr, BEq, DecidableEq

namespace V3
variable {K : Type}

@[inline] def add [Add K] (a b : V3 K) : V3 K := ⟨a.x + b.x, a.y + b.y, a.z + b.z⟩
@[inline] def sub [Sub K] (a b : V3 K) : V3 K := ⟨a.x - b.x, a.y - b.y, a.z - b.z⟩
@[inline] def neg [Neg K] (a : V3 K) : V3 K := ⟨-a.x, -a.y, -a.z⟩
@[inline] def smul [Mul K] (c : K) (a : V3 K) : V3 K := ⟨c * a.x, c * a.y, c * a.z⟩
@[inline] def dot [Add K] [Mul K] (a b : V3 K) : K := a.x * b.x + a.y * b.y + a.z * b.z
@[inline] def cross [Sub K] [Mul K] (a b : V3 K) : V3 K :=
  ⟨a.y * b.z - a.z * b.y, a.z * b.x - a.x * b.z, a.x * b.y - a.y * b.x⟩
@[inline] def normSq [Add K] [Mul K] (a : V3 K) : K := dot a a
@[inline] def get (a : V3 K) (i : Nat) : K := if i = 0 then a.x else if i = 1 then a.y else a.z
@[inline] def map {L : Type} (f : K → L) (a : V3 K) : V3 L := ⟨f a.x, f a.y, f a.z⟩
def toList (a : V3 K) : List K := [a.x, a.y, a.z]
def ofList? : List K → Option (V3 K)
  | [a, b, c] => some ⟨a, b, c⟩
  | _ => none

instance [Add K] : Add (V3 K) := ⟨add⟩
instance [Sub K] : Sub (V3 K) := ⟨sub⟩
instance [Neg K] : Neg (V3 K) := ⟨neg⟩
end V3

/-- 3x3 matrix stored as three **rows** (atomman: `vects[i]` is cell vector `i`). -/
@[ext] structure M3 (K : Type) where
  r0 : V3 K
  r1 : V3 K
  r2 : V3 K
deriving Repr, BEq, DecidableEq

namespace M3
variable {K : Type}

@[inline] def row (m : M3 K) (i : Nat) : V3 K := if i = 0 then m.r0 else if i = 1 then m.r1 else m.r2
@[inline] def col (m : M3 K) (j : Nat) : V3 K := ⟨m.r0.get j, m.r1.get j, m.r2.get j⟩
@[inline] def transpose (m : M3 K) : M3 K :=
  ⟨⟨m.r0.x, m.r1.x, m.r2.x⟩, ⟨m.r0.y, m.r1.y, m.r2.y⟩, ⟨m.r0.z, m.r1.z, m.r2.z⟩⟩
/-- row vector times matrix: `s.x * r0 + s.y * r1 + s.z * r2` (numpy `s.dot(vects)`). -/
@[inline] def vecMul [Add K] [Mul K] (s : V3 K) (m : M3 K) : V3 K :=
  ⟨s.x * m.r0.x + s.y * m.r1.x + s.z * m.r2.x,
   s.x * m.r0.y + s.y * m.r1.y + s.z * m.r2.y,
   s.x * m.r0.z + s.y * m.r1.z + s.z * m.r2.z⟩
/-- matrix times column vector (numpy `m.dot(v)`). -/
@[inline] def mulVec [Add K] [Mul K] (m : M3 K) (v : V3 K) : V3 K :=
  ⟨V3.dot m.r0 v, V3.dot m.r1 v, V3.dot m.r2 v⟩
@[inline] def mul [Add K] [Mul K] (a b : M3 K) : M3 K :=
  ⟨vecMul a.r0 b, vecMul a.r1 b, vecMul a.r2 b⟩
@[inline] def det [Add K] [Sub K] [Mul K] (m : M3 K) : K := V3.dot m.r0 (V3.cross m.r1 m.r2)
/-- adjugate-over-determinant inverse; the result is meaningful only for `det ≠ 0`. -/
@[inline] def inv [Add K] [Sub K] [Mul K] [Div K] (m : M3 K) : M3 K :=
  let d := det m
  let c0 := V3.cross m.r1 m.r2
  let c1 := V3.cross m.r2 m.r0
  let c2 := V3.cross m.r0 m.r1
  ⟨⟨c0.x / d, c1.x / d, c2.x / d⟩, ⟨c0.y / d, c1.y / d, c2.y / d⟩, ⟨c0.z / d, c1.z / d, c2.z / d⟩⟩
def one [Zero K] [One K] : M3 K := ⟨⟨1, 0, 0⟩, ⟨0, 1, 0⟩, ⟨0, 0, 1⟩⟩
def toList (m : M3 K) : List K := m.r0.toList ++ m.r1.toList ++ m.r2.toList
def ofList? : List K → Option (M3 K)
  | [a, b, c, d, e, f, g, h, i] => some ⟨⟨a, b, c⟩, ⟨d, e, f⟩, ⟨g, h, i⟩⟩
  | _ => none
end M3

/-! ### small helpers used by several models -/

def ratAbs (r : Rat) : Rat := if r < 0 then -r else r

def sumList {K : Type} [Add K] [Zero K] (l : List K) : K := l.foldl (· + ·) 0

/-- all integers `lo, lo+1, …, hi-1`. -/
def intRange (lo hi : Int) : List Int :=
  (List.range (hi - lo).toNat).map (fun (k : Nat) => lo + Int.ofNat k)

def err (kind : String) : String := "err:" ++ kind

/-! ### line-protocol driver loop (one reply line per request line) -/

partial def driverLoopS {σ : Type} (h : IO.FS.Stream) (out : IO.FS.Stream)
    (step : σ → List String → σ × String) (s : σ) : IO Unit := do
  let line ← h.getLine
  if line.isEmpty then return ()
  let (s', r) := step s (tokens line)
  out.putStrLn r
  out.flush
  driverLoopS h out step s'

def runDriverS {σ : Type} (step : σ → List String → σ × String) (init : σ) : IO Unit := do
  driverLoopS (← IO.getStdin) (← IO.getStdout) step init

def runDriver (handle : List String → String) : IO Unit :=
  runDriverS (fun (_ : Unit) toks => ((), handle toks)) ()

end Atomman
