/-
  C05 — the public entry points with their option handling, and the statement-level reading of the three
  method bodies the model follows (core Lean only).

  Sources:
    atomman/core/System.py        `wrap(return_imageflags=False)`, `box_set(**kwargs)` (`scale` popped with default
                                  `False`, `isinstance(scale, bool)` or `TypeError`, `scale is True` branch),
                                  `normalize(style='lammps', return_transform=False)` (`style == 'lammps'` or `ValueError`)
    atomman/lammps/normalize.py   `normalize(system, return_transform=False)`
    atomman/core/Box.py           `Box.set` (which keyword selects which `set_*`)

  Two things live here:
    * `PyVal` / `Err` / `…Api`: what a caller can hand to the option parameters (omitted, `None`, Python bool, int, str,
      float, numpy bool) and what the entry point does with it (default, refusal, branch, what is returned).
    * `Stmt` / `exec` / `runStmts`: the bodies of `box_set`, `wrap` and `lammps.normalize` as *lists of statements* over a
      small state.  `harness/props/c05.py: translate()` reads the statement lists off the current source with `ast`
      (`Atomman/Generated/WrapSource.lean`); `Proofs/C05_Source.lean` proves that running the generated lists is
      `CSys.boxSet`, `CSys.wrapC`, `CSys.normalizeC` — so the ORDER in which the code reads the scaled positions, writes
      the box and writes the positions back is a proof obligation, not a reading of the modeller.
-/
import Atomman.C05_Hist

namespace Atomman.C05
open Atomman

variable {K : Type}

/-! ### Python values that reach the option parameters -/

inductive PyVal where
  | none
  | bool (b : Bool)
  | int (n : Int)
  | str (s : String)
  /-- a float; only whether it is non-zero matters -/
  | float (nonzero : Bool)
  /-- `numpy.True_` / `numpy.False_`: truthy / falsy, but NOT an instance of `bool` and not `is True` -/
  | npbool (b : Bool)
deriving DecidableEq, Repr

namespace PyVal

/-- `if x:` -/
def truthy : PyVal → Bool
  | .none => false
  | .bool b => b
  | .int n => n != 0
  | .str s => s != ""
  | .float nz => nz
  | .npbool b => b

/-- `isinstance(x, bool)` -/
def isBool : PyVal → Bool
  | .bool _ => true
  | _ => false

/-- `x is True` -/
def isTrue : PyVal → Bool
  | .bool true => true
  | _ => false

end PyVal

inductive Err where
  | typeError
  | valueError
  | assertion
deriving DecidableEq, Repr

/-! ### defaults and literals of the signatures (tied to the source by `gen_defaults_eq_model`) -/

/-- `wrap(self, return_imageflags: bool = False)` -/
def wrapFlagDefault : PyVal := .bool false
/-- `kwargs.pop('scale', False)` -/
def boxSetScaleDefault : PyVal := .bool false
/-- `System.normalize(self, style='lammps', return_transform=False)` -/
def normStyleDefault : PyVal := .str "lammps"
def normFlagDefault : PyVal := .bool false
/-- the only accepted `style` -/
def normStyleAccepted : PyVal := .str "lammps"
/-- positional order of the parameters: `wrap(flag)`, `normalize(style, flag)` (the FIRST positional is the style),
    `lammps.normalize(system, flag)`; the driver ops `apiwrap FLAG`, `apinorm STYLE FLAG`, `apilmp FLAG` follow it. -/
def wrapParams : List String := ["self", "return_imageflags"]
def normParams : List String := ["self", "style", "return_transform"]
def lmpParams : List String := ["system", "return_transform"]
/-- `Box.set`: the keyword tested in each `elif`, in order (`vects` → setter, `avect` → `set_vectors`, `lx` → `set_lengths`,
    `xlo` → `set_hi_los`, `a` → `set_abc`, `origin` alone → origin setter; anything else `TypeError`). -/
def boxSetDispatch : List String := ["vects", "avect", "lx", "xlo", "a", "origin"]

/-- which branch of `Box.set` a set of keywords takes: the first key of `boxSetDispatch` that is present; `none` = no
    keywords at all (unit box); `some none` = `TypeError('Invalid arguments')`. -/
def boxSetBranch (order : List String) (kw : List String) : Option (Option String) :=
  if kw.isEmpty then none else some (order.find? (fun k => kw.contains k))

/-! ### the write protocol of `Box`, the dispatch of `Box.set` and the self-checks of `normalize`, as the model reads them
    (each is tied to the source by a `gen_*_eq_model` theorem of `Proofs/C05_Source.lean`) -/

/-- `Box.vects = v`: copy the numbers in, zero the near-zero terms, drop the cached reciprocal vectors (`CSys.setVects`). -/
def setVectsSteps : List String := ["write", "clean", "dropCache"]
/-- `System.pbc`: the getter hands out the stored array (an in-place edit of what it returned is an edit of the setting:
    `Op.editPbc`); the setter converts to a bool array, asserts shape (3,), stores (`Op.setPbc`). -/
def pbcGetterSteps : List String := ["returnInternal"]
def pbcSetterSteps : List String := ["asarrayBool", "assertShape3", "store"]
/-- `Box.origin = o`: copy the numbers in, nothing else (`CSys.setOrigin` keeps the cache). -/
def setOriginSteps : List String := ["write"]
/-- what each branch of `Box.set` does: `vects=` assigns through both setters, the others call the `set_*` of their family. -/
def boxSetTargets : List (String × List String) :=
  [("vects", ["self.vects", "self.origin"]), ("avect", ["self.set_vectors"]), ("lx", ["self.set_lengths"]),
   ("xlo", ["self.set_hi_los"]), ("a", ["self.set_abc"]), ("origin", ["self.origin"])]
/-- rows of the cell the three lattice angles are taken between (`cosAlpha`: b, c; `cosBeta`: a, c; `cosGamma`: a, b). -/
def angleRows : List (String × Nat × Nat) := [("alpha", 1, 2), ("beta", 0, 2), ("gamma", 0, 1)]
/-- the refusal of `set_abc` the model renders as `angleGuard`: an angle `≤ 0` or `≥ 180`. -/
def abcGuardTests : List (String × String × Nat) :=
  [("alpha", "≤", 0), ("alpha", "≥", 180), ("beta", "≤", 0), ("beta", "≥", 180), ("gamma", "≤", 0), ("gamma", "≥", 180)]
/-- pairs of rows of the transformation whose dot product `normalize` tests against 0, and the tolerance (`transformOK`). -/
def orthoPairs : List (Nat × Nat) := [(0, 1), (0, 2), (1, 2)]
def orthoTol : Rat := mkRat 1 100000
/-- `|n - 1| ≤ atol + rtol·1` of `np.allclose` with numpy's defaults `rtol = 1e-5`, `atol = 1e-8`. -/
def normTol : Rat := mkRat 1001 100000000

/-- `transformOK` with its tolerances named. -/
def transformOKWith (nt ot : Rat) (pairs : List (Nat × Nat)) (t : M3 Rat) : Bool :=
  let okN := fun (r : V3 Rat) => decide ((1 - nt) * (1 - nt) ≤ V3.normSq r) && decide (V3.normSq r ≤ (1 + nt) * (1 + nt))
  okN t.r0 && okN t.r1 && okN t.r2 && pairs.all (fun p => decide (ratAbs (V3.dot (t.row p.1) (t.row p.2)) ≤ ot))

/-- normalised-AST pins (sha256, 20 hex digits) of two pieces of option handling the model follows but does not express:
    `System.atoms_prop` (for `key='pos'`, `scale=True`, no index: read = `position_cartesian_to_relative` of the stored
    array, write = `position_relative_to_cartesian` stored under the key) and the tail of `vect_angle` (clamp of the cosine
    to [-1, 1], `180 * arccos / pi`). -/
def atomsPropPin : String := "9271231b066e1c310120"
def vectAngleTailPin : String := "ac590e696a7fbe5959e5"

/-- the clamp in the (pinned) tail of `vect_angle`: `cosine < -1 → -1`, `cosine > 1 → 1`. -/
def clampCos [LT K] [DecidableLT K] [Neg K] [One K] (c : K) : K := if c < -1 then -1 else if 1 < c then 1 else c

/-- `vect.T / norm` of `vect_angle` for one vector. -/
@[inline] def vdiv [Div K] (v : V3 K) (n : K) : V3 K := ⟨v.x / n, v.y / n, v.z / n⟩

/-! ### `Atoms.__deepcopy__` (the copy `normalize` works on): which per-atom keys the copy has -/

/-- `atype = deepcopy(view['atype']); pos = deepcopy(view['pos'])`, handed over by keyword. -/
def atomsCopyExplicit : List String := ["atype", "pos"]
/-- `for key in self.view: if key not in ['atype', 'pos']: d[key] = deepcopy(self.view[key])`: list membership, i.e. exact match. -/
def atomsCopyReserved : List String := ["atype", "pos"]
/-- keys of `Atoms(atype=atype, pos=pos, **d)`. -/
def copyKeys (explicit reserved : List String) (keys : List String) : List String :=
  explicit ++ keys.filter (fun k => !reserved.contains k)

/-! ### statements -/

inductive Stmt where
  /-- `spos = self.atoms_prop('pos', scale=True)` -/
  | getSpos
  /-- `self.box.set(**kwargs)` / `self.box_set(avect=…, bvect=…, cvect=…, origin=…)`: the pending box goes through the setters -/
  | setBoxKw
  /-- `self.atoms_prop('pos', value=spos, scale=True)` -/
  | putSpos
  /-- `imageflags = np.zeros_like(spos, dtype=int)` -/
  | zeroFlags
  /-- `for i in range(3): if self.pbc[i]: imageflags[:, i] = np.floor(spos[:, i]) else: …min/max…` -/
  | loopAxes
  /-- `spos -= imageflags` -/
  | subFlags
  /-- `origin = …; avect = …; bvect = …; cvect = …` from the box as it is NOW and the `mins` / `maxs` of the loop -/
  | newBoxFromBounds
  /-- `system = deepcopy(system)` -/
  | copy
  /-- `if np.dot(np.cross(a, b), c) < 0: system.box_set(avect=a, bvect=b, cvect=-c, origin=origin + c)` -/
  | flipIfLeft
  /-- `vects = deepcopy(system.box.vects)` -/
  | saveVects
  /-- `system.box_set(a=system.box.a, …, gamma=system.box.gamma, scale=True)` -/
  | rebuild
  /-- `system.wrap()` -/
  | wrapCall
  /-- `transformation = np.linalg.lstsq(vects, system.box.vects, rcond=None)[0].T` -/
  | fitTransform
deriving DecidableEq, Repr

structure St (K : Type) where
  c : CSys K
  spos : List (V3 K)
  flags : List (V3 Int)
  /-- `(mins[i], maxs[i])` -/
  bd : V3 (K × K)
  /-- the box arguments about to be handed to `Box.set` -/
  nb : Box K
  /-- `vects` of normalize (the cell before the rebuild) -/
  saved : M3 K
  /-- `transformation` -/
  T : M3 K
  /-- `false` once an assertion of the code has failed -/
  ok : Bool

section
variable [Add K] [Sub K] [Mul K] [Div K] [Neg K] [Zero K] [One K] [IntCast K]
  [LT K] [LE K] [DecidableLT K] [DecidableLE K]

def St.init (c : CSys K) (nb : Box K) : St K :=
  ⟨c, [], [], ⟨(0, 1), (0, 1), (0, 1)⟩, nb, c.box.vects, c.box.vects, true⟩

/-- one statement. -/
def exec (P : Params K) (s : St K) : Stmt → St K
  | .getSpos => let g := s.c.getSpos; { s with c := g.2, spos := g.1 }
  | .setBoxKw => { s with c := s.c.setBox P.tiny s.nb.vects s.nb.origin }
  | .putSpos => { s with c := s.c.putSpos s.spos }
  | .zeroFlags => { s with flags := s.spos.map (fun _ => ⟨0, 0, 0⟩) }
  | .loopAxes => { s with flags := s.spos.map (flagsOf P.fl s.c.pbc), bd := bounds P.pad s.c.pbc s.spos }
  | .subFlags => { s with spos := List.zipWith subFlags s.spos s.flags }
  | .newBoxFromBounds => { s with nb := paddedBox s.c.box s.bd }
  | .copy => s
  | .flipIfLeft =>
    if triple s.c.box.vects < 0 then
      { s with c := s.c.setBox P.tiny (flipC s.c.box).vects (flipC s.c.box).origin }
    else s
  | .saveVects => { s with saved := s.c.box.vects }
  | .rebuild =>
    match s.c.rebuild P with
    | none => { s with ok := false }
    | some c' => { s with c := c' }
  | .wrapCall => let w := s.c.wrapC P; { s with c := w.2, flags := w.1 }
  | .fitTransform => { s with T := (M3.mul (M3.inv s.saved) s.c.box.vects).transpose }

def runStmts (P : Params K) (s : St K) (prog : List Stmt) : St K := prog.foldl (exec P) s

/-- what `lammps.normalize` hands back after running its body. -/
def St.normalized (s : St K) : Option (Normalized K) :=
  if s.ok then some ⟨s.c.box, s.c.pos, s.flags, s.T⟩ else none

/-! ### the entry points with their option handling (`none` = argument omitted) -/

namespace CSys

/-- `System.box_set(vects=v, origin=o, scale=<scale>)`: `scale` popped with its default, refused with `TypeError` unless
    `isinstance(scale, bool)`, then `scale is True` selects the branch that holds the relative coordinates. -/
def boxSetApi (tiny : K) (c : CSys K) (scale : Option PyVal) (v : M3 K) (o : V3 K) : Except Err (CSys K) :=
  let sc := scale.getD boxSetScaleDefault
  if sc.isBool then .ok (c.boxSet tiny sc.isTrue v o) else .error .typeError

/-- `System.wrap(<flag>)`: the work is the same whatever the flag; the image flags are returned iff it is truthy. -/
def wrapApi (P : Params K) (c : CSys K) (flag : Option PyVal) : Option (List (V3 Int)) × CSys K :=
  let w := c.wrapC P
  (if (flag.getD wrapFlagDefault).truthy then some w.1 else none, w.2)

/-- the cell `normalize` rebuilds (after the reversal of a left-handed one). -/
def flipped (P : Params K) (c : CSys K) : CSys K :=
  if triple c.box.vects < 0 then c.setBox P.tiny (flipC c.box).vects (flipC c.box).origin else c

/-- `atomman.lammps.normalize(system, <flag>)` with both refusals of the rebuild (`ValueError` of `set_abc` for a lattice
    angle outside (0, 180), assertion of `set_lengths`); the `Bool` says whether the transformation is part of what is
    returned (`(system, transformation)` vs `system`). -/
def lmpNormalizeApi (P : Params K) (c : CSys K) (flag : Option PyVal) : Except Err (Normalized K × Bool) :=
  if angleGuard P.sqrt (c.flipped P).box.vects then
    match c.normalizeC P with
    | some z => .ok (z, (flag.getD normFlagDefault).truthy)
    | none => .error .assertion
  else .error .valueError

/-- `System.normalize(<style>, <flag>)`. -/
def normalizeApi (P : Params K) (c : CSys K) (style flag : Option PyVal) : Except Err (Normalized K × Bool) :=
  if style.getD normStyleDefault = normStyleAccepted then c.lmpNormalizeApi P flag else .error .valueError

end CSys

end

end Atomman.C05
