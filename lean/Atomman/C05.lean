/-
  C05 — model of `System.wrap` and `atomman.lammps.normalize` (core Lean only).

  Sources:
    atomman/core/System.py   wrap (floor of the scaled coordinate on periodic axes, min/max + padding
                             of the cell on the others), box_set(scale=True), atoms_prop(scale=True)
    atomman/lammps/normalize.py   flip of a left-handed cell, rebuild from a,b,c,alpha,beta,gamma with
                             relative coordinates held, wrap, transformation by lstsq
    atomman/core/Box.py      set_vectors, set_abc, set_lengths, a/b/c/alpha/beta/gamma

  `wrap` is a standalone function (box, pbc, Cartesian positions) ↦ (new box, new positions, image
  flags) and is meant to be imported by other properties (C04, C07, C13, C14).

  External numerical routines are parameters:
    * `fl : K → Int`    `numpy.floor` followed by the cast to int (driver: `Rat.floor`)
    * `pad : K`         the literal `0.001` of the source (driver: the exact value of that double)
    * `sqrt : K → K`    `x**0.5` (driver: `ratSqrt`, a rational approximation good to 2^-160)
  `cos(arccos x) = x` is used silently: the model keeps the cosines of the cell angles and never
  forms the angles (recorded as an assumption).  `numpy.linalg.inv` is the adjugate formula
  `M3.inv`, `numpy.linalg.lstsq` on a square non-singular system is `inv · rhs`.
  Not modelled: the "zero out near zero terms" clean-up of the `Box.vects` setter (a relative 1e-9
  perturbation, absorbed by the correspondence tolerance).
-/
import Atomman.Box

namespace Atomman.C05
open Atomman

variable {K : Type}

/-! ### wrap -/

/-- `spos[:, i].min()` as numpy computes it: running minimum with a strict comparison. -/
def minOf [LT K] [DecidableLT K] (init : K) (l : List K) : K :=
  l.foldl (fun m s => if s < m then s else m) init

/-- `spos[:, i].max()`. -/
def maxOf [LT K] [DecidableLT K] (init : K) (l : List K) : K :=
  l.foldl (fun m s => if m < s then s else m) init

/-- `(mins[i], maxs[i])` of one direction: `(0, 1)` on a periodic axis; on a non-periodic axis the
    cell face is moved `pad` beyond the outermost atom when that atom is on or beyond the face
    (`min <= 0`, `max >= 1`).  A system without atoms (numpy would raise on the empty reduction; the
    driver rejects it) leaves the cell as it is. -/
def axisBounds [LT K] [LE K] [DecidableLT K] [DecidableLE K] [Add K] [Sub K] [Zero K] [One K]
    (pad : K) (periodic : Bool) (ss : List K) : K × K :=
  if periodic then (0, 1) else
  match ss with
  | [] => (0, 1)
  | x :: xs =>
    let mn := minOf x xs
    let mx := maxOf x xs
    (if mn ≤ 0 then mn - pad else 0, if 1 ≤ mx then mx + pad else 1)

/-- image flag of one scaled coordinate: `floor` on a periodic axis, `0` otherwise. -/
@[inline] def flagOf (fl : K → Int) (periodic : Bool) (s : K) : Int := if periodic then fl s else 0

/-- image flags of one atom. -/
@[inline] def flagsOf (fl : K → Int) (pbc : V3 Bool) (s : V3 K) : V3 Int :=
  ⟨flagOf fl pbc.x s.x, flagOf fl pbc.y s.y, flagOf fl pbc.z s.z⟩

/-- `spos -= imageflags` for one atom. -/
@[inline] def subFlags [Sub K] [IntCast K] (s : V3 K) (f : V3 Int) : V3 K :=
  ⟨s.x - (f.x : K), s.y - (f.y : K), s.z - (f.z : K)⟩

/-- integer combination of cell vectors `f.x a + f.y b + f.z c` (what the image flags stand for). -/
@[inline] def latticeVec [Add K] [Mul K] [IntCast K] (v : M3 K) (f : V3 Int) : V3 K :=
  M3.vecMul ⟨(f.x : K), (f.y : K), (f.z : K)⟩ v

structure Wrapped (K : Type) where
  box : Box K
  pos : List (V3 K)
  flags : List (V3 Int)
deriving Repr

section
variable [Add K] [Sub K] [Mul K] [Div K] [Zero K] [One K] [IntCast K]
  [LT K] [LE K] [DecidableLT K] [DecidableLE K]

/-- the three `(mins, maxs)` pairs from the scaled positions. -/
def bounds (pad : K) (pbc : V3 Bool) (spos : List (V3 K)) : V3 (K × K) :=
  ⟨axisBounds pad pbc.x (spos.map (·.x)), axisBounds pad pbc.y (spos.map (·.y)),
   axisBounds pad pbc.z (spos.map (·.z))⟩

/-- the box `wrap` installs: origin `+ mins·vects`, vector `i` scaled by `maxs[i] - mins[i]`. -/
def paddedBox (b : Box K) (bd : V3 (K × K)) : Box K :=
  ⟨⟨V3.smul (bd.x.2 - bd.x.1) b.vects.r0, V3.smul (bd.y.2 - bd.y.1) b.vects.r1,
    V3.smul (bd.z.2 - bd.z.1) b.vects.r2⟩,
   b.origin + M3.vecMul ⟨bd.x.1, bd.y.1, bd.z.1⟩ b.vects⟩

/-- image flags of one atom at Cartesian position `p`. -/
@[inline] def atomFlags (fl : K → Int) (b : Box K) (pbc : V3 Bool) (p : V3 K) : V3 Int :=
  flagsOf fl pbc (b.cartToRel p)

/-- new Cartesian position of one atom: `spos -= imageflags`, then unscaled with the *old* box. -/
@[inline] def atomPos (fl : K → Int) (b : Box K) (pbc : V3 Bool) (p : V3 K) : V3 K :=
  b.relToCart (subFlags (b.cartToRel p) (atomFlags fl b pbc p))

/-- `System.wrap(return_imageflags=True)`: scaled positions with the *old* box, flags, positions
    rebuilt with the *old* box, then the box is replaced. -/
def wrap (fl : K → Int) (pad : K) (b : Box K) (pbc : V3 Bool) (pos : List (V3 K)) : Wrapped K :=
  ⟨paddedBox b (bounds pad pbc (pos.map b.cartToRel)),
   pos.map (atomPos fl b pbc),
   pos.map (atomFlags fl b pbc)⟩

/-- a point is inside a box, faces included (`Box.inside(inclusive=True)` in relative terms). -/
def insideRel (s : V3 K) : Prop := 0 ≤ s.x ∧ s.x ≤ 1 ∧ 0 ≤ s.y ∧ s.y ≤ 1 ∧ 0 ≤ s.z ∧ s.z ≤ 1

def insideRelB (s : V3 K) : Bool :=
  decide (0 ≤ s.x) && decide (s.x ≤ 1) && decide (0 ≤ s.y) && decide (s.y ≤ 1) &&
  decide (0 ≤ s.z) && decide (s.z ≤ 1)

end

/-! ### normalize -/

section
variable [Add K] [Sub K] [Mul K] [Div K] [Neg K] [Zero K] [One K] [IntCast K]
  [LT K] [LE K] [DecidableLT K] [DecidableLE K]

/-- `np.dot(np.cross(avect, bvect), cvect)`. -/
@[inline] def triple (v : M3 K) : K := V3.dot (V3.cross v.r0 v.r1) v.r2

/-- reversal of the third vector with the origin moved to its tip (same parallelepiped). -/
def flipC (b : Box K) : Box K := ⟨⟨b.vects.r0, b.vects.r1, -b.vects.r2⟩, b.origin + b.vects.r2⟩

/-- step 1 of normalize: only a left-handed cell is changed. -/
def flip (b : Box K) : Box K := if triple b.vects < 0 then flipC b else b

/-- `V Vᵀ`: squared lengths on the diagonal, dot products elsewhere. -/
@[inline] def gram (v : M3 K) : M3 K := M3.mul v v.transpose

/-- lengths as `Box.a/b/c` compute them. -/
@[inline] def lenA (sqrt : K → K) (v : M3 K) : K := sqrt (V3.normSq v.r0)
@[inline] def lenB (sqrt : K → K) (v : M3 K) : K := sqrt (V3.normSq v.r1)
@[inline] def lenC (sqrt : K → K) (v : M3 K) : K := sqrt (V3.normSq v.r2)
/-- cosines of `alpha` (b,c), `beta` (a,c), `gamma` (a,b) as `vect_angle` forms them. -/
@[inline] def cosAlpha (sqrt : K → K) (v : M3 K) : K := V3.dot v.r1 v.r2 / (lenB sqrt v * lenC sqrt v)
@[inline] def cosBeta (sqrt : K → K) (v : M3 K) : K := V3.dot v.r0 v.r2 / (lenA sqrt v * lenC sqrt v)
@[inline] def cosGamma (sqrt : K → K) (v : M3 K) : K := V3.dot v.r0 v.r1 / (lenA sqrt v * lenB sqrt v)

/-- `set_abc`: `xy = b cos γ`, `xz = c cos β`. -/
@[inline] def tiltXY (sqrt : K → K) (v : M3 K) : K := lenB sqrt v * cosGamma sqrt v
@[inline] def tiltXZ (sqrt : K → K) (v : M3 K) : K := lenC sqrt v * cosBeta sqrt v
/-- argument of the square root giving `ly`: `b² - xy²`. -/
@[inline] def lyArg (sqrt : K → K) (v : M3 K) : K :=
  lenB sqrt v * lenB sqrt v - tiltXY sqrt v * tiltXY sqrt v
@[inline] def lenLy (sqrt : K → K) (v : M3 K) : K := sqrt (lyArg sqrt v)
/-- `yz = (b c cos α - xy xz) / ly`. -/
@[inline] def tiltYZ (sqrt : K → K) (v : M3 K) : K :=
  (lenB sqrt v * lenC sqrt v * cosAlpha sqrt v - tiltXY sqrt v * tiltXZ sqrt v) / lenLy sqrt v
/-- argument of the square root giving `lz`: `c² - xz² - yz²`. -/
@[inline] def lzArg (sqrt : K → K) (v : M3 K) : K :=
  lenC sqrt v * lenC sqrt v - tiltXZ sqrt v * tiltXZ sqrt v - tiltYZ sqrt v * tiltYZ sqrt v
@[inline] def lenLz (sqrt : K → K) (v : M3 K) : K := sqrt (lzArg sqrt v)

/-- `Box.set(a=…, b=…, c=…, alpha=…, beta=…, gamma=…)` of the cell's own parameters: origin is reset
    to 0 (the call passes none); `none` is the `lx, ly, lz > 0` assertion of `set_lengths`. -/
def abcBox? (sqrt : K → K) (v : M3 K) : Option (Box K) :=
  Box.ofLengths? (lenA sqrt v) (lenLy sqrt v) (lenLz sqrt v) (tiltXY sqrt v) (tiltXZ sqrt v)
    (tiltYZ sqrt v) ⟨0, 0, 0⟩

/-- one lattice angle passes `set_abc`'s check `0 < angle < 180`, in terms of its cosine: `vect_angle` clamps the cosine
    into `[-1, 1]` and takes `arccos`, which maps `[-1, 1]` strictly decreasingly onto `[180°, 0°]`, so the angle is
    strictly between 0 and 180 degrees exactly when the cosine is strictly between -1 and 1. -/
@[inline] def cosStrict (x : K) : Bool := decide (-1 < x) && decide (x < 1)

/-- the refusal at the head of `Box.set_abc`: `alpha <= 0 or alpha >= 180 or beta <= 0 or … → ValueError('lattice
    angles must be between 0 and 180 degrees')`, evaluated on the cell's own angles as `normalize` hands them over. -/
def angleGuard (sqrt : K → K) (v : M3 K) : Bool :=
  cosStrict (cosAlpha sqrt v) && cosStrict (cosBeta sqrt v) && cosStrict (cosGamma sqrt v)

structure Normalized (K : Type) where
  box : Box K
  pos : List (V3 K)
  flags : List (V3 Int)
  /-- the returned `transformation` (`lstsq(vects_old, vects_new)[0].T`) -/
  transform : M3 K
deriving Repr

/-- `atomman.lammps.normalize(system, return_transform=True)`.
    `flags` are the image flags of the inner `wrap()` (not returned by the code, kept for the theorems). -/
def normalize? (fl : K → Int) (pad : K) (sqrt : K → K) (b : Box K) (pbc : V3 Bool)
    (pos : List (V3 K)) : Option (Normalized K) :=
  let b1 := flip b
  match abcBox? sqrt b1.vects with
  | none => none
  | some b2 =>
    -- box_set(scale=True): relative coordinates in the old (flipped) box are kept
    let pos2 := pos.map (fun p => b2.relToCart (b1.cartToRel p))
    let w := wrap fl pad b2 pbc pos2
    some ⟨w.box, w.pos, w.flags, (M3.mul (M3.inv b1.vects) w.box.vects).transpose⟩

/-- `normalize` with BOTH refusals of the rebuild step: the `ValueError` of `set_abc` for a lattice angle that is not
    strictly between 0 and 180 degrees (`angleGuard`) and the assertion of `set_lengths` (inside `abcBox?`).
    `normalize_never_refuses` shows that neither fires for a non-singular cell. -/
def normalizeG? (fl : K → Int) (pad : K) (sqrt : K → K) (b : Box K) (pbc : V3 Bool)
    (pos : List (V3 K)) : Option (Normalized K) :=
  if angleGuard sqrt (flip b).vects then normalize? fl pad sqrt b pbc pos else none

end

/-! ### executable instances for the driver (`K := Rat`) -/

/-- the double `0.001` exactly. -/
def pad001 : Rat := mkRat 1152921504606847 1152921504606846976

/-- rational square root of a number in `[1/4, 16)` or so, absolute error below `2^-160`. -/
def ratSqrtCore (x : Rat) : Rat :=
  if x ≤ 0 then 0 else
  mkRat (Int.ofNat (Nat.sqrt ((x.num.toNat * 4 ^ 160) / x.den))) (2 ^ 160)

/-- rational square root with a RELATIVE error below `2^-158` at every magnitude: `x = y · 4^k` with `y` of order 1
    (`k` from the bit lengths of numerator and denominator), `sqrt x = sqrt y · 2^k`.  (Cells are rescaled by exact
    powers of two up to `2^±320` in the correspondence; an absolute precision would return 0 for a cell of size `2^-250`.) -/
def ratSqrt (x : Rat) : Rat :=
  if x ≤ 0 then 0 else
  let e : Int := (Nat.log2 x.num.toNat : Int) - (Nat.log2 x.den : Int)
  let k : Int := e / 2
  if 0 ≤ k then
    let p : Rat := ((4 ^ k.toNat : Nat) : Rat)
    ratSqrtCore (x / p) * ((2 ^ k.toNat : Nat) : Rat)
  else
    let p : Rat := ((4 ^ (-k).toNat : Nat) : Rat)
    ratSqrtCore (x * p) / ((2 ^ (-k).toNat : Nat) : Rat)

/-- the four assertions at the end of `normalize` (`np.allclose(norms, 1)`: `|n - 1| ≤ 1e-8 + 1e-5`;
    `np.isclose(dot, 0, atol=1e-5)`: `|d| ≤ 1e-5`), evaluated on squared norms. -/
def transformOK (t : M3 Rat) : Bool :=
  let lo : Rat := 1 - (1001 : Rat) / 100000000
  let hi : Rat := 1 + (1001 : Rat) / 100000000
  let tol : Rat := (1 : Rat) / 100000
  let okN := fun (r : V3 Rat) => decide (lo * lo ≤ V3.normSq r) && decide (V3.normSq r ≤ hi * hi)
  let okD := fun (r s : V3 Rat) => decide (ratAbs (V3.dot r s) ≤ tol)
  okN t.r0 && okN t.r1 && okN t.r2 && okD t.r0 t.r1 && okD t.r0 t.r2 && okD t.r1 t.r2

end Atomman.C05
