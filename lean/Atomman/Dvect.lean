/-
  Shared model of `atomman.dvect` / `atomman.dmag` (core Lean only).
  Source: atomman/core/dvect.pyx (dvect_c), atomman/core/dmag.pyx (dmag2_c): the same nested
  loops over x, y, z ∈ {-1,0,1} (periodic) or {0}, same candidate order, same strict `<`.
-/
import Atomman.Prelude

namespace Atomman

/-- loop ranges `range(-1, 2)` or `range(0, 1)`. -/
def pbcRange (p : Bool) : List Int := if p then [-1, 0, 1] else [0]

/-- the image shifts in the order the C loops visit them, `(0,0,0)` skipped. -/
def imageShifts (px py pz : Bool) : List (Int × Int × Int) :=
  ((pbcRange px).flatMap fun x => (pbcRange py).flatMap fun y => (pbcRange pz).map fun z => (x, y, z)).filter
    (fun s => !(s.1 == 0 && s.2.1 == 0 && s.2.2 == 0))

section
variable {K : Type} [Add K] [Sub K] [Mul K] [IntCast K] [LT K] [DecidableLT K]

/-- `d + x*a + y*b + z*c`. -/
@[inline] def shiftBy (vects : M3 K) (d : V3 K) (s : Int × Int × Int) : V3 K :=
  ⟨d.x + (s.1 : K) * vects.r0.x + (s.2.1 : K) * vects.r1.x + (s.2.2 : K) * vects.r2.x,
   d.y + (s.1 : K) * vects.r0.y + (s.2.1 : K) * vects.r1.y + (s.2.2 : K) * vects.r2.y,
   d.z + (s.1 : K) * vects.r0.z + (s.2.1 : K) * vects.r1.z + (s.2.2 : K) * vects.r2.z⟩

/-- one iteration of the innermost loop body: replace `d` if the candidate is strictly shorter. -/
@[inline] def dvectStep (vects : M3 K) (d0 : V3 K) (d : V3 K) (s : Int × Int × Int) : V3 K :=
  let test := shiftBy vects d0 s
  if V3.normSq test < V3.normSq d then test else d

/-- `dvect_c` for one pair of points. -/
def dvect (vects : M3 K) (px py pz : Bool) (p0 p1 : V3 K) : V3 K :=
  let d0 := p1 - p0
  (imageShifts px py pz).foldl (dvectStep vects d0) d0

/-- `dmag2_c`-style squared periodic distance (the smallest squared candidate length). -/
def dmag2 (vects : M3 K) (px py pz : Bool) (p0 p1 : V3 K) : K :=
  let d0 := p1 - p0
  (imageShifts px py pz).foldl
    (fun m s => let t := V3.normSq (shiftBy vects d0 s); if t < m then t else m) (V3.normSq d0)

end
end Atomman
