/-
  C19 — model of `atomman.lammps.Log` (atomman/lammps/Log.py).  Core Lean only.

  Strings are Python `str`s, i.e. sequences of code points: `Str := List Char`.  A log is a
  `List Str` (its lines, without terminators).  The driver converts `String ↔ List Char`.

  * `Scan.step` / `scan`   : the single pass of `Log.read` exactly as coded (blank lines skipped and
                             not counted; trigger strings, offsets and the version-prefix test come
                             from `Atomman/Generated/LogTriggers.lean`, regenerated from Log.py)
  * `readThermo`           : `pd.read_csv(header=h, nrows=f-h, sep=r'\s+', skip_blank_lines=True)`
                             — ASSUMED pandas behaviour: row `h` of the non-blank lines is the header,
                             the following `f-h` non-blank lines are the rows, each split on whitespace
  * `readLog`              : `Log.read(log, append)` on the state `(simulations, version, date)`
  * `flattenFirst/Last/All`: `Log.flatten(style)` on rows carrying an integer `Step`
  * `renderLog`            : generator of well-formed logs of the documented layout
-/
import Atomman.Prelude
import Atomman.Generated.LogTriggers

namespace Atomman.C19
open Atomman

abbrev Str := List Char

/-! ### Python string primitives used by Log.py -/

/-- ASCII whitespace (`str.split()`, `str.strip()`; pandas `sep=r'\s+'`). -/
def isWs (c : Char) : Bool :=
  c == ' ' || c == '\t' || c == '\n' || c == '\r' || c == '\x0b' || c == '\x0c'

/-- `len(line.split()) == 0` -/
def isBlank (l : Str) : Bool := l.all isWs

/-- `cur` is the current token, reversed. -/
def splitWsAux : Str → Str → List Str
  | cur, [] => if cur.isEmpty then [] else [cur.reverse]
  | cur, c :: cs =>
    if isWs c then (if cur.isEmpty then splitWsAux [] cs else cur.reverse :: splitWsAux [] cs)
    else splitWsAux (c :: cur) cs

/-- `line.split()` -/
def splitWs (l : Str) : List Str := splitWsAux [] l

/-- `line.strip()` -/
def strip (l : Str) : Str := ((l.dropWhile isWs).reverse.dropWhile isWs).reverse

/-- `t in l` -/
def containsStr (t : Str) : Str → Bool
  | [] => t.isEmpty
  | c :: cs => t.isPrefixOf (c :: cs) || containsStr t cs

/-- `any([trigger in line for trigger in triggers])` -/
def hasAny (ts : List Str) (l : Str) : Bool := ts.any (fun t => containsStr t l)

/-- `s.split(d)` for a single-character separator. -/
def splitOnChar (d : Char) : Str → List Str
  | [] => [[]]
  | c :: cs =>
    match splitOnChar d cs with
    | [] => [[c]]   -- unreachable
    | t :: ts => if c == d then [] :: t :: ts else (c :: t) :: ts

def thermoStart : List Str := Gen.Log.thermoStartTrigger.map String.toList
def thermoEnd : List Str := Gen.Log.thermoEndTrigger.map String.toList
def perfStart : List Str := Gen.Log.performanceStartTrigger.map String.toList
def perfStartOld : List Str := Gen.Log.performanceStartTriggerOld.map String.toList
def perfEnd : List Str := Gen.Log.performanceEndTrigger.map String.toList
def versionPrefix : Str := Gen.Log.versionPrefix.toList

/-- `line[:8] == 'LAMMPS ('` -/
def isVersionLine (l : Str) : Bool := l.take Gen.Log.versionPrefixLen == versionPrefix

/-! ### the single pass -/

structure Scan where
  i : Nat := 0
  /-- `self.lammps_version is None` is false -/
  haveVersion : Bool := false
  /-- the line handed to `__read_lammps_version` -/
  versionLine : Option Str := none
  thermoHeaders : List Int := []
  thermoFooters : List Int := []
  perfHeaders : List Int := []
  /-- index (within this read) of the run a timing breakdown belongs to -/
  perfSims : List Int := []
  perfFooters : List Int := []
  isOld : Bool := false
deriving Repr

/-- the body of `for line in log_info:` -/
def Scan.step (s : Scan) (line : Str) : Scan :=
  if isBlank line then s else
  let s := if isVersionLine line && (!s.haveVersion || !Gen.Log.versionOnlyIfUnset) then
      { s with versionLine := some line, haveVersion := true } else s
  let s :=
    if hasAny thermoStart line then
      { s with thermoHeaders := s.thermoHeaders ++ [(s.i : Int) + Gen.Log.thermoHeaderOffset] }
    else if hasAny thermoEnd line then
      { s with thermoFooters := s.thermoFooters ++ [(s.i : Int) + Gen.Log.thermoFooterOffset] }
    else s
  let s :=
    if hasAny perfStart line then
      { s with perfHeaders := s.perfHeaders ++ [(s.i : Int) + Gen.Log.perfHeaderOffset],
               perfSims := s.perfSims ++ [(s.thermoHeaders.length : Int) - 1] }
    else s
  let s :=
    if hasAny perfStartOld line then
      { s with perfHeaders := s.perfHeaders ++ [(s.i : Int) + Gen.Log.perfHeaderOldOffset],
               perfSims := s.perfSims ++ [(s.thermoHeaders.length : Int) - 1],
               isOld := true }
    else if hasAny perfEnd line && decide (s.perfFooters.length < s.perfHeaders.length) then
      { s with perfFooters := s.perfFooters ++ [(s.i : Int) + Gen.Log.perfFooterOffset] }
    else s
  { s with i := s.i + 1 }

def scan (init : Scan) (lines : List Str) : Scan := lines.foldl Scan.step init

/-! ### tables -/

inductive Err | value | index | key | parser | assert | attr | type
deriving DecidableEq, Repr

def Err.name : Err → String
  | .value => "value" | .index => "index" | .key => "key" | .parser => "parser"
  | .assert => "assert" | .attr => "attr" | .type => "type"

structure Table where
  cols : List Str
  rows : List (List Str)
deriving DecidableEq, Repr

/-- lines that both the counter and (assumed) pandas keep. -/
def nonBlank (lines : List Str) : List Str := lines.filter (fun l => !isBlank l)

/-- `pd.read_csv(log, header=header, nrows=footer-header, sep=r'\s+', skip_blank_lines=True)` on the
    non-blank lines `nb` (assumed pandas behaviour, see ASSUMPTIONS). -/
def readThermo (nb : List Str) (header footer : Int) : Except Err Table :=
  if footer - header < 0 then .error .value
  else if header < 0 then .error .value
  else match nb[header.toNat]? with
    | none => .error .parser
    | some h =>
      let cols := splitWs h
      let rows := ((nb.drop (header.toNat + 1)).take (footer - header).toNat).map splitWs
      if rows.any (fun r => decide (cols.length < r.length)) then .error .parser
      else .ok ⟨cols, rows⟩

/-- `for header, footer in zip(thermo_headers, thermo_footers): self.__read_thermo(...)` -/
def readBlocks (nb : List Str) : List Int → List Int → Except Err (List Table)
  | h :: hs, f :: fs =>
    match readThermo nb h f with
    | .error e => .error e
    | .ok t =>
      match readBlocks nb hs fs with
      | .error e => .error e
      | .ok ts => .ok (t :: ts)
  | _, _ => .ok []

/-! ### version and date -/

structure Date where
  year : Nat
  month : Nat
  day : Nat
deriving DecidableEq, Repr

/-- `line.strip()[8:-1]` -/
def dropEnd (l : Str) (n : Nat) : Str := l.take (l.length - n)

def extractVersion (line : Str) : Str :=
  dropEnd ((strip line).drop Gen.Log.versionSliceStart) Gen.Log.versionSliceDropEnd

def digitVal? (c : Char) : Option Nat :=
  if '0' ≤ c ∧ c ≤ '9' then some (c.toNat - '0'.toNat) else none

/-- `int(s)` for plain decimal digit strings (anything else: `ValueError`). -/
def parseNat? (s : Str) : Option Nat :=
  if s.isEmpty then none else
  s.foldl (fun acc c => match acc, digitVal? c with
    | some a, some d => some (10 * a + d)
    | _, _ => none) (some 0)

def monthLookup (m : Str) : Option Nat :=
  (Gen.Log.monthTable.find? (fun p => p.1.toList == m)).map (·.2)

def isLeap (y : Nat) : Bool := y % 4 == 0 && (y % 100 != 0 || y % 400 == 0)

def daysInMonth (y m : Nat) : Nat :=
  if m == 2 then (if isLeap y then 29 else 28)
  else if m == 4 || m == 6 || m == 9 || m == 11 then 30 else 31

/-- `d = version.split('-')[0].split(); datetime.date(int(d[2]), month[d[1]], int(d[0]))` -/
def dateOf (version : Str) : Except Err Date :=
  let d := splitWs (version.takeWhile (· != '-'))
  match d with
  | dd :: mm :: yy :: _ =>
    match parseNat? yy with
    | none => .error .value
    | some y =>
      match monthLookup mm with
      | none => .error .key
      | some m =>
        match parseNat? dd with
        | none => .error .value
        | some day =>
          if 1 ≤ y ∧ y ≤ 9999 ∧ 1 ≤ m ∧ m ≤ 12 ∧ 1 ≤ day ∧ day ≤ daysInMonth y m then .ok ⟨y, m, day⟩
          else .error .value
  | _ => .error .index

/-! ### performance tables (timing breakdown); compared in the correspondence only -/

structure Perf where
  cols : List Str
  rows : List (Str × List Str)
deriving DecidableEq, Repr

/-- new layout: `sep='|'`, first row (dashes) dropped, columns stripped, index `Section`,
    blank cells become `0.0`. -/
def readPerfNew (nb : List Str) (header footer : Int) : Except Err Perf :=
  if footer - header < 0 then .error .value
  else if header < 0 then .error .value
  else match nb[header.toNat]? with
    | none => .error .parser
    | some h =>
      let cols := (splitOnChar '|' h).map strip
      let raw := ((nb.drop (header.toNat + 1)).take (footer - header).toNat).map (splitOnChar '|')
      if raw.any (fun r => decide (cols.length < r.length)) then .error .parser
      else match raw with
        | [] => .error .key
        | _ :: rest =>
          if cols.head? != some "Section".toList then .error .key
          else .ok ⟨cols.drop 1, rest.map (fun r =>
            (strip (r.headD []),
             (List.range (cols.length - 1)).map (fun k =>
               match r[k + 1]? with
               | none => "nan".toList
               | some c => if isBlank c then "0.0".toList else strip c)))⟩

/-- old layout: `sep='='`, the header line is the first row; `name = time (percent)`. -/
def readPerfOld (nb : List Str) (header footer : Int) : Except Err Perf :=
  if footer - header < 0 then .error .value
  else if header < 0 then .error .value
  else match nb[header.toNat]? with
    | none => .error .parser
    | some _ =>
      let raw := ((nb.drop header.toNat).take ((footer - header).toNat + 1)).map (splitOnChar '=')
      if raw.any (fun r => r.length != 2) then .error .parser
      else .ok ⟨["avg. Time".toList, "%".toList], raw.map (fun r =>
        let v := r.getD 1 []
        (strip (r.headD []),
         [strip (v.takeWhile (· != '(')),
          strip (((v.dropWhile (· != '(')).drop 1).takeWhile (· != ')'))]))⟩

structure Sim where
  thermo : Table
  perf : Option Perf := none
deriving DecidableEq, Repr

/-- Python list indexing with negative wrap-around. -/
def pyIndex? (len : Nat) (k : Int) : Option Nat :=
  if 0 ≤ k then (if k.toNat < len then some k.toNat else none)
  else if 0 ≤ k + len then some (k + len).toNat else none

/-- `for i in range(len(performance_footers)): …; self.simulations[sim[i]+j].performance = …` -/
def assignPerf (nb : List Str) (isOld : Bool) (j : Nat) :
    List Int → List Int → List Int → List Sim → Except Err (List Sim)
  | _, _, [], sims => .ok sims
  | h :: hs, k :: ks, f :: fs, sims =>
    match (if isOld then readPerfOld nb h f else readPerfNew nb h f) with
    | .error e => .error e
    | .ok p =>
      match pyIndex? sims.length (k + j) with
      | none => .error .index
      | some idx =>
        assignPerf nb isOld j hs ks fs (sims.modify idx (fun s => { s with perf := some p }))
  | _, _, _ :: _, _ => .error .index

/-! ### Log.read -/

structure LogState where
  sims : List Sim := []
  version : Option Str := none
  date : Option Date := none
deriving DecidableEq, Repr

def LogState.empty : LogState := {}

/-- `if append is False:` — what is reset comes from the source. -/
def LogState.reset (st : LogState) : LogState where
  sims := if Gen.Log.resetSimulations then [] else st.sims
  version := if Gen.Log.resetVersion then none else st.version
  date := if Gen.Log.resetDate then none else st.date

/-- the thermo tables found in `lines` (independent of the state). -/
def thermoTables (sc : Scan) (lines : List Str) : Except Err (List Table) :=
  readBlocks (nonBlank lines) sc.thermoHeaders
    (sc.thermoFooters ++ [(sc.i : Int) + Gen.Log.thermoFinalFooterOffset])

/-- `Log.read(lines, append)` -/
def readLog (st : LogState) (append : Bool) (lines : List Str) : Except Err LogState :=
  let st := if append then st else st.reset
  let sc := scan { haveVersion := st.version.isSome } lines
  let vd : Except Err (Option Str × Option Date) :=
    match sc.versionLine with
    | none => .ok (st.version, st.date)
    | some l =>
      let v := extractVersion l
      match dateOf v with
      | .error e => .error e
      | .ok d => .ok (some v, some d)
  match vd with
  | .error e => .error e
  | .ok (version, date) =>
    match thermoTables sc lines with
    | .error e => .error e
    | .ok tables =>
      let sims := st.sims ++ tables.map (fun t => ({ thermo := t } : Sim))
      match assignPerf (nonBlank lines) sc.isOld st.sims.length sc.perfHeaders sc.perfSims sc.perfFooters sims with
      | .error e => .error e
      | .ok sims => .ok { sims := sims, version := version, date := date }

/-! ### from the text of a log to its lines

`for line in log_info` on the binary stream ends a line at `\n` and nowhere else (and so does LAMMPS, and the C parser
of pandas for text that holds no lone `\r`).  The `\r` of a `\r\n` ending stays at the end of the line, where it is
white space for `split()` / `strip()`.  The characters at which `str.splitlines()` would also break — `\x0b \x0c \x1c
\x1d \x1e U+0085 U+2028 U+2029` — are ordinary characters of the line they stand in. -/

/-- the lines of a text, terminators removed (a final `\n` leaves an empty last line: blank, skipped by everyone). -/
def splitLines (t : Str) : List Str := splitOnChar '\n' t

/-- lines → text, `\n` between them. -/
def joinLines : List Str → Str
  | [] => []
  | [l] => l
  | l :: ls => l ++ '\n' :: joinLines ls

/-- `Log.read(text, append)` on the text itself. -/
def readText (st : LogState) (append : Bool) (t : Str) : Except Err LogState := readLog st append (splitLines t)

/-! ### Log.read on a caller-owned open stream

`uber_open_rmode` passes an open binary stream through: the single pass iterates over it from wherever it stands,
pandas reads from wherever it stands and consumes it, and the `log_info.seek(0)` statements of `Log.read`,
`__read_thermo` and `__read_performance` (which of them exist, and on which side of the read, comes from the source:
`Gen.Log.seek*`) move it back.  The stream object outlives the call, so its position is part of the history. -/

/-- an open binary stream: its content and its position (`k` whole lines consumed, then `c` characters of the next). -/
structure Stream where
  lines : List Str
  k : Nat := 0
  c : Nat := 0
deriving DecidableEq, Repr

/-- what a reader starting at the current position sees. -/
def Stream.rest (s : Stream) : List Str :=
  match s.lines.drop s.k with
  | [] => []
  | l :: ls => l.drop s.c :: ls

/-- `stream.seek(0)` -/
def Stream.seek0 (s : Stream) : Stream := { s with k := 0, c := 0 }

/-- `stream.seek(0)` if the source has the statement. -/
def Stream.seekIf (b : Bool) (s : Stream) : Stream := if b then s.seek0 else s

/-- position after a reader consumed the stream (`for line in stream`; pandas on a log below its chunk size). -/
def Stream.exhaust (s : Stream) : Stream := { s with k := s.lines.length, c := 0 }

/-- is there a `log_info.seek(0)` statement before / after the single pass, before / after the pandas read of
    `__read_thermo`, before / after the pandas read of `__read_performance`. -/
structure SeekFlags where
  beforeScan : Bool
  afterScan : Bool
  thermoBefore : Bool
  thermoAfter : Bool
  perfBefore : Bool
  perfAfter : Bool
deriving DecidableEq, Repr

/-- the seeks of the source. -/
def seekFlags : SeekFlags :=
  ⟨Gen.Log.seekBeforeScan, Gen.Log.seekAfterScan, Gen.Log.thermoSeekBefore, Gen.Log.thermoSeekAfter,
   Gen.Log.perfSeekBefore, Gen.Log.perfSeekAfter⟩

/-- the single pass and every pandas read start at the beginning of the stream: the pass is preceded by a seek; a
    table read either seeks itself or follows a seek (after the pass / after the previous table read). -/
def SeekFlags.sound (f : SeekFlags) : Bool :=
  f.beforeScan && (f.thermoBefore || (f.afterScan && f.thermoAfter)) &&
    (f.perfBefore || (f.afterScan && f.thermoAfter && f.perfAfter))

/-- `__read_thermo(log_info, header, footer)` on the stream as it stands. -/
def readThermoS (f : SeekFlags) (s : Stream) (header footer : Int) : Except Err (Table × Stream) :=
  let s := s.seekIf f.thermoBefore
  match readThermo (nonBlank s.rest) header footer with
  | .error e => .error e
  | .ok t => .ok (t, s.exhaust.seekIf f.thermoAfter)

def readBlocksS (f : SeekFlags) (s : Stream) : List Int → List Int → Except Err (List Table × Stream)
  | h :: hs, ft :: fs =>
    match readThermoS f s h ft with
    | .error e => .error e
    | .ok (t, s) =>
      match readBlocksS f s hs fs with
      | .error e => .error e
      | .ok (ts, s) => .ok (t :: ts, s)
  | _, _ => .ok ([], s)

/-- `__read_performance(log_info, header, footer, is_old_version)` on the stream as it stands. -/
def readPerfS (f : SeekFlags) (s : Stream) (isOld : Bool) (header footer : Int) : Except Err (Perf × Stream) :=
  let s := s.seekIf f.perfBefore
  match (if isOld then readPerfOld (nonBlank s.rest) header footer else readPerfNew (nonBlank s.rest) header footer) with
  | .error e => .error e
  | .ok p => .ok (p, s.exhaust.seekIf f.perfAfter)

def assignPerfS (f : SeekFlags) (s : Stream) (isOld : Bool) (j : Nat) :
    List Int → List Int → List Int → List Sim → Except Err (List Sim × Stream)
  | _, _, [], sims => .ok (sims, s)
  | h :: hs, k :: ks, ft :: fs, sims =>
    match readPerfS f s isOld h ft with
    | .error e => .error e
    | .ok (p, s) =>
      match pyIndex? sims.length (k + j) with
      | none => .error .index
      | some idx =>
        assignPerfS f s isOld j hs ks fs (sims.modify idx (fun x => { x with perf := some p }))
  | _, _, _ :: _, _ => .error .index

/-- `Log.read(stream, append)` with the seeks `f`: the new state of the `Log` and of the stream. -/
def readLogSW (f : SeekFlags) (st : LogState) (append : Bool) (s : Stream) : Except Err (LogState × Stream) :=
  let st := if append then st else st.reset
  let s := s.seekIf f.beforeScan
  let sc := scan { haveVersion := st.version.isSome } s.rest
  let s := s.exhaust.seekIf f.afterScan
  let vd : Except Err (Option Str × Option Date) :=
    match sc.versionLine with
    | none => .ok (st.version, st.date)
    | some l =>
      let v := extractVersion l
      match dateOf v with
      | .error e => .error e
      | .ok d => .ok (some v, some d)
  match vd with
  | .error e => .error e
  | .ok (version, date) =>
    match readBlocksS f s sc.thermoHeaders (sc.thermoFooters ++ [(sc.i : Int) + Gen.Log.thermoFinalFooterOffset]) with
    | .error e => .error e
    | .ok (tables, s) =>
      let sims := st.sims ++ tables.map (fun t => ({ thermo := t } : Sim))
      match assignPerfS f s sc.isOld st.sims.length sc.perfHeaders sc.perfSims sc.perfFooters sims with
      | .error e => .error e
      | .ok (sims, s) => .ok ({ sims := sims, version := version, date := date }, s)

/-- `Log.read(stream, append)` as the source has it. -/
def readLogS (st : LogState) (append : Bool) (s : Stream) : Except Err (LogState × Stream) :=
  readLogSW seekFlags st append s

/-! ### Log.flatten -/

section Flatten
variable {α : Type} (step : α → Int)

/-- `df.Step.max()`; `none` is pandas' NaN of an empty column. -/
def maxStep? : List α → Option Int
  | [] => none
  | r :: rs => some (match maxStep? rs with | none => step r | some m => max (step r) m)

/-- `df.Step.min()` -/
def minStep? : List α → Option Int
  | [] => none
  | r :: rs => some (match minStep? rs with | none => step r | some m => min (step r) m)

/-- `pd.concat([merged, thermo[thermo.Step > merged.Step.max()]])` (comparison with NaN is False; the comparison
    itself is `Gen.Log.firstKeep`, regenerated from the source) -/
def mergeFirst (merged thermo : List α) : List α :=
  merged ++ thermo.filter (fun r => match maxStep? step merged with
    | some m => Gen.Log.firstKeep (step r) m | none => false)

/-- `pd.concat([merged[merged.Step < thermo.Step.min()], thermo])` -/
def mergeLast (merged thermo : List α) : List α :=
  merged.filter (fun r => match minStep? step thermo with
    | some m => Gen.Log.lastKeep (step r) m | none => false) ++ thermo

/-- `pd.concat([merged, thermo])` -/
def mergeAll (merged thermo : List α) : List α := merged ++ thermo

/-- `merged = sims[0]; for sim in sims[1:]: merged = merge merged sim`; `none` is the IndexError of
    `simulations[0]` on an empty list. -/
def flattenWith (merge : List α → List α → List α) : List (List α) → Option (List α)
  | [] => none
  | t :: ts => some (ts.foldl merge t)

def flattenFirst := flattenWith (mergeFirst step)
def flattenLast := flattenWith (mergeLast step)
def flattenAll : List (List α) → Option (List α) := flattenWith mergeAll
end Flatten

/-- a thermo row with its `Step` value and its cells by column name. -/
structure Row where
  step : Int
  cells : List (Str × Str)
deriving Repr

def parseInt? (s : Str) : Option Int :=
  match s with
  | '-' :: ds => (parseNat? ds).map (fun n => -(n : Int))
  | '+' :: ds => (parseNat? ds).map (fun n => (n : Int))
  | ds => (parseNat? ds).map (fun n => (n : Int))

def stepName : Str := "Step".toList

/-- rows with their `Step`; when `needStep` is false (style `all`, which never looks at `Step`) a missing
    or non-integer `Step` is tolerated.  A row too short to reach the `Step` column (pandas pads it with NaN) is
    a non-integer `Step` like any other junk cell: `.type` = comparison not modelled (the caller has already
    answered `.attr` for tables without a `Step` column). -/
def tableRows (needStep : Bool) (t : Table) : Except Err (List Row) :=
  t.rows.mapM (fun r =>
    let cells := t.cols.zip r
    match (cells.find? (fun c => c.1 == stepName)) with
    | none => if needStep then .error .type else .ok ⟨0, cells⟩
    | some c => match parseInt? c.2 with
      | none => if needStep then .error .type else .ok ⟨0, cells⟩
      | some s => .ok ⟨s, cells⟩)

/-- Python slice `l[a:b]` with `None`/negative bounds. -/
def pySlice {β : Type} (l : List β) (a b : Option Int) : List β :=
  let n : Int := l.length
  let norm (x : Option Int) (dflt : Int) : Int :=
    match x with
    | none => dflt
    | some v => if v < 0 then max (v + n) 0 else min v n
  let lo := norm a 0
  let hi := norm b n
  (l.drop lo.toNat).take (hi - lo).toNat

def unionCols (tabs : List Table) : List Str :=
  tabs.foldl (fun acc t => acc ++ t.cols.filter (fun c => !acc.contains c)) []

/-- `Log.flatten(style, firstindex, lastindex).thermo` -/
def flattenTables (style : Str) (tabs : List Table) : Except Err Table :=
  -- the Step assertion
  if tabs.any (fun t => !t.rows.isEmpty && !t.cols.contains stepName) then .error .assert else
  match tabs with
  | [] => .error .index
  | [t] => .ok t
  | t :: ts =>
    let isFirst := style == "first".toList
    let isLast := style == "last".toList
    let isAll := style == "all".toList
    if !(isFirst || isLast || isAll) then .error .value
    -- `merged_df.Step` / `thermo.Step` attribute access on a table without that column
    else if !isAll && (t :: ts).any (fun t => !t.cols.contains stepName) then .error .attr
    else
      match (t :: ts).mapM (tableRows (!isAll)) with
      | .error e => .error e
      | .ok rows =>
        let merged :=
          if isFirst then flattenFirst Row.step rows
          else if isLast then flattenLast Row.step rows
          else flattenAll rows
        match merged with
        | none => .error .index
        | some rs =>
          let cols := unionCols (t :: ts)
          .ok ⟨cols, rs.map (fun r => cols.map (fun c =>
            match r.cells.find? (fun x => x.1 == c) with
            | some x => x.2
            | none => "nan".toList))⟩

/-! ### the log generator (documented layout) -/

/-- one run/minimize block as lines. -/
structure Run where
  /-- the memory-usage line -/
  banner : Str
  /-- blank lines between banner and header -/
  gap : List Str := []
  /-- the line of thermo keywords -/
  header : Str
  /-- the printed thermo lines (blank lines may be interleaved) -/
  body : List Str
  /-- `some (loop, post)`: the run completed: the `Loop time of …` line and everything up to the
      next run (timing breakdown, histograms, echoed commands, warnings);
      `none`: the log stops after `body` (crash) -/
  tail : Option (Str × List Str)

def Run.lines (r : Run) : List Str :=
  [r.banner] ++ r.gap ++ [r.header] ++ r.body ++
    (match r.tail with | none => [] | some (loop, post) => loop :: post)

/-- a whole log: preamble lines then runs. -/
structure Layout where
  head : List Str
  runs : List Run

def Layout.lines (L : Layout) : List Str := L.head ++ L.runs.flatMap Run.lines

/-- the table a run is expected to be read back as. -/
def Run.table (r : Run) : Table := ⟨splitWs r.header, (nonBlank r.body).map splitWs⟩

/-- neither kind of thermo trigger occurs (or the line is blank and never looked at). -/
def Quiet (l : Str) : Prop := isBlank l = true ∨ (hasAny thermoStart l = false ∧ hasAny thermoEnd l = false)

instance (l : Str) : Decidable (Quiet l) := by unfold Quiet; infer_instance

/-- well-formedness of a run; `last` says whether it is the final run of the log. -/
structure Run.WF (r : Run) (last : Bool) : Prop where
  banner_nb : isBlank r.banner = false
  banner_start : hasAny thermoStart r.banner = true
  gap_blank : ∀ l ∈ r.gap, isBlank l = true
  header_nb : isBlank r.header = false
  header_quiet : hasAny thermoStart r.header = false ∧ hasAny thermoEnd r.header = false
  body_quiet : ∀ l ∈ r.body, Quiet l
  body_width : ∀ l ∈ r.body, (splitWs l).length ≤ (splitWs r.header).length
  tail_ok : match r.tail with
    | none => last = true
    | some (loop, post) =>
      isBlank loop = false ∧ hasAny thermoStart loop = false ∧ hasAny thermoEnd loop = true ∧
      ∀ l ∈ post, Quiet l

def runsWF : List Run → Prop
  | [] => True
  | [r] => r.WF true
  | r :: r' :: rs => r.WF false ∧ runsWF (r' :: rs)

structure Layout.WF (L : Layout) : Prop where
  head_quiet : ∀ l ∈ L.head, Quiet l
  runs_ok : runsWF L.runs

/-- the first line handed to `__read_lammps_version`. -/
def firstVersionLine (lines : List Str) : Option Str := (nonBlank lines).find? isVersionLine

/-! #### token-level generator -/

/-- a printed cell: padding (whitespace) then the token. -/
structure Cell where
  pad : Str
  tok : Str

def renderCells (cells : List Cell) (trail : Str) : Str :=
  cells.flatMap (fun c => c.pad ++ c.tok) ++ trail

/-- pads are whitespace, non-empty between tokens; tokens are non-empty and free of whitespace. -/
def cellsOk : Bool → List Cell → Bool
  | _, [] => true
  | first, c :: cs =>
    c.pad.all isWs && (first || !c.pad.isEmpty) && !c.tok.isEmpty && c.tok.all (fun x => !isWs x)
      && cellsOk false cs

inductive Banner
  /-- `Memory usage per processor = <x> Mbytes` -/
  | old (mem : Str)
  /-- `Per MPI rank memory allocation (min/avg/max) = <a> | <b> | <c> Mbytes` -/
  | new (a b c : Str)

def Banner.line : Banner → Str
  | .old m => "Memory usage per processor = ".toList ++ m ++ " Mbytes".toList
  | .new a b c => "Per MPI rank memory allocation (min/avg/max) = ".toList ++ a ++ " | ".toList ++ b
      ++ " | ".toList ++ c ++ " Mbytes".toList

/-- `Loop time of <t> on <p> procs for <s> steps with <a> atoms` -/
def loopLine (t p s a : Str) : Str :=
  "Loop time of ".toList ++ t ++ " on ".toList ++ p ++ " procs for ".toList ++ s
    ++ " steps with ".toList ++ a ++ " atoms".toList

structure RunSpec where
  banner : Banner
  gap : Nat := 0
  header : List Cell
  headerTrail : Str := []
  rows : List (List Cell × Str)
  /-- `some ((t,p,s,a), post)` = completed run; `none` = truncated -/
  tail : Option ((Str × Str × Str × Str) × List Str)

def RunSpec.toRun (r : RunSpec) : Run where
  banner := r.banner.line
  gap := List.replicate r.gap []
  header := renderCells r.header r.headerTrail
  body := r.rows.map (fun x => renderCells x.1 x.2)
  tail := r.tail.map (fun x => (loopLine x.1.1 x.1.2.1 x.1.2.2.1 x.1.2.2.2, x.2))

/-- `LAMMPS (<version>)` then the preamble, then the runs. -/
structure LogSpec where
  version : Str
  head : List Str
  runs : List RunSpec

def versionLineOf (v : Str) : Str := "LAMMPS (".toList ++ v ++ ")".toList

def LogSpec.toLayout (S : LogSpec) : Layout where
  head := versionLineOf S.version :: S.head
  runs := S.runs.map RunSpec.toRun

def renderLog (S : LogSpec) : List Str := S.toLayout.lines

/-- the table of tokens a run spec is expected to be read back as. -/
def RunSpec.table (r : RunSpec) : Table :=
  ⟨r.header.map Cell.tok, r.rows.map (fun x => x.1.map Cell.tok)⟩

/-! ### the `Simulation` object (round 6: `Generated/LogSource.lean` regenerates the setters / `__init__` / `__getitem__`
    from the source and `Proofs/C19_Source.lean` proves them equal to these) -/

/-- a `Simulation` as the object it is: the two tables, and the attribute keys that were set, in the order they were
    set (`keys()`, `__iter__`). -/
structure SimObj where
  thermo : Option Table := none
  perf : Option Perf := none
  keys : List String := []
deriving DecidableEq, Repr

/-- `sim.thermo = value` -/
def SimObj.setThermo (s : SimObj) (v : Table) : SimObj :=
  { s with thermo := some v, keys := if s.keys.contains "thermo" then s.keys else s.keys ++ ["thermo"] }

/-- `sim.performance = value` -/
def SimObj.setPerf (s : SimObj) (v : Perf) : SimObj :=
  { s with perf := some v, keys := if s.keys.contains "performance" then s.keys else s.keys ++ ["performance"] }

/-- `Simulation(thermo=…, performance=…)` -/
def SimObj.init (thermo : Option Table) (perf : Option Perf) : SimObj :=
  let s : SimObj := {}
  let s := match thermo with | some v => s.setThermo v | none => s
  match perf with | some v => s.setPerf v | none => s

/-- `sim[key]`: does it refuse (`KeyError`) -/
def SimObj.getItemRefuses (s : SimObj) (key : String) : Bool := !s.keys.contains key

/-- the object behind a record of the log: `__read_thermo` builds `Simulation(thermo=thermo)`; the timing table, if
    any, is assigned afterwards. -/
def Sim.obj (s : Sim) : SimObj :=
  let o := SimObj.init (some s.thermo) none
  match s.perf with | some p => o.setPerf p | none => o

/-- `list(sim.keys())` of a record of the log -/
def Sim.keys (s : Sim) : List String := s.obj.keys

/-- the object `flatten` returns: `Simulation(thermo=merged_df)` -/
def flattenObj (t : Table) : SimObj := SimObj.init (some t) none

/-! ### the merge loop of `flatten` with the style dispatch inside (as coded: the style is looked at once per merged
    run, so an unsupported style over one record is not refused) -/

section FlattenStyle
variable {α : Type} (step : α → Int)

/-- the `if style == 'first' … elif 'last' … elif 'all' … else raise ValueError` body of the loop -/
def mergeStyle (style : Str) (merged thermo : List α) : Except Err (List α) :=
  if style == "first".toList then .ok (mergeFirst step merged thermo)
  else if style == "last".toList then .ok (mergeLast step merged thermo)
  else if style == "all".toList then .ok (mergeAll merged thermo)
  else .error .value

/-- `for sim in simulations[1:]: merged = …` -/
def mergeLoop (style : Str) (merged : List α) : List (List α) → Except Err (List α)
  | [] => .ok merged
  | t :: ts =>
    match mergeStyle step style merged t with
    | .error e => .error e
    | .ok m => mergeLoop style m ts

/-- `merged_df = simulations[0].thermo` (IndexError on an empty selection), then the loop -/
def flattenStyle (style : Str) : List (List α) → Except Err (List α)
  | [] => .error .index
  | t :: ts => mergeLoop step style t ts
end FlattenStyle

/-! ### call forms: arguments left out take the defaults of the signatures (regenerated from the source) -/

/-- `log.read(x)` / `log.read(x, append)` -/
def readCall (st : LogState) (append : Option Bool) (lines : List Str) : Except Err LogState :=
  readLog st (append.getD Gen.Log.readAppendDefault) lines

/-- `Log()` / `Log(x)`: a new object, read into when something is given -/
def ctorCall (log : Option (List Str)) : Except Err LogState :=
  match log with
  | none => .ok LogState.empty
  | some lines => if Gen.Log.ctorReads then readCall LogState.empty none lines else .ok LogState.empty

/-- `log.flatten()` / `log.flatten(style, firstindex, lastindex)` -/
def flattenCall (st : LogState) (style : Option Str) (a b : Option Int) : Except Err Table :=
  flattenTables (style.getD Gen.Log.flattenStyleDefault.toList) (pySlice (st.sims.map (·.thermo)) a b)

/-! ### the input forms (what `uber_open_rmode` makes of them is an ASSUMPTION: text / bytes / the name of a file -> a
    fresh binary stream over the content; an open binary stream is passed through as it stands; a stream opened in text
    mode is refused with ValueError) -/

/-- how the log is handed over -/
inductive Input
  | text (t : Str)
  | file (content : Str)
  | stream (s : Stream)
  | textStream

/-- `log.read(x, append)` for each input form; the stream (if any) as the call leaves it -/
def readInput (st : LogState) (append : Option Bool) : Input → Except Err (LogState × Option Stream)
  | .text t => (readCall st append (splitLines t)).map (fun st' => (st', none))
  | .file t => (readCall st append (splitLines t)).map (fun st' => (st', none))
  | .stream s => (readLogS st (append.getD Gen.Log.readAppendDefault) s).map (fun r => (r.1, some r.2))
  | .textStream => .error .value

end Atomman.C19
