/-
  C18 — model of `atomman.defect.GammaSurface` (fit window, periodic wrap, edge blending,
  coordinate conversions, data-model record) and of `atomman.defect.SDVPN` (dislocation density,
  the six energy terms, total, the embedding of the optimiser output between the fixed end rows)
  and of `pn_arctan_disregistry` / `pn_arctan_disldensity`.

  CORE LEAN ONLY.  Everything is polymorphic over a scalar type `K` with core classes, so the same
  definitions run at `K := Rat` in `Drivers/C18.lean` and are reasoned about for every linearly
  ordered field in `Proofs/C18.lean`.

  External numerical routines are PARAMETERS: the radial-basis interpolant `f : K → K → K`
  (scipy `Rbf`), `lg` (numpy `log`), `atan` (numpy `arctan`), `pi`, vector norms (`sqrt`), `fl`
  (`floor`, the closed form of the `while … -= 1.0` wrap loops), scipy's minimiser (its output is an
  arbitrary list `res`).

  Source: atomman/defect/GammaSurface.py, SDVPN.py, pn_arctan_disregistry.py, pn_arctan_disldensity.py
-/
import Atomman.Prelude

namespace Atomman.C18
open Atomman

variable {K : Type}

/-! ### small numeric helpers -/

section helpers
variable [Add K] [Sub K] [Mul K] [Div K] [Neg K] [Zero K] [One K] [NatCast K] [IntCast K]
  [LT K] [DecidableLT K] [LE K] [DecidableLE K]

/-- `Σ_{i<n} f i`. -/
def sumTo : Nat → (Nat → K) → K
  | 0, _ => 0
  | n + 1, f => sumTo n f + f n

/-- sum of a list (right fold: `a₀ + (a₁ + … + 0)`). -/
def lsum : List K → K
  | [] => 0
  | a :: l => a + lsum l

def absK (a : K) : K := if a < 0 then -a else a

/-- numpy.isclose defaults: `atol = 1e-8`, `rtol = 1e-5`. -/
def tolA : K := (1 : K) / ((100000000 : Nat) : K)
def tolR : K := (1 : K) / ((100000 : Nat) : K)
/-- `atol = 1e-6` of the `assert np.allclose(a123[..., 2], 0.0, atol=1e-6)` in `pos_to_a12`. -/
def tolPlane : K := (1 : K) / ((1000000 : Nat) : K)

/-- `np.isclose(a, b)`. -/
def isclose (a b : K) : Bool := decide (absK (a - b) ≤ tolA + tolR * absK b)

def minOf : List K → Option K
  | [] => none
  | a :: l => match minOf l with
    | none => some a
    | some m => some (if a < m then a else m)

def maxOf : List K → Option K
  | [] => none
  | a :: l => match maxOf l with
    | none => some a
    | some m => some (if m < a then a else m)

def two : K := ((2 : Nat) : K)
def v3zero : V3 K := ⟨0, 0, 0⟩

/-! numpy array primitives used by the definitions generated from the source (`Generated/PNEnergy.lean`) -/

/-- `(A.T / s).T`: row `i` of an (n, 3) array divided by `s[i]`. -/
def npRowDiv (a : List (V3 K)) (s : List K) : List (V3 K) := List.zipWith (fun (v : V3 K) (t : K) => v.map (· / t)) a s
/-- `np.vstack([a, b, c]).T`: the (n, 3) array with columns `a, b, c`. -/
def npVstack3T : List K → List K → List K → List (V3 K)
  | a :: as, b :: bs, c :: cs => ⟨a, b, c⟩ :: npVstack3T as bs cs
  | _, _, _ => []
/-- elementwise product of two rows. -/
def npMulV (a b : V3 K) : V3 K := ⟨a.x * b.x, a.y * b.y, a.z * b.z⟩
/-- `np.sum` of an (n, 3) array. -/
def npSumV (a : List (V3 K)) : K := lsum (a.map (fun v => v.x + v.y + v.z))
/-- `-τ` of a 3 x 3 array. -/
def negM (m : M3 K) : M3 K := ⟨-m.r0, -m.r1, -m.r2⟩

end helpers

/-! ### GammaSurface.fit: 3x3 tiling and the selection window -/

structure Node (K : Type) where
  a1 : K
  a2 : K
  e : K
deriving Repr, BEq, DecidableEq

section fit
variable [Add K] [Sub K] [Mul K] [Div K] [Neg K] [Zero K] [One K] [NatCast K] [IntCast K]
  [LT K] [DecidableLT K] [LE K] [DecidableLE K]

/-- `shortdata`: rows with `a1` or `a2` close to 1 (the duplicated edge) are ignored. -/
def shortData (D : List (Node K)) : List (Node K) :=
  D.filter (fun n => !(isclose n.a1 1 || isclose n.a2 1))

/-- offsets in the order of the two `np.concatenate` calls of `fit`. -/
def tileOffsets : List (Int × Int) :=
  [(-1, -1), (-1, 0), (-1, 1), (0, -1), (0, 0), (0, 1), (1, -1), (1, 0), (1, 1)]

def shiftNode (o : Int × Int) (n : Node K) : Node K := ⟨n.a1 + ((o.1 : Int) : K), n.a2 + ((o.2 : Int) : K), n.e⟩

/-- the 3x3 supercell of values (the energies are repeated unchanged: `[shortdata.E_gsf] * 9`). -/
def tile (S : List (Node K)) : List (Node K) :=
  tileOffsets.flatMap (fun o => S.map (shiftNode o))

/-- `ua[where(isclose(ua, 0))[0][0] - 1] - 1e-8` on the sorted unique values `ua`: the largest value
    below the smallest value that is close to 0, minus `1e-8`. -/
def lowBound (vals : List K) : Option K :=
  match minOf (vals.filter (fun v => isclose v 0)) with
  | none => none
  | some z0 =>
    match maxOf (vals.filter (fun v => decide (v < z0))) with
    | none => none
    | some p => some (p - tolA)

/-- `ua[where(isclose(ua, 1))[0][-1] + 1] + 1e-8`: the smallest value above the largest value that is
    close to 1, plus `1e-8`. -/
def highBound (vals : List K) : Option K :=
  match maxOf (vals.filter (fun v => isclose v 1)) with
  | none => none
  | some o1 =>
    match minOf (vals.filter (fun v => decide (o1 < v))) with
    | none => none
    | some s => some (s + tolA)

structure Window (K : Type) where
  lo1 : K
  hi1 : K
  lo2 : K
  hi2 : K

def Window.mem (w : Window K) (n : Node K) : Bool :=
  decide (w.lo1 ≤ n.a1) && decide (n.a1 ≤ w.hi1) && decide (w.lo2 ≤ n.a2) && decide (n.a2 ≤ w.hi2)

def window? (T : List (Node K)) : Option (Window K) :=
  let v1 := T.map (·.a1)
  let v2 := T.map (·.a2)
  match lowBound v1, highBound v1, lowBound v2, highBound v2 with
  | some l1, some h1, some l2, some h2 => some ⟨l1, h1, l2, h2⟩
  | _, _, _, _ => none

/-- the nodes handed to `Rbf` / `NearestNDInterpolator` (`a1[ix], a2[ix], E_gsf[ix]`), in order. -/
def fitNodes? (D : List (Node K)) : Option (List (Node K)) :=
  let T := tile (shortData D)
  match window? T with
  | none => none
  | some w => some (T.filter w.mem)

/-- `cushion = (1 - data.a.max()) / 2` (maximum over ALL rows, the duplicated edge included). -/
def cushion? (vals : List K) : Option K :=
  match maxOf vals with
  | none => none
  | some m => some ((1 - m) / two)

end fit

/-! ### GammaSurface.E_gsf / delta: wrap, blend weights, evaluation -/

section eval
variable [Add K] [Sub K] [Mul K] [Div K] [Neg K] [Zero K] [One K] [NatCast K] [IntCast K]
  [LT K] [DecidableLT K] [LE K] [DecidableLE K]

/-- closed form of `while any(a >= 1-c): a -= 1; while any(a < -c): a += 1`: the representative of
    `a` modulo 1 in `[-c, 1-c)`; `fl` is `floor`. -/
def wrap (fl : K → Int) (c a : K) : K := a - ((fl (a + c) : Int) : K)

/-- blend weight: `zone1` below the cushion, 1 above. -/
def wgt (c a : K) : K := if a < c then (a + c) / (two * c) else 1

/-- the blended sum on already wrapped coordinates. -/
def evalE (f : K → K → K) (c1 c2 a1 a2 : K) : K :=
  let x := wgt c1 a1
  let y := wgt c2 a2
  x * y * f a1 a2 + x * (1 - y) * f a1 (a2 + 1) + (1 - x) * y * f (a1 + 1) a2
    + (1 - x) * (1 - y) * f (a1 + 1) (a2 + 1)

/-- `E_gsf(a1=, a2=, smooth=True)` with the interpolant `f` a parameter. -/
def E (fl : K → Int) (f : K → K → K) (c1 c2 a1 a2 : K) : K :=
  evalE f c1 c2 (wrap fl c1 a1) (wrap fl c2 a2)

/-- `E_gsf(a1=, a2=)` asked for MANY points in one call (numpy broadcasting over the query arrays): the list of the
    single-point answers, in the order of the query -- whatever the number of points. -/
def EMany (fl : K → Int) (f : K → K → K) (c1 c2 : K) (qs : List (K × K)) : List K :=
  qs.map (fun q => E fl f c1 c2 q.1 q.2)

/-- wrap of `delta` and of the `smooth=False` branch: `while a > 1: a -= 1; while a < 0: a += 1`
    (`cl` is `ceil`): values in `[0, 1]` stay, others land in `(0, 1]` from above, `[0, 1)` from below. -/
def wrapN (fl cl : K → Int) (a : K) : K :=
  if 1 < a then a - (((cl a - 1 : Int)) : K) else if a < 0 then a - ((fl a : Int) : K) else a

/-- `delta(a1=, a2=, smooth=True)`: no blending. -/
def deltaEval (fl cl : K → Int) (f : K → K → K) (a1 a2 : K) : K := f (wrapN fl cl a1) (wrapN fl cl a2)

end eval

/-! ### coordinate conversions -/

section conv
variable [Add K] [Sub K] [Mul K] [Div K] [Neg K] [Zero K] [One K] [NatCast K] [IntCast K]
  [LT K] [DecidableLT K] [LE K] [DecidableLE K]

/-- `np.dot(a1vect, box.vects)`. -/
def cartOf (v : V3 K) (B : M3 K) : V3 K := M3.vecMul v B

/-- `a12_to_pos`: `outer(a1, A1) + outer(a2, A2)` (`A1`, `A2` Cartesian). -/
def a12ToPos (A1 A2 : V3 K) (a : K × K) : V3 K := V3.smul a.1 A1 + V3.smul a.2 A2

/-- the linear solve of `pos_to_a12`: `[A1 A2 A1×A2]ᵀ-columns · a123 = pos`. -/
def posToA123 (A1 A2 : V3 K) (p : V3 K) : V3 K := M3.vecMul p (M3.inv ⟨A1, A2, V3.cross A1 A2⟩)

def maxK (a b : K) : K := if a < b then b else a

/-- the out-of-plane test of `pos_to_a12`, free of the unit of length.  The code solves in the basis
    `[A1, A2, c / |c|^(1/2)]`, `c = A1 × A2`, and asserts `|a3'| ≤ 1e-6 · max(1, |a1|, |a2|)` per position.  With `a3` the
    coefficient of `c` itself (`posToA123`), `a3' = a3 · |c|^(1/2)`, so the test reads `a3² |c| ≤ tol² M²`; both sides are
    non-negative, hence (squared once more, no roots) `a3⁴ (c·c) ≤ tol⁴ M⁴`. -/
def inPlaneOk (A1 A2 : V3 K) (a : V3 K) : Bool :=
  let c := V3.cross A1 A2
  let M := maxK 1 (maxK (absK a.x) (absK a.y))
  decide (((a.z * a.z) * (a.z * a.z)) * V3.dot c c ≤ ((tolPlane * tolPlane) * (tolPlane * tolPlane)) * ((M * M) * (M * M)))

/-- `pos_to_a12` with its out-of-plane assertion. -/
def posToA12? (A1 A2 : V3 K) (p : V3 K) : Option (K × K) :=
  let a := posToA123 A1 A2 p
  if inPlaneOk A1 A2 a then some (a.x, a.y) else none

def posToA12 (A1 A2 : V3 K) (p : V3 K) : K × K :=
  let a := posToA123 A1 A2 p
  (a.x, a.y)

/-- `planenormal = cross(A1, A2) / norm`; `nn` stands for the norm. -/
def planeNormal (A1 A2 : V3 K) (nn : K) : V3 K := (V3.cross A1 A2).map (· / nn)

/-- rows `xvect, planenormal × xvect, planenormal`, each divided by its norm (`nx ny nz`). -/
def xyTransform (X Nh : V3 K) (nx ny nz : K) : M3 K :=
  ⟨X.map (· / nx), (V3.cross Nh X).map (· / ny), Nh.map (· / nz)⟩

/-- the guard `isclose(dot(xvect, planenormal) / norm(xvect), 0)`: `|X·N̂| ≤ 1e-8 |X|`, written without the root as
    `(X·N̂)² ≤ (1e-8)² (X·X)`; a zero `xvect` (0/0 in the code) is refused. -/
def xvectOk (X Nh : V3 K) : Bool :=
  decide (V3.dot X Nh * V3.dot X Nh ≤ (tolA * tolA) * V3.dot X X) && decide (0 < V3.dot X X)

def posToXY (T : M3 K) (p : V3 K) : K × K := (V3.dot T.r0 p, V3.dot T.r1 p)

def xyToPos (T : M3 K) (q : K × K) : V3 K := M3.mulVec (M3.inv T) ⟨q.1, q.2, 0⟩

/-! API level: the default plotting axis and the `pos=` / `x=, y=` entry points of `E_gsf` / `delta` -/

/-- `xvect=None` → `np.dot(a1vect, box.vects)`, i.e. the Cartesian `A1` (in BOTH directions). -/
def xyDefaultX (A1 : V3 K) (xvect : Option (V3 K)) : V3 K := xvect.getD A1

/-- `pos_to_xy(pos, xvect)`: `none` is the `ValueError` of the in-plane guard. -/
def posToXYApi (A1 A2 : V3 K) (nn nx ny nz : K) (xvect : Option (V3 K)) (p : V3 K) : Option (K × K) :=
  let X := xyDefaultX A1 xvect
  let Nh := planeNormal A1 A2 nn
  if xvectOk X Nh then some (posToXY (xyTransform X Nh nx ny nz) p) else none

/-- `xy_to_pos(x, y, xvect)`. -/
def xyToPosApi (A1 A2 : V3 K) (nn nx ny nz : K) (xvect : Option (V3 K)) (q : K × K) : Option (V3 K) :=
  let X := xyDefaultX A1 xvect
  let Nh := planeNormal A1 A2 nn
  if xvectOk X Nh then some (xyToPos (xyTransform X Nh nx ny nz) q) else none

/-- a query of `E_gsf` / `delta`: fractional (`a1=, a2=`), Cartesian (`pos=`) or plotting (`x=, y=, xvect=`). -/
inductive Query (K : Type) where
  | a12 (a : K × K)
  | pos (p : V3 K)
  | xy (q : K × K) (xvect : Option (V3 K))

/-- the fractional coordinates a query is reduced to (`xy_to_a12`, `pos_to_a12`); `none` = refused. -/
def Query.toA12? (A1 A2 : V3 K) (nn nx ny nz : K) : Query K → Option (K × K)
  | .a12 a => some a
  | .pos p => posToA12? A1 A2 p
  | .xy q xv => (xyToPosApi A1 A2 nn nx ny nz xv q).bind (posToA12? A1 A2)

/-- `E_gsf(**kwargs)` for any of the three kinds of query (`gam` is `E` on fractional coordinates). -/
def EofQuery (gam : K → K → K) (A1 A2 : V3 K) (nn nx ny nz : K) (q : Query K) : Option K :=
  (q.toA12? A1 A2 nn nx ny nz).map (fun a => gam a.1 a.2)

/-- `E_gsf(a1=, a2=, a1vect=, a2vect=)`: fractional coordinates given relative to OTHER shift vectors `B1`, `B2`
    (Cartesian) are converted to a position and back to the surface's own fractional coordinates. -/
def otherBasisToA12? (A1 A2 B1 B2 : V3 K) (a : K × K) : Option (K × K) :=
  posToA12? A1 A2 (a12ToPos B1 B2 a)

/-- queries given TOGETHER WITH the `a1vect=` / `a2vect=` keywords (Cartesian `B1`, `B2`): fractional coordinates are
    relative to `B1, B2`; a Cartesian position is absolute (the keywords do not matter); plotting coordinates take
    `B1` as their default x axis.  All three are reduced with the surface's OWN shift vectors. -/
def Query.toA12Other? (A1 A2 B1 B2 : V3 K) (nn nx ny nz : K) : Query K → Option (K × K)
  | .a12 a => otherBasisToA12? A1 A2 B1 B2 a
  | .pos p => posToA12? A1 A2 p
  | .xy q xv => (xyToPosApi A1 A2 nn nx ny nz (some (xv.getD B1)) q).bind (posToA12? A1 A2)

/-! data-model record: energies are written divided by the unit factor `u` and read back times it -/

structure GsfRecord (K : Type) where
  box : M3 K
  a1vect : V3 K
  a2vect : V3 K
  a1 : List K
  a2 : List K
  e : List K
  delta : Option (List K)

def toModel (ue ul : K) (g : GsfRecord K) : GsfRecord K :=
  { g with e := g.e.map (· / ue), delta := g.delta.map (fun d => d.map (· / ul)) }

def ofModel (ue ul : K) (g : GsfRecord K) : GsfRecord K :=
  { g with e := g.e.map (· * ue), delta := g.delta.map (fun d => d.map (· * ul)) }

/-- `miller.vector4to3` as used by `GammaSurface.set` for 4-index (Miller-Bravais) shift vectors `[u v t w]`:
    refused unless `u + v + t` is (all)close to 0. -/
def vec4to3? (u v t w : K) : Option (V3 K) :=
  if absK (u + v + t) ≤ tolA then some ⟨two * u + v, two * v + u, w⟩ else none

/-! #### the GammaSurface OBJECT: `set()` / `model(model=…)` replace the whole state; every query reads the
    CURRENT state (shift vectors, box, data) — nothing is remembered from earlier data -/

structure GObj (K : Type) where
  r : GsfRecord K

inductive GOp (K : Type) where
  | set (r : GsfRecord K)
  | loadModel (ue ul : K) (m : GsfRecord K)

def GObj.apply (_o : GObj K) : GOp K → GObj K
  | .set r => ⟨r⟩
  | .loadModel ue ul m => ⟨ofModel ue ul m⟩

def GObj.run (o : GObj K) (ops : List (GOp K)) : GObj K := ops.foldl GObj.apply o

/-- Cartesian shift vectors of the CURRENT state: `np.dot(self.a1vect, self.box.vects)`. -/
def GObj.A1 (o : GObj K) : V3 K := cartOf o.r.a1vect o.r.box
def GObj.A2 (o : GObj K) : V3 K := cartOf o.r.a2vect o.r.box

def zipNodes (a1 a2 e : List K) : List (Node K) :=
  (a1.zip (a2.zip e)).map (fun t => ⟨t.1, t.2.1, t.2.2⟩)

def GObj.nodesE (o : GObj K) : List (Node K) := zipNodes o.r.a1 o.r.a2 o.r.e
def GObj.nodesD (o : GObj K) : Option (List (Node K)) := o.r.delta.map (zipNodes o.r.a1 o.r.a2)

/-- nodes of the energy fit / of the plane-separation fit (`none` second level: no delta data). -/
def GObj.fitE? (o : GObj K) : Option (List (Node K)) := fitNodes? o.nodesE
def GObj.fitD? (o : GObj K) : Option (List (Node K)) := o.nodesD.bind fitNodes?
def GObj.cushions? (o : GObj K) : Option (K × K) :=
  match cushion? o.r.a1, cushion? o.r.a2 with
  | some c1, some c2 => some (c1, c2)
  | _, _ => none

def GObj.a12ToPos (o : GObj K) (a : K × K) : V3 K := C18.a12ToPos o.A1 o.A2 a
def GObj.posToA12? (o : GObj K) (p : V3 K) : Option (K × K) := C18.posToA12? o.A1 o.A2 p
def GObj.toA12? (o : GObj K) (nn nx ny nz : K) (q : Query K) : Option (K × K) := q.toA12? o.A1 o.A2 nn nx ny nz
def GObj.posToXY (o : GObj K) (nn nx ny nz : K) (xv : Option (V3 K)) (p : V3 K) : Option (K × K) :=
  posToXYApi o.A1 o.A2 nn nx ny nz xv p
def GObj.xyToPos (o : GObj K) (nn nx ny nz : K) (xv : Option (V3 K)) (q : K × K) : Option (V3 K) :=
  xyToPosApi o.A1 o.A2 nn nx ny nz xv q
/-- `obj.model(length_unit=, energyperarea_unit=)`. -/
def GObj.model (ue ul : K) (o : GObj K) : GsfRecord K := toModel ue ul o.r

end conv

/-! ### SDVPN -/

section sdvpn
variable [Add K] [Sub K] [Mul K] [Div K] [Neg K] [Zero K] [One K] [NatCast K] [IntCast K]
  [LT K] [DecidableLT K] [LE K] [DecidableLE K]

/-- `x[1] - x[0]`. -/
def gridStep (x : List K) : K := x.getD 1 0 - x.getD 0 0

/-- `disldensity`: `(δ[k:] - δ[:-k]) / (x[k:] - x[:-k])`, `k = 2` for central difference else 1. -/
def disldensity (cdiff : Bool) (x : List K) (d : List (V3 K)) : List (V3 K) :=
  let k := if cdiff then 2 else 1
  List.zipWith (fun (dd : V3 K) (dx : K) => dd.map (· / dx))
    (List.zipWith (· - ·) (d.drop k) d) (List.zipWith (· - ·) (x.drop k) x)

/-- `misfit_energy`: `Δx Σ γ(pos)`, `pos = (δx, 0, δz) · transform`; `gam` is the gamma surface. -/
def misfitEnergy (gam : V3 K → K) (T : M3 K) (x : List K) (d : List (V3 K)) : K :=
  gridStep x * lsum (d.map (fun δ => gam (M3.vecMul ⟨δ.x, 0, δ.z⟩ T)))

/-- `ψ(i,j,Δx) = ½ (i-j)² Δx² ln(|i-j| Δx)`, NaN (at `i = j`) replaced by 0; `dd = i - j`. -/
def psi (lg : K → K) (dx : K) (dd : Int) : K :=
  if dd = 0 then 0
  else (1 : K) / two * (((dd : Int) : K) * ((dd : Int) : K)) * (dx * dx) * lg (((dd.natAbs : Nat) : K) * dx)

/-- `χ(i,j,Δx) = 3/2 Δx² + ψ(i-1,j-1) + ψ(i,j) - ψ(i,j-1) - ψ(j,i-1)`. -/
def chi (lg : K → K) (dx : K) (i j : Int) : K :=
  ((3 : Nat) : K) / two * (dx * dx)
    + (psi lg dx ((i - 1) - (j - 1)) + psi lg dx (i - j) - psi lg dx (i - (j - 1)) - psi lg dx (j - (i - 1)))

/-- `np.inner(ρ[i].dot(K), ρ[j])`. -/
def kform (Kt : M3 K) (a b : V3 K) : K := V3.dot (M3.vecMul a Kt) b

/-- bilinear form behind the elastic term on densities given as index functions. -/
def elasticB (lg : K → K) (pi dx : K) (Kt : M3 K) (n : Nat) (ρ σ : Nat → V3 K) : K :=
  sumTo n (fun i =>
    sumTo n (fun j => chi lg dx (i : Int) (j : Int) * kform Kt (ρ i) (σ j)) / (((4 : Nat) : K) * pi))

/-- the elastic term as a function of the density (loop over `i`, vectorised over `j`). -/
def elasticOfDensity (lg : K → K) (pi dx : K) (Kt : M3 K) (ρ : List (V3 K)) : K :=
  elasticB lg pi dx Kt ρ.length (fun i => ρ.getD i v3zero) (fun i => ρ.getD i v3zero)

/-- `elastic_energy`. -/
def elasticEnergy (lg : K → K) (pi : K) (Kt : M3 K) (cdiff : Bool) (x : List K) (d : List (V3 K)) : K :=
  elasticOfDensity lg pi (gridStep x) Kt (disldensity cdiff x d)

/-- `longrange_energy = (b·K·b) ln(L) / (2π)`; `logL` stands for `ln(cutofflongrange)`. -/
def longrangeEnergy (pi logL : K) (Kt : M3 K) (b : V3 K) : K :=
  kform Kt b b * logL / (two * pi)

/-- `stress_energy`; `τ1 = tau[1, :]`. -/
def stressEnergy (full cdiff : Bool) (τ1 : V3 K) (x : List K) (d : List (V3 K)) : K :=
  let mh : K := -((1 : K) / two)
  if full then
    let ρ := disldensity cdiff x d
    let w := List.zipWith (fun (a b : K) => a * a - b * b) (x.drop 1) x
    mh * lsum (List.zipWith (fun (wi : K) (r : V3 K) => wi * V3.dot r τ1) w ρ)
  else
    let dx := gridStep x
    mh * lsum (List.zipWith (fun (a b : V3 K) => V3.dot (-τ1) (V3.smul dx (a + b))) d (d.drop 1))

/-- `stress_energy` from the full 3 x 3 stress array `tau`: the documented `τ_2l` is the SECOND ROW `tau[1, :]`. -/
def stressEnergyT (full cdiff : Bool) (τ : M3 K) (x : List K) (d : List (V3 K)) : K :=
  stressEnergy full cdiff τ.r1 x d

/-- `surface_energy = Σ dot(ρ² Δx, β) / 4 = Σ_j β_lj / 4 Σ_i ρ_l[i]² Δx`: the squared density component `l`
    is contracted with the FIRST index of `β` (row `l`), all columns `j` summed. -/
def surfaceEnergy (cdiff : Bool) (β : M3 K) (x : List K) (d : List (V3 K)) : K :=
  let dx := gridStep x
  lsum ((disldensity cdiff x d).map (fun r =>
    let q : V3 K := ⟨r.x * r.x * dx, r.y * r.y * dx, r.z * r.z * dx⟩
    let w := M3.vecMul q β
    w.x + w.y + w.z)) / ((4 : Nat) : K)

/-- one `α_m` contribution of `nonlocal_energy`: `Σ_i δ[i]·(δ[i] - ½(δ[i+m] + δ[i-m])) Δx`. -/
def nonlocalTerm (dx : K) (m : Nat) (d : List (V3 K)) : K :=
  lsum (List.zipWith (fun (c : V3 K) (pq : V3 K × V3 K) =>
      let dd := c - V3.smul ((1 : K) / two) (pq.1 + pq.2)
      (c.x * dd.x * dx + c.y * dd.y * dx + c.z * dd.z * dx))
    (d.drop m) (List.zip (d.drop (2 * m)) d))

/-- `nonlocal_energy = Σ_m α_m …`, `m = 1, 2, …`. -/
def nonlocalFrom (dx : K) (d : List (V3 K)) : Nat → List K → K
  | _, [] => 0
  | m, α :: αs => α * nonlocalTerm dx m d + nonlocalFrom dx d (m + 1) αs

def nonlocalEnergy (αs : List K) (x : List K) (d : List (V3 K)) : K := nonlocalFrom (gridStep x) d 1 αs

/-! constructor: the Volterra solution expressed in its `[m, n, ξ]` frame (`M` has rows `m, n, ξ`) -/

/-- `mnξ.dot(K_tensor.dot(mnξ.T))`. -/
def frameK (M Kv : M3 K) : M3 K := M3.mul M (M3.mul Kv M.transpose)
/-- `mnξ.dot(burgers)`. -/
def frameB (M : M3 K) (b : V3 K) : V3 K := M3.mulVec M b
/-- `np.matmul(mnξ, transform)`. -/
def frameT (M T : M3 K) : M3 K := M3.mul M T

/-- all settings of an SDVPN object that enter the energy. -/
structure Settings (K : Type) where
  Kt : M3 K
  burgers : V3 K
  T : M3 K
  τ1 : V3 K
  αs : List K
  β : M3 K
  logL : K
  pi : K
  fullstress : Bool
  cdiffelastic : Bool
  cdiffsurface : Bool
  cdiffstress : Bool

/-- `total_energy`, in the order of the source. -/
def totalEnergy (lg : K → K) (gam : V3 K → K) (s : Settings K) (x : List K) (d : List (V3 K)) : K :=
  misfitEnergy gam s.T x d
    + elasticEnergy lg s.pi s.Kt s.cdiffelastic x d
    + longrangeEnergy s.pi s.logL s.Kt s.burgers
    + stressEnergy s.fullstress s.cdiffstress s.τ1 x d
    + nonlocalEnergy s.αs x d
    + surfaceEnergy s.cdiffsurface s.β x d

/-- the six terms, by name, of an object with settings `s` (what `*_energy(x, disregistry)` return). -/
def termsOf (lg : K → K) (gam : V3 K → K) (s : Settings K) (x : List K) (d : List (V3 K)) : List K :=
  [misfitEnergy gam s.T x d, elasticEnergy lg s.pi s.Kt s.cdiffelastic x d,
   longrangeEnergy s.pi s.logL s.Kt s.burgers, stressEnergy s.fullstress s.cdiffstress s.τ1 x d,
   nonlocalEnergy s.αs x d, surfaceEnergy s.cdiffsurface s.β x d]

/-! `solve`: the minimiser works on the interior x and z components only -/

/-- `decompose`: `concatenate([d[1:-1, 0], d[1:-1, 2]])`. -/
def decompose (d : List (V3 K)) : List K :=
  let inner := (d.drop 1).dropLast
  inner.map (·.x) ++ inner.map (·.z)

/-- `recompose`: zero array of `half + 2` rows, first and last rows restored, interior x and z
    columns from the two halves of the vector (interior y stays 0). -/
def recompose (d13 : List K) (first last : V3 K) : List (V3 K) :=
  let half := d13.length / 2
  first :: (List.zipWith (fun (a b : K) => (⟨a, 0, b⟩ : V3 K)) (d13.take half) (d13.drop half)) ++ [last]

/-- the disregistry stored by `solve` for an optimiser result `res` started from `d`. -/
def solveResult (res : List K) (d : List (V3 K)) : List (V3 K) :=
  recompose res (d.headD v3zero) (d.getLastD v3zero)

/-! ### the SDVPN object: state, setters, `solve(**kwargs)`, `load` — the energies read the CURRENT state -/

/-- state of an SDVPN object that the energy methods read. -/
structure Obj (K : Type) where
  s : Settings K
  x : List K
  d : List (V3 K)

/-- keyword arguments of `solve` (`none` = not given = keep the current value); `res` is the optimiser
    output (arbitrary). -/
structure SolveKw (K : Type) where
  x : Option (List K) := none
  d : Option (List (V3 K)) := none
  τ1 : Option (V3 K) := none
  αs : Option (List K) := none
  β : Option (M3 K) := none
  logL : Option K := none
  fullstress : Option Bool := none
  cdiffelastic : Option Bool := none
  cdiffsurface : Option Bool := none
  cdiffstress : Option Bool := none

inductive Op (K : Type) where
  | setTau (τ1 : V3 K)
  | setAlpha (αs : List K)
  | setBeta (β : M3 K)
  | setLogL (l : K)
  | setFull (b : Bool)
  | setCdE (b : Bool)
  | setCdS (b : Bool)
  | setCdT (b : Bool)
  | setX (x : List K)
  | setD (d : List (V3 K))
  | solve (kw : SolveKw K) (res : List K)
  | load (o : Obj K)

/-- defaults of `fullstress, cdiffelastic, cdiffsurface, cdiffstress` of the constructor. -/
def initFlags : Bool × Bool × Bool × Bool := (true, false, true, false)

/-- a fresh object `SDVPN(volterra=, gamma=)` with the flags left at their defaults. -/
def Settings.withInitFlags (s : Settings K) : Settings K :=
  { s with fullstress := initFlags.1, cdiffelastic := initFlags.2.1, cdiffsurface := initFlags.2.2.1, cdiffstress := initFlags.2.2.2 }

/-- python names of the fields of `SolveKw`, in the order of `solve`'s signature (the keywords that enter the energy). -/
def solveKeywords : List String :=
  ["x", "disregistry", "tau", "alpha", "beta", "cutofflongrange", "fullstress", "cdiffelastic", "cdiffsurface", "cdiffstress"]

/-- the "change attribute values if given" block of `solve`. -/
def Obj.applyKw (o : Obj K) (kw : SolveKw K) : Obj K :=
  { s := { o.s with
      τ1 := kw.τ1.getD o.s.τ1, αs := kw.αs.getD o.s.αs, β := kw.β.getD o.s.β, logL := kw.logL.getD o.s.logL,
      fullstress := kw.fullstress.getD o.s.fullstress, cdiffelastic := kw.cdiffelastic.getD o.s.cdiffelastic,
      cdiffsurface := kw.cdiffsurface.getD o.s.cdiffsurface, cdiffstress := kw.cdiffstress.getD o.s.cdiffstress },
    x := kw.x.getD o.x, d := kw.d.getD o.d }

def Obj.apply (o : Obj K) : Op K → Obj K
  | .setTau t => { o with s := { o.s with τ1 := t } }
  | .setAlpha a => { o with s := { o.s with αs := a } }
  | .setBeta b => { o with s := { o.s with β := b } }
  | .setLogL l => { o with s := { o.s with logL := l } }
  | .setFull b => { o with s := { o.s with fullstress := b } }
  | .setCdE b => { o with s := { o.s with cdiffelastic := b } }
  | .setCdS b => { o with s := { o.s with cdiffsurface := b } }
  | .setCdT b => { o with s := { o.s with cdiffstress := b } }
  | .setX x => { o with x := x }
  | .setD d => { o with d := d }
  | .solve kw res => let o' := o.applyKw kw; { o' with d := solveResult res o'.d }
  | .load o' => o'

def Obj.run (o : Obj K) (ops : List (Op K)) : Obj K := ops.foldl Obj.apply o

/-- what the six `*_energy(x, d)` methods and `total_energy(x, d)` of the object return now. -/
def Obj.terms (lg : K → K) (gam : V3 K → K) (o : Obj K) (x : List K) (d : List (V3 K)) : List K :=
  termsOf lg gam o.s x d

def Obj.total (lg : K → K) (gam : V3 K → K) (o : Obj K) (x : List K) (d : List (V3 K)) : K :=
  totalEnergy lg gam o.s x d

/-! ### optional arguments of the energy methods

Every public term method has the signature `(x=None, disregistry=None)` and starts with the block
`if x is None: x = self.x` / `if disregistry is None: disregistry = self.disregistry`: EACH argument falls back to
the stored value ON ITS OWN (a one-sided call `elastic_energy(disregistry=d2)` evaluates `d2` on the stored grid). -/

inductive Term where
  | misfit | elastic | longrange | stress | nonlocal | surface | total
deriving Repr, DecidableEq

/-- the "Default values are class properties" block. -/
def Obj.args (o : Obj K) (xo : Option (List K)) (dO : Option (List (V3 K))) : List K × List (V3 K) :=
  (xo.getD o.x, dO.getD o.d)

/-- one named term for settings `s` on an explicit profile. -/
def termValue (lg : K → K) (gam : V3 K → K) (s : Settings K) (t : Term) (x : List K) (d : List (V3 K)) : K :=
  match t with
  | .misfit => misfitEnergy gam s.T x d
  | .elastic => elasticEnergy lg s.pi s.Kt s.cdiffelastic x d
  | .longrange => longrangeEnergy s.pi s.logL s.Kt s.burgers
  | .stress => stressEnergy s.fullstress s.cdiffstress s.τ1 x d
  | .nonlocal => nonlocalEnergy s.αs x d
  | .surface => surfaceEnergy s.cdiffsurface s.β x d
  | .total => totalEnergy lg gam s x d

/-- `obj.<term>_energy(x=xo, disregistry=dO)` — what the method call returns for ANY subset of the optional arguments. -/
def Obj.call (lg : K → K) (gam : V3 K → K) (o : Obj K) (t : Term) (xo : Option (List K)) (dO : Option (List (V3 K))) : K :=
  termValue lg gam o.s t (o.args xo dO).1 (o.args xo dO).2

/-- the x coordinates returned next to the density: `x[1:]` (neighbour difference) or `x[1:-1]` (central). -/
def densityX (cdiff : Bool) (x : List K) : List K := if cdiff then (x.drop 1).dropLast else x.drop 1

/-- `obj.disldensity(x=xo, disregistry=dO, cdiff=)` → `(newx, ρ)`. -/
def Obj.density (o : Obj K) (xo : Option (List K)) (dO : Option (List (V3 K))) (cdiff : Bool) : List K × List (V3 K) :=
  (densityX cdiff (o.args xo dO).1, disldensity cdiff (o.args xo dO).1 (o.args xo dO).2)

/-! ### refusals of the profile setters and of `solve` (which inputs raise, at which statement, what is stored then) -/

section refusals

/-- what the implementation raises: `AssertionError` of the `x` setter (uneven or not increasing), `IndexError` of `diff[0]`
    (fewer than two points), `AssertionError` of the `disregistry` setter (out-of-plane component), `ValueError` of `.max()` of an
    empty array, `ValueError('x and disregistry are not of the same length')` of `solve`. -/
inductive Refusal where
  | xAssert | xIndex | dAssert | dValue | lengths
deriving Repr, DecidableEq

/-- `diff = value[1:] - value[:-1]`. -/
def xDiffs (x : List K) : List K := List.zipWith (· - ·) (x.drop 1) x

/-- the `x` setter: `assert np.allclose(diff, diff[0], atol=0.0)` (`|diff_i − diff_0| ≤ 1e-5 |diff_0|`), then
    `assert diff[0] > 0`; `none` = accepted. -/
def xSetter? (x : List K) : Option Refusal :=
  match xDiffs x with
  | [] => some .xIndex
  | d0 :: ds =>
    if (d0 :: ds).all (fun t => decide (absK (t - d0) ≤ tolR * absK d0)) && decide (0 < d0) then none else some .xAssert

def maxAbs3 (v : V3 K) : K := maxK (absK v.x) (maxK (absK v.y) (absK v.z))

/-- the `disregistry` setter: `assert np.allclose(value[:,1], 0.0, atol=1e-8 * np.abs(value).max())`. -/
def dSetter? (d : List (V3 K)) : Option Refusal :=
  match maxOf (d.map maxAbs3) with
  | none => some .dValue
  | some m => if d.all (fun v => decide (absK v.y ≤ tolA * m)) then none else some .dAssert

/-- `obj.x = value` / `obj.disregistry = value`: on a refusal nothing is stored. -/
def Obj.setX? (o : Obj K) (x : List K) : Obj K × Option Refusal :=
  match xSetter? x with
  | none => ({ o with x := x }, none)
  | some r => (o, some r)

def Obj.setD? (o : Obj K) (d : List (V3 K)) : Obj K × Option Refusal :=
  match dSetter? d with
  | none => ({ o with d := d }, none)
  | some r => (o, some r)

/-- `solve(**kwargs)` with its refusals, in the order of the source: the `x` keyword goes through its setter first (refused:
    nothing changed), then `disregistry` (refused: the new `x` IS already stored, no other keyword is), then the other keywords,
    then the length check (refused: every keyword is stored), then the minimiser, then the result goes through the `disregistry`
    setter once more (refused: the guess stays). -/
def Obj.solve? (o : Obj K) (kw : SolveKw K) (res : List K) : Obj K × Option Refusal :=
  match kw.x.bind xSetter? with
  | some r => (o, some r)
  | none =>
    let o1 : Obj K := { o with x := kw.x.getD o.x }
    match kw.d.bind dSetter? with
    | some r => (o1, some r)
    | none =>
      let o2 := o.applyKw kw
      if o2.x.length ≠ o2.d.length then (o2, some .lengths)
      else
        match dSetter? (solveResult res o2.d) with
        | some r => (o2, some r)
        | none => ({ o2 with d := solveResult res o2.d }, none)

end refusals

/-! ### analytic arctangent profile -/

/-- `pn_arctan_disregistry`; `normB = |burgers|`, `normLast = |δ[-1] - δ[0]|` of the raw profile. -/
def pnArctanDisregistry (atan : K → K) (pi : K) (x : List K) (b : V3 K) (center hw : K)
    (normalize shift : Bool) (normB normLast : K) : List (V3 K) :=
  let bp : V3 K := b.map (· / pi)
  let bh : V3 K := b.map (· / two)
  let raw := x.map (fun xi => V3.smul (atan ((xi - center) / hw)) bp + bh)
  let r0 := raw.headD v3zero
  let d1 := if normalize then (raw.map (· - r0)).map (fun v => v.map (fun t => t * normB / normLast)) else raw
  if shift then d1 else d1.map (· - bh)

/-- `pn_arctan_disldensity`; `normInt = |δ_raw[-1] - δ_raw[0]|`. -/
def pnArctanDisldensity (pi : K) (x : List K) (b : V3 K) (center hw : K)
    (normalize : Bool) (normB normInt : K) : List (V3 K) :=
  let bp : V3 K := b.map (· / pi)
  let raw := x.map (fun xi => V3.smul (hw / ((xi - center) * (xi - center) + hw * hw)) bp)
  if normalize then raw.map (fun v => v.map (fun t => t * normB / normInt)) else raw

end sdvpn

end Atomman.C18
