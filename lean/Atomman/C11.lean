/-
  C11 — elastic constants.  Hand-written part of the model of `atomman/core/ElasticConstants.py`
  (+ `atomman/tools/axes_check.py`).  Everything that is a literal table, a formula in named constants or an
  `einsum` comes from the *generated* files (`Generated/VoigtTables.lean`, `Generated/CrystalCij.lean`,
  `Generated/IsoPairs.lean`, rewritten from the Python source on every run); this file only says how the
  generated pieces are put together by the class:

  * representations: `M6` (6x6 Voigt), `M9` (9x9), `T4` (3x3x3x3) as total functions on `Fin`;
  * `voigt`/`pairOf`: the reference Voigt map (written independently of the tables in the source);
  * getters `cij9Get`, `cijklGet`, `sijklGet` (index placement by the generated tables, `/2.` slice scalings);
  * setters `setCij` (zeroing of small entries, symmetry assertions), `setCij9`, `setCijkl`, `setSijkl`,
    `setSij` (the 6x6 inverse is a parameter);
  * `axesCheck` (row normalisation with the three norms as parameters, orthogonality and handedness tests);
  * `rot` (= generated `transC (transQ T)`), `cleanT4`, `transform`;
  * `construct` (keyword-set dispatch), `normalizedAs`, `isNormal`, and the Voigt/Reuss/Hill estimates.

  Core Lean only: the same definitions run at `K := Rat` in the driver and are reasoned about for every
  linearly ordered field in `Proofs/C11.lean`.
-/
import Atomman.Prelude
import Atomman.Generated.VoigtTables
import Atomman.Generated.CrystalCij
import Atomman.Generated.AxesCheck
import Atomman.Generated.InitRoute

namespace Atomman.C11
open Atomman.Gen

abbrev M6 (K : Type) := Fin 6 → Fin 6 → K
abbrev M9 (K : Type) := Fin 9 → Fin 9 → K
abbrev M33 (K : Type) := Fin 3 → Fin 3 → K
abbrev T4 (K : Type) := Fin 3 → Fin 3 → Fin 3 → Fin 3 → K

/-! ### reference index maps (hand-written; the source's tables are compared against these) -/

/-- Voigt index of the pair `(i, j)`: 11→0, 22→1, 33→2, 23→3, 13→4, 12→5. -/
def voigt (i j : Fin 3) : Fin 6 :=
  if h : i = j then ⟨i.val, by omega⟩ else ⟨6 - i.val - j.val, by have := Fin.val_ne_of_ne h; omega⟩

/-- the ordered pair `(i, j)`, `i ≤ j`, of a Voigt index. -/
def pairOf (a : Fin 6) : Fin 3 × Fin 3 :=
  if h : a.val < 3 then (⟨a.val, h⟩, ⟨a.val, h⟩)
  else (if a.val = 3 then 1 else 0, if a.val = 5 then 1 else 2)

/-- index pair of the 9x9 representation: 11 22 33 23 13 12 32 31 21. -/
def pair9 (p : Fin 9) : Fin 3 × Fin 3 :=
  if h : p.val < 6 then pairOf ⟨p.val, h⟩
  else let q := pairOf ⟨p.val - 3, by omega⟩; (q.2, q.1)

/-- multiplicity of a Voigt index among the nine pairs (1 normal, 2 shear). -/
def mult (a : Fin 6) : Nat := if a.val < 3 then 1 else 2

def fin3 (n : Nat) : Fin 3 := ⟨n % 3, Nat.mod_lt _ (by decide)⟩
def fin6 (n : Nat) : Fin 6 := ⟨n % 6, Nat.mod_lt _ (by decide)⟩
def fin9 (n : Nat) : Fin 9 := ⟨n % 9, Nat.mod_lt _ (by decide)⟩

abbrev Idx4 := Nat × Nat × Nat × Nat

section generic
variable {K : Type}

/-! ### containers -/

/-- row-major list as a 6x6 matrix (the `np.array([[...]])` literals of the constructors). -/
def m6 [NatCast K] (l : List K) : M6 K := fun a b => l.getD (6 * a.val + b.val) ((0 : Nat) : K)
def m9 [NatCast K] (l : List K) : M9 K := fun a b => l.getD (9 * a.val + b.val) ((0 : Nat) : K)
def m33 [NatCast K] (l : List K) : M33 K := fun a b => l.getD (3 * a.val + b.val) ((0 : Nat) : K)
def t4 [NatCast K] (l : List K) : T4 K :=
  fun i j k l' => l.getD (27 * i.val + 9 * j.val + 3 * k.val + l'.val) ((0 : Nat) : K)

def idx6 : List (Fin 6 × Fin 6) := (List.finRange 6).flatMap fun a => (List.finRange 6).map fun b => (a, b)
def idx9 : List (Fin 9 × Fin 9) := (List.finRange 9).flatMap fun a => (List.finRange 9).map fun b => (a, b)
def idx3 : List (Fin 3 × Fin 3) := (List.finRange 3).flatMap fun a => (List.finRange 3).map fun b => (a, b)
def idx4 : List (Fin 3 × Fin 3 × Fin 3 × Fin 3) :=
  idx3.flatMap fun p => idx3.map fun q => (p.1, p.2, q.1, q.2)

def M6.toList (v : M6 K) : List K := idx6.map fun p => v p.1 p.2
def M9.toList (v : M9 K) : List K := idx9.map fun p => v p.1 p.2
def T4.toList (C : T4 K) : List K := idx4.map fun p => C p.1 p.2.1 p.2.2.1 p.2.2.2

/-- evaluate-once tables: `let t := Tab.of6 v` is evaluated strictly where it is bound and `t.get6` is a
    closure over the finished array (extensionally `(Tab.of6 v).get6 = v`: `tab6_eq`, `tab4_eq`). -/
structure Tab (K : Type) where
  arr : Array K

def Tab.of6 (v : M6 K) : Tab K :=
  ⟨Array.ofFn (n := 36) fun p => v (fin6 (p.val / 6)) (fin6 (p.val % 6))⟩
def Tab.get6 [NatCast K] (t : Tab K) : M6 K := fun a b => t.arr.getD (6 * a.val + b.val) ((0 : Nat) : K)
def Tab.of4 (C : T4 K) : Tab K :=
  ⟨Array.ofFn (n := 81) fun p =>
    C (fin3 (p.val / 27)) (fin3 (p.val / 9 % 3)) (fin3 (p.val / 3 % 3)) (fin3 (p.val % 3))⟩
def Tab.get4 [NatCast K] (t : Tab K) : T4 K :=
  fun i j k l => t.arr.getD (27 * i.val + 9 * j.val + 3 * k.val + l.val) ((0 : Nat) : K)

/-! ### comparisons of numpy -/

def absK [LT K] [DecidableLT K] [Neg K] [NatCast K] (x : K) : K := if x < ((0 : Nat) : K) then -x else x

/-- `np.isclose(a, b, rtol, atol)`: `|a - b| <= atol + rtol * |b|`. -/
def isclose [LT K] [DecidableLT K] [LE K] [DecidableLE K] [Neg K] [NatCast K] [Add K] [Sub K] [Mul K]
    (rtol atol a b : K) : Bool :=
  decide (absK (a - b) ≤ atol + rtol * absK b)

def maxK [LT K] [DecidableLT K] (a b : K) : K := if a < b then b else a

/-- `value.max()` of a non-empty list. -/
def maxList [LT K] [DecidableLT K] [NatCast K] : List K → K
  | [] => ((0 : Nat) : K)
  | x :: xs => xs.foldl maxK x

end generic

section model
variable {K : Type} [Add K] [Sub K] [Mul K] [Div K] [Neg K] [NatCast K]

/-! ### getters -/

/-- `Cij9` getter on the stored 6x6. -/
def cij9Get (c : M6 K) : M9 K := fun p q =>
  let e := cij9GetTab.getD (9 * p.val + q.val) (0, 0)
  c (fin6 e.1) (fin6 e.2)

/-- `Cijkl` getter on the stored 6x6. -/
def cijklGet (c : M6 K) : T4 K := fun i j k l =>
  let e := cijklGetTab.getD (27 * i.val + 9 * j.val + 3 * k.val + l.val) (0, 0)
  c (fin6 e.1) (fin6 e.2)

/-- combined factor `num/den` that the in-place slice scalings of the `Sijkl` getter apply to `s[a,b]`. -/
def scaleWeight (a b : Nat) : Nat × Nat :=
  sijklGetScale.foldl (fun w r =>
    if r.1 ≤ a ∧ a < r.2.1 ∧ r.2.2.1 ≤ b ∧ b < r.2.2.2.1 then (w.1 * r.2.2.2.2.1, w.2 * r.2.2.2.2.2) else w) (1, 1)

def sijScaled (s : M6 K) : M6 K := fun a b =>
  let w := scaleWeight a.val b.val
  s a b * ((w.1 : Nat) : K) / ((w.2 : Nat) : K)

/-- `Sijkl` getter; `s` is `Sij` (the inverse of the stored 6x6: parameter). -/
def sijklGet (s : M6 K) : T4 K := fun i j k l =>
  let e := sijklGetTab.getD (27 * i.val + 9 * j.val + 3 * k.val + l.val) (0, 0)
  sijScaled s (fin6 e.1) (fin6 e.2)

/-! ### setters -/

def at4 (C : T4 K) (q : Idx4) : K := C (fin3 q.1) (fin3 q.2.1) (fin3 q.2.2.1) (fin3 q.2.2.2)

/-- the weighted 6x6 literal at the end of the `Cijkl` / `Sijkl` setters. -/
def set4Raw (tab : List ((Nat × Nat) × Idx4)) (C : T4 K) : M6 K := fun a b =>
  let e := tab.getD (6 * a.val + b.val) ((1, 1), (0, 0, 0, 0))
  ((e.1.1 : Nat) : K) / ((e.1.2 : Nat) : K) * at4 C e.2

def cijklSetRaw (C : T4 K) : M6 K := set4Raw cijklSetTab C
def sijklSetRaw (S : T4 K) : M6 K := set4Raw sijklSetTab S

variable [LT K] [DecidableLT K] [LE K] [DecidableLE K]

def max6 (v : M6 K) : K := maxList (M6.toList v)
def max4 (C : T4 K) : K := maxList (T4.toList C)

/-- `Cij` setter: `assert value.max() > 0`; entries with `isclose(value/max, 0, atol)` zeroed; symmetry
    assertions on the result. -/
def zeroSmall (mx : K) (v : M6 K) : M6 K :=
  fun a b => if absK (v a b / mx) ≤ cijSetZeroAtol then ((0 : Nat) : K) else v a b

def setCij (v : M6 K) : Except String (M6 K) :=
  let tv := Tab.of6 v
  let v := tv.get6
  let mx := max6 v
  if ¬ (((0 : Nat) : K) < mx) then .error "assert" else
  let tz := Tab.of6 (zeroSmall mx v)
  let z : M6 K := tz.get6
  if cijSetChecks.all (fun pq =>
      isclose npRtol cijSetSymAtol (z (fin6 pq.1.1) (fin6 pq.1.2)) (z (fin6 pq.2.1) (fin6 pq.2.2)))
  then .ok z else .error "assert"

/-- `Cij9` setter: exact-equality assertions, then `self.Cij = value[:6, :6]`. -/
def setCij9 (v : M9 K) [DecidableEq K] : Except String (M6 K) :=
  if ¬ cij9SetChecks.all (fun pq => v (fin9 pq.1.1) (fin9 pq.1.2) = v (fin9 pq.2.1) (fin9 pq.2.2))
  then .error "assert"
  else if cij9SetSlice ≠ (6, 6) then .error "assert"
  else setCij fun a b => v ⟨a.val, by omega⟩ ⟨b.val, by omega⟩

/-- `np.abs(x).max()` of a 3x3x3x3 array. -/
def absMax4 (C : T4 K) : K := maxList ((T4.toList C).map absK)

/-- the `atol` of the symmetry assertions of a 4-index setter: a literal, or (`rel`) the literal times
    `max(1.0, np.abs(x).max())`. -/
def checkAtol (rel : Bool) (a : K) (C : T4 K) : K :=
  if rel then a * maxK ((1 : Nat) : K) (absMax4 C) else a

def checks4 (atol : K) (C : T4 K) (l : List (Idx4 × Idx4)) : Bool :=
  l.all fun pq => isclose npRtol atol (at4 C pq.1) (at4 C pq.2)

/-- `Cijkl` setter. -/
def setCijkl (C : T4 K) : Except String (M6 K) :=
  if cijklSetMaxAssert && !decide (((0 : Nat) : K) < max4 C) then .error "assert"
  else if !checks4 (checkAtol cijklSetAtolRel cijklSetAtol C) C cijklSetChecks then .error "assert"
  else setCij (cijklSetRaw C)

/-- `Sij` setter: `self.Cij = np.linalg.inv(value)`; `inv` is the parameter (`none` = singular). -/
def setSij (inv : M6 K → Option (M6 K)) (s : M6 K) : Except String (M6 K) :=
  match inv s with
  | none => .error "value"
  | some c => setCij c

/-- `Sijkl` setter. -/
def setSijkl (inv : M6 K → Option (M6 K)) (S : T4 K) : Except String (M6 K) :=
  if sijklSetMaxAssert && !decide (((0 : Nat) : K) < max4 S) then .error "assert"
  else if !checks4 (checkAtol sijklSetAtolRel sijklSetAtol S) S sijklSetChecks then .error "assert"
  else setSij inv (sijklSetRaw S)

/-! ### axes_check and transform -/

/-- reference reading of `axes_check(axes, tol)` (hand-written; the generated tests are proved equal to it:
    `gen_axesCheck_eq_model`): rows divided by their lengths (`norms i` stands for `np.linalg.norm(axes[i])`:
    parameter), Gram matrix against the identity, cross product of the first two unit rows against the third, both
    with `allclose` semantics at `atol = tol`. -/
def axesCheckRef (tol : K) (axes : M33 K) (norms : Fin 3 → K) : Except String (M33 K) :=
  let u : M33 K := fun i j => axes i j / norms i
  let one : M33 K := fun i j => if i = j then ((1 : Nat) : K) else ((0 : Nat) : K)
  if ¬ idx3.all (fun p => isclose npRtol tol (sum3 fun k => u p.1 k * u p.2 k) (one p.1 p.2))
  then .error "value" else
  let cr : Fin 3 → K := fun j =>
    if j.val = 0 then u 0 1 * u 1 2 - u 0 2 * u 1 1
    else if j.val = 1 then u 0 2 * u 1 0 - u 0 0 * u 1 2
    else u 0 0 * u 1 1 - u 0 1 * u 1 0
  if ¬ (List.finRange 3).all (fun j => isclose npRtol tol (cr j) (u 2 j))
  then .error "value" else .ok u

/-- exception class of the source -> error class on the wire. -/
def errClass (e : String) : String :=
  if e = "ValueError" then "value" else if e = "AssertionError" then "assert" else if e = "TypeError" then "type"
  else "other"

/-- `axes_check(axes, tol)` as the source says it now: the GENERATED tests (`axesCheckTests`: entry pairs, exception
    class, whether `atol` is the `tol` argument) tried in program order, then the GENERATED entries of the result. -/
def axesCheckT (tol : K) (axes : M33 K) (norms : Fin 3 → K) : Except String (M33 K) :=
  match (axesCheckTests axes norms).find? (fun t =>
      !(t.2.2.all fun ab => isclose npRtol (if t.2.1 then tol else npAtol) ab.1 ab.2)) with
  | some t => .error (errClass t.1)
  | none => .ok (m33 (axesCheckU axes norms))

/-- `axes_check(axes)` at its default `tol` (what `transform` calls). -/
def axesCheck (axes : M33 K) (norms : Fin 3 → K) : Except String (M33 K) := axesCheckT axesCheckTol axes norms

/-- the two `einsum`s of `transform` (generated): `C'_ijkl = Σ Q_ghij C_ghmn Q_mnkl`, `Q = T⊗T`. -/
def rot (T : M33 K) (C : T4 K) : T4 K := transC (transQ T) C

/-- `C[abs(C / C.max()) < tol] = 0.0` (`mx` = `C.max()`). -/
def cleanT4 (tol mx : K) (C : T4 K) : T4 K :=
  fun i j k l => if absK (C i j k l / mx) < tol then ((0 : Nat) : K) else C i j k l

/-- `ElasticConstants.transform(axes, tol)` on the stored 6x6 `c`. -/
def transform (tol : K) (axes : M33 K) (norms : Fin 3 → K) (c : M6 K) : Except String (M6 K) :=
  match axesCheck axes norms with
  | .error e => .error e
  | .ok T =>
    let t1 := Tab.of4 (rot T (cijklGet c))
    let C := t1.get4
    let t2 := Tab.of4 (cleanT4 tol (max4 C) C)
    setCijkl t2.get4

/-! ### constructors from named constants, normalisation, estimates -/

/-- `ElasticConstants(**{keys: vals})` for a keyword set of named constants (`roots`: values of the square
    roots met on the way).  `none`: keyword set not covered by the generated dispatch. -/
def construct (keys : String) (vals roots : List K) : Option (Except String (M6 K)) :=
  let r := match isoDispatch keys vals roots with
    | some r => some r
    | none => crystalDispatch keys vals roots
  match r with
  | none => none
  | some (.error e) => some (.error (if e = "TypeError" then "type" else "other"))
  | some (.ok (lit, asserts)) =>
    -- the `np.isclose` assertions sit inside `try: ... except: raise TypeError`
    if ¬ asserts.all (fun ab => isclose npRtol npAtol ab.1 ab.2) then some (.error "type")
    else some (setCij (m6 lit))

/-- `normalized_as(crystal_system)`; `s` = `Sij` (used by 'isotropic' only). -/
def normalizedAs (sys : String) (c s : M6 K) : Except String (M6 K) :=
  if sys = "triclinic" then setCij (m6 (normalized_triclinic c))
  else if sys = "isotropic" then setCij (m6 (normalized_isotropic c s))
  else if sys = "cubic" then setCij (m6 (normalized_cubic c))
  else if sys = "hexagonal" then setCij (m6 (normalized_hexagonal c))
  else if sys = "tetragonal" then setCij (m6 (normalized_tetragonal c))
  else if sys = "rhombohedral" then setCij (m6 (normalized_rhombohedral c))
  else if sys = "orthorhombic" then setCij (m6 (normalized_orthorhombic c))
  else if sys = "monoclinic" then setCij (m6 (normalized_monoclinic c))
  else .error "value"

/-- `np.allclose(self.Cij, normalized.Cij, atol, rtol)`. -/
def isNormal (rtol atol : K) (sys : String) (c s : M6 K) : Except String Bool :=
  match normalizedAs sys c s with
  | .error e => .error e
  | .ok n => .ok (idx6.all fun p => isclose rtol atol (c p.1 p.2) (n p.1 p.2))

/-- `bulk(style)` / `shear(style)`; the inverse is needed for 'Reuss' and 'Hill' only (`none`: singular -> `LinAlgError`). -/
def estimate (inv : M6 K → Option (M6 K)) (which style : String) (c : M6 K) : Except String K :=
  if which ≠ "bulk" ∧ which ≠ "shear" then .error "op"
  else if style = "Voigt" then .ok (if which = "bulk" then bulkVoigt c else shearVoigt c)
  else if style = "Reuss" ∨ style = "Hill" then
    match inv c with
    | none => .error "value"
    | some s0 =>
      let ts := Tab.of6 s0
      let s := ts.get6
      if style = "Reuss" then .ok (if which = "bulk" then bulkReuss s else shearReuss s)
      else .ok (if which = "bulk" then bulkHill c s else shearHill c s)
  else .error "value"

/-! ### the object: ONE stored 6x6

An `ElasticConstants` object holds one matrix (`__c_ij`).  Every setter / constructor method either overwrites it
with a value that depends on its argument only, or raises and leaves it alone; everything else is a function of the
stored matrix and changes nothing.  `run` executes a sequence of operations on one object (this is what the driver's
`seq` request does and what the harness compares with the real class, read by read). -/

inductive Op (K : Type) where
  | putCij (v : M6 K) | putCij9 (v : M9 K) | putCijkl (C : T4 K) | putSij (s : M6 K) | putSijkl (S : T4 K)
  | putNamed (keys : String) (vals roots : List K)
  | getCij | getCij9 | getCijkl | getSij | getSijkl
  | est (which style : String) | norm (sys : String) | isn (sys : String) (rt at' : K)
  | tr (tol : Option K) (axes : M33 K) (norms : Fin 3 → K)

variable [DecidableEq K]

/-- what a setter would store (`none`: the operation is a read). Independent of the current state. -/
def Op.store? (inv : M6 K → Option (M6 K)) : Op K → Option (Except String (M6 K))
  | .putCij v => some (setCij v)
  | .putCij9 v => some (setCij9 v)
  | .putCijkl C => some (setCijkl C)
  | .putSij s => some (setSij inv s)
  | .putSijkl S => some (setSijkl inv S)
  | .putNamed keys vals roots => some (match construct keys vals roots with
      | none => .error "op"
      | some r => r)
  | _ => none

/-- the value a read returns on the stored matrix `c`. -/
def Op.read (inv : M6 K → Option (M6 K)) (c : M6 K) : Op K → Except String (List K)
  | .getCij => .ok (M6.toList c)
  | .getCij9 => .ok (M9.toList (cij9Get c))
  | .getCijkl => .ok (T4.toList (cijklGet c))
  | .getSij => match inv c with
    | none => .error "value"
    | some s => .ok (M6.toList s)
  | .getSijkl => match inv c with
    | none => .error "value"
    | some s => let ts := Tab.of6 s; .ok (T4.toList (sijklGet ts.get6))
  | .est which style => match estimate inv which style c with
    | .ok x => .ok [x]
    | .error e => .error e
  | .norm sys =>
    if sys = "isotropic" then
      match inv c with
      | none => .error "value"
      | some s => let ts := Tab.of6 s; (normalizedAs sys c ts.get6).map M6.toList
    else (normalizedAs sys c c).map M6.toList
  | .isn sys rt at' =>
    let s? := if sys = "isotropic" then inv c else some c
    match s? with
    | none => .error "value"
    | some s => let ts := Tab.of6 s; match isNormal rt at' sys c ts.get6 with
      | .ok b => .ok [if b then ((1 : Nat) : K) else ((0 : Nat) : K)]
      | .error e => .error e
  | .tr tol axes norms => (transform (tol.getD transformTol) axes norms c).map M6.toList
  | _ => .ok []

/-- one operation on the object holding `st`: new stored matrix and what the caller observes. -/
def step (inv : M6 K → Option (M6 K)) (st : M6 K) (op : Op K) : M6 K × Except String (List K) :=
  match op.store? inv with
  | some (.ok z) => (z, .ok [])
  | some (.error e) => (st, .error e)
  | none => (st, op.read inv st)

/-- the observations of a sequence of operations on one object that initially holds `st`. -/
def run (inv : M6 K → Option (M6 K)) : M6 K → List (Op K) → List (Except String (List K))
  | _, [] => []
  | st, op :: rest => let r := step inv st op; r.2 :: run inv r.1 rest

/-- the stored matrix after a sequence of operations. -/
def finalState (inv : M6 K → Option (M6 K)) : M6 K → List (Op K) → M6 K
  | st, [] => st
  | st, op :: rest => finalState inv (step inv st op).1 rest

end model
/-! ### `ElasticConstants.__init__`: which branch a keyword set takes (GENERATED chain, program order) -/

def testHolds (keys : List String) : InitTest → Bool
  | .lenIn ns => ns.contains keys.length
  | .has k => keys.contains k

/-- outcome of `__init__`'s routing: zero matrix / the setter of a matrix keyword / the `assert len(kwargs) == 1`
    of a matrix keyword fails / a crystal-system (or `isotropic`, `model`) method is entered / the final `else`. -/
inductive Route where
  | zeros
  | set (k : String)
  | assertFail
  | call (m : String)
  | raise (e : String)
  deriving DecidableEq, Repr

def actRun (keys : List String) : InitAct → Route
  | .zeros => .zeros
  | .setter k n => if keys.length = n then .set k else .assertFail
  | .call m => .call m
  | .callIf k a b => if keys.contains k then .call a else .call b

/-- `ElasticConstants(**{k: …})` for the keyword SET `keys` (distinct names): the first branch of the chain whose test
    holds decides; no branch: the final `raise`. -/
def initRoute (keys : List String) : Route :=
  match initChain.find? (fun b => testHolds keys b.1) with
  | some b => actRun keys b.2
  | none => .raise initElse

def Route.show : Route → String
  | .zeros => "zeros"
  | .set k => "set " ++ k
  | .assertFail => "assert"
  | .call m => "call " ++ m
  | .raise e => "raise " ++ e

end Atomman.C11
