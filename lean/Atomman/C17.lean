/-
  C17 — model of the deformation-analysis tools (core Lean only, no Mathlib).

  Sources (atomman):
    core/displacement.py                 `displacement`            atom-wise `dvect`
    defect/slip_vector.pyx               `slip_vector_c`           `slip[i] -= d_1[n] - d_0[n]` over nlist[i]
    defect/DifferentialDisplacement.py   `solve`                   `ddvectors = dvectors1 - dvectors0`
    defect/differential_displacement.py  same formula (then rotated by the plot axes)
    defect/disregistry.py                `disregistry`             planes adjoining the slip plane, means, np.interp
    defect/Strain.pyx                    `build_p_vectors`, `match_pq`, `solve_G`, `strain_c`, `rotation_c`,
                                         `invariant1_c..3_c`, `dG_c`, `solve_nye`, `nye_c`
    defect/nye_tensor.py                 the older pure-python version of the same pipeline

  External numerical routines are parameters:
    * `mag : V3 K → K`      (`sqrt` of the squared length in `match_pq`)
    * `numpy.linalg.lstsq`  is modelled by the solution of the normal equations
                            `(QᵀQ) G = QᵀP` (`solveNormal`, meaningful when `det (QᵀQ) ≠ 0`)
    * `numpy.isclose`       is `|a - b| ≤ atol + rtol * |b|` with `atol`, `rtol` parameters
    * `numpy.unique`        is sort + removal of equal neighbours; `numpy.interp` is `interp` below.
-/
import Atomman.Prelude
import Atomman.Dvect

namespace Atomman.C17

/-- box vectors and periodicity flags: everything `dvect` needs of a system. -/
structure Cell (K : Type) where
  vects : M3 K
  px : Bool
  py : Bool
  pz : Bool

section
variable {K : Type} [Add K] [Sub K] [Mul K] [Div K] [Neg K] [Zero K] [IntCast K] [NatCast K]
  [LT K] [DecidableLT K] [LE K] [DecidableLE K] [DecidableEq K]

/-- `System.dvect` / `dvect(pos_0, pos_1, box, pbc)` for one pair of points. -/
@[inline] def Cell.dv (c : Cell K) (a b : V3 K) : V3 K := dvect c.vects c.px c.py c.pz a b

def zero3 : V3 K := ⟨0, 0, 0⟩

/-- entry `(j, k)` of a matrix / the matrix with given entries (index form used by the source tie). -/
@[inline] def ent (m : M3 K) (j k : Nat) : K := (m.row j).get k
@[inline] def matOf (f : Nat → Nat → K) : M3 K :=
  ⟨⟨f 0 0, f 0 1, f 0 2⟩, ⟨f 1 0, f 1 1, f 1 2⟩, ⟨f 2 0, f 2 1, f 2 2⟩⟩

/-- the starting value of `r1` in `match_pq` (`cdef double r1 = 1e16`). -/
def bigR1 : K := ((10000000000000000 : Nat) : K)

/-! ### displacement, slip vector, differential displacement -/

/-- `displacement(system_0, system_1, box_reference)`: the caller passes the cell selected by
    `box_reference` (`'final'`: system_1's, `'initial'`: system_0's). -/
def displacement (c : Cell K) (pos0 pos1 : Nat → V3 K) (i : Nat) : V3 K := c.dv (pos0 i) (pos1 i)

/-- the `box_reference` argument of `displacement`: `'final'`, `'initial'`, `None`, anything else. -/
inductive BoxRef where
  | final | initial | none | other
deriving DecidableEq, Repr

/-- `neighbors`-block / argument refusals shared by the entry points. -/
inductive NbrErr where
  | assert | value
deriving DecidableEq, Repr

/-- `displacement(system_0, system_1, box_reference)` as a whole (`n0`, `n1`: the atom counts): different counts and
    an unknown `box_reference` are `ValueError`s (in this order), `'final'` takes system_1's box and pbc, `'initial'`
    system_0's, `None` the plain difference. -/
def displacementCall (n0 n1 : Nat) (c0 c1 : Cell K) (ref : BoxRef) (pos0 pos1 : Nat → V3 K) :
    Except NbrErr (Nat → V3 K) :=
  if n0 ≠ n1 then .error .value else
  match ref with
  | .final => .ok (displacement c1 pos0 pos1)
  | .initial => .ok (displacement c0 pos0 pos1)
  | .none => .ok (fun i => pos1 i - pos0 i)
  | .other => .error .value

/-- one pass of the accumulation `slipv[i] -= d_1[n] - d_0[n]`. -/
@[inline] def slipStep (c : Cell K) (pos0 pos1 : Nat → V3 K) (i : Nat) (acc : V3 K) (j : Nat) : V3 K :=
  acc - (c.dv (pos1 i) (pos1 j) - c.dv (pos0 i) (pos0 j))

/-- `slip_vector_c` for atom `i` with neighbour list `nbrs = nlist[i, 1:coord+1]`; **both** separations use
    `system_0`'s box and pbc (`bvects = system_0.box.vects`). -/
def slipVector (c : Cell K) (pos0 pos1 : Nat → V3 K) (nbrs : List Nat) (i : Nat) : V3 K :=
  nbrs.foldl (slipStep c pos0 pos1 i) zero3

/-- `DifferentialDisplacement.solve`: `system1.dvect(i, j) - system0.dvect(i, j)`, each system with its own box. -/
def ddvector (c0 c1 : Cell K) (pos0 pos1 : Nat → V3 K) (i j : Nat) : V3 K :=
  c1.dv (pos1 i) (pos1 j) - c0.dv (pos0 i) (pos0 j)

/-- all dd vectors in the order they are concatenated: atoms ascending, neighbours in list order. -/
def ddvectors (c0 c1 : Cell K) (pos0 pos1 : Nat → V3 K) (nlist : List (List Nat)) : List (V3 K) :=
  (nlist.zipIdx).flatMap fun (nbrs, i) => nbrs.map fun j => ddvector c0 c1 pos0 pos1 i j

/-! ### disregistry -/

@[inline] def absK (x : K) : K := if x < 0 then -x else x

/-- `numpy.isclose(a, b)` with explicit tolerances. -/
@[inline] def isclose (atol rtol a b : K) : Bool := decide (absK (a - b) ≤ atol + rtol * absK b)

/-- remove equal neighbours of a sorted list. -/
def dedupSorted : List K → List K
  | [] => []
  | [a] => [a]
  | a :: b :: rest => if a = b then dedupSorted (b :: rest) else a :: dedupSorted (b :: rest)

/-- insertion into an ascending list (before the first element that is not smaller). -/
def insertSorted (a : K) : List K → List K
  | [] => [a]
  | b :: l => if a ≤ b then a :: b :: l else b :: insertSorted a l

/-- ascending sort (insertion sort: structural recursion, so that closed instances evaluate in the kernel). -/
def sortK (l : List K) : List K := l.foldr insertSorted []

/-- `numpy.unique`: sort, then drop equal neighbours. -/
def unique (l : List K) : List K := dedupSorted (sortK l)

def sumV (l : List (V3 K)) : V3 K := l.foldl (· + ·) zero3

/-- `arr.mean(axis=0)` of a list of 3-vectors. -/
def meanV (l : List (V3 K)) : V3 K :=
  let s := sumV l
  let n : K := (l.length : K)
  ⟨s.x / n, s.y / n, s.z / n⟩

/-- `numpy.interp(x, xp, fp)` with `pts = zip xp fp`, `xp` increasing; clamps outside the range. -/
def interp : List (K × K) → K → K
  | [], _ => 0
  | [(_, f0)], _ => f0
  | (x0, f0) :: (x1, f1) :: rest, x =>
    if x < x1 then
      (if x ≤ x0 then f0 else f0 + (x - x0) * ((f1 - f0) / (x1 - x0)))
    else interp ((x1, f1) :: rest) x

def interpV (xs : List K) (fs : List (V3 K)) (x : K) : V3 K :=
  ⟨interp (xs.zip (fs.map (·.x))) x, interp (xs.zip (fs.map (·.y))) x, interp (xs.zip (fs.map (·.z))) x⟩

def minL : List K → Option K
  | [] => none
  | a :: l => some (l.foldl (fun m x => if x < m then x else m) a)

def maxL : List K → Option K
  | [] => none
  | a :: l => some (l.foldl (fun m x => if m < x then x else m) a)

/-- per-coordinate means of the displacements of one plane: for each unique in-plane coordinate `ix`,
    the mean over the plane's atoms whose coordinate `isclose` to `ix`. -/
def planeMeans (atol rtol : K) (plane : List (K × V3 K)) (ux : List K) : List (V3 K) :=
  ux.map fun ix => meanV ((plane.filter fun a => isclose atol rtol a.1 ix).map (·.2))

/-- the atoms `(x-coordinate, displacement)` whose plane coordinate `isclose` to `y`. -/
def planeAtoms (atol rtol : K) (atoms : List (K × K × V3 K)) (y : K) : List (K × V3 K) :=
  (atoms.filter fun a => isclose atol rtol a.2.1 y).map fun a => (a.1, a.2.2)

/-- `disregistry` once the two adjoining plane coordinates are known. -/
def disregistryAt (atol rtol : K) (atoms : List (K × K × V3 K)) (abovey belowy : K) : List (K × V3 K) :=
  let above := planeAtoms atol rtol atoms abovey
  let below := planeAtoms atol rtol atoms belowy
  let uax := unique (above.map (·.1))
  let ubx := unique (below.map (·.1))
  let coord := unique (uax ++ ubx)
  let am := planeMeans atol rtol above uax
  let bm := planeMeans atol rtol below ubx
  coord.map fun x => (x, interpV uax am x - interpV ubx bm x)

/-- `disregistry(basesystem, dislsystem, m, n, planepos)`: `atoms` lists for every atom
    `(basepos·m, basepos·n, displacement)`; `midy = planepos·n`.  `none` = the `ValueError`s
    (no plane on one side: `min`/`max` of an empty array; adjoining planes `isclose`). -/
def disregistry (atol rtol : K) (atoms : List (K × K × V3 K)) (midy : K) : Option (List (K × V3 K)) :=
  let uy := unique (atoms.map (·.2.1))
  match minL (uy.filter fun y => midy < y), maxL (uy.filter fun y => y < midy) with
  | some abovey, some belowy =>
    if isclose atol rtol abovey belowy then none else some (disregistryAt atol rtol atoms abovey belowy)
  | _, _ => none

/-! ### Strain.pyx: p/q vectors, pairing, G, strain measures, Nye tensor -/

/-- `system.dvect(i, neighbors[i])`: neighbour vectors of atom `i`. -/
def nbrVectors (c : Cell K) (pos : Nat → V3 K) (nbrs : List Nat) (i : Nat) : List (V3 K) :=
  nbrs.map fun j => c.dv (pos i) (pos j)

/-- `cos_theta = (q·p) / (qmag * pmag)`; `mag` is the `sqrt` routine. -/
@[inline] def cosTheta (mag : V3 K → K) (q p : V3 K) : K := V3.dot q p / (mag q * mag p)

/-- inner loop of `match_pq` over all `p` for one `q`: state `(cos_theta_min, qp_pairs[j], k)`. -/
def bestStep (mag : V3 K → K) (q : V3 K) (st : K × Option Nat × Nat) (p : V3 K) : K × Option Nat × Nat :=
  let c := cosTheta mag q p
  if st.1 < c then (c, some st.2.2, st.2.2 + 1) else (st.1, st.2.1, st.2.2 + 1)

def bestP (mag : V3 K → K) (cosMax : K) (q : V3 K) (ps : List (V3 K)) : Option Nat :=
  (ps.foldl (bestStep mag q) (cosMax, none, 0)).2.1

/-- the `for k in range(j)` conflict loop: `prev` holds `(q_k, qp_pairs[k])` for `k < j`; `cur = qp_pairs[j]`.
    (The C code also "matches" `-1 == -1` once `cur` was reset; both branches are then no-ops.) -/
def dedupeStep (mag : V3 K → K) (r1 : K) (qj : V3 K)
    (st : List (V3 K × Option Nat) × Option Nat) (e : V3 K × Option Nat) : List (V3 K × Option Nat) × Option Nat :=
  match st.2, e.2 with
  | some a, some b =>
    if a = b then
      (if absK (r1 - mag qj) < absK (r1 - mag e.1) then (st.1 ++ [(e.1, none)], st.2)
       else (st.1 ++ [e], none))
    else (st.1 ++ [e], st.2)
  | _, _ => (st.1 ++ [e], st.2)

def pairStep (mag : V3 K → K) (cosMax r1 : K) (ps : List (V3 K))
    (prev : List (V3 K × Option Nat)) (qj : V3 K) : List (V3 K × Option Nat) :=
  let cur := bestP mag cosMax qj ps
  let r := prev.foldl (dedupeStep mag r1 qj) ([], cur)
  r.1 ++ [(qj, r.2)]

/-- `r1`: the shortest `pmag`, starting from `1e16` (`big`). -/
def shortest (mag : V3 K → K) (big : K) (ps : List (V3 K)) : K :=
  ps.foldl (fun r p => if mag p < r then mag p else r) big

/-- `qp_pairs` after the double loop. -/
def qpPairs (mag : V3 K → K) (cosMax big : K) (ps qs : List (V3 K)) : List (V3 K × Option Nat) :=
  qs.foldl (pairStep mag cosMax (shortest mag big ps) ps) []

/-- `match_pq`: the matched `(P[n], Q[n])` rows in the order of `q`. -/
def matchPQ (mag : V3 K → K) (cosMax big : K) (ps qs : List (V3 K)) : List (V3 K × V3 K) :=
  (qpPairs mag cosMax big ps qs).filterMap fun e =>
    match e.2 with
    | some k => (ps[k]?).map fun p => (p, e.1)
    | none => none

def outer (a b : V3 K) : M3 K := ⟨V3.smul a.x b, V3.smul a.y b, V3.smul a.z b⟩
def addM (a b : M3 K) : M3 K := ⟨a.r0 + b.r0, a.r1 + b.r1, a.r2 + b.r2⟩
def subM (a b : M3 K) : M3 K := ⟨a.r0 - b.r0, a.r1 - b.r1, a.r2 - b.r2⟩
def zeroM : M3 K := ⟨zero3, zero3, zero3⟩

/-- `QᵀQ` for the list of matched `(p, q)` rows. -/
def qtq (pairs : List (V3 K × V3 K)) : M3 K := pairs.foldl (fun m e => addM m (outer e.2 e.2)) zeroM
/-- `QᵀP`. -/
def qtp (pairs : List (V3 K × V3 K)) : M3 K := pairs.foldl (fun m e => addM m (outer e.2 e.1)) zeroM

/-- the least-squares solution of `Q G = P` through the normal equations (full column rank). -/
def solveNormal (pairs : List (V3 K × V3 K)) : M3 K := M3.mul (M3.inv (qtq pairs)) (qtp pairs)

variable [One K]

/-- `solve_G` for one atom: identity when nothing matched (the code warns), else `lstsq(Q[:n], P[:n])`. -/
def solveG (mag : V3 K → K) (cosMax big : K) (ps qs : List (V3 K)) : M3 K :=
  let m := matchPQ mag cosMax big ps qs
  if m.isEmpty then M3.one else solveNormal m

@[inline] def half (x : K) : K := x / ((2 : Nat) : K)

/-- `strain_c`: `ε_jk = ((I_jk - G_jk) + (I_kj - G_kj)) / 2`. -/
def strain (G : M3 K) : M3 K :=
  let I : M3 K := M3.one
  let e := fun (j k : Nat) => half (((I.row j).get k - (G.row j).get k) + ((I.row k).get j - (G.row k).get j))
  ⟨⟨e 0 0, e 0 1, e 0 2⟩, ⟨e 1 0, e 1 1, e 1 2⟩, ⟨e 2 0, e 2 1, e 2 2⟩⟩

/-- `rotation_c`: `rot_jk = ((I_jk - G_jk) - (I_kj - G_kj)) / 2`. -/
def rotation (G : M3 K) : M3 K :=
  let I : M3 K := M3.one
  let e := fun (j k : Nat) => half (((I.row j).get k - (G.row j).get k) - ((I.row k).get j - (G.row k).get j))
  ⟨⟨e 0 0, e 0 1, e 0 2⟩, ⟨e 1 0, e 1 1, e 1 2⟩, ⟨e 2 0, e 2 1, e 2 2⟩⟩

/-- `invariant1_c`. -/
def invariant1 (s : M3 K) : K := s.r0.x + s.r1.y + s.r2.z
/-- `invariant2_c`. -/
def invariant2 (s : M3 K) : K :=
  s.r0.x * s.r1.y + s.r0.x * s.r2.z + s.r1.y * s.r2.z - s.r0.y * s.r1.x - s.r0.z * s.r2.x - s.r1.z * s.r2.y
/-- `invariant3_c`. -/
def invariant3 (s : M3 K) : K :=
  s.r0.x * (s.r1.y * s.r2.z - s.r1.z * s.r2.y) - s.r0.y * (s.r1.x * s.r2.z - s.r1.z * s.r2.x)
    + s.r0.z * (s.r1.x * s.r2.y - s.r1.y * s.r2.x)
/-- the argument of the `sqrt` in `angularvelocity_c`. -/
def angularVelocitySq (r : M3 K) : K := r.r0.y * r.r0.y + r.r0.z * r.r0.z + r.r1.z * r.r1.z

/-- `gG = lstsq(Q[:c], dG[:c, x, :])` for `x = 0,1,2`: `dGs` are the matrices `G[nbr] - G[i]`. -/
def gradG (qs : List (V3 K)) (dGs : List (M3 K)) : M3 K × M3 K × M3 K :=
  (solveNormal ((dGs.map (·.r0)).zip qs), solveNormal ((dGs.map (·.r1)).zip qs),
   solveNormal ((dGs.map (·.r2)).zip qs))

/-- `nye_c`; `gradG[x,y,z] = gG_x[z,y]`. -/
def nyeOf (g : M3 K × M3 K × M3 K) : M3 K :=
  let gg := fun (x y z : Nat) =>
    let m := if x = 0 then g.1 else if x = 1 then g.2.1 else g.2.2
    (m.row z).get y
  ⟨⟨gg 1 0 2 - gg 2 0 1, gg 1 1 2 - gg 2 1 1, gg 1 2 2 - gg 2 2 1⟩,
   ⟨gg 2 0 0 - gg 0 0 2, gg 2 1 0 - gg 0 1 2, gg 2 2 0 - gg 0 2 2⟩,
   ⟨gg 0 0 1 - gg 1 0 0, gg 0 1 1 - gg 1 1 0, gg 0 2 1 - gg 1 2 0⟩⟩

/-- `solve_nye` for atom `i`: `G : Nat → M3 K` is the per-atom tensor field. -/
def nye (c : Cell K) (pos : Nat → V3 K) (G : Nat → M3 K) (nbrs : List Nat) (i : Nat) : M3 K :=
  nyeOf (gradG (nbrVectors c pos nbrs i) (nbrs.map fun j => subM (G j) (G i)))

/-- the whole `Strain(system, neighbors, basesystem, baseneighbors).G[i]`. -/
def strainG (mag : V3 K → K) (cosMax big : K) (c0 c1 : Cell K) (pos0 pos1 : Nat → V3 K)
    (nbrs0 nbrs1 : List Nat) (i : Nat) : M3 K :=
  solveG mag cosMax big (nbrVectors c0 pos0 nbrs0 i) (nbrVectors c1 pos1 nbrs1 i)


/-! ### p vectors given directly: `Strain.set_p_vectors(p_vectors, axes)` / `nye_tensor(system, p_vectors, axes=)` -/

/-- `np.inner(p_vectors, axes_check(axes))`: every p vector `p` becomes `T p` (`T` = the unit axes as rows),
    for a shared set and for per-atom sets alike. -/
def transformP (T : M3 K) (ps : List (V3 K)) : List (V3 K) := ps.map (M3.mulVec T)

/-- what the caller hands over: one array of 3-vectors, or a sequence of such arrays. -/
inductive PArg (K : Type) where
  | flat (ps : List (V3 K))
  | nested (pss : List (List (V3 K)))

/-- the broadcasting rule of `set_p_vectors` (`len == 1`: the single entry for all atoms; `len != natoms`: the
    whole array for all atoms; otherwise entry `i` for atom `i`, a bare 3-vector becoming a one-vector set).
    `none` = numpy cannot broadcast (`ValueError`). -/
def dispatchP (n : Nat) : PArg K → Option (Nat → List (V3 K))
  | .flat ps =>
    if ps.length = 1 then some (fun _ => ps ++ ps ++ ps)
    else if ps.length ≠ n then some (fun _ => ps)
    else some (fun i => match ps[i]? with | some v => [v] | none => [])
  | .nested pss =>
    if pss.length = 1 then some (fun _ => pss.headD [])
    else if pss.length ≠ n then none
    else some (fun i => pss.getD i [])

/-- which broadcasting `set_p_vectors` / `nye_tensor` perform for a given `len(p_vectors)`: the single entry for every
    atom, the whole array for every atom, or entry `i` for atom `i` (the test chain of the source, in its order). -/
inductive PKind where
  | single | whole | each
deriving DecidableEq, Repr

def dispatchKind (len natoms : Nat) : PKind :=
  if len = 1 then .single else if len ≠ natoms then .whole else .each

/-- `dispatchP` read off the kind: a nested sequence cannot be broadcast as a whole (numpy refuses). -/
def dispatchByKind (n : Nat) : PArg K → Option (Nat → List (V3 K))
  | .flat ps => match dispatchKind ps.length n with
    | .single => some (fun _ => ps ++ ps ++ ps)
    | .whole => some (fun _ => ps)
    | .each => some (fun i => match ps[i]? with | some v => [v] | none => [])
  | .nested pss => match dispatchKind pss.length n with
    | .single => some (fun _ => pss.headD [])
    | .whole => none
    | .each => some (fun i => pss.getD i [])

/-- `set_p_vectors`: broadcasting, then the optional `axes` transformation. -/
def givenP (n : Nat) (arg : PArg K) (axes : Option (M3 K)) : Option (Nat → List (V3 K)) :=
  match dispatchP n arg, axes with
  | none, _ => none
  | some pv, none => some pv
  | some pv, some T => some (fun i => transformP T (pv i))

/-! ### the `Strain` object: inputs, cached derived quantities, operations -/

/-- everything `solve_G` / `solve_nye` read: the system (held by reference: in-place edits of the positions are
    seen), its neighbour list, the p vectors (`None` until set), `theta_max` and its cosine (`cos` is external:
    the pair is supplied together). -/
structure SIn (K : Type) where
  cell : Cell K
  n : Nat
  pos : Nat → V3 K
  nlist : Nat → List Nat
  pvec : Option (Nat → List (V3 K))
  theta : K
  cosT : K

/-- the cached per-atom quantities of a `Strain` object. -/
inductive SProp where
  | G | strain | inv1 | inv2 | inv3 | rotation | angvel2 | nye
deriving DecidableEq, Repr

inductive Payload (K : Type) where
  | mats (l : List (M3 K))
  | nums (l : List K)
deriving DecidableEq

structure SObj (K : Type) where
  inp : SIn K
  cache : SProp → Option (Payload K)

def setCache (c : SProp → Option (Payload K)) (p : SProp) (v : Payload K) : SProp → Option (Payload K) :=
  fun q => if q = p then some v else c q

/-- `strain_c`, `rotation_c`, `invariant1_c..3_c`, `angularvelocity_c` (its square) applied to a whole array. -/
def fStrain : Payload K → Payload K
  | .mats g => .mats (g.map strain)
  | .nums _ => .nums []
def fRotation : Payload K → Payload K
  | .mats g => .mats (g.map rotation)
  | .nums _ => .nums []
def fInv1 : Payload K → Payload K
  | .mats s => .nums (s.map invariant1)
  | .nums _ => .nums []
def fInv2 : Payload K → Payload K
  | .mats s => .nums (s.map invariant2)
  | .nums _ => .nums []
def fInv3 : Payload K → Payload K
  | .mats s => .nums (s.map invariant3)
  | .nums _ => .nums []
def fAngvel2 : Payload K → Payload K
  | .mats r => .nums (r.map angularVelocitySq)
  | .nums _ => .nums []

section sobj
variable (mag : V3 K → K) (big : K)

/-- the loop of `solve_G` over all atoms. -/
def SIn.computeG (a : SIn K) (pv : Nat → List (V3 K)) : List (M3 K) :=
  (List.range a.n).map fun i => solveG mag a.cosT big (pv i) (nbrVectors a.cell a.pos (a.nlist i) i)

/-- the loop of `solve_nye` over all atoms, from a given `G` array. -/
def SIn.computeNye (a : SIn K) (G : List (M3 K)) : List (M3 K) :=
  (List.range a.n).map fun i => nye a.cell a.pos (fun j => G.getD j zeroM) (a.nlist i) i

def SIn.fNye (a : SIn K) : Payload K → Payload K
  | .mats g => .mats (a.computeNye g)
  | .nums _ => .nums []

/-- `Strain(...)` right after construction / `clear_properties()`: nothing cached. -/
def SObj.fresh (a : SIn K) : SObj K := ⟨a, fun _ => none⟩
def SObj.clear (o : SObj K) : SObj K := ⟨o.inp, fun _ => none⟩

/-- the `theta_max` setter: values outside `(0, 180]` are ignored; nothing is cleared. -/
def SObj.setTheta (o : SObj K) (v c : K) : SObj K :=
  if v ≤ ((180 : Nat) : K) ∧ 0 < v then { o with inp := { o.inp with theta := v, cosT := c } } else o

/-- `set_p_vectors` / `build_p_vectors`: the reference is replaced; nothing is cleared. -/
def SObj.setP (o : SObj K) (pv : Nat → List (V3 K)) : SObj K := { o with inp := { o.inp with pvec := some pv } }

/-- an in-place edit of the positions of the system the object refers to. -/
def SObj.setPos (o : SObj K) (pos : Nat → V3 K) : SObj K := { o with inp := { o.inp with pos := pos } }

/-- an in-place change of box and positions of the system the object refers to (`box_set`, `atoms.pos[:] = …`). -/
def SObj.setSys (o : SObj K) (cell : Cell K) (pos : Nat → V3 K) : SObj K :=
  { o with inp := { o.inp with cell := cell, pos := pos } }

/-- `solve_G(theta_max=th)`: refuses without p vectors (before anything changes); otherwise sets `theta_max`
    when given, clears **all** cached quantities and stores the new `G`. -/
def SObj.solve (o : SObj K) (th : Option (K × K)) : SObj K × Bool :=
  match o.inp.pvec with
  | none => (o, false)
  | some pv =>
    let o1 := match th with
      | some vc => o.setTheta vc.1 vc.2
      | none => o
    (⟨o1.inp, setCache (fun _ => none) .G (.mats (o1.inp.computeG mag big pv))⟩, true)

/-- a property computed from the value of another one and then cached. -/
def derived (f : Payload K → Payload K) (p : SProp) (parent : SObj K × Option (Payload K)) :
    SObj K × Option (Payload K) :=
  match parent.2 with
  | some v => let w := f v; (⟨parent.1.inp, setCache parent.1.cache p w⟩, some w)
  | none => (parent.1, none)

/-- the `G` property: cached value, else `solve_G()`. -/
def SObj.getG (o : SObj K) : SObj K × Option (Payload K) :=
  match o.cache .G with
  | some v => (o, some v)
  | none => let r := o.solve mag big none; (r.1, r.1.cache .G)

def SObj.getStrain (o : SObj K) : SObj K × Option (Payload K) :=
  match o.cache .strain with
  | some v => (o, some v)
  | none => derived fStrain .strain (o.getG mag big)

def SObj.getRotation (o : SObj K) : SObj K × Option (Payload K) :=
  match o.cache .rotation with
  | some v => (o, some v)
  | none => derived fRotation .rotation (o.getG mag big)

/-- reading a property (`None` in the second component = the `ValueError` of `solve_G` without p vectors). -/
def SObj.read (o : SObj K) : SProp → SObj K × Option (Payload K)
  | .G => o.getG mag big
  | .strain => o.getStrain mag big
  | .rotation => o.getRotation mag big
  | .inv1 => match o.cache .inv1 with
    | some v => (o, some v)
    | none => derived fInv1 .inv1 (o.getStrain mag big)
  | .inv2 => match o.cache .inv2 with
    | some v => (o, some v)
    | none => derived fInv2 .inv2 (o.getStrain mag big)
  | .inv3 => match o.cache .inv3 with
    | some v => (o, some v)
    | none => derived fInv3 .inv3 (o.getStrain mag big)
  | .angvel2 => match o.cache .angvel2 with
    | some v => (o, some v)
    | none => derived fAngvel2 .angvel2 (o.getRotation mag big)
  | .nye => match o.cache .nye with
    | some v => (o, some v)
    | none => derived o.inp.fNye .nye (o.getG mag big)

/-- a sequence of reads on one object: final object and the replies in order. -/
def SObj.reads (o : SObj K) : List SProp → SObj K × List (Option (Payload K))
  | [] => (o, [])
  | p :: ps =>
    let r := o.read mag big p
    let rest := SObj.reads r.1 ps
    (rest.1, r.2 :: rest.2)

/-- what a property is *as a function of the current inputs alone*. -/
def SIn.valG (a : SIn K) : Option (Payload K) := a.pvec.map fun pv => .mats (a.computeG mag big pv)
def SIn.valStrain (a : SIn K) : Option (Payload K) := (a.valG mag big).map fStrain
def SIn.valRotation (a : SIn K) : Option (Payload K) := (a.valG mag big).map fRotation
def SIn.val (a : SIn K) : SProp → Option (Payload K)
  | .G => a.valG mag big
  | .strain => a.valStrain mag big
  | .rotation => a.valRotation mag big
  | .inv1 => (a.valStrain mag big).map fInv1
  | .inv2 => (a.valStrain mag big).map fInv2
  | .inv3 => (a.valStrain mag big).map fInv3
  | .angvel2 => (a.valRotation mag big).map fAngvel2
  | .nye => (a.valG mag big).map a.fNye

end sobj

/-! ### where the neighbour list comes from

  `slip_vector`, `Strain.__init__`, `Strain.build_p_vectors`, `nye_tensor` and `differential_displacement` share
  one block: an explicit `neighbors` list (together with `cutoff`: `AssertionError`), else the list built for the
  given `cutoff`, else the `neighbors` attribute of the system, else `ValueError`. -/

/-- `cutoff` carries the list the builder returns for the given cutoff (building it is property C03);
    `attr` the `neighbors` attribute of the system when it has one. -/
def pickNeighbors {L : Type} (neighbors cutoff attr : Option L) : Except NbrErr L :=
  match neighbors, cutoff, attr with
  | some _, some _, _ => .error .assert
  | some nl, none, _ => .ok nl
  | none, some l, _ => .ok l
  | none, none, some l => .ok l
  | none, none, none => .error .value

/-- `Strain(system, neighbors, cutoff, basesystem, baseneighbors)`: the list of the analysed system first, then —
    with a `basesystem` — the list its p vectors are built from (`build_p_vectors(basesystem, baseneighbors, cutoff)`:
    the SAME `cutoff` argument, the list built for the base system).  `base = none`: no `basesystem`. -/
def strainSources {L : Type} (neighbors cutSys attr : Option L) (base : Option (Option L × Option L × Option L)) :
    Except NbrErr (L × Option L) :=
  match pickNeighbors neighbors cutSys attr with
  | .error e => .error e
  | .ok nl =>
    match base with
    | none => .ok (nl, none)
    | some b =>
      match pickNeighbors b.1 b.2.1 b.2.2 with
      | .error e => .error e
      | .ok pl => .ok (nl, some pl)

/-- `slip_vector(system_0, system_1, neighbors, cutoff)` as a whole. -/
def slipVectorCall (c : Cell K) (pos0 pos1 : Nat → V3 K) (neighbors cutoff attr : Option (Nat → List Nat)) (i : Nat) :
    Except NbrErr (V3 K) :=
  match pickNeighbors neighbors cutoff attr with
  | .error e => .error e
  | .ok nl => .ok (slipVector c pos0 pos1 (nl i) i)

/-- `slip_vector(system_0, system_1, neighbors, cutoff)` including the atom-count check (`n0`, `n1`), which comes BEFORE
    the neighbour block: two systems of different size are a `ValueError` whatever else is wrong with the call. -/
def slipVectorEntry (n0 n1 : Nat) (c : Cell K) (pos0 pos1 : Nat → V3 K) (neighbors cutoff attr : Option (Nat → List Nat))
    (i : Nat) : Except NbrErr (V3 K) :=
  if n0 ≠ n1 then .error .value else slipVectorCall c pos0 pos1 neighbors cutoff attr i

/-- the refusals of `slip_vector` alone (which source, or which exception). -/
def slipVectorRefusals {L : Type} (n0 n1 : Nat) (neighbors cutoff attr : Option L) : Except NbrErr L :=
  if n0 ≠ n1 then .error .value else pickNeighbors neighbors cutoff attr

/-! ### `Strain.asdict(properties)` / `save_to_system(properties)`: which keys are read -/

/-- the property names the two methods accept, and the ones they take when `properties` is `None`. -/
def allKeyNames : List String := ["G", "rotation", "strain", "invariant1", "invariant2", "invariant3", "angularvelocity", "nye"]
def defaultKeyNames : List String := ["strain", "invariant1", "invariant2", "invariant3", "angularvelocity", "nye"]

def keyOf (k : String) : Option SProp :=
  if k = "G" then some .G else if k = "rotation" then some .rotation else if k = "strain" then some .strain
  else if k = "invariant1" then some .inv1 else if k = "invariant2" then some .inv2 else if k = "invariant3" then some .inv3
  else if k = "angularvelocity" then some .angvel2 else if k = "nye" then some .nye else none

/-- the loop `for p in properties: assert p in allkeys; results[p] = getattr(self, p)`: the properties read, in order,
    up to the first unknown name; `true` = an unknown name stops the call there (`AssertionError`; what was read before
    it stays cached). -/
def planKeys : List String → List SProp × Bool
  | [] => ([], false)
  | k :: ks =>
    match keyOf k with
    | none => ([], true)
    | some p => let r := planKeys ks; (p :: r.1, r.2)

def asdictPlan (props : Option (List String)) : List SProp × Bool := planKeys (props.getD defaultKeyNames)

/-- the reads of `asdict`: they stop at the first read that fails (`ValueError` of `solve_G` without p vectors). -/
def SObj.readsUntil (mag : V3 K → K) (big : K) (o : SObj K) : List SProp → SObj K × Option (List (Payload K))
  | [] => (o, some [])
  | p :: ps =>
    let r := o.read mag big p
    match r.2 with
    | none => (r.1, none)
    | some v =>
      let rest := SObj.readsUntil mag big r.1 ps
      (rest.1, rest.2.map (v :: ·))

/-- `asdict(properties)`: object afterwards and the values in key order, `ValueError` of a failing read, or the
    `AssertionError` of an unknown key (raised after the reads before it). -/
def SObj.asdict (mag : V3 K → K) (big : K) (o : SObj K) (props : Option (List String)) :
    SObj K × Except NbrErr (List (Payload K)) :=
  let plan := asdictPlan props
  let r := o.readsUntil mag big plan.1
  match r.2 with
  | none => (r.1, .error .value)
  | some vs => (r.1, if plan.2 then .error .assert else .ok vs)

/-! ### `disregistry(basesystem, dislsystem, m, n, planepos)` from the two systems -/

/-- what the body of `disregistry` computes its profile from: `displacement(basesystem, dislsystem)` (default
    `box_reference='final'`: the atom-count `ValueError` comes from there), the coordinates `pos·m`, `pos·n` of the BASE
    system's atoms and the plane position `planepos·n`. -/
def disregistryInputs (n0 n1 : Nat) (c0 c1 : Cell K) (pos0 pos1 : Nat → V3 K) (m n planepos : V3 K) :
    Except NbrErr (List (K × K × V3 K) × K) :=
  match displacementCall n0 n1 c0 c1 .final pos0 pos1 with
  | .error e => .error e
  | .ok disp => .ok ((List.range n0).map (fun i => (V3.dot (pos0 i) m, V3.dot (pos0 i) n, disp i)), V3.dot planepos n)

/-- the whole call: `.error` = the refusal of `displacement`, `.ok none` = the two `ValueError`s of the plane selection. -/
def disregistryCall (atol rtol : K) (n0 n1 : Nat) (c0 c1 : Cell K) (pos0 pos1 : Nat → V3 K) (m n planepos : V3 K) :
    Except NbrErr (Option (List (K × V3 K))) :=
  match disregistryInputs n0 n1 c0 c1 pos0 pos1 m n planepos with
  | .error e => .error e
  | .ok inp => .ok (disregistry atol rtol inp.1 inp.2)

/-! ### the `DifferentialDisplacement` object -/

structure Sys (K : Type) where
  cell : Cell K
  n : Nat
  pos : Nat → V3 K

structure DObj (K : Type) where
  sys0 : Sys K
  sys1 : Sys K
  reference : Nat
  nlist : Option (List (List Nat))
  dd : Option (List (V3 K))

/-- the optional arguments of `solve`; `cutoff` carries the two lists `system0` resp. `system1` would get from
    `neighborlist(cutoff=)` (building them is property C03), the model picks by `reference`. -/
structure DArgs (K : Type) where
  sys0 : Option (Sys K)
  sys1 : Option (Sys K)
  neighbors : Option (List (List Nat))
  cutoff : Option (List (List Nat) × List (List Nat))
  reference : Option Nat

inductive DErr where
  | assert | value
deriving DecidableEq, Repr

/-- `DifferentialDisplacement.solve(system0, system1, neighbors, cutoff, reference)`: every argument left out is
    taken from the object; given ones are stored (systems first, then `reference`, then the list) even when a later
    step refuses. -/
def DObj.solve (o : DObj K) (a : DArgs K) : DObj K × Option DErr :=
  let s0 := a.sys0.getD o.sys0
  let s1 := a.sys1.getD o.sys1
  let o1 : DObj K := { o with sys0 := s0, sys1 := s1 }
  if s0.n ≠ s1.n then (o1, some .assert) else
  let ref? : Option Nat := match a.reference with
    | none => some o.reference
    | some r => if r = 0 ∨ r = 1 then some r else none
  match ref? with
  | none => (o1, some .assert)
  | some r =>
    let o2 : DObj K := { o1 with reference := r }
    let nl? : Option (List (List Nat)) := match a.neighbors with
      | some nl => some nl
      | none => match a.cutoff with
        | some ll => some (if r = 0 then ll.1 else ll.2)
        | none => o.nlist
    match nl? with
    | none => (o2, some .value)
    | some nl =>
      let o3 : DObj K := { o2 with nlist := some nl }
      if nl.all (·.isEmpty) then (o3, some .value)
      else ({ o3 with dd := some (ddvectors s0.cell s1.cell s0.pos s1.pos nl) }, none)

/-- the constructor: with `neighbors` or `cutoff` it is `solve` (an exception leaves no object), otherwise only
    the systems and `reference` are stored. -/
def DObj.init (s0 s1 : Sys K) (neighbors : Option (List (List Nat)))
    (cutoff : Option (List (List Nat) × List (List Nat))) (reference : Nat) : Option (DObj K) :=
  if neighbors.isSome || cutoff.isSome then
    let r := DObj.solve ⟨s0, s1, reference, none, none⟩ ⟨some s0, some s1, neighbors, cutoff, some reference⟩
    match r.2 with
    | none => some r.1
    | some _ => none
  else if s0.n ≠ s1.n then none
  else if reference = 0 ∨ reference = 1 then some ⟨s0, s1, reference, none, none⟩ else none

end
end Atomman.C17
