/-
  C20 — hand-written part of the model: rational vectors for executing the generated
  integrators (`Atomman/Generated/Integrators.lean`) in the driver.
-/
import Atomman.Prelude
import Atomman.Generated.Integrators

namespace Atomman.C20

/-- rational n-vector (dimension = list length). -/
structure Vec where
  d : List Rat
deriving Repr, BEq

instance : Add Vec := ⟨fun a b => ⟨List.zipWith (· + ·) a.d b.d⟩⟩
instance : Sub Vec := ⟨fun a b => ⟨List.zipWith (· - ·) a.d b.d⟩⟩
instance : Neg Vec := ⟨fun a => ⟨a.d.map (- ·)⟩⟩
instance : SMul Rat Vec := ⟨fun c a => ⟨a.d.map (c * ·)⟩⟩

def Vec.dot (a b : Vec) : Rat := (List.zipWith (· * ·) a.d b.d).foldl (· + ·) 0

/-- rows of an n×n matrix acting on a vector. -/
def matVec (rows : List (List Rat)) (v : Vec) : Vec := ⟨rows.map (fun r => Vec.dot ⟨r⟩ v)⟩

def chunks (n : Nat) : Nat → List Rat → List (List Rat)
  | 0, _ => []
  | k + 1, l => l.take n :: chunks n k (l.drop n)

/-- test function for the gradient: separable cubic plus a bilinear cross term
    `f v = Σ_k (a_k v_k + b_k v_k² + c_k v_k³) + m · v_0 · v_last`. -/
def testFxn (a b c : List Rat) (m : Rat) (v : Vec) : Rat :=
  let terms := List.zipWith (fun (abc : Rat × Rat × Rat) x => abc.1 * x + abc.2.1 * x * x + abc.2.2 * x * x * x)
    (List.zip a (List.zip b c)) v.d
  terms.foldl (· + ·) 0 + m * v.d.headD 0 * v.d.getLastD 0

def unitVec (n i : Nat) (s : Rat) : Vec := ⟨(List.range n).map (fun k => if k = i then s else 0)⟩

/-- Control flow of one phase (relaxation or climbing) of `ISMPath.relax`:
    `for i in range(maxsteps): step; d = …; if d < tolerance: break`.
    Given the displacement measures `d` of the successive steps, the number of steps performed.
    Each phase has its own loop: the climbing phase does not look at the relaxation phase's last `d`. -/
def phaseSteps {K : Type} [LT K] [DecidableLT K] (tol : K) : Nat → List K → Nat
  | 0, _ => 0
  | _ + 1, [] => 0
  | n + 1, d :: ds => if d < tol then 1 else 1 + phaseSteps tol n ds

/-- `(relax steps, climb steps)` performed by `relax(relaxsteps, climbsteps, tolerance)`. -/
def relaxCounts {K : Type} [LT K] [DecidableLT K] (tol : K) (relaxsteps climbsteps : Nat)
    (dsRelax dsClimb : List K) : Nat × Nat :=
  (phaseSteps tol relaxsteps dsRelax, phaseSteps tol climbsteps dsClimb)

end Atomman.C20
