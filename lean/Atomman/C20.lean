/-
  C20 — hand-written part of the model: rational vectors for executing the generated
  integrators (`Atomman/Generated/Integrators.lean`) in the driver.
-/
import Atomman.Prelude
import Atomman.Generated.Integrators

namespace Atomman.C20

/-- rational n-vector (dimension = list length). -/
structure Vec where
  d : List Rat
deriving Repr, BEq

instance : Add Vec := ⟨fun a b => ⟨List.zipWith (· + ·) a.d b.d⟩⟩
instance : Sub Vec := ⟨fun a b => ⟨List.zipWith (· - ·) a.d b.d⟩⟩
instance : Neg Vec := ⟨fun a => ⟨a.d.map (- ·)⟩⟩
instance : SMul Rat Vec := ⟨fun c a => ⟨a.d.map (c * ·)⟩⟩

def Vec.dot (a b : Vec) : Rat := (List.zipWith (· * ·) a.d b.d).foldl (· + ·) 0

/-- rows of an n×n matrix acting on a vector. -/
def matVec (rows : List (List Rat)) (v : Vec) : Vec := ⟨rows.map (fun r => Vec.dot ⟨r⟩ v)⟩

def chunks (n : Nat) : Nat → List Rat → List (List Rat)
  | 0, _ => []
  | k + 1, l => l.take n :: chunks n k (l.drop n)

/-- test function for the gradient: separable cubic plus a bilinear cross term
    `f v = Σ_k (a_k v_k + b_k v_k² + c_k v_k³) + m · v_0 · v_last`. -/
def testFxn (a b c : List Rat) (m : Rat) (v : Vec) : Rat :=
  let terms := List.zipWith (fun (abc : Rat × Rat × Rat) x => abc.1 * x + abc.2.1 * x * x + abc.2.2 * x * x * x)
    (List.zip a (List.zip b c)) v.d
  terms.foldl (· + ·) 0 + m * v.d.headD 0 * v.d.getLastD 0

def unitVec (n i : Nat) (s : Rat) : Vec := ⟨(List.range n).map (fun k => if k = i then s else 0)⟩

/-- Control flow of one phase (relaxation or climbing) of `ISMPath.relax`:
    `for i in range(maxsteps): step; d = …; if d < tolerance: break`.
    Given the displacement measures `d` of the successive steps, the number of steps performed.
    Each phase has its own loop: the climbing phase does not look at the relaxation phase's last `d`. -/
def phaseSteps {K : Type} [LT K] [DecidableLT K] (tol : K) : Nat → List K → Nat
  | 0, _ => 0
  | _ + 1, [] => 0
  | n + 1, d :: ds => if d < tol then 1 else 1 + phaseSteps tol n ds

/-- `(relax steps, climb steps)` performed by `relax(relaxsteps, climbsteps, tolerance)`. -/
def relaxCounts {K : Type} [LT K] [DecidableLT K] (tol : K) (relaxsteps climbsteps : Nat)
    (dsRelax dsClimb : List K) : Nat × Nat :=
  (phaseSteps tol relaxsteps dsRelax, phaseSteps tol climbsteps dsClimb)

/-- `maxmap` of `ISMPath.relax`: the indices of the images whose energy is strictly above the previous image's and
    not below the next image's (`hstack([False, (E[1:-1] > E[:-2]) & (E[1:-1] >= E[2:]), False])`), in path order;
    `i` is the index of the first energy of the list.  End images never qualify; of a flat top (the two central
    images of a mirror-symmetric string) the first image qualifies. -/
def localMaxima {K : Type} [LT K] [DecidableLT K] : Nat → List K → List Nat
  | i, a :: b :: c :: t =>
    if a < b ∧ ¬ b < c then (i + 1) :: localMaxima (i + 1) (b :: c :: t) else localMaxima (i + 1) (b :: c :: t)
  | _, _ => []

/-- Python's index normalisation on a sequence of `n` items: `i` for `0 ≤ i < n`, `n + i` for `-n ≤ i < 0`,
    refused (`IndexError`) otherwise. -/
def pyIndex? (n : Nat) (i : Int) : Option Nat :=
  if 0 ≤ i then (if i < (n : Int) then some i.toNat else none)
  else (if 0 ≤ (n : Int) + i then some ((n : Int) + i).toNat else none)

/-- the images named by `climbindex` (integers counted from either end) on a string of `n` images. -/
def climbImages? (n : Nat) : List Int → Option (List Nat)
  | [] => some []
  | c :: cs =>
    match pyIndex? n c, climbImages? n cs with
    | some a, some t => some (a :: t)
    | _, _ => none

/-- the climbing images chosen by `relax(climbpoints=cp)`: the first `cp` interior local maxima. -/
def climbIndices {K : Type} [LT K] [DecidableLT K] (cp : Nat) (E : List K) : List Nat :=
  (localMaxima 0 E).take cp

/-! ### the path object (`BasePath` / `ISMPath`): observable state and its reads

The object holds exactly five things: the coordinate array (rows = images), the energy function, the
gradient function, the keyword settings handed to the gradient function and the integrator.  Every
read (`energy`, `grad_energy`, `force`, `arccoord`, `unittangent`, `step`) is a function of the
*current* values of these fields: there is no other state.  Arrays of points are lists of rows; the
energy/gradient/integrator functions of `atomman.mep` act row by row (last axis = coordinates).
`dot` is the Euclidean contraction and `sqrt` the square root (external: a parameter). -/

section PathModel
variable {V K : Type}

structure Path (V K : Type) where
  coord : List V
  energyfxn : V → K
  /-- `gradientfxn(energyfxn, coord, **gradientkwargs)` for one row; the keyword settings are
      modelled as one optional number (`shift` of `central_difference`, or the setting of a callable). -/
  gradientfxn : (V → K) → V → Option K → V
  gradientkwargs : Option K
  /-- `integratorfxn(ratefxn, coord, timestep)` for one row. -/
  integratorfxn : (V → V) → V → K → V

/-- what can be done to a path object between reads (`energyfxn` and `gradientkwargs` have no
    setter; the settings dictionary is changed in place). -/
inductive Op (V K : Type) where
  | setCoord (c : List V)
  | setRow (i : Nat) (v : V)
  | setGradientfxn (g : (V → K) → V → Option K → V)
  | setKwargs (k : Option K)
  | setIntegratorfxn (f : (V → V) → V → K → V)

namespace Path

def apply (p : Path V K) : Op V K → Path V K
  | .setCoord c => { p with coord := c }
  | .setRow i v => { p with coord := p.coord.set i v }
  | .setGradientfxn g => { p with gradientfxn := g }
  | .setKwargs k => { p with gradientkwargs := k }
  | .setIntegratorfxn f => { p with integratorfxn := f }

def run (p : Path V K) (ops : List (Op V K)) : Path V K := ops.foldl apply p

/-- `energy(coord)`; `energy()` is `energyAt p p.coord`. -/
def energyAt (p : Path V K) (c : List V) : List K := c.map p.energyfxn
def energy (p : Path V K) : List K := p.energyAt p.coord

/-- the gradient of the energy at one point with the object's current settings. -/
def gradPoint (p : Path V K) (x : V) : V := p.gradientfxn p.energyfxn x p.gradientkwargs
def gradAt (p : Path V K) (c : List V) : List V := c.map p.gradPoint
def gradEnergy (p : Path V K) : List V := p.gradAt p.coord

section geometry
variable [Add V] [Sub V] [SMul K V] [Add K] [Div K] [NatCast K]
variable (dot : V → V → K) (sqrt : K → K)

/-- `v / |v|`. -/
def unitOf (v : V) : V := (((1 : Nat) : K) / sqrt (dot v v)) • v

/-- `coord[1:] - coord[:-1]`. -/
def diffs : List V → List V
  | a :: b :: t => (b - a) :: diffs (b :: t)
  | _ => []

def tangentGo (prev : V) : List V → List V
  | [] => [prev]
  | u :: t => (prev + u) :: tangentGo u t

/-- `τ[0] = u[0]`, `τ[-1] = u[-1]`, `τ[i] = u[i-1] + u[i]` from the unit differences `u`. -/
def rawTangent : List V → List V
  | [] => []
  | u0 :: us => u0 :: tangentGo u0 us

/-- `ISMPath.unittangent` (defined for at least two images). -/
def unitTangentOf (c : List V) : List V :=
  (rawTangent ((diffs c).map (unitOf dot sqrt))).map (unitOf dot sqrt)

def cumsum (acc : K) : List K → List K
  | [] => [acc]
  | x :: t => acc :: cumsum (acc + x) t

/-- `BasePath.arccoord` (at least one image). -/
def arccoordOf (c : List V) : List K :=
  cumsum (((0 : Nat) : K)) ((diffs c).map (fun v => sqrt (dot v v)))

def unitTangent (p : Path V K) : List V := unitTangentOf dot sqrt p.coord
def arccoord (p : Path V K) : List K := arccoordOf dot sqrt p.coord
/-- `einsum('ij,ij->i', grad_energy(), unittangent)`. -/
def force (p : Path V K) : List K := List.zipWith dot p.gradEnergy (p.unitTangent dot sqrt)

end geometry

section stepping
variable [Add V] [Sub V] [Neg V] [SMul K V] [Add K] [Sub K] [Mul K] [Div K] [Neg K] [NatCast K]

/-- one ordinary image moved by `integratorfxn(rate, ·, timestep)`. -/
def stepRow (p : Path V K) (h : K) (x : V) : V :=
  p.integratorfxn (Gen.rate p.gradPoint) x h

/-- one climbing image moved by `integratorfxn(climbrate, ·, timestep, τ=τ)`. -/
def climbRow (p : Path V K) (dot : V → V → K) (h : K) (x τ : V) : V :=
  p.integratorfxn (fun y => Gen.climbrate p.gradPoint dot y τ) x h

/-- the integrated coordinates `icoord` of `ISMPath.step` (before re-spacing): every row by the
    rate, the climbing rows by the climbing rate with the tangent of the *initial* path. -/
def icoord (p : Path V K) (dot : V → V → K) (sqrt : K → K) (h : K) (climb : List Nat) : List V :=
  let τ := p.unitTangent dot sqrt
  (List.zip (List.range p.coord.length) (List.zip p.coord τ)).map
    (fun (i, x, t) => if climb.contains i then p.climbRow dot h x t else p.stepRow h x)

/-- ordinary step of all rows (no climbing: the tangents are not needed). -/
def icoordPlain (p : Path V K) (h : K) : List V := p.coord.map (p.stepRow h)

/-- the path returned by `step` carries the same functions and settings. The re-spacing along the
    cubic spline leaves the first, the last and the climbing rows where the integrator put them
    (they are knots whose arc coordinate is kept); for a two-image path that is the whole path. -/
def withCoord (p : Path V K) (c : List V) : Path V K := { p with coord := c }

/-- `n` ordinary steps of a two-image path / of the end images of any path. -/
def iterateRows (p : Path V K) (h : K) : Nat → List V → List V
  | 0, c => c
  | n + 1, c => iterateRows p h n (c.map (p.stepRow h))

/-- `np.linalg.norm(new - old, axis=-1).max() / timestep`: the convergence measure of `relax`. -/
def displacement [LT K] [DecidableLT K] (dot : V → V → K) (sqrt : K → K) (h : K) (old new : List V) : K :=
  let ns := List.zipWith (fun a b => sqrt (dot (b - a) (b - a))) old new
  (ns.foldl (fun m x => if m < x then x else m) (((0 : Nat) : K))) / h

/-- one phase (relaxation, or climbing without climbing images) of `relax` on a path all of whose images are
    kept by the re-spacing (two images): the final rows and the displacement measures of the steps performed. -/
def relaxPhase [LT K] [DecidableLT K] (p : Path V K) (dot : V → V → K) (sqrt : K → K) (h tol : K) :
    Nat → List V → List V × List K
  | 0, c => (c, [])
  | n + 1, c =>
    let c' := c.map (p.stepRow h)
    let d := displacement dot sqrt h c c'
    if d < tol then (c', [d]) else
      let r := relaxPhase p dot sqrt h tol n c'
      (r.1, d :: r.2)

/-- one whole step of the string (`ISMPath.step`): integrate every image (climbing images with the climbing
    rate and the tangent of the initial string), then re-space; `respace climb rows` stands for the cubic-spline
    re-spacing between the pinned images (first, last, climbing), which is scipy code outside the model. -/
def stringStep (p : Path V K) (dot : V → V → K) (sqrt : K → K) (respace : List Nat → List V → List V)
    (h : K) (climb : List Nat) : Path V K :=
  p.withCoord (respace climb (p.icoord dot sqrt h climb))

end stepping

/-- `default_timestep = 0.05 * min(0.2, 1/N)`, `default_tolerance = max(N^-4, 1e-10)`. -/
def defaultTimestep [Mul K] [Div K] [NatCast K] [LT K] [DecidableLT K] (n : Nat) : K :=
  let a : K := ((1 : Nat) : K) / ((5 : Nat) : K)
  let b : K := ((1 : Nat) : K) / ((n : Nat) : K)
  (((1 : Nat) : K) / ((20 : Nat) : K)) * (if b < a then b else a)

def defaultTolerance [Mul K] [Div K] [NatCast K] [LT K] [DecidableLT K] (n : Nat) : K :=
  let a : K := ((1 : Nat) : K) / (((n * n * n * n : Nat) : K))
  let b : K := ((1 : Nat) : K) / ((10000000000 : Nat) : K)
  if a < b then b else a

end Path
end PathModel

/-! ### the re-spacing of `ISMPath.step`: where the new images are placed -/
namespace Path
section respace
variable {K : Type} [Add K] [Sub K] [Mul K] [Div K] [NatCast K]

/-- `np.linspace(a, b, n)` in exact arithmetic: `a + i·(b − a)/(n − 1)`, `i = 0 … n−1` (`[a]` for `n = 1`). -/
def linspace (a b : K) (n : Nat) : List K :=
  (List.range n).map (fun i => a + ((i : Nat) : K) * ((b - a) / (((n - 1 : Nat)) : K)))

/-- the arc coordinates at which `ISMPath.step` places the new images: between consecutive pinned images
    (`start`, then the climbing images in increasing order, then the last image) equally spaced from the arc coordinate of
    the one to that of the other.  `respaceGo α n s climb` lists the targets of the images `s … n−1`; a segment `[s, c]`
    contributes its first `c − s` targets, the target of `c` itself comes from the next segment (the implementation writes
    it twice, with the same value). -/
def respaceGo (α : List K) (n : Nat) : Nat → List Nat → List K
  | s, [] => linspace (α.getD s (((0 : Nat)) : K)) (α.getD (n - 1) (((0 : Nat)) : K)) (n - s)
  | s, c :: cs => (linspace (α.getD s (((0 : Nat)) : K)) (α.getD c (((0 : Nat)) : K)) (c + 1 - s)).take (c - s) ++ respaceGo α n c cs

/-- `newα` of `ISMPath.step` for the arc coordinates `α` of the integrated images and the climbing images `climb`
    (increasing, interior). -/
def respaceTargets (climb : List Nat) (α : List K) : List K := respaceGo α α.length 0 climb

end respace

section splinerespace
variable {V K : Type} [Add V] [Sub V] [SMul K V] [Add K] [Sub K] [Mul K] [Div K] [NatCast K]
/-- the re-spacing of `ISMPath.step`: arc coordinates `α` of the integrated images, targets `respaceTargets climb α`, new
    images = the interpolant through `(α, rows)` evaluated at the targets. `interp α rows` stands for scipy's
    `CubicSpline(α, rows)` (outside the model). -/
def splineRespace (dot : V → V → K) (sqrt : K → K) (interp : List K → List V → K → V) (climb : List Nat) (rows : List V) : List V :=
  (respaceTargets climb (arccoordOf dot sqrt rows)).map (interp (arccoordOf dot sqrt rows) rows)
end splinerespace
end Path

/-! ### the loops of `ISMPath.relax` over whole paths, `relax` with its options, list forms of the array programs

`relaxLoop` is one `for i in range(n): new = step(cur); d = measure(cur, new); cur = new; if d < tol: break` over any
kind of state; `Path.relax` is the whole method: defaults of `timestep` / `tolerance` from the string it is called on,
relaxation loop without climbing images, choice of the climbing images from the energies of the string reached,
climbing loop.  The re-spacing is a parameter as in `stringStep`.  `Generated/PathSource.lean` is regenerated from
`ISMPath.py` / `BasePath.py` / `__init__.py`; `Proofs/C20_Source.lean` proves the generated definitions equal to these. -/

def relaxLoop {P K : Type} [LT K] [DecidableLT K] (step : P → P) (measure : P → P → K) (tol : K) : Nat → P → P × List K
  | 0, p => (p, [])
  | n + 1, p =>
    let q := step p
    let d := measure p q
    if d < tol then (q, [d]) else
      let r := relaxLoop step measure tol n q
      (r.1, d :: r.2)

/-- the arguments of `relax` (`verbose` only prints). -/
structure RelaxArgs (K : Type) where
  relaxsteps : Nat := 0
  climbsteps : Nat := 0
  timestep : Option K := none
  tolerance : Option K := none
  climbpoints : Nat := 1

/-- what `relax` computes: the string returned, the measures of the relaxation steps, the climbing images chosen,
    the measures of the climbing steps. -/
structure RelaxResult (V K : Type) where
  path : Path V K
  relaxMeasures : List K
  climb : List Nat
  climbMeasures : List K

namespace Path
section relaxmodel
variable {V K : Type} [Add V] [Sub V] [Neg V] [SMul K V] [Add K] [Sub K] [Mul K] [Div K] [Neg K] [NatCast K]
  [LT K] [DecidableLT K]

/-- the convergence measure between two strings. -/
def measure (dot : V → V → K) (sqrt : K → K) (h : K) (old new : Path V K) : K :=
  displacement dot sqrt h old.coord new.coord

def relax (p : Path V K) (dot : V → V → K) (sqrt : K → K) (respace : List Nat → List V → List V)
    (a : RelaxArgs K) : RelaxResult V K :=
  let h := a.timestep.getD (defaultTimestep p.coord.length)
  let tol := a.tolerance.getD (defaultTolerance p.coord.length)
  let r1 := relaxLoop (fun q => q.stringStep dot sqrt respace h []) (measure dot sqrt h) tol a.relaxsteps p
  let climb := climbIndices a.climbpoints r1.1.energy
  let r2 := relaxLoop (fun q => q.stringStep dot sqrt respace h climb) (measure dot sqrt h) tol a.climbsteps r1.1
  ⟨r2.1, r1.2, climb, r2.2⟩

end relaxmodel
end Path

/-! list forms of numpy's slices / row operations used by the generated definitions -/
namespace Np
variable {V K : Type}
/-- `x[1:] - x[:-1]` and friends: element-wise binary operation of two equally long slices. -/
def ew {α β γ : Type} (f : α → β → γ) (a : List α) (b : List β) : List γ := List.zipWith f a b
/-- `np.linalg.norm(x, axis=-1)`. -/
def rowNorms (dot : V → V → K) (sqrt : K → K) (x : List V) : List K := x.map (fun v => sqrt (dot v v))
/-- `(x.T / np.linalg.norm(x, axis=-1)).T`. -/
def rowUnit [Add V] [Sub V] [SMul K V] [Add K] [Div K] [NatCast K] (dot : V → V → K) (sqrt : K → K) (x : List V) : List V :=
  x.map (Path.unitOf dot sqrt)
/-- `.max()` of an array of norms (non-negative numbers). -/
def maxOf [NatCast K] [LT K] [DecidableLT K] (x : List K) : K := x.foldl (fun m y => if m < y then y else m) (((0 : Nat) : K))
/-- `.sum()` of an array of numbers. -/
def sumOf [NatCast K] [Add K] (x : List K) : K := x.foldl (fun a b => a + b) (((0 : Nat) : K))
/-- `np.any(x < c) | np.any(x > d)` style tests: some entry satisfies the predicate. -/
def anyOf (x : List K) (p : K → Bool) : Bool := x.any p
/-- `np.arange(len(mask))[mask]`. -/
def whereTrue (mask : List Bool) : List Nat := (List.range mask.length).filter (fun i => mask.getD i false)
/-- `mask.sum()`. -/
def countTrue (mask : List Bool) : Nat := mask.count true
end Np

/-- `interpolate_path` refuses (`ValueError`) arc coordinates below 0 or beyond the arc coordinate of the last image. -/
def interpRefuses {K : Type} [NatCast K] [LT K] [DecidableLT K] (α targets : List K) : Bool :=
  targets.any (fun a => decide (a < ((0 : Nat) : K))) || targets.any (fun a => decide (α.getLastD ((0 : Nat) : K) < a))

/-! ### construction: `create_path` / `BasePath.__init__` and the setters of `gradientfxn` / `integratorfxn` -/

/-- what is handed in as `gradientfxn` / `integratorfxn`: a string, a callable, or something else. -/
inductive FxnArg where
  | name (s : String)
  | callable
  | other
deriving Repr, DecidableEq

/-- what is handed in as `gradientkwargs`. -/
inductive KwArg where
  | none
  | dict
  | other
deriving Repr, DecidableEq

inductive PyErr where
  | value
  | type
deriving Repr, DecidableEq

inductive GradChoice where
  | centralDifference
  | user
deriving Repr, DecidableEq

inductive IntegChoice where
  | rungekutta
  | euler
  | user
deriving Repr, DecidableEq

/-- the names the `gradientfxn` setter knows. -/
def gradientNames : List (String × GradChoice) :=
  [("central_difference", .centralDifference), ("cdiff", .centralDifference)]
/-- the names the `integratorfxn` setter knows. -/
def integratorNames : List (String × IntegChoice) :=
  [("rungekutta", .rungekutta), ("rk", .rungekutta), ("euler", .euler)]
/-- the styles `create_path` knows (all ISMPath). -/
def styleNames : List String := ["ISM", "improved_string_method"]

def resolveGradientfxn : FxnArg → Except PyErr GradChoice
  | .name s => match gradientNames.lookup s with
    | some g => .ok g
    | none => .error .value
  | .callable => .ok .user
  | .other => .error .type

def resolveIntegratorfxn : FxnArg → Except PyErr IntegChoice
  | .name s => match integratorNames.lookup s with
    | some g => .ok g
    | none => .error .value
  | .callable => .ok .user
  | .other => .error .type

/-- arguments of `create_path` (an argument left out = `none` = the default of the signature). -/
structure CtorArgs where
  energyCallable : Bool
  style : Option String := none
  gradientfxn : Option FxnArg := none
  gradientkwargs : Option KwArg := none
  integratorfxn : Option FxnArg := none
deriving Repr

def defaultStyle : String := "ISM"
def defaultGradientfxn : FxnArg := .name "cdiff"
def defaultIntegratorfxn : FxnArg := .name "rk"
def defaultGradientkwargs : KwArg := .none

/-- `BasePath.__init__` after the coordinates were stored: the checks in the order of the source (the first one that
    fails decides the exception).  Result: the gradient function, the integrator, and whether the path owns a new empty
    settings dictionary (`gradientkwargs=None`) or holds the caller's. -/
def initPath (a : CtorArgs) : Except PyErr (GradChoice × IntegChoice × Bool) := do
  if ¬ a.energyCallable then throw .type
  let g ← resolveGradientfxn (a.gradientfxn.getD defaultGradientfxn)
  let i ← resolveIntegratorfxn (a.integratorfxn.getD defaultIntegratorfxn)
  let fresh ← (match a.gradientkwargs.getD defaultGradientkwargs with
    | .none => (pure true : Except PyErr Bool)
    | .dict => pure false
    | .other => throw .type)
  pure (g, i, fresh)

/-- `create_path`: the style is looked at first. -/
def createPath (a : CtorArgs) : Except PyErr (GradChoice × IntegChoice × Bool) :=
  if styleNames.contains (a.style.getD defaultStyle) then initPath a else .error .value

/-- signatures (name, default as written in the source) of the public entry points. -/
def sigCreatePath : List (String × String) :=
  [("coord", ""), ("energyfxn", ""), ("style", "'ISM'"), ("gradientfxn", "'cdiff'"), ("gradientkwargs", "None"),
   ("integratorfxn", "'rk'")]
def sigInit : List (String × String) :=
  [("self", ""), ("coord", ""), ("energyfxn", ""), ("gradientfxn", "'cdiff'"), ("gradientkwargs", "None"),
   ("integratorfxn", "'rk'")]
def sigStep : List (String × String) := [("self", ""), ("timestep", "None"), ("climbindex", "None")]
def sigRelax : List (String × String) :=
  [("self", ""), ("relaxsteps", "0"), ("climbsteps", "0"), ("timestep", "None"), ("tolerance", "None"),
   ("climbpoints", "1"), ("verbose", "True")]
/-- the order in which `__init__` stores / checks its arguments. -/
def initOrder : List String := ["coord", "energyfxn", "gradientfxn", "integratorfxn", "gradientkwargs"]
/-- the arguments with which `step` / `interpolate_path` build the path they return (positional then keyword):
    every function and setting of the path is handed on. -/
def carriedFields : List String := ["energyfxn", "gradientfxn", "gradientkwargs", "integratorfxn"]
/-- statement pins of the segment loop of `step` (not expressed as a definition: `respaceTargets` is tied by
    observing `newα` on the implementation). -/
def stepSegmentPins : List String :=
  ["startindices = [0] + aslist(climbindex)",
   "endindices = aslist(np.asarray(climbindex) + 1) + [None]",
   "α = intpath.arccoord",
   "newα = np.empty_like(α)",
   "for (s, e) in zip(startindices, endindices):",
   "subα = α[s:e]",
   "newα[s:e] = np.linspace(subα[0], subα[-1], len(subα))",
   "newpath = intpath.interpolate_path(newα)",
   "return newpath"]

/-! ### `central_difference` on arrays of points of any leading shape

A coordinate array of shape `(…, d)` is the list of its points in row-major order together with the
leading shape; the gradient array has the same shape and its point `k` is the gradient at point `k`:
component `i` is `Gen.cdComponent` with `δ = shift·eᵢ`. -/

def cdPoint {V K : Type} [Add V] [Sub V] [Neg V] [SMul K V] [Add K] [Sub K] [Mul K] [Div K] [Neg K] [NatCast K]
    (mk : List K → V) (delta : Nat → K → V) (dim : Nat) (fxn : V → K) (x : V) (s : K) : V :=
  mk ((List.range dim).map (fun i => Gen.cdComponent fxn x (delta i s) s))

def cdArray {V K : Type} [Add V] [Sub V] [Neg V] [SMul K V] [Add K] [Sub K] [Mul K] [Div K] [Neg K] [NatCast K]
    (mk : List K → V) (delta : Nat → K → V) (dim : Nat) (fxn : V → K) (pts : List V) (s : K) : List V :=
  pts.map (fun x => cdPoint mk delta dim fxn x s)

/-! ### executable instance over `Rat` (driver) -/

/-- square root of a non-negative rational to a relative accuracy of `2^-64` (driver only). -/
def ratSqrt (x : Rat) : Rat :=
  if x ≤ 0 then 0 else
  mkRat (Nat.sqrt (x.num.toNat * x.den * 2 ^ 128)) (x.den * 2 ^ 64)

/-- analytic gradient of `testFxn`. -/
def testGrad (a b c : List Rat) (m : Rat) (v : Vec) : Vec :=
  let n := v.d.length
  let x0 := v.d.headD 0
  let xl := v.d.getLastD 0
  ⟨(List.zip (List.range n) (List.zip (List.zip a (List.zip b c)) v.d)).map
    (fun (i, abc, x) => abc.1 + 2 * abc.2.1 * x + 3 * abc.2.2 * x * x
      + (if i = 0 then m * xl else 0) + (if i + 1 = n then m * x0 else 0))⟩

end Atomman.C20
