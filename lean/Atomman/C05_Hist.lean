/-
  C05 — object-level state: the `Box` with its cached `reciprocal_vects`, and edit histories on ONE
  `System` object (core Lean only).

  Sources:
    atomman/core/Box.py      `vects` setter (writes the array, zeroes the near-zero terms, drops the
                             cached reciprocal vectors), `origin` setter, `reciprocal_vects` (computed
                             on first use, kept), `position_cartesian_to_relative` (uses the cache),
                             `position_relative_to_cartesian` (uses `vects`), `set`, `set_vectors`,
                             `set_lengths`, `set_abc`
    atomman/core/System.py   `atoms_prop(scale=True)` (get / set), `box_set(scale=…)`, `wrap`, `pbc`
    atomman/lammps/normalize.py   `deepcopy(system)` keeps the cache of the copy

  Two layers:
    * `CSys` — what the code does: the box carries `cache : Option (M3 K)`; every read of scaled
      positions goes through `CSys.recip` (fill on first use), every write of the cell vectors through
      `CSys.setVects` (clean-up + cache dropped).
    * `Sys`  — the functional reading (no cache): `wrap`, `normalize?` of `Atomman.C05` plus the
      clean-up of the setter.
  `Proofs/C05_Hist.lean` shows that the two agree on every history as long as the cache is coherent,
  that every operation keeps it coherent, and exhibits what goes wrong when it is not.
-/
import Atomman.C05

namespace Atomman.C05
open Atomman

variable {K : Type}

section
variable [Add K] [Sub K] [Mul K] [Div K] [Neg K] [Zero K] [One K] [IntCast K]
  [LT K] [LE K] [DecidableLT K] [DecidableLE K]

/-! ### the clean-up of the `vects` setter -/

@[inline] def absK (x : K) : K := if x < 0 then -x else x

/-- `abs(self.__vects).max()`. -/
def maxAbs (v : M3 K) : K := maxOf 0 (v.toList.map absK)

/-- one entry of `vects[np.isclose(vects / abs(vects).max(), 0.0, atol=1e-9)] = 0.0`:
    `isclose(a, 0, atol)` is `|a - 0| <= atol + rtol*|0| = atol`. -/
@[inline] def zeroIfSmall (tiny m x : K) : K := if absK (x / m) ≤ tiny then 0 else x

/-- "Zero out near zero terms" of the `vects` setter (`tiny` = the double `1e-9`). -/
def zeroSmall (tiny : K) (v : M3 K) : M3 K :=
  let m := maxAbs v
  ⟨⟨zeroIfSmall tiny m v.r0.x, zeroIfSmall tiny m v.r0.y, zeroIfSmall tiny m v.r0.z⟩,
   ⟨zeroIfSmall tiny m v.r1.x, zeroIfSmall tiny m v.r1.y, zeroIfSmall tiny m v.r1.z⟩,
   ⟨zeroIfSmall tiny m v.r2.x, zeroIfSmall tiny m v.r2.y, zeroIfSmall tiny m v.r2.z⟩⟩

/-! ### wrap with an explicit matrix in the role of `reciprocal_vects` -/

/-- `np.inner(pos - origin, r)`: the scaled coordinate as computed from whatever matrix `r` the box
    hands out as its reciprocal vectors. -/
@[inline] def relWith (r : M3 K) (o : V3 K) (p : V3 K) : V3 K := M3.mulVec r (p - o)

/-- `System.wrap` with `r` used for the scaled coordinates and `b` for everything else. -/
def wrapWith (fl : K → Int) (pad : K) (r : M3 K) (b : Box K) (pbc : V3 Bool) (pos : List (V3 K)) :
    Wrapped K :=
  let sp := pos.map (relWith r b.origin)
  ⟨paddedBox b (bounds pad pbc sp),
   sp.map (fun s => b.relToCart (subFlags s (flagsOf fl pbc s))),
   sp.map (flagsOf fl pbc)⟩

/-! ### parameters (external numerical routines and literals) -/

structure Params (K : Type) where
  /-- `numpy.floor` + cast to int -/
  fl : K → Int
  /-- the literal `0.001` of `wrap` -/
  pad : K
  /-- the literal `1e-9` of the `vects` setter -/
  tiny : K
  /-- `x**0.5` -/
  sqrt : K → K

/-! ### layer 1: the system as the code keeps it (box + cached reciprocal vectors) -/

structure CSys (K : Type) where
  box : Box K
  /-- `Box.__reciprocal_vects`: `none` until first used after the last write of `vects` -/
  cache : Option (M3 K)
  pbc : V3 Bool
  pos : List (V3 K)

namespace CSys

/-- `Box.reciprocal_vects`: computed on first use, then kept. -/
def recip (c : CSys K) : M3 K × CSys K :=
  match c.cache with
  | some r => (r, c)
  | none => (c.box.recip, { c with cache := some c.box.recip })

/-- `Box.vects = v`: write, clean up, drop the cache. -/
def setVects (tiny : K) (c : CSys K) (v : M3 K) : CSys K :=
  { c with box := ⟨zeroSmall tiny v, c.box.origin⟩, cache := none }

/-- `Box.origin = o` (the cache does not depend on it). -/
def setOrigin (c : CSys K) (o : V3 K) : CSys K := { c with box := ⟨c.box.vects, o⟩ }

/-- `Box.set(vects=…, origin=…)`, `set_vectors`, `set_lengths`: the `vects` setter, then the `origin` setter. -/
def setBox (tiny : K) (c : CSys K) (v : M3 K) (o : V3 K) : CSys K := (c.setVects tiny v).setOrigin o

/-- `atoms_prop('pos', scale=True)` (read). -/
def getSpos (c : CSys K) : List (V3 K) × CSys K :=
  let rc := c.recip
  (rc.2.pos.map (relWith rc.1 rc.2.box.origin), rc.2)

/-- `atoms_prop('pos', value=spos, scale=True)` (write). -/
def putSpos (c : CSys K) (sp : List (V3 K)) : CSys K := { c with pos := sp.map c.box.relToCart }

/-- `System.box_set(vects=v, origin=o, scale=…)`. -/
def boxSet (tiny : K) (c : CSys K) (scale : Bool) (v : M3 K) (o : V3 K) : CSys K :=
  if scale then
    let g := c.getSpos
    (g.2.setBox tiny v o).putSpos g.1
  else c.setBox tiny v o

/-- `System.wrap(return_imageflags=True)`. -/
def wrapC (P : Params K) (c : CSys K) : List (V3 Int) × CSys K :=
  let g := c.getSpos
  let sp := g.1
  let c1 := g.2
  let c2 := c1.putSpos (sp.map (fun s => subFlags s (flagsOf P.fl c1.pbc s)))
  let nb := paddedBox c2.box (bounds P.pad c1.pbc sp)
  (sp.map (flagsOf P.fl c1.pbc), c2.setBox P.tiny nb.vects nb.origin)

/-- `System.box_set(a=box.a, b=box.b, c=box.c, alpha=…, beta=…, gamma=…, scale=True)`;
    `none` is the assertion of `set_lengths`. -/
def rebuild (P : Params K) (c : CSys K) : Option (CSys K) :=
  let g := c.getSpos
  match abcBox? P.sqrt g.2.box.vects with
  | none => none
  | some b2 => some ((g.2.setBox P.tiny b2.vects b2.origin).putSpos g.1)

/-- `atomman.lammps.normalize(system, return_transform=True)` on the object: `deepcopy` keeps the cache. -/
def normalizeC (P : Params K) (c : CSys K) : Option (Normalized K) :=
  let c1 := if triple c.box.vects < 0 then c.setBox P.tiny (flipC c.box).vects (flipC c.box).origin else c
  match c1.rebuild P with
  | none => none
  | some c2 =>
    let w := c2.wrapC P
    some ⟨w.2.box, w.2.pos, w.1, (M3.mul (M3.inv c1.box.vects) w.2.box.vects).transpose⟩

end CSys

/-! ### layer 2: the functional reading (no cache) -/

structure Sys (K : Type) where
  box : Box K
  pbc : V3 Bool
  pos : List (V3 K)

/-- forget the cache. -/
def CSys.erase (c : CSys K) : Sys K := ⟨c.box, c.pbc, c.pos⟩

namespace Sys

def setBox (tiny : K) (s : Sys K) (v : M3 K) (o : V3 K) : Sys K := { s with box := ⟨zeroSmall tiny v, o⟩ }

def spos (s : Sys K) : List (V3 K) := s.pos.map s.box.cartToRel

def boxSet (tiny : K) (s : Sys K) (scale : Bool) (v : M3 K) (o : V3 K) : Sys K :=
  if scale then
    let nb : Box K := ⟨zeroSmall tiny v, o⟩
    ⟨nb, s.pbc, s.spos.map nb.relToCart⟩
  else s.setBox tiny v o

/-- `wrap` of `Atomman.C05` followed by the clean-up of the setter the new box goes through. -/
def wrapS (P : Params K) (s : Sys K) : List (V3 Int) × Sys K :=
  let w := wrap P.fl P.pad s.box s.pbc s.pos
  (w.flags, ⟨⟨zeroSmall P.tiny w.box.vects, w.box.origin⟩, s.pbc, w.pos⟩)

def rebuild (P : Params K) (s : Sys K) : Option (Sys K) :=
  match abcBox? P.sqrt s.box.vects with
  | none => none
  | some b2 =>
    let nb : Box K := ⟨zeroSmall P.tiny b2.vects, b2.origin⟩
    some ⟨nb, s.pbc, s.spos.map nb.relToCart⟩

def normalizeS (P : Params K) (s : Sys K) : Option (Normalized K) :=
  let s1 := if triple s.box.vects < 0 then s.setBox P.tiny (flipC s.box).vects (flipC s.box).origin else s
  match s1.rebuild P with
  | none => none
  | some s2 =>
    let w := s2.wrapS P
    some ⟨w.2.box, w.2.pos, w.1, (M3.mul (M3.inv s1.box.vects) w.2.box.vects).transpose⟩

end Sys

/-! ### operations and histories -/

/-- item assignment on a triple of flags (`pbc[axis] = v`); any other index leaves it as it is. -/
def setAxis (p : V3 Bool) (axis : Nat) (v : Bool) : V3 Bool :=
  match axis with
  | 0 => ⟨v, p.y, p.z⟩
  | 1 => ⟨p.x, v, p.z⟩
  | 2 => ⟨p.x, p.y, v⟩
  | _ => p

inductive Op (K : Type) where
  /-- `system.atoms_prop('pos', scale=True)` -/
  | spos
  /-- `system.wrap(return_imageflags=True)` -/
  | wrap
  /-- `system.box_set(a=…, …, gamma=…, scale=True)` with the cell's own parameters -/
  | rebuild
  /-- `system.normalize(return_transform=True)`: returns a new system, the object is not changed -/
  | normalize
  /-- `system.box_set(vects=v, origin=o, scale=scale)` (also `avect=…`, `lx=…` forms) -/
  | boxSet (scale : Bool) (v : M3 K) (o : V3 K)
  /-- `system.box.vects = v` -/
  | setVects (v : M3 K)
  /-- `system.box.origin = o` -/
  | setOrigin (o : V3 K)
  /-- `system.pbc = p` -/
  | setPbc (p : V3 Bool)
  /-- `system.pbc[axis] = v`: the periodicity setting edited IN PLACE through the array the getter hands out (or
      through the caller's own array that was handed to the constructor / the setter and is kept); no setter runs.
      `axis` is 0, 1 or 2 (numpy raises `IndexError` otherwise: the driver rejects such a line) -/
  | editPbc (axis : Nat) (v : Bool)
  /-- `system.atoms.pos = p` / `atoms_prop('pos', value=p)` / an in-place edit of the position array: the
      Cartesian positions are replaced (same number of atoms), the box and its cache are not touched -/
  | setPos (p : List (V3 K))

inductive Obs (K : Type) where
  | unit
  | spos (s : List (V3 K))
  | flags (f : List (V3 Int))
  | normalized (z : Normalized K)
  /-- an assertion of the code fails (box lengths not positive) -/
  | failed

/-- one operation on the object as the code keeps it. A failed `rebuild` leaves the positions and the box
    as they were (the exception is raised before anything is written). -/
def stepC (P : Params K) (c : CSys K) : Op K → CSys K × Obs K
  | .spos => let g := c.getSpos; (g.2, .spos g.1)
  | .wrap => let w := c.wrapC P; (w.2, .flags w.1)
  | .rebuild =>
    match c.rebuild P with
    | some c' => (c', .unit)
    | none => (c.getSpos.2, .failed)
  | .normalize =>
    match c.normalizeC P with
    | some z => (c, .normalized z)
    | none => (c, .failed)
  | .boxSet scale v o => (c.boxSet P.tiny scale v o, .unit)
  | .setVects v => (c.setVects P.tiny v, .unit)
  | .setOrigin o => (c.setOrigin o, .unit)
  | .setPbc p => ({ c with pbc := p }, .unit)
  | .editPbc k v => ({ c with pbc := setAxis c.pbc k v }, .unit)
  | .setPos p => ({ c with pos := p }, .unit)

/-- the same operation in the functional reading. -/
def step (P : Params K) (s : Sys K) : Op K → Sys K × Obs K
  | .spos => (s, .spos s.spos)
  | .wrap => let w := s.wrapS P; (w.2, .flags w.1)
  | .rebuild =>
    match s.rebuild P with
    | some s' => (s', .unit)
    | none => (s, .failed)
  | .normalize =>
    match s.normalizeS P with
    | some z => (s, .normalized z)
    | none => (s, .failed)
  | .boxSet scale v o => (s.boxSet P.tiny scale v o, .unit)
  | .setVects v => (s.setBox P.tiny v s.box.origin, .unit)
  | .setOrigin o => ({ s with box := ⟨s.box.vects, o⟩ }, .unit)
  | .setPbc p => ({ s with pbc := p }, .unit)
  | .editPbc k v => ({ s with pbc := setAxis s.pbc k v }, .unit)
  | .setPos p => ({ s with pos := p }, .unit)

/-- a history: the final object and everything observed on the way. -/
def runC (P : Params K) : CSys K → List (Op K) → CSys K × List (Obs K)
  | c, [] => (c, [])
  | c, op :: ops =>
    let r := stepC P c op
    let rest := runC P r.1 ops
    (rest.1, r.2 :: rest.2)

def run (P : Params K) : Sys K → List (Op K) → Sys K × List (Obs K)
  | s, [] => (s, [])
  | s, op :: ops =>
    let r := step P s op
    let rest := run P r.1 ops
    (rest.1, r.2 :: rest.2)

/-- the cache, if filled, holds the reciprocal vectors of the *current* cell vectors. -/
def Coherent (c : CSys K) : Prop := ∀ r, c.cache = some r → r = c.box.recip

end

/-! ### executable instance -/

/-- the double `1e-9` exactly. -/
def tiny1em9 : Rat := mkRat 4835703278458517 4835703278458516698824704

def paramsRat : Params Rat := ⟨Rat.floor, pad001, tiny1em9, ratSqrt⟩

end Atomman.C05
