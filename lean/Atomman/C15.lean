/-
  C15 — model of `atomman/defect/point.py` (vacancy, interstitial, substitutional, dumbbell, point).
  Core Lean only.  Polymorphic over the scalar type `K`: executed at `K := Rat` by the driver,
  proved for every linearly ordered field in `Proofs/C15.lean`.

  What is modelled, as coded:
  * a system = box, pbc, number of symbols, the keys of the extra per-atom properties, the atoms as a
    list of records (atype, pos, flattened values of each extra property), and the `old_id` column,
    which either exists (`some col`) or not (`none`) — `'old_id' not in d_system.atoms_prop()`;
  * site lookup `np.where(np.isclose(norm(dvect(pos, atoms.pos)), 0.0, atol=atol))` with the shared
    `dvect` loops; `isclose(d, 0, atol)` is `d == 0 or d <= atol`, decided on squares;
  * `ptd_id` normalisation (`+= natoms` when negative) and range refusal;
  * the index lists `pop(ptd_id)`, `append(0)`, `append(ptd_id)` (once / twice) and `atoms[index]`
    (`gather`); `old_id = index` only when the column is absent;
  * per-property assignment of the last atom (`kwargs.pop(prop, default)`), `old_id.max()+1`,
    dumbbell `pos[-2] -= db_vect; pos[-1] += db_vect`, `scale=True` converting `db_vect` as a vector;
  * the dispatcher `point` with its assertions;
  * the tolerance argument as passed by the caller: `atol=None` (and only `None`) is replaced by the
    default (`effAtol`); the entry points `vacancyC` … `pointC` take `Option K` and the default as a
    parameter (it depends on the working length unit: `uc.set_in_units(0.01, 'angstrom')`);
  * the closing refusal of a defect atom type below 1 (`guardAtype`) at the same entry points;
  * the per-type `masses` of the system (handed on to the result, padded like the symbols).
-/
import Atomman.Prelude
import Atomman.Box
import Atomman.Dvect

namespace Atomman.C15

/-- Python exception classes raised by the modelled code. -/
inductive Err
  | value    -- ValueError
  | assert   -- AssertionError
  | index    -- IndexError (only on inputs no real System can have; never exercised)
deriving DecidableEq, Repr

def Err.wire : Err → String
  | .value => "err:value"
  | .assert => "err:assert"
  | .index => "err:index"

/-- one atom: type, position, and the flattened value of every extra per-atom property
    (in the order of `Sys.keys`; `old_id` is kept separately as a column). -/
structure Atom (K : Type) where
  atype : Int
  pos : V3 K
  props : List (List K)
deriving Repr, BEq, DecidableEq

structure Sys (K : Type) where
  box : Box K
  pbc : Bool × Bool × Bool
  /-- `len(system.symbols)` -/
  nsym : Nat
  /-- `system.masses` (one optional value per atom type; `None` where not given) -/
  masses : List (Option K) := []
  /-- names of the extra per-atom properties (not `atype`, `pos`, `old_id`) -/
  keys : List String
  atoms : List (Atom K)
  /-- the `old_id` property: absent, or one integer per atom -/
  old : Option (List Int)
deriving Repr, BEq, DecidableEq

/-- `**kwargs` of the generators (`atype` is a named parameter of `substitutional`, a kwarg elsewhere). -/
structure Kw (K : Type) where
  atype : Option Int := none
  oldId : Option Int := none
  extra : List (String × List K) := []
deriving Repr, BEq, DecidableEq

def Kw.isEmpty {K : Type} (kw : Kw K) : Bool := kw.atype.isNone && kw.oldId.isNone && kw.extra.isEmpty

/-! ### list plumbing -/

/-- `arr[index]` with an integer index list (every index is in range in all uses). -/
def gather {α : Type} (l : List α) (idx : List Nat) : List α := idx.filterMap (l[·]?)

/-- `arr[-1] = f arr[-1]`. -/
def setLast {α : Type} : List α → (α → α) → List α
  | [], _ => []
  | [a], f => [f a]
  | a :: b :: t, f => a :: setLast (b :: t) f

/-- `arr[-2] = f arr[-2]`. -/
def setLast2 {α : Type} : List α → (α → α) → List α
  | [a, b], f => [f a, b]
  | a :: b :: c :: t, f => a :: setLast2 (b :: c :: t) f
  | l, _ => l

/-- `old_id.max()` (the column is non-empty whenever this is used). -/
def maxD (l : List Int) : Int := match l.max? with | some m => m | none => 0

/-- `ptd_id < 0 → ptd_id += natoms`, then `0 ≤ ptd_id < natoms` or refuse. -/
def normIdx (n : Nat) (i : Int) : Option Nat :=
  let j := if i < 0 then i + (n : Int) else i
  if j < 0 ∨ j ≥ (n : Int) then none else some j.toNat

section
variable {K : Type} [Add K] [Sub K] [Mul K] [Zero K] [IntCast K] [LT K] [DecidableLT K] [DecidableEq K]

def Sys.natoms (s : Sys K) : Nat := s.atoms.length

/-- squared length of `system.dvect(pos, atom.pos)`. -/
def dist2 (s : Sys K) (p : V3 K) (a : Atom K) : K :=
  V3.normSq (dvect s.box.vects s.pbc.1 s.pbc.2.1 s.pbc.2.2 p a.pos)

/-- `np.isclose(dist, 0.0, atol=atol)`: `dist == 0` or `dist <= atol` (rtol·|0| = 0). -/
def within (s : Sys K) (p : V3 K) (atol : K) (a : Atom K) : Bool :=
  let d2 := dist2 s p a
  decide (d2 = 0) || (!decide (atol < 0) && !decide (atol * atol < d2))

/-- `np.where(np.isclose(dist, 0.0, atol))[0]`. -/
def siteMatches (s : Sys K) (p : V3 K) (atol : K) : List Nat :=
  (List.range s.atoms.length).filter fun i =>
    match s.atoms[i]? with
    | some a => within s p atol a
    | none => false

/-- Cartesian position of a `pos` argument. -/
def toCart (s : Sys K) (scale : Bool) (p : V3 K) : V3 K := if scale then s.box.relToCart p else p

/-- the `pos` / `ptd_id` block shared by `vacancy`, `substitutional`, `dumbbell`. -/
def resolveSite (s : Sys K) (pos : Option (V3 K)) (ptd : Option Int) (scale : Bool) (atol : K) :
    Except Err Nat :=
  match pos, ptd with
  | some _, some _ => .error .value                      -- 'pos and ptd_id cannot both be supplied'
  | some p, none =>
    match siteMatches s (toCart s scale p) atol with
    | [i] => .ok i
    | _ => .error .value                                 -- 'Unique atom at pos not identified'
  | none, some i =>
    match normIdx s.atoms.length i with
    | some j => .ok j
    | none => .error .value                              -- 'invalid ptd_id'
  | none, none => .error .value                          -- 'Either pos or ptd_id required'

/-- the `old_id` column of `atoms[index]` after `if 'old_id' not in …: old_id = index`. -/
def oldColumn (s : Sys K) (idx : List Nat) : List Int :=
  match s.old with
  | none => idx.map Int.ofNat
  | some col => gather col idx

/-- per-property `kwargs.pop(prop, default(current))` over the extra properties. -/
def overrideProps (keys : List String) (cur : List (List K)) (kw : List (String × List K))
    (dflt : List K → List K) : List (List K) :=
  List.zipWith (fun k v => (kw.lookup k).getD (dflt v)) keys cur

/-- the default of `interstitial`: `np.zeros_like(value)`. -/
def zerosLike (v : List K) : List K := v.map fun _ => 0

def maxAtype (l : List (Atom K)) : Int := maxD (l.map (·.atype))

/-- `lst + [None] * (n - len(lst))` -/
def padNone {α : Type} (l : List (Option α)) (n : Nat) : List (Option α) := l ++ List.replicate (n - l.length) none

/-- `System(..., symbols=system.symbols, masses=system.masses)`: the symbols tuple and the masses tuple
    are padded with `None` up to `natypes`. -/
def fixSym (s : Sys K) : Sys K :=
  let n := max s.nsym (maxAtype s.atoms).toNat
  { s with nsym := n, masses := padNone s.masses n }

/-! ### the four generators, after the site has been resolved -/

def vacancyAt (s : Sys K) (i : Nat) : Except Err (Sys K) :=
  let idx := (List.range s.atoms.length).eraseIdx i
  -- an empty Atoms cannot be wrapped in a System (`natypes` takes `np.min` of an empty array)
  if idx.isEmpty then .error .value else
  .ok (fixSym { s with atoms := gather s.atoms idx, old := some (oldColumn s idx) })

def interstitialAt (s : Sys K) (p : V3 K) (kw : Kw K) : Except Err (Sys K) :=
  if s.atoms.isEmpty then .error .index else
  let idx := List.range s.atoms.length ++ [0]
  let col := oldColumn s idx
  let newOld := kw.oldId.getD (maxD col + 1)
  let atoms := setLast (gather s.atoms idx) fun a =>
    { atype := kw.atype.getD 1, pos := p,
      props := overrideProps s.keys a.props kw.extra zerosLike }
  .ok (fixSym { s with atoms := atoms, old := some (setLast col fun _ => newOld) })

def substitutionalAt (s : Sys K) (i : Nat) (kw : Kw K) : Except Err (Sys K) :=
  let t := kw.atype.getD 1
  match s.atoms[i]? with
  | none => .error .index
  | some a =>
    if a.atype = t then .error .value else               -- 'already of the specified atype'
    let idx := (List.range s.atoms.length).eraseIdx i ++ [i]
    let col := oldColumn s idx
    let atoms := setLast (gather s.atoms idx) fun a =>
      { a with atype := t, props := overrideProps s.keys a.props kw.extra id }
    .ok (fixSym { s with atoms := atoms, old := some (setLast col fun o => kw.oldId.getD o) })

/-- `db` is the Cartesian dumbbell vector. -/
def dumbbellAt (s : Sys K) (i : Nat) (db : V3 K) (kw : Kw K) : Except Err (Sys K) :=
  match s.atoms[i]? with
  | none => .error .index
  | some _ =>
    let idx := (List.range s.atoms.length).eraseIdx i ++ [i, i]
    let col := oldColumn s idx
    let newOld := kw.oldId.getD (maxD col + 1)
    let atoms1 := setLast2 (gather s.atoms idx) fun a => { a with pos := a.pos - db }
    let atoms2 := setLast atoms1 fun a =>
      { atype := kw.atype.getD a.atype, pos := a.pos + db,
        props := overrideProps s.keys a.props kw.extra id }
    .ok (fixSym { s with atoms := atoms2, old := some (setLast col fun _ => newOld) })

/-- `db_vect` of `dumbbell`: with `scale=True` it is a box-relative *vector*: `db_vect · vects`
    (no origin). -/
def dbCart (s : Sys K) (scale : Bool) (db : V3 K) : V3 K := if scale then M3.vecMul db s.box.vects else db

/-! ### the public functions -/

def vacancy (s : Sys K) (pos : Option (V3 K)) (ptd : Option Int) (scale : Bool) (atol : K) :
    Except Err (Sys K) :=
  match resolveSite s pos ptd scale atol with
  | .error e => .error e
  | .ok i => vacancyAt s i

def interstitial (s : Sys K) (pos : V3 K) (scale : Bool) (atol : K) (kw : Kw K) : Except Err (Sys K) :=
  let p := toCart s scale pos
  match siteMatches s p atol with
  | [] => interstitialAt s p kw
  | _ => .error .value                                    -- 'atom already at pos'

def substitutional (s : Sys K) (pos : Option (V3 K)) (ptd : Option Int) (scale : Bool) (atol : K)
    (kw : Kw K) : Except Err (Sys K) :=
  match resolveSite s pos ptd scale atol with
  | .error e => .error e
  | .ok i => substitutionalAt s i kw

def dumbbell (s : Sys K) (pos : Option (V3 K)) (ptd : Option Int) (db : V3 K) (scale : Bool) (atol : K)
    (kw : Kw K) : Except Err (Sys K) :=
  match resolveSite s pos ptd scale atol with
  | .error e => .error e
  | .ok i => dumbbellAt s i (dbCart s scale db) kw

/-- the dispatcher `point(system, ptd_type, pos, ptd_id, db_vect, scale, atol, **kwargs)`.
    (`'i'` without `pos` and `'db'` without `db_vect` fail inside numpy and are not modelled.) -/
def point (s : Sys K) (ptype : String) (pos : Option (V3 K)) (ptd : Option Int) (db : Option (V3 K))
    (scale : Bool) (atol : K) (kw : Kw K) : Except Err (Sys K) :=
  if ptype = "v" then
    if db.isSome then .error .assert
    else if !kw.isEmpty then .error .assert
    else vacancy s pos ptd scale atol
  else if ptype = "i" then
    if ptd.isSome then .error .assert
    else if db.isSome then .error .assert
    else match pos with
      | some p => interstitial s p scale atol kw
      | none => .error .value       -- unmodelled input (numpy-internal failure); never exercised
  else if ptype = "s" then
    if db.isSome then .error .assert
    else substitutional s pos ptd scale atol kw
  else if ptype = "db" then
    match db with
    | some d => dumbbell s pos ptd d scale atol kw
    | none => .error .value         -- unmodelled input (numpy-internal failure); never exercised
  else .error .value                -- 'Invalid ptd_type'

/-! ### the tolerance argument as the caller passes it (`atol: Optional[float] = None`) -/

/-- `if atol is None: atol = uc.set_in_units(0.01, 'angstrom')`.  ONLY `None` is replaced by the
    default `dflt`; an explicit tolerance — also `0`, a negative or a tiny one — is used as given. -/
def effAtol (dflt : K) : Option K → K
  | none => dflt
  | some a => a

/-- atom types start at 1 (`Atoms.natypes`: 'atype values < 1 not allowed'): is the type requested for
    the defect atom (the `atype` keyword; absent = default / unchanged) one a system can have? -/
def Kw.atypeOk {K : Type} (kw : Kw K) : Bool :=
  match kw.atype with
  | some t => decide (1 ≤ t)
  | none => true

/-- the last statement of `interstitial` / `substitutional` / `dumbbell`:
    `if d_system.atoms.atype[-1] < 1: raise ValueError(...)` — a request for a type below 1 is refused
    instead of handing back a system that `Atoms` itself rejects.  It comes after everything else, so
    any earlier refusal wins (all of them are `ValueError` too). -/
def guardAtype (kw : Kw K) : Except Err (Sys K) → Except Err (Sys K)
  | .error e => .error e
  | .ok s' => if kw.atypeOk then .ok s' else .error .value

def vacancyC (dflt : K) (s : Sys K) (pos : Option (V3 K)) (ptd : Option Int) (scale : Bool) (atol : Option K) :
    Except Err (Sys K) := vacancy s pos ptd scale (effAtol dflt atol)

def interstitialC (dflt : K) (s : Sys K) (pos : V3 K) (scale : Bool) (atol : Option K) (kw : Kw K) :
    Except Err (Sys K) := guardAtype kw (interstitial s pos scale (effAtol dflt atol) kw)

def substitutionalC (dflt : K) (s : Sys K) (pos : Option (V3 K)) (ptd : Option Int) (scale : Bool)
    (atol : Option K) (kw : Kw K) : Except Err (Sys K) :=
  guardAtype kw (substitutional s pos ptd scale (effAtol dflt atol) kw)

def dumbbellC (dflt : K) (s : Sys K) (pos : Option (V3 K)) (ptd : Option Int) (db : V3 K) (scale : Bool)
    (atol : Option K) (kw : Kw K) : Except Err (Sys K) :=
  guardAtype kw (dumbbell s pos ptd db scale (effAtol dflt atol) kw)

/-- the dispatcher as coded: `atol` is handed on as given (`None` stays `None`) and every generator
    applies the default itself. -/
def pointC (dflt : K) (s : Sys K) (ptype : String) (pos : Option (V3 K)) (ptd : Option Int) (db : Option (V3 K))
    (scale : Bool) (atol : Option K) (kw : Kw K) : Except Err (Sys K) :=
  if ptype = "v" then
    if db.isSome then .error .assert
    else if !kw.isEmpty then .error .assert
    else vacancyC dflt s pos ptd scale atol
  else if ptype = "i" then
    if ptd.isSome then .error .assert
    else if db.isSome then .error .assert
    else match pos with
      | some p => interstitialC dflt s p scale atol kw
      | none => .error .value
  else if ptype = "s" then
    if db.isSome then .error .assert
    else substitutionalC dflt s pos ptd scale atol kw
  else if ptype = "db" then
    match db with
    | some d => dumbbellC dflt s pos ptd d scale atol kw
    | none => .error .value
  else .error .value

/-! ### source-level primitives

  One definition per statement kind of `point.py`.  `Generated/PointSource.lean` (regenerated from the
  current source with `ast` on every check) is written in terms of these, and `Proofs/C15_Source.lean`
  proves each regenerated function equal to the hand model above (`gen_…_eq_model`). -/

/-- the literal of `uc.set_in_units(0.01, 'angstrom')` as (numerator, denominator, unit), per function. -/
def dfltLiterals : List (String × Nat × Nat × String) :=
  [("vacancy", 1, 100, "angstrom"), ("interstitial", 1, 100, "angstrom"),
   ("substitutional", 1, 100, "angstrom"), ("dumbbell", 1, 100, "angstrom")]

/-- the signatures the model's entry points (and the driver's positional call forms) assume:
    (function, [(parameter, default as written; "" = required)]), `**kwargs` as ("**kwargs", ""). -/
def signatures : List (String × List (String × String)) :=
  [("point", [("system", ""), ("ptd_type", "'v'"), ("pos", "None"), ("ptd_id", "None"), ("db_vect", "None"),
              ("scale", "False"), ("atol", "None"), ("**kwargs", "")]),
   ("vacancy", [("system", ""), ("pos", "None"), ("ptd_id", "None"), ("scale", "False"), ("atol", "None")]),
   ("interstitial", [("system", ""), ("pos", ""), ("scale", "False"), ("atol", "None"), ("**kwargs", "")]),
   ("substitutional", [("system", ""), ("pos", "None"), ("ptd_id", "None"), ("atype", "1"), ("scale", "False"),
                       ("atol", "None"), ("**kwargs", "")]),
   ("dumbbell", [("system", ""), ("pos", "None"), ("ptd_id", "None"), ("db_vect", "None"), ("scale", "False"),
                 ("atol", "None"), ("**kwargs", "")])]

/-- the exception class of every `raise` / `assert` of a function, in source order. -/
def raiseClasses : List (String × List String) :=
  [("point", ["AssertionError", "AssertionError", "AssertionError", "AssertionError", "AssertionError", "ValueError"]),
   ("vacancy", ["ValueError", "ValueError", "ValueError", "ValueError", "TypeError"]),
   ("interstitial", ["ValueError", "ValueError"]),
   ("substitutional", ["ValueError", "ValueError", "ValueError", "ValueError", "ValueError", "ValueError"]),
   ("dumbbell", ["ValueError", "ValueError", "ValueError", "ValueError", "ValueError"])]

/-- `len(kwargs)`. -/
def Kw.count {K : Type} (kw : Kw K) : Nat :=
  (if kw.atype.isSome then 1 else 0) + (if kw.oldId.isSome then 1 else 0) + kw.extra.length

/-- `system.atoms.atype[i]` (`i` already normalised). -/
def atypeAt (s : Sys K) (i : Nat) : Except Err Int :=
  match s.atoms[i]? with
  | some a => .ok a.atype
  | none => .error .index

/-- `System(box=deepcopy(system.box), pbc=deepcopy(system.pbc), atoms=deepcopy(system.atoms[index]),
    symbols=system.symbols, masses=system.masses)`: the rows `index` of every per-atom array (an
    existing `old_id` column included), same cell; an index beyond the atoms is an IndexError, an empty
    Atoms cannot be wrapped in a System. -/
def sliced (s : Sys K) (idx : List Nat) : Except Err (Sys K) :=
  if idx.any (fun i => decide (s.atoms.length ≤ i)) then .error .index
  else if idx.isEmpty then .error .value
  else .ok { s with atoms := gather s.atoms idx, old := s.old.map (gather · idx) }

/-- `'old_id' in d_system.atoms_prop()`. -/
def hasOldId (d : Sys K) : Bool := d.old.isSome

/-- `d_system.atoms.old_id = index`. -/
def setOldColumn (d : Sys K) (idx : List Nat) : Sys K := { d with old := some (idx.map Int.ofNat) }

/-- `d_system.atoms.atype[-1] = f (current)`. -/
def setLastAtype (d : Sys K) (f : Int → Int) : Sys K :=
  { d with atoms := setLast d.atoms fun a => { a with atype := f a.atype } }

/-- `d_system.atoms.pos[-1] = f (current)` (also `+=`). -/
def setLastPos (d : Sys K) (f : V3 K → V3 K) : Sys K :=
  { d with atoms := setLast d.atoms fun a => { a with pos := f a.pos } }

/-- `d_system.atoms.pos[-2] = f (current)` (`-=`). -/
def setLast2Pos (d : Sys K) (f : V3 K → V3 K) : Sys K :=
  { d with atoms := setLast2 d.atoms fun a => { a with pos := f a.pos } }

/-- `d_system.atoms.old_id[-1] = f (whole column) (current)`. -/
def setLastOld (d : Sys K) (f : List Int → Int → Int) : Sys K :=
  { d with old := d.old.map fun col => setLast col (f col) }

/-- the `else:` branch of the per-property loop run for every extra property:
    `d_system.atoms.view[prop][-1] = kwargs.pop(prop, dflt(current))`. -/
def setLastExtras (d : Sys K) (kw : Kw K) (dflt : List K → List K) : Sys K :=
  { d with atoms := setLast d.atoms fun a => { a with props := overrideProps d.keys a.props kw.extra dflt } }

/-- `d_system.atoms.atype[-1]`. -/
def lastAtype (d : Sys K) : Except Err Int :=
  match d.atoms.getLast? with
  | some a => .ok a.atype
  | none => .error .index

/-! ### an index OBJECT that is not of integer type (`ptd_id=2.0`, `1.5`, `numpy.float64(1.0)`)

  The `elif ptd_id is not None:` branch works on such an object (`ptd_id < 0`, `ptd_id += natoms`, the range test,
  all in real arithmetic); the first USE of it as an index then fails, whatever its value — also a whole number:
  `index.pop(ptd_id)` raises TypeError (`vacancy` re-raises it as its own TypeError, `dumbbell` lets it through),
  `system.atoms.atype[ptd_id]` raises IndexError (`substitutional`).  Never truncated, never accepted. -/

/-- exception class of a refusal (TypeError included). -/
inductive Refusal
  | value | assert | index | type
deriving DecidableEq, Repr

def Refusal.wire : Refusal → String
  | .value => "err:value"
  | .assert => "err:assert"
  | .index => "err:index"
  | .type => "err:type"

/-- the `elif` branch on a real-valued index `q`, then `after` at its first use as an index. -/
def floatIndex (n : Nat) (q : K) (after : Refusal) : Refusal :=
  let q' := if q < 0 then q + ((n : Int) : K) else q
  if q' < 0 then .value                                   -- 'invalid ptd_id'
  else if q' < ((n : Int) : K) then after
  else .value                                             -- 'invalid ptd_id'

def vacancyF (s : Sys K) (pos : Option (V3 K)) (q : K) : Refusal :=
  match pos with
  | some _ => .value                                      -- 'pos and ptd_id cannot both be supplied'
  | none => floatIndex s.atoms.length q .type             -- `index.pop(ptd_id)` → TypeError('ptd_id must be an integer type')

def substitutionalF (s : Sys K) (pos : Option (V3 K)) (q : K) : Refusal :=
  match pos with
  | some _ => .value
  | none => floatIndex s.atoms.length q .index            -- `system.atoms.atype[ptd_id]` → IndexError

def dumbbellF (s : Sys K) (pos : Option (V3 K)) (q : K) : Refusal :=
  match pos with
  | some _ => .value
  | none => floatIndex s.atoms.length q .type             -- `index.pop(ptd_id)` → TypeError

/-- through the dispatcher (its assertions come first). -/
def pointF (s : Sys K) (ptype : String) (pos : Option (V3 K)) (q : K) (hasDb : Bool) (kwEmpty : Bool) : Refusal :=
  if ptype = "v" then
    if hasDb then .assert else if !kwEmpty then .assert else vacancyF s pos q
  else if ptype = "i" then .assert                        -- 'ptd_id not allowed with ptd_type=='i''
  else if ptype = "s" then
    if hasDb then .assert else substitutionalF s pos q
  else if ptype = "db" then
    if hasDb then dumbbellF s pos q else .value           -- (no db_vect: numpy-internal failure, not modelled)
  else .value

/-! ### histories: sequences of insertions with the provenance of every atom -/

inductive Op (K : Type)
  | vac (pos : Option (V3 K)) (ptd : Option Int) (scale : Bool) (atol : K)
  | int (pos : V3 K) (scale : Bool) (atol : K) (kw : Kw K)
  | sub (pos : Option (V3 K)) (ptd : Option Int) (scale : Bool) (atol : K) (kw : Kw K)
  | db (pos : Option (V3 K)) (ptd : Option Int) (dbv : V3 K) (scale : Bool) (atol : K) (kw : Kw K)

def Op.apply (s : Sys K) : Op K → Except Err (Sys K)
  | .vac pos ptd scale atol => vacancy s pos ptd scale atol
  | .int pos scale atol kw => interstitial s pos scale atol kw
  | .sub pos ptd scale atol kw => substitutional s pos ptd scale atol kw
  | .db pos ptd dbv scale atol kw => dumbbell s pos ptd dbv scale atol kw

/-- Specification-side provenance (NOT computed from `old_id`): for every atom of the result, the
    index of the input atom it *is* (`none` for a created atom, and for a substituted atom whose
    `old_id` the caller overrode).  Survivors keep their relative order by construction of the lists. -/
def Op.prov (s : Sys K) : Op K → List (Option Nat)
  | .vac pos ptd scale atol =>
    match resolveSite s pos ptd scale atol with
    | .ok i => ((List.range s.atoms.length).eraseIdx i).map some
    | .error _ => []
  | .int _ _ _ _ => (List.range s.atoms.length).map some ++ [none]
  | .sub pos ptd scale atol kw =>
    match resolveSite s pos ptd scale atol with
    | .ok i => ((List.range s.atoms.length).eraseIdx i).map some ++ [if kw.oldId.isSome then none else some i]
    | .error _ => []
  | .db pos ptd _ scale atol _ =>
    match resolveSite s pos ptd scale atol with
    | .ok i => ((List.range s.atoms.length).eraseIdx i).map some ++ [some i, none]
    | .error _ => []

/-- compose provenance maps: `pv` maps atoms of the current system to the first system. -/
def composeProv (pv : List (Option Nat)) (step : List (Option Nat)) : List (Option Nat) :=
  step.map fun o => o.bind fun k => (pv[k]?).join

/-- a history of insertions; a refused insertion leaves the system as it was. -/
def run (s : Sys K) (pv : List (Option Nat)) : List (Op K) → Sys K × List (Option Nat)
  | [] => (s, pv)
  | op :: rest =>
    match op.apply s with
    | .error _ => run s pv rest
    | .ok s' => run s' (composeProv pv (op.prov s)) rest

/-- the identity provenance of the first system. -/
def idProv (s : Sys K) : List (Option Nat) := (List.range s.atoms.length).map some

/-- the old index recorded for atom `j`: the `old_id` entry, or `j` itself while the property does
    not exist yet. -/
def oldAt (s : Sys K) (j : Nat) : Option Int :=
  match s.old with
  | none => if j < s.atoms.length then some (j : Int) else none
  | some col => col[j]?

/-- a system whose `old_id` column, if present, has one entry per atom. -/
def WF (s : Sys K) : Prop :=
  match s.old with
  | none => True
  | some col => col.length = s.atoms.length

end
end Atomman.C15
