/-
  Shared model of `atomman.Box` geometry (core Lean only): cell vectors as rows, origin,
  coordinate maps, reciprocal vectors, LAMMPS-normal test.  Used by C01, C02, C03, C04, C05 …
  Source: atomman/core/Box.py.
-/
import Atomman.Prelude

namespace Atomman

@[ext] structure Box (K : Type) where
  vects : M3 K
  origin : V3 K
deriving Repr, BEq, DecidableEq

namespace Box
variable {K : Type}

/-- `position_relative_to_cartesian`: `relpos.dot(vects) + origin`. -/
@[inline] def relToCart [Add K] [Mul K] (b : Box K) (s : V3 K) : V3 K :=
  M3.vecMul s b.vects + b.origin

/-- `reciprocal_vects = inv(vects).T`. -/
@[inline] def recip [Add K] [Sub K] [Mul K] [Div K] (b : Box K) : M3 K := (M3.inv b.vects).transpose

/-- `position_cartesian_to_relative`: `np.inner(pos - origin, reciprocal_vects)`,
    i.e. component `i` is `(pos - origin) · recip[i]`. -/
@[inline] def cartToRel [Add K] [Sub K] [Mul K] [Div K] (b : Box K) (p : V3 K) : V3 K :=
  M3.mulVec b.recip (p - b.origin)

/-- `volume` before the absolute value: `a · (b × c)`. -/
@[inline] def signedVolume [Add K] [Sub K] [Mul K] (b : Box K) : K := M3.det b.vects

/-- `is_lammps_norm`. -/
def isLammpsNorm [Zero K] [LT K] [DecidableEq K] [DecidableLT K] (b : Box K) : Bool :=
  b.vects.r0.y = 0 && b.vects.r0.z = 0 && b.vects.r1.z = 0 &&
  decide (0 < b.vects.r0.x) && decide (0 < b.vects.r1.y) && decide (0 < b.vects.r2.z)

/-- `set_lengths` (the assertion `lx, ly, lz > 0` is the `none` branch). -/
def ofLengths? [Zero K] [LT K] [DecidableLT K] (lx ly lz xy xz yz : K) (origin : V3 K) : Option (Box K) :=
  if 0 < lx ∧ 0 < ly ∧ 0 < lz then
    some ⟨⟨⟨lx, 0, 0⟩, ⟨xy, ly, 0⟩, ⟨xz, yz, lz⟩⟩, origin⟩
  else none

/-- `set_hi_los`. -/
def ofHiLos? [Zero K] [Sub K] [LT K] [DecidableLT K] (xlo xhi ylo yhi zlo zhi xy xz yz : K) : Option (Box K) :=
  ofLengths? (xhi - xlo) (yhi - ylo) (zhi - zlo) xy xz yz ⟨xlo, ylo, zlo⟩

end Box
end Atomman
