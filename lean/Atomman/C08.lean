/-
  C08 — the LOADERS of atomman as coded (core Lean only): `load('atom_data')`, `load('atom_dump')`,
  `load('table')`, `load('poscar')`.

  Sources: atomman/load/atom_data/load.py (first pass with term-pattern matching, comment stripping, section
  offsets, atom_style comment, Masses; `read_atoms` with the image-flag columns re-applied as lattice shifts;
  `read_velocities`), atomman/load/atom_dump/load.py (header state machine, bounding-box inversion, pbc from the
  pp/ff flags, `matchprops`, `process_prop_info`), atomman/load/table/load.py (whitespace split, sort by id,
  reshape columns to the property shape, unit / scaled conversion), atomman/load/poscar/load.py (scale, optional
  symbols line, Cartesian / Direct), `System.__init__` (symbols / masses padding, natypes).

  The text layer (`Tok`, `Line`, `splitLines`, `lexLine`, `stripComment`, number tokens), the writers and the
  independent parsers are those of `Atomman.C07`; nothing of them is repeated here.  The column tables of the
  LOADER (`atomman/load/atom_data/{atoms,velocities}_prop_info.py`, `atomman/load/atom_dump/process_prop_info.py`
  — separate files from the writer's) are regenerated into `Atomman/Generated/LoadStyles.lean` on every run.

  pandas `read_csv(sep=r'\s+', skiprows=k, nrows=n, comment=c, header=None)` is the assumption `selectRows`:
  drop `k` physical lines, cut every remaining line at the comment character, split on whitespace, skip the lines
  that have no token left, keep the first `n`.
-/
import Atomman.C07
import Atomman.Generated.LoadStyles

namespace Atomman.C08
open Atomman Atomman.C07

abbrev RawLine := List Char

/-! ### lines and terms -/

/-- Python: `line[:line.index('#')].split()` (the line itself when it has no `#`). -/
def termsC (l : RawLine) : Line := lexLine (stripComment l)

/-- Python: `line.split()`. -/
def termsN (l : RawLine) : Line := lexLine l

def termsOf (comment : Bool) (l : RawLine) : Line := if comment then termsC l else termsN l

/-- the token rows pandas reads: see the header of this file. -/
def rowsOf (comment : Bool) (lines : List RawLine) : List Line :=
  (lines.map (termsOf comment)).filter (fun t => !t.isEmpty)

def selectRows (comment : Bool) (lines : List RawLine) (skip : Nat) (nrows : Option Nat) : List Line :=
  match nrows with
  | some n => (rowsOf comment (lines.drop skip)).take n
  | none => rowsOf comment (lines.drop skip)

/-- Python `s.strip()`. -/
def pyStrip (s : List Char) : List Char :=
  ((s.dropWhile isSpace).reverse.dropWhile isSpace).reverse

/-! ### loaded systems -/

/-- a per-atom property after loading: `vals[k]` is the row-major flattening of the value of atom `k`. -/
structure LProp where
  name : String
  shape : List Nat
  isInt : Bool
  vals : List (List Rat)
  /-- numpy dtype `bool` (every cell a `True` / `False` token, nothing converted); values are kept as `1` / `0` -/
  isBool : Bool := false
deriving Repr, DecidableEq

/-- what `load` returns (the part the property speaks about). `props` starts with `atype` and `pos`. -/
structure Loaded where
  box : Box Rat
  pbc : V3 Bool
  natoms : Nat
  props : List LProp
  symbols : List (Option String)
  masses : List (Option Rat)
deriving Repr, DecidableEq

def LProp.defaultAtype (n : Nat) : LProp := { name := "atype", shape := [], isInt := true, vals := List.replicate n [1] }
def LProp.defaultPos (n : Nat) : LProp := { name := "pos", shape := [3], isInt := false, vals := List.replicate n [0, 0, 0] }

/-- `System(atoms=Atoms(natoms=n), box=box, pbc=pbc, symbols=symbols, masses=masses)` before any table is read. -/
def Loaded.init (box : Box Rat) (pbc : V3 Bool) (n : Nat) (symbols : List (Option String)) (masses : List (Option Rat)) :
    Loaded :=
  { box := box, pbc := pbc, natoms := n, props := [LProp.defaultAtype n, LProp.defaultPos n], symbols := symbols,
    masses := masses }

def Loaded.prop? (s : Loaded) (name : String) : Option LProp := s.props.find? (·.name = name)

/-- `atoms.view[name] = value`: replaces the property of that name, or appends a new one. -/
def setProp (p : LProp) : List LProp → List LProp
  | [] => [p]
  | q :: qs => if q.name = p.name then p :: qs else q :: setProp p qs

def maxInt (l : List Int) : Int := l.foldl (fun a b => if a < b then b else a) 0

/-- `Atoms.natypes`: the largest atype. -/
def Loaded.atomsNatypes (s : Loaded) : Nat :=
  match s.prop? "atype" with
  | some p => (maxInt (p.vals.map fun v => (v.headD 0).floor)).toNat
  | none => 0

def padTo {α : Type} (n : Nat) (l : List (Option α)) : List (Option α) := l ++ List.replicate (n - l.length) none

/-- `System.natypes`: more symbols than atom types count as types. -/
def Loaded.natypes (s : Loaded) : Nat := if s.atomsNatypes < s.symbols.length then s.symbols.length else s.atomsNatypes

/-- `System.symbols` / `System.masses` as read back: padded with `None` up to the number of types. -/
def Loaded.symbolsOut (s : Loaded) : List (Option String) := padTo s.atomsNatypes s.symbols
def Loaded.massesOut (s : Loaded) : List (Option Rat) := padTo s.natypes s.masses

/-! ### table columns -/

/-- unit of a table column when read: nothing, box-relative, or a factor (value in working units of one file unit). -/
inductive LUnit where
  | none
  | scaled
  | factor (f : Rat)
deriving Repr, DecidableEq

/-- one entry of a filled-in `prop_info`. -/
structure PCol where
  prop : String
  names : List String
  shape : List Nat
  unit : LUnit
deriving Repr, DecidableEq

def shapeProd (shape : List Nat) : Nat := shape.foldr (· * ·) 1

def colsWidth (cols : List PCol) : Nat := (cols.map (·.names.length)).foldr (· + ·) 0

/-- `process_prop_info` default: the shape is `()` for one table name and `(n,)` for `n` names. -/
def defaultShape (names : List String) : List Nat := if names.length = 1 then [] else [names.length]

/-- a unit kind of `style.unit(units)` as a load unit: a `None` entry (lj) means no conversion at all. -/
def resolveUnit (u : Units) : UnitSpec → Res LUnit
  | .none => pure .none
  | .scaled => pure .scaled
  | .kind k =>
    match u.factor? k with
    | some (some f) => pure (.factor f)
    | some none => pure .none
    | none => throw "value"

def resolveCol (u : Units) (c : ColSpec) : Res PCol := do
  let un ← resolveUnit u c.unit
  pure { prop := c.prop, names := c.names, shape := defaultShape c.names, unit := un }

/-! ### table values -/

/-- a cell as pandas types it: an integer token, a float token or a boolean token. -/
inductive Val where
  | int (i : Int)
  | num (q : Rat)
  | bool (b : Bool)
deriving Repr, DecidableEq

def Val.toRat : Val → Rat
  | .int i => (i : Rat)
  | .num q => q
  | .bool b => if b then 1 else 0

def Val.isInt : Val → Bool
  | .int _ => true
  | _ => false

def Val.isBool : Val → Bool
  | .bool _ => true
  | _ => false

/-- the tokens pandas' C parser takes as booleans (a column made of them only has dtype `bool`). -/
def parseBoolTok? (t : Tok) : Option Bool :=
  if t = cs!"True" ∨ t = cs!"true" ∨ t = cs!"TRUE" then some true
  else if t = cs!"False" ∨ t = cs!"false" ∨ t = cs!"FALSE" then some false
  else none

def parseVal? (t : Tok) : Option Val :=
  match parseInt? t with
  | some i => some (.int i)
  | none =>
    match parseNum? t with
    | some q => some (.num q)
    | none => (parseBoolTok? t).map .bool

def parseVal (t : Tok) : Res Val :=
  match parseVal? t with
  | some v => pure v
  | none => throw "value"

/-- the numeric table: every row as long as the first one; with `usecols=range(width)` at least `width` columns,
    otherwise exactly `width`; every used token numeric.  (`ParserError`, `EmptyDataError` and the conversion
    errors of non-numeric cells are all `ValueError`s.) -/
def readTable (rows : List Line) (width : Nat) (usecols : Bool) : Res (List (List Val)) :=
  match rows with
  | [] => throw "value"
  | r0 :: _ =>
    if !(rows.all fun r => r.length = r0.length) then throw "value"
    else if usecols ∧ r0.length < width then throw "value"
    else if !usecols ∧ r0.length ≠ width then throw "value"
    else rows.mapM fun r => (r.take width).mapM parseVal

/-! ### sort by id (`df.sort_values('id')`) -/

def insertBy {α : Type} (key : α → Rat) (x : α) : List α → List α
  | [] => [x]
  | y :: ys => if key x ≤ key y then x :: y :: ys else y :: insertBy key x ys

/-- stable insertion sort by a rational key. -/
def sortBy {α : Type} (key : α → Rat) : List α → List α
  | [] => []
  | x :: xs => insertBy key x (sortBy key xs)

/-- position of the column called `id` among all table names. -/
def idIndex (cols : List PCol) : Option Nat :=
  let names := (cols.map (·.names)).flatten
  let i := names.findIdx (· = "id")
  if i < names.length then some i else none

def rowKey (i : Nat) (r : List Val) : Rat :=
  match r[i]? with
  | some v => v.toRat
  | none => 0

def sortRows (cols : List PCol) (tbl : List (List Val)) : List (List Val) :=
  match idIndex cols with
  | some i => sortBy (rowKey i) tbl
  | none => tbl

/-! ### columns → properties -/

/-- the cells of the consecutive column groups of one row. -/
def splitCols : List PCol → List Val → List (List Val)
  | [], _ => []
  | c :: cs, r => r.take c.names.length :: splitCols cs (r.drop c.names.length)

/-- `box.position_relative_to_cartesian` of an array whose last dimension is 3: every consecutive triple of the
    (row-major) cells is one relative position. -/
def scaledCells (box : Box Rat) : List Rat → Res (List Rat)
  | [] => pure []
  | a :: b :: c :: rest => do
    let p := box.relToCart ⟨a, b, c⟩
    let r ← scaledCells box rest
    pure (p.x :: p.y :: p.z :: r)
  | _ => throw "value"

/-- unit / scaled conversion of one atom's cells of one property (`uc.set_in_units`,
    `box.position_relative_to_cartesian`). -/
def convertCells (box : Box Rat) (un : LUnit) (cells : List Val) : Res (List Rat) :=
  match un with
  | .none => pure (cells.map Val.toRat)
  | .factor f => pure (cells.map fun v => v.toRat * f)
  | .scaled => scaledCells box (cells.map Val.toRat)

/-- some cells are boolean tokens and some are not. -/
def mixedBool (cells : List (List Val)) : Bool := cells.any (·.any Val.isBool) && !cells.all (·.all Val.isBool)

/-- the value array of one property: `df[names].values.reshape((natoms,) + shape)` then conversion.  The shape
    of the loaded property is the shape of the `prop_info` entry, whatever it is (`()` and `(1,)` and `(1,1)` are
    three different shapes over one column).  `scaled` needs a last dimension of 3.  The dtype stays integer
    (boolean) exactly when every cell is an integer (boolean) token and nothing was converted; a property whose
    cells mix boolean with numeric tokens would be a numpy object array: not modelled (refused). -/
def propOfColumn (box : Box Rat) (c : PCol) (cells : List (List Val)) : Res LProp :=
  if shapeProd c.shape ≠ c.names.length then throw "value"
  else if c.unit = .scaled ∧ c.shape.getLast? ≠ some 3 then throw "value"
  else if mixedBool cells then throw "value"
  else do
    let vals ← cells.mapM (convertCells box c.unit)
    pure { name := c.prop, shape := c.shape, isInt := c.unit = .none && cells.all (·.all Val.isInt), vals := vals,
           isBool := c.unit = .none && cells.all (·.all Val.isBool) && cells.any (·.any Val.isBool) }

/-- first-dimension rule of `Atoms.view[name] = value`: `natoms` rows, or one row that is broadcast. -/
def fitRows (n : Nat) (vals : List (List Rat)) : Res (List (List Rat)) :=
  if vals.length = n then pure vals
  else match vals with
    | [v] => pure (List.replicate n v)
    | _ => throw "value"

/-- `system.atoms.view[name] = value`. `atype` must be integers `≥ 1` without shape, `pos` 3-vectors. -/
def assignProp (s : Loaded) (p : LProp) : Res Loaded := do
  let vals ← fitRows s.natoms p.vals
  if p.name = "atype" ∧ !(p.isInt ∧ p.shape = [] ∧ vals.all fun v => decide (1 ≤ v.headD 0)) then throw "value"
  else if p.name = "pos" ∧ p.shape ≠ [3] then throw "value"
  else
    pure { s with props := setProp { p with vals := vals, isInt := if p.name = "pos" then false else p.isInt,
                                            isBool := if p.name = "pos" then false else p.isBool } s.props }

def assignCols (box : Box Rat) : List PCol → List (List (List Val)) → Loaded → Res Loaded
  | c :: cs, cells :: rest, s => do
    if c.prop = "a_id" then assignCols box cs rest s
    else do
      let p ← propOfColumn box c cells
      let s' ← assignProp s p
      assignCols box cs rest s'
  | _, _, s => pure s

/-- transpose: per column group, the cells of every row. -/
def columnCells (cols : List PCol) (tbl : List (List Val)) : List (List (List Val)) :=
  (List.range cols.length).map fun j => tbl.map fun r => ((splitCols cols r)[j]?).getD []

/-- the body of `atomman.load.table.load` once pandas delivered the token rows: the unit conversion of
    scaled columns uses the box of the system being filled. -/
def tableLoad (s : Loaded) (rows : List Line) (cols : List PCol) (usecols : Bool) : Res Loaded := do
  let tbl ← readTable rows (colsWidth cols) usecols
  let sorted := sortRows cols tbl
  assignCols s.box cols (columnCells cols sorted) s

/-! ### generic table (atomman/load/table/load.py) -/

/-- `load('table', text, box=box, prop_info=cols, header=0 | None)` for a new system. -/
def loadTable (text : List Char) (box : Box Rat) (cols : List PCol) (header : Bool) : Res Loaded := do
  let rows0 := selectRows false (splitLines text) 0 none
  let rows := if header then rows0.drop 1 else rows0
  let s0 := Loaded.init box ⟨true, true, true⟩ rows.length [] []
  tableLoad s0 rows cols false

/-! ### LAMMPS data file (atomman/load/atom_data/load.py) -/

/-- the variables of `firstpass`. -/
structure FP where
  natoms : Option Int := none
  natypes : Option Int := none
  x : Option (Rat × Rat) := none
  y : Option (Rat × Rat) := none
  z : Option (Rat × Rat) := none
  xy : Rat := 0
  xz : Rat := 0
  yz : Rat := 0
  atomsStart : Option Nat := none
  /-- the atom_style comment of the `Atoms` line (`none`: the line had no `#`) -/
  hint : Option (List Char) := none
  firstAtoms : Bool := false
  atomsColumns : Nat := 0
  masses : Option (List (Option Rat)) := none
  massesToRead : Nat := 0
  velStart : Option Nat := none
deriving Repr, DecidableEq

/-- which branch of the `if / elif` chain the terms of a line select by themselves. -/
inductive LineKind where
  | natoms (n : Tok)
  | natypes (n : Tok)
  | xb (lo hi : Tok)
  | yb (lo hi : Tok)
  | zb (lo hi : Tok)
  | tilt (xy xz yz : Tok)
  | atoms
  | masses
  | velocities
  | other
deriving Repr, DecidableEq

def classify (terms : Line) : LineKind :=
  match terms with
  | [a] =>
    if a = cs!"Atoms" then .atoms else if a = cs!"Masses" then .masses
    else if a = cs!"Velocities" then .velocities else .other
  | [a, b] => if b = cs!"atoms" then .natoms a else .other
  | [a, b, c] => if b = cs!"atom" ∧ c = cs!"types" then .natypes a else .other
  | [a, b, c, d] =>
    if c = cs!"xlo" ∧ d = cs!"xhi" then .xb a b
    else if c = cs!"ylo" ∧ d = cs!"yhi" then .yb a b
    else if c = cs!"zlo" ∧ d = cs!"zhi" then .zb a b
    else .other
  | [a, b, c, d, e, f] => if d = cs!"xy" ∧ e = cs!"xz" ∧ f = cs!"yz" then .tilt a b c else .other
  | _ => .other

def pyInt (t : Tok) : Res Int :=
  match parseInt? t with
  | some i => pure i
  | none => throw "value"

def pyFloat (t : Tok) : Res Rat :=
  match parseNum? t with
  | some q => pure q
  | none => throw "value"

/-- `uc.set_in_units(x, unit)` with `unit = None` for lj. -/
def mulBy (f : Option Rat) (q : Rat) : Rat := match f with | some f => q * f | none => q

def setNth {α : Type} : List α → Nat → α → List α
  | [], _, _ => []
  | _ :: xs, 0, a => a :: xs
  | x :: xs, n + 1, a => x :: setNth xs n a

/-- `read_mass(terms, masses)`. -/
def readMass (terms : Line) (masses : List (Option Rat)) : Res (List (Option Rat)) :=
  match terms with
  | [a, b] =>
    match parseInt? a, parseNum? b with
    | some t, some m =>
      if 0 < t ∧ t ≤ (masses.length : Int) ∧ 0 < m then
        match masses[(t - 1).toNat]? with
        | some none => pure (setNth masses (t - 1).toNat (some m))
        | _ => throw "format"
      else throw "format"
    | _, _ => throw "format"
  | _ => throw "format"

/-- does the line contain `#`? -/
def hasHash (l : RawLine) : Bool := l.any (· = '#')

/-- the atom_style comment of a line: the stripped text after the first `#`, if there is one. -/
def hintOf (full : RawLine) : Option (List Char) := if hasHash full then some (pyStrip (commentOf full)) else none

/-- one iteration of the loop of `firstpass` on line number `i`, given the terms of the line and its comment. -/
def fpStepT (lf : Option Rat) (i : Nat) (terms : Line) (hint : Option (List Char)) (s : FP) : Res FP :=
  if terms.isEmpty then pure s else
  match classify terms with
  | .natoms n => do let v ← pyInt n; pure { s with natoms := some v }
  | .natypes n => do let v ← pyInt n; pure { s with natypes := some v }
  | .xb a b => do let a ← pyFloat a; let b ← pyFloat b; pure { s with x := some (mulBy lf a, mulBy lf b) }
  | .yb a b => do let a ← pyFloat a; let b ← pyFloat b; pure { s with y := some (mulBy lf a, mulBy lf b) }
  | .zb a b => do let a ← pyFloat a; let b ← pyFloat b; pure { s with z := some (mulBy lf a, mulBy lf b) }
  | .tilt a b c => do
    let a ← pyFloat a; let b ← pyFloat b; let c ← pyFloat c
    pure { s with xy := mulBy lf a, xz := mulBy lf b, yz := mulBy lf c }
  | .atoms =>
    pure { s with atomsStart := some (i + 1), firstAtoms := true, hint := hint }
  | k =>
    if s.firstAtoms then pure { s with atomsColumns := terms.length, firstAtoms := false }
    else if k = .masses then
      match s.natypes with
      | none => throw "format"
      | some nt => pure { s with masses := some (List.replicate nt.toNat none), massesToRead := nt.toNat }
    else if 0 < s.massesToRead then
      match s.masses with
      | some m => do let m' ← readMass terms m; pure { s with masses := some m', massesToRead := s.massesToRead - 1 }
      | none => throw "format"
    else if k = .velocities then pure { s with velStart := some (i + 1) }
    else pure s

def fpStep (lf : Option Rat) (i : Nat) (full : RawLine) (s : FP) : Res FP :=
  fpStepT lf i (termsC full) (hintOf full) s

/-- `for i, fullline in enumerate(fp)`. -/
def fpLoop (lf : Option Rat) : Nat → List RawLine → FP → Res FP
  | _, [], s => pure s
  | i, l :: ls, s => do let s' ← fpStep lf i l s; fpLoop lf (i + 1) ls s'

/-- what `firstpass` hands on (besides the two table offsets, which stay in `FP`). -/
structure FirstPass where
  natoms : Nat
  hilo : HiLo
  box : Box Rat
  atomsColumns : Nat
  hint : Option (List Char)
  masses : List (Option Rat)
deriving Repr

/-- the checks of `firstpass` after its loop, in the order of the code; `short` = the file has at most one line
    (`i == 0` after the loop: taken for a file name that does not exist). -/
def fpFinish (s : FP) (short : Bool) : Res FirstPass := do
  if short then throw "notfound"
  let natoms ← match s.natoms with | some n => pure n | none => throw "format"
  let x ← match s.x with | some v => pure v | none => throw "format"
  let y ← match s.y with | some v => pure v | none => throw "format"
  let z ← match s.z with | some v => pure v | none => throw "format"
  if s.atomsStart.isNone then throw "format"
  let box ← match Box.ofHiLos? x.1 x.2 y.1 y.2 z.1 z.2 s.xy s.xz s.yz with
    | some b => pure b
    | none => throw "assert"
  if natoms < 0 then throw "value"
  pure { natoms := natoms.toNat, hilo := ⟨x.1, x.2, y.1, y.2, z.1, z.2, s.xy, s.xz, s.yz⟩, box := box,
         atomsColumns := s.atomsColumns, hint := s.hint, masses := s.masses.getD [] }

/-- `System.__init__`: without `symbols` one `None` symbol per given mass. -/
def initSymbols (symbols : Option (List (Option String))) (masses : List (Option Rat)) : List (Option String) :=
  match symbols with
  | some l => l
  | none => masses.map fun _ => none

/-- `atoms_prop_info(atom_style, units)`: a plain style is compared as a whole string; `hybrid …` is split on any
    white space (`atom_style[:6] == 'hybrid'`, `atom_style.split()[1:]`). -/
def loadStyleCols (tbl : List (String × List Gen.AtomStyles.Col)) (style : String) : Option (List ColSpec) :=
  if style.toList.take 6 = cs!"hybrid" then hybridCols tbl (((lexLine style.toList).drop 1).map String.ofList)
  else lookupStyle tbl style

def lookupCols (tbl : List (String × List Gen.AtomStyles.Col)) (style : String) (u : Units) : Res (List PCol) :=
  match loadStyleCols tbl style with
  | some cs => cs.mapM (resolveCol u)
  | none => throw "value"

/-- the integer cells of the id column and of the three flag columns, `dtype='int64'`. -/
def readFlagRow (ncols : Nat) (r : Line) : Res (Rat × V3 Int) :=
  match r.head?, (r.drop ncols).take 3 with
  | some idt, [a, b, c] => do
    let id ← pyInt idt; let a ← pyInt a; let b ← pyInt b; let c ← pyInt c
    pure ((id : Rat), ⟨a, b, c⟩)
  | _, _ => throw "value"

def shiftOf (box : Box Rat) (f : V3 Int) : V3 Rat := M3.vecMul ⟨(f.x : Rat), (f.y : Rat), (f.z : Rat)⟩ box.vects

def addShift (v : List Rat) (d : V3 Rat) : List Rat :=
  match v with
  | [a, b, c] => [a + d.x, b + d.y, c + d.z]
  | _ => v

/-- `system.atoms.pos[:] += imageflags.dot(box.vects)` with the flags ordered by atom id. -/
def applyFlags (s : Loaded) (rows : List Line) (ncols : Nat) : Res Loaded := do
  if rows.isEmpty then throw "value"
  if !(rows.all fun r => r.length = (rows.headD []).length) then throw "value"
  let fl ← rows.mapM (readFlagRow ncols)
  let sorted := sortBy (·.1) fl
  let shifts := sorted.map fun e => shiftOf s.box e.2
  let pos ← match s.prop? "pos" with | some p => pure p | none => throw "value"
  let shifts' ← if shifts.length = s.natoms then pure shifts
    else match shifts with
      | [d] => pure (List.replicate s.natoms d)
      | _ => throw "value"
  pure { s with props := setProp { pos with vals := List.zipWith addShift pos.vals shifts' } s.props }

/-- the atom_style used: the argument, the comment of the `Atoms` line, or `atomic`; both given and
    different is a `ValueError`. -/
def chooseStyle (arg : Option String) (hint : Option (List Char)) : Res String :=
  match arg, hint with
  | none, none => pure "atomic"
  | none, some h => pure (String.ofList h)
  | some a, none => pure a
  | some a, some h => if a = String.ofList h then pure a else throw "value"

/-- `read_atoms` on the rows pandas selected after the `Atoms` line. -/
def readAtoms (rows : List Line) (atomsColumns : Nat) (s : Loaded) (style : String) (u : Units) : Res Loaded := do
  let cols ← lookupCols Gen.LoadStyles.atomStyles style u
  let ncols := colsWidth cols
  let s1 ← tableLoad s rows cols true
  if atomsColumns = ncols + 3 then applyFlags s1 rows ncols
  else if ncols ≠ atomsColumns then throw "format"
  else pure s1

/-- `read_velocities` on the rows pandas selected after the `Velocities` line (if there is one). -/
def readVelocities (rows : Option (List Line)) (s : Loaded) (style : String) (u : Units) : Res Loaded :=
  match rows with
  | none => pure s
  | some rows => do
    let cols ← lookupCols Gen.LoadStyles.velStyles style u
    tableLoad s rows cols false

/-- everything after the first pass, given all the rows pandas can see after the `Atoms` line and after the
    `Velocities` line (`nrows=natoms` keeps the first `natoms` of them). -/
def loadDataCore (fp : FirstPass) (rowsA : List Line) (rowsV : Option (List Line)) (pbc : V3 Bool)
    (symbols : Option (List (Option String))) (styleArg : Option String) (u : Units) : Res Loaded := do
  let s0 := Loaded.init fp.box pbc fp.natoms (initSymbols symbols fp.masses) fp.masses
  if max s0.symbols.length s0.atomsNatypes < s0.masses.length then throw "value"
  let style ← chooseStyle styleArg fp.hint
  let s1 ← readAtoms (rowsA.take fp.natoms) fp.atomsColumns s0 style u
  readVelocities (rowsV.map (·.take fp.natoms)) s1 style u

/-- `load('atom_data', data, pbc, symbols, atom_style, units)` on the physical lines of the file: the tables are
    read by pandas after skipping `atomsstart` / `velocitiesstart` physical lines. -/
def loadDataLines (lines : List RawLine) (pbc : V3 Bool) (symbols : Option (List (Option String)))
    (styleArg : Option String) (u : Units) : Res Loaded := do
  let lf ← lengthFactor u
  let s ← fpLoop lf 0 lines {}
  let fp ← fpFinish s (decide (lines.length ≤ 1))
  -- `atomsStart` is set here: `fpFinish` raised the format error otherwise
  loadDataCore fp (rowsOf true (lines.drop (s.atomsStart.getD 0))) (s.velStart.map fun vs => rowsOf true (lines.drop vs))
    pbc symbols styleArg u

def loadData (text : List Char) (pbc : V3 Bool) (symbols : Option (List (Option String)))
    (styleArg : Option String) (u : Units) : Res Loaded :=
  loadDataLines (splitLines text) pbc symbols styleArg u

/-! ### LAMMPS dump file (atomman/load/atom_dump/load.py) -/

/-- the variables of the header loop, except the offset of the atom table. `xlo … zhi` are unbound until the box
    lines were read. -/
structure DSC where
  pbc : Option (V3 Bool) := none
  natoms : Option Int := none
  xlo : Option Rat := none
  xhi : Option Rat := none
  ylo : Option Rat := none
  yhi : Option Rat := none
  zlo : Option Rat := none
  zhi : Option Rat := none
  xy : Rat := 0
  xz : Rat := 0
  yz : Rat := 0
  readNatoms : Bool := false
  readTimestep : Bool := false
  bcount : Nat := 3
  names : Option (List Tok) := none
deriving Repr, DecidableEq

/-- all variables of the header loop: `atomsStart` is the `skiprows` value handed to pandas. -/
structure DS where
  c : DSC := {}
  atomsStart : Option Nat := none
deriving Repr, DecidableEq

def minR (a b : Rat) : Rat := if b < a then b else a
def maxR (a b : Rat) : Rat := if a < b then b else a

/-- `terms[k]` with Python's negative indices. -/
def pyIndex {α : Type} (l : List α) (k : Int) : Option α :=
  if 0 ≤ k then l[k.toNat]? else if 0 ≤ k + l.length then l[(k + l.length).toNat]? else none

def term (terms : Line) (k : Nat) : Res Tok :=
  match terms[k]? with
  | some t => pure t
  | none => throw "value"

/-- the two bounds of a box line and its optional tilt term. -/
def boundsLine (lf : Option Rat) (terms : Line) : Res (Rat × Rat × Option Rat) := do
  let a ← pyFloat (← term terms 0)
  let b ← pyFloat (← term terms 1)
  if terms.length = 3 then
    let c ← pyFloat (← term terms 2)
    pure (mulBy lf a, mulBy lf b, some (mulBy lf c))
  else pure (mulBy lf a, mulBy lf b, none)

/-- one iteration of the header loop on the terms of a line; the flag says that this line is the `ITEM: ATOMS` line
    after which the table starts. -/
def dsCore (lf : Option Rat) (terms : Line) (s : DSC) : Res (DSC × Bool) :=
  if terms.isEmpty then pure (s, false) else
  if s.readNatoms then do
    let n ← pyInt (← term terms 0)
    pure ({ s with natoms := some n, readNatoms := false }, false)
  else if s.readTimestep then pure ({ s with readTimestep := false }, false)
  else if s.bcount = 0 then do
    let (a, b, t) ← boundsLine lf terms
    pure ({ s with xlo := some a, xhi := some b, xy := t.getD s.xy, bcount := 1 }, false)
  else if s.bcount = 1 then do
    let (a, b, t) ← boundsLine lf terms
    pure ({ s with ylo := some a, yhi := some b, xz := t.getD s.xz, bcount := 2 }, false)
  else if s.bcount = 2 then do
    let (a, b, t) ← boundsLine lf terms
    match t with
    | none => pure ({ s with zlo := some a, zhi := some b, bcount := 3 }, false)
    | some yz =>
      match s.xlo, s.xhi, s.ylo, s.yhi with
      | some xlo, some xhi, some ylo, some yhi =>
        let lo := minR (minR (minR 0 s.xy) s.xz) (s.xy + s.xz)
        let hi := maxR (maxR (maxR 0 s.xy) s.xz) (s.xy + s.xz)
        let s' : DSC := { s with zlo := some a, zhi := some b, yz := yz, bcount := 3,
                                 xlo := some (xlo - lo), xhi := some (xhi - hi),
                                 ylo := some (ylo - minR 0 yz), yhi := some (yhi - maxR 0 yz) }
        pure (s', false)
      | _, _, _, _ => throw "name"
  else if terms.head? = some (cs!"ITEM:") then do
    let t1 ← term terms 1
    if t1 = cs!"TIMESTEP" then pure ({ s with readTimestep := true }, false)
    else if t1 = cs!"NUMBER" then pure ({ s with readNatoms := true }, false)
    else if t1 = cs!"BOX" then
      let n : Int := terms.length
      let flag (k : Int) : Bool := pyIndex terms (k + n - 3) = some (cs!"pp")
      pure ({ s with pbc := some ⟨flag 0, flag 1, flag 2⟩, bcount := 0 }, false)
    else if t1 = cs!"ATOMS" then pure ({ s with names := some (terms.drop 2) }, true)
    else pure (s, false)
  else pure (s, false)

def dsStepT (lf : Option Rat) (i : Nat) (terms : Line) (s : DS) : Res DS := do
  let r ← dsCore lf terms s.c
  pure ⟨r.1, if r.2 then some (i + 1) else s.atomsStart⟩

def dsStep (lf : Option Rat) (i : Nat) (line : RawLine) (s : DS) : Res DS := dsStepT lf i (termsN line) s

def dsLoop (lf : Option Rat) : Nat → List RawLine → DS → Res DS
  | _, [], s => pure s
  | i, l :: ls, s => do let s' ← dsStep lf i l s; dsLoop lf (i + 1) ls s'

/-- `matchprops(name_list)`: column names grouped into properties through the standard conversions;
    an incomplete standard property is an `AssertionError`. -/
def matchProps (std : List Gen.AtomStyles.Col) (items : List String) : Res (List (String × List String)) :=
  items.foldlM (fun acc item =>
    let hit := std.find? fun c => c.2.1.contains item
    let name := match hit with | some c => c.1 | none => item
    if acc.any (·.1 = name) then
      pure (acc.map fun e => if e.1 = name then (e.1, e.2 ++ [item]) else e)
    else
      match hit with
      | some c => if c.2.1.all (items.contains ·) then pure (acc ++ [(name, [item])]) else throw "assert"
      | none => pure (acc ++ [(name, [item])])) []

/-- `process_prop_info(prop_name, table_name)` of the dump-file loader: unit from the standard conversion of
    that property name, shape from the number of table names. -/
def dumpPCol (std : List Gen.AtomStyles.Col) (u : Units) (e : String × List String) : Res PCol := do
  let un ← match std.find? (·.1 = e.1) with
    | some c => resolveUnit u (ofGenCol c).unit
    | none => pure LUnit.none
  pure { prop := e.1, names := e.2, shape := defaultShape e.2, unit := un }

/-- every position variant is stored as `pos` (the `firstpos` flag of the code is never cleared, so all of them
    are kept and the last one assigned wins). -/
def renamePos (c : PCol) : PCol := if isPosLike c.prop then { c with prop := "pos" } else c

/-- everything after the header loop of `load('atom_dump', …)`, given all the rows pandas can see after the
    `ITEM: ATOMS` line. `given` is a caller-supplied `prop_info`. -/
def loadDumpCore (s : DSC) (rows : Option (List Line)) (symbols : Option (List (Option String)))
    (given : Option (List PCol)) (u : Units) : Res Loaded := do
  -- `matchprops` runs inside the header loop, `process_prop_info` after the box and the atoms were built
  let m ← match given, s.names with
    | none, some names => matchProps Gen.LoadStyles.dumpStandard (names.map String.ofList)
    | _, _ => pure []
  let box ← match s.xlo, s.xhi, s.ylo, s.yhi, s.zlo, s.zhi with
    | some xlo, some xhi, some ylo, some yhi, some zlo, some zhi =>
      match Box.ofHiLos? xlo xhi ylo yhi zlo zhi s.xy s.xz s.yz with
      | some b => pure b
      | none => throw "assert"
    | _, _, _, _, _, _ => throw "name"
  let natoms ← match s.natoms with
    | some n => if n < 0 then throw "value" else pure n.toNat
    | none => throw "type"
  let s0 := Loaded.init box (s.pbc.getD ⟨true, true, true⟩) natoms [] []
  let cols0 ← match given, s.names with
    | some g, _ => pure g
    | none, some _ => m.mapM (dumpPCol Gen.LoadStyles.dumpStandard u)
    | none, none => throw "value"
  let rows ← match rows with | some v => pure v | none => throw "value"
  let s1 ← tableLoad s0 (rows.take natoms) (cols0.map renamePos) false
  pure (match symbols with | some l => { s1 with symbols := l } | none => s1)

/-- `load('atom_dump', data, symbols, lammps_units, prop_info=…)` on the physical lines of the file. -/
def loadDumpLines (lines : List RawLine) (symbols : Option (List (Option String))) (given : Option (List PCol))
    (u : Units) : Res Loaded := do
  let lf ← lengthFactor u
  let s ← dsLoop lf 0 lines {}
  loadDumpCore s.c (s.atomsStart.map fun k => rowsOf false (lines.drop k)) symbols given u

def loadDump (text : List Char) (symbols : Option (List (Option String))) (given : Option (List PCol)) (u : Units) :
    Res Loaded :=
  loadDumpLines (splitLines text) symbols given u

/-! ### POSCAR (atomman/load/poscar/load.py) -/

def nthLine (lines : List RawLine) (k : Nat) : Res RawLine :=
  match lines[k]? with
  | some l => pure l
  | none => throw "value"

/-- `np.array(line.split(), dtype='float64')` used as a cell vector: three numbers. -/
def vec3Line (l : RawLine) : Res (V3 Rat) :=
  match lexLine l with
  | [a, b, c] => do pure ⟨← pyFloat a, ← pyFloat b, ← pyFloat c⟩
  | _ => throw "value"

/-- the first three terms of a coordinate line. -/
def coordLine (l : RawLine) : Res (V3 Rat) :=
  match lexLine l with
  | a :: b :: c :: _ => do pure ⟨← pyFloat a, ← pyFloat b, ← pyFloat c⟩
  | _ => throw "value"

def countsOf (terms : Line) : Option (List Nat) :=
  (terms.mapM parseInt?).bind fun l => if l.all (0 ≤ ·) then some (l.map Int.toNat) else none

/-- atom types `1, 2, …` repeated by their counts. -/
def atypeOfCounts (counts : List Nat) : List Int :=
  ((List.range counts.length).map fun i => List.replicate (counts.getD i 0) ((i : Int) + 1)).flatten

def isCartesianLine (l : RawLine) : Bool :=
  match l with
  | c :: _ => c = 'c' || c = 'C' || c = 'k' || c = 'K'
  | [] => false

/-- `load('poscar', text, symbols)`. -/
def loadPoscarLines (lines : List RawLine) (symbols : Option (List (Option String))) : Res Loaded := do
  let scale ← match lexLine (← nthLine lines 1) with
    | [t] => pyFloat t
    | _ => throw "value"
  let a ← vec3Line (← nthLine lines 2)
  let b ← vec3Line (← nthLine lines 3)
  let c ← vec3Line (← nthLine lines 4)
  let box : Box Rat := ⟨⟨V3.smul scale a, V3.smul scale b, V3.smul scale c⟩, ⟨0, 0, 0⟩⟩
  let l5 ← nthLine lines 5
  let (elements, counts, styleLine, start) ← match (lexLine l5).mapM parseInt?, lines[6]? with
    | some ints, some st =>
      if ints.all (0 ≤ ·) then
        pure ((ints.map fun _ => (none : Option String)), ints.map Int.toNat, st, 7)
      else throw "value"
    | _, _ => do
      let l6 ← nthLine lines 6
      let cnt ← match countsOf (lexLine l6) with | some c => pure c | none => throw "value"
      let st ← nthLine lines 7
      pure ((lexLine l5).map fun t => some (String.ofList t), cnt, st, 8)
  let cart := isCartesianLine styleLine
  let natoms := counts.foldr (· + ·) 0
  -- `lines[i + start]` for `i < natoms`: a missing line (IndexError) and a malformed one (ValueError) are one class
  let body := (lines.drop start).take natoms
  if body.length ≠ natoms then throw "value"
  let raw ← body.mapM coordLine
  let pos := raw.map fun v => if cart then V3.smul scale v else box.relToCart v
  let atype := atypeOfCounts counts
  let s0 := Loaded.init box ⟨true, true, true⟩ natoms (symbols.getD elements) []
  pure { s0 with props := [{ name := "atype", shape := [], isInt := true, vals := atype.map fun (t : Int) => [(t : Rat)] },
                           { name := "pos", shape := [3], isInt := false, vals := pos.map fun p => [p.x, p.y, p.z] }] }

def loadPoscar (text : List Char) (symbols : Option (List (Option String))) : Res Loaded :=
  loadPoscarLines (splitLines text) symbols

/-! ### shapes: columns ↔ property values (`indexstr`, `reshape`) -/

/-- an array value of a per-atom property. -/
inductive Tensor where
  | scalar (q : Rat)
  | array (l : List Tensor)
deriving Repr

mutual
/-- row-major flattening (`df` columns `name[i][j]…` in `indexstr` order). -/
def Tensor.flatten : Tensor → List Rat
  | .scalar q => [q]
  | .array l => Tensor.flattenList l
def Tensor.flattenList : List Tensor → List Rat
  | [] => []
  | t :: ts => t.flatten ++ Tensor.flattenList ts
end

mutual
/-- the tensor has exactly that shape. -/
def Tensor.hasShape : Tensor → List Nat → Bool
  | .scalar _, [] => true
  | .array l, d :: ds => l.length = d && Tensor.allShape l ds
  | _, _ => false
def Tensor.allShape : List Tensor → List Nat → Bool
  | [], _ => true
  | t :: ts, ds => t.hasShape ds && Tensor.allShape ts ds
end

/-- cut a list into `n` consecutive chunks of length `k`. -/
def chunks {α : Type} (k : Nat) : Nat → List α → List (List α)
  | 0, _ => []
  | n + 1, l => l.take k :: chunks k n (l.drop k)

/-- `values.reshape(shape)` of the cells of one atom (C order). -/
def reshape : List Nat → List Rat → Option Tensor
  | [], [q] => some (.scalar q)
  | [], _ => none
  | d :: ds, l =>
    if l.length = d * shapeProd ds then
      ((chunks (shapeProd ds) d l).mapM (reshape ds)).map .array
    else none

/-- all index tuples of a shape in `indexstr` order. -/
def allIndices : List Nat → List (List Nat)
  | [] => [[]]
  | d :: ds => ((List.range d).map fun i => (allIndices ds).map (i :: ·)).flatten

/-- row-major (C order) offset of an index tuple: what `values.reshape(shape)[i][j]…` reads from the flat cells. -/
def flatIndex : List Nat → List Nat → Nat
  | _ :: ds, i :: is => i * shapeProd ds + flatIndex ds is
  | _, _ => 0

/-- `name[i][j]…`. -/
def indexName (name : String) : List Nat → String
  | [] => name
  | i :: is => indexName (name ++ "[" ++ toString i ++ "]") is

/-- `t[i][j]…`. -/
def Tensor.get? : Tensor → List Nat → Option Rat
  | .scalar q, [] => some q
  | .array l, i :: is => match l[i]? with | some t => t.get? is | none => none
  | _, _ => none

/-! ### where the dumped text goes and where the loaded text comes from -/

/-- the ways of naming the target of `System.dump(style, f=…)`. -/
inductive Sink where
  /-- `f` not given: the content is returned -/
  | ret
  /-- a `str` file name -/
  | path (p : String)
  /-- a `pathlib.Path` -/
  | pathObj (p : String)
  /-- any other `os.PathLike` -/
  | pathLike (p : String)
  /-- `open(p, 'w')`: a text stream on a file that was emptied when it was opened -/
  | textFile (p : String)
  /-- an `io.StringIO` (handle number) standing at its end -/
  | stringIO (h : Nat)
  /-- `open(p, 'wb')`: a binary stream -/
  | binFile (p : String)
deriving DecidableEq, Repr

/-- files by name, in-memory text streams by handle number. -/
structure World where
  files : List (String × List Char)
  bufs : List (Nat × List Char)
deriving DecidableEq, Repr

def World.file? (w : World) (p : String) : Option (List Char) :=
  match w.files.find? (fun e => e.1 == p) with
  | some e => some e.2
  | none => none

def World.setFile (w : World) (p : String) (t : List Char) : World :=
  { w with files := (p, t) :: w.files.filter (fun e => !(e.1 == p)) }

def World.buf (w : World) (h : Nat) : List Char :=
  match w.bufs.find? (fun e => e.1 == h) with
  | some e => e.2
  | none => []

def World.setBuf (w : World) (h : Nat) (t : List Char) : World :=
  { w with bufs := (h, t) :: w.bufs.filter (fun e => !(e.1 == h)) }

/-- the last step of all four writers (`atomman/dump/{atom_data,atom_dump,poscar}/dump.py`,
    `atomman/dump/table/df_to_table.py`): `if hasattr(f, 'write'): f.write(content)` /
    `elif f is not None: open(f, 'w').write(content)` / `else: return content`.
    -> the world afterwards and the returned content (`none`: nothing returned). -/
def dumpTo (w : World) (k : Sink) (content : List Char) : Res (World × Option (List Char)) :=
  match k with
  | .ret => pure (w, some content)
  | .path p => pure (w.setFile p content, none)
  | .pathObj p => pure (w.setFile p content, none)
  | .pathLike p => pure (w.setFile p content, none)
  | .textFile p => pure (w.setFile p content, none)
  | .stringIO h => pure (w.setBuf h (w.buf h ++ content), none)
  | .binFile _ => throw "type"

/-- the ways of naming the source of `load(style, …)` (`potentials.tools.uber_open_rmode`). -/
inductive Source where
  /-- a `str`: the name of an existing file, else the content itself -/
  | str (s : List Char)
  /-- a `pathlib.Path` -/
  | pathObj (p : String)
  /-- `bytes` content -/
  | bytes (b : List Char)
  /-- `open(p, 'rb')` -/
  | binFile (p : String)
  /-- an `io.BytesIO` of the text -/
  | bytesIO (t : List Char)
  /-- a text stream: refused (ValueError) -/
  | textFile (p : String)
  /-- anything else, e.g. an `os.PathLike` that is not a `pathlib.Path`: refused (TypeError) -/
  | other
deriving DecidableEq, Repr

def sourceText (w : World) : Source → Res (List Char)
  | .str s => match w.file? (String.ofList s) with
    | some t => pure t
    | none => pure s
  | .pathObj p => match w.file? p with
    | some t => pure t
    | none => throw "notfound"
  | .bytes b => pure b
  | .binFile p => match w.file? p with
    | some t => pure t
    | none => throw "notfound"
  | .bytesIO t => pure t
  | .textFile _ => throw "value"
  | .other => throw "type"

/-- `load('atom_data')` and `load('atom_dump')` first replace any stream by what its `.read()` gives
    (`if hasattr(data, 'read'): data = data.read()`): the `bytes` of a binary stream, the `str` of a text stream —
    which is then a source like any other `str`. -/
def sourceTextRead (w : World) : Source → Res (List Char)
  | .textFile p => match w.file? p with
    | some t => sourceText w (.str t)
    | none => throw "notfound"
  | .binFile p => match w.file? p with
    | some t => sourceText w (.bytes t)
    | none => throw "notfound"
  | .bytesIO t => sourceText w (.bytes t)
  | s => sourceText w s

/-- the file a sink names (none for the returned string and in-memory streams). -/
def Sink.file? : Sink → Option String
  | .path p => some p
  | .pathObj p => some p
  | .pathLike p => some p
  | .textFile p => some p
  | .binFile p => some p
  | _ => none

/-- `load(style, source)`: the loader applied to the text the source gives. -/
def loadVia {α : Type} (loader : List Char → Res α) (w : World) (src : Source) : Res α :=
  (sourceText w src).bind loader

end Atomman.C08
