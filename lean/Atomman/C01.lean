/-
  C01 — model of `atomman.Box` beyond the shared geometry of `Atomman/Box.lean` (core Lean only).

  Source: atomman/core/Box.py, atomman/region/Plane.py, atomman/region/Shape.py.

  * `cleanVects`   the clean-up of the `vects` setter (`|x| / max|v| <= 1e-9 -> 0`, threshold a parameter)
  * `setVects …`   the five parameter sets, each followed by the setter clean-up (as in the code)
  * `ofAbc?`       the body of `set_abc`; the three cosines and the two square roots are parameters
  * getters in squared / dot-product form, LAMMPS getters guarded by `isLammpsNorm` like the asserts
  * `planes`, `below`, `inside`, `outside`: six half-space tests, each normal divided by a parameter
    `λᵢ` (the `np.linalg.norm` taken by `Plane.normal`)
  * the reciprocal *cache* is deliberately absent: `Box.recip` is recomputed from the current vectors.
-/
import Atomman.Prelude
import Atomman.Box

namespace Atomman.C01
open Atomman

variable {K : Type}

/-! ### small scalar helpers -/

@[inline] def absK [Zero K] [Neg K] [LT K] [DecidableLT K] (x : K) : K := if x < 0 then -x else x
@[inline] def maxK [LT K] [DecidableLT K] (a b : K) : K := if a < b then b else a
@[inline] def minK [LT K] [DecidableLT K] (a b : K) : K := if b < a then b else a

/-! ### the `vects` setter clean-up -/

/-- `abs(vects).max()`. -/
def maxAbs [Zero K] [Neg K] [LT K] [DecidableLT K] (m : M3 K) : K :=
  maxK (maxK (maxK (absK m.r0.x) (absK m.r0.y)) (absK m.r0.z))
    (maxK (maxK (maxK (absK m.r1.x) (absK m.r1.y)) (absK m.r1.z))
      (maxK (maxK (absK m.r2.x) (absK m.r2.y)) (absK m.r2.z)))

/-- one entry of the clean-up: `np.isclose(x / M, 0, atol=thr)` → `0`; written without the division
    (`|x| ≤ thr * M`; for `M = 0` the code computes `nan` and keeps the entry, which is `0` anyway). -/
@[inline] def cleanEntry [Zero K] [Neg K] [Mul K] [LT K] [LE K] [DecidableLT K] [DecidableLE K]
    (thr M x : K) : K := if absK x ≤ thr * M then 0 else x

def cleanV [Zero K] [Neg K] [Mul K] [LT K] [LE K] [DecidableLT K] [DecidableLE K]
    (thr M : K) (v : V3 K) : V3 K := ⟨cleanEntry thr M v.x, cleanEntry thr M v.y, cleanEntry thr M v.z⟩

/-- `self.__vects[np.isclose(self.__vects/abs(self.__vects).max(), 0.0, atol=1e-9)] = 0.0`. -/
def cleanVects [Zero K] [Neg K] [Mul K] [LT K] [LE K] [DecidableLT K] [DecidableLE K]
    (thr : K) (m : M3 K) : M3 K :=
  let M := maxAbs m
  ⟨cleanV thr M m.r0, cleanV thr M m.r1, cleanV thr M m.r2⟩

/-- a box as the setter leaves it. -/
def IsClean [Zero K] [Neg K] [Mul K] [LT K] [LE K] [DecidableLT K] [DecidableLE K]
    (thr : K) (b : Box K) : Prop := cleanVects thr b.vects = b.vects

/-! ### parameter sets -/

/-- LAMMPS lengths and tilts. -/
structure Lengths (K : Type) where
  lx : K
  ly : K
  lz : K
  xy : K
  xz : K
  yz : K
deriving Repr, BEq, DecidableEq

/-- LAMMPS lo/hi bounds and tilts. -/
structure HiLos (K : Type) where
  xlo : K
  xhi : K
  ylo : K
  yhi : K
  zlo : K
  zhi : K
  xy : K
  xz : K
  yz : K
deriving Repr, BEq, DecidableEq

/-- `Box(vects=…, origin=…)` / `set_vectors` without the clean-up. -/
@[inline] def ofVects (v : M3 K) (o : V3 K) : Box K := ⟨v, o⟩
@[inline] def ofVectors (a b c o : V3 K) : Box K := ⟨⟨a, b, c⟩, o⟩

def ofLengthsP? [Zero K] [LT K] [DecidableLT K] (p : Lengths K) (o : V3 K) : Option (Box K) :=
  Box.ofLengths? p.lx p.ly p.lz p.xy p.xz p.yz o

def ofHiLosP? [Zero K] [Sub K] [LT K] [DecidableLT K] (p : HiLos K) : Option (Box K) :=
  Box.ofHiLos? p.xlo p.xhi p.ylo p.yhi p.zlo p.zhi p.xy p.xz p.yz

/-- the LAMMPS parameters computed by `set_abc` from `a b c`, the cosines `ca cb cg` of
    `alpha beta gamma` and the two square roots `ly = (b²-xy²)^½`, `lz = (c²-xz²-yz²)^½`. -/
def abcLengths [Sub K] [Mul K] [Div K] (a b c ca cb cg ly lz : K) : Lengths K :=
  let xy := b * cg
  let xz := c * cb
  { lx := a, ly := ly, lz := lz, xy := xy, xz := xz, yz := (b * c * ca - xy * xz) / ly }

/-- the value under the second square root of `set_abc` (needs `ly`). -/
def abcLzSq [Sub K] [Mul K] [Div K] (b c ca cb cg ly : K) : K :=
  let xy := b * cg
  let xz := c * cb
  let yz := (b * c * ca - xy * xz) / ly
  c * c - xz * xz - yz * yz

/-- the value under the first square root of `set_abc`. -/
def abcLySq [Sub K] [Mul K] (b cg : K) : K := b * b - (b * cg) * (b * cg)

def ofAbc? [Zero K] [Sub K] [Mul K] [Div K] [LT K] [DecidableLT K]
    (a b c ca cb cg ly lz : K) (o : V3 K) : Option (Box K) :=
  ofLengthsP? (abcLengths a b c ca cb cg ly lz) o

/-- the angle guard of `set_abc` (degrees): `true` = accepted. -/
def anglesOk [Zero K] [OfNat K 180] [LT K] [DecidableLT K] (alpha beta gamma : K) : Bool :=
  decide (0 < alpha) && decide (alpha < 180) && decide (0 < beta) && decide (beta < 180) &&
  decide (0 < gamma) && decide (gamma < 180)

/-! ### what the setters leave behind (parameter set followed by the clean-up) -/

section setters
variable [Zero K] [Neg K] [Sub K] [Mul K] [Div K] [LT K] [LE K] [DecidableLT K] [DecidableLE K]

/-- the `vects` attribute setter: origin untouched. -/
def setVectsAttr (thr : K) (b : Box K) (v : M3 K) : Box K := ⟨cleanVects thr v, b.origin⟩
/-- the `origin` attribute setter. -/
def setOriginAttr (b : Box K) (o : V3 K) : Box K := ⟨b.vects, o⟩
def setVects (thr : K) (v : M3 K) (o : V3 K) : Box K := ⟨cleanVects thr v, o⟩
def setLengths? (thr : K) (p : Lengths K) (o : V3 K) : Option (Box K) :=
  (ofLengthsP? p o).map (fun b => ⟨cleanVects thr b.vects, b.origin⟩)
def setHiLos? (thr : K) (p : HiLos K) : Option (Box K) :=
  (ofHiLosP? p).map (fun b => ⟨cleanVects thr b.vects, b.origin⟩)
def setAbc? (thr : K) (a b c ca cb cg ly lz : K) (o : V3 K) : Option (Box K) :=
  (ofAbc? a b c ca cb cg ly lz o).map (fun b => ⟨cleanVects thr b.vects, b.origin⟩)
end setters

/-! ### getters -/

/-- `a**2`, `b**2`, `c**2`. -/
@[inline] def a2 [Add K] [Mul K] (b : Box K) : K := V3.normSq b.vects.r0
@[inline] def b2 [Add K] [Mul K] (b : Box K) : K := V3.normSq b.vects.r1
@[inline] def c2 [Add K] [Mul K] (b : Box K) : K := V3.normSq b.vects.r2
/-- numerators of the cosines of `alpha` (b,c), `beta` (a,c), `gamma` (a,b). -/
@[inline] def dotBC [Add K] [Mul K] (b : Box K) : K := V3.dot b.vects.r1 b.vects.r2
@[inline] def dotAC [Add K] [Mul K] (b : Box K) : K := V3.dot b.vects.r0 b.vects.r2
@[inline] def dotAB [Add K] [Mul K] (b : Box K) : K := V3.dot b.vects.r0 b.vects.r1

/-- `lx ly lz xy xz yz`, each guarded by `assert self.is_lammps_norm()`. -/
def lengths? [Zero K] [LT K] [DecidableEq K] [DecidableLT K] (b : Box K) : Option (Lengths K) :=
  if b.isLammpsNorm then
    some { lx := b.vects.r0.x, ly := b.vects.r1.y, lz := b.vects.r2.z,
           xy := b.vects.r1.x, xz := b.vects.r2.x, yz := b.vects.r2.y }
  else none

/-- `xlo xhi ylo yhi zlo zhi` (+ tilts), guarded likewise. -/
def hilos? [Zero K] [Add K] [LT K] [DecidableEq K] [DecidableLT K] (b : Box K) : Option (HiLos K) :=
  if b.isLammpsNorm then
    some { xlo := b.origin.x, xhi := b.origin.x + b.vects.r0.x,
           ylo := b.origin.y, yhi := b.origin.y + b.vects.r1.y,
           zlo := b.origin.z, zhi := b.origin.z + b.vects.r2.z,
           xy := b.vects.r1.x, xz := b.vects.r2.x, yz := b.vects.r2.y }
  else none

/-- `volume = |avect · (bvect × cvect)|`. -/
def volume [Zero K] [Add K] [Sub K] [Mul K] [Neg K] [LT K] [DecidableLT K] (b : Box K) : K :=
  absK (V3.dot b.vects.r0 (V3.cross b.vects.r1 b.vects.r2))

/-- Gram matrix `V Vᵀ` (all lengths and angles of the cell). -/
def gram [Add K] [Mul K] (v : M3 K) : M3 K := M3.mul v v.transpose

/-! ### planes, inside, outside -/

/-- `Plane(normal, point)` before normalisation. -/
structure RawPlane (K : Type) where
  normal : V3 K
  point : V3 K
deriving Repr, BEq, DecidableEq

/-- `Box.planes`, in the order of the source. -/
def planes [Add K] [Sub K] [Mul K] (b : Box K) : List (RawPlane K) :=
  let a := b.vects.r0; let bv := b.vects.r1; let c := b.vects.r2; let o := b.origin
  [⟨V3.cross c bv, o⟩, ⟨V3.cross a c, o⟩, ⟨V3.cross bv a, o⟩,
   ⟨V3.cross bv c, o + a⟩, ⟨V3.cross c a, o + bv⟩, ⟨V3.cross a bv, o + c⟩]

@[inline] def vdiv [Div K] (v : V3 K) (l : K) : V3 K := ⟨v.x / l, v.y / l, v.z / l⟩

/-- `Plane.below`: the stored normal is `normal / λ` with `λ = np.linalg.norm(normal)`. -/
def below [Add K] [Mul K] [Div K] [LT K] [LE K] [DecidableLT K] [DecidableLE K]
    (pl : RawPlane K) (lam : K) (p : V3 K) (inclusive : Bool) : Bool :=
  let u := vdiv pl.normal lam
  let normpoint := V3.dot u pl.point
  let normpos := V3.dot u p
  if inclusive then decide (normpos ≤ normpoint) else decide (normpos < normpoint)

/-- the six norms. -/
structure Lams (K : Type) where
  l0 : K
  l1 : K
  l2 : K
  l3 : K
  l4 : K
  l5 : K

def Lams.ones [One K] : Lams K := ⟨1, 1, 1, 1, 1, 1⟩
def Lams.toList (l : Lams K) : List K := [l.l0, l.l1, l.l2, l.l3, l.l4, l.l5]

/-- `Box.inside`. -/
def inside [Add K] [Sub K] [Mul K] [Div K] [LT K] [LE K] [DecidableLT K] [DecidableLE K]
    (b : Box K) (lam : Lams K) (p : V3 K) (inclusive : Bool) : Bool :=
  let a := b.vects.r0; let bv := b.vects.r1; let c := b.vects.r2; let o := b.origin
  below ⟨V3.cross c bv, o⟩ lam.l0 p inclusive &&
  below ⟨V3.cross a c, o⟩ lam.l1 p inclusive &&
  below ⟨V3.cross bv a, o⟩ lam.l2 p inclusive &&
  below ⟨V3.cross bv c, o + a⟩ lam.l3 p inclusive &&
  below ⟨V3.cross c a, o + bv⟩ lam.l4 p inclusive &&
  below ⟨V3.cross a bv, o + c⟩ lam.l5 p inclusive

/-- `Shape.outside`: `~self.inside(pos, inclusive=not inclusive)`. -/
def outside [Add K] [Sub K] [Mul K] [Div K] [LT K] [LE K] [DecidableLT K] [DecidableLE K]
    (b : Box K) (lam : Lams K) (p : V3 K) (inclusive : Bool) : Bool :=
  !(inside b lam p (!inclusive))

/-- relative coordinates in `[0,1]` (closed) resp. `(0,1)` (open). -/
def RelIn [Zero K] [One K] [LE K] (s : V3 K) : Prop :=
  0 ≤ s.x ∧ s.x ≤ 1 ∧ 0 ≤ s.y ∧ s.y ≤ 1 ∧ 0 ≤ s.z ∧ s.z ≤ 1
def RelInStrict [Zero K] [One K] [LT K] (s : V3 K) : Prop :=
  0 < s.x ∧ s.x < 1 ∧ 0 < s.y ∧ s.y < 1 ∧ 0 < s.z ∧ s.z < 1

/-- distance (in relative coordinates) of `s` to the nearest face: the model's margin for the
    "closer than the bound to a face" exemption. -/
def faceMargin [Zero K] [One K] [Sub K] [Neg K] [LT K] [DecidableLT K] (s : V3 K) : K :=
  minK (minK (minK (absK s.x) (absK (1 - s.x))) (minK (absK s.y) (absK (1 - s.y))))
    (minK (absK s.z) (absK (1 - s.z)))

/-- `tools.vect_angle` for one pair of vectors: the cosine handed to `np.arccos` — each vector divided by (what
    `np.linalg.norm` returns for) its length `n1`, `n2`, then the inner product. -/
def angleCos [Add K] [Mul K] [Div K] (u v : V3 K) (n1 n2 : K) : K := V3.dot (vdiv u n1) (vdiv v n2)

/-! ### the same cell in another unit of length (every vector and the origin times `s`) -/

section units
variable [Mul K]
def scaleV (s : K) (v : V3 K) : V3 K := ⟨s * v.x, s * v.y, s * v.z⟩
def scaleM (s : K) (m : M3 K) : M3 K := ⟨scaleV s m.r0, scaleV s m.r1, scaleV s m.r2⟩
def scaleBox (s : K) (b : Box K) : Box K := ⟨scaleM s b.vects, scaleV s b.origin⟩
/-- the cell with Cartesian axes reversed (`sx sy sz = ±1`): columns of `vects` times the signs. -/
def flipAxes (sx sy sz : K) (b : Box K) : Box K :=
  ⟨⟨⟨sx * b.vects.r0.x, sy * b.vects.r0.y, sz * b.vects.r0.z⟩, ⟨sx * b.vects.r1.x, sy * b.vects.r1.y, sz * b.vects.r1.z⟩,
    ⟨sx * b.vects.r2.x, sy * b.vects.r2.y, sz * b.vects.r2.z⟩⟩, ⟨sx * b.origin.x, sy * b.origin.y, sz * b.origin.z⟩⟩
end units

/-! ### the Box *object*: current cell + lazily computed reciprocal vectors

`atomman.Box` keeps `__reciprocal_vects` (`None` until `reciprocal_vects` is first read; filled with
`inv(vects).T`; set back to `None` by the `vects` setter, through which every cell-defining setter
goes).  `CBox` is that object, `SetOp`/`ReadOp` the calls of the public interface that C01 talks
about, `CBox.set`/`CBox.read` what they do to the object *with* the cache, `SetOp.apply?`/`ReadOp.eval`
what they mean for the bare cell.  `Proofs/C01.lean` shows the two agree for every call sequence
(`obj_run_refines`).  The driver runs `CBox`. -/

structure CBox (K : Type) where
  box : Box K
  cache : Option (M3 K)
deriving Repr, BEq, DecidableEq

/-- a new `Box()` (before any keyword is applied): unit cell, nothing cached. -/
def CBox.fresh [Zero K] [One K] : CBox K := ⟨⟨M3.one, ⟨0, 0, 0⟩⟩, none⟩

/-- the cell-changing calls. -/
inductive SetOp (K : Type) where
  /-- `set()` without arguments -/
  | reset
  /-- `Box(vects=v, origin=o)`, `set(vects=…)`, `set_vectors(…)` -/
  | vects (v : M3 K) (o : V3 K)
  /-- `box.vects = v` -/
  | attrVects (v : M3 K)
  /-- `box.origin = o`, `set(origin=o)` -/
  | attrOrigin (o : V3 K)
  /-- `set_lengths` -/
  | lengths (p : Lengths K) (o : V3 K)
  /-- `set_hi_los` -/
  | hilos (p : HiLos K)
  /-- `set_abc`: angles in degrees (for the guard), then `a b c`, the three cosines, the two roots -/
  | abc (alpha beta gamma a b c ca cb cg ly lz : K) (o : V3 K)

/-- the reads that involve the vectors' inverse or the faces. -/
inductive ReadOp (K : Type) where
  | recip
  | c2r (p : V3 K)
  | r2c (s : V3 K)
  | inside (lam : Lams K) (p : V3 K) (inclusive : Bool)
  | outside (lam : Lams K) (p : V3 K) (inclusive : Bool)

/-- what a call reports. -/
inductive Obs (K : Type) where
  | ok
  | rejected
  | mat (m : M3 K)
  | vec (v : V3 K)
  | flag (b : Bool)
deriving Repr, BEq, DecidableEq

section object
variable [Zero K] [One K] [OfNat K 180] [Neg K] [Add K] [Sub K] [Mul K] [Div K] [LT K] [LE K]
  [DecidableLT K] [DecidableLE K] [DecidableEq K]

/-- the cell a setter leaves behind; `none` = refused before anything is written (assert / ValueError). -/
def SetOp.apply? (thr : K) (b : Box K) : SetOp K → Option (Box K)
  | .reset => some (setVects thr M3.one ⟨0, 0, 0⟩)
  | .vects v o => some (setVects thr v o)
  | .attrVects v => some (setVectsAttr thr b v)
  | .attrOrigin o => some (setOriginAttr b o)
  | .lengths p o => setLengths? thr p o
  | .hilos p => setHiLos? thr p
  | .abc al be ga a b' c ca cb cg ly lz o =>
    if anglesOk al be ga then setAbc? thr a b' c ca cb cg ly lz o else none

/-- does the call assign to `vects` (whose setter drops the cached reciprocal vectors)?
    Only the `origin` setter does not. -/
def SetOp.writesVects : SetOp K → Bool
  | .attrOrigin _ => false
  | _ => true

/-- meaning of a read for the bare cell (`np.linalg.inv` raises for a singular matrix). -/
def ReadOp.eval (b : Box K) : ReadOp K → Obs K
  | .recip => if b.vects.det = 0 then .rejected else .mat b.recip
  | .c2r p => if b.vects.det = 0 then .rejected else .vec (b.cartToRel p)
  | .r2c s => .vec (b.relToCart s)
  | .inside lam p incl => .flag (C01.inside b lam p incl)
  | .outside lam p incl => .flag (C01.outside b lam p incl)

/-- the `reciprocal_vects` property: the cached matrix if there is one, else computed and cached. -/
def CBox.recip? (c : CBox K) : Option (M3 K × CBox K) :=
  match c.cache with
  | some r => some (r, c)
  | none => if c.box.vects.det = 0 then none else some (c.box.recip, ⟨c.box, some c.box.recip⟩)

/-- a setter call on the object. -/
def CBox.set (thr : K) (c : CBox K) (s : SetOp K) : CBox K × Obs K :=
  match s.apply? thr c.box with
  | none => (c, .rejected)
  | some b' => (⟨b', if s.writesVects then none else c.cache⟩, .ok)

/-- a read call on the object (`position_cartesian_to_relative` is
    `np.inner(pos - origin, self.reciprocal_vects)`). -/
def CBox.read (c : CBox K) : ReadOp K → CBox K × Obs K
  | .recip =>
    match c.recip? with
    | some (r, c') => (c', .mat r)
    | none => (c, .rejected)
  | .c2r p =>
    match c.recip? with
    | some (r, c') => (c', .vec (M3.mulVec r (p - c.box.origin)))
    | none => (c, .rejected)
  | .r2c s => (c, .vec (c.box.relToCart s))
  | .inside lam p incl => (c, .flag (C01.inside c.box lam p incl))
  | .outside lam p incl => (c, .flag (C01.outside c.box lam p incl))

/-- any call. -/
inductive Op (K : Type) where
  | set (s : SetOp K)
  | read (r : ReadOp K)

def CBox.step (thr : K) (c : CBox K) : Op K → CBox K × Obs K
  | .set s => c.set thr s
  | .read r => c.read r

/-- the same call on the bare cell. -/
def stepPlain (thr : K) (b : Box K) : Op K → Box K × Obs K
  | .set s =>
    match s.apply? thr b with
    | none => (b, .rejected)
    | some b' => (b', .ok)
  | .read r => (b, r.eval b)

/-- observations of a call sequence on the object / on the bare cell. -/
def CBox.run (thr : K) : CBox K → List (Op K) → List (Obs K)
  | _, [] => []
  | c, op :: ops => (c.step thr op).2 :: CBox.run thr (c.step thr op).1 ops

def runPlain (thr : K) : Box K → List (Op K) → List (Obs K)
  | _, [] => []
  | b, op :: ops => (stepPlain thr b op).2 :: runPlain thr (stepPlain thr b op).1 ops

/-- the state after a call sequence. -/
def CBox.after (thr : K) : CBox K → List (Op K) → CBox K
  | c, [] => c
  | c, op :: ops => CBox.after thr (c.step thr op).1 ops

/-- what is cached is the inverse-transpose of the *current* vectors (and those are invertible). -/
def CBox.Coherent (c : CBox K) : Prop :=
  ∀ r, c.cache = some r → c.box.vects.det ≠ 0 ∧ r = c.box.recip

end object

/-! ### keyword dispatch of `Box.set(**kwargs)` / `Box(**kwargs)` and the signatures of the `set_*` methods

`Box.set` picks the parameter set by the first keyword of an `if / elif` chain that is present and hands
*all* keywords to that branch: `vects` and `origin` handle theirs inline and `assert` that nothing is left,
the others call `self.set_…(**kwargs)`, where Python itself raises `TypeError` for a keyword that is not a
parameter or a missing parameter without default.  `setOutcome` is that decision for a set of keyword
names; the signatures (parameter order = what a positional call means) are tied to the source by the
translator (`src_set_dispatch`). -/

/-- parameters of a method after `self`: (name, has a default?) in signature order. -/
abbrev Sig := List (String × Bool)

def sigVectors : Sig := [("avect", false), ("bvect", false), ("cvect", false), ("origin", true)]
def sigAbc : Sig :=
  [("a", false), ("b", false), ("c", false), ("alpha", true), ("beta", true), ("gamma", true), ("origin", true)]
def sigLengths : Sig :=
  [("lx", false), ("ly", false), ("lz", false), ("xy", true), ("xz", true), ("yz", true), ("origin", true)]
def sigHiLos : Sig :=
  [("xlo", false), ("xhi", false), ("ylo", false), ("yhi", false), ("zlo", false), ("zhi", false),
   ("xy", true), ("xz", true), ("yz", true)]

/-- the parameter sets of `Box.set`. -/
inductive SetFamily where
  | unit | vects | vectors | lengths | hilos | abc | origin
deriving Repr, BEq, DecidableEq

/-- what `Box.set(**kwargs)` does with a set of keyword names. -/
inductive SetOutcome where
  | ok (f : SetFamily)
  | errAssert
  | errType
deriving Repr, BEq, DecidableEq

/-- the signature a family's keywords are checked against (`vects` / `origin` are handled inline). -/
def SetFamily.sig : SetFamily → Sig
  | .unit => []
  | .vects => [("vects", false), ("origin", true)]
  | .vectors => sigVectors
  | .lengths => sigLengths
  | .hilos => sigHiLos
  | .abc => sigAbc
  | .origin => [("origin", false)]

def Sig.names (s : Sig) : List String := s.map (·.1)
def Sig.required (s : Sig) : List String := (s.filter (fun p => !p.2)).map (·.1)

/-- a Python call `f(**kws)`: every keyword is a parameter, every parameter without default is given. -/
def sigAccepts (sig : Sig) (kws : List String) : Bool :=
  kws.all (fun k => sig.names.contains k) && sig.required.all (fun r => kws.contains r)

/-- the `if / elif` chain of `Box.set` after the "no keywords" case: (keyword tested, parameter set). -/
def setChain : List (String × SetFamily) :=
  [("vects", .vects), ("avect", .vectors), ("lx", .lengths), ("xlo", .hilos), ("a", .abc), ("origin", .origin)]

/-- `Box.set(**kwargs)` for keyword names `kws` (a dict: no duplicates). -/
def setOutcome (kws : List String) : SetOutcome :=
  if kws.isEmpty then .ok .unit else
  match setChain.find? (fun p => kws.contains p.1) with
  | none => .errType
  | some (_, f) =>
    if sigAccepts f.sig kws then .ok f
    else match f with
      | .vects => .errAssert      -- `assert len(kwargs) == 0, 'Invalid arguments'`
      | .origin => .errAssert
      | _ => .errType             -- raised by Python when `self.set_…(**kwargs)` is called

/-- what a positional call `set_…(x₀, x₁, …)` with `n` arguments binds: the first `n` parameter names. -/
def Sig.positional (s : Sig) (n : Nat) : List String := (s.take n).map (·.1)

/-! ### fourth extension round: the degree-level API (float library routines as a parameter record), the four
parameter sets as one type, arrays of points and their shapes, the tolerance literal of the setter clean-up -/

/-- the float library routines the class calls: `(x)**0.5` / `np.linalg.norm`, `np.cos`, `np.arccos`, `np.pi`. -/
structure Trig (K : Type) where
  sqrt : K → K
  cos : K → K
  acos : K → K
  pi : K

/-- the clamp of `tools.vect_angle` before `np.arccos` (`if cosine < -1: cosine = -1 elif cosine > 1: cosine = 1`). -/
def clampCos [One K] [Neg K] [LT K] [DecidableLT K] (c : K) : K :=
  if c < -1 then -1 else if 1 < c then 1 else c

/-- the double nearest to the literal `atol=1e-9` of the setter clean-up, exactly (numerator, denominator). -/
def atolNum : Nat := 4835703278458517
def atolDen : Nat := 4835703278458516698824704

/-- the cell a cell-defining setter stores: the clean-up of the `vects` setter applied. -/
def cleanBox [Zero K] [Neg K] [Mul K] [LT K] [LE K] [DecidableLT K] [DecidableLE K] (thr : K) (b : Box K) : Box K :=
  ⟨cleanVects thr b.vects, b.origin⟩

section degrees
variable [Zero K] [One K] [OfNat K 180] [Neg K] [Add K] [Sub K] [Mul K] [Div K] [LT K] [LE K]
  [DecidableLT K] [DecidableLE K] [DecidableEq K]

/-- the getters `a`, `b`, `c`: `(x² + y² + z²)**0.5`. -/
def lenOf (T : Trig K) (v : V3 K) : K := T.sqrt (V3.normSq v)

/-- the getters `alpha`, `beta`, `gamma` = `vect_angle(u, v)`: unit vectors by their own norm, inner product, clamp,
    `180 * arccos / pi`. -/
def angleDeg (T : Trig K) (u v : V3 K) : K :=
  180 * T.acos (clampCos (angleCos u v (lenOf T u) (lenOf T v))) / T.pi

/-- `np.cos(angle * np.pi / 180)` of `set_abc`. -/
def cosDeg (T : Trig K) (ang : K) : K := T.cos (ang * T.pi / 180)

/-- the whole straight-line part of `set_abc` (angles in degrees): what goes to `set_lengths`. -/
def abcOfDeg (T : Trig K) (a b c alpha beta gamma : K) : Lengths K :=
  let ca := cosDeg T alpha
  let cb := cosDeg T beta
  let cg := cosDeg T gamma
  let ly := T.sqrt (abcLySq b cg)
  let lz := T.sqrt (abcLzSq b c ca cb cg ly)
  abcLengths a b c ca cb cg ly lz

/-- `set_abc(a, b, c, alpha, beta, gamma, origin)`: angle guard (ValueError), arithmetic, `set_lengths` (assert), clean-up. -/
def setAbcDeg? (T : Trig K) (thr : K) (a b c alpha beta gamma : K) (o : V3 K) : Option (Box K) :=
  if anglesOk alpha beta gamma then (ofLengthsP? (abcOfDeg T a b c alpha beta gamma) o).map (cleanBox thr) else none

/-- the four parameter sets of the property text. -/
inductive Family where
  | vectors | abc | lengths | hilos
deriving Repr, BEq, DecidableEq

/-- a cell definition through one of them (angles in degrees, as the API takes them). -/
inductive Params (K : Type) where
  | vectors (a b c o : V3 K)
  | abc (a b c alpha beta gamma : K) (o : V3 K)
  | lengths (p : Lengths K) (o : V3 K)
  | hilos (p : HiLos K)

def Params.family : Params K → Family
  | .vectors .. => .vectors
  | .abc .. => .abc
  | .lengths .. => .lengths
  | .hilos .. => .hilos

/-- `Box(**definition)` / `set_*(…)`: the cell stored, `none` = refused (AssertionError / ValueError). -/
def define? (T : Trig K) (thr : K) : Params K → Option (Box K)
  | .vectors a b c o => some (setVects thr ⟨a, b, c⟩ o)
  | .abc a b c al be ga o => setAbcDeg? T thr a b c al be ga o
  | .lengths p o => setLengths? thr p o
  | .hilos p => setHiLos? thr p

/-- the cell before the clean-up of the `vects` setter. -/
def defineRaw? (T : Trig K) : Params K → Option (Box K)
  | .vectors a b c o => some ⟨⟨a, b, c⟩, o⟩
  | .abc a b c al be ga o => if anglesOk al be ga then ofLengthsP? (abcOfDeg T a b c al be ga) o else none
  | .lengths p o => ofLengthsP? p o
  | .hilos p => ofHiLosP? p

/-- reading an existing cell back through a parameter set: the getters of that set (+ `origin` where the set has one);
    `none` = the LAMMPS getters refuse (AssertionError). -/
def readAs? (T : Trig K) : Family → Box K → Option (Params K)
  | .vectors, b => some (.vectors b.vects.r0 b.vects.r1 b.vects.r2 b.origin)
  | .abc, b => some (.abc (lenOf T b.vects.r0) (lenOf T b.vects.r1) (lenOf T b.vects.r2)
      (angleDeg T b.vects.r1 b.vects.r2) (angleDeg T b.vects.r0 b.vects.r2) (angleDeg T b.vects.r0 b.vects.r1) b.origin)
  | .lengths, b => (lengths? b).map (fun p => .lengths p b.origin)
  | .hilos, b => (hilos? b).map .hilos

end degrees

/-! #### arrays of points: shapes and row-wise evaluation -/

/-- what a call does with an array of the given (full numpy) shape. -/
inductive ShapeOutcome where
  | ok (shape : List Nat)
  | errValue
  | errIndex
deriving Repr, BEq, DecidableEq

/-- both conversions: `x = np.asarray(x, dtype=float); if x.shape[-1] != 3: raise ValueError`; the result has the shape of the
    input (`shape[-1]` of a 0-d array is an IndexError). -/
def convShape (sh : List Nat) : ShapeOutcome :=
  match sh.getLast? with
  | none => .errIndex
  | some d => if d = 3 then .ok sh else .errValue

/-- `inside` / `outside`: no check of their own; `np.inner(pos, normal)` of `Plane.below` needs a trailing dimension 3 (ValueError
    otherwise) and gives the leading shape; a 0-d `pos` is multiplied into the normal (shape `(3,)`). -/
def insideShape (sh : List Nat) : ShapeOutcome :=
  match sh.getLast? with
  | none => .ok [3]
  | some d => if d = 3 then .ok sh.dropLast else .errValue

/-- number of points in an array of that shape. -/
def rowsOf (sh : List Nat) : Nat := sh.dropLast.foldl (· * ·) 1

section arrays
variable [Add K] [Sub K] [Mul K] [Div K] [Neg K] [LT K] [LE K] [DecidableLT K] [DecidableLE K]
def r2cAll (b : Box K) (pts : List (V3 K)) : List (V3 K) := pts.map b.relToCart
def c2rAll (b : Box K) (pts : List (V3 K)) : List (V3 K) := pts.map b.cartToRel
def insideAll (b : Box K) (lam : Lams K) (pts : List (V3 K)) (incl : Bool) : List Bool :=
  pts.map (fun p => inside b lam p incl)
def outsideAll (b : Box K) (lam : Lams K) (pts : List (V3 K)) (incl : Bool) : List Bool :=
  pts.map (fun p => outside b lam p incl)
end arrays

/-! #### the crystal-family constructors (`Box.cubic` … `Box.triclinic`): their own refusals, then `cls(a=…, …, gamma=…)` -/

/-- a call of one of the seven classmethods. -/
inductive Ctor (K : Type) where
  | cubic (a : K)
  | hexagonal (a c : K)
  | tetragonal (a c : K)
  | trigonal (a alpha : K)
  | orthorhombic (a b c : K)
  | monoclinic (a b c beta : K)
  | triclinic (a b c alpha beta gamma : K)

/-- the definition a constructor hands to `Box(**kwargs)` (origin left to the default `(0,0,0)`); `none` = its own `ValueError`. -/
def Ctor.params? [Zero K] [OfNat K 90] [OfNat K 120] [LT K] [LE K] [DecidableEq K] [DecidableLE K] :
    Ctor K → Option (Params K)
  | .cubic a => some (.abc a a a 90 90 90 ⟨0, 0, 0⟩)
  | .hexagonal a c => if a = c then none else some (.abc a a c 90 90 120 ⟨0, 0, 0⟩)
  | .tetragonal a c => if a = c then none else some (.abc a a c 90 90 90 ⟨0, 0, 0⟩)
  | .trigonal a al => if 120 ≤ al then none else some (.abc a a a al al al ⟨0, 0, 0⟩)
  | .orthorhombic a b c => if a = b ∨ a = c then none else some (.abc a b c 90 90 90 ⟨0, 0, 0⟩)
  | .monoclinic a b c be =>
    if a = b ∨ a = c then none else if be ≤ 90 then none else some (.abc a b c 90 be 90 ⟨0, 0, 0⟩)
  | .triclinic a b c al be ga =>
    if a = b ∨ a = c then none else if al = be ∨ al = ga then none else some (.abc a b c al be ga ⟨0, 0, 0⟩)

end Atomman.C01
