import Atomman.Prelude
open Atomman

/-- stub: replaced when the C04 model is built. -/
def handleC04 (_toks : List String) : String := err "op"

def main : IO Unit := runDriver handleC04
