import Atomman.C04
open Atomman Atomman.C04

def parseAtoms (e : Nat) : Nat → List String → Option (List (Atom Rat))
  | 0, [] => some []
  | 0, _ => none
  | n + 1, toks =>
    match toks with
    | t :: x :: y :: z :: rest =>
      match t.toInt?, parseRat? x, parseRat? y, parseRat? z, parseRats? (rest.take e) with
      | some t, some x, some y, some z, some ex =>
        if ex.length ≠ e then none else
        (parseAtoms e n (rest.drop e)).map (fun l => ⟨t, ⟨x, y, z⟩, ex⟩ :: l)
      | _, _, _, _, _ => none
    | _ => none

def showAtom (a : Atom Rat) : String :=
  toString a.atype ++ " " ++ showRats (a.pos.toList ++ a.extra)

def showResult (r : Box Rat × List (Atom Rat)) : String :=
  showRats (r.1.vects.toList ++ r.1.origin.toList) ++ " " ++ toString r.2.length ++
    (r.2.foldl (fun acc a => acc ++ " " ++ showAtom a) "")

/-! property names travel as `k` + hex of their UTF-8 bytes (blanks, non-ASCII); the model sees the real strings. -/
def hexVal (c : Char) : Option Nat :=
  if '0' ≤ c ∧ c ≤ '9' then some (c.toNat - '0'.toNat)
  else if 'a' ≤ c ∧ c ≤ 'f' then some (c.toNat - 'a'.toNat + 10) else none

def hexBytes : List Char → Option (List UInt8)
  | [] => some []
  | a :: b :: rest =>
    match hexVal a, hexVal b, hexBytes rest with
    | some x, some y, some r => some (UInt8.ofNat (16 * x + y) :: r)
    | _, _, _ => none
  | _ => none

def decodeKey (t : String) : Option String :=
  match t.toList with
  | 'k' :: cs => (hexBytes cs).bind fun bs => String.fromUTF8? (ByteArray.mk bs.toArray)
  | _ => none

def hexDigit (n : Nat) : Char := if n < 10 then Char.ofNat (48 + n) else Char.ofNat (87 + n)

def encodeKey (s : String) : String :=
  "k" ++ String.ofList (s.toUTF8.toList.flatMap fun b => [hexDigit (b.toNat / 16), hexDigit (b.toNat % 16)])

/-- history operations on the wire: `R` | `W` | `B v(9) o(3) s` | `V v(9)` | `O o(3)` | `P a b c`. -/
def parseOps : Nat → List String → Option (List (HOp Rat) × List String)
  | 0, rest => some ([], rest)
  | n + 1, toks =>
    match toks with
    | "R" :: rest => (parseOps n rest).map fun (l, r) => (HOp.read :: l, r)
    | "W" :: rest => (parseOps n rest).map fun (l, r) => (HOp.rewrite :: l, r)
    | "B" :: rest =>
      match (parseRats? (rest.take 9)).bind M3.ofList?, (parseRats? ((rest.drop 9).take 3)).bind V3.ofList?,
            (rest.drop 12).head? with
      | some v, some o, some sc =>
        if sc = "1" ∨ sc = "0" then
          (parseOps n (rest.drop 13)).map fun (l, r) => (HOp.setBox v o (sc == "1") :: l, r)
        else none
      | _, _, _ => none
    | "V" :: rest =>
      match (parseRats? (rest.take 9)).bind M3.ofList? with
      | some v => (parseOps n (rest.drop 9)).map fun (l, r) => (HOp.setVects v :: l, r)
      | none => none
    | "O" :: rest =>
      match (parseRats? (rest.take 3)).bind V3.ofList? with
      | some o => (parseOps n (rest.drop 3)).map fun (l, r) => (HOp.setOrigin o :: l, r)
      | none => none
    | "P" :: a :: b :: c :: rest =>
      if (a = "1" ∨ a = "0") ∧ (b = "1" ∨ b = "0") ∧ (c = "1" ∨ c = "0") then
        (parseOps n rest).map fun (l, r) => (HOp.setPbc ⟨a == "1", b == "1", c == "1"⟩ :: l, r)
      else none
    | _ => none

def handleC04 (toks : List String) : String :=
  match toks with
  -- hist e n box(12) nops ops… lo hi lo hi lo hi atoms: the history run on ONE object from its initial state, then
  -- supersize on the object (scaled positions through the cache); reply: visible box(12) of the object, then the result
  | "hist" :: e :: n :: rest =>
    match e.toNat?, n.toNat?, parseRats? (rest.take 12), ((rest.drop 12).head?).bind String.toNat? with
    | some e, some n, some bx, some nops =>
      match M3.ofList? (bx.take 9), V3.ofList? (bx.drop 9), parseOps nops (rest.drop 13) with
      | some v, some o, some (ops, rest2) =>
        match parseInts? (rest2.take 6), parseAtoms e n (rest2.drop 6) with
        | some [l0, h0, l1, h1, l2, h2], some atoms =>
          match Size.ofPair? l0 h0, Size.ofPair? l1 h1, Size.ofPair? l2 h2 with
          | some sa, some sb, some sc =>
            let s0 : SysObj Rat := ⟨⟨v, o, none⟩, atoms, ⟨true, true, true⟩⟩
            let s := s0.run ops
            showRats (s.box.vects.toList ++ s.box.origin.toList) ++ " " ++ showResult (s.supersizeC sa sb sc)
          | _, _, _ => err "value"
        | _, _ => err "format"
      | _, _, _ => err "format"
    | _, _, _, _ => err "format"
  -- keys k<hex>...: names of the per-atom properties a copy made by supersize / rotate carries
  | "keys" :: ks =>
    match ks.mapM decodeKey with
    | some names => " ".intercalate ((copiedKeys names).map encodeKey)
    | none => err "format"
  -- pbc p0 p1 p2 U(9 ints): flags of the system rotate returns
  | "pbc" :: a :: b :: c :: us =>
    match parseBool? a, parseBool? b, parseBool? c, (parseInts? us).bind M3.ofList? with
    | some a, some b, some c, some U =>
      let r := rotatePbc U ⟨a, b, c⟩
      showBool r.a ++ " " ++ showBool r.b ++ " " ++ showBool r.c
    | _, _, _, _ => err "format"
  | "sizepair" :: lo :: hi :: [] =>
    match lo.toInt?, hi.toInt? with
    | some lo, some hi => match Size.ofPair? lo hi with
      | some s => toString s.lo ++ " " ++ toString s.hi
      | none => err "value"
    | _, _ => err "format"
  | "supersize" :: e :: n :: rest =>
    match e.toNat?, n.toNat?, parseRats? (rest.take 12), parseInts? ((rest.drop 12).take 6) with
    | some e, some n, some bx, some [l0, h0, l1, h1, l2, h2] =>
      match M3.ofList? (bx.take 9), V3.ofList? (bx.drop 9), parseAtoms e n (rest.drop 18),
            Size.ofPair? l0 h0, Size.ofPair? l1 h1, Size.ofPair? l2 h2 with
      | some v, some o, some atoms, some sa, some sb, some sc =>
        showResult (supersize ⟨v, o⟩ sa sb sc atoms)
      | some _, some _, some _, _, _, _ => err "value"
      | _, _, _, _, _, _ => err "format"
    | _, _, _, _ => err "format"
  | "sizeint" :: n :: [] =>
    match n.toInt? with
    | some n => match Size.ofInt? n with
      | some s => toString s.lo ++ " " ++ toString s.hi
      | none => err "value"
    | none => err "format"
  | "rotate" :: e :: n :: rest =>
    match e.toNat?, n.toNat?, parseRats? (rest.take 12), parseInts? ((rest.drop 12).take 9) with
    | some e, some n, some bx, some us =>
      match M3.ofList? (bx.take 9), V3.ofList? (bx.drop 9), M3.ofList? us, parseAtoms e n (rest.drop 21) with
      | some v, some o, some U, some atoms =>
        -- both refusals of the code (planar vectors, "Filtering failed") are ValueError
        match rotate Rat.floor ⟨v, o⟩ U atoms with
        | .ok r => showResult r
        | .error _ => err "value"
      | _, _, _, _ => err "format"
    | _, _, _, _ => err "format"
  -- rotatef e n box(12) k uvws(k = 9 | 12 rationals) atoms: float / hexagonal 4-index uvws
  | "rotatef" :: e :: n :: rest =>
    match e.toNat?, n.toNat?, parseRats? (rest.take 12), ((rest.drop 12).head?).bind String.toNat? with
    | some e, some n, some bx, some k =>
      match M3.ofList? (bx.take 9), V3.ofList? (bx.drop 9), parseRats? ((rest.drop 13).take k),
            parseAtoms e n (rest.drop (13 + k)) with
      | some v, some o, some us, some atoms =>
        let rtol : Rat := 1 / 100000
        let atol : Rat := 1 / 100000000
        let u3 : Option (Option (M3 Rat)) :=
          match us with
          | [a, b, c, d, e', f, g, h, i] => some (some ⟨⟨a, b, c⟩, ⟨d, e', f⟩, ⟨g, h, i⟩⟩)
          | [a0, a1, a2, a3, b0, b1, b2, b3, c0, c1, c2, c3] =>
            match hex4to3? atol a0 a1 a2 a3, hex4to3? atol b0 b1 b2 b3, hex4to3? atol c0 c1 c2 c3 with
            | some r0, some r1, some r2 => some (some ⟨r0, r1, r2⟩)
            | _, _, _ => some none
          | _ => none
        match u3 with
        | none => err "format"
        | some none => err "value"
        | some (some u) =>
          match rotateF Rat.floor rtol atol ⟨v, o⟩ u atoms with
          | .ok r => showResult r
          | .error _ => err "value"
      | _, _, _, _ => err "format"
    | _, _, _, _ => err "format"
  -- accept k x1..xk: the integer test alone -> the accepted integers or err:value
  | "accept" :: xs =>
    match parseRats? xs with
    | some l =>
      match l.mapM (acceptIndex? Rat.floor (1 / 100000 : Rat) (1 / 100000000 : Rat)) with
      | some ns => showInts ns
      | none => err "value"
    | none => err "format"
  -- basis setting n box(12) atoms(e = 0): 1 / 0 / err:value (multiple overlapping atoms)
  | "basis" :: setting :: n :: rest =>
    match n.toNat?, parseRats? (rest.take 12) with
    | some n, some bx =>
      match M3.ofList? (bx.take 9), V3.ofList? (bx.drop 9), parseAtoms 0 n (rest.drop 12) with
      | some v, some o, some atoms =>
        match checkBasis Rat.floor ⟨v, o⟩ setting atoms with
        | none => err "op"
        | some none => err "value"
        | some (some b) => showBool b
      | _, _, _ => err "format"
    | _, _ => err "format"
  -- family rtol atol a b c alpha beta gamma: Box.identifyfamily(rtol, atol) on the six lattice parameters
  | "family" :: xs =>
    match parseRats? xs with
    | some [rtol, atol, a, b, c, al, be, ga] =>
      match identifyFamily (closeK rtol atol) (90 : Rat) 120 ⟨a, b, c, al, be, ga⟩ with
      | some f => f.name
      | none => "none"
    | _ => err "format"
  -- resolve setting checkBasis checkFamily rtol atol a b c alpha beta gamma n box(12) atoms(e = 0): the setting
  -- conventional_to_primitive works with (family test + lattice-site test at the caller's tolerances; 't' -> t1 / t2)
  | "resolve" :: setting :: cb :: cf :: rest =>
    match parseBool? cb, parseBool? cf, parseRats? (rest.take 8), ((rest.drop 8).head?).bind String.toNat?,
          parseRats? ((rest.drop 9).take 12) with
    | some cb, some cf, some [rtol, atol, a, b, c, al, be, ga], some n, some bx =>
      match M3.ofList? (bx.take 9), V3.ofList? (bx.drop 9), parseAtoms 0 n (rest.drop 21) with
      | some v, some o, some atoms =>
        let fam := identifyFamily (closeK rtol atol) (90 : Rat) 120 ⟨a, b, c, al, be, ga⟩
        match resolveSetting (fun s => checkSettingBasis Rat.floor fam ⟨v, o⟩ (atol * atol) cf s atoms) cb setting with
        | some s => s
        | none => err "value"
      | _, _, _ => err "format"
    | _, _, _, _, _ => err "format"
  -- rotatel e n box(12) k tol(k rationals) U(9 ints) atoms: rotate WITH the tolerance ladder (rotateLadder)
  | "rotatel" :: e :: n :: rest =>
    match e.toNat?, n.toNat?, parseRats? (rest.take 12), ((rest.drop 12).head?).bind String.toNat? with
    | some e, some n, some bx, some k =>
      match M3.ofList? (bx.take 9), V3.ofList? (bx.drop 9), parseRats? ((rest.drop 13).take k),
            (parseInts? ((rest.drop (13 + k)).take 9)).bind M3.ofList?, parseAtoms e n (rest.drop (22 + k)) with
      | some v, some o, some tols, some U, some atoms =>
        if tols.length ≠ k then err "format" else
        match rotateLadder Rat.floor tols ⟨v, o⟩ U atoms with
        | .ok r => showResult r
        | .error e => err e
      | _, _, _, _, _ => err "format"
    | _, _, _, _ => err "format"
  -- sizeargs a0 a1 a2 with a = i<n> | p<lo>,<hi> | o: the argument check of supersize (resolveSizes)
  | "sizeargs" :: a0 :: a1 :: a2 :: [] =>
    let parse (t : String) : Option SizeArg :=
      match t.toList with
      | 'i' :: cs => (String.ofList cs).toInt?.map SizeArg.int
      | 'p' :: cs =>
        match (String.ofList cs).splitOn "," with
        | [a, b] => match a.toInt?, b.toInt? with
          | some a, some b => some (SizeArg.pair a b)
          | _, _ => none
        | _ => none
      | ['o'] => some SizeArg.other
      | _ => none
    match parse a0, parse a1, parse a2 with
    | some a0, some a1, some a2 =>
      match resolveSizes a0 a1 a2 with
      | .ok (sa, sb, sc) => showInts [sa.lo, sa.hi, sb.lo, sb.hi, sc.lo, sc.hi]
      | .error e => err e
    | _, _, _ => err "format"
  -- convuvws setting: multip, the vectors conventional_to_primitive hands to rotate (or `x`), those of primitive_to_conventional
  | "convuvws" :: setting :: [] =>
    let sh (m : Option (M3 Int)) : String := match m with
      | some M => showInts M.toList
      | none => "x"
    toString (multip setting) ++ " | " ++ sh (c2pUvws setting) ++ " | " ++ sh (p2cUvws setting)
  | _ => err "op"

def main : IO Unit := runDriver handleC04
