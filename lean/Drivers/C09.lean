import Atomman.Prelude
import Atomman.C09
import Atomman.Generated.UnitTable
import Atomman.Generated.LammpsStyle
open Atomman Atomman.C09 Atomman.Gen

/-!
  Line protocol of the C09 model driver (stateful: the state is the five base-unit scalings
  `nu.m nu.kg nu.s nu.C nu.K`, initially all 1 = `reset_units('SI')`).  Strings travel as decimal code
  points; numbers as exact rationals `p/q`.  The unit table is `Atomman.Gen.unitTable` (regenerated from
  numericalunits on every run), the style tables `Atomman.Gen.styleTables` (from atomman/lammps/style.py).

    scales m kg s C K          → ok                      set the state
    parse cp…                  → value | err:value        `uc.parse(str)`  under the state scalings
    parseu cp…                 → value | err:value        `uc.parse(str)` incl. the 'scaled' rule
    parsenone                  → 1                        `uc.parse(None)`
    track cp…                  → v m kg s C K | err:value SI value and (rational) dimension (`trackAlgR`)
    dim cp…                    → m kg s C K qval|- | err  dimension analysis alone (`qdimAlg`; exponents `n` or `p/q`)
    unit cp…                   → value | err:value        `uc.unit[name]` under the state scalings
    set n x1…xn cp…            → n values | err           `uc.set_in_units([x…], str)`
    get n x1…xn cp…            → n values | err           `uc.get_in_units([x…], str)`
    setc 2n re1 im1 … cp…      → 2n values | err          `uc.set_in_units` of n COMPLEX values (`setInUnitsC`: the factor is
    getc 2n re1 im1 … cp…      → 2n values | err          promoted to f + 0j; complex product / quotient), parts interleaved
    setlit cp…                 → value | err:value        `uc.set_literal(str)` when the result is a scalar
    setlitv cp…                → shape | values | err     `uc.set_literal(str)`: shape (`-` scalar, else d1,d2,…) and the
                                                          values in row-major order (numbers, nested lists / tuples)
    radicand L M T E Q         → value | none             quantity under the square root of `reset_units`
                                                          (each of L M T E Q: `-` or cp,cp,…)
    reset L M T E Q r          → m kg s C K | err:value   base scalings after `reset_units(**kw)`, `r` = the root
    sreset L M T E Q r         → m kg s C K | err:value   the session call `Call.reset`: same reply, and the STATE becomes
                                                          `Call.next` (unchanged when > 4 keywords, SI when the call raises
                                                          half-way, the computed scalings otherwise)
    conv n x1…xn cp… | cp…     → n values | err           `uc.get_in_units(uc.set_in_units([x…], s1), s2)` (`Call.convert`)
  The reads `parseu`, `unit`, `setlit`, `conv` are answered by `Call.reply` of the session model (Atomman/C09.lean).
    nstyles                    → 8
    style i                    → name n  then n × (label-with-_ | cp,cp,…)   generated style table i
    styleok i                  → 0/1                      `styleDimsOK unitTable (styleTables[i])`
    tableok                    → 0/1
    nunits / uname i           → count / cp,cp,…          names of the generated unit table
    halfnames                  → cp,… cp,… …              names outside the table (half-integral dimension)
  Rational exponents: the driver runs `numAlgR` with `rpow := ratRpow` — exact when the power is rational, otherwise
  correct to about 2^-200 relative (the laws `RpowLaws` hold for it to that accuracy, as `r·r = x` does for the double
  square root handed to `reset`).  A value obtained that way is marked inexact in the guard pass; used as an exponent
  it makes the reply `err:size` (an irrational exponent is outside the model).
  Size guard (driver only, not part of the proved model): every numeric request is first evaluated over `gvAlg`,
  a copy of `numAlgR` in which a value whose numerator/denominator would exceed ~2·10^5 bits, a power with an
  exponent beyond 4096 or a literal with a decimal exponent beyond 5000 is replaced by the token `big` (propagated by
  every operation; dividing by a zero *value* still fails).  `big` as result → reply `err:size` (the harness does not compare such cases);
  no value → `err:value`; a value → no `big` occurred anywhere, and the request is evaluated by the proved `numAlg`,
  whose answer is the reply.
    rpath S k1 v1 k2 v2 …      → seeded | named L M T E Q | refuse-count | refuse-seed
                                                          which way `reset_units(seed, **kwargs)` goes (`resetPath`): S = 0/1 a seed
                                                          other than None is given; keywords and names as cp,cp,… in call order
    rcall S r k1 v1 …          → as rpath, for `named` followed by ` | m kg s C K` or ` | err:value`; the STATE becomes
                                                          `resetCall` (unchanged for refusals and for `seeded`)
    ucmodel SH U n x1…xn       → kind shape unit | values  `uc.model(array, units)` (`ucModel`): SH = `-` (0-d) or d1,d2,…;
                                                          U = `-` (None) or cp,…; kind S (a number) / L (a list); shape `-` or d1,d2,…
    valunit kind SH U n x1…xn  → shape | values            `uc.value_unit(term)` (`valueUnit`) for a term with these keys
    rparse lvl W tree…         → string | parse | evalAst  the MODEL's `render W lvl tree` (W: `-` or cp,cp,… blanks),
                                                          its `parse` and the tree's `evalAst` under the state scalings
                                                          (tree in prefix form: N cp,… | L cp,… | M a b | D a b | P a b)
-/

namespace C09Drv

def chars? (toks : List String) : Option (List Char) :=
  (parseNats? toks).map (·.map Char.ofNat)

/-- `-` or `cp,cp,…`. -/
def optName? (t : String) : Option (Option (List Char)) :=
  if t = "-" then some none
  else ((t.splitOn ",").mapM String.toNat?).map fun l => some (l.map Char.ofNat)

def showName (n : List Char) : String := ",".intercalate (n.map fun c => toString c.toNat)

def choice? : List String → Option Choice
  | [l, m, t, e, q] =>
    match optName? l, optName? m, optName? t, optName? e, optName? q with
    | some l, some m, some t, some e, some q => some ⟨l, m, t, e, q⟩
    | _, _, _, _, _ => none
  | _ => none

/-- prefix-form expression tree: `(tree, remaining tokens)`; fuel = number of tokens. -/
def tree? : Nat → List String → Option (Expr × List String)
  | 0, _ => none
  | f + 1, toks =>
    match toks with
    | "N" :: n :: rest => ((n.splitOn ",").mapM String.toNat?).map fun l => (.name (l.map Char.ofNat), rest)
    | "L" :: n :: rest => ((n.splitOn ",").mapM String.toNat?).map fun l => (.num (l.map Char.ofNat), rest)
    | op :: rest =>
      if op = "M" ∨ op = "D" ∨ op = "P" then
        match tree? f rest with
        | some (a, r1) =>
          match tree? f r1 with
          | some (b, r2) =>
            some ((if op = "M" then Expr.mul a b else if op = "D" then Expr.div a b else Expr.pow a b), r2)
          | none => none
        | none => none
      else none
    | [] => none

/-- the algebra the driver runs: `numAlgR` (every theorem about `numAlg` applies to it by `parse_rpow_extends`). -/
def rAlg : Alg Rat := numAlgR (fun q => some q) ratRpow

def tAlg : Alg (Rat × Q5) := trackAlgR (fun q => some q) ratRpow

/-- `-` or `d1,d2,…`. -/
def shape? (t : String) : Option (List Nat) :=
  if t = "-" then some [] else (t.splitOn ",").mapM String.toNat?

def showShape (sh : List Nat) : String := if sh.isEmpty then "-" else ",".intercalate (sh.map toString)

def showOptName (o : Option (List Char)) : String :=
  match o with
  | some n => if n.isEmpty then "e" else showName n
  | none => "-"

/-- `k1 v1 k2 v2 …` (each cp,cp,…; `e` = the empty string). -/
def kwargs? : List String → Option (List (String × List Char))
  | [] => some []
  | [_] => none
  | k :: v :: rest =>
    let dec (t : String) : Option (List Char) :=
      if t = "e" then some [] else ((t.splitOn ",").mapM String.toNat?).map (·.map Char.ofNat)
    match dec k, dec v, kwargs? rest with
    | some k, some v, some r => some ((String.ofList k, v) :: r)
    | _, _, _ => none

def showPath : ResetPath → String
  | .seeded => "seeded"
  | .refuseCount => "refuse-count"
  | .refuseSeed => "refuse-seed"
  | .named ch => "named " ++ " ".intercalate ([ch.length, ch.mass, ch.time, ch.energy, ch.charge].map showOptName)

/-- guarded values: an exact rational of moderate size, an approximation (a non-integer power that is not rational
    occurred below), "too big to write down", or "an inexact value was used as an exponent". -/
inductive GV where
  | val (q : Rat)
  | apx (q : Rat)
  | big
  | irr

def qsize (q : Rat) : Nat := q.num.natAbs.log2 + q.den.log2

def gval (exact : Bool) (q : Rat) : GV := if qsize q > 200000 then .big else if exact then .val q else .apx q

/-- `(value, exact?)` of a guarded value that is a number. -/
def GV.num? : GV → Option (Rat × Bool)
  | .val q => some (q, true)
  | .apx q => some (q, false)
  | _ => none

def GV.isIrr : GV → Bool
  | .irr => true
  | _ => false

def gvAlg : Alg GV where
  mul a b :=
    if a.isIrr || b.isIrr then some .irr else
    match a.num?, b.num? with
    | some (x, ex), some (y, ey) => some (gval (ex && ey) (x * y))
    | _, _ => some .big
  div a b :=
    if a.isIrr || b.isIrr then some .irr else
    match a.num?, b.num? with
    | some (x, ex), some (y, ey) => if y = 0 then none else some (gval (ex && ey) (x / y))
    | none, some (y, _) => if y = 0 then none else some .big
    | _, none => some .big
  pow a b :=
    if a.isIrr || b.isIrr then some .irr else
    match b with
    | .big => some .big
    | .irr => some .irr
    | .apx _ => some .irr
    | .val y =>
      match a.num? with
      | none => some .big
      | some (x, ex) =>
        if y.den = 1 then
          let n := y.num
          if x = 0 ∧ n < 0 then none
          else if n.natAbs > 4096 ∨ (qsize x + 1) * n.natAbs > 200000 then some .big
          else some (gval ex (powInt x n))
        else if 0 < x then
          if y.num.natAbs > 4096 ∨ y.den > 4096 ∨ (qsize x + 1) * y.num.natAbs > 200000 then some .big
          else
            let r := ratRpowE x y
            some (gval (ex && r.2) r.1)
        else if x = 0 ∧ 0 < y then some (.val 0)
        else none
  num m e := if e.natAbs > 5000 then some .big else some (gval true (litVal m e))

def isBig : Option GV → Bool
  | some .big => true
  | some .irr => true
  | _ => false

def showO (o : Option Rat) : String :=
  match o with
  | some v => showRat v
  | none => err "value"

/-- a rational exponent: `n` when integral, else `p/q`. -/
def showQ (q : Rat) : String := if q.den = 1 then toString q.num else toString q.num ++ "/" ++ toString q.den

def showD (d : Q5) : String := " ".intercalate ([d.m, d.kg, d.s, d.c, d.k].map showQ)

def splitCount (toks : List String) : Option (List Rat × List Char) :=
  match toks with
  | n :: rest =>
    match n.toNat? with
    | some n =>
      match parseRats? (rest.take n), chars? (rest.drop n) with
      | some xs, some cs => if xs.length = n then some (xs, cs) else none
      | _, _ => none
    | none => none
  | [] => none

def showL (o : Option (List Rat)) : String :=
  match o with
  | some vs => showRats vs
  | none => err "value"

/-- `n x1…xn cp… | cp…`. -/
def splitCount2 (toks : List String) : Option (List Rat × List Char × List Char) :=
  match toks with
  | n :: rest =>
    match n.toNat? with
    | some n =>
      let strs := rest.drop n
      let a := strs.takeWhile (· ≠ "|")
      let b := (strs.dropWhile (· ≠ "|")).drop 1
      match parseRats? (rest.take n), chars? a, chars? b with
      | some xs, some c1, some c2 => if xs.length = n then some (xs, c1, c2) else none
      | _, _, _ => none
    | none => none
  | [] => none

/-- guard pre-pass, then the proved algebra. -/
def guarded (pre : Option GV) (run : Unit → String) : String :=
  match pre with
  | some .big => err "size"
  | some .irr => err "size"
  | none => err "value"
  | some _ => run ()

def step (sc : Scales Rat) (toks : List String) : Scales Rat × String :=
  let env := envOf unitTable sc
  let envG : List Char → Option GV := fun n => (env n).map GV.val
  match toks with
  | "scales" :: rest =>
    match parseRats? rest with
    | some [m, kg, s, c, k] => (⟨m, kg, s, c, k⟩, "ok")
    | _ => (sc, err "format")
  | "parse" :: rest =>
    match chars? rest with
    | some cs => (sc, guarded (parse gvAlg envG cs) fun _ => showO (parse rAlg env cs))
    | none => (sc, err "format")
  | "parseu" :: rest =>
    match chars? rest with
    | some cs => (sc, guarded (parseUnits gvAlg envG (some cs)) fun _ => showL ((Call.parse (some cs)).reply rAlg unitTable sc))
    | none => (sc, err "format")
  | ["parsenone"] => (sc, showO (parseUnits rAlg env none))
  | "track" :: rest =>
    match chars? rest with
    | some cs =>
      (sc, guarded (parse gvAlg (fun n => (envSI (K := Rat) unitTable n).map GV.val) cs) fun _ =>
        match parse tAlg (envTrackedQ unitTable) cs with
        | some (v, d) => showRat v ++ " " ++ showD d
        | none => err "value")
    | none => (sc, err "format")
  | "dim" :: rest =>
    match chars? rest with
    | some cs =>
      match parse qdimAlg (envQDim unitTable) cs with
      | some dv => (sc, showD dv.dim ++ " " ++ (match dv.qval with | some q => showQ q | none => "-"))
      | none => (sc, err "value")
    | none => (sc, err "format")
  | "unit" :: rest =>
    match chars? rest with
    | some cs => (sc, showL ((Call.unit cs).reply rAlg unitTable sc))
    | none => (sc, err "format")
  | "set" :: rest =>
    match splitCount rest with
    | some (xs, cs) =>
      (sc, guarded (parseUnits gvAlg envG (some cs)) fun _ =>
        match parseUnits rAlg env (some cs) with
        | some f => showRats (setInUnits xs f)
        | none => err "value")
    | none => (sc, err "format")
  | "get" :: rest =>
    match splitCount rest with
    | some (xs, cs) =>
      (sc, guarded (parseUnits gvAlg envG (some cs)) fun _ =>
        match parseUnits rAlg env (some cs) with
        | some f => if f = 0 then err "value" else showRats (getInUnits xs f)
        | none => err "value")
    | none => (sc, err "format")
  | "setc" :: rest =>
    match splitCount rest with
    | some (xs, cs) =>
      (sc, guarded (parseUnits gvAlg envG (some cs)) fun _ =>
        match parseUnits rAlg env (some cs) with
        | some f => if xs.length % 2 = 1 then err "format" else showRats (cxFlat (setInUnitsC (cxPairs xs) f))
        | none => err "value")
    | none => (sc, err "format")
  | "getc" :: rest =>
    match splitCount rest with
    | some (xs, cs) =>
      (sc, guarded (parseUnits gvAlg envG (some cs)) fun _ =>
        match parseUnits rAlg env (some cs) with
        | some f => if f = 0 then err "value" else if xs.length % 2 = 1 then err "format"
                    else showRats (cxFlat (getInUnitsC (cxPairs xs) f))
        | none => err "value")
    | none => (sc, err "format")
  | "setlit" :: rest =>
    match chars? rest with
    | some cs =>
      if (splitPoints cs).any fun j =>
          let unit := strip (cs.drop j)
          isBig (parseUnits gvAlg envG (if unit.isEmpty then none else some unit)) then (sc, err "size")
      else (sc, showL ((Call.setlit cs).reply rAlg unitTable sc))
    | none => (sc, err "format")
  | "setlitv" :: rest =>
    match chars? rest with
    | some cs =>
      if (splitPoints cs).any fun j =>
          let unit := strip (cs.drop j)
          isBig (parseUnits gvAlg envG (if unit.isEmpty then none else some unit)) then (sc, err "size")
      else
        match setLiteralV rAlg env cs with
        | some (sh, vs) =>
          (sc, (if sh.isEmpty then "-" else ",".intercalate (sh.map toString)) ++ " | " ++ showRats vs)
        | none => (sc, err "value")
    | none => (sc, err "format")
  | "radicand" :: rest =>
    match choice? rest with
    | some ch =>
      match radicand (envSI (K := Rat) unitTable) ch with
      | some x => (sc, showRat x)
      | none => (sc, "none")
    | none => (sc, err "format")
  | ["reset", l, m, t, e, q, r] =>
    match choice? [l, m, t, e, q], parseRat? r with
    | some ch, some r =>
      match resetScales (envSI (K := Rat) unitTable) ch r with
      | some s => (sc, showRats [s.m, s.kg, s.s, s.c, s.k])
      | none => (sc, err "value")
    | _, _ => (sc, err "format")
  | ["sreset", l, m, t, e, q, r] =>
    match choice? [l, m, t, e, q], parseRat? r with
    | some ch, some r =>
      let c : Call Rat := .reset ch r
      (c.next unitTable sc, showL (c.reply rAlg unitTable sc))
    | _, _ => (sc, err "format")
  | "conv" :: rest =>
    match splitCount2 rest with
    | some (xs, c1, c2) =>
      if isBig (parseUnits gvAlg envG (some c1)) || isBig (parseUnits gvAlg envG (some c2)) then (sc, err "size")
      else (sc, showL ((Call.convert xs (some c1) (some c2)).reply rAlg unitTable sc))
    | none => (sc, err "format")
  | ["nstyles"] => (sc, toString styleTables.length)
  | ["style", i] =>
    match i.toNat? with
    | some i =>
      match styleTables[i]? with
      | some st =>
        (sc, st.style ++ " " ++ toString st.entries.length ++ " " ++
          " ".intercalate (st.entries.map fun le => (le.1.replace " " "_") ++ " " ++ showName le.2))
      | none => (sc, err "value")
    | none => (sc, err "format")
  | ["styleok", i] =>
    match i.toNat? with
    | some i =>
      match styleTables[i]? with
      | some st => (sc, showBool (styleDimsOK unitTable st))
      | none => (sc, err "value")
    | none => (sc, err "format")
  | ["tableok"] => (sc, showBool (tableOK unitTable))
  | ["nunits"] => (sc, toString unitTable.length)
  | ["uname", i] =>
    match i.toNat? with
    | some i =>
      match unitTable[i]? with
      | some e => (sc, showName e.name)
      | none => (sc, err "value")
    | none => (sc, err "format")
  | "rparse" :: lvl :: w :: rest =>
    match lvl.toNat?, optName? w, tree? (rest.length + 1) rest with
    | some lvl, some w, some (e, []) =>
      let str := render (w.getD []) lvl e
      if isBig (parse gvAlg envG str) then (sc, err "size")
      else (sc, showName str ++ " | " ++ showO (parse rAlg env str) ++ " | " ++ showO (evalAst rAlg env e))
    | _, _, _ => (sc, err "format")
  | "rpath" :: sg :: rest =>
    match kwargs? rest with
    | some kw => (sc, showPath (resetPath ⟨sg = "1", kw⟩))
    | none => (sc, err "format")
  | "rcall" :: sg :: r :: rest =>
    match kwargs? rest, parseRat? r with
    | some kw, some r =>
      let a : ResetArgs := ⟨sg = "1", kw⟩
      let p := resetPath a
      let tail := match p with
        | .named ch =>
          match resetScales (envSI (K := Rat) unitTable) ch r with
          | some s => " | " ++ showRats [s.m, s.kg, s.s, s.c, s.k]
          | none => " | " ++ err "value"
        | _ => ""
      (resetCall unitTable sc a sc r, showPath p ++ tail)
    | _, _ => (sc, err "format")
  | "ucmodel" :: sh :: u :: rest =>
    match shape? sh, optName? u, splitCount rest with
    | some sh, some u, some (xs, []) =>
      (sc, guarded (parseUnits gvAlg envG u) fun _ =>
        match ucModel rAlg env ⟨sh, xs⟩ u with
        | some t => (if t.scalar then "S " else "L ") ++ (match t.shape with | some s => showShape s | none => "-")
                      ++ " " ++ showOptName t.unit ++ " | " ++ showRats t.vals
        | none => err "value")
    | _, _, _ => (sc, err "format")
  | "valunit" :: kind :: sh :: u :: rest =>
    match optName? u, splitCount rest with
    | some u, some (xs, []) =>
      let shp : Option (Option (List Nat)) := if sh = "-" then some none else (shape? sh).map some
      match shp with
      | some shp =>
        (sc, guarded (parseUnits gvAlg envG u) fun _ =>
          match valueUnit rAlg env ⟨kind = "S", xs, shp, u⟩ with
          | some a => showShape a.shape ++ " | " ++ showRats a.vals
          | none => err "value")
      | none => (sc, err "format")
    | _, _ => (sc, err "format")
  | ["halfnames"] => (sc, " ".intercalate (halfIntegralNames.map showName))
  | _ => (sc, err "op")

end C09Drv

def main : IO Unit := runDriverS C09Drv.step ⟨1, 1, 1, 1, 1⟩
