import Atomman.Prelude
open Atomman

/-- stub: replaced when the C09 model is built. -/
def handleC09 (_toks : List String) : String := err "op"

def main : IO Unit := runDriver handleC09
