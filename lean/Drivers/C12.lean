import Atomman.Prelude
open Atomman

/-- stub: replaced when the C12 model is built. -/
def handleC12 (_toks : List String) : String := err "op"

def main : IO Unit := runDriver handleC12
