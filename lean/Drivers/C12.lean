import Atomman.C12
open Atomman Atomman.C12

/-! line-protocol driver of the C12 model: real ops at `F := Rat`, Stroh ops at `F := Cx Rat`
    (complex numbers on the wire as `re im` pairs).  See harness/props/c12.py for the ops. -/

namespace C12Drv

abbrev Q := Rat
abbrev C := Cx Rat

def takeN (n : Nat) (xs : List Q) : Option (List Q × List Q) :=
  if xs.length < n then none else some (xs.take n, xs.drop n)

def take1 (xs : List Q) : Option (Q × List Q) :=
  match xs with
  | a :: r => some (a, r)
  | [] => none

def takeNat (xs : List Q) : Option (Nat × List Q) :=
  match xs with
  | a :: r => if a.den = 1 ∧ 0 ≤ a.num then some (a.num.toNat, r) else none
  | [] => none

def takeBool (xs : List Q) : Option (Bool × List Q) :=
  match xs with
  | a :: r => if a = 1 then some (true, r) else if a = 0 then some (false, r) else none
  | [] => none

/-! tables: a function value is tabulated into an `Array` (data, computed once where it is bound) and read
    back through a partial application that captures the array — a `def` returning a closure over a local
    `let` would be eta-expanded by the compiler and recompute the table on every access. -/
section tab
variable {F : Type} [Zero F]
def arrVec (a : Array F) : Vec F := fun i => a.getD i.val 0
def arrMat (a : Array F) : Mat F := fun i j => a.getD (3 * i.val + j.val) 0
def arrMat6 (a : Array F) : Fin 6 → Fin 6 → F := fun i j => a.getD (6 * i.val + j.val) 0
def arrTen4 (a : Array F) : Ten4 F := fun i j k l => a.getD (27 * i.val + 9 * j.val + 3 * k.val + l.val) 0
def arr6 (a : Array F) : Fin 6 → F := fun i => a.getD i.val 0
def tabVec (v : Vec F) : Array F := #[v 0, v 1, v 2]
def tabMat (M : Mat F) : Array F := (matToList M).toArray
def tabTen4 (T : Ten4 F) : Array F :=
  (fin3.flatMap fun i => fin3.flatMap fun j => fin3.flatMap fun k => fin3.map fun l => T i j k l).toArray
end tab

def takeVec (xs : List Q) : Option (Vec Q × List Q) := do
  let (a, r) ← takeN 3 xs
  let arr := a.toArray
  pure (arrVec arr, r)

def takeMat (xs : List Q) : Option (Mat Q × List Q) := do
  let (a, r) ← takeN 9 xs
  let arr := a.toArray
  pure (arrMat arr, r)

def takeMat6 (xs : List Q) : Option ((Fin 6 → Fin 6 → Q) × List Q) := do
  let (a, r) ← takeN 36 xs
  let arr := a.toArray
  pure (arrMat6 arr, r)

def pairs : List Q → List C
  | a :: b :: r => ⟨a, b⟩ :: pairs r
  | _ => []

def takeCs (n : Nat) (xs : List Q) : Option (List C × List Q) := do
  let (a, r) ← takeN (2 * n) xs
  pure (pairs a, r)

def flatC (l : List C) : List Q := l.flatMap fun z => [z.re, z.im]

def toC (q : Q) : C := ⟨q, 0⟩
def vecC (v : Vec Q) : Vec C :=
  let arr : Array C := #[toC (v 0), toC (v 1), toC (v 2)]
  arrVec arr

def done (r : Option String) : String := r.getD (err "format")

def fin6Vec (l : List C) : Fin 6 → C := arr6 l.toArray

/-- the six modes from `p` (6), `A` (6x3, row-major), `L` (6x3). -/
def modeTable (p A L : List C) : Array (Mode C) :=
  (List.range 6).toArray.map fun a =>
    ⟨p.getD a 0, arrVec ((A.drop (3 * a)).take 3).toArray, arrVec ((L.drop (3 * a)).take 3).toArray⟩
def modeAt (ms : Array (Mode C)) : Fin 6 → Mode C := fun a => ms.getD a.val ⟨0, fun _ => 0, fun _ => 0⟩

structure Problem where
  s : Setup C
  μ : Fin 6 → Mode C
  k : Fin 6 → C
  cmax : Q

/-- `Cij(36) m(3) n(3) b(3) p(6c) A(18c) L(18c) k(6c)` -/
def takeProblem (xs : List Q) : Option (Problem × List Q) := do
  let (c, r) ← takeMat6 xs
  let (m, r) ← takeVec r
  let (n, r) ← takeVec r
  let (b, r) ← takeVec r
  let (p, r) ← takeCs 6 r
  let (A, r) ← takeCs 18 r
  let (L, r) ← takeCs 18 r
  let (k, r) ← takeCs 6 r
  let carr : Array C := tabTen4 (cijkl fun i j => toC (c i j))
  let ms := modeTable p A L
  let karr := k.toArray
  let cmax : Q := maxAbsTen4 (cijkl c)
  pure (⟨⟨arrTen4 carr, vecC m, vecC n, vecC b⟩, modeAt ms, arr6 karr, cmax⟩, r)

def conjModeQ (μ : Mode C) : Mode C := ⟨Cx.conj μ.p, fun i => Cx.conj (μ.A i), fun i => Cx.conj (μ.L i)⟩

def modeEq (a b : Mode C) : Bool :=
  a.p == b.p && fin3.all (fun i => a.A i == b.A i) && fin3.all (fun i => a.L i == b.L i)

def vecCs (v : Vec C) : List C := fin3.map v
def matCs (M : Mat C) : List C := fin3.flatMap fun i => fin3.map fun j => M i j

def vecOfQ (l : List Q) : Vec C := vecC (arrVec l.toArray)

/-- one session on the object model: `n` steps read from the wire; replies of the `read` steps are appended to `acc`. -/
def runSeq (piC : C) (np : Nat) : Nat → World C → List Q → List Q → Option (List Q)
  | 0, _, _, acc => some acc
  | n + 1, w, xs, acc =>
    match xs with
    | [] => none
    | code :: r =>
      if code = 0 then do
        let (logs, r) ← takeN (12 * np) r
        let lgs : List (Fin 6 → C) := (List.range np).map fun q => arr6 (pairs ((logs.drop (12 * q)).take 12)).toArray
        let et := w.etas.map fun e => fin6.map e
        let us := (w.disps piC Cx.I lgs).map vecCs
        let es := (w.strains piC Cx.I).map matCs
        let ss := (w.stresses piC Cx.I).map matCs
        let rows := List.zipWith (fun a b => a ++ b) (List.zipWith (fun a b => a ++ b) (List.zipWith (fun a b => a ++ b) et us) es) ss
        runSeq piC np n w r (acc ++ flatC rows.flatten)
      else if code = 1 then do
        let (i, r) ← takeNat r
        let (x, r) ← takeN 3 r
        runSeq piC np n (w.edit (.posSet i (vecOfQ x))) r acc
      else if code = 2 then do
        let (t, r) ← take1 r
        runSeq piC np n (w.edit (.posScale (toC t))) r acc
      else if code = 3 then do
        let (d, r) ← takeN 3 r
        runSeq piC np n (w.edit (.posShift (vecOfQ d))) r acc
      else if code = 4 then do
        let (j, r) ← takeNat r
        let (h, r) ← take1 r
        if hj : j < 3 then runSeq piC np n (w.edit (.posCol ⟨j, hj⟩ (toC h))) r acc else none
      else if code = 5 then do
        let (l, r) ← takeN (3 * np) r
        let ps := (List.range np).map fun q => vecOfQ ((l.drop (3 * q)).take 3)
        runSeq piC np n (w.edit (.posAll ps)) r acc
      else if code = 6 then do
        let (v, r) ← takeN 3 r
        runSeq piC np n (w.edit (.argB (vecOfQ v))) r acc
      else if code = 7 then do
        let (v, r) ← takeN 3 r
        runSeq piC np n (w.edit (.argM (vecOfQ v))) r acc
      else if code = 8 then do
        let (v, r) ← takeN 3 r
        runSeq piC np n (w.edit (.argN (vecOfQ v))) r acc
      else if code = 9 then do
        let (f, r) ← take1 r
        let Cold := w.args.C
        let carr : Array C := tabTen4 fun i j k l => toC f * Cold i j k l
        runSeq piC np n (w.edit (.argC (arrTen4 carr))) r acc
      else if code = 10 then do
        let (T, r) ← takeN 9 r
        let tarr : Array C := (T.map toC).toArray
        runSeq piC np n (w.edit (.argT (arrMat tarr))) r acc
      else none

/-- `seq pi <problem> npts [x(3)]* nsteps [step]*` -/
def handleSeq (xs : List Q) : String := done do
  let (pi, r) ← take1 xs
  let (P, r) ← takeProblem r
  let (np, r) ← takeNat r
  let (pts, r) ← takeN (3 * np) r
  let (ns, r) ← takeNat r
  let ps := (List.range np).map fun q => vecOfQ ((pts.drop (3 * q)).take 3)
  let one : Array C := #[1, 0, 0, 0, 1, 0, 0, 0, 1]
  let w : World C := ⟨⟨P.s.C, arrMat one, P.s.m, P.s.n, P.s.b⟩, ps, ⟨P.s, P.μ, P.k⟩⟩
  let out ← runSeq (toC pi) np ns w r []
  pure (showRats out)

def handle (toks : List String) : String :=
  match toks with
  | [] => err "op"
  | op :: rest =>
    match parseRats? rest with
    | none => err "format"
    | some xs =>
      match op with
      -- __mn_check for array-valued axes: `mn tol cart m n`
      | "mn" => done do
          let (tol, r) ← take1 xs
          let (cart, r) ← takeBool r
          let (m, r) ← takeVec r
          let (n, _) ← takeVec r
          if !(unitOk tol m) || (cart && !(cartAligned tol m)) then pure (err "assert") else
          if !(unitOk tol n) || (cart && !(cartAligned tol n)) then pure (err "assert") else
          if !(mnAccept tol m n) then pure (err "assert") else pure "1"
      -- axes_check: `axes tol rtol axes(9) norms(3)`
      | "axes" => done do
          let (tol, r) ← take1 xs
          let (rtol, r) ← take1 r
          let (ax, r) ← takeMat r
          let (nm, _) ← takeVec r
          let uarr := tabMat (unitAxes ax nm)
          let u := arrMat uarr
          if !(axesOrthOk tol rtol u) then pure (err "value") else
          if !(axesRightOk tol rtol u) then pure (err "value") else
          pure (showRats (matToList u))
      -- __find_transform: `ft m n nAxis xiAxis`
      | "ft" => done do
          let (m, r) ← takeVec xs
          let (n, r) ← takeVec r
          let (na, r) ← takeVec r
          let (xa, _) ← takeVec r
          pure (showRats (matToList (findTransform m n na xa)))
      -- Miller line and plane normal of a cell: `miller vects(9) uvw(3) hkl(3)` -> `u a + v b + w c`, `h b×c + k c×a + l a×b`
      | "miller" => done do
          let (V, r) ← takeMat xs
          let (u, r) ← takeVec r
          let (h, _) ← takeVec r
          pure (showRats (vecToList (millerLine V u) ++ vecToList (millerNormal V h)))
      -- rotate C and the Burgers vector: `orient tolC tol T(9) vects(9) Cij(36) b(3)` (`tolC`: the default `tol` of
      -- `ElasticConstants.transform`, which `VolterraDislocation.solve` calls without passing its own `tol`)
      | "orient" => done do
          let (tolC, r) ← take1 xs
          let (tol, r) ← take1 r
          let (T, r) ← takeMat r
          let (vects, r) ← takeMat r
          let (c, r) ← takeMat6 r
          let (b, _) ← takeVec r
          let c' := orientC tolC T c
          pure (showRats ((fin6.flatMap fun i => fin6.map fun j => c' i j) ++ vecToList (orientB tol T vects b)))
      -- Stroh.solve on the eigen-solver's output: `stroh tol rtol pi <problem> sk(6c)`
      | "stroh" => done do
          let (tol, r) ← take1 xs
          let (rtol, r) ← take1 r
          let (pi, r) ← take1 r
          let (P, r) ← takeProblem r
          let (skl, _) ← takeCs 6 r
          let skarr := skl.toArray
          let sk := arr6 skarr
          let s := P.s
          let nnarr := tabMat s.nn
          let invarr := tabMat (inv3 (arrMat nnarr))
          let nnInv : Mat C := arrMat invarr
          let conj := modeEq (P.μ 1) (conjModeQ (P.μ 0)) && modeEq (P.μ 3) (conjModeQ (P.μ 2))
                        && modeEq (P.μ 5) (conjModeQ (P.μ 4))
          let acc := strohAccept tol rtol P.cmax P.μ P.k sk
          let top := fin6.flatMap fun a => vecCs (eigResTop s nnInv (P.μ a))
          let bot := fin6.flatMap fun a => vecCs (eigResBot s nnInv (P.μ a))
          let sext := fin6.flatMap fun a => vecCs (matVec (sextic s (P.μ a).p) (P.μ a).A)
          let lres := fin6.flatMap fun a => vecCs fun i =>
            (P.μ a).L i + sum3 fun j => (s.nm i j + (P.μ a).p * s.nn i j) * (P.μ a).A j
          let kres := fin6.map fun a => kOf (P.μ a) - P.k a
          let skres := fin6.map fun a => sk a * sk a - P.k a
          let cAL := matCs fun i j => chkAL P.μ P.k i j - kron i j
          let cAA := matCs (chkAA P.μ P.k)
          let cLL := matCs (chkLL P.μ P.k)
          let cST := fin6.flatMap fun a => fin6.map fun b => chkST P.μ sk a b - kron6 a b
          let ktarr := tabMat (kTensor Cx.I P.μ P.k)
          let Kt := arrMat ktarr
          let jump := vecCs fun i => dispJump (toC pi) Cx.I s P.μ P.k i - s.b i
          let kcarr := tabMat (kClean tol Kt)
          let Kc := arrMat kcarr
          let bq : Vec Q := fun i => (s.b i).re
          pure (showRats ([if conj then 1 else 0, if acc then 1 else 0]
            ++ flatC (top ++ bot ++ sext ++ lres ++ kres ++ skres ++ cAL ++ cAA ++ cLL ++ cST ++ matCs Kt ++ jump)
            ++ matToList Kc ++ [kCoeff Kc bq, preln pi Kc bq]))
      -- fields at points: `field pi <problem> npts [x(3) lnη(6c)]*`
      | "field" => done do
          let (pi, r) ← take1 xs
          let (P, r) ← takeProblem r
          let (np, r) ← takeNat r
          let (body, _) ← takeN (15 * np) r
          let piC := toC pi
          let out := (List.range np).flatMap fun q =>
            let row := (body.drop (15 * q)).take 15
            let x : Vec C := vecC (arrVec (row.take 3).toArray)
            let lnarr := (pairs (row.drop 3)).toArray
            let ln := arr6 lnarr
            (fin6.map fun a => eta P.s (P.μ a) x)
              ++ vecCs (dispAt piC Cx.I P.s P.μ P.k ln)
              ++ matCs (strainAt piC Cx.I P.s P.μ P.k x)
              ++ matCs (stressAt piC Cx.I P.s P.μ P.k x)
          pure (showRats (flatC out))
      -- isotropic closed form: `iso pi m n b mu nu npts [pos(3) atn logv]*`
      | "iso" => done do
          let (pi, r) ← take1 xs
          let (m, r) ← takeVec r
          let (n, r) ← takeVec r
          let (b, r) ← takeVec r
          let (mu, r) ← take1 r
          let (nu, r) ← take1 r
          let (np, r) ← takeNat r
          let (body, _) ← takeN (5 * np) r
          let s : IsoSetup Q := ⟨m, n, b, mu, nu⟩
          let out := (List.range np).flatMap fun q =>
            let row := (body.drop (5 * q)).take 5
            let posarr := (row.take 3).toArray
            let pos : Vec Q := arrVec posarr
            let atn := row.getD 3 0
            let logv := row.getD 4 0
            let x := s.x pos
            let y := s.y pos
            let r2 := x * x + y * y
            let th := thetaOf pi x y atn
            let log : Q → Q := fun a => if a = r2 then logv else 0
            [x, y, th] ++ vecToList (isoDisplacement log pi th s pos) ++ matToList (isoStrainLab pi s pos)
              ++ matToList (isoStressLab pi s pos)
          pure (showRats out)
      -- isotropic K tensor, Poisson ratio, K_coeff, preln: `isok tol pi m n b mu bulk`
      | "isok" => done do
          let (tol, r) ← take1 xs
          let (pi, r) ← take1 r
          let (m, r) ← takeVec r
          let (n, r) ← takeVec r
          let (b, r) ← takeVec r
          let (mu, r) ← take1 r
          let (bulk, _) ← take1 r
          let nu := Gen.isoNu bulk mu
          let s : IsoSetup Q := ⟨m, n, b, mu, nu⟩
          let l := matToList (isoKTensor s)
          let k0arr := l.toArray
          let K0 := arrMat k0arr
          let big := listMax (l.headD 0) l
          let kcarr := tabMat fun i j => chop tol big (K0 i j)
          let Kc : Mat Q := arrMat kcarr
          pure (showRats ([nu] ++ matToList Kc ++ [kCoeff Kc b, preln pi Kc b]))
      -- solve_volterra_dislocation / acceptance of the isotropic solver:
      -- `dispatch tol strohOk isoNormal b(3) n(3)` -> `1` (Stroh) | `2` (isotropic) | err:value, then the in-plane flag
      | "dispatch" => done do
          let (tol, r) ← take1 xs
          let (sOk, r) ← takeBool r
          let (isoN, r) ← takeBool r
          let (b, r) ← takeVec r
          let (n, _) ← takeVec r
          let inPl := isoInPlaneOk tol b n
          match dispatch sOk isoN inPl with
          | some .stroh => pure (showRats [1, if inPl then 1 else 0])
          | some .iso => pure (showRats [2, if inPl then 1 else 0])
          | none => pure (err "value")
      -- object-level session: `seq pi <problem> npts [x(3)]* nsteps [step]*`, steps: 0 read (+ np.log(eta) of the current
      -- points) | 1 i x | 2 t | 3 d | 4 j h | 5 all | 6 b | 7 m | 8 n | 9 f (C *= f) | 10 T
      | "seq" => handleSeq xs
      -- the whole of VolterraDislocation.solve (option handling, refusals in source order, transform, C, b):
      -- `base tol tolAx rtol cart mStr nStr m(3) n(3) ξ hkl hasT T(9) hasA A(9) norms(3) norms2(3) nAxis(3) ξAxis(3) vects(9) Cij(36) b(3)`
      | "base" => done do
          let (tol, r) ← take1 xs
          let (tolAx, r) ← take1 r
          let (rtol, r) ← take1 r
          let (cart, r) ← takeBool r
          let (mStr, r) ← takeBool r
          let (nStr, r) ← takeBool r
          let (m, r) ← takeVec r
          let (n, r) ← takeVec r
          let (hξ, r) ← takeBool r
          let (hhkl, r) ← takeBool r
          let (hasT, r) ← takeBool r
          let (T, r) ← takeMat r
          let (hasA, r) ← takeBool r
          let (A, r) ← takeMat r
          let (norms, r) ← takeVec r
          let (norms2, r) ← takeVec r
          let (nAxis, r) ← takeVec r
          let (ξAxis, r) ← takeVec r
          let (vects, r) ← takeMat r
          let (c, r) ← takeMat6 r
          let (b, _) ← takeVec r
          let a : BaseIn Q := ⟨tol, tolAx, rtol, cart, mStr, nStr, m, n, hξ, hhkl, if hasT then some T else none,
            if hasA then some A else none, norms, norms2, nAxis, ξAxis, vects, c, b⟩
          match baseSolve a with
          | .error e => pure (err e)
          | .ok out =>
            let tarr := tabMat out.T
            let T' := arrMat tarr
            pure (showRats (matToList T' ++ (fin6.flatMap fun i => fin6.map fun j => out.c i j) ++ vecToList out.b))
      | _ => err "op"

end C12Drv

def handleC12 (toks : List String) : String := C12Drv.handle toks

def main : IO Unit := runDriver handleC12
