import Atomman.Prelude
open Atomman

/-- stub: replaced when the C10 model is built. -/
def handleC10 (_toks : List String) : String := err "op"

def main : IO Unit := runDriver handleC10
