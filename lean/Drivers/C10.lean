import Atomman.C10
open Atomman Atomman.C10

/-!
  Line protocol of the C10 driver (see harness/props/c10.py).  Replies are JSON text:
  floats are strings `"~p/q"` (exact rationals), integers are JSON numbers.
    arr   := <f|i|s> <rank> <dims…> <data…>
    unit  := <unit string | -> <fW> <fR>        (factor under the writing / reading working units; a blank
                                                 inside a unit expression is sent as `%`)
    uc    <via> unit arr [err <error data…>]       (with err: uc.model(value, unit, error=…), reply has eread)
    box   <via> unit <12 rationals: a b c origin>
    atoms <via> <natoms> <nprops> {<name> unit arr}* [sel <k> {<name> unit}* | args pn un pu]   (selection = the prop_unit dict)
          args: the arguments of the model call in the form they were given (resolved by `resolveCall`):
          pn := - | <k> <name>*      un := - | <k> unit*      pu := - | <k> {<name> unit}*
    sys   <via> unit(box) <12 rationals> <3 pbc> <nsym> {sym|-}* <nmass> {mass|-}* <natoms> <nprops> {<name> unit arr}* [sel <k> {<name> unit}* | args pn un pu]
    ec    <via> unit <crystal system> <mu|-> <K|-> <36 C>     (mu, K: Hill estimates, `-` when they raise)
    nest  <rank> <dims…> <data…>
    obj   <12 rationals> <natoms> <pos…> {warm | c2r p | r2c p | setv m | seto o | setp <i> <v> | bread <via> unit <12 rationals>
          | bdump <via> unit | sysdump <via> unit}*   (one System object holding one Box object; reply: one value per operation)
  via = tree | json | xml (xml applies the one-element-list collapse before reading back).
-/

abbrev P (α : Type) := List String → Option (α × List String)

def pTok : P String
  | [] => none
  | t :: r => some (t, r)

def pNat : P Nat
  | [] => none
  | t :: r => t.toNat?.map (·, r)

def pRat : P Rat
  | [] => none
  | t :: r => (parseRat? t).map (·, r)

def pMany {α : Type} (p : P α) : Nat → P (List α)
  | 0, ts => some ([], ts)
  | n + 1, ts =>
    match p ts with
    | none => none
    | some (x, r) =>
      match pMany p n r with
      | none => none
      | some (xs, r') => some (x :: xs, r')

def pArr : P (Arr Rat) := fun ts =>
  match ts with
  | dt :: rk :: r =>
    match rk.toNat? with
    | none => none
    | some rank =>
      match pMany pNat rank r with
      | none => none
      | some (dims, r1) =>
        let n := prodNat dims
        if dt = "f" then
          (pMany pRat n r1).map (fun (xs, r2) => (⟨dims, .flt xs⟩, r2))
        else if dt = "i" then
          match parseInts? (r1.take n) with
          | some is => if is.length = n then some (⟨dims, .int is⟩, r1.drop n) else none
          | none => none
        else if dt = "s" then
          if (r1.take n).length = n then some (⟨dims, .str (r1.take n)⟩, r1.drop n) else none
        else none
  | _ => none

structure UnitSpec where
  unit : Option String
  fW : Rat
  fR : Rat

def pUnit : P UnitSpec := fun ts =>
  match ts with
  | u :: a :: b :: r =>
    match parseRat? a, parseRat? b with
    | some fW, some fR => some (⟨if u = "-" then none else some (u.replace "%" " "), fW, fR⟩, r)
    | _, _ => none
  | _ => none

def pProp : P (String × UnitSpec × Arr Rat) := fun ts =>
  match ts with
  | name :: r =>
    match pUnit r with
    | none => none
    | some (u, r1) => (pArr r1).map (fun (a, r2) => ((name, u, a), r2))
  | _ => none

def pSel : P (String × UnitSpec) := fun ts =>
  match ts with
  | name :: r => (pUnit r).map (fun (u, r1) => ((name, u), r1))
  | _ => none

/-- `-` (argument not given) or `<k> item*`. -/
def pOptList {α : Type} (p : P α) : P (Option (List α)) := fun ts =>
  match ts with
  | [] => none
  | t :: r =>
    if t = "-" then some (none, r) else
    match t.toNat? with
    | none => none
    | some k => (pMany p k r).map (fun (xs, r') => (some xs, r'))

/-- the arguments of a model call as given: `prop_name`, `unit`, `prop_unit` (each possibly absent). -/
structure CallArgs where
  pn : Option (List String)
  un : Option (List UnitSpec)
  pu : Option (List (String × UnitSpec))

def pArgs : P CallArgs := fun ts =>
  match pOptList pTok ts with
  | none => none
  | some (pn, r1) =>
    match pOptList pUnit r1 with
    | none => none
    | some (un, r2) => (pOptList pSel r2).map (fun (pu, r3) => (⟨pn, un, pu⟩, r3))

/-- the unit specs that occur in the arguments (for the factor tables). -/
def CallArgs.specs (c : CallArgs) : List (Option String × Rat × Rat) :=
  ((c.un.getD []).map (fun u => (u.unit, u.fW, u.fR))) ++ ((c.pu.getD []).map (fun e => (e.2.unit, e.2.fW, e.2.fR)))

def pOpt : P (Option String) := fun ts =>
  match ts with
  | [] => none
  | t :: r => some (if t = "-" then none else some t, r)

def pOptRat : P (Option Rat) := fun ts =>
  match ts with
  | [] => none
  | t :: r => if t = "-" then some (none, r) else (parseRat? t).map (fun x => (some x, r))

def pBool : P Bool := fun ts =>
  match ts with
  | [] => none
  | t :: r => (parseBool? t).map (·, r)

/-- factor table → `fac`; a unit that was not supplied maps to 0 (never reached: every unit on a
    request line carries its factors). -/
def mkFac (tab : List (String × Rat)) (u : String) : Rat := (tab.lookup u).getD 0

/-! ### printing -/

def jStr (s : String) : String := "\"" ++ s ++ "\""
def jFlt (x : Rat) : String := "\"~" ++ showRat x ++ "\""

def jSc : Sc Rat → String
  | .flt x => jFlt x
  | .int i => toString i
  | .str s => jStr s
  | .bool b => if b then "true" else "false"
  | .null => "null"

/- printing with an accumulator (the accumulator is used linearly, so `++` appends in place: linear in the size of
   the reply also for value lists of 10^5 entries) -/
mutual
  partial def jDMa (acc : String) : DM Rat → String
    | .leaf v => acc ++ jSc v
    | .list l => jDMLa (acc ++ "[") l ++ "]"
    | .node kv => jDMKVa (acc ++ "{") kv ++ "}"
  partial def jDMLa (acc : String) : List (DM Rat) → String
    | [] => acc
    | [x] => jDMa acc x
    | x :: xs => jDMLa (jDMa acc x ++ ",") xs
  partial def jDMKVa (acc : String) : List (String × DM Rat) → String
    | [] => acc
    | [(k, v)] => jDMa (acc ++ jStr k ++ ":") v
    | (k, v) :: r => jDMKVa (jDMa (acc ++ jStr k ++ ":") v ++ ",") r
end

def jDM (t : DM Rat) : String := jDMa "" t

def jList (l : List String) : String := "[" ++ ",".intercalate l ++ "]"

def jArr (a : Arr Rat) : String :=
  let (dt, data) := match a.data with
    | .flt l => ("f", l.map jFlt)
    | .int l => ("i", l.map toString)
    | .str l => ("s", l.map jStr)
  "{\"shape\":" ++ jList (a.shape.map toString) ++ ",\"dtype\":" ++ jStr dt ++ ",\"data\":" ++ jList data ++ "}"

def jV3 (v : V3 Rat) : String := jList (v.toList.map jFlt)

def jBox (b : Box Rat) : String :=
  "{\"avect\":" ++ jV3 b.vects.r0 ++ ",\"bvect\":" ++ jV3 b.vects.r1 ++ ",\"cvect\":" ++ jV3 b.vects.r2
    ++ ",\"origin\":" ++ jV3 b.origin ++ "}"

def jAtoms (a : AtomsM Rat) : String :=
  "{\"natoms\":" ++ toString a.natoms ++ ",\"props\":"
    ++ jList (a.props.map (fun e => "[" ++ jStr e.1 ++ "," ++ jArr e.2 ++ "]")) ++ "}"

def jSys (s : SystemM Rat) : String :=
  "{\"box\":" ++ jBox s.box ++ ",\"pbc\":" ++ jList (s.pbc.map (fun b => if b then "true" else "false"))
    ++ ",\"symbols\":" ++ jList (s.symbols.map (fun o => match o with | none => "null" | some x => jStr x))
    ++ ",\"masses\":" ++ jList (s.masses.map (fun o => match o with | none => "null" | some x => jFlt x))
    ++ ",\"atoms\":" ++ jAtoms s.atoms ++ "}"

def jNest : Nat → Nest Rat → String
  | _, .val x => jFlt x
  | 0, .arr _ => "[]"
  | n + 1, .arr l => jList (l.map (jNest n))

def viaOf (via : String) (t : DM Rat) : Option (DM Rat) := encode via t

def reply {α : Type} (via : String) (w : Option (DM Rat)) (rd : DM Rat → Option α) (pr : α → String) : String :=
  match w with
  | none => "{\"tree\":null,\"read\":null}"
  | some t =>
    match viaOf via t with
    | none => err "format"
    | some t' =>
      "{\"tree\":" ++ jDM t ++ ",\"via\":" ++ jDM t' ++ ",\"read\":" ++ (match rd t' with | none => "null" | some x => pr x) ++ "}"

def eps : Rat := setterAtol
def rtolSym : Rat := mkRat 1 100000

def facTabs (props : List (String × UnitSpec × Arr Rat)) (extra : List (Option String × Rat × Rat)) :
    (String → Rat) × (String → Rat) :=
  let ents := props.filterMap (fun (n, u, _) => (effUnit n u.unit).map (fun s => (s, u.fW, u.fR)))
    ++ extra.filterMap (fun (u, a, b) => u.map (fun s => (s, a, b)))
  (mkFac (ents.map (fun (s, a, _) => (s, a))), mkFac (ents.map (fun (s, _, b) => (s, b))))

/-! ### object sessions: one `System` object (holding its `Box` object) through a sequence of operations -/

def jM3 (m : M3 Rat) : String := jList [jV3 m.r0, jV3 m.r1, jV3 m.r2]

def pV3 : P (V3 Rat) := fun ts =>
  match pMany pRat 3 ts with
  | some ([x, y, z], r) => some (⟨x, y, z⟩, r)
  | _ => none

def pM3 : P (M3 Rat) := fun ts =>
  match pV3 ts with
  | none => none
  | some (a, r1) =>
    match pV3 r1 with
    | none => none
    | some (b, r2) => (pV3 r2).map (fun (c, r3) => (⟨a, b, c⟩, r3))

def facOf (u : UnitSpec) : (String → Rat) × (String → Rat) := facTabs [] [(u.unit, u.fW, u.fR)]

/-- run the operations left to right; one JSON value per operation (`null`: the operation raised, state kept). -/
partial def objOps (s : SysObj Rat) (acc : List String) : List String → Option (List String)
  | [] => some acc.reverse
  | "warm" :: r =>
    let (m, b') := s.bobj.recipVects
    objOps { s with bobj := b' } (("{\"recip\":" ++ jM3 m ++ "}") :: acc) r
  | "c2r" :: r =>
    match pV3 r with
    | none => none
    | some (p, r1) =>
      let (v, b') := s.bobj.cartToRel p
      objOps { s with bobj := b' } (("{\"rel\":" ++ jV3 v ++ "}") :: acc) r1
  | "r2c" :: r =>
    match pV3 r with
    | none => none
    | some (p, r1) => objOps s (("{\"cart\":" ++ jV3 (s.bobj.box.relToCart p) ++ "}") :: acc) r1
  | "setv" :: r =>
    match pM3 r with
    | none => none
    | some (m, r1) =>
      let b' := s.bobj.setVects eps m
      objOps { s with bobj := b' } (("{\"box\":" ++ jBox b'.box ++ "}") :: acc) r1
  | "seto" :: r =>
    match pV3 r with
    | none => none
    | some (o, r1) =>
      let b' := s.bobj.setOrigin o
      objOps { s with bobj := b' } (("{\"box\":" ++ jBox b'.box ++ "}") :: acc) r1
  | "setp" :: ix :: r =>
    -- in-place edit of one coordinate of the positions (through the array the object hands out)
    match ix.toNat?, pRat r with
    | some i, some (v, r1) =>
      let s' := s.setPosAt i v
      objOps s' (("{\"pos\":" ++ jList (s'.positions.map jFlt) ++ "}") :: acc) r1
    | _, _ => none
  | "bdump" :: via :: r =>
    -- Box.model(length_unit=u) of the held Box object, read into a fresh Box
    match pUnit r with
    | none => none
    | some (u, r1) =>
      let (fw, fr) := facOf u
      match (boxModel fw u.unit s.bobj.box).bind (viaOf via) with
      | none => objOps s ("null" :: acc) r1
      | some t =>
        match boxRead fr eps t with
        | none => objOps s ("null" :: acc) r1
        | some b => objOps s (("{\"box\":" ++ jBox b ++ "}") :: acc) r1
  | "bread" :: via :: r =>
    match pUnit r with
    | none => none
    | some (u, r1) =>
      match pM3 r1 with
      | none => none
      | some (m, r2) =>
        match pV3 r2 with
        | none => none
        | some (o, r3) =>
          let (fw, fr) := facOf u
          -- the other box is a `Box` object too: its vectors went through the setter
          match (boxModel fw u.unit ⟨cleanVects eps m, o⟩).bind (viaOf via) with
          | none => objOps s ("null" :: acc) r3
          | some t =>
            match s.bobj.readModel fr eps t with
            | none => objOps s ("null" :: acc) r3
            | some b' => objOps { s with bobj := b' } (("{\"box\":" ++ jBox b'.box ++ "}") :: acc) r3
  | "sysdump" :: via :: r =>
    match pUnit r with
    | none => none
    | some (u, r1) =>
      let (fw, fr) := facTabs [("pos", ⟨some "scaled", 1, 1⟩, (⟨[], .flt []⟩ : Arr Rat))] [(u.unit, u.fW, u.fR)]
      let (w, s') := s.model fw u.unit [("atype", none), ("pos", some "scaled")]
      match w.bind (viaOf via) with
      | none => objOps s' ("null" :: acc) r1
      | some t =>
        objOps s' (("{\"read\":" ++ (match systemRead fr eps t with | none => "null" | some x => jSys x) ++ "}") :: acc) r1
  | _ => none

/-! ### structure-only trees for the `finds` op: `N <id> <k> (<key> <tree>)^k | L <k> <tree>^k | S <id>`; a dictionary
   carries its id in a last entry `#id` -/
mutual
  partial def pTree : List String → Option (DM Rat × List String)
    | "S" :: i :: r => i.toInt?.map (fun n => (.leaf (.int n), r))
    | "N" :: i :: k :: r =>
      match i.toInt?, k.toNat? with
      | some id, some k =>
        match pEntries k r with
        | some (kv, r') => some (.node (kv ++ [("#id", .leaf (.int id))]), r')
        | none => none
      | _, _ => none
    | "L" :: k :: r =>
      match k.toNat? with
      | some k => (pItems k r).map (fun (l, r') => (.list l, r'))
      | none => none
    | _ => none
  partial def pEntries : Nat → List String → Option (List (String × DM Rat) × List String)
    | 0, r => some ([], r)
    | n + 1, key :: r =>
      match pTree r with
      | some (v, r') => (pEntries n r').map (fun (kv, r'') => ((key, v) :: kv, r''))
      | none => none
    | _, _ => none
  partial def pItems : Nat → List String → Option (List (DM Rat) × List String)
    | 0, r => some ([], r)
    | n + 1, r =>
      match pTree r with
      | some (v, r') => (pItems n r').map (fun (l, r'') => (v :: l, r''))
      | none => none
end

def treeId : DM Rat → Int
  | .leaf (.int i) => i
  | .node kv => match kv.lookup "#id" with
    | some (.leaf (.int i)) => i
    | _ => -1
  | _ => -1

def handleC10 (toks : List String) : String :=
  match toks with
  | "uc" :: via :: r =>
    match pUnit r with
    | some (u, r1) =>
      match pArr r1 with
      | some (a, []) =>
        let (fw, fr) := facTabs [] [(u.unit, u.fW, u.fR)]
        reply via (ucModel fw u.unit a) (valueUnit fr) jArr
      | some (a, "err" :: re) =>
        -- uc.model(value, unit, error=…): value_unit and error_unit of what was written
        match parseRats? re with
        | none => err "format"
        | some e =>
          let (fw, fr) := facTabs [] [(u.unit, u.fW, u.fR)]
          let oa (x : Option (Arr Rat)) : String := match x with | none => "null" | some y => jArr y
          match ucModelE fw u.unit a e with
          | none => "{\"tree\":null,\"read\":null}"
          | some t =>
            match viaOf via t with
            | none => err "format"
            | some t' =>
              "{\"tree\":" ++ jDM t ++ ",\"via\":" ++ jDM t' ++ ",\"read\":" ++ oa (valueUnit fr t')
                ++ ",\"eread\":" ++ oa (errorUnit fr t') ++ "}"
      | _ => err "format"
    | none => err "format"
  | "box" :: via :: r =>
    match pUnit r with
    | some (u, r1) =>
      match parseRats? r1 with
      | some [a, b, c, d, e, f, g, h, i, x, y, z] =>
        let (fw, fr) := facTabs [] [(u.unit, u.fW, u.fR)]
        reply via (boxModel fw u.unit ⟨⟨⟨a, b, c⟩, ⟨d, e, f⟩, ⟨g, h, i⟩⟩, ⟨x, y, z⟩⟩) (boxRead fr eps) jBox
      | _ => err "format"
    | none => err "format"
  | "atoms" :: via :: n :: np :: r =>
    match n.toNat?, np.toNat? with
    | some n, some np =>
      match pMany pProp np r with
      | some (props, []) =>
        let (fw, fr) := facTabs props []
        let a : AtomsM Rat := ⟨n, props.map (fun (nm, _, arr) => (nm, arr))⟩
        reply via (atomsModel fw (props.map (fun (nm, u, _) => (nm, u.unit))) a) (atomsRead fr) jAtoms
      | some (props, "sel" :: k :: r2) =>
        -- Atoms.model(prop_unit=…) with a selection of the properties, in the given order
        match k.toNat? with
        | none => err "format"
        | some k =>
          match pMany pSel k r2 with
          | some (sel, []) =>
            let (fw, fr) := facTabs (sel.map (fun (nm, u) => (nm, u, (⟨[], .flt []⟩ : Arr Rat)))) []
            let a : AtomsM Rat := ⟨n, props.map (fun (nm, _, arr) => (nm, arr))⟩
            reply via (atomsModel fw (sel.map (fun (nm, u) => (nm, u.unit))) a) (atomsRead fr) jAtoms
          | _ => err "format"
      | some (props, "args" :: r2) =>
        -- Atoms.model(prop_name=…, unit=…, prop_unit=…) in the form the arguments were given
        match pArgs r2 with
        | some (c, []) =>
          let (fw, fr) := facTabs props c.specs
          let a : AtomsM Rat := ⟨n, props.map (fun (nm, _, arr) => (nm, arr))⟩
          reply via (atomsModelCall fw c.pn (c.un.map (·.map (·.unit))) (c.pu.map (·.map (fun e => (e.1, e.2.unit)))) a)
            (atomsRead fr) jAtoms
        | _ => err "format"
      | _ => err "format"
    | _, _ => err "format"
  | "sys" :: via :: r =>
    match pUnit r with
    | none => err "format"
    | some (bu, r1) =>
      match pMany pRat 12 r1 with
      | some ([a, b, c, d, e, f, g, h, i, x, y, z], r2) =>
        match pMany pBool 3 r2 with
        | some (pbc, ns :: r3) =>
          match ns.toNat? with
          | none => err "format"
          | some ns =>
            match pMany pOpt ns r3 with
            | some (syms, nm :: r4) =>
              match nm.toNat? with
              | none => err "format"
              | some nm =>
                match pMany pOptRat nm r4 with
                | some (masses, n :: np :: r5) =>
                  match n.toNat?, np.toNat? with
                  | some n, some np =>
                    match pMany pProp np r5 with
                    | some (props, []) =>
                      let (fw, fr) := facTabs props [(bu.unit, bu.fW, bu.fR)]
                      let s : SystemM Rat := ⟨⟨⟨⟨a, b, c⟩, ⟨d, e, f⟩, ⟨g, h, i⟩⟩, ⟨x, y, z⟩⟩, pbc, syms, masses,
                        ⟨n, props.map (fun (nm, _, arr) => (nm, arr))⟩⟩
                      reply via (systemModel fw bu.unit (props.map (fun (nm, u, _) => (nm, u.unit))) s)
                        (systemRead fr eps) jSys
                    | some (props, "sel" :: k :: r6) =>
                      -- System.model(prop_unit=…) with a selection of the properties, in the given order
                      match k.toNat? with
                      | none => err "format"
                      | some k =>
                        match pMany pSel k r6 with
                        | some (sel, []) =>
                          let (fw, fr) := facTabs (sel.map (fun (nm, u) => (nm, u, (⟨[], .flt []⟩ : Arr Rat))))
                            [(bu.unit, bu.fW, bu.fR)]
                          let s : SystemM Rat := ⟨⟨⟨⟨a, b, c⟩, ⟨d, e, f⟩, ⟨g, h, i⟩⟩, ⟨x, y, z⟩⟩, pbc, syms, masses,
                            ⟨n, props.map (fun (nm, _, arr) => (nm, arr))⟩⟩
                          reply via (systemModel fw bu.unit (sel.map (fun (nm, u) => (nm, u.unit))) s)
                            (systemRead fr eps) jSys
                        | _ => err "format"
                    | some (props, "args" :: r6) =>
                      -- System.model(box_unit, prop_name=…, unit=…, prop_unit=…) in the form the arguments were given
                      match pArgs r6 with
                      | some (ca, []) =>
                        let (fw, fr) := facTabs props ((bu.unit, bu.fW, bu.fR) :: ca.specs)
                        let s : SystemM Rat := ⟨⟨⟨⟨a, b, c⟩, ⟨d, e, f⟩, ⟨g, h, i⟩⟩, ⟨x, y, z⟩⟩, pbc, syms, masses,
                          ⟨n, props.map (fun (nm, _, arr) => (nm, arr))⟩⟩
                        reply via (systemModelCall fw bu.unit ca.pn (ca.un.map (·.map (·.unit)))
                          (ca.pu.map (·.map (fun e => (e.1, e.2.unit)))) s) (systemRead fr eps) jSys
                      | _ => err "format"
                    | _ => err "format"
                  | _, _ => err "format"
                | _ => err "format"
            | _ => err "format"
        | _ => err "format"
      | _ => err "format"
  | "ec" :: via :: r =>
    match pUnit r with
    | some (u, cs :: r1) =>
      match pOptRat r1 with
      | some (mu, r2) =>
        match pOptRat r2 with
        | some (k, r3) =>
          match parseRats? r3 with
          | some c =>
            if c.length ≠ 36 then err "format" else
            let (fw, fr) := facTabs [] [(u.unit, u.fW, u.fR)]
            let muK : Option (Rat × Rat) := match mu, k with
              | some m, some k => some (m, k)
              | _, _ => none
            reply via (ecModelCS fw u.unit eps eps rtolSym muK cs c) (ecReadAny fr eps eps rtolSym)
              (fun l => jList (l.map jFlt))
          | none => err "format"
        | none => err "format"
      | none => err "format"
    | _ => err "format"
  | "ecl" :: r =>
    -- ecl <unit|-> <fW> <fR> <n> (<ij with % for a blank> <stored value>)^n: a record in the old `C` / `ij` format,
    -- read by `ElasticConstants(model=…)` under the reading configuration
    match pUnit r with
    | some (u, n :: r1) =>
      match n.toNat? with
      | none => err "format"
      | some n =>
        let pEnt : P (String × Rat) := fun ts =>
          match ts with
          | ij :: v :: r => (parseRat? v).map (fun x => ((if ij = "." then "" else ij.replace "%" " ", x), r))
          | _ => none
        match pMany pEnt n r1 with
        | some (es, []) =>
          let (_, fr) := facTabs [] [(u.unit, u.fW, u.fR)]
          let ent : String × Rat → DM Rat := fun e =>
            .node [("stiffness", .node (("value", .leaf (.flt e.2)) :: unitEntry u.unit)), ("ij", .leaf (.str e.1))]
          let t : DM Rat := .node [("elastic-constants", .node [("C", .list (es.map ent))])]
          match ecReadAny fr eps eps rtolSym t with
          | none => "{\"read\":null}"
          | some l => "{\"read\":" ++ jList (l.map jFlt) ++ "}"
        | _ => err "format"
    | _ => err "format"
  | "finds" :: key :: index :: r =>
    -- finds <key> <index> <tree>: the ids of `DataModelDict.finds(key)` in order, and the id `load(key=, index=)` takes
    match pTree r with
    | some (t, []) =>
      let ids := (t.finds key).map treeId
      let pick : String := match index.toInt? with
        | some i => (match pyIndex ids i with | some x => toString x | none => "null")
        | none => "null"
      "{\"ids\":" ++ jList (ids.map toString) ++ ",\"pick\":" ++ pick ++ "}"
    | _ => err "format"
  | "obj" :: r =>
    -- obj <12 rationals: a b c origin> <natoms> <3·natoms rationals: pos> <operations…>
    match pM3 r with
    | none => err "format"
    | some (m, r1) =>
      match pV3 r1 with
      | none => err "format"
      | some (o, n :: r2) =>
        match n.toNat? with
        | none => err "format"
        | some n =>
          match pMany pRat (3 * n) r2 with
          | none => err "format"
          | some (pos, r3) =>
            let atoms : AtomsM Rat := ⟨n, [("atype", ⟨[n], .int (List.replicate n 1)⟩), ("pos", ⟨[n, 3], .flt pos⟩)]⟩
            let s : SysObj Rat := ⟨BoxObj.ofBox ⟨cleanVects eps m, o⟩, [true, true, true], [none], [none], atoms⟩
            match objOps s [] r3 with
            | none => err "format"
            | some outs => jList outs
      | _ => err "format"
  | ["fmt", fm, tg, ex] =>
    -- the option handling of dump('system_model'): "-" = not given, "." = the empty string
    let un (x : String) : String := if x = "." then "" else x
    let format : Option String := if fm = "-" then none else some (un fm)
    let tgt? : Option DumpTarget :=
      if tg = "returned" then some .returned else if tg = "handle" then some .handle
      else if tg = "path" then some (.path (un ex)) else none
    match tgt? with
    | none => err "format"
    | some tgt =>
      match dumpEncoding format tgt with
      | none => "{\"enc\":null}"
      | some e => "{\"enc\":" ++ jStr e ++ "}"
  | "nest" :: rk :: r =>
    match rk.toNat? with
    | none => err "format"
    | some rank =>
      match pMany pNat rank r with
      | some (dims, r1) =>
        match parseRats? r1 with
        | some xs =>
          if xs.length ≠ prodNat dims then err "value" else
          let t := unflatten dims xs
          "{\"nest\":" ++ jNest rank t ++ ",\"flat\":" ++ jList ((Nest.flatten dims t).map jFlt) ++ "}"
        | none => err "format"
      | none => err "format"
  | _ => err "op"

def main : IO Unit := runDriver handleC10
