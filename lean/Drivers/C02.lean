import Atomman.Prelude
open Atomman

/-- stub: replaced when the C02 model is built. -/
def handleC02 (_toks : List String) : String := err "op"

def main : IO Unit := runDriver handleC02
