/-
  C02 driver — one request line, one reply line; numbers are exact rationals.

  arr  dvect|dmag2|full px py pz <vects 9> n0 n1 <pos0 3·n0> <pos1 3·n1>
        dvect → 3·n values; dmag2 → n squared distances;
        full  → per pair `dx dy dz dmag2 margin` (margin `-` when every candidate equals the result)
        err:value on incompatible lengths
  sys  dvect|dmag2 natoms px py pz <vects 9> <pos 3·natoms> SEL SEL
        SEL := I i | S a b c (`_` = None) | L k i₁…i_k | T k i₁…i_k (tuple) | Q k <3·k ints> (integer (k,3) array)
               | P k <3·k values>
        reply `sq …` (the len==1 squeeze) or `arr k …`; err:type / err:value / err:undefined
  disp <box_reference> n0 n1 px py pz <vects0 9> px py pz <vects1 9> <pos0 3·n0> <pos1 3·n1>
        3·n values; err:value for different atom counts or an unknown reference
  slice n a b c        → the expanded indices (for checking `sliceIndices` against python)
  api dvect|dmag2 k <k integer flags> <vects 9> A A    A := s | f x y z | r n <3n> | k n   (the wrappers' own argument handling)
  pbcarg k <k integers>                                  → ok px py pz | err:assert          (`System.pbc = value`)

  stateful part (one heap of Box and System objects, `w reset` empties it):
  w reset | w newbox <v 9> <o 3> | w newsys b px py pz n <pos 3n>            → ok <id>
  w boxvects b <v 9> | w boxorigin b <o 3> | w boxset b <v 9> <o 3> | w sysboxset s <v 9> <o 3> scale
  w pbcset s px py pz | w pbcedit s axis flag | w posedit s i <p 3> | w posset s n <pos 3n>   → ok / err:op
  w state s            → `px py pz | vects | origin | positions`
  w arr dvect|dmag2 b px py pz n0 n1 <pos0> <pos1>   (module-level call with Box object b)
  w sys dvect|dmag2 s SEL SEL | w disp <ref> s0 s1
-/
import Atomman.C02
import Atomman.C01
open Atomman Atomman.C02

namespace C02Drv

abbrev P (α : Type) := List String → Option (α × List String)

def tok : P String
  | [] => none
  | t :: r => some (t, r)

def rat : P Rat := fun l => match l with
  | [] => none
  | t :: r => (parseRat? t).map (·, r)

def nat : P Nat := fun l => match l with
  | [] => none
  | t :: r => t.toNat?.map (·, r)

def int : P Int := fun l => match l with
  | [] => none
  | t :: r => t.toInt?.map (·, r)

def optInt : P (Option Int) := fun l => match l with
  | [] => none
  | "_" :: r => some (none, r)
  | t :: r => t.toInt?.map (fun i => (some i, r))

def bool : P Bool := fun l => match l with
  | [] => none
  | t :: r => (parseBool? t).map (·, r)

def many {α : Type} (p : P α) : Nat → P (List α)
  | 0 => fun l => some ([], l)
  | k + 1 => fun l => do
    let (a, l) ← p l
    let (as, l) ← many p k l
    pure (a :: as, l)

def v3 : P (V3 Rat) := fun l => do
  let (x, l) ← rat l
  let (y, l) ← rat l
  let (z, l) ← rat l
  pure (⟨x, y, z⟩, l)

def m3 : P (M3 Rat) := fun l => do
  let (a, l) ← v3 l
  let (b, l) ← v3 l
  let (c, l) ← v3 l
  pure (⟨a, b, c⟩, l)

def pbc : P (Bool × Bool × Bool) := fun l => do
  let (x, l) ← bool l
  let (y, l) ← bool l
  let (z, l) ← bool l
  pure ((x, y, z), l)

def sel : P (Sel Rat) := fun l => do
  let (k, l) ← tok l
  match k with
  | "I" => let (i, l) ← int l; pure (.idx i, l)
  | "S" =>
    let (a, l) ← optInt l
    let (b, l) ← optInt l
    let (c, l) ← optInt l
    pure (.slice a b c, l)
  | "L" =>
    let (n, l) ← nat l
    let (is, l) ← many int n l
    pure (.list is, l)
  | "T" =>
    let (n, l) ← nat l
    let (is, l) ← many int n l
    pure (.tuple is, l)
  | "Q" =>
    let (n, l) ← nat l
    let (is, l) ← many (fun l => do
      let (a, l) ← int l
      let (b, l) ← int l
      let (c, l) ← int l
      pure ((a, b, c), l)) n l
    pure (.ipos is, l)
  | "P" =>
    let (n, l) ← nat l
    let (ps, l) ← many v3 n l
    pure (.pos ps, l)
  | _ => none

def showV3s (l : List (V3 Rat)) : String := showRats (l.flatMap V3.toList)

def showSq (sq : Bool) (count : Nat) (vals : List String) : String :=
  if sq then " ".intercalate ("sq" :: vals) else " ".intercalate ("arr" :: toString count :: vals)

def handleArr (l : List String) : Option String := do
  let (kind, l) ← tok l
  let ((px, py, pz), l) ← pbc l
  let (v, l) ← m3 l
  let (n0, l) ← nat l
  let (n1, l) ← nat l
  let (pos0, l) ← many v3 n0 l
  let (pos1, l) ← many v3 n1 l
  if l ≠ [] then none else
  match kind with
  | "dvect" => pure (match dvectArr v px py pz pos0 pos1 with
      | some r => showV3s r
      | none => err "value")
  | "dmag2" => pure (match dmag2Arr v px py pz pos0 pos1 with
      | some r => showRats r
      | none => err "value")
  | "full" => pure (match broadcast pos0 pos1 with
      | some prs => " ".intercalate (prs.map fun pq =>
          let d := dvect v px py pz pq.1 pq.2
          let m := dmag2 v px py pz pq.1 pq.2
          let g := match tieMargin v px py pz pq.1 pq.2 with
            | some e => showRat e
            | none => "-"
          showRats (d.toList ++ [m]) ++ " " ++ g)
      | none => err "value")
  | _ => none

def handleSys (l : List String) : Option String := do
  let (kind, l) ← tok l
  let (n, l) ← nat l
  let ((px, py, pz), l) ← pbc l
  let (v, l) ← m3 l
  let (atoms, l) ← many v3 n l
  let (s0, l) ← sel l
  let (s1, l) ← sel l
  if l ≠ [] then none else
  match kind with
  | "dvect" => pure (match sysDvect atoms v px py pz s0 s1 with
      | .ok r => showSq r.1 r.2.length (r.2.flatMap fun p => p.toList.map showRat)
      | .error e => err e)
  | "dmag2" => pure (match sysDmag2 atoms v px py pz s0 s1 with
      | .ok r => showSq r.1 r.2.length (r.2.map showRat)
      | .error e => err e)
  | _ => none

def handleDisp (l : List String) : Option String := do
  let (ref, l) ← tok l
  let (n0, l) ← nat l
  let (n1, l) ← nat l
  let ((px0, py0, pz0), l) ← pbc l
  let (v0, l) ← m3 l
  let ((px1, py1, pz1), l) ← pbc l
  let (v1, l) ← m3 l
  let (pos0, l) ← many v3 n0 l
  let (pos1, l) ← many v3 n1 l
  if l ≠ [] then none else
  pure (match displacement ⟨v0, px0, py0, pz0, pos0⟩ ⟨v1, px1, py1, pz1, pos1⟩ ref with
    | .ok r => showV3s r
    | .error e => err e)

def handleSlice (l : List String) : Option String := do
  let (n, l) ← nat l
  let (a, l) ← optInt l
  let (b, l) ← optInt l
  let (c, l) ← optInt l
  if l ≠ [] then none else
  pure (match sliceIndices n a b c with
    | some ks => " ".intercalate ("ok" :: ks.map toString)
    | none => err "value")

/-- `A := s | f x y z | r n <3n values> | k n` (0-d value, flat point, (n,3) array, (n,3,3) array). -/
def posArg : P (PosArg Rat) := fun l => do
  let (k, l) ← tok l
  match k with
  | "s" => pure (.scalar, l)
  | "f" => let (p, l) ← v3 l; pure (.flat p, l)
  | "r" => let (n, l) ← nat l; let (ps, l) ← many v3 n l; pure (.rows ps, l)
  | "k" => let (n, l) ← nat l; pure (.rank3 n, l)
  | _ => none

/-- `api dvect|dmag2 k <k integer flags> <vects 9> A A` → `ok n …` / err:type / err:value / err:undefined -/
def handleApi (l : List String) : Option String := do
  let (kind, l) ← tok l
  let (k, l) ← nat l
  let (flags, l) ← many int k l
  let (v, l) ← m3 l
  let (a0, l) ← posArg l
  let (a1, l) ← posArg l
  if l ≠ [] then none else
  match kind with
  | "dvect" => pure (match dvectApi v flags a0 a1 with
      | .ok r => " ".intercalate ["ok", toString r.length, showV3s r]
      | .error e => err e)
  | "dmag2" => pure (match dmag2Api v flags a0 a1 with
      | .ok r => " ".intercalate ["ok", toString r.length, showRats r]
      | .error e => err e)
  | _ => none

/-- `pbcarg k <k integers>`: what `System.pbc = value` stores, `err:assert` unless there are exactly three entries. -/
def handlePbcArg (l : List String) : Option String := do
  let (k, l) ← nat l
  let (vals, l) ← many int k l
  if l ≠ [] then none else
  pure (match pbcSetterArg vals with
    | some (a, b, c) => " ".intercalate ["ok", showBool a, showBool b, showBool c]
    | none => err "assert")

/-! ### stateful part -/

abbrev W := World Rat

def showState (w : W) (s : Nat) : String :=
  match w.systems[s]? with
  | none => err "op"
  | some st => match w.boxes[st.box]? with
    | none => err "op"
    | some b => " ".intercalate [showBool st.px, showBool st.py, showBool st.pz, "|", showRats b.vects.toList, "|",
        showRats b.origin.toList, "|", showV3s st.pos]

/-- what the `Box.vects` setter stores: the clean-up of entries below `1e-9` (the double) of the largest one — C01's model
    of that statement (`C01.cleanVects`, tied to the source by C01's `gen_cleanup_eq_model`).  Every cell-defining operation
    of the `World` (`Box(...)`, `B.vects = …`, `B.set(...)`, `S.box_set(...)`) goes through that setter. -/
def stored (v : M3 Rat) : M3 Rat := C01.cleanVects ((C01.atolNum : Rat) / (C01.atolDen : Rat)) v

def handleClean (l : List String) : Option String := do
  let (v, l) ← m3 l
  if l ≠ [] then none else
  let c := stored v
  pure (showRats (c.r0.toList ++ c.r1.toList ++ c.r2.toList))

def parseOp (cmd : String) (l : List String) : Option (Op Rat) := do
  match cmd with
  | "newbox" =>
    let (v, l) ← m3 l
    let (o, l) ← v3 l
    if l ≠ [] then none else pure (.newBox (stored v) o)
  | "newsys" =>
    let (b, l) ← nat l
    let ((px, py, pz), l) ← pbc l
    let (n, l) ← nat l
    let (ps, l) ← many v3 n l
    if l ≠ [] then none else pure (.newSys b px py pz ps)
  | "boxvects" =>
    let (b, l) ← nat l
    let (v, l) ← m3 l
    if l ≠ [] then none else pure (.boxVects b (stored v))
  | "boxorigin" =>
    let (b, l) ← nat l
    let (o, l) ← v3 l
    if l ≠ [] then none else pure (.boxOrigin b o)
  | "boxset" =>
    let (b, l) ← nat l
    let (v, l) ← m3 l
    let (o, l) ← v3 l
    if l ≠ [] then none else pure (.boxSet b (stored v) o)
  | "sysboxset" =>
    let (s, l) ← nat l
    let (v, l) ← m3 l
    let (o, l) ← v3 l
    let (sc, l) ← bool l
    if l ≠ [] then none else pure (.sysBoxSet s (stored v) o sc)
  | "pbcset" =>
    let (s, l) ← nat l
    let ((px, py, pz), l) ← pbc l
    if l ≠ [] then none else pure (.pbcSet s px py pz)
  | "pbcedit" =>
    let (s, l) ← nat l
    let (k, l) ← nat l
    let (f, l) ← bool l
    if l ≠ [] then none else pure (.pbcEdit s k f)
  | "posedit" =>
    let (s, l) ← nat l
    let (i, l) ← nat l
    let (p, l) ← v3 l
    if l ≠ [] then none else pure (.posEdit s i p)
  | "posset" =>
    let (s, l) ← nat l
    let (n, l) ← nat l
    let (ps, l) ← many v3 n l
    if l ≠ [] then none else pure (.posSet s ps)
  | _ => none

def wArr (w : W) (l : List String) : Option String := do
  let (kind, l) ← tok l
  let (b, l) ← nat l
  let ((px, py, pz), l) ← pbc l
  let (n0, l) ← nat l
  let (n1, l) ← nat l
  let (pos0, l) ← many v3 n0 l
  let (pos1, l) ← many v3 n1 l
  if l ≠ [] then none else
  match kind with
  | "dvect" => pure (match w.arrDvect b px py pz pos0 pos1 with
      | .ok r => showV3s r
      | .error e => err e)
  | "dmag2" => pure (match w.arrDmag2 b px py pz pos0 pos1 with
      | .ok r => showRats r
      | .error e => err e)
  | _ => none

def wSys (w : W) (l : List String) : Option String := do
  let (kind, l) ← tok l
  let (s, l) ← nat l
  let (s0, l) ← sel l
  let (s1, l) ← sel l
  if l ≠ [] then none else
  match kind with
  | "dvect" => pure (match w.sysDvect s s0 s1 with
      | .ok r => showSq r.1 r.2.length (r.2.flatMap fun p => p.toList.map showRat)
      | .error e => err e)
  | "dmag2" => pure (match w.sysDmag2 s s0 s1 with
      | .ok r => showSq r.1 r.2.length (r.2.map showRat)
      | .error e => err e)
  | _ => none

def wDisp (w : W) (l : List String) : Option String := do
  let (ref, l) ← tok l
  let (s0, l) ← nat l
  let (s1, l) ← nat l
  if l ≠ [] then none else
  pure (match w.disp s0 s1 ref with
    | .ok r => showV3s r
    | .error e => err e)

def stepW (w : W) (toks : List String) : W × String :=
  match toks with
  | ["reset"] => (World.empty, "ok")
  | ["state", s] => match s.toNat? with
    | some s => (w, showState w s)
    | none => (w, err "format")
  | "arr" :: r => (w, (wArr w r).getD (err "format"))
  | "sys" :: r => (w, (wSys w r).getD (err "format"))
  | "disp" :: r => (w, (wDisp w r).getD (err "format"))
  | cmd :: r => match parseOp cmd r with
    | none => (w, err "format")
    | some op => match w.step op with
      | none => (w, err "op")
      | some w' =>
        let id := match op with
          | .newBox .. => s!" {w'.boxes.length - 1}"
          | .newSys .. => s!" {w'.systems.length - 1}"
          | _ => ""
        (w', "ok" ++ id)
  | [] => (w, err "format")

end C02Drv

def handleC02 (toks : List String) : String :=
  match toks with
  | "arr" :: r => (C02Drv.handleArr r).getD (err "format")
  | "sys" :: r => (C02Drv.handleSys r).getD (err "format")
  | "disp" :: r => (C02Drv.handleDisp r).getD (err "format")
  | "slice" :: r => (C02Drv.handleSlice r).getD (err "format")
  | "api" :: r => (C02Drv.handleApi r).getD (err "format")
  | "pbcarg" :: r => (C02Drv.handlePbcArg r).getD (err "format")
  | "clean" :: r => (C02Drv.handleClean r).getD (err "format")
  | _ => err "op"

def stepC02 (w : C02Drv.W) (toks : List String) : C02Drv.W × String :=
  match toks with
  | "w" :: r => C02Drv.stepW w r
  | _ => (w, handleC02 toks)

def main : IO Unit := runDriverS stepC02 World.empty
