import Atomman.Prelude
open Atomman

/-- stub: replaced when the C13 model is built. -/
def handleC13 (_toks : List String) : String := err "op"

def main : IO Unit := runDriver handleC13
