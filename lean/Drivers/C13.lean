import Atomman.C13
open Atomman Atomman.C13
set_option linter.constructorNameAsVariable false

/-!
  line protocol of the C13 model driver (see harness/props/c13.py).  All numbers exact rationals.

  cells setting maxindex m n | xi(3 rat) | hkl(3 int) | conventional vects(9 rat)
      -> ok U(9) ; cut line motion ; mRaw(3) nRaw(3) ; uvws in the conventional setting (9 rat) ; mTie nTie planeNear
  cellsvalid setting maxindex m n | xi | hkl | vects | U(9 int) | tn td
      -> 1 | 0 reason         (relational acceptance of the coded answer when a float tie decides)
  shifts numdec tol W x…      -> shifts ; rounded coords
  sizes line s0 s1 s2|- - - qa qb qc   -> lo hi lo hi lo hi | err:type
  mono  <common> shape width nsym | tab(3N')
  array <common> burgers(3) linear bw cutoff nsym | tab(3N')
  region m n shape width box(12) N pos(3N)          -> ok radius | outside flags | near flags   | err:assert
  disreg m n planepos(3) N pos(3N) disp(3N)         -> ok above below | coord | vals(3 per coord) | margin | err:value
  params vects(9) ucell_a nshifts shift(3)* | ctor-args | ncalls (set|gen args)* | center(- | 3) cscale | width wscale
      args = shift(- | 3 rat) index(- | int) scale(0/1)
      -> ok ctor-shift | reply ; reply … | final shift | center | width        | err:value / err:index (constructor refused)
  head mono line vects(9) lens(3) ucell_a nshifts shift(3)* cur(3) mults mins(3) args center(- | 3) cscale shape width wscale
      mults = - | n (i<int> | o)*   -> ok sizes(6) | shift | centre | width | shape | stored shift    or   err:<class> | stored shift
     <common> = m n | s0 s1 s2 qa qb qc | pbc(3) | rcell box(12) | natoms | (atype x y z)* | shift(3) | center(3)
-/

abbrev P := StateT (List String) Option

def tok : P String := fun s => match s with | [] => none | t :: r => some (t, r)
def pRat : P Rat := do let t ← tok; match parseRat? t with | some r => pure r | none => failure
def pInt : P Int := do let t ← tok; match t.toInt? with | some r => pure r | none => failure
def pNat : P Nat := do let t ← tok; match t.toNat? with | some r => pure r | none => failure
def pBool : P Bool := do let t ← tok; match parseBool? t with | some r => pure r | none => failure
def pOptInt : P (Option Int) := do
  let t ← tok
  if t = "-" then pure none else match t.toInt? with | some r => pure (some r) | none => failure
def pV3 : P (V3 Rat) := do pure ⟨← pRat, ← pRat, ← pRat⟩
def pIV : P IV := do pure ⟨← pInt, ← pInt, ← pInt⟩
def pM3 : P (M3 Rat) := do pure ⟨← pV3, ← pV3, ← pV3⟩
def pM3I : P (M3 Int) := do pure ⟨← pIV, ← pIV, ← pIV⟩
def pBox : P (Box Rat) := do pure ⟨← pM3, ← pV3⟩
def pAx : P Ax := do let t ← tok; match Ax.ofString? t with | some a => pure a | none => failure
def pMany {α : Type} (p : P α) : Nat → P (List α)
  | 0 => pure []
  | n + 1 => do let a ← p; let r ← pMany p n; pure (a :: r)
def pAtom : P (Atom Rat) := do let t ← pInt; let p ← pV3; pure ⟨t, p, []⟩
def pEnd : P Unit := fun s => match s with | [] => some ((), []) | _ => none

def showV (v : V3 Rat) : String := showRats v.toList
def showIV (v : IV) : String := showInts v.toList
def showM3I (m : M3 Int) : String := showInts (m.r0.toList ++ m.r1.toList ++ m.r2.toList)
def showBox (b : Box Rat) : String := showRats (b.vects.toList ++ b.origin.toList)
def showPos (l : List (Atom Rat)) : String := showRats (l.flatMap (fun a => a.pos.toList))
def showTypes (l : List (Atom Rat)) : String := showInts (l.map (·.atype))
def showPbc (p : V3 Bool) : String := " ".intercalate ([p.x, p.y, p.z].map showBool)

/-! ### cells -/

def parallelI (a b : IV) : Bool := V3.cross a b == (⟨0, 0, 0⟩ : IV)

/-- `|cos_a² - cos_b²| ≤ (tn/td) cos_b²` with equal signs of `d` (near tie of the two angles). -/
def nearCos (a b : Cand Rat) (eps : Rat) : Bool :=
  let ca := a.d * a.d * b.m2
  let cb := b.d * b.d * a.m2
  (decide (a.d < 0) == decide (b.d < 0)) && decide (ratAbs (ca - cb) ≤ eps * cb)

structure CellsIn where
  L : M3 Int
  maxindex : Int
  m : Ax
  n : Ax
  xi : V3 Rat
  hkl : IV
  vects : M3 Rat

def pCellsIn : P (Option CellsIn) := do
  let setting ← tok
  let mi ← pInt
  let m ← tok; let n ← tok
  let xi ← pV3; let hkl ← pIV; let v ← pM3
  match C14.c2p setting, Ax.ofString? m, Ax.ofString? n with
  | some L, some m, some n => pure (some ⟨L, mi, m, n, xi, hkl, v⟩)
  | _, _, _ => pure none

def tieEps : Rat := 1 / 1000000000

def handleCells (c : CellsIn) : String :=
  if M3.det c.vects = 0 then err "value" else
  match normalDir c.vects c.hkl, xiPrim c.L c.xi with
  | none, _ => err "value"
  | _, none => err "value"
  | some N, some xiP =>
    let pv := primVects c.L c.vects
    let Xi := M3.vecMul c.xi c.vects
    match setCells (1 / 1000000000000000000 : Rat) pv N Xi xiP c.m c.n c.maxindex with
    | .error e => err e
    | .ok r =>
      let M := V3.cross N Xi
      let all := allUvws c.maxindex
      let bm := mkCand pv M r.mRaw
      let bn := mkCand pv N r.nRaw
      let mTie := (all.filter (inPlane pv N)).any fun v =>
        !parallelI v r.mRaw && nearCos (mkCand pv M v) bm tieEps
      let nTie := all.any fun v => !parallelI v r.nRaw && nearCos (mkCand pv N v) bn tieEps
      -- a candidate whose angle to N is within about 2e-3 degrees of 90 without being in plane
      let planeNear := all.any fun v =>
        let cd := mkCand pv N v
        cd.d ≠ 0 && decide (cd.d * cd.d * 1000000000 < cd.m2 * V3.normSq N)
      let conv := [r.uvws.r0, r.uvws.r1, r.uvws.r2].flatMap (fun v => (C14.p2cRat c.L v).toList)
      "ok " ++ showM3I r.uvws ++ " ; " ++ toString r.o.cut ++ " " ++ toString r.o.line ++ " " ++ toString r.o.motion
        ++ " ; " ++ showIV r.mRaw ++ " " ++ showIV r.nRaw ++ " ; " ++ showRats conv ++ " ; "
        ++ " ".intercalate ([mTie, nTie, planeNear].map showBool)

/-- invert `orderUvws`: `(xi, m, n)` from the rows. -/
def unorder (cut line : Nat) (U : M3 Int) : IV × IV × IV :=
  if cut = 2 then (if line = 0 then (U.r0, U.r1, U.r2) else (-U.r1, U.r0, U.r2))
  else if cut = 1 then (if line = 2 then (U.r2, U.r0, U.r1) else (-U.r0, U.r2, U.r1))
  else (if line = 1 then (U.r1, U.r2, U.r0) else (-U.r2, U.r1, U.r0))

def inRange (n : Int) (v : IV) : Bool :=
  decide (v.x.natAbs ≤ n.toNat) && decide (v.y.natAbs ≤ n.toNat) && decide (v.z.natAbs ≤ n.toNat) &&
    !(v.x == 0 && v.y == 0 && v.z == 0)

/-- relational model: the coded rows are *a* possible outcome of the two searches up to the relative
    tolerance `eps` on squared cosines. -/
def handleCellsValid (c : CellsIn) (U : M3 Int) (eps : Rat) : String :=
  match normalDir c.vects c.hkl, xiPrim c.L c.xi, orient c.m c.n with
  | some N, some xiP, some o =>
    let pv := primVects c.L c.vects
    let Xi := M3.vecMul c.xi c.vects
    let M := V3.cross N Xi
    let (xi, m, n) := unorder o.cut o.line U
    let all := allUvws c.maxindex
    if xi ≠ xiP then "0 xi" else
    if C14.gcd3 m ≠ 1 then "0 m-not-reduced" else
    if C14.gcd3 n ≠ 1 then "0 n-not-reduced" else
    if !(all.any fun v => C14.reduceGcd v == m && inPlane pv N v) then "0 m-not-an-in-plane-candidate" else
    if !(all.any fun v => C14.reduceGcd v == n) then "0 n-not-a-candidate" else
    let cm := mkCand pv M m
    let cn := mkCand pv N n
    let worse := fun (a b : Cand Rat) =>   -- cos a < cos b by more than eps (relative, squared)
      cosLt a b && !nearCos a b eps
    if (all.filter (inPlane pv N)).any (fun v => worse cm (mkCand pv M v)) then "0 m-not-closest" else
    if all.any (fun v => worse cn (mkCand pv N v)) then "0 n-not-closest" else "1"
  | _, _, _ => "0 refused"

/-! ### monopole / array -/

structure Common where
  o : Orient
  sz : Sizes
  rcell : Sys Rat
  shift : V3 Rat
  center : V3 Rat
  /-- optional replacement of the reference system's box and positions by the implementation's (used when an atom
      sits within rounding error of a periodic face, where the float `floor` may pick the other image) -/
  over : Option (Box Rat × List (V3 Rat))

inductive CErr | format | assert | type | value

def pCommon : P (Except CErr Common) := do
  let m ← pAx; let n ← pAx
  let s0 ← pOptInt; let s1 ← pOptInt; let s2 ← pOptInt
  let qa ← pOptInt; let qb ← pOptInt; let qc ← pOptInt
  let pbc : V3 Bool := ⟨← pBool, ← pBool, ← pBool⟩
  let box ← pBox
  let na ← pNat
  let atoms ← pMany pAtom na
  let shift ← pV3
  let center ← pV3
  let nb ← pNat
  let over ← (if nb = 0 then pure none else do
    let b ← pBox
    let ps ← pMany pV3 nb
    pure (some (b, ps)) : P (Option (Box Rat × List (V3 Rat))))
  match orient m n with
  | none => pure (.error .assert)
  | some o =>
    let mults : Option (Option IV) := match s0, s1, s2 with
      | some a, some b, some c => some (some ⟨a, b, c⟩)
      | none, none, none => some none
      | _, _, _ => none
    match mults with
    | none => pure (.error .format)
    | some mu =>
      match sizes o.line mu qa qb qc with
      | none => pure (.error .type)
      | some sz =>
        if M3.det box.vects = 0 || atoms.isEmpty then pure (.error .value)
        else pure (.ok ⟨o, sz, ⟨box, pbc, atoms⟩, shift, center, over⟩)

def cerr : CErr → String
  | .format => err "format" | .assert => err "assert" | .type => err "type" | .value => err "value"

/-- displacement field given as a table over the reference positions. -/
def tabU (keys : List (V3 Rat)) (tab : List (V3 Rat)) : V3 Rat → V3 Rat :=
  let al := keys.zip tab
  fun q => match al.find? (fun kv => kv.1 == q) with
    | some kv => kv.2
    | none => ⟨0, 0, 0⟩

def distInt (x : Rat) : Rat := let f : Rat := (x.floor : Int); min (x - f) (f + 1 - x)

def nearEps : Rat := 1 / 10000000

/-- per atom: some scaled coordinate along a periodic direction is within `nearEps` of an integer
    (the float `floor` of `System.wrap` may then pick the neighbouring image). -/
def wrapNear (box : Box Rat) (pbc : V3 Bool) (ps : List (V3 Rat)) : List Bool :=
  ps.map fun p =>
    let s := box.cartToRel p
    (pbc.x && decide (distInt s.x < nearEps)) || (pbc.y && decide (distInt s.y < nearEps)) ||
      (pbc.z && decide (distInt s.z < nearEps))

/-- how close the outermost atoms are to the faces across the non-periodic directions (`min <= 0`, `max >= 1`
    decide whether `System.wrap` pads the cell): smallest `|min|`, `|1 - max|`. -/
def padMargin (box : Box Rat) (pbc : V3 Bool) (ps : List (V3 Rat)) : Rat :=
  let ss := ps.map box.cartToRel
  let one := fun (per : Bool) (xs : List Rat) =>
    if per then (1 : Rat) else
    match xs with
    | [] => 1
    | x :: r => min (ratAbs (r.foldl min x)) (ratAbs (1 - r.foldl max x))
  min (one pbc.x (ss.map (·.x))) (min (one pbc.y (ss.map (·.y))) (one pbc.z (ss.map (·.z))))

def showFlags (l : List Bool) : String := " ".intercalate (l.map showBool)

/-- relative closeness of `g` to `-width |nrm|` (squared) for a plane: 0 = exactly on the shifted plane. -/
def planeMargin (width : Rat) (pl : V3 Rat × V3 Rat) (p : V3 Rat) : Rat :=
  let g := V3.dot pl.1 (p - pl.2)
  let t := width * width * V3.normSq pl.1
  if 0 ≤ g then (if t = 0 then 1 else (g * g + t) / t) else ratAbs (g * g - t) / t

def minOfL (l : List Rat) (d : Rat) : Rat := l.foldl min d

def shapeOf? : String → Option Shape
  | "box" => some .box | "cylinder" => some .cylinder | _ => none

def handleMono (toks : List String) : String :=
  let p : P (Except CErr (Common × Shape × Rat × Nat × List (V3 Rat))) := do
    let c ← pCommon
    let sh ← tok; let w ← pRat; let ns ← pNat
    let nt ← pNat
    let tab ← pMany pV3 nt
    pEnd
    match c, shapeOf? sh with
    | .error e, _ => pure (.error e)
    | .ok _, none => pure (.error .value)
    | .ok c, some sh => pure (.ok (c, sh, w, ns, tab))
  match p.run toks with
  | none => err "format"
  | some (.error e, _) => cerr e
  | some (.ok (c, shape, width, nsym, tab), _) =>
    let base0 := baseSystem Rat.floor C05.pad001 c.rcell c.sz c.shift
    if tab.length ≠ base0.atoms.length then err "format" else
    let base : Sys Rat := match c.over with
      | none => base0
      | some (b, ps) => ⟨b, base0.pbc, setPos base0.atoms ps⟩
    if base.atoms.length ≠ base0.atoms.length then err "format" else
    let u := tabU (base.atoms.map (fun a => a.pos - c.center)) tab
    let disl0 := monopoleRaw Rat.floor C05.pad001 u c.o.line c.center base
    match monopoleBoundary C05.ratSqrt c.o shape width nsym base disl0 with
    | none => err "assert"
    | some disl =>
      -- margins: both wraps, boundary
      let sb := C04.superBox c.rcell.box c.sz.a c.sz.b c.sz.c
      let sup := C04.supersizeAtoms c.rcell.box c.sz.a c.sz.b c.sz.c c.rcell.atoms
      let w1 := wrapNear sb c.rcell.pbc (sup.map (fun a => a.pos + c.shift))
      let w2 := wrapNear base.box (pbcOnly c.o.line) (base.atoms.map (fun a => displaced u c.center a.pos))
      let bm : List Bool :=
        if width > 0 then
          match shape with
          | .box =>
            let pls := boxBoundaryPlanes c.o.line base.box
            disl.atoms.map (fun a => decide (minOfL (pls.map (fun pl => planeMargin width pl a.pos)) 1 < nearEps))
          | .cylinder =>
            let r := cylRadius C05.ratSqrt c.o.motion c.o.cut c.o.line base.box width
            let L := base.box.vects.row c.o.line
            let t := r * r * V3.normSq L
            disl.atoms.map (fun a => decide (ratAbs (V3.normSq (V3.cross a.pos L) - t) / t < nearEps))
        else disl.atoms.map (fun _ => false)
      let r : Rat := if width > 0 && shape == .cylinder then
        cylRadius C05.ratSqrt c.o.motion c.o.cut c.o.line base.box width else 0
      "ok " ++ showBox base0.box ++ " | " ++ showPos base0.atoms ++ " | " ++ showBox disl.box ++ " | " ++
        showPos disl.atoms ++ " | " ++ showTypes disl.atoms ++ " | " ++ showPbc disl.pbc ++ " | " ++
        showFlags w1 ++ " | " ++ showFlags w2 ++ " | " ++ showFlags bm ++ " | " ++ showRat r ++ " | " ++
        showTypes base.atoms ++ " | " ++
        showRat (padMargin base.box (pbcOnly c.o.line) (base.atoms.map (fun a => displaced u c.center a.pos)))

def roundHE (x : Rat) : Int := C14.roundHalfEven x

def handleArray (toks : List String) : String :=
  let p : P (Except CErr (Common × V3 Rat × Bool × Rat × Rat × Nat × List (V3 Rat))) := do
    let c ← pCommon
    let b ← pV3; let lin ← pBool; let bw ← pRat; let co ← pRat; let ns ← pNat
    let nt ← pNat
    let tab ← pMany pV3 nt
    pEnd
    match c with
    | .error e => pure (.error e)
    | .ok c => pure (.ok (c, b, lin, bw, co, ns, tab))
  match p.run toks with
  | none => err "format"
  | some (.error e, _) => cerr e
  | some (.ok (c, burgers, linear, bw, cutoff, nsym, tab), _) =>
    let base0 := baseSystem Rat.floor C05.pad001 c.rcell c.sz c.shift
    if tab.length ≠ base0.atoms.length then err "format" else
    let base : Sys Rat := match c.over with
      | none => base0
      | some (b, ps) => ⟨b, base0.pbc, setPos base0.atoms ps⟩
    if base.atoms.length ≠ base0.atoms.length then err "format" else
    let atol8 : Rat := 1 / 100000000
    let rtol5 : Rat := 1 / 100000
    let o := c.o
    let baseIn := base
    let facem := minOfL (base.atoms.map (fun a => ratAbs (ratAbs ((base.box.cartToRel a.pos).get o.motion - 1) - atol8))) 1
    let base : Sys Rat := { base with atoms := moveUpperFace atol8 base.box o.motion base.atoms }
    -- the table holds the solver's values at the reference positions after the face atoms were moved
    let u := tabU (base.atoms.map (fun a => a.pos - c.center)) tab
    -- margins of the discrete decisions (the harness exempts cases decided within rounding error)
    let spm := minOfL (base.atoms.map (fun a => ratAbs (ratAbs ((base.box.cartToRel a.pos).get o.cut - 1/2) - atol8))) 1
    let newvects := tiltedVects o base.box.vects burgers
    let newbox : Box Rat := ⟨newvects, base.box.origin⟩
    let length := absK ((base.box.vects.row o.motion).get o.motion)
    if length = 0 || M3.det newvects = 0 then err "value nonsingular" else
    let testpos := base.atoms.map fun a => a.pos + linearDisp o.motion o.cut burgers length (a.pos - c.center)
    let sb := absK ((2 : Rat) * burgers.get o.motion / length)
    let bids := boundaryIds o newbox sb testpos
    let newpbc := pbcExcept o.cut
    let e := expectedDel base.atoms.length base.box.vects newvects
    let er := roundHE e
    let intm := ratAbs (ratAbs (e - (er : Rat)) - (atol8 + rtol5 * ratAbs (er : Rat)))
    let head := fun (tag : String) => tag ++ " | " ++ showRats [spm, intm, e, sb, facem] ++ " | " ++
      " ".intercalate (bids.map toString)
    match periodicArray Rat.floor roundHE C05.pad001 u o baseIn burgers c.center linear bw cutoff atol8 atol8 rtol5 nsym with
    | .error .slip => head "err:value slip"
    | .error .nonint => head "err:value nonint"
    | .error (.mismatch ex f) => head ("err:value mismatch " ++ toString ex ++ " " ++ toString f)
    | .ok r =>
      let ps := r.base.atoms.map (·.pos)
      let disp := arrayDisp o linear u c.center burgers length bw base.box ps
      let w1 := wrapNear (C04.superBox c.rcell.box c.sz.a c.sz.b c.sz.c) c.rcell.pbc
        ((C04.supersizeAtoms c.rcell.box c.sz.a c.sz.b c.sz.c c.rcell.atoms).map (fun a => a.pos + c.shift))
      let w2 := wrapNear newbox newpbc (List.zipWith (· + ·) ps disp)
      let y0 := base.box.origin.get o.cut
      let y1 := y0 + (base.box.vects.row o.cut).get o.cut
      let lo := min y0 y1; let hi := max y0 y1
      let slm := ps.map (fun p => !linear &&
        decide (min (ratAbs (p.get o.cut - (lo + bw))) (ratAbs (p.get o.cut - (hi - bw))) < nearEps))
      let bm := if bw > 0 then
          let pls := arrayBoundaryPlanes o.cut base.box
          r.disl.atoms.map (fun a => decide (minOfL (pls.map (fun pl => planeMargin bw pl a.pos)) 1 < nearEps))
        else r.disl.atoms.map (fun _ => false)
      head "ok" ++ " | " ++ showBox r.disl.box ++ " | " ++ showPos r.disl.atoms ++ " | " ++ showTypes r.disl.atoms
        ++ " | " ++ " ".intercalate (r.oldId.map toString) ++ " | " ++ showPbc r.disl.pbc ++ " | " ++
        showFlags w1 ++ " | " ++ showFlags w2 ++ " | " ++ showFlags slm ++ " | " ++ showFlags bm ++ " | " ++
        toString r.expected ++ " | " ++ showPos r.base.atoms ++ " | " ++
        " ".intercalate (r.dups.map toString) ++ " | " ++ showBox base0.box ++ " | " ++ showPos base0.atoms ++ " | " ++
        showRat (padMargin newbox newpbc (List.zipWith (· + ·) ps disp))

/-! ### region / disregistry -/

/-- `region m n shape width box(12) N pos…`: the boundary region of `monopole` built from the given reference box,
    evaluated on the given positions (the same definitions `monopoleBoundary` uses). -/
def handleRegion (toks : List String) : String :=
  let p : P (Option (Orient × Shape × Rat × Box Rat × List (V3 Rat))) := do
    let m ← pAx; let n ← pAx
    let sh ← tok; let w ← pRat
    let box ← pBox
    let np ← pNat
    let ps ← pMany pV3 np
    pEnd
    match orient m n, shapeOf? sh with
    | some o, some sh => pure (some (o, sh, w, box, ps))
    | _, _ => pure none
  match p.run toks with
  | none => err "format"
  | some (none, _) => err "value"
  | some (some (o, shape, width, box, ps), _) =>
    let atoms : List (Atom Rat) := ps.map fun q => ⟨1, q, []⟩
    let sys : Sys Rat := ⟨box, pbcOnly o.line, atoms⟩
    match monopoleBoundary C05.ratSqrt o shape width 1 sys sys with
    | none => err "assert"
    | some r =>
      let flags := r.atoms.map fun a => decide (a.atype ≠ 1)
      let near : List Bool :=
        if width > 0 then
          match shape with
          | .box =>
            let pls := boxBoundaryPlanes o.line box
            ps.map (fun q => decide (minOfL (pls.map (fun pl => planeMargin width pl q)) 1 < nearEps))
          | .cylinder =>
            let rad := cylRadius C05.ratSqrt o.motion o.cut o.line box width
            let L := box.vects.row o.line
            let t := rad * rad * V3.normSq L
            ps.map (fun q => decide (ratAbs (V3.normSq (V3.cross q L) - t) / t < nearEps))
        else ps.map (fun _ => false)
      let rad : Rat := if width > 0 && shape == .cylinder then cylRadius C05.ratSqrt o.motion o.cut o.line box width else 0
      "ok " ++ showRat rad ++ " | " ++ showFlags flags ++ " | " ++ showFlags near

/-- `disreg m n planepos(3) N pos(3N) disp(3N)`. -/
def handleDisreg (toks : List String) : String :=
  let p : P (Ax × Ax × V3 Rat × List (V3 Rat) × List (V3 Rat)) := do
    let m ← pAx; let n ← pAx
    let pp ← pV3
    let np ← pNat
    let ps ← pMany pV3 np
    let ds ← pMany pV3 np
    pEnd
    pure (m, n, pp, ps, ds)
  match p.run toks with
  | none => err "format"
  | some ((m, n, pp, ps, ds), _) =>
    let atol : Rat := 1 / 100000000
    let rtol : Rat := 1 / 100000
    let mv : V3 Rat := (Ax.unit m).map (fun (i : Int) => (i : Rat))
    let nv : V3 Rat := (Ax.unit n).map (fun (i : Int) => (i : Rat))
    match disregistry atol rtol mv nv pp ps ds with
    | .error e => err e
    | .ok r =>
      -- margin of the `isclose` selections of the two planes (relative to their thresholds)
      let ys := ps.map (fun q => V3.dot q nv)
      let mg := fun (h : Rat) => minOfL (ys.map fun y => ratAbs (ratAbs (y - h) - (atol + rtol * ratAbs h))) 1
      "ok " ++ showRats [r.above, r.below] ++ " | " ++ showRats r.coord ++ " | " ++
        showRats (r.vals.flatMap (·.toList)) ++ " | " ++ showRat (min (mg r.above) (mg r.below))

/-! ### params: shift / centre / width resolution over a history of calls on one object -/

def pOptV3 : P (Option (V3 Rat)) := fun s =>
  match s with
  | "-" :: r => some (none, r)
  | _ => (do let v ← pV3; pure (some v) : P _) s

def pShiftArgs : P (ShiftArgs Rat) := do
  let s ← pOptV3; let i ← pOptInt; let sc ← pBool
  pure ⟨s, i, sc⟩

def pShiftCall : P (ShiftCall Rat) := do
  let k ← tok
  let a ← pShiftArgs
  if k = "set" then pure (.set a) else if k = "gen" then pure (.gen a) else failure

def showReply : Except String (V3 Rat) → String
  | .ok v => "ok " ++ showV v
  | .error e => "err:" ++ e

def handleParams (toks : List String) : String :=
  let p : P (M3 Rat × Rat × List (V3 Rat) × ShiftArgs Rat × List (ShiftCall Rat) × Option (V3 Rat) × Bool × Rat × Bool) := do
    let vects ← pM3
    let ua ← pRat
    let ns ← pNat
    let shifts ← pMany pV3 ns
    let ctor ← pShiftArgs
    let nc ← pNat
    let calls ← pMany pShiftCall nc
    let c ← pOptV3; let cs ← pBool
    let w ← pRat; let ws ← pBool
    pEnd
    pure (vects, ua, shifts, ctor, calls, c, cs, w, ws)
  match p.run toks with
  | none => err "format"
  | some ((vects, ua, shifts, ctor, calls, c, cs, w, ws), _) =>
    match setShift vects shifts ctor with
    | .error e => err e
    | .ok s0 =>
      let r := runShiftCalls vects shifts s0 calls
      "ok " ++ showV s0 ++ " | " ++ " ; ".intercalate (r.2.map showReply) ++ " | " ++ showV r.1 ++ " | " ++
        showV (resolveCenter vects c cs) ++ " | " ++ showRat (resolveWidth ua w ws)

/-! ### head: the argument handling of a generator call (`callHead`) -/

def pMultEntry : P MultEntry := do
  let t ← tok
  if t = "o" then pure .other
  else if t.startsWith "i" then
    match (t.drop 1).toInt? with
    | some v => pure (.int v)
    | none => failure
  else failure

def pMults : P (Option (List MultEntry)) := fun s =>
  match s with
  | "-" :: r => some (none, r)
  | _ => (do let n ← pNat; let l ← pMany pMultEntry n; pure (some l) : P _) s

/-- `head mono line vects(9) lens(3) ucell_a nshifts shift(3)* cur(3) mults mins(3) shiftargs center(-|3) cscale shape
    width wscale` with `mults` = `-` | `n (i<int>|o)*`
    -> `ok lo hi lo hi lo hi | shift | centre | width | shape | stored shift` or `err:<class> | stored shift`. -/
def handleHead (toks : List String) : String :=
  let p : P (Bool × Nat × M3 Rat × V3 Rat × Rat × List (V3 Rat) × V3 Rat × CallArgs Rat) := do
    let mono ← pBool
    let line ← pNat
    let vects ← pM3
    let lens ← pV3
    let ua ← pRat
    let ns ← pNat
    let shifts ← pMany pV3 ns
    let cur ← pV3
    let mults ← pMults
    let mins ← pV3
    let sh ← pShiftArgs
    let c ← pOptV3; let cs ← pBool
    let shape ← tok
    let w ← pRat; let ws ← pBool
    pEnd
    if line > 2 then failure
    pure (mono, line, vects, lens, ua, shifts, cur, ⟨mults, mins, sh, c, cs, shape, w, ws⟩)
  match p.run toks with
  | none => err "format"
  | some ((mono, line, vects, lens, ua, shifts, cur, a), _) =>
    if lens.x ≤ 0 || lens.y ≤ 0 || lens.z ≤ 0 then err "format" else
    match callHead (ceilOfFloor Rat.floor) mono line vects lens ua shifts cur a with
    | (c', .error e) => "err:" ++ e ++ " | " ++ showV c'
    | (c', .ok h) =>
      "ok " ++ showInts [h.sizes.a.lo, h.sizes.a.hi, h.sizes.b.lo, h.sizes.b.hi, h.sizes.c.lo, h.sizes.c.hi] ++ " | " ++
        showV h.shift ++ " | " ++ showV h.center ++ " | " ++ showRat h.width ++ " | " ++
        (match h.shape with | .box => "box" | .cylinder => "cylinder") ++ " | " ++ showV c'

def handleC13 (toks : List String) : String :=
  match toks with
  | "cells" :: rest =>
    match (do let c ← pCellsIn; pEnd; pure c : P _).run rest with
    | some (some c, _) => handleCells c
    | some (none, _) => err "value"
    | none => err "format"
  | "cellsvalid" :: rest =>
    match (do let c ← pCellsIn; let U ← pM3I; let tn ← pInt; let td ← pInt; pEnd; pure (c, U, tn, td) : P _).run rest with
    | some ((some c, U, tn, td), _) => if td = 0 then err "format" else handleCellsValid c U ((tn : Rat) / (td : Rat))
    | some ((none, _, _, _), _) => err "value"
    | none => err "format"
  | "shifts" :: numdec :: tol :: w :: rest =>
    match numdec.toNat?, parseRat? tol, parseRat? w, parseRats? rest with
    | some d, some tol, some w, some xs =>
      if xs.isEmpty then err "value" else
      let coords := roundedCoords d xs
      showRats (identifyShifts coords w tol) ++ " ; " ++ showRats coords
    | _, _, _, _ => err "format"
  | ["sizes", line, s0, s1, s2, qa, qb, qc] =>
    let p : P (Option Sizes) := do
      let l ← pNat
      let a ← pOptInt; let b ← pOptInt; let c ← pOptInt
      let qa ← pOptInt; let qb ← pOptInt; let qc ← pOptInt
      if l > 2 then failure
      match a, b, c with
      | some a, some b, some c => pure (sizes l (some ⟨a, b, c⟩) qa qb qc)
      | none, none, none => pure (sizes l none qa qb qc)
      | _, _, _ => failure
    match p.run [line, s0, s1, s2, qa, qb, qc] with
    | some (some z, _) => showInts [z.a.lo, z.a.hi, z.b.lo, z.b.hi, z.c.lo, z.c.hi]
    | some (none, _) => err "type"
    | none => err "format"
  | "mono" :: rest => handleMono rest
  | "array" :: rest => handleArray rest
  | "region" :: rest => handleRegion rest
  | "disreg" :: rest => handleDisreg rest
  | "params" :: rest => handleParams rest
  | "head" :: rest => handleHead rest
  | _ => err "op"

def main : IO Unit := runDriver handleC13
