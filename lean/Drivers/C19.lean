/-
  C19 driver (stateful: the state is the `Log` object).

  strings on the wire are percent-encoded (`%XX` for `%`, space, control characters) and prefixed
  with `:` so that the empty string is a token.

    new                              -> ok
    read <0|1> :line :line …         -> ok <state> | err:<class>      (append flag first)
    readt <0|1> :text                -> ok <state> | err:<class>      (the whole text as one token: `readText`, the model
                                                                       splits it into lines itself, at %0a only)
    flatten :style <a|none> <b|none> -> ok <table> | err:<class>
    scan :line …                     -> headers/footers of the single pass (evidence/debugging)
    state                            -> ok <state>
    droprow <j>                      -> ok | err:index                  (the caller drops the last row of record j in place)
    sopen <id> :line …               -> ok                              (an open binary stream, position 0; `new` keeps it)
    sseek <id> <k> <c>               -> ok                              (the caller moves it: k lines + c characters)
    sread <id> <0|1>                 -> ok <state> @<k>,<c> | err:<class>   (read(stream, append); position afterwards)

    ctor :line …                     -> ok <state> | err:<class>      (`Log(x)`: a new object; `ctorCall`)
    ctort :text                      -> ok <state> | err:<class>
    readts <0|1|->                   -> err:value                       (read of a stream opened in text mode: `readInput … .textStream`)

    an append flag / a style given as `-` = argument left out (default of the signature, regenerated from the source)

    <state> = V:<version>|Vnone  D<y>-<m>-<d>|Dnone  N<k>  <sim>*
    <sim>   = <table> (P0 | P1 <ncols> <nrows> :col… (:section :val…)*) <keys>
    <keys>  = K<n> :key…  X<bits>      (keys() of the object; does sim[k] raise KeyError for k = thermo, performance, Step)
    flatten replies `ok <table> <keys>`
    <table> = T <ncols> <nrows> :col…  (R<len> :tok…)*
-/
import Atomman.C19
open Atomman Atomman.C19

def hexVal? (c : Char) : Option Nat :=
  if '0' ≤ c ∧ c ≤ '9' then some (c.toNat - '0'.toNat)
  else if 'a' ≤ c ∧ c ≤ 'f' then some (c.toNat - 'a'.toNat + 10)
  else if 'A' ≤ c ∧ c ≤ 'F' then some (c.toNat - 'A'.toNat + 10)
  else none

def decodeChars : List Char → Option (List Char)
  | [] => some []
  | '%' :: a :: b :: rest =>
    match hexVal? a, hexVal? b, decodeChars rest with
    | some x, some y, some r => some (Char.ofNat (16 * x + y) :: r)
    | _, _, _ => none
  | '%' :: _ => none
  | c :: rest => (decodeChars rest).map (c :: ·)

def decodeTok (s : String) : Option Str :=
  match s.toList with
  | ':' :: rest => decodeChars rest
  | _ => none

def hexDigit (n : Nat) : Char := if n < 10 then Char.ofNat (48 + n) else Char.ofNat (87 + n)

def encodeStr (s : Str) : String :=
  String.ofList (':' :: s.flatMap (fun c =>
    if c == '%' || c.toNat < 33 || c.toNat == 127 then
      ['%', hexDigit (c.toNat / 16 % 16), hexDigit (c.toNat % 16)]
    else [c]))

def showTable (t : Table) : List String :=
  ["T", toString t.cols.length, toString t.rows.length] ++ t.cols.map encodeStr ++
    t.rows.flatMap (fun r => ("R" ++ toString r.length) :: r.map encodeStr)

def showPerf : Option Perf → List String
  | none => ["P0"]
  | some p => ["P1", toString p.cols.length, toString p.rows.length] ++ p.cols.map encodeStr ++
      p.rows.flatMap (fun r => encodeStr r.1 :: r.2.map encodeStr)

def probeKeys : List String := ["thermo", "performance", "Step"]

def showKeys (o : SimObj) : List String :=
  ["K" ++ toString o.keys.length] ++ o.keys.map (fun k => encodeStr k.toList) ++
    ["X" ++ String.join (probeKeys.map (fun k => if o.getItemRefuses k then "1" else "0"))]

def showState (st : LogState) : String :=
  " ".intercalate (
    [match st.version with | none => "Vnone" | some v => "V" ++ encodeStr v,
     match st.date with | none => "Dnone" | some d => s!"D{d.year}-{d.month}-{d.day}",
     "N" ++ toString st.sims.length] ++
    st.sims.flatMap (fun s => showTable s.thermo ++ showPerf s.perf ++ showKeys s.obj))

/-- `-` = argument left out -/
def parseOptBool? (s : String) : Option (Option Bool) :=
  if s = "-" then some none else (parseBool? s).map some

def parseOptInt? (s : String) : Option (Option Int) :=
  if s = "none" then some none else s.toInt?.map some

structure World where
  log : LogState := {}
  streams : List (Nat × Stream) := []

def World.stream? (w : World) (id : Nat) : Option Stream := (w.streams.find? (·.1 == id)).map (·.2)

def World.setStream (w : World) (id : Nat) (s : Stream) : World :=
  { w with streams := (id, s) :: w.streams.filter (·.1 != id) }

def handleC19 (w : World) (toks : List String) : World × String :=
  let st := w.log
  match toks with
  | ["new"] => ({ w with log := LogState.empty }, "ok")
  | "ctor" :: rest =>
    match rest.mapM decodeTok with
    | some lines =>
      match ctorCall (some lines) with
      | .ok st' => ({ w with log := st' }, "ok " ++ showState st')
      | .error e => ({ w with log := LogState.empty }, err e.name)
    | none => (w, err "format")
  | ["ctort", text] =>
    match decodeTok text with
    | some t =>
      match ctorCall (some (splitLines t)) with
      | .ok st' => ({ w with log := st' }, "ok " ++ showState st')
      | .error e => ({ w with log := LogState.empty }, err e.name)
    | none => (w, err "format")
  | "read" :: app :: rest =>
    match parseOptBool? app, rest.mapM decodeTok with
    | some a, some lines =>
      match readCall st a lines with
      | .ok st' => ({ w with log := st' }, "ok " ++ showState st')
      | .error e => (w, err e.name)
    | _, _ => (w, err "format")
  | ["readt", app, text] =>
    match parseOptBool? app, decodeTok text with
    | some a, some t =>
      match readCall st a (splitLines t) with
      | .ok st' => ({ w with log := st' }, "ok " ++ showState st')
      | .error e => (w, err e.name)
    | _, _ => (w, err "format")
  | ["readts", app] =>
    -- a stream opened in text mode handed to read(): the model's answer for that input form
    match parseOptBool? app with
    | some a =>
      match readInput st a .textStream with
      | .ok (st', _) => ({ w with log := st' }, "ok " ++ showState st')
      | .error e => (w, err e.name)
    | none => (w, err "format")
  | "sopen" :: id :: rest =>
    match id.toNat?, rest.mapM decodeTok with
    | some id, some lines => (w.setStream id { lines := lines }, "ok")
    | _, _ => (w, err "format")
  | ["sseek", id, k, c] =>
    match id.toNat?, k.toNat?, c.toNat? with
    | some id, some k, some c =>
      match w.stream? id with
      | some s => (w.setStream id { s with k := k, c := c }, "ok")
      | none => (w, err "op")
    | _, _, _ => (w, err "format")
  | ["sread", id, app] =>
    match id.toNat?, parseOptBool? app with
    | some id, some a =>
      match w.stream? id with
      | none => (w, err "op")
      | some s =>
        match readLogS st (a.getD Gen.Log.readAppendDefault) s with
        | .ok (st', s') => ({ (w.setStream id s') with log := st' }, s!"ok {showState st'} @{s'.k},{s'.c}")
        | .error e => (w, err e.name)
    | _, _ => (w, err "format")
  | ["flatten", style, a, b] =>
    match (if style = "-" then some none else (decodeTok style).map some), parseOptInt? a, parseOptInt? b with
    | some sty, some a, some b =>
      match flattenCall st sty a b with
      | .ok t => (w, "ok " ++ " ".intercalate (showTable t ++ showKeys (flattenObj t)))
      | .error e => (w, err e.name)
    | _, _, _ => (w, err "format")
  | ["state"] => (w, "ok " ++ showState st)
  | ["droprow", j] =>
    -- the caller edits a record he was handed: `log.simulations[j].thermo.drop(<last row label>, inplace=True)`
    match j.toNat? with
    | some j =>
      if j < st.sims.length then
        ({ w with log := { st with sims := st.sims.modify j (fun s =>
            { s with thermo := { s.thermo with rows := s.thermo.rows.dropLast } }) } }, "ok")
      else (w, err "index")
    | none => (w, err "format")
  | "scan" :: rest =>
    match rest.mapM decodeTok with
    | some lines =>
      let sc := scan {} lines
      (w, s!"ok i={sc.i} th={sc.thermoHeaders} tf={sc.thermoFooters} ph={sc.perfHeaders} ps={sc.perfSims} pf={sc.perfFooters} old={sc.isOld}")
    | none => (w, err "format")
  | _ => (w, err "op")

def main : IO Unit := runDriverS handleC19 {}
