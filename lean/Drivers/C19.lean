import Atomman.Prelude
open Atomman

/-- stub: replaced when the C19 model is built. -/
def handleC19 (_toks : List String) : String := err "op"

def main : IO Unit := runDriver handleC19
