import Atomman.C20
open Atomman Atomman.C20

def handleC20 (toks : List String) : String :=
  match toks with
  | "euler" :: n :: rest | "rk" :: n :: rest =>
    match n.toNat?, parseRats? rest with
    | some n, some xs =>
      if xs.length ≠ n * n + n + 1 then err "format" else
      let A := chunks n n (xs.take (n * n))
      let y : Vec := ⟨(xs.drop (n * n)).take n⟩
      let h := xs.getLastD 0
      let r := if toks.head? = some "euler" then Gen.euler (matVec A) y h else Gen.rungekutta (matVec A) y h
      showRats r.d
    | _, _ => err "format"
  | "cd" :: n :: i :: rest =>
    match n.toNat?, i.toNat?, parseRats? rest with
    | some n, some i, some xs =>
      if xs.length ≠ 4 * n + 2 then err "format" else
      let a := xs.take n; let b := (xs.drop n).take n; let c := (xs.drop (2 * n)).take n
      let x : Vec := ⟨(xs.drop (3 * n)).take n⟩
      let m := (xs.drop (4 * n)).headD 0
      let s := xs.getLastD 0
      if s = 0 then err "value" else
      showRat (Gen.cdComponent (testFxn a b c m) x (unitVec n i s) s)
    | _, _, _ => err "format"
  | "climb" :: n :: rest =>
    match n.toNat?, parseRats? rest with
    | some n, some xs =>
      if xs.length ≠ 2 * n then err "format" else
      let g : Vec := ⟨xs.take n⟩; let τ : Vec := ⟨xs.drop n⟩
      showRats (Gen.climbrate (K := Rat) (fun _ => g) Vec.dot ⟨[]⟩ τ).d
    | _, _ => err "format"
  | "rate" :: n :: rest =>
    match n.toNat?, parseRats? rest with
    | some _, some xs => showRats (Gen.rate (fun _ => (⟨xs⟩ : Vec)) ⟨[]⟩).d
    | _, _ => err "format"
  | "phase" :: n :: tol :: rest =>
    match n.toNat?, parseRat? tol, parseRats? rest with
    | some n, some tol, some ds => toString (phaseSteps tol n ds)
    | _, _, _ => err "format"
  | _ => err "op"

def main : IO Unit := runDriver handleC20
