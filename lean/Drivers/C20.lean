import Atomman.C20
open Atomman Atomman.C20

/-! Line-protocol driver for C20.  Stateless ops: `euler rk cd cda climb rate phase`.
    Stateful ops (`p…`): a table of path objects (`Path Vec Rat`) addressed by index. -/

structure Obj where
  path : Path Vec Rat
  dim : Nat
  a : List Rat
  b : List Rat
  c : List Rat
  m : Rat

abbrev St := Array Obj

def gfCd (dim : Nat) : (Vec → Rat) → Vec → Option Rat → Vec :=
  fun f x kw => cdPoint Vec.mk (unitVec dim) dim f x (kw.getD Gen.cdDefaultShift)

def gfAnalytic (a b c : List Rat) (m : Rat) : (Vec → Rat) → Vec → Option Rat → Vec :=
  fun _ x kw => (kw.getD 1) • testGrad a b c m x

def integOf? : String → Option ((Vec → Vec) → Vec → Rat → Vec)
  | "euler" => some (fun r x h => Gen.euler r x h)
  | "rk" => some (fun r x h => Gen.rungekutta r x h)
  | _ => none

def gfOf? (o : Obj) : String → Option ((Vec → Rat) → Vec → Option Rat → Vec)
  | "cd" => some (gfCd o.dim)
  | "an" => some (gfAnalytic o.a o.b o.c o.m)
  | _ => none

def rowsOf (d : Nat) (n : Nat) (xs : List Rat) : List Vec := (chunks d n xs).map Vec.mk

def showRows (rows : List Vec) : String := showRats (rows.flatMap (·.d))

def sect (l : List String) : String := " ; ".intercalate l

def observe (o : Obj) : String :=
  let p := o.path
  let n := p.coord.length
  let geo := n ≥ 2
  sect [showRows p.coord, showRats p.energy, showRows p.gradEnergy,
        showRats (p.arccoord Vec.dot ratSqrt),
        if geo then showRows (p.unitTangent Vec.dot ratSqrt) else err "value",
        if geo then showRats (p.force Vec.dot ratSqrt) else err "value"]

def handleStateless (toks : List String) : String :=
  match toks with
  | "euler" :: n :: rest | "rk" :: n :: rest =>
    match n.toNat?, parseRats? rest with
    | some n, some xs =>
      if xs.length ≠ n * n + n + 1 then err "format" else
      let A := chunks n n (xs.take (n * n))
      let y : Vec := ⟨(xs.drop (n * n)).take n⟩
      let h := xs.getLastD 0
      let r := if toks.head? = some "euler" then Gen.euler (matVec A) y h else Gen.rungekutta (matVec A) y h
      showRats r.d
    | _, _ => err "format"
  | "cd" :: n :: i :: rest =>
    match n.toNat?, i.toNat?, parseRats? rest with
    | some n, some i, some xs =>
      if xs.length ≠ 4 * n + 2 then err "format" else
      let a := xs.take n; let b := (xs.drop n).take n; let c := (xs.drop (2 * n)).take n
      let x : Vec := ⟨(xs.drop (3 * n)).take n⟩
      let m := (xs.drop (4 * n)).headD 0
      let s := xs.getLastD 0
      if s = 0 then err "value" else
      showRat (Gen.cdComponent (testFxn a b c m) x (unitVec n i s) s)
    | _, _, _ => err "format"
  -- cda d P s <a d> <b d> <c d> m <pts P*d> : central_difference on an array of P points (any leading shape,
  -- row-major); reply: the gradient array, row-major
  | "cda" :: d :: np :: rest =>
    match d.toNat?, np.toNat?, parseRats? rest with
    | some d, some np, some xs =>
      if xs.length ≠ 1 + 3 * d + 1 + np * d then err "format" else
      let s := xs.headD 0
      let xs := xs.drop 1
      let a := xs.take d; let b := (xs.drop d).take d; let c := (xs.drop (2 * d)).take d
      let m := (xs.drop (3 * d)).headD 0
      let pts := rowsOf d np (xs.drop (3 * d + 1))
      if s = 0 then err "value" else
      showRows (cdArray Vec.mk (unitVec d) d (testFxn a b c m) pts s)
    | _, _, _ => err "format"
  | "climb" :: n :: rest =>
    match n.toNat?, parseRats? rest with
    | some n, some xs =>
      if xs.length ≠ 2 * n then err "format" else
      let g : Vec := ⟨xs.take n⟩; let τ : Vec := ⟨xs.drop n⟩
      showRats (Gen.climbrate (K := Rat) (fun _ => g) Vec.dot ⟨[]⟩ τ).d
    | _, _ => err "format"
  | "rate" :: n :: rest =>
    match n.toNat?, parseRats? rest with
    | some _, some xs => showRats (Gen.rate (fun _ => (⟨xs⟩ : Vec)) ⟨[]⟩).d
    | _, _ => err "format"
  | "phase" :: n :: tol :: rest =>
    match n.toNat?, parseRat? tol, parseRats? rest with
    | some n, some tol, some ds => toString (phaseSteps tol n ds)
    | _, _, _ => err "format"
  -- climbsel cp <E…> : the climbing images `relax(climbpoints=cp)` chooses on a string with image energies E
  | "climbsel" :: cp :: rest =>
    match cp.toNat?, parseRats? rest with
    | some cp, some es => " ".intercalate ("sel" :: (climbIndices cp es).map toString)
    | _, _ => err "format"
  -- respace k <climb ×k> <α…> : the arc coordinates at which `step` places the new images
  | "respace" :: k :: rest =>
    match k.toNat? with
    | some k =>
      match parseNats? (rest.take k), parseRats? (rest.drop k) with
      | some climb, some α =>
        if α.isEmpty ∨ climb.any (fun c => c = 0 ∨ c + 1 ≥ α.length) ∨ ¬ (climb.zip (climb.drop 1)).all (fun (a, b) => a < b)
        then err "value" else showRats (Path.respaceTargets climb α)
      | _, _ => err "format"
    | none => err "format"
  -- ctor e style gfx kw ifx : what `create_path` does with these arguments (`-` = argument left out)
  | ["ctor", e, style, gfx, kw, ifx] =>
    let fx? : String → Option (Option FxnArg) := fun t =>
      if t = "-" then some none else if t = "c" then some (some .callable) else if t = "o" then some (some .other)
      else if t.startsWith "n:" then some (some (.name (t.drop 2).toString)) else none
    let kw? : Option (Option KwArg) := match kw with
      | "-" => some none | "none" => some (some .none) | "dict" => some (some .dict) | "other" => some (some .other)
      | _ => none
    let st? : Option (Option String) :=
      if style = "-" then some none else if style.startsWith "s:" then some (some (style.drop 2).toString) else none
    match fx? gfx, fx? ifx, kw?, st? with
    | some g, some i, some k, some st =>
      if e ≠ "0" ∧ e ≠ "1" then err "format" else
      match createPath { energyCallable := e = "1", style := st, gradientfxn := g, gradientkwargs := k, integratorfxn := i } with
      | .ok (g, i, fresh) =>
        let gs := match g with | .centralDifference => "central_difference" | .user => "user"
        let is := match i with | .rungekutta => "rungekutta" | .euler => "euler" | .user => "user"
        s!"ok {gs} {is} {if fresh then 1 else 0}"
      | .error .value => err "value"
      | .error .type => err "type"
    | _, _, _, _ => err "format"
  | "pdef" :: n :: [] =>
    match n.toNat? with
    | some n => if n = 0 then err "value" else
      showRats [Path.defaultTimestep (K := Rat) n, Path.defaultTolerance (K := Rat) n]
    | none => err "format"
  | _ => err "op"

def withObj (st : St) (k : String) (f : Obj → St × String) : St × String :=
  match k.toNat? with
  | some k => match st[k]? with
    | some o => f o
    | none => (st, err "value")
  | none => (st, err "format")

def setPath (st : St) (k : String) (o : Obj) (p : Path Vec Rat) : St :=
  match k.toNat? with
  | some k => st.setIfInBounds k { o with path := p }
  | none => st

def stepC20 (st : St) (toks : List String) : St × String :=
  match toks with
  -- pnew d N g kwflag integ <coords N*d> <a d> <b d> <c d> m [kw]
  | "pnew" :: d :: n :: g :: kwf :: integ :: rest =>
    match d.toNat?, n.toNat?, parseRats? rest, integOf? integ with
    | some d, some n, some xs, some ifx =>
      let nkw := if kwf = "1" then 1 else 0
      if xs.length ≠ n * d + 3 * d + 1 + nkw ∨ d = 0 then (st, err "format") else
      let coord := rowsOf d n xs
      let ps := xs.drop (n * d)
      let a := ps.take d; let b := (ps.drop d).take d; let c := (ps.drop (2 * d)).take d
      let m := (ps.drop (3 * d)).headD 0
      let kw := if nkw = 1 then some (xs.getLastD 0) else none
      let o0 : Obj := ⟨⟨coord, testFxn a b c m, gfCd d, kw, ifx⟩, d, a, b, c, m⟩
      match gfOf? o0 g with
      | some gf => (st.push { o0 with path := { o0.path with gradientfxn := gf } }, s!"ok {st.size}")
      | none => (st, err "format")
    | _, _, _, _ => (st, err "format")
  | "pcoord" :: k :: n :: rest => withObj st k fun o =>
    match n.toNat?, parseRats? rest with
    | some n, some xs =>
      if xs.length ≠ n * o.dim then (st, err "format") else
      (setPath st k o (o.path.apply (.setCoord (rowsOf o.dim n xs))), "ok")
    | _, _ => (st, err "format")
  | "prow" :: k :: i :: rest => withObj st k fun o =>
    match i.toNat?, parseRats? rest with
    | some i, some xs =>
      if xs.length ≠ o.dim then (st, err "format") else
      if i ≥ o.path.coord.length then (st, err "value") else
      (setPath st k o (o.path.apply (.setRow i ⟨xs⟩)), "ok")
    | _, _ => (st, err "format")
  | ["pgfx", k, g] => withObj st k fun o =>
    match gfOf? o g with
    | some gf => (setPath st k o (o.path.apply (.setGradientfxn gf)), "ok")
    | none => (st, err "value")
  | "pkw" :: k :: flag :: rest => withObj st k fun o =>
    match flag, parseRats? rest with
    | "0", some [] => (setPath st k o (o.path.apply (.setKwargs none)), "ok")
    | "1", some [v] => (setPath st k o (o.path.apply (.setKwargs (some v))), "ok")
    | _, _ => (st, err "format")
  | ["pint", k, integ] => withObj st k fun o =>
    match integOf? integ with
    | some f => (setPath st k o (o.path.apply (.setIntegratorfxn f)), "ok")
    | none => (st, err "value")
  -- attribute without a setter (energyfxn, gradientkwargs): refused, state unchanged
  | ["psetattr", k, _] => withObj st k fun _ => (st, err "op")
  | ["pobs", k] => withObj st k fun o => (st, observe o)
  | "penergy" :: k :: n :: rest => withObj st k fun o =>
    match n.toNat?, parseRats? rest with
    | some n, some xs =>
      if xs.length ≠ n * o.dim then (st, err "format") else (st, showRats (o.path.energyAt (rowsOf o.dim n xs)))
    | _, _ => (st, err "format")
  | "pgradat" :: k :: n :: rest => withObj st k fun o =>
    match n.toNat?, parseRats? rest with
    | some n, some xs =>
      if xs.length ≠ n * o.dim then (st, err "format") else (st, showRows (o.path.gradAt (rowsOf o.dim n xs)))
    | _, _ => (st, err "format")
  -- pstep k h [i…] : new object (same functions and settings) holding the integrated coordinates
  | "pstep" :: k :: h :: climb => withObj st k fun o =>
    match parseRat? h, parseInts? climb with
    | some h, some climbI =>
      let n := o.path.coord.length
      -- the climbing images as Python resolves them: counted from the front (i) or from the end (i - n)
      match climbImages? n climbI with
      | none => (st, err "value")
      | some climb =>
      if climb.any (· ≥ n) then (st, err "value") else
      if n < 2 then (st, err "value") else
      let ic := if climb.isEmpty then o.path.icoordPlain h else o.path.icoord Vec.dot ratSqrt h climb
      (st.push { o with path := o.path.withCoord ic }, sect [s!"ok {st.size}", showRows ic])
    | _, _ => (st, err "format")
  -- pends k h n : the first and last image after n ordinary steps
  | ["pends", k, h, n] => withObj st k fun o =>
    match parseRat? h, n.toNat? with
    | some h, some n =>
      match o.path.coord.head?, o.path.coord.getLast? with
      | some x0, some xl => (st, showRows (o.path.iterateRows h n [x0, xl]))
      | _, _ => (st, err "value")
    | _, _ => (st, err "format")
  -- prelax k h tol r c : relax of a two-image path (every image kept by the re-spacing):
  -- rows after the relaxation phase and the climbing phase (no climbing image), the displacement measures
  | ["prelax", k, h, tol, r, c] => withObj st k fun o =>
    match parseRat? h, parseRat? tol, r.toNat?, c.toNat? with
    | some h, some tol, some r, some c =>
      if o.path.coord.length ≠ 2 ∨ h = 0 then (st, err "value") else
      let a := o.path.relaxPhase Vec.dot ratSqrt h tol r o.path.coord
      let b := o.path.relaxPhase Vec.dot ratSqrt h tol c a.1
      (st, sect [showRows b.1, showRats a.2, showRats b.2])
    | _, _, _, _ => (st, err "format")
  | ["pcopy", k] => withObj st k fun o => (st.push o, s!"ok {st.size}")
  | ["preset"] => (#[], "ok")
  | _ => (st, handleStateless toks)

def main : IO Unit := runDriverS stepC20 (#[] : St)
