import Atomman.C18
open Atomman Atomman.C18

/-! line-protocol driver of the C18 model at `K := Rat` (see harness/props/c18.py for the ops). -/

namespace C18Drv

abbrev Q := Rat

def takeN (n : Nat) (xs : List Q) : Option (List Q × List Q) :=
  if xs.length < n then none else some (xs.take n, xs.drop n)

def take1 (xs : List Q) : Option (Q × List Q) :=
  match xs with
  | a :: r => some (a, r)
  | [] => none

def takeNat (xs : List Q) : Option (Nat × List Q) :=
  match xs with
  | a :: r => if a.den = 1 ∧ 0 ≤ a.num then some (a.num.toNat, r) else none
  | [] => none

def takeBool (xs : List Q) : Option (Bool × List Q) :=
  match xs with
  | a :: r => if a = 1 then some (true, r) else if a = 0 then some (false, r) else none
  | [] => none

def takeV3 (xs : List Q) : Option (V3 Q × List Q) :=
  match xs with
  | a :: b :: c :: r => some (⟨a, b, c⟩, r)
  | _ => none

def takeM3 (xs : List Q) : Option (M3 Q × List Q) := do
  let (a, r) ← takeV3 xs
  let (b, r) ← takeV3 r
  let (c, r) ← takeV3 r
  pure (⟨a, b, c⟩, r)

def toV3s : List Q → List (V3 Q)
  | a :: b :: c :: r => ⟨a, b, c⟩ :: toV3s r
  | _ => []

def toPairs : List Q → List (Q × Q)
  | a :: b :: r => (a, b) :: toPairs r
  | _ => []

def flatV3 (l : List (V3 Q)) : List Q := l.flatMap V3.toList
def flatPairs (l : List (Q × Q)) : List Q := l.flatMap (fun p => [p.1, p.2])

def takeV3s (n : Nat) (xs : List Q) : Option (List (V3 Q) × List Q) := do
  let (a, r) ← takeN (3 * n) xs
  pure (toV3s a, r)

def chunk (k : Nat) : Nat → List Q → List (List Q)
  | 0, _ => []
  | n + 1, l => l.take k :: chunk k n (l.drop k)

/-- function from an association table keyed by the exact argument. -/
def tableFn (keys vals : List Q) (x : Q) : Q := ((keys.zip vals).lookup x).getD 0

def fl (x : Q) : Int := x.floor
def cl (x : Q) : Int := x.ceil

def done (r : Option String) : String := r.getD (err "format")

/-- the four-node table of one query point. -/
def quadFn (a1w a2w f00 f01 f10 f11 : Q) (a b : Q) : Q :=
  if a = a1w then (if b = a2w then f00 else f01) else (if b = a2w then f10 else f11)

def egsfPoint (c1 c2 : Q) (row : List Q) : List Q :=
  match row with
  | [a1, a2, f00, f01, f10, f11] =>
    let a1w := wrap fl c1 a1
    let a2w := wrap fl c2 a2
    [a1w, a2w, wgt c1 a1w, wgt c2 a2w, E fl (quadFn a1w a2w f00 f01 f10 f11) c1 c2 a1 a2]
  | _ => []

def handle (toks : List String) : String :=
  match toks with
  | [] => err "op"
  | op :: rest =>
    match parseRats? rest with
    | none => err "format"
    | some xs =>
      match op with
      | "fit" => done do
          let (n, r) ← takeNat xs
          let (a1, r) ← takeN n r
          let (a2, r) ← takeN n r
          let (e, _) ← takeN n r
          let D : List (Node Q) := (a1.zip (a2.zip e)).map (fun t => ⟨t.1, t.2.1, t.2.2⟩)
          match fitNodes? D, cushion? a1, cushion? a2 with
          | some N, some c1, some c2 =>
            pure (showRats ([c1, c2, (N.length : Q)] ++ N.map (·.a1) ++ N.map (·.a2) ++ N.map (·.e)))
          | _, _, _ => pure (err "value")
      | "egsf" => done do
          let (c1, r) ← take1 xs
          let (c2, r) ← take1 r
          let (m, r) ← takeNat r
          let (rows, _) ← takeN (6 * m) r
          pure (showRats ((chunk 6 m rows).flatMap (egsfPoint c1 c2)))
      | "delta" => done do
          let (m, r) ← takeNat xs
          let (rows, _) ← takeN (2 * m) r
          pure (showRats ((toPairs rows).flatMap (fun p => [wrapN fl cl p.1, wrapN fl cl p.2])))
      | "cart" => done do
          let (v, r) ← takeV3 xs
          let (B, _) ← takeM3 r
          pure (showRats (cartOf v B).toList)
      | "a2p" => done do
          let (A1, r) ← takeV3 xs
          let (A2, r) ← takeV3 r
          let (m, r) ← takeNat r
          let (rows, _) ← takeN (2 * m) r
          pure (showRats (flatV3 ((toPairs rows).map (a12ToPos A1 A2))))
      | "p2a" => done do
          let (A1, r) ← takeV3 xs
          let (A2, r) ← takeV3 r
          let (m, r) ← takeNat r
          let (ps, _) ← takeV3s m r
          match ps.mapM (posToA12? A1 A2) with
          | some l => pure (showRats (flatPairs l))
          | none => pure (err "assert")
      | "p2xy" | "xy2p" => done do
          let (X, r) ← takeV3 xs
          let (A1, r) ← takeV3 r
          let (A2, r) ← takeV3 r
          let (nn, r) ← take1 r
          let (nx, r) ← take1 r
          let (ny, r) ← take1 r
          let (nz, r) ← take1 r
          let (m, r) ← takeNat r
          let Nh := planeNormal A1 A2 nn
          if !(xvectOk X Nh) then pure (err "value") else
          let T := xyTransform X Nh nx ny nz
          if op = "p2xy" then do
            let (ps, _) ← takeV3s m r
            pure (showRats (flatPairs (ps.map (posToXY T))))
          else do
            let (rows, _) ← takeN (2 * m) r
            pure (showRats (flatV3 ((toPairs rows).map (xyToPos T))))
      | "dens" => done do
          let (cd, r) ← takeBool xs
          let (n, r) ← takeNat r
          let (x, r) ← takeN n r
          let (d, _) ← takeV3s n r
          pure (showRats (flatV3 (disldensity cd x d)))
      | "elastic" => done do
          let (cd, r) ← takeBool xs
          let (pi, r) ← take1 r
          let (n, r) ← takeNat r
          let (x, r) ← takeN n r
          let (d, r) ← takeV3s n r
          let (Kt, r) ← takeM3 r
          let dx := gridStep x
          let nρ := (disldensity cd x d).length
          let (logs, _) ← takeN nρ r
          let keys := (List.range nρ).map (fun k => ((k + 1 : Nat) : Q) * dx)
          pure (showRat (elasticEnergy (tableFn keys logs) pi Kt cd x d))
      | "long" => done do
          let (pi, r) ← take1 xs
          let (logL, r) ← take1 r
          let (b, r) ← takeV3 r
          let (Kt, _) ← takeM3 r
          pure (showRat (longrangeEnergy pi logL Kt b))
      | "stress" => done do
          let (full, r) ← takeBool xs
          let (cd, r) ← takeBool r
          let (n, r) ← takeNat r
          let (x, r) ← takeN n r
          let (d, r) ← takeV3s n r
          let (τ1, _) ← takeV3 r
          pure (showRat (stressEnergy full cd τ1 x d))
      | "surface" => done do
          let (cd, r) ← takeBool xs
          let (n, r) ← takeNat r
          let (x, r) ← takeN n r
          let (d, r) ← takeV3s n r
          let (β, _) ← takeM3 r
          pure (showRat (surfaceEnergy cd β x d))
      | "nonlocal" => done do
          let (n, r) ← takeNat xs
          let (x, r) ← takeN n r
          let (d, r) ← takeV3s n r
          let (k, r) ← takeNat r
          let (αs, _) ← takeN k r
          pure (showRat (nonlocalEnergy αs x d))
      | "misfit" => done do
          let (T, r) ← takeM3 xs
          let (A1, r) ← takeV3 r
          let (A2, r) ← takeV3 r
          let (c1, r) ← take1 r
          let (c2, r) ← take1 r
          let (n, r) ← takeNat r
          let (x, r) ← takeN n r
          let (rows, _) ← takeN (6 * n) r
          let rws := chunk 6 n rows
          let d : List (V3 Q) := rws.map (fun w => ⟨w.getD 0 0, 0, w.getD 1 0⟩)
          let keys : List (V3 Q) := d.map (fun δ => M3.vecMul ⟨δ.x, 0, δ.z⟩ T)
          let gam : V3 Q → Q := fun p =>
            match (keys.zip rws).lookup p with
            | some w =>
              let a := posToA12 A1 A2 p
              let a1w := wrap fl c1 a.1
              let a2w := wrap fl c2 a.2
              E fl (quadFn a1w a2w (w.getD 2 0) (w.getD 3 0) (w.getD 4 0) (w.getD 5 0)) c1 c2 a.1 a.2
            | none => 0
          pure (showRat (misfitEnergy gam T x d))
      | "recompose" => done do
          let (k, r) ← takeNat xs
          let (res, r) ← takeN k r
          let (first, r) ← takeV3 r
          let (last, _) ← takeV3 r
          if k % 2 ≠ 0 then pure (err "value") else
          pure (showRats (flatV3 (recompose res first last)))
      | "decompose" => done do
          let (n, r) ← takeNat xs
          let (d, _) ← takeV3s n r
          pure (showRats (decompose d))
      | "arctan" => done do
          let (n, r) ← takeNat xs
          let (x, r) ← takeN n r
          let (atv, r) ← takeN n r
          let (pi, r) ← take1 r
          let (b, r) ← takeV3 r
          let (center, r) ← take1 r
          let (hw, r) ← take1 r
          let (nrm, r) ← takeBool r
          let (sh, r) ← takeBool r
          let (normB, r) ← take1 r
          let (normLast, _) ← take1 r
          let keys := x.map (fun xi => (xi - center) / hw)
          pure (showRats (flatV3 (pnArctanDisregistry (tableFn keys atv) pi x b center hw nrm sh normB normLast)))
      | "arctandens" => done do
          let (n, r) ← takeNat xs
          let (x, r) ← takeN n r
          let (pi, r) ← take1 r
          let (b, r) ← takeV3 r
          let (center, r) ← take1 r
          let (hw, r) ← take1 r
          let (nrm, r) ← takeBool r
          let (normB, r) ← take1 r
          let (normInt, _) ← take1 r
          pure (showRats (flatV3 (pnArctanDisldensity pi x b center hw nrm normB normInt)))
      | _ => err "op"

end C18Drv

def handleC18 (toks : List String) : String := C18Drv.handle toks

def main : IO Unit := runDriver handleC18
