import Atomman.C18
import Std.Data.HashMap
open Atomman Atomman.C18

/-! line-protocol driver of the C18 model at `K := Rat` (see harness/props/c18.py for the ops). -/

namespace C18Drv

abbrev Q := Rat

def takeN (n : Nat) (xs : List Q) : Option (List Q × List Q) :=
  if xs.length < n then none else some (xs.take n, xs.drop n)

def take1 (xs : List Q) : Option (Q × List Q) :=
  match xs with
  | a :: r => some (a, r)
  | [] => none

def takeNat (xs : List Q) : Option (Nat × List Q) :=
  match xs with
  | a :: r => if a.den = 1 ∧ 0 ≤ a.num then some (a.num.toNat, r) else none
  | [] => none

def takeBool (xs : List Q) : Option (Bool × List Q) :=
  match xs with
  | a :: r => if a = 1 then some (true, r) else if a = 0 then some (false, r) else none
  | [] => none

def takeV3 (xs : List Q) : Option (V3 Q × List Q) :=
  match xs with
  | a :: b :: c :: r => some (⟨a, b, c⟩, r)
  | _ => none

def takeM3 (xs : List Q) : Option (M3 Q × List Q) := do
  let (a, r) ← takeV3 xs
  let (b, r) ← takeV3 r
  let (c, r) ← takeV3 r
  pure (⟨a, b, c⟩, r)

def toV3s : List Q → List (V3 Q)
  | a :: b :: c :: r => ⟨a, b, c⟩ :: toV3s r
  | _ => []

def toPairs : List Q → List (Q × Q)
  | a :: b :: r => (a, b) :: toPairs r
  | _ => []

def flatV3 (l : List (V3 Q)) : List Q := l.flatMap V3.toList
def flatPairs (l : List (Q × Q)) : List Q := l.flatMap (fun p => [p.1, p.2])

def takeV3s (n : Nat) (xs : List Q) : Option (List (V3 Q) × List Q) := do
  let (a, r) ← takeN (3 * n) xs
  pure (toV3s a, r)

def chunk (k : Nat) : Nat → List Q → List (List Q)
  | 0, _ => []
  | n + 1, l => l.take k :: chunk k n (l.drop k)

/-- function from an association table keyed by the exact argument. -/
def tableFn (keys vals : List Q) (x : Q) : Q := ((keys.zip vals).lookup x).getD 0

def fl (x : Q) : Int := x.floor
def cl (x : Q) : Int := x.ceil

def done (r : Option String) : String := r.getD (err "format")

/-- the four-node table of one query point. -/
def quadFn (a1w a2w f00 f01 f10 f11 : Q) (a b : Q) : Q :=
  if a = a1w then (if b = a2w then f00 else f01) else (if b = a2w then f10 else f11)

/-- the ONE interpolant of a many-point `E_gsf` call: the table of all recorded node values (four per query point:
    the wrapped point and its three `+1` companions), keyed by the exact node; a node recorded twice keeps its
    first value, a node never asked gives 0 (never read: `E` asks exactly the four recorded nodes of each point). -/
def egsfTable (c1 c2 : Q) (rows : List (List Q)) : Std.HashMap (Q × Q) Q :=
  rows.foldl (fun m row =>
    match row with
    | [a1, a2, f00, f01, f10, f11] =>
      let a1w := wrap fl c1 a1
      let a2w := wrap fl c2 a2
      (((m.insertIfNew (a1w, a2w) f00).insertIfNew (a1w, a2w + 1) f01).insertIfNew (a1w + 1, a2w) f10).insertIfNew
        (a1w + 1, a2w + 1) f11
    | _ => m) {}

/-- the `egsf` op: ONE call of the model's `EMany` (the definition the `EMany_*` theorems are about) with the one
    table interpolant; per point the reply also carries the wrapped coordinates and the two blend weights. -/
def egsfMany (c1 c2 : Q) (rows : List (List Q)) : List Q :=
  let tbl := egsfTable c1 c2 rows
  let f : Q → Q → Q := fun a b => (tbl.get? (a, b)).getD 0
  let qs : List (Q × Q) := rows.map (fun r => (r.getD 0 0, r.getD 1 0))
  let es := EMany fl f c1 c2 qs
  (qs.zip es).flatMap (fun qe =>
    let a1w := wrap fl c1 qe.1.1
    let a2w := wrap fl c2 qe.1.2
    [a1w, a2w, wgt c1 a1w, wgt c2 a2w, qe.2])

/-- `none` | `some x y z` prefix → (xvect, remaining tokens as rationals). -/
def takeXvect (toks : List String) : Option (Option (V3 Q) × List Q) :=
  match toks with
  | "none" :: rest => do
      let xs ← parseRats? rest
      pure (none, xs)
  | "some" :: rest => do
      let xs ← parseRats? rest
      let (v, r) ← takeV3 xs
      pure (some v, r)
  | _ => none

/-- ops whose first argument is an optional x axis: `p2xy`, `xy2p`, `q2a xy`. -/
def handleXY (op : String) (toks : List String) : String := done do
  let (xv, xs) ← takeXvect toks
  let (A1, r) ← takeV3 xs
  let (A2, r) ← takeV3 r
  let (nn, r) ← take1 r
  let (nx, r) ← take1 r
  let (ny, r) ← take1 r
  let (nz, r) ← take1 r
  let (m, r) ← takeNat r
  if op = "p2xy" then do
    let (ps, _) ← takeV3s m r
    match ps.mapM (posToXYApi A1 A2 nn nx ny nz xv) with
    | some l => pure (showRats (flatPairs l))
    | none => pure (err "value")
  else if op = "xy2p" then do
    let (rows, _) ← takeN (2 * m) r
    match (toPairs rows).mapM (xyToPosApi A1 A2 nn nx ny nz xv) with
    | some l => pure (showRats (flatV3 l))
    | none => pure (err "value")
  else do
    -- q2a xy: plotting coordinates → fractional coordinates (`xy_to_a12`)
    let (rows, _) ← takeN (2 * m) r
    match (toPairs rows).mapM (fun q => xyToPosApi A1 A2 nn nx ny nz xv q) with
    | none => pure (err "value")
    | some ps =>
      match ps.mapM (posToA12? A1 A2) with
      | some l => pure (showRats (flatPairs l))
      | none => pure (err "assert")

def handle (toks : List String) : String :=
  match toks with
  | [] => err "op"
  | "p2xy" :: rest => handleXY "p2xy" rest
  | "xy2p" :: rest => handleXY "xy2p" rest
  | "q2axy" :: rest => handleXY "q2axy" rest
  | op :: rest =>
    match parseRats? rest with
    | none => err "format"
    | some xs =>
      match op with
      | "fit" => done do
          let (n, r) ← takeNat xs
          let (a1, r) ← takeN n r
          let (a2, r) ← takeN n r
          let (e, _) ← takeN n r
          let D : List (Node Q) := (a1.zip (a2.zip e)).map (fun t => ⟨t.1, t.2.1, t.2.2⟩)
          match fitNodes? D, cushion? a1, cushion? a2 with
          | some N, some c1, some c2 =>
            pure (showRats ([c1, c2, (N.length : Q)] ++ N.map (·.a1) ++ N.map (·.a2) ++ N.map (·.e)))
          | _, _, _ => pure (err "value")
      | "egsf" => done do
          let (c1, r) ← take1 xs
          let (c2, r) ← take1 r
          let (m, r) ← takeNat r
          let (rows, _) ← takeN (6 * m) r
          pure (showRats (egsfMany c1 c2 (chunk 6 m rows)))
      | "delta" => done do
          let (m, r) ← takeNat xs
          let (rows, _) ← takeN (2 * m) r
          pure (showRats ((toPairs rows).flatMap (fun p => [wrapN fl cl p.1, wrapN fl cl p.2])))
      | "cart" => done do
          let (v, r) ← takeV3 xs
          let (B, _) ← takeM3 r
          pure (showRats (cartOf v B).toList)
      | "a2p" => done do
          let (A1, r) ← takeV3 xs
          let (A2, r) ← takeV3 r
          let (m, r) ← takeNat r
          let (rows, _) ← takeN (2 * m) r
          pure (showRats (flatV3 ((toPairs rows).map (a12ToPos A1 A2))))
      | "p2a" => done do
          let (A1, r) ← takeV3 xs
          let (A2, r) ← takeV3 r
          let (m, r) ← takeNat r
          let (ps, _) ← takeV3s m r
          match ps.mapM (posToA12? A1 A2) with
          | some l => pure (showRats (flatPairs l))
          | none => pure (err "assert")
      | "q2apos" => done do
          let (A1, r) ← takeV3 xs
          let (A2, r) ← takeV3 r
          let (m, r) ← takeNat r
          let (ps, _) ← takeV3s m r
          match ps.mapM (fun p => (Query.pos p).toA12? A1 A2 0 0 0 0) with
          | some l => pure (showRats (flatPairs l))
          | none => pure (err "assert")
      | "q2avec" => done do
          let (A1, r) ← takeV3 xs
          let (A2, r) ← takeV3 r
          let (B1, r) ← takeV3 r
          let (B2, r) ← takeV3 r
          let (m, r) ← takeNat r
          let (rows, _) ← takeN (2 * m) r
          match (toPairs rows).mapM (otherBasisToA12? A1 A2 B1 B2) with
          | some l => pure (showRats (flatPairs l))
          | none => pure (err "assert")
      | "q2aopos" => done do
          -- `pos=` together with `a1vect=`/`a2vect=` (Cartesian B1, B2)
          let (A1, r) ← takeV3 xs
          let (A2, r) ← takeV3 r
          let (B1, r) ← takeV3 r
          let (B2, r) ← takeV3 r
          let (m, r) ← takeNat r
          let (ps, _) ← takeV3s m r
          match ps.mapM (fun p => (Query.pos p).toA12Other? A1 A2 B1 B2 0 0 0 0) with
          | some l => pure (showRats (flatPairs l))
          | none => pure (err "assert")
      | "q2aoxy" => done do
          -- `x=, y=` (no xvect) together with `a1vect=`/`a2vect=`: x axis along B1
          let (A1, r) ← takeV3 xs
          let (A2, r) ← takeV3 r
          let (B1, r) ← takeV3 r
          let (B2, r) ← takeV3 r
          let (nn, r) ← take1 r
          let (nx, r) ← take1 r
          let (ny, r) ← take1 r
          let (nz, r) ← take1 r
          let (m, r) ← takeNat r
          let (rows, _) ← takeN (2 * m) r
          match (toPairs rows).mapM (fun q => xyToPosApi A1 A2 nn nx ny nz (some B1) q) with
          | none => pure (err "value")
          | some _ =>
            match (toPairs rows).mapM (fun q => (Query.xy q none).toA12Other? A1 A2 B1 B2 nn nx ny nz) with
            | some l => pure (showRats (flatPairs l))
            | none => pure (err "assert")
      | "frame" => done do
          let (M, r) ← takeM3 xs
          let (Kv, r) ← takeM3 r
          let (b, r) ← takeV3 r
          let (T, _) ← takeM3 r
          let K' := frameK M Kv
          let T' := frameT M T
          pure (showRats (K'.r0.toList ++ K'.r1.toList ++ K'.r2.toList ++ (frameB M b).toList
            ++ T'.r0.toList ++ T'.r1.toList ++ T'.r2.toList))
      | "dens" => done do
          let (cd, r) ← takeBool xs
          let (n, r) ← takeNat r
          let (x, r) ← takeN n r
          let (d, _) ← takeV3s n r
          pure (showRats (flatV3 (disldensity cd x d)))
      | "elastic" => done do
          let (cd, r) ← takeBool xs
          let (pi, r) ← take1 r
          let (n, r) ← takeNat r
          let (x, r) ← takeN n r
          let (d, r) ← takeV3s n r
          let (Kt, r) ← takeM3 r
          let dx := gridStep x
          let nρ := (disldensity cd x d).length
          let (logs, _) ← takeN nρ r
          let keys := (List.range nρ).map (fun k => ((k + 1 : Nat) : Q) * dx)
          pure (showRat (elasticEnergy (tableFn keys logs) pi Kt cd x d))
      | "long" => done do
          let (pi, r) ← take1 xs
          let (logL, r) ← take1 r
          let (b, r) ← takeV3 r
          let (Kt, _) ← takeM3 r
          pure (showRat (longrangeEnergy pi logL Kt b))
      | "stress" => done do
          let (full, r) ← takeBool xs
          let (cd, r) ← takeBool r
          let (n, r) ← takeNat r
          let (x, r) ← takeN n r
          let (d, r) ← takeV3s n r
          let (τ1, _) ← takeV3 r
          pure (showRat (stressEnergy full cd τ1 x d))
      | "stressT" => done do
          let (full, r) ← takeBool xs
          let (cd, r) ← takeBool r
          let (n, r) ← takeNat r
          let (x, r) ← takeN n r
          let (d, r) ← takeV3s n r
          let (τ, _) ← takeM3 r
          pure (showRat (stressEnergyT full cd τ x d))
      | "surface" => done do
          let (cd, r) ← takeBool xs
          let (n, r) ← takeNat r
          let (x, r) ← takeN n r
          let (d, r) ← takeV3s n r
          let (β, _) ← takeM3 r
          pure (showRat (surfaceEnergy cd β x d))
      | "nonlocal" => done do
          let (n, r) ← takeNat xs
          let (x, r) ← takeN n r
          let (d, r) ← takeV3s n r
          let (k, r) ← takeNat r
          let (αs, _) ← takeN k r
          pure (showRat (nonlocalEnergy αs x d))
      | "misfit" => done do
          let (T, r) ← takeM3 xs
          let (A1, r) ← takeV3 r
          let (A2, r) ← takeV3 r
          let (c1, r) ← take1 r
          let (c2, r) ← take1 r
          let (n, r) ← takeNat r
          let (x, r) ← takeN n r
          let (rows, _) ← takeN (6 * n) r
          let rws := chunk 6 n rows
          let d : List (V3 Q) := rws.map (fun w => ⟨w.getD 0 0, 0, w.getD 1 0⟩)
          let keys : List (V3 Q) := d.map (fun δ => M3.vecMul ⟨δ.x, 0, δ.z⟩ T)
          let gam : V3 Q → Q := fun p =>
            match (keys.zip rws).lookup p with
            | some w =>
              let a := posToA12 A1 A2 p
              let a1w := wrap fl c1 a.1
              let a2w := wrap fl c2 a.2
              E fl (quadFn a1w a2w (w.getD 2 0) (w.getD 3 0) (w.getD 4 0) (w.getD 5 0)) c1 c2 a.1 a.2
            | none => 0
          pure (showRat (misfitEnergy gam T x d))
      | "recompose" => done do
          let (k, r) ← takeNat xs
          let (res, r) ← takeN k r
          let (first, r) ← takeV3 r
          let (last, _) ← takeV3 r
          if k % 2 ≠ 0 then pure (err "value") else
          pure (showRats (flatV3 (recompose res first last)))
      | "decompose" => done do
          let (n, r) ← takeNat xs
          let (d, _) ← takeV3s n r
          pure (showRats (decompose d))
      | "arctan" => done do
          let (n, r) ← takeNat xs
          let (x, r) ← takeN n r
          let (atv, r) ← takeN n r
          let (pi, r) ← take1 r
          let (b, r) ← takeV3 r
          let (center, r) ← take1 r
          let (hw, r) ← take1 r
          let (nrm, r) ← takeBool r
          let (sh, r) ← takeBool r
          let (normB, r) ← take1 r
          let (normLast, _) ← take1 r
          let keys := x.map (fun xi => (xi - center) / hw)
          pure (showRats (flatV3 (pnArctanDisregistry (tableFn keys atv) pi x b center hw nrm sh normB normLast)))
      | "arctandens" => done do
          let (n, r) ← takeNat xs
          let (x, r) ← takeN n r
          let (pi, r) ← take1 r
          let (b, r) ← takeV3 r
          let (center, r) ← take1 r
          let (hw, r) ← take1 r
          let (nrm, r) ← takeBool r
          let (normB, r) ← take1 r
          let (normInt, _) ← take1 r
          pure (showRats (flatV3 (pnArctanDisldensity pi x b center hw nrm normB normInt)))
      | _ => err "op"

/-! #### the SDVPN object (stateful part of the driver) -/

def takeOpt {α : Type} (f : List Q → Option (α × List Q)) (xs : List Q) : Option (Option α × List Q) := do
  let (has, r) ← takeBool xs
  if has then do
    let (v, r) ← f r
    pure (some v, r)
  else pure (none, r)

def takeList (xs : List Q) : Option (List Q × List Q) := do
  let (n, r) ← takeNat xs
  takeN n r

def takeProfile (xs : List Q) : Option (List (V3 Q) × List Q) := do
  let (n, r) ← takeNat xs
  takeV3s n r

/-- `Kt(9) b(3) T(9) pi τ1(3) nα α… β(9) logL full cde cds cdt`. -/
def takeSettings (xs : List Q) : Option (Settings Q × List Q) := do
  let (Kt, r) ← takeM3 xs
  let (b, r) ← takeV3 r
  let (T, r) ← takeM3 r
  let (pi, r) ← take1 r
  let (τ1, r) ← takeV3 r
  let (αs, r) ← takeList r
  let (β, r) ← takeM3 r
  let (logL, r) ← take1 r
  let (full, r) ← takeBool r
  let (cde, r) ← takeBool r
  let (cds, r) ← takeBool r
  let (cdt, r) ← takeBool r
  pure (⟨Kt, b, T, τ1, αs, β, logL, pi, full, cde, cds, cdt⟩, r)

def takeKw (xs : List Q) : Option (SolveKw Q × List Q) := do
  let (x, r) ← takeOpt takeList xs
  let (d, r) ← takeOpt takeProfile r
  let (τ1, r) ← takeOpt takeV3 r
  let (αs, r) ← takeOpt takeList r
  let (β, r) ← takeOpt takeM3 r
  let (logL, r) ← takeOpt take1 r
  let (full, r) ← takeOpt takeBool r
  let (cde, r) ← takeOpt takeBool r
  let (cds, r) ← takeOpt takeBool r
  let (cdt, r) ← takeOpt takeBool r
  pure ({ x := x, d := d, τ1 := τ1, αs := αs, β := β, logL := logL, fullstress := full,
          cdiffelastic := cde, cdiffsurface := cds, cdiffstress := cdt }, r)

def parseOp (field : String) (xs : List Q) : Option (Op Q) :=
  match field with
  | "tau" => do let (v, _) ← takeV3 xs; pure (.setTau v)
  | "alpha" => do let (l, _) ← takeList xs; pure (.setAlpha l)
  | "beta" => do let (m, _) ← takeM3 xs; pure (.setBeta m)
  | "logL" => do let (l, _) ← take1 xs; pure (.setLogL l)
  | "full" => do let (b, _) ← takeBool xs; pure (.setFull b)
  | "cde" => do let (b, _) ← takeBool xs; pure (.setCdE b)
  | "cds" => do let (b, _) ← takeBool xs; pure (.setCdS b)
  | "cdt" => do let (b, _) ← takeBool xs; pure (.setCdT b)
  | "x" => do let (l, _) ← takeList xs; pure (.setX l)
  | "d" => do let (l, _) ← takeProfile xs; pure (.setD l)
  | _ => none

/-- one energy term of the current object; the profile is the stored one (`0`) or given (`1 n x… d…`);
    `elastic` is followed by the table of logs. -/
def evalTerm (o : Obj Q) (term : String) (xs : List Q) : Option String := do
  let (given, r) ← takeBool xs
  let (x, d, r) ← (if given then do
      let (x, r) ← takeList r
      let (d, r) ← takeV3s x.length r
      pure (x, d, r)
    else pure (o.x, o.d, r))
  match term with
  | "long" => pure (showRat (longrangeEnergy o.s.pi o.s.logL o.s.Kt o.s.burgers))
  | "stress" => pure (showRat (stressEnergy o.s.fullstress o.s.cdiffstress o.s.τ1 x d))
  | "surface" => pure (showRat (surfaceEnergy o.s.cdiffsurface o.s.β x d))
  | "nonlocal" => pure (showRat (nonlocalEnergy o.s.αs x d))
  | "elastic" =>
      let dx := gridStep x
      let nρ := (disldensity o.s.cdiffelastic x d).length
      let (logs, _) ← takeN nρ r
      let keys := (List.range nρ).map (fun k => ((k + 1 : Nat) : Q) * dx)
      pure (showRat (elasticEnergy (tableFn keys logs) o.s.pi o.s.Kt o.s.cdiffelastic x d))
  | "state" =>
      pure (showRats (o.s.τ1.toList ++ [(o.s.αs.length : Q)] ++ o.s.αs ++ o.s.β.r0.toList ++ o.s.β.r1.toList
        ++ o.s.β.r2.toList ++ [o.s.logL] ++ [o.s.fullstress, o.s.cdiffelastic, o.s.cdiffsurface, o.s.cdiffstress].map
          (fun b => if b then (1 : Q) else 0) ++ [(o.x.length : Q)] ++ o.x ++ flatV3 o.d))
  | _ => none

/-- a METHOD CALL `obj.<term>_energy(x=…, disregistry=…)` with any subset of the two optional arguments
    (`hx [n x…] hd [n d…]`), resolved by the model object (`Obj.call`); `elastic` is followed by the table of
    logs (keyed `k·Δx` of the effective grid), `misfit` by `A1 A2 c1 c2 n f00 f01 f10 f11 …` (the interpolant
    values the implementation used, one row per row of the effective disregistry), `dens` by the `cdiff` flag. -/
def evalCall (o : Obj Q) (term : String) (xs : List Q) : Option String := do
  let (xo, r) ← takeOpt takeList xs
  let (dO, r) ← takeOpt takeProfile r
  let a := o.args xo dO
  let noLg : Q → Q := fun _ => 0
  let noGam : V3 Q → Q := fun _ => 0
  match term with
  | "long" => pure (showRat (o.call noLg noGam .longrange xo dO))
  | "stress" => pure (showRat (o.call noLg noGam .stress xo dO))
  | "surface" => pure (showRat (o.call noLg noGam .surface xo dO))
  | "nonlocal" => pure (showRat (o.call noLg noGam .nonlocal xo dO))
  | "elastic" =>
      let dx := gridStep a.1
      let nρ := (disldensity o.s.cdiffelastic a.1 a.2).length
      let (logs, _) ← takeN nρ r
      let keys := (List.range nρ).map (fun k => ((k + 1 : Nat) : Q) * dx)
      pure (showRat (o.call (tableFn keys logs) noGam .elastic xo dO))
  | "misfit" =>
      let (A1, r) ← takeV3 r
      let (A2, r) ← takeV3 r
      let (c1, r) ← take1 r
      let (c2, r) ← take1 r
      let (n, r) ← takeNat r
      let (rows, _) ← takeN (4 * n) r
      if n ≠ a.2.length then pure (err "value") else
      let rws := chunk 4 n rows
      let keys : List (V3 Q) := a.2.map (fun δ => M3.vecMul ⟨δ.x, 0, δ.z⟩ o.s.T)
      let gam : V3 Q → Q := fun p =>
        match (keys.zip rws).lookup p with
        | some w =>
          let q := posToA12 A1 A2 p
          let a1w := wrap fl c1 q.1
          let a2w := wrap fl c2 q.2
          E fl (quadFn a1w a2w (w.getD 0 0) (w.getD 1 0) (w.getD 2 0) (w.getD 3 0)) c1 c2 q.1 q.2
        | none => 0
      pure (showRat (o.call noLg gam .misfit xo dO))
  | "dens" =>
      let (cd, _) ← takeBool r
      let (nx, ρ) := o.density xo dO cd
      pure (showRats ([(nx.length : Q)] ++ nx ++ flatV3 ρ))
  | _ => none

/-! #### the GammaSurface object (stateful part of the driver) -/

/-- `box(9) a1vect(3) a2vect(3) n a1… a2… e… hasdelta [delta…]`. -/
def takeRecord (xs : List Q) : Option (GsfRecord Q × List Q) := do
  let (B, r) ← takeM3 xs
  let (v1, r) ← takeV3 r
  let (v2, r) ← takeV3 r
  let (n, r) ← takeNat r
  let (a1, r) ← takeN n r
  let (a2, r) ← takeN n r
  let (e, r) ← takeN n r
  let (dl, r) ← takeOpt (takeN n) r
  pure (⟨B, v1, v2, a1, a2, e, dl⟩, r)

def showRecordData (g : GsfRecord Q) : String :=
  showRats ([(g.a1.length : Q)] ++ g.a1 ++ g.a2 ++ g.e ++ (match g.delta with
    | some d => (1 : Q) :: d
    | none => [0]))

def ratToks (l : List Q) : List String := l.map showRat

/-- wire form of a refusal: `ok` or the constructor name. -/
def refusalCode : Option Refusal → String
  | none => "ok"
  | some .xAssert => "xAssert"
  | some .xIndex => "xIndex"
  | some .dAssert => "dAssert"
  | some .dValue => "dValue"
  | some .lengths => "lengths"

structure St where
  o : Option (Obj Q) := none
  g : Option (GObj Q) := none

def gstep (g : GObj Q) (op : String) (rest : List String) : String :=
  let A := ratToks (g.A1.toList ++ g.A2.toList)
  match op with
  | "gcart" => showRats (g.A1.toList ++ g.A2.toList)
  | "gdata" => showRecordData g.r
  | "gmodel" => done do
      let xs ← parseRats? rest
      let (ue, r) ← take1 xs
      let (ul, _) ← take1 r
      pure (showRecordData (g.model ue ul))
  | "gfit" => done do
      let xs ← parseRats? rest
      let (which, _) ← takeBool xs
      match (if which then g.fitD? else g.fitE?), g.cushions? with
      | some N, some (c1, c2) =>
        pure (showRats ([c1, c2, (N.length : Q)] ++ N.map (·.a1) ++ N.map (·.a2) ++ N.map (·.e)))
      | _, _ => pure (err "value")
  | "ga2p" => handle ("a2p" :: A ++ rest)
  | "gp2a" => handle ("p2a" :: A ++ rest)
  | "gq2apos" => handle ("q2apos" :: A ++ rest)
  | "gq2avec" => handle ("q2avec" :: A ++ rest)
  | "gq2aopos" => handle ("q2aopos" :: A ++ rest)
  | "gq2aoxy" => handle ("q2aoxy" :: A ++ rest)
  | "gp2xy" | "gxy2p" | "gq2axy" =>
      let base := (op.drop 1).toString
      match rest with
      | "none" :: r => handle (base :: "none" :: A ++ r)
      | "some" :: x :: y :: z :: r => handle (base :: "some" :: x :: y :: z :: A ++ r)
      | _ => err "format"
  | _ => err "op"

def step (st : St) (toks : List String) : St × String :=
  match toks with
  | "onew" :: rest =>
      match (parseRats? rest).bind takeSettings with
      | some (s, _) => ({ st with o := some ⟨s, [], []⟩ }, "ok")
      | none => (st, err "format")
  | "oset" :: field :: rest =>
      match st.o, (parseRats? rest).bind (parseOp field) with
      | some o, some op => ({ st with o := some (o.apply op) }, "ok")
      | none, _ => (st, err "op")
      | _, none => (st, err "format")
  | "osolve" :: rest =>
      match st.o, (parseRats? rest).bind (fun xs => do
          let (kw, r) ← takeKw xs
          let (res, _) ← takeList r
          pure (kw, res)) with
      | some o, some (kw, res) =>
          if res.length % 2 ≠ 0 then (st, err "value") else
          let o' := o.apply (.solve kw res)
          ({ st with o := some o' }, showRats (flatV3 o'.d))
      | none, _ => (st, err "op")
      | _, none => (st, err "format")
  | "oguard" :: which :: rest =>
      (st, done do
        let xs ← parseRats? rest
        match which with
        | "x" => do
            let (x, _) ← takeList xs
            pure (refusalCode (xSetter? x))
        | "d" => do
            let (d, _) ← takeProfile xs
            pure (refusalCode (dSetter? d))
        | _ => none)
  | "oset2" :: which :: rest =>
      match st.o, parseRats? rest with
      | some o, some xs =>
          match which with
          | "x" =>
              match takeList xs with
              | some (x, _) => let r := o.setX? x; ({ st with o := some r.1 }, refusalCode r.2)
              | none => (st, err "format")
          | "d" =>
              match takeProfile xs with
              | some (d, _) => let r := o.setD? d; ({ st with o := some r.1 }, refusalCode r.2)
              | none => (st, err "format")
          | _ => (st, err "format")
      | none, _ => (st, err "op")
      | _, none => (st, err "format")
  | "osolve2" :: rest =>
      match st.o, (parseRats? rest).bind (fun xs => do
          let (kw, r) ← takeKw xs
          let (res, _) ← takeList r
          pure (kw, res)) with
      | some o, some (kw, res) =>
          let r := o.solve? kw res
          ({ st with o := some r.1 }, refusalCode r.2)
      | none, _ => (st, err "op")
      | _, none => (st, err "format")
  | "oload" :: rest =>
      match (parseRats? rest).bind (fun xs => do
          let (s, r) ← takeSettings xs
          let (x, r) ← takeList r
          let (d, _) ← takeV3s x.length r
          pure (⟨s, x, d⟩ : Obj Q)) with
      | some o' => ({ st with o := some ((st.o.getD o').apply (.load o')) }, "ok")
      | none => (st, err "format")
  | "oeval" :: term :: rest =>
      match st.o, parseRats? rest with
      | some o, some xs => (st, (evalTerm o term xs).getD (err "format"))
      | none, _ => (st, err "op")
      | _, none => (st, err "format")
  | "ocall" :: term :: rest =>
      match st.o, parseRats? rest with
      | some o, some xs => (st, (evalCall o term xs).getD (err "format"))
      | none, _ => (st, err "op")
      | _, none => (st, err "format")
  | "gset" :: rest =>
      match (parseRats? rest).bind takeRecord with
      | some (r, _) => ({ st with g := some ((st.g.getD ⟨r⟩).apply (.set r)) }, "ok")
      | none => (st, err "format")
  | "gload" :: rest =>
      match (parseRats? rest).bind (fun xs => do
          let (ue, r) ← take1 xs
          let (ul, r) ← take1 r
          let (m, _) ← takeRecord r
          pure (ue, ul, m)) with
      | some (ue, ul, m) => ({ st with g := some ((st.g.getD ⟨m⟩).apply (.loadModel ue ul m)) }, "ok")
      | none => (st, err "format")
  | "v4to3" :: rest => (st, done do
      let xs ← parseRats? rest
      match xs with
      | [u, v, t, w] =>
        match vec4to3? u v t w with
        | some r => pure (showRats r.toList)
        | none => pure (err "value")
      | _ => none)
  | op :: rest =>
      if op.startsWith "g" then
        match st.g with
        | some g => (st, gstep g op rest)
        | none => (st, err "op")
      else (st, handle toks)
  | _ => (st, handle toks)

end C18Drv

def handleC18 (toks : List String) : String := C18Drv.handle toks

def main : IO Unit := runDriverS C18Drv.step {}
