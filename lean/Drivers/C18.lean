import Atomman.Prelude
open Atomman

/-- stub: replaced when the C18 model is built. -/
def handleC18 (_toks : List String) : String := err "op"

def main : IO Unit := runDriver handleC18
