import Atomman.C03
open Atomman Atomman.C03

/-- `c0 n.. c1 n.. …`: every row as its coordination number followed by its neighbours. -/
def showRowsC03 (rows : Rows) : String :=
  " ".intercalate (rows.map fun r => " ".intercalate ((toString r.length) :: r.map toString))

/-- inverse of `showRowsC03` for `n` rows. -/
def readRowsC03 : Nat → List Nat → Option Rows
  | 0, [] => some []
  | 0, _ => none
  | _ + 1, [] => none
  | n + 1, c :: rest =>
    if rest.length < c then none else
    (readRowsC03 n (rest.drop c)).map (fun t => rest.take c :: t)

/-- what `np.empty` leaves behind: a value no atom index can take. -/
def junkC03 (r k : Nat) : Nat := 900000 + 1000 * r + k

/-- the whole pipeline on one state, as the implementation runs it: bin table with the growth block of the source,
    per-atom rows with `initialsize`/`deltasize`; cross-checked against the list versions.
    Reply: `cap near_cutoff near_edge compared entries maxbin maxatomsperbin rows…`. -/
def runNlistC03 (S : Sys) (cutoff : Rat) (init delta : Nat) (tol : Rat) : Except String String :=
  let n := S.natoms
  if cutoff ≤ 0 ∨ init < 1 ∨ delta < 1 then .error "value" else
  let G := mkGrid S cutoff
  let es := entries S G
  if !validEntries es then .error "value" else
  let bt := fillBins srcBinParams es
  let cs := (occupied es).flatMap (binPairsA G bt)
  -- the bins read from the capacity table must be the list bins (theorem `cands_table_eq`)
  if cs ≠ candsOf G es then .error "assert-bins" else
  let c2 := cutoff * cutoff
  let tbl := distTable S
  let acc := tableAccept tbl c2
  let rowsL := runLW acc n cs
  let st := runAW junkC03 init delta acc n cs
  if absRows st.rows ≠ rowsL then .error "assert" else
  if st.rows.any (fun r => r.length ≠ st.maxn + 1) then .error "assert" else
  let coordOk := st.rows.all fun r => coordOf r == (absRow r).length
  if !coordOk then .error "assert" else
  let maxbin := ((occupied es).map fun b => (bt.get b).getD 0 0).foldl max 0
  .ok (s!"{st.maxn} {showBool (nearCutoff tbl cutoff tol)} {showBool (nearEdge S G tol)} {cs.length} {es.length} "
    ++ s!"{maxbin} {bt.maxapb} " ++ showRowsC03 (absRows st.rows))

/-- a storage size on the wire: a number, `-` = left out in a call through `NeighborList(...)` / `System.neighborlist(...)`,
    `~` = left out in a direct call of `nlist`. -/
def readSizeC03 (t : String) : Option SizeArg :=
  if t == "-" then some .viaBuild else if t == "~" then some .viaNlist else t.toNat?.map .given

def readPosC03 (n : Nat) (xs : List Rat) : List (V3 Rat) :=
  (List.range n).map fun k => (⟨xs.getD (3 * k) 0, xs.getD (3 * k + 1) 0, xs.getD (3 * k + 2) 0⟩ : V3 Rat)

/-- operations of a `seq` request: `P i x y z` | `A n x…` | `B v11 … v33 ox oy oz` | `C px py pz` |
    `Q cutoff init delta`; the reply lists one `| …` section per `Q`, answered from the state at that point
    (`applyOp`). -/
partial def runSeqC03 (S : Sys) (tol : Rat) (toks : List String) (acc : List String) : Except String (List String) :=
  match toks with
  | [] => .ok acc.reverse
  | "P" :: i :: x :: y :: z :: rest =>
    match i.toNat?, parseRats? [x, y, z] with
    | some i, some [x, y, z] =>
      if i < S.natoms then runSeqC03 (applyOp S (.setPos i ⟨x, y, z⟩)) tol rest acc else .error "value"
    | _, _ => .error "format"
  | "A" :: n :: rest =>
    match n.toNat? with
    | some n =>
      match parseRats? (rest.take (3 * n)) with
      | some xs =>
        if xs.length ≠ 3 * n then .error "format" else
        runSeqC03 (applyOp S (.setAll (readPosC03 n xs))) tol (rest.drop (3 * n)) acc
      | none => .error "format"
    | none => .error "format"
  | "B" :: rest =>
    match parseRats? (rest.take 12) with
    | some [a, b, c, d, e, f, g, h, i, ox, oy, oz] =>
      runSeqC03 (applyOp S (.setBox ⟨⟨a, b, c⟩, ⟨d, e, f⟩, ⟨g, h, i⟩⟩ ⟨ox, oy, oz⟩)) tol (rest.drop 12) acc
    | _ => .error "format"
  | "C" :: px :: py :: pz :: rest =>
    match parseBool? px, parseBool? py, parseBool? pz with
    | some px, some py, some pz => runSeqC03 (applyOp S (.setPbc px py pz)) tol rest acc
    | _, _, _ => .error "format"
  | "Q" :: cutoff :: init :: delta :: rest =>
    match parseRat? cutoff, readSizeC03 init, readSizeC03 delta with
    | some cutoff, some init, some delta =>
      let S' := applyOp S (.query cutoff)
      match runNlistC03 S' cutoff (initialsizeOf init) (deltasizeOf delta) tol with
      | .ok r => runSeqC03 S' tol rest (s!"| {S'.natoms} {r}" :: acc)
      | .error e => runSeqC03 S' tol rest (s!"| err:{e}" :: acc)
    | _, _, _ => .error "format"
  | _ => .error "format"

def handleC03 (toks : List String) : String :=
  match toks with
  | "nlist" :: px :: py :: pz :: cutoff :: init :: delta :: tol :: rest =>
    match parseBool? px, parseBool? py, parseBool? pz, parseRat? cutoff, readSizeC03 init, readSizeC03 delta,
          parseRat? tol with
    | some px, some py, some pz, some cutoff, some init, some delta, some tol =>
      match parseRats? (rest.take 12), (rest.drop 12).head?.bind String.toNat?, parseRats? (rest.drop 13) with
      | some [a, b, c, d, e, f, g, h, i, ox, oy, oz], some n, some xs =>
        if xs.length ≠ 3 * n then err "format" else
        let S : Sys := ⟨⟨⟨a, b, c⟩, ⟨d, e, f⟩, ⟨g, h, i⟩⟩, ⟨ox, oy, oz⟩, px, py, pz, readPosC03 n xs⟩
        match runNlistC03 S cutoff (initialsizeOf init) (deltasizeOf delta) tol with
        | .ok r => "ok " ++ r
        | .error e => err e
      | _, _, _ => err "format"
    | _, _, _, _, _, _, _ => err "format"
  | "seq" :: px :: py :: pz :: tol :: rest =>
    -- `seq px py pz tol <9 vects> <3 origin> n <3n pos> ops…`
    match parseBool? px, parseBool? py, parseBool? pz, parseRat? tol with
    | some px, some py, some pz, some tol =>
      match parseRats? (rest.take 12), (rest.drop 12).head?.bind String.toNat? with
      | some [a, b, c, d, e, f, g, h, i, ox, oy, oz], some n =>
        match parseRats? ((rest.drop 13).take (3 * n)) with
        | some xs =>
          if xs.length ≠ 3 * n then err "format" else
          let S : Sys := ⟨⟨⟨a, b, c⟩, ⟨d, e, f⟩, ⟨g, h, i⟩⟩, ⟨ox, oy, oz⟩, px, py, pz, readPosC03 n xs⟩
          match runSeqC03 S tol ((rest.drop 13).drop (3 * n)) [] with
          | .ok parts => "ok " ++ " ".intercalate parts
          | .error e => err e
        | none => err "format"
      | _, _ => err "format"
    | _, _, _, _ => err "format"
  | "spec" :: px :: py :: pz :: cutoff :: rest =>
    -- the specification itself (used to cross-check the Python oracle)
    match parseBool? px, parseBool? py, parseBool? pz, parseRat? cutoff with
    | some px, some py, some pz, some cutoff =>
      match parseRats? (rest.take 12), (rest.drop 12).head?.bind String.toNat?, parseRats? (rest.drop 13) with
      | some [a, b, c, d, e, f, g, h, i, ox, oy, oz], some n, some xs =>
        if xs.length ≠ 3 * n then err "format" else
        let S : Sys := ⟨⟨⟨a, b, c⟩, ⟨d, e, f⟩, ⟨g, h, i⟩⟩, ⟨ox, oy, oz⟩, px, py, pz, readPosC03 n xs⟩
        "ok " ++ showRowsC03 ((List.range n).map (nlistSpec S cutoff))
      | _, _, _ => err "format"
    | _, _, _, _ => err "format"
  | "dump" :: n :: rest =>
    match n.toNat?, parseNats? rest with
    | some n, some xs =>
      match readRowsC03 n xs with
      -- the text as the source writes it (`renderGen`; equal to `render` by theorem `dump_as_modelled`)
      | some rows => " ".intercalate ((renderGen rows).map (fun ch => toString ch.toNat))
      | none => err "format"
    | _, _ => err "format"
  | "load" :: rest =>
    match parseNats? rest with
    | some codes =>
      match parse (codes.map Char.ofNat) with
      | some rows => s!"ok {rows.length} " ++ showRowsC03 rows
      | none => err "value"
    | none => err "format"
  | _ => err "op"

def main : IO Unit := runDriver handleC03
