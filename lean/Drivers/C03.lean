import Atomman.C03
open Atomman Atomman.C03

/-- `c0 n.. c1 n.. …`: every row as its coordination number followed by its neighbours. -/
def showRowsC03 (rows : Rows) : String :=
  " ".intercalate (rows.map fun r => " ".intercalate ((toString r.length) :: r.map toString))

/-- inverse of `showRowsC03` for `n` rows. -/
def readRowsC03 : Nat → List Nat → Option Rows
  | 0, [] => some []
  | 0, _ => none
  | _ + 1, [] => none
  | n + 1, c :: rest =>
    if rest.length < c then none else
    (readRowsC03 n (rest.drop c)).map (fun t => rest.take c :: t)

/-- what `np.empty` leaves behind: a value no atom index can take. -/
def junkC03 (r k : Nat) : Nat := 900000 + 1000 * r + k

def handleC03 (toks : List String) : String :=
  match toks with
  | "nlist" :: px :: py :: pz :: cutoff :: init :: delta :: tol :: rest =>
    match parseBool? px, parseBool? py, parseBool? pz, parseRat? cutoff, init.toNat?, delta.toNat?,
          parseRat? tol with
    | some px, some py, some pz, some cutoff, some init, some delta, some tol =>
      match parseRats? (rest.take 12), (rest.drop 12).head?.bind String.toNat?, parseRats? (rest.drop 13) with
      | some [a, b, c, d, e, f, g, h, i, ox, oy, oz], some n, some xs =>
        if xs.length ≠ 3 * n then err "format" else
        if cutoff ≤ 0 ∨ init < 1 ∨ delta < 1 then err "value" else
        let pos := (List.range n).map fun k => (⟨xs.getD (3 * k) 0, xs.getD (3 * k + 1) 0, xs.getD (3 * k + 2) 0⟩ : V3 Rat)
        let S : Sys := ⟨⟨⟨a, b, c⟩, ⟨d, e, f⟩, ⟨g, h, i⟩⟩, ⟨ox, oy, oz⟩, px, py, pz, pos⟩
        let G := mkGrid S cutoff
        let es := entries S G
        if !validEntries es then err "value" else
        let cs := candsOf G es
        let c2 := cutoff * cutoff
        let tbl := distTable S
        let acc := tableAccept tbl c2
        let rowsL := runLW acc n cs
        let st := runAW junkC03 init delta acc n cs
        if absRows st.rows ≠ rowsL then err "assert" else
        if st.rows.any (fun r => r.length ≠ st.maxn + 1) then err "assert" else
        let coordOk := st.rows.all fun r => coordOf r == (absRow r).length
        if !coordOk then err "assert" else
        s!"ok {st.maxn} {showBool (nearCutoff tbl cutoff tol)} {showBool (nearEdge S G tol)} {cs.length} {es.length} "
          ++ showRowsC03 (absRows st.rows)
      | _, _, _ => err "format"
    | _, _, _, _, _, _, _ => err "format"
  | "spec" :: px :: py :: pz :: cutoff :: rest =>
    -- the specification itself (used to cross-check the Python oracle)
    match parseBool? px, parseBool? py, parseBool? pz, parseRat? cutoff with
    | some px, some py, some pz, some cutoff =>
      match parseRats? (rest.take 12), (rest.drop 12).head?.bind String.toNat?, parseRats? (rest.drop 13) with
      | some [a, b, c, d, e, f, g, h, i, ox, oy, oz], some n, some xs =>
        if xs.length ≠ 3 * n then err "format" else
        let pos := (List.range n).map fun k => (⟨xs.getD (3 * k) 0, xs.getD (3 * k + 1) 0, xs.getD (3 * k + 2) 0⟩ : V3 Rat)
        let S : Sys := ⟨⟨⟨a, b, c⟩, ⟨d, e, f⟩, ⟨g, h, i⟩⟩, ⟨ox, oy, oz⟩, px, py, pz, pos⟩
        "ok " ++ showRowsC03 ((List.range n).map (nlistSpec S cutoff))
      | _, _, _ => err "format"
    | _, _, _, _ => err "format"
  | "dump" :: n :: rest =>
    match n.toNat?, parseNats? rest with
    | some n, some xs =>
      match readRowsC03 n xs with
      | some rows => " ".intercalate ((render rows).map (fun ch => toString ch.toNat))
      | none => err "format"
    | _, _ => err "format"
  | "load" :: rest =>
    match parseNats? rest with
    | some codes =>
      match parse (codes.map Char.ofNat) with
      | some rows => s!"ok {rows.length} " ++ showRowsC03 rows
      | none => err "value"
    | none => err "format"
  | _ => err "op"

def main : IO Unit := runDriver handleC03
