import Atomman.Prelude
open Atomman

/-- stub: replaced when the C03 model is built. -/
def handleC03 (_toks : List String) : String := err "op"

def main : IO Unit := runDriver handleC03
