import Atomman.C17
open Atomman Atomman.C17

/-! line-protocol driver for C17 (see harness/props/c17.py for the op grammar). -/

abbrev P := StateT (List String) Option

def tok : P String := do
  match (← get) with
  | [] => failure
  | t :: r => set r; pure t

def pNat : P Nat := do let t ← tok; match t.toNat? with | some n => pure n | none => failure
def pRat : P Rat := do let t ← tok; match parseRat? t with | some n => pure n | none => failure
def pBool : P Bool := do let t ← tok; match parseBool? t with | some n => pure n | none => failure

def pMany {α : Type} (p : P α) : Nat → P (List α)
  | 0 => pure []
  | n + 1 => do let a ← p; let r ← pMany p n; pure (a :: r)

def pV3 : P (V3 Rat) := do let x ← pRat; let y ← pRat; let z ← pRat; pure ⟨x, y, z⟩
def pM3 : P (M3 Rat) := do let a ← pV3; let b ← pV3; let c ← pV3; pure ⟨a, b, c⟩
def pCell : P (Cell Rat) := do
  let px ← pBool; let py ← pBool; let pz ← pBool; let v ← pM3; pure ⟨v, px, py, pz⟩
def pPos (n : Nat) : P (Array (V3 Rat)) := do let l ← pMany pV3 n; pure l.toArray
def pNlist (n : Nat) : P (List (List Nat)) := pMany (do let c ← pNat; pMany pNat c) n
/-- selection of atoms to evaluate: `k i1 .. ik`. -/
def pSel (n : Nat) : P (List Nat) := do
  let k ← pNat; let l ← pMany pNat k
  if l.all (· < n) then pure l else failure
def pEnd : P Unit := do match (← get) with | [] => pure () | _ => failure

def fn (a : Array (V3 Rat)) : Nat → V3 Rat := fun i => a.getD i ⟨0, 0, 0⟩
def fnM (a : Array (M3 Rat)) : Nat → M3 Rat := fun i => a.getD i ⟨⟨0,0,0⟩,⟨0,0,0⟩,⟨0,0,0⟩⟩

def nlistOk (n : Nat) (nl : List (List Nat)) : Bool := nl.length == n && nl.all (·.all (· < n))

def showV (v : V3 Rat) : String := showRats v.toList
def showVs (l : List (V3 Rat)) : String := " ".intercalate (l.map showV)
def showM (m : M3 Rat) : String := showRats m.toList

def toF (r : Rat) : Float := Float.ofInt r.num / Float.ofNat r.den
def ofF (f : Float) : Rat :=
  if f.isNaN || f.isInf || f ≤ 0 then 0 else
  let (m, e) := f.frExp
  let n : Nat := (m * 9007199254740992.0).toUInt64.toNat
  let e' : Int := e - 53
  if e' ≥ 0 then ((n * 2 ^ e'.toNat : Nat) : Rat) else mkRat n (2 ^ (-e').toNat)

/-- `sqrt` shim (float shim of DESIGN §0.3): the double nearest to the square root, as an exact rational. -/
def ratSqrt (r : Rat) : Rat := if r ≤ 0 then 0 else ofF (Float.sqrt (toF r))

def magR (v : V3 Rat) : Rat := ratSqrt (V3.normSq v)

def big : Rat := 10000000000000000

def run (p : P String) (toks : List String) : String :=
  match p.run toks with
  | some (s, _) => s
  | none => err "format"

def handleC17 (toks : List String) : String :=
  match toks with
  | "disp" :: rest => run (do
      let c ← pCell; let n ← pNat; let p0 ← pPos n; let p1 ← pPos n; pEnd
      pure (showVs ((List.range n).map (displacement c (fn p0) (fn p1))))) rest
  | "slip" :: rest => run (do
      let c ← pCell; let n ← pNat; let p0 ← pPos n; let p1 ← pPos n; let nl ← pNlist n; let sel ← pSel n; pEnd
      if !nlistOk n nl then pure (err "value") else
      pure (showVs (sel.map fun i => slipVector c (fn p0) (fn p1) (nl.getD i []) i))) rest
  | "dd" :: rest => run (do
      let c0 ← pCell; let c1 ← pCell; let n ← pNat; let p0 ← pPos n; let p1 ← pPos n; let nl ← pNlist n; let sel ← pSel n; pEnd
      if !nlistOk n nl then pure (err "value") else
      pure (showVs (sel.flatMap fun i => (nl.getD i []).map fun j => ddvector c0 c1 (fn p0) (fn p1) i j))) rest
  | "disreg" :: rest => run (do
      let atol ← pRat; let rtol ← pRat; let midy ← pRat
      let c ← pCell; let n ← pNat; let p0 ← pPos n; let p1 ← pPos n
      let xs ← pMany pRat n; let ys ← pMany pRat n; pEnd
      let d := (List.range n).map (displacement c (fn p0) (fn p1))
      let atoms := xs.zip (ys.zip d)
      match disregistry atol rtol atoms midy with
      | none => pure (err "value")
      | some r => pure (toString r.length ++ " " ++
          " ".intercalate (r.map fun e => showRat e.1 ++ " " ++ showV e.2))) rest
  | "strain" :: rest => run (do
      let cosMax ← pRat
      let c0 ← pCell; let c1 ← pCell; let n ← pNat; let p0 ← pPos n; let p1 ← pPos n
      let nl0 ← pNlist n; let nl1 ← pNlist n; let sel ← pSel n; pEnd
      if !(nlistOk n nl0 && nlistOk n nl1) then pure (err "value") else
      let gs := sel.map fun i => strainG magR cosMax big c0 c1 (fn p0) (fn p1) (nl0.getD i []) (nl1.getD i []) i
      pure (" ".intercalate (gs.map showM))) rest
  | "pairs" :: rest => run (do
      -- number of matched pairs per atom (diagnostic: which atoms the pairing loop reduced)
      let cosMax ← pRat
      let c0 ← pCell; let c1 ← pCell; let n ← pNat; let p0 ← pPos n; let p1 ← pPos n
      let nl0 ← pNlist n; let nl1 ← pNlist n; let sel ← pSel n; pEnd
      if !(nlistOk n nl0 && nlistOk n nl1) then pure (err "value") else
      let gs := sel.map fun i =>
        (matchPQ magR cosMax big (nbrVectors c0 (fn p0) (nl0.getD i []) i) (nbrVectors c1 (fn p1) (nl1.getD i []) i)).length
      pure (" ".intercalate (gs.map toString))) rest
  | "derive" :: rest => run (do
      let g ← pM3; pEnd
      let s := strain g
      let r := rotation g
      pure (showM s ++ " " ++ showM r ++ " " ++
        showRats [invariant1 s, invariant2 s, invariant3 s, angularVelocitySq r])) rest
  | "nye" :: rest => run (do
      let c ← pCell; let n ← pNat; let p ← pPos n; let nl ← pNlist n; let gs ← pMany pM3 n; let sel ← pSel n; pEnd
      if !nlistOk n nl then pure (err "value") else
      let G := fnM gs.toArray
      pure (" ".intercalate (sel.map fun i => showM (nye c (fn p) G (nl.getD i []) i)))) rest
  | "match" :: rest => run (do
      -- the pairing loop alone: cosMax np p-vectors nq q-vectors -> matched index of p for each q (-1: none)
      let cosMax ← pRat; let np ← pNat; let ps ← pMany pV3 np; let nq ← pNat; let qs ← pMany pV3 nq; pEnd
      let r := qpPairs magR cosMax big ps qs
      pure (" ".intercalate (r.map fun e => match e.2 with | some k => toString k | none => "-1"))) rest
  | _ => err "op"

def main : IO Unit := runDriver handleC17
