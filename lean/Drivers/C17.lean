import Atomman.Prelude
open Atomman

/-- stub: replaced when the C17 model is built. -/
def handleC17 (_toks : List String) : String := err "op"

def main : IO Unit := runDriver handleC17
