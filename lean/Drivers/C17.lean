import Atomman.C17
open Atomman Atomman.C17

/-! line-protocol driver for C17 (see harness/props/c17.py for the op grammar). -/

abbrev P := StateT (List String) Option

def tok : P String := do
  match (← get) with
  | [] => failure
  | t :: r => set r; pure t

def pNat : P Nat := do let t ← tok; match t.toNat? with | some n => pure n | none => failure
def pRat : P Rat := do let t ← tok; match parseRat? t with | some n => pure n | none => failure
def pBool : P Bool := do let t ← tok; match parseBool? t with | some n => pure n | none => failure

def pMany {α : Type} (p : P α) : Nat → P (List α)
  | 0 => pure []
  | n + 1 => do let a ← p; let r ← pMany p n; pure (a :: r)

def pV3 : P (V3 Rat) := do let x ← pRat; let y ← pRat; let z ← pRat; pure ⟨x, y, z⟩
def pM3 : P (M3 Rat) := do let a ← pV3; let b ← pV3; let c ← pV3; pure ⟨a, b, c⟩
def pCell : P (Cell Rat) := do
  let px ← pBool; let py ← pBool; let pz ← pBool; let v ← pM3; pure ⟨v, px, py, pz⟩
def pPos (n : Nat) : P (Array (V3 Rat)) := do let l ← pMany pV3 n; pure l.toArray
def pNlist (n : Nat) : P (List (List Nat)) := pMany (do let c ← pNat; pMany pNat c) n
/-- selection of atoms to evaluate: `k i1 .. ik`. -/
def pSel (n : Nat) : P (List Nat) := do
  let k ← pNat; let l ← pMany pNat k
  if l.all (· < n) then pure l else failure
def pEnd : P Unit := do match (← get) with | [] => pure () | _ => failure

def fn (a : Array (V3 Rat)) : Nat → V3 Rat := fun i => a.getD i ⟨0, 0, 0⟩
def fnM (a : Array (M3 Rat)) : Nat → M3 Rat := fun i => a.getD i ⟨⟨0,0,0⟩,⟨0,0,0⟩,⟨0,0,0⟩⟩

def nlistOk (n : Nat) (nl : List (List Nat)) : Bool := nl.length == n && nl.all (·.all (· < n))

def showV (v : V3 Rat) : String := showRats v.toList
def showVs (l : List (V3 Rat)) : String := " ".intercalate (l.map showV)
def showM (m : M3 Rat) : String := showRats m.toList

def toF (r : Rat) : Float := Float.ofInt r.num / Float.ofNat r.den
def ofF (f : Float) : Rat :=
  if f.isNaN || f.isInf || f ≤ 0 then 0 else
  let (m, e) := f.frExp
  let n : Nat := (m * 9007199254740992.0).toUInt64.toNat
  let e' : Int := e - 53
  if e' ≥ 0 then ((n * 2 ^ e'.toNat : Nat) : Rat) else mkRat n (2 ^ (-e').toNat)

/-- `sqrt` shim (float shim of DESIGN §0.3): the double nearest to the square root, as an exact rational. -/
def ratSqrt (r : Rat) : Rat := if r ≤ 0 then 0 else ofF (Float.sqrt (toF r))

def magR (v : V3 Rat) : Rat := ratSqrt (V3.normSq v)

/-- the starting value of `r1` (the model's `bigR1`, proved equal to the constant in the source: `gen_r1Init_eq_model`). -/
def big : Rat := bigR1

def run (p : P String) (toks : List String) : String :=
  match p.run toks with
  | some (s, _) => s
  | none => err "format"

def pOpt {α : Type} (p : P α) : P (Option α) := do
  let b ← pBool
  if b then (do let a ← p; pure (some a)) else pure none

def handleC17 (toks : List String) : String :=
  match toks with
  | "disp" :: rest => run (do
      let c ← pCell; let n ← pNat; let p0 ← pPos n; let p1 ← pPos n; pEnd
      pure (showVs ((List.range n).map (displacement c (fn p0) (fn p1))))) rest
  | "dispcall" :: rest => run (do
      -- displacement(system_0, system_1, box_reference) as a whole: REF CELL0 CELL1 n0 POS0 n1 POS1 -> 3n | err:value
      let r ← tok
      let ref ← (match r with
        | "final" => pure BoxRef.final | "initial" => pure BoxRef.initial | "none" => pure BoxRef.none
        | "other" => pure BoxRef.other | _ => failure : P BoxRef)
      let c0 ← pCell; let c1 ← pCell; let n0 ← pNat; let p0 ← pPos n0; let n1 ← pNat; let p1 ← pPos n1; pEnd
      match displacementCall n0 n1 c0 c1 ref (fn p0) (fn p1) with
      | .ok d => pure (showVs ((List.range n0).map d))
      | .error .value => pure (err "value")
      | .error .assert => pure (err "assert")) rest
  | "slip" :: rest => run (do
      let c ← pCell; let n ← pNat; let p0 ← pPos n; let p1 ← pPos n; let nl ← pNlist n; let sel ← pSel n; pEnd
      if !nlistOk n nl then pure (err "value") else
      pure (showVs (sel.map fun i => slipVector c (fn p0) (fn p1) (nl.getD i []) i))) rest
  | "dd" :: rest => run (do
      let c0 ← pCell; let c1 ← pCell; let n ← pNat; let p0 ← pPos n; let p1 ← pPos n; let nl ← pNlist n; let sel ← pSel n; pEnd
      if !nlistOk n nl then pure (err "value") else
      pure (showVs (sel.flatMap fun i => (nl.getD i []).map fun j => ddvector c0 c1 (fn p0) (fn p1) i j))) rest
  | "disreg" :: rest => run (do
      let atol ← pRat; let rtol ← pRat; let midy ← pRat
      let c ← pCell; let n ← pNat; let p0 ← pPos n; let p1 ← pPos n
      let xs ← pMany pRat n; let ys ← pMany pRat n; pEnd
      let d := (List.range n).map (displacement c (fn p0) (fn p1))
      let atoms := xs.zip (ys.zip d)
      match disregistry atol rtol atoms midy with
      | none => pure (err "value")
      | some r => pure (toString r.length ++ " " ++
          " ".intercalate (r.map fun e => showRat e.1 ++ " " ++ showV e.2))) rest
  | "disregcall" :: rest => run (do
      -- disregistry(basesystem, dislsystem, m, n, planepos) from the two systems:
      -- atol rtol CELL0 CELL1 n0 POS0 n1 POS1 m(3) n(3) planepos(3) -> profile | err:value (atom counts, plane selection)
      let atol ← pRat; let rtol ← pRat
      let c0 ← pCell; let c1 ← pCell; let n0 ← pNat; let p0 ← pPos n0; let n1 ← pNat; let p1 ← pPos n1
      let mv ← pMany pRat 3; let nv ← pMany pRat 3; let pp ← pMany pRat 3; pEnd
      let v3 := fun (l : List Rat) => (⟨l.getD 0 0, l.getD 1 0, l.getD 2 0⟩ : V3 Rat)
      match disregistryCall atol rtol n0 n1 c0 c1 (fn p0) (fn p1) (v3 mv) (v3 nv) (v3 pp) with
      | .error .value => pure (err "value")
      | .error .assert => pure (err "assert")
      | .ok none => pure (err "value")
      | .ok (some r) => pure (toString r.length ++ " " ++
          " ".intercalate (r.map fun e => showRat e.1 ++ " " ++ showV e.2))) rest
  | "strain" :: rest => run (do
      let cosMax ← pRat
      let c0 ← pCell; let c1 ← pCell; let n ← pNat; let p0 ← pPos n; let p1 ← pPos n
      let nl0 ← pNlist n; let nl1 ← pNlist n; let sel ← pSel n; pEnd
      if !(nlistOk n nl0 && nlistOk n nl1) then pure (err "value") else
      let gs := sel.map fun i => strainG magR cosMax big c0 c1 (fn p0) (fn p1) (nl0.getD i []) (nl1.getD i []) i
      pure (" ".intercalate (gs.map showM))) rest
  | "pairs" :: rest => run (do
      -- number of matched pairs per atom (diagnostic: which atoms the pairing loop reduced)
      let cosMax ← pRat
      let c0 ← pCell; let c1 ← pCell; let n ← pNat; let p0 ← pPos n; let p1 ← pPos n
      let nl0 ← pNlist n; let nl1 ← pNlist n; let sel ← pSel n; pEnd
      if !(nlistOk n nl0 && nlistOk n nl1) then pure (err "value") else
      let gs := sel.map fun i =>
        (matchPQ magR cosMax big (nbrVectors c0 (fn p0) (nl0.getD i []) i) (nbrVectors c1 (fn p1) (nl1.getD i []) i)).length
      pure (" ".intercalate (gs.map toString))) rest
  | "derive" :: rest => run (do
      let g ← pM3; pEnd
      let s := strain g
      let r := rotation g
      pure (showM s ++ " " ++ showM r ++ " " ++
        showRats [invariant1 s, invariant2 s, invariant3 s, angularVelocitySq r])) rest
  | "nye" :: rest => run (do
      let c ← pCell; let n ← pNat; let p ← pPos n; let nl ← pNlist n; let gs ← pMany pM3 n; let sel ← pSel n; pEnd
      if !nlistOk n nl then pure (err "value") else
      let G := fnM gs.toArray
      pure (" ".intercalate (sel.map fun i => showM (nye c (fn p) G (nl.getD i []) i)))) rest
  | "match" :: rest => run (do
      -- the pairing loop alone: cosMax np p-vectors nq q-vectors -> matched index of p for each q (-1: none)
      let cosMax ← pRat; let np ← pNat; let ps ← pMany pV3 np; let nq ← pNat; let qs ← pMany pV3 nq; pEnd
      let r := qpPairs magR cosMax big ps qs
      pure (" ".intercalate (r.map fun e => match e.2 with | some k => toString k | none => "-1"))) rest
  | "src" :: rest => run (do
      -- which list a call uses: flags neighbors / cutoff / attribute given -> neighbors | cutoff | attr | err:assert | err:value
      let nb ← pBool; let cu ← pBool; let att ← pBool; pEnd
      let o := fun (b : Bool) (s : String) => if b then some s else none
      match pickNeighbors (o nb "neighbors") (o cu "cutoff") (o att "attr") with
      | .ok s => pure s
      | .error .assert => pure (err "assert")
      | .error .value => pure (err "value")) rest
  | "slipentry" :: rest => run (do
      -- slip_vector with atom counts n0 n1 and the three source flags -> neighbors | cutoff | attr | err:assert | err:value
      let n0 ← pNat; let n1 ← pNat; let nb ← pBool; let cu ← pBool; let att ← pBool; pEnd
      let o := fun (b : Bool) (s : String) => if b then some s else none
      match slipVectorRefusals n0 n1 (o nb "neighbors") (o cu "cutoff") (o att "attr") with
      | .ok s => pure s
      | .error .assert => pure (err "assert")
      | .error .value => pure (err "value")) rest
  | "asdictplan" :: rest => run (do
      -- Strain.asdict(properties): `0` (None) | `1 k name*k` -> `ok` / `assert` followed by the properties read, in order
      let props ← pOpt (do let k ← pNat; pMany tok k); pEnd
      let plan := asdictPlan props
      let nm : SProp → String := fun p => match p with
        | .G => "G" | .strain => "strain" | .inv1 => "inv1" | .inv2 => "inv2" | .inv3 => "inv3"
        | .rotation => "rotation" | .angvel2 => "angvel2" | .nye => "nye"
      pure (" ".intercalate ((if plan.2 then "assert" else "ok") :: plan.1.map nm))) rest
  | "srcs" :: rest => run (do
      -- Strain(...): flags for the system (neighbors cutoff attr), basesystem given, flags baseneighbors / base attr
      let nb ← pBool; let cu ← pBool; let att ← pBool; let bs ← pBool; let bn ← pBool; let ba ← pBool; pEnd
      let o := fun (b : Bool) (s : String) => if b then some s else none
      let base := if bs then some (o bn "baseneighbors", o cu "cutoff", o ba "attr") else none
      match strainSources (o nb "neighbors") (o cu "cutoff") (o att "attr") base with
      | .ok (a, b) => pure (a ++ " " ++ b.getD "none")
      | .error .assert => pure (err "assert")
      | .error .value => pure (err "value")) rest
  | _ => err "op"

/-! ### objects (stateful part of the protocol)

  so new CELL n POS NLIST theta cos          Strain(system, neighbors) without p vectors      -> ok
  so setp AX kind m ...                      set_p_vectors: AX = `0` | `1 T9`; kind `flat m V*m` | `nested m (c V*c)*m` -> ok | err:value
  so buildp CELL n POS NLIST                 build_p_vectors(basesystem, neighbors)             -> ok
  so theta v c | so clear | so setpos POS | so setsys CELL POS   theta_max setter / clear_properties / in-place edit of the system -> ok
  so solve 0 | so solve 1 v c                solve_G(theta_max)                                  -> ok | err:value
  so read PROP SEL                           property of the selected atoms                      -> numbers | err:value
  so cond                                    conditioning 27 det(QtQ)/tr(QtQ)^3 of the matched sets the cached G came from (exemption device)
  do new SYS0 SYS1 ARGS | do solve ARGS      DifferentialDisplacement(...) / .solve(...)        -> ok | err:assert | err:value
       SYS = CELL n POS;  ARGS = (0 | 1 SYS) (0 | 1 SYS) (0 | 1 m NLIST) (0 | 1 m NLIST m NLIST) (0 | 1 ref)
  do read                                    -> none | k then 3k numbers
  do state                                   -> reference, stored list (none | m NLIST)
-/

structure St where
  so : Option (SObj Rat)
  dob : Option (DObj Rat)
  /-- conditioning of the matched sets the cached `G` was solved from (harness exemption device, not part of the
      model): per atom `27 det(QᵀQ) / tr(QᵀQ)³`, -1 without pairs (`G` = identity, exact). -/
  cond : Array Rat := #[]

def condOf (a : SIn Rat) : Array Rat :=
  match a.pvec with
  | none => #[]
  | some pv => ((List.range a.n).map fun i =>
      let m := matchPQ magR a.cosT big (pv i) (nbrVectors a.cell a.pos (a.nlist i) i)
      if m.isEmpty then (-1 : Rat) else
      let q := qtq m
      let t := q.r0.x + q.r1.y + q.r2.z
      if t = 0 then 0 else 27 * M3.det q / (t * t * t)).toArray

/-- after an operation: when `G` was (re)computed, remember the conditioning of what it was solved from. -/
def withCond (old : SObj Rat) (forced : Bool) (st : St) : St :=
  match st.so with
  | none => st
  | some o =>
    if forced || ((old.cache .G).isNone && (o.cache .G).isSome) then { st with cond := condOf o.inp } else st

def pSys : P (Sys Rat) := do
  let c ← pCell; let n ← pNat; let p ← pPos n
  pure ⟨c, n, fn p⟩

def pLists : P (List (List Nat)) := do let m ← pNat; pNlist m

def pProp : P SProp := do
  match (← tok) with
  | "G" => pure .G | "strain" => pure .strain | "inv1" => pure .inv1 | "inv2" => pure .inv2 | "inv3" => pure .inv3
  | "rotation" => pure .rotation | "angvel2" => pure .angvel2 | "nye" => pure .nye
  | _ => failure

def pPArg : P (PArg Rat) := do
  match (← tok) with
  | "flat" => do let m ← pNat; let l ← pMany pV3 m; pure (.flat l)
  | "nested" => do
      let m ← pNat
      let l ← pMany (do let c ← pNat; pMany pV3 c) m
      pure (.nested l)
  | _ => failure

def pDArgs (dflt : Option (Sys Rat × Sys Rat)) : P (DArgs Rat) := do
  let s0 ← pOpt pSys; let s1 ← pOpt pSys
  let nb ← pOpt pLists
  let cut ← pOpt (do let a ← pLists; let b ← pLists; pure (a, b))
  let r ← pOpt pNat
  pEnd
  pure ⟨s0, s1, nb, cut, r⟩

def listsOk (n : Nat) (nl : List (List Nat)) : Bool := nl.length == n && nl.all (·.all (· < n))

/-- the lists an argument set will use must index the atoms of the systems in play. -/
def dargsOk (o : DObj Rat) (a : DArgs Rat) : Bool :=
  let n := (a.sys0.getD o.sys0).n
  (match a.neighbors with | some nl => listsOk n nl | none => true) &&
  (match a.cutoff with | some ll => listsOk n ll.1 && listsOk n ll.2 | none => true) &&
  (match o.nlist with | some nl => listsOk n nl || a.neighbors.isSome || a.cutoff.isSome | none => true)

def showPayload (sel : List Nat) : Payload Rat → String
  | .mats l => let a := l.toArray; " ".intercalate (sel.map fun i => showM (a.getD i zeroM))
  | .nums l => let a := l.toArray; showRats (sel.map fun i => a.getD i 0)

def runS (st : St) (p : P (St × String)) (toks : List String) : St × String :=
  match p.run toks with
  | some (r, _) => r
  | none => (st, err "format")

def stepC17 (st : St) (toks : List String) : St × String :=
  match toks with
  | "so" :: "new" :: rest => runS st (do
      let c ← pCell; let n ← pNat; let p ← pPos n; let nl ← pNlist n; let th ← pRat; let co ← pRat; pEnd
      if !nlistOk n nl then pure (st, err "value") else
      let nla := nl.toArray
      pure ({ st with so := some (SObj.fresh ⟨c, n, fn p, fun i => nla.getD i [], none, th, co⟩) }, "ok")) rest
  | "so" :: op :: rest =>
    match st.so with
    | none => (st, err "op")
    | some o =>
      match op with
      | "setp" => runS st (do
          let ax ← pOpt pM3; let arg ← pPArg; pEnd
          match givenP o.inp.n arg ax with
          | none => pure (st, err "value")
          | some pv =>
            -- tabulate once (the model keeps a function)
            let tab := ((List.range o.inp.n).map pv).toArray
            pure ({ st with so := some (o.setP fun i => tab.getD i []) }, "ok")) rest
      | "buildp" => runS st (do
          let c ← pCell; let n ← pNat; let p ← pPos n; let nl ← pNlist n; pEnd
          if !nlistOk n nl then pure (st, err "value") else
          let tab := ((List.range n).map fun i => nbrVectors c (fn p) (nl.getD i []) i).toArray
          pure ({ st with so := some (o.setP fun i => tab.getD i []) }, "ok")) rest
      | "theta" => runS st (do
          let v ← pRat; let c ← pRat; pEnd
          pure ({ st with so := some (o.setTheta v c) }, "ok")) rest
      | "clear" => ({ st with so := some o.clear }, "ok")
      | "setpos" => runS st (do
          let p ← pPos o.inp.n; pEnd
          pure ({ st with so := some (o.setPos (fn p)) }, "ok")) rest
      | "setsys" => runS st (do
          let c ← pCell; let p ← pPos o.inp.n; pEnd
          pure ({ st with so := some (o.setSys c (fn p)) }, "ok")) rest
      | "solve" => runS st (do
          let th ← pOpt (do let v ← pRat; let c ← pRat; pure (v, c)); pEnd
          let r := o.solve magR big th
          pure (withCond o r.2 { st with so := some r.1 }, if r.2 then "ok" else err "value")) rest
      | "cond" => (st, showRats st.cond.toList)
      | "read" => runS st (do
          let p ← pProp; let sel ← pSel o.inp.n; pEnd
          let r := o.read magR big p
          pure (withCond o false { st with so := some r.1 }, match r.2 with | some v => showPayload sel v | none => err "value")) rest
      | _ => (st, err "op")
  | "do" :: "new" :: rest => runS st (do
      let s0 ← pSys; let s1 ← pSys
      let blank : DObj Rat := ⟨s0, s1, 1, none, none⟩
      let a ← pDArgs none
      if !dargsOk blank a then pure (st, err "format") else
      match a.reference with
      | none => pure (st, err "format")
      | some r =>
        match DObj.init s0 s1 a.neighbors a.cutoff r with
        | some o => pure ({ st with dob := some o }, "ok")
        | none =>
          -- which exception: re-run the solve on the blank object
          if a.neighbors.isSome || a.cutoff.isSome then
            match (DObj.solve blank ⟨some s0, some s1, a.neighbors, a.cutoff, some r⟩).2 with
            | some .value => pure ({ st with dob := none }, err "value")
            | _ => pure ({ st with dob := none }, err "assert")
          else pure ({ st with dob := none }, err "assert")) rest
  | "do" :: op :: rest =>
    match st.dob with
    | none => (st, err "op")
    | some o =>
      match op with
      | "solve" => runS st (do
          let a ← pDArgs none
          if !dargsOk o a then pure (st, err "format") else
          let r := o.solve a
          pure ({ st with dob := some r.1 }, match r.2 with | none => "ok" | some .assert => err "assert" | some .value => err "value")) rest
      | "read" =>
        match o.dd with
        | none => (st, "none")
        | some l => (st, toString l.length ++ " " ++ showVs l)
      | "state" =>
        (st, toString o.reference ++ " " ++ (match o.nlist with
          | none => "none"
          | some nl => toString nl.length ++ " " ++ " ".intercalate (nl.map fun l => " ".intercalate (toString l.length :: l.map toString))))
      | _ => (st, err "op")
  | _ => (st, handleC17 toks)

def main : IO Unit := runDriverS stepC17 ⟨none, none, #[]⟩
