import Atomman.C16
open Atomman Atomman.C16

/-- line protocol of the C16 model driver (numbers are exact rationals / ints on the wire):
    p34 h k l | p43 atol h k i l | v34 u v w | v43 atol u v t w
    p43arr atol (h k i l)+ | v43arr atol (u v t w)+   -> 3 rationals per row, or err:value for the whole array
    vc2c hex atol V(9) idx(3|4)          -> 3 rationals
    plane hex atol V(9) idx(3|4 ints)    -> s a(3) b(3) | n(3 rationals, unnormalised)
    planearr hex atol V(9) w rows…       -> 3 rationals per row (unnormalised normals), or err:value for the whole array
    p2c setting u v w | c2p setting u v w
    reduce ints… | allidx m reduce | fromstr codepoints…
    fam rtol atol a b c alpha beta gamma -> family-or-none + 7 predicate bits
    ONE Box object kept between lines (state of the driver):
    bnew V(9) org(3) par(6) | bsetv V(9) par(6) | bset V(9) org(3) par(6) | bseto org(3)   -> ok
    bfam rtol atol | bvc2c atol idx… | bplane atol idx… | bpos s(3) | brecip                 -> as fam/vc2c/plane; 3; 9
    the CALLER's memory (`Mem Rows`, second part of the state): arrays of index sets by address
    mreset | malloc w v… -> addr | mscrib addr w v… -> ok | mdump -> w:v v v;w:…
    mcall addr (p34 | v34 | p43 atol | v43 atol | reduce | p2c s | c2p s | bvc2c atol) -> addr | w:v…  (or err:…)
    mconst fromstr codepoints… | mconst allidx m reduce                                  -> addr | w:v… -/
def showV3 (v : V3 Rat) : String := showRats v.toList
def showV4 (v : V4 Rat) : String := showRats [v.a, v.b, v.c, v.d]

def showE {α : Type} (f : α → String) : Except Err α → String
  | .ok a => f a
  | .error e => e.toString

/-- consecutive groups of four numbers (a trailing incomplete group is dropped; the caller checks the length). -/
def quads : List Rat → List (V4 Rat)
  | a :: b :: c :: d :: rest => ⟨a, b, c, d⟩ :: quads rest
  | _ => []

def cellOf? : List Rat → Option (CellParams Rat)
  | [a, b, c, al, be, ga] => some ⟨a, b, c, al, be, ga⟩
  | _ => none

def famName : Option Family → String
  | some f => f.toString
  | none => "none"

def showPreds (rtol atol : Rat) (p : CellParams Rat) : String :=
  " ".intercalate ([isCubic rtol atol p, isHexagonal rtol atol p, isTetragonal rtol atol p,
    isRhombohedral rtol atol p, isOrthorhombic rtol atol p, isMonoclinic rtol atol p,
    isTriclinic rtol atol p].map showBool)

def showFam (rtol atol : Rat) (p : CellParams Rat) : String :=
  famName (identifyFamily rtol atol p) ++ " " ++ showPreds rtol atol p

def chunk (w : Nat) : Nat → List Rat → Rows
  | 0, _ => []
  | fuel + 1, xs => if w = 0 ∨ xs.length < w then [] else xs.take w :: chunk w fuel (xs.drop w)

def rowsOf (w : Nat) (xs : List Rat) : Rows := chunk w xs.length xs

def handleC16 (toks : List String) : String :=
  match toks with
  | "p34" :: rest =>
    match parseRats? rest with
    | some [h, k, l] => showV4 (plane3to4 (K := Rat) ⟨h, k, l⟩)
    | _ => err "format"
  | "p43" :: rest =>
    match parseRats? rest with
    | some [atol, h, k, i, l] => showE showV3 (plane4to3 atol ⟨h, k, i, l⟩)
    | _ => err "format"
  | "v34" :: rest =>
    match parseRats? rest with
    | some [u, v, w] => showV4 (vector3to4 (K := Rat) ⟨u, v, w⟩)
    | _ => err "format"
  | "v43" :: rest =>
    match parseRats? rest with
    | some [atol, u, v, t, w] => showE showV3 (vector4to3 atol ⟨u, v, t, w⟩)
    | _ => err "format"
  | "p43arr" :: atol :: rest =>
    match parseRat? atol, parseRats? rest with
    | some atol, some xs =>
      if xs.length % 4 != 0 || xs.length == 0 then err "format" else
      showE (fun l => showRats (l.flatMap V3.toList)) (plane4to3Arr atol (quads xs))
    | _, _ => err "format"
  | "v43arr" :: atol :: rest =>
    match parseRat? atol, parseRats? rest with
    | some atol, some xs =>
      if xs.length % 4 != 0 || xs.length == 0 then err "format" else
      showE (fun l => showRats (l.flatMap V3.toList)) (vector4to3Arr atol (quads xs))
    | _, _ => err "format"
  | "vc2c" :: hex :: atol :: rest =>
    match parseBool? hex, parseRat? atol, parseRats? rest with
    | some hex, some atol, some xs =>
      match M3.ofList? (xs.take 9) with
      | some V => showE showV3 (vectorCrystalToCartesian atol hex V (xs.drop 9))
      | none => err "format"
    | _, _, _ => err "format"
  | "plane" :: hex :: atol :: rest =>
    match parseBool? hex, parseRat? atol, parseRats? (rest.take 9), parseInts? (rest.drop 9) with
    | some hex, some atol, some vs, some idx =>
      match M3.ofList? vs with
      | some V =>
        match planeCrystalToCartesianUnnorm atol hex V idx with
        | .error e => e.toString
        | .ok n =>
          let hkl := match idx with
            | [h, k, _, l] => (h, k, l)
            | [h, k, l] => (h, k, l)
            | _ => (0, 0, 0)
          match planeInPlane hkl.1 hkl.2.1 hkl.2.2 with
          | .ok (a, b, s) => showInts ([s] ++ a.toList ++ b.toList) ++ " | " ++ showV3 n
          | .error e => e.toString
      | none => err "format"
    | _, _, _, _ => err "format"
  | "planearr" :: hex :: gatol :: w :: rest =>
    -- an ARRAY of planes given as numbers: integer test (numpy default tolerances), guards, then row by row
    match parseBool? hex, parseRat? gatol, w.toNat?, parseRats? rest with
    | some hex, some gatol, some w, some xs =>
      match M3.ofList? (xs.take 9) with
      | some V =>
        showE (fun l => showRats (l.flatMap V3.toList))
          (planeArr BoxObj.defaultRtol BoxObj.defaultAtol gatol hex V (rowsOf w (xs.drop 9)))
      | none => err "format"
    | _, _, _, _ => err "format"
  | "p2c" :: setting :: rest =>
    match parseRats? rest with
    | some [u, v, w] => showE showV3 (vectorPrimitiveToConventional (K := Rat) setting ⟨u, v, w⟩)
    | _ => err "format"
  | "c2p" :: setting :: rest =>
    match parseRats? rest with
    | some [u, v, w] => showE showV3 (vectorConventionalToPrimitive (K := Rat) setting ⟨u, v, w⟩)
    | _ => err "format"
  | "reduce" :: rest =>
    match parseInts? rest with
    | some l => showE showInts (reduceIndices l)
    | none => err "format"
  | ["allidx", m, r] =>
    match m.toInt?, parseBool? r with
    | some m, some r =>
      let rows := allIndices m r
      toString rows.length ++ " " ++ showInts rows.flatten
    | _, _ => err "format"
  | "fromstr" :: rest =>
    match parseNats? rest with
    | some codes => showE showRats (fromChars (codes.map Char.ofNat))
    | none => err "format"
  | "fam" :: rest =>
    match parseRats? rest with
    | some [rtol, atol, a, b, c, al, be, ga] => showFam rtol atol ⟨a, b, c, al, be, ga⟩
    | _ => err "format"
  | _ => err "op"

/-! caller-side memory (`Mem Rows`): arrays of index sets the harness holds as real numpy arrays -/

def showRows (r : Rows) : String :=
  toString (match r with | [] => 0 | x :: _ => x.length) ++ ":" ++ showRats r.flatten

def v4Of? : List Rat → Option (V4 Rat)
  | [a, b, c, d] => some ⟨a, b, c, d⟩
  | _ => none

def ratInt? (q : Rat) : Option Int := if q.den = 1 then some q.num else none

/-- a function of the property applied to an array of index sets (rows): the 4 -> 3 conversions apply ONE guard to
    the whole array (`plane4to3Arr`), everything else works row by row. -/
def fnOf (box : Option (BoxObj Rat)) : List String → Option (Rows → Except Err Rows)
  | ["p34"] => some fun rows => rows.mapM fun r =>
      match V3.ofList? r with
      | some p => let q := plane3to4 p; .ok [q.a, q.b, q.c, q.d]
      | none => .error .value
  | ["v34"] => some fun rows => rows.mapM fun r =>
      match V3.ofList? r with
      | some p => let q := vector3to4 p; .ok [q.a, q.b, q.c, q.d]
      | none => .error .value
  | ["p43", atol] => (parseRat? atol).map fun atol rows =>
      match rows.mapM v4Of? with
      | some qs => (plane4to3Arr atol qs).map (·.map V3.toList)
      | none => .error .value
  | ["v43", atol] => (parseRat? atol).map fun atol rows =>
      match rows.mapM v4Of? with
      | some qs => (vector4to3Arr atol qs).map (·.map V3.toList)
      | none => .error .value
  | ["reduce"] => some fun rows => rows.mapM fun r =>
      match r.mapM ratInt? with
      | some l => (reduceIndices l).map (·.map fun (i : Int) => (i : Rat))
      | none => .error .format
  | ["p2c", setting] => some fun rows => rows.mapM fun r =>
      match V3.ofList? r with
      | some p => (vectorPrimitiveToConventional (K := Rat) setting p).map V3.toList
      | none => .error .value
  | ["c2p", setting] => some fun rows => rows.mapM fun r =>
      match V3.ofList? r with
      | some p => (vectorConventionalToPrimitive (K := Rat) setting p).map V3.toList
      | none => .error .value
  | ["bvc2c", atol] =>
    match box, parseRat? atol with
    | some o, some atol => some fun rows =>
        -- four-index arrays: hexagonal test, then ONE guard for the whole array
        match rows with
        | (_ :: _ :: _ :: _ :: []) :: _ =>
          if o.isHex then
            match rows.mapM v4Of? with
            | some qs => (vector4to3Arr atol qs).map (·.map fun p => (M3.vecMul p o.box.vects).toList)
            | none => .error .value
          else .error .value
        | _ => rows.mapM fun r => (o.vectorCrystalToCartesian atol r).map V3.toList
    | _, _ => none
  | _ => none

structure St where
  box : Option (BoxObj Rat)
  mem : Mem Rows

def showCall : Except Err (Nat × Rows) → String
  | .ok (a, r) => toString a ++ " | " ++ showRows r
  | .error e => e.toString

def stepMem (st : St) (toks : List String) : Option (St × String) :=
  match toks with
  | ["mreset"] => some ({ st with mem := Mem.empty }, "ok")
  | "malloc" :: w :: rest =>
    match w.toNat?, parseRats? rest with
    | some w, some xs =>
      let (m, a) := st.mem.alloc (rowsOf w xs)
      some ({ st with mem := m }, toString a)
    | _, _ => some (st, err "format")
  | "mscrib" :: a :: w :: rest =>
    match a.toNat?, w.toNat?, parseRats? rest with
    | some a, some w, some xs =>
      if a < st.mem.size then some ({ st with mem := st.mem.scribble a (rowsOf w xs) }, "ok") else some (st, err "format")
    | _, _, _ => some (st, err "format")
  | "mcall" :: a :: fn =>
    match a.toNat?, fnOf st.box fn with
    | some a, some f =>
      match st.mem.call f a with
      | (m, some r) => some ({ st with mem := m }, showCall r)
      | (_, none) => some (st, err "format")
    | _, _ => some (st, err "format")
  | "mconst" :: "fromstr" :: rest =>
    match parseNats? rest with
    | some codes =>
      let (m, r) := st.mem.callConst ((fromChars (codes.map Char.ofNat)).map fun l => [l])
      some ({ st with mem := m }, showCall r)
    | none => some (st, err "format")
  | ["mconst", "allidx", mx, r] =>
    match mx.toInt?, parseBool? r with
    | some mx, some r =>
      let (m, res) := st.mem.callConst (.ok ((allIndices mx r).map (·.map fun (i : Int) => (i : Rat))))
      some ({ st with mem := m }, showCall res)
    | _, _ => some (st, err "format")
  | ["mdump"] => some (st, ";".intercalate (st.mem.cells.map showRows))
  | _ => none

/-- the object-level operations: the state is the one `Box` object the harness is working on. -/
def stepBox (st : Option (BoxObj Rat)) (toks : List String) : Option (BoxObj Rat) × String :=
  match toks with
  | "bnew" :: rest =>
    match parseRats? rest with
    | some xs =>
      match M3.ofList? (xs.take 9), V3.ofList? ((xs.drop 9).take 3), cellOf? (xs.drop 12) with
      | some V, some org, some p => (some (BoxObj.new V org p), "ok")
      | _, _, _ => (st, err "format")
    | none => (st, err "format")
  | "bsetv" :: rest =>
    match st, parseRats? rest with
    | some o, some xs =>
      match M3.ofList? (xs.take 9), cellOf? (xs.drop 9) with
      | some V, some p => (some (o.setVects V p), "ok")
      | _, _ => (st, err "format")
    | _, _ => (st, err "format")
  | "bset" :: rest =>
    match st, parseRats? rest with
    | some o, some xs =>
      match M3.ofList? (xs.take 9), V3.ofList? ((xs.drop 9).take 3), cellOf? (xs.drop 12) with
      | some V, some org, some p => (some (o.set V org p), "ok")
      | _, _, _ => (st, err "format")
    | _, _ => (st, err "format")
  | "bseto" :: rest =>
    match st, parseRats? rest with
    | some o, some [x, y, z] => (some (o.setOrigin ⟨x, y, z⟩), "ok")
    | _, _ => (st, err "format")
  | "bfam" :: rest =>
    match st, parseRats? rest with
    | some o, some [rtol, atol] =>
      -- `BoxObj.identifyFamily` and the seven predicates of the current cell
      (st, famName (o.identifyFamily rtol atol) ++ " " ++ showPreds rtol atol o.par)
    | _, _ => (st, err "format")
  | "bvc2c" :: atol :: rest =>
    match st, parseRat? atol, parseRats? rest with
    | some o, some atol, some idx => (st, showE showV3 (o.vectorCrystalToCartesian atol idx))
    | _, _, _ => (st, err "format")
  | "bplane" :: atol :: rest =>
    match st, parseRat? atol, parseInts? rest with
    | some o, some atol, some idx =>
      match o.planeCrystalToCartesianUnnorm atol idx with
      | .error e => (st, e.toString)
      | .ok n =>
        let hkl := match idx with
          | [h, k, _, l] => (h, k, l)
          | [h, k, l] => (h, k, l)
          | _ => (0, 0, 0)
        match planeInPlane hkl.1 hkl.2.1 hkl.2.2 with
        | .ok (a, b, s) => (st, showInts ([s] ++ a.toList ++ b.toList) ++ " | " ++ showV3 n)
        | .error e => (st, e.toString)
    | _, _, _ => (st, err "format")
  | "bpos" :: rest =>
    match st, parseRats? rest with
    | some o, some [x, y, z] => (st, showV3 (o.relToCart ⟨x, y, z⟩))
    | _, _ => (st, err "format")
  | ["brecip"] =>
    match st with
    | some o =>
      if M3.det o.box.vects = 0 then (st, "err:linalg") else
      let (o', r) := o.reciprocalVects
      (some o', showRats r.toList)
    | none => (st, err "format")
  | _ => (st, handleC16 toks)

def stepC16 (st : St) (toks : List String) : St × String :=
  match stepMem st toks with
  | some r => r
  | none =>
    let (b, out) := stepBox st.box toks
    ({ st with box := b }, out)

def main : IO Unit := runDriverS stepC16 ⟨none, Mem.empty⟩
