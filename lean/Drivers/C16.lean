import Atomman.Prelude
open Atomman

/-- stub: replaced when the C16 model is built. -/
def handleC16 (_toks : List String) : String := err "op"

def main : IO Unit := runDriver handleC16
