import Atomman.C06
open Atomman Atomman.C06

/-!
  Line protocol of the C06 driver (stateful):
    reset                               → ok
    op <operation tokens>               → ok … | err:<class>
    call <prop|aprop|system|aext> …     → the same replies; the option handling (a_id / index, value kinds, flag
                                          spellings `b0 b1` = Python bool, `o0 o1` = other falsy / truthy) is the model's
    dump <n> <obj ids…> <m> <sys ids…>  → canonical dump of the listed live objects + sharing pairs
  Operands: values `V <dt> <ndim> <dims…> <cells…>` (dt `i f b s<w>`; cells int, p/q, 0/1, `_chars`),
  indices `I i`, `S a b c` (`.` = None), `L n i…`, `K n b…`; `.` = argument absent.
-/

namespace C06Drv

abbrev P (α : Type) := List String → Option (α × List String)

def tok : P String
  | [] => none
  | t :: ts => some (t, ts)

def pNat : P Nat := fun ts => match ts with
  | t :: r => t.toNat?.map (·, r)
  | [] => none

def pInt : P Int := fun ts => match ts with
  | t :: r => t.toInt?.map (·, r)
  | [] => none

def pRat : P Rat := fun ts => match ts with
  | t :: r => (parseRat? t).map (·, r)
  | [] => none

def pBool : P Bool := fun ts => match ts with
  | t :: r => (parseBool? t).map (·, r)
  | [] => none

def pOpt {α : Type} (p : P α) : P (Option α) := fun ts => match ts with
  | "." :: r => some (none, r)
  | _ => (p ts).map (fun (a, r) => (some a, r))

def pMany {α : Type} (p : P α) : Nat → P (List α)
  | 0 => fun ts => some ([], ts)
  | k + 1 => fun ts => match p ts with
    | none => none
    | some (a, r) => match pMany p k r with
      | none => none
      | some (as, r') => some (a :: as, r')

def pCounted {α : Type} (p : P α) : P (List α) := fun ts => match pNat ts with
  | none => none
  | some (n, r) => pMany p n r

def pDType : P DType := fun ts => match ts with
  | "i" :: r => some (.int, r)
  | "f" :: r => some (.flt, r)
  | "b" :: r => some (.bool, r)
  | t :: r => if t.startsWith "s" then ((t.drop 1).toString.toNat?).map (fun w => (DType.str w, r)) else none
  | [] => none

def pCell (dt : DType) : P Cell := fun ts => match dt, ts with
  | .int, t :: r => t.toInt?.map (fun i => (Cell.int i, r))
  | .flt, t :: r => (parseRat? t).map (fun q => (Cell.flt q, r))
  | .bool, t :: r => (parseBool? t).map (fun b => (Cell.bool b, r))
  | .str _, t :: r => if t.startsWith "_" then some (Cell.str (t.toList.drop 1), r) else none
  | _, [] => none

def pVal : P Val := fun ts => match ts with
  | "V" :: r => match pDType r with
    | none => none
    | some (dt, r1) => match pCounted pNat r1 with
      | none => none
      | some (shape, r2) => match pMany (pCell dt) (prod shape) r2 with
        | none => none
        | some (cells, r3) => some (⟨dt, shape, cells⟩, r3)
  | _ => none

def pIndex : P Index := fun ts => match ts with
  | "I" :: r => (pInt r).map (fun (i, r') => (Index.int i, r'))
  | "S" :: r => match pOpt pInt r with
    | none => none
    | some (a, r1) => match pOpt pInt r1 with
      | none => none
      | some (b, r2) => match pOpt pInt r2 with
        | none => none
        | some (c, r3) => some (Index.slice a b c, r3)
  | "L" :: r => (pCounted pInt r).map (fun (l, r') => (Index.list l, r'))
  | "K" :: r => (pCounted pBool r).map (fun (l, r') => (Index.mask l, r'))
  | _ => none

def pSym : P (Option String) := fun ts => match ts with
  | "~" :: r => some (none, r)
  | t :: r => if t.startsWith "_" then some (some (t.drop 1).toString, r) else none
  | [] => none

def pMass : P (Option Rat) := fun ts => match ts with
  | "~" :: r => some (none, r)
  | t :: r => (parseRat? t).map (fun q => (some q, r))
  | [] => none

def pKeyVal : P (String × Val) := fun ts => match ts with
  | k :: r => (pVal r).map (fun (v, r') => ((k, v), r'))
  | [] => none

def pBox : P (Box Rat) := fun ts => match pMany pRat 12 ts with
  | some ([a, b, c, d, e, f, g, h, i, x, y, z], r) => some (⟨⟨⟨a, b, c⟩, ⟨d, e, f⟩, ⟨g, h, i⟩⟩, ⟨x, y, z⟩⟩, r)
  | _ => none

instance : Monad P where
  pure a := fun ts => some (a, ts)
  bind m f := fun ts => match m ts with
    | none => none
    | some (a, r) => f a r

def pFlag : P Flag := fun ts => match ts with
  | "b1" :: r => some (.bool true, r)
  | "b0" :: r => some (.bool false, r)
  | "o1" :: r => some (.other true, r)
  | "o0" :: r => some (.other false, r)
  | _ => none

def pOp : P Op := fun ts => match ts with
  | "new" :: r => (do
      let n ← pOpt pInt; let a ← pOpt pVal; let p ← pOpt pVal; let ex ← pCounted pKeyVal
      pure (Op.new n a p ex) : P Op) r
  | "setv" :: r => (do let o ← pNat; let k ← tok; let v ← pVal; pure (Op.setView o k v) : P Op) r
  | "pget" :: r => (do let o ← pNat; let k ← tok; let ix ← pOpt pIndex; pure (Op.propGet o k ix) : P Op) r
  | "pkeys" :: r => (do let o ← pNat; pure (Op.propKeys o) : P Op) r
  | "pgeta" :: r => (do let o ← pNat; let ix ← pIndex; pure (Op.propGetAtoms o ix) : P Op) r
  | "pset" :: r => (do
      let o ← pNat; let k ← tok; let ix ← pOpt pIndex; let v ← pVal
      pure (Op.propSet o k ix v) : P Op) r
  | "pseta" :: r => (do
      let o ← pNat; let ix ← pOpt pIndex; let src ← pNat
      pure (Op.propSetAtoms o ix src) : P Op) r
  | "geti" :: r => (do let o ← pNat; let ix ← pIndex; pure (Op.getItem o ix) : P Op) r
  | "seti" :: r => (do let o ← pNat; let ix ← pIndex; let src ← pNat; pure (Op.setItem o ix src) : P Op) r
  | "patype" :: r => (do
      let o ← pNat; let k ← tok; let v ← pVal; let t ← pOpt pInt
      pure (Op.propAtype o k v t) : P Op) r
  | "exti" :: r => (do let o ← pNat; let n ← pInt; pure (Op.extendInt o n) : P Op) r
  | "exta" :: r => (do let o ← pNat; let d ← pNat; pure (Op.extendAtoms o d) : P Op) r
  | "dcopy" :: r => (do let o ← pNat; pure (Op.deepcopy o) : P Op) r
  | "natypes" :: r => (do let o ← pNat; pure (Op.natypes o) : P Op) r
  | "mksys" :: r => (do
      let o ← pNat; let box ← pBox; let pbc ← pCounted pBool
      let sy ← pOpt (pCounted pSym); let ms ← pOpt (pCounted pMass)
      pure (Op.mkSys o box pbc sy ms) : P Op) r
  | "mksysx" :: r => (do
      let o ← pNat; let box ← pBox; let pbc ← pCounted pBool
      let sy ← pOpt (pCounted pSym); let ms ← pOpt (pCounted pMass); let sc ← pBool; let cp ← pBool
      pure (Op.mkSysX o box pbc sy ms sc cp) : P Op) r
  | "symget" :: r => (do let i ← pNat; pure (Op.symbolsGet i) : P Op) r
  | "symset" :: r => (do let i ← pNat; let l ← pCounted pSym; pure (Op.symbolsSet i l) : P Op) r
  | "massget" :: r => (do let i ← pNat; pure (Op.massesGet i) : P Op) r
  | "massset" :: r => (do let i ← pNat; let l ← pCounted pMass; pure (Op.massesSet i l) : P Op) r
  | "pbcset" :: r => (do let i ← pNat; let l ← pCounted pBool; pure (Op.pbcSet i l) : P Op) r
  | "snatypes" :: r => (do let i ← pNat; pure (Op.sysNatypes i) : P Op) r
  | "satypes" :: r => (do let i ← pNat; pure (Op.sysAtypes i) : P Op) r
  | "scomp" :: r => (do let i ← pNat; pure (Op.composition i) : P Op) r
  | "spget" :: r => (do let i ← pNat; let k ← tok; let ix ← pOpt pIndex; pure (Op.sysPropGet i k ix) : P Op) r
  | "spgeta" :: r => (do let i ← pNat; let ix ← pIndex; pure (Op.sysPropGetAtoms i ix) : P Op) r
  | "spgets" :: r => (do let i ← pNat; let k ← tok; let ix ← pOpt pIndex; pure (Op.sysPropGetScaled i k ix) : P Op) r
  | "spgetas" :: r => (do let i ← pNat; let ix ← pOpt pIndex; pure (Op.sysPropGetAtomsScaled i ix) : P Op) r
  | "sdcopy" :: r => (do let i ← pNat; pure (Op.sysDeepcopy i) : P Op) r
  | "spset" :: r => (do
      let i ← pNat; let k ← tok; let ix ← pOpt pIndex; let sc ← pBool; let v ← pVal
      pure (Op.sysPropSet i k ix v sc) : P Op) r
  | "spseta" :: r => (do
      let i ← pNat; let ix ← pOpt pIndex; let sc ← pBool; let src ← pNat
      pure (Op.sysPropSetAtoms i ix src sc) : P Op) r
  | "sext" :: "i" :: r => (do
      let i ← pNat; let n ← pInt; let sc ← pBool; let sy ← pOpt (pCounted pSym)
      pure (Op.sysExtend i (.inl n) sc sy) : P Op) r
  | "sext" :: "a" :: r => (do
      let i ← pNat; let d ← pNat; let sc ← pBool; let sy ← pOpt (pCounted pSym)
      pure (Op.sysExtend i (.inr d) sc sy) : P Op) r
  | "ixget" :: r => (do let i ← pNat; let ix ← pIndex; pure (Op.ixGet i ix) : P Op) r
  | "ixset" :: "a" :: r => (do let i ← pNat; let ix ← pIndex; let o ← pNat; pure (Op.ixSet i ix (.inl o)) : P Op) r
  | "df" :: r => (do let o ← pNat; pure (Op.df o) : P Op) r
  | "sdf" :: "k" :: r => (do let i ← pNat; let k ← tok; pure (Op.sysDf i (.key k)) : P Op) r
  | "sdf" :: "l" :: r => (do let i ← pNat; let l ← pCounted tok; pure (Op.sysDf i (.keys l)) : P Op) r
  | "sdf" :: "f" :: r => (do let i ← pNat; let f ← pFlag; pure (Op.sysDf i (.flag f)) : P Op) r
  | "ixset" :: "s" :: r => (do let i ← pNat; let ix ← pIndex; let j ← pNat; pure (Op.ixSet i ix (.inr j)) : P Op) r
  | _ => none

def pCallVal : P CallVal := fun ts => match ts with
  | "A" :: r => (pNat r).map (fun (o, r') => (CallVal.atoms o, r'))
  | _ => (pVal ts).map (fun (v, r') => (CallVal.lit v, r'))

def pKey : P (Option String) := fun ts => match ts with
  | "." :: r => some (none, r)
  | t :: r => some (some t, r)
  | [] => none

def pArgs : P PropArgs := do
  let k ← pKey; let ix ← pOpt pIndex; let v ← pOpt pCallVal; let aid ← pOpt pIndex
  pure ⟨k, ix, v, aid⟩

/-- one API call with its options as the caller spells them: the MODEL does the option handling. -/
def pCall : P Call := fun ts => match ts with
  | "prop" :: r => (do let o ← pNat; let a ← pArgs; pure (Call.prop o a) : P Call) r
  | "aprop" :: r => (do let i ← pNat; let a ← pArgs; let f ← pFlag; pure (Call.atomsProp i a f) : P Call) r
  | "system" :: r => (do
      let o ← pNat; let box ← pBox; let pbc ← pCounted pBool
      let sy ← pOpt (pCounted pSym); let ms ← pOpt (pCounted pMass); let sc ← pFlag; let cp ← pFlag
      pure (Call.system o box pbc sy ms sc cp) : P Call) r
  | "aext" :: "i" :: r => (do
      let i ← pNat; let n ← pInt; let sc ← pFlag; let sy ← pOpt (pCounted pSym)
      pure (Call.atomsExtend i (.inl n) sc sy) : P Call) r
  | "aext" :: "a" :: r => (do
      let i ← pNat; let d ← pNat; let sc ← pFlag; let sy ← pOpt (pCounted pSym)
      pure (Call.atomsExtend i (.inr d) sc sy) : P Call) r
  | _ => none

/-! printing -/

def showDType : DType → String
  | .int => "i" | .flt => "f" | .bool => "b" | .str w => "s" ++ toString w

def showCell : Cell → String
  | .int i => toString i
  | .flt r => showRat r
  | .bool b => showBool b
  | .str s => "_" ++ String.ofList s

def showVal (v : Val) : String :=
  " ".intercalate (["V", showDType v.dt, toString v.shape.length] ++ v.shape.map toString ++ v.data.map showCell)

def showSym : Option String → String
  | none => "~" | some s => "_" ++ s
def showMass : Option Rat → String
  | none => "~" | some m => showRat m

def showErr : Err → String
  | .value => "err:value" | .type => "err:type" | .index => "err:index" | .key => "err:key"
  | .assert => "err:assert" | .format => "err:format" | .unmodelled => "err:unmodelled"

def showOut : Out → String
  | .unit => "ok"
  | .obj o => s!"ok o {o}"
  | .objSys o i => s!"ok os {o} {i}"
  | .val v => "ok v " ++ showVal v
  | .keys l => " ".intercalate (["ok", "k", toString l.length] ++ l)
  | .nat n => s!"ok n {n}"
  | .syms l => " ".intercalate (["ok", "y", toString l.length] ++ l.map showSym)
  | .masses l => " ".intercalate (["ok", "w", toString l.length] ++ l.map showMass)
  | .nats l => " ".intercalate (["ok", "t", toString l.length] ++ l.map toString)
  | .comp c => "ok c " ++ showSym c
  | .table cols => " ".intercalate (["ok", "d", toString cols.length] ++ (cols.map (fun c =>
      [c.name, (match c.dt with | .str _ => "s" | d => showDType d), toString c.cells.length] ++ c.cells.map showCell)).flatten)

def pairsShared (s : State) : List (Nat × Arr) → List String
  | [] => []
  | (i, a) :: rest =>
    (rest.filterMap (fun (j, b) => if sharesMem s a b then some s!"{i}-{j}" else none)) ++ pairsShared s rest

def dump (s : State) (objs syss : List Nat) : String :=
  let objParts := objs.map (fun o =>
    let ob := s.obj o
    " ".intercalate ([s!"O {o} {ob.natoms} {ob.props.length}"] ++
      ob.props.map (fun p => p.key ++ " " ++ showVal (arrVal s p.arr))))
  let sysParts := syss.map (fun i =>
    let y := s.sys i
    " ".intercalate (["Y", toString i, toString y.atoms, toString y.pbc.length] ++ y.pbc.map showBool ++
      [toString y.symbols.length] ++ y.symbols.map showSym ++ [toString y.masses.length] ++ y.masses.map showMass))
  let arrs := (objs.map (fun o => (s.obj o).props.map (·.arr))).flatten
  let numbered := (List.range arrs.length).zip arrs
  let sh := pairsShared s numbered
  " ".intercalate (objParts ++ sysParts ++ [s!"SH {sh.length}"] ++ sh)

def handle (s : State) (toks : List String) : State × String :=
  match toks with
  | ["reset"] => (init, "ok")
  | "op" :: rest =>
    match pOp rest with
    | some (op, []) =>
      let r := stepWith false s op
      (r.2, match r.1 with | .ok out => showOut out | .error e => showErr e)
    | _ => (s, err "format")
  | "call" :: rest =>
    match pCall rest with
    | some (c, []) =>
      let r := callWith false s c
      (r.2, match r.1 with | .ok out => showOut out | .error e => showErr e)
    | _ => (s, err "format")
  | "dump" :: rest =>
    match (do let os ← pCounted pNat; let ys ← pCounted pNat; pure (os, ys) : P (List Nat × List Nat)) rest with
    | some ((os, ys), []) => (s, dump s os ys)
    | _ => (s, err "format")
  | _ => (s, err "op")

end C06Drv

def main : IO Unit := runDriverS C06Drv.handle init
