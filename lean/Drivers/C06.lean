import Atomman.Prelude
open Atomman

/-- stub: replaced when the C06 model is built. -/
def handleC06 (_toks : List String) : String := err "op"

def main : IO Unit := runDriver handleC06
