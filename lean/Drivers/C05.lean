import Atomman.Prelude
open Atomman

/-- stub: replaced when the C05 model is built. -/
def handleC05 (_toks : List String) : String := err "op"

def main : IO Unit := runDriver handleC05
