import Atomman.C05
open Atomman Atomman.C05

/-
  line protocol (all numbers exact rationals):
    wrap px py pz n  v00 … v22  o0 o1 o2  x0 y0 z0 … (3n numbers)
      -> "vects(9) origin(3) | pos(3n) | flags(3n) | spos(3n)"
    norm px py pz n  v00 … v22  o0 o1 o2  x0 y0 z0 …
      -> "vects(9) origin(3) | pos(3n) | flags(3n) | transform(9) | spos in the (flipped) old box (3n) | flipped(0/1)"
  errors: err:format (malformed line), err:value (singular cell or no atoms),
          err:assert (an assertion of the code fails: box lengths not positive, transform not orthonormal)
-/

def chunk3 : List Rat → List (V3 Rat)
  | a :: b :: c :: rest => ⟨a, b, c⟩ :: chunk3 rest
  | _ => []

def flat (l : List (V3 Rat)) : List Rat := l.flatMap V3.toList
def flatI (l : List (V3 Int)) : List Int := l.flatMap V3.toList

structure Req where
  pbc : V3 Bool
  box : Box Rat
  pos : List (V3 Rat)

def parseReq (px py pz n : String) (rest : List String) : Option Req :=
  match parseBool? px, parseBool? py, parseBool? pz, n.toNat?, parseRats? rest with
  | some px, some py, some pz, some n, some xs =>
    if xs.length ≠ 12 + 3 * n then none else
    match M3.ofList? (xs.take 9), V3.ofList? ((xs.drop 9).take 3) with
    | some v, some o => some ⟨⟨px, py, pz⟩, ⟨v, o⟩, chunk3 (xs.drop 12)⟩
    | _, _ => none
  | _, _, _, _, _ => none

def showBox (b : Box Rat) : String := showRats (b.vects.toList ++ b.origin.toList)

def handleC05 (toks : List String) : String :=
  match toks with
  | "wrap" :: px :: py :: pz :: n :: rest =>
    match parseReq px py pz n rest with
    | none => err "format"
    | some r =>
      if M3.det r.box.vects = 0 || r.pos.isEmpty then err "value" else
      let w := wrap Rat.floor pad001 r.box r.pbc r.pos
      showBox w.box ++ " | " ++ showRats (flat w.pos) ++ " | " ++ showInts (flatI w.flags) ++ " | "
        ++ showRats (flat (r.pos.map r.box.cartToRel))
  | "norm" :: px :: py :: pz :: n :: rest =>
    match parseReq px py pz n rest with
    | none => err "format"
    | some r =>
      if M3.det r.box.vects = 0 || r.pos.isEmpty then err "value" else
      match normalize? Rat.floor pad001 ratSqrt r.box r.pbc r.pos with
      | none => err "assert"
      | some z =>
        if !transformOK z.transform then err "assert" else
        let b1 := flip r.box
        showBox z.box ++ " | " ++ showRats (flat z.pos) ++ " | " ++ showInts (flatI z.flags) ++ " | "
          ++ showRats z.transform.toList ++ " | " ++ showRats (flat (r.pos.map b1.cartToRel)) ++ " | "
          ++ showBool (decide (triple r.box.vects < 0))
  | _ => err "op"

def main : IO Unit := runDriver handleC05
