import Atomman.C05
import Atomman.C05_Hist
import Atomman.C05_Src
import Atomman.C05_Heap
import Atomman.Generated.WrapSource
open Atomman Atomman.C05
open Atomman.Generated

/-
  line protocol (all numbers exact rationals):
    wrap px py pz n  v00 … v22  o0 o1 o2  x0 y0 z0 … (3n numbers)
      -> "vects(9) origin(3) | pos(3n) | flags(3n) | spos(3n)"
    norm px py pz n  v00 … v22  o0 o1 o2  x0 y0 z0 …
      -> "vects(9) origin(3) | pos(3n) | flags(3n) | transform(9) | spos in the (flipped) old box (3n) | flipped(0/1)"
    hist px py pz n  v00 … v22  o0 o1 o2  x0 … ; op ; op ; …      (one System object, `;` is a token)
      ops:  spos | wrap | rebuild | norm | boxset s v(9) o(3) | setvects v(9) | setorigin o(3) | setpbc px py pz |
            editpbc axis(0..2) value(0/1) | setpos x0 y0 z0 …
      -> one section per op, joined by " ; ":
           spos      "S spos(3n)"
           wrap      "W vects(9) origin(3) | pos(3n) | flags(3n) | spos before(3n)"
           norm      "N vects(9) origin(3) | pos(3n) | flags(3n) | transform(9) | spos in the (flipped) old box | flipped"
           others    "B vects(9) origin(3) | pos(3n)"
           failure   "E assert" / "E value" (singular cell); the history ends there
      The history runs on the object-level model `CSys` (cached reciprocal vectors, clean-up of the setter).
    apiwrap FLAG px py pz n v(9) o(3) pos(3n)          `system.wrap(FLAG)` with the option handling, run on the GENERATED
      -> "R ret(0/1) | vects(9) origin(3) | pos(3n) | flags(3n, only if ret)"      statement list `WrapSource.wrapBody`
    apibox SCALE px py pz n v(9) o(3) pos(3n) ; v'(9) o'(3)     `system.box_set(vects=v', origin=o', scale=SCALE)`
      -> "B vects(9) origin(3) | pos(3n)"  or err:type                              (generated `boxSet*Body`)
    apinorm STYLE FLAG px py pz n v(9) o(3) pos(3n)     `system.normalize(STYLE, FLAG)` (generated `normalizeBody`)
      -> "R ret(0/1) | vects(9) origin(3) | pos(3n) | transform(9)"  or err:value / err:assert
    apilmp FLAG px py pz n …                            `atomman.lammps.normalize(system, FLAG)`
    copyvals hex(key):id …                               entries of the copy made by the regenerated `Atoms.__deepcopy__` (`copyView`)
      -> hex(key):id …
    hilobox xlo xhi ylo yhi zlo zhi xy xz yz             `Box(xlo=…, …, yz=…)` through the generated `set_hi_los` / `set_lengths`
      -> vects(9) origin(3)  or err:assert
    copykeys hex(key) …                                  keys of the atoms of the copy `normalize` works on (`-` = empty name)
      -> hex(key) …                                     (`copyKeys` on the generated explicit / reserved lists; ASCII names)
      FLAG / SCALE / STYLE: omit | none | b0 | b1 | i:<int> | s:<text without blanks> | f0 | f1 | np0 | np1
  errors: err:format (malformed line), err:value (singular cell or no atoms),
          err:assert (an assertion of the code fails: box lengths not positive, transform not orthonormal)
-/

def chunk3 : List Rat → List (V3 Rat)
  | a :: b :: c :: rest => ⟨a, b, c⟩ :: chunk3 rest
  | _ => []

def flat (l : List (V3 Rat)) : List Rat := l.flatMap V3.toList
def flatI (l : List (V3 Int)) : List Int := l.flatMap V3.toList

structure Req where
  pbc : V3 Bool
  box : Box Rat
  pos : List (V3 Rat)

def parseReq (px py pz n : String) (rest : List String) : Option Req :=
  match parseBool? px, parseBool? py, parseBool? pz, n.toNat?, parseRats? rest with
  | some px, some py, some pz, some n, some xs =>
    if xs.length ≠ 12 + 3 * n then none else
    match M3.ofList? (xs.take 9), V3.ofList? ((xs.drop 9).take 3) with
    | some v, some o => some ⟨⟨px, py, pz⟩, ⟨v, o⟩, chunk3 (xs.drop 12)⟩
    | _, _ => none
  | _, _, _, _, _ => none

def showBox (b : Box Rat) : String := showRats (b.vects.toList ++ b.origin.toList)

/-- split a token list at every occurrence of `sep`. -/
def splitOn (l : List String) (sep : String) : List (List String) :=
  let r := l.foldr (fun t (acc : List String × List (List String)) =>
    if t = sep then ([], acc.1 :: acc.2) else (t :: acc.1, acc.2)) ([], [])
  r.1 :: r.2

def parseOp (toks : List String) : Option (Op Rat) :=
  match toks with
  | ["spos"] => some .spos
  | ["wrap"] => some .wrap
  | ["rebuild"] => some .rebuild
  | ["norm"] => some .normalize
  | "boxset" :: s :: rest =>
    match parseBool? s, parseRats? rest with
    | some s, some xs =>
      if xs.length ≠ 12 then none else
      match M3.ofList? (xs.take 9), V3.ofList? (xs.drop 9) with
      | some v, some o => some (.boxSet s v o)
      | _, _ => none
    | _, _ => none
  | "setvects" :: rest =>
    match parseRats? rest with
    | some xs => (M3.ofList? xs).map .setVects
    | none => none
  | "setorigin" :: rest =>
    match parseRats? rest with
    | some xs => (V3.ofList? xs).map .setOrigin
    | none => none
  | ["setpbc", a, b, c] =>
    match parseBool? a, parseBool? b, parseBool? c with
    | some a, some b, some c => some (.setPbc ⟨a, b, c⟩)
    | _, _, _ => none
  | ["editpbc", k, v] =>
    match k.toNat?, parseBool? v with
    | some k, some v => if k < 3 then some (.editPbc k v) else none
    | _, _ => none
  | "setpos" :: rest =>
    match parseRats? rest with
    | some xs => if xs.length % 3 ≠ 0 then none else some (.setPos (chunk3 xs))
    | none => none
  | _ => none

def showState (c : CSys Rat) : String := showBox c.box ++ " | " ++ showRats (flat c.pos)

/-- run a history on the object-level model, one reply section per operation. The cell must stay
    non-singular (numpy's `inv` would raise at the next use of the reciprocal vectors). -/
def runHist (c : CSys Rat) : List (Op Rat) → List String
  | [] => []
  | op :: ops =>
    let before := c
    let r := stepC paramsRat c op
    if M3.det r.1.box.vects = 0 then ["E value"] else
    match op, r.2 with
    | _, .failed => ["E assert"]
    | _, .spos s => ("S " ++ showRats (flat s)) :: runHist r.1 ops
    | _, .flags f =>
      ("W " ++ showState r.1 ++ " | " ++ showInts (flatI f) ++ " | "
        ++ showRats (flat (before.pos.map before.box.cartToRel))) :: runHist r.1 ops
    | _, .normalized z =>
      if !transformOK z.transform then ["E assert"] else
      let b1 := flip before.box
      ("N " ++ showBox z.box ++ " | " ++ showRats (flat z.pos) ++ " | " ++ showInts (flatI z.flags) ++ " | "
        ++ showRats z.transform.toList ++ " | " ++ showRats (flat (before.pos.map b1.cartToRel)) ++ " | "
        ++ showBool (decide (triple before.box.vects < 0))) :: runHist r.1 ops
    | _, .unit => ("B " ++ showState r.1) :: runHist r.1 ops

/-- a Python value on the wire; `omit` = the argument is not passed. -/
def parsePyArg (t : String) : Option (Option PyVal) :=
  if t = "omit" then some none
  else if t = "none" then some (some .none)
  else if t = "b0" then some (some (.bool false))
  else if t = "b1" then some (some (.bool true))
  else if t = "f0" then some (some (.float false))
  else if t = "f1" then some (some (.float true))
  else if t = "np0" then some (some (.npbool false))
  else if t = "np1" then some (some (.npbool true))
  else if t.startsWith "i:" then (t.drop 2).toString.toInt?.map (fun n => some (.int n))
  else if t.startsWith "s:" then some (some (.str (t.drop 2).toString))
  else none

def errOf : Err → String
  | .typeError => err "type"
  | .valueError => err "value"
  | .assertion => err "assert"

/-- `lammps.normalize(system, flag)` through the generated statement list. -/
def apiLmp (c : CSys Rat) (flag : Option PyVal) : String :=
  if !angleGuard ratSqrt (c.flipped paramsRat).box.vects then err "value" else
  match (runStmts paramsRat (St.init c c.box) WrapSource.normalizeBody).normalized with
  | none => err "assert"
  | some z =>
    if !transformOKWith normTol WrapSource.assertOrthoAtol WrapSource.assertOrthoPairs z.transform then err "assert" else
    let ret := WrapSource.lmpReturnsTransform (flag.getD WrapSource.lmpFlagDefault)
    "R " ++ showBool ret ++ " | " ++ showBox z.box ++ " | " ++ showRats (flat z.pos) ++ " | " ++ showRats z.transform.toList

/-- hex digits -> text (names of per-atom properties travel as hex: they may be empty or contain blanks). -/
def hexVal (c : Char) : Option Nat :=
  if '0' ≤ c ∧ c ≤ '9' then some (c.toNat - '0'.toNat)
  else if 'a' ≤ c ∧ c ≤ 'f' then some (c.toNat - 'a'.toNat + 10)
  else none

def unhexChars : List Char → Option (List Char)
  | [] => some []
  | a :: b :: rest =>
    match hexVal a, hexVal b, unhexChars rest with
    | some x, some y, some r => some (Char.ofNat (16 * x + y) :: r)
    | _, _, _ => none
  | _ => none

def unhex (t : String) : Option String := if t = "-" then some "" else (unhexChars t.toList).map String.ofList

def hexDigit (n : Nat) : Char := if n < 10 then Char.ofNat ('0'.toNat + n) else Char.ofNat ('a'.toNat + n - 10)
def hexOf (s : String) : String :=
  if s = "" then "-" else String.ofList (s.toList.flatMap (fun c => [hexDigit (c.toNat / 16), hexDigit (c.toNat % 16)]))

def handleApi (toks : List String) : Option String :=
  match toks with
  | "apiwrap" :: fl :: px :: py :: pz :: n :: rest =>
    match parsePyArg fl, parseReq px py pz n rest with
    | some flag, some r =>
      if M3.det r.box.vects = 0 || r.pos.isEmpty then some (err "value") else
      let s := runStmts paramsRat (St.init ⟨r.box, none, r.pbc, r.pos⟩ r.box) WrapSource.wrapBody
      let ret := WrapSource.wrapReturnsFlags (flag.getD WrapSource.wrapFlagDefault)
      some ("R " ++ showBool ret ++ " | " ++ showState s.c ++ (if ret then " | " ++ showInts (flatI s.flags) else ""))
    | _, _ => some (err "format")
  | "apibox" :: sc :: px :: py :: pz :: n :: rest =>
    match splitOn rest ";" with
    | [head, tail] =>
      match parsePyArg sc, parseReq px py pz n head, parseRats? tail with
      | some scale, some r, some xs =>
        if xs.length ≠ 12 then some (err "format") else
        match M3.ofList? (xs.take 9), V3.ofList? (xs.drop 9) with
        | some v, some o =>
          if M3.det r.box.vects = 0 || r.pos.isEmpty then some (err "value") else
          let sv := scale.getD WrapSource.boxSetScaleDefault
          if !WrapSource.boxSetAccepts sv then some (errOf WrapSource.boxSetRefusal) else
          let body := if WrapSource.boxSetScaledBranch sv then WrapSource.boxSetScaledBody else WrapSource.boxSetPlainBody
          let s := runStmts paramsRat (St.init ⟨r.box, none, r.pbc, r.pos⟩ ⟨v, o⟩) body
          if M3.det s.c.box.vects = 0 then some (err "value") else
          some ("B " ++ showState s.c)
        | _, _ => some (err "format")
      | _, _, _ => some (err "format")
    | _ => some (err "format")
  | "apinorm" :: st :: fl :: px :: py :: pz :: n :: rest =>
    match parsePyArg st, parsePyArg fl, parseReq px py pz n rest with
    | some style, some flag, some r =>
      if style.getD WrapSource.normStyleDefault ≠ WrapSource.normStyleAccepted then some (errOf WrapSource.normStyleRefusal) else
      if M3.det r.box.vects = 0 || r.pos.isEmpty then some (err "value") else
      some (apiLmp ⟨r.box, none, r.pbc, r.pos⟩ (some (flag.getD WrapSource.normFlagDefault)))
    | _, _, _ => some (err "format")
  | "copykeys" :: ks =>
    match ks.mapM unhex with
    | some keys => some (" ".intercalate ((copyKeys WrapSource.atomsCopyExplicit WrapSource.atomsCopyReserved keys).map hexOf))
    | none => some (err "format")
  | "copyvals" :: kvs =>
    -- entries `hex(key):value-id` of a view; the copy made by the regenerated `Atoms.__deepcopy__`
    let parse := fun (t : String) => match t.splitOn ":" with
      | [k, v] => (unhex k).map (fun k => (k, v))
      | _ => none
    match kvs.mapM parse with
    | some view =>
      some (" ".intercalate ((copyView WrapSource.atomsCopySource WrapSource.atomsCopyLoopSource
        WrapSource.atomsCopyReserved view).map (fun kv => hexOf kv.1 ++ ":" ++ kv.2)))
    | none => some (err "format")
  | "hilobox" :: rest =>
    -- `Box(xlo=, xhi=, ylo=, yhi=, zlo=, zhi=, xy=, xz=, yz=)`: generated `set_hi_los`, `set_lengths`, then the setter's clean-up
    match parseRats? rest with
    | some [xlo, xhi, ylo, yhi, zlo, zhi, xy, xz, yz] =>
      let lx := WrapSource.hiLoLx xlo xhi ylo yhi zlo zhi
      let ly := WrapSource.hiLoLy xlo xhi ylo yhi zlo zhi
      let lz := WrapSource.hiLoLz xlo xhi ylo yhi zlo zhi
      if WrapSource.lengthsOk lx ly lz then
        some (showBox ⟨zeroSmall paramsRat.tiny (WrapSource.lengthsVects lx ly lz xy xz yz),
          WrapSource.hiLoOrigin xlo xhi ylo yhi zlo zhi⟩)
      else some (err "assert")
    | _ => some (err "format")
  | "apilmp" :: fl :: px :: py :: pz :: n :: rest =>
    match parsePyArg fl, parseReq px py pz n rest with
    | some flag, some r =>
      if M3.det r.box.vects = 0 || r.pos.isEmpty then some (err "value") else
      some (apiLmp ⟨r.box, none, r.pbc, r.pos⟩ flag)
    | _, _ => some (err "format")
  | _ => none

def handleC05 (toks : List String) : String :=
  match handleApi toks with
  | some out => out
  | none =>
  match toks with
  | "wrap" :: px :: py :: pz :: n :: rest =>
    match parseReq px py pz n rest with
    | none => err "format"
    | some r =>
      if M3.det r.box.vects = 0 || r.pos.isEmpty then err "value" else
      let w := wrap Rat.floor pad001 r.box r.pbc r.pos
      showBox w.box ++ " | " ++ showRats (flat w.pos) ++ " | " ++ showInts (flatI w.flags) ++ " | "
        ++ showRats (flat (r.pos.map r.box.cartToRel))
  | "norm" :: px :: py :: pz :: n :: rest =>
    match parseReq px py pz n rest with
    | none => err "format"
    | some r =>
      if M3.det r.box.vects = 0 || r.pos.isEmpty then err "value" else
      -- set_abc's refusal of a lattice angle outside (0, 180): ValueError
      if !angleGuard ratSqrt (flip r.box).vects then err "value" else
      match normalizeG? Rat.floor pad001 ratSqrt r.box r.pbc r.pos with
      | none => err "assert"
      | some z =>
        if !transformOK z.transform then err "assert" else
        let b1 := flip r.box
        showBox z.box ++ " | " ++ showRats (flat z.pos) ++ " | " ++ showInts (flatI z.flags) ++ " | "
          ++ showRats z.transform.toList ++ " | " ++ showRats (flat (r.pos.map b1.cartToRel)) ++ " | "
          ++ showBool (decide (triple r.box.vects < 0))
  | "hist" :: px :: py :: pz :: n :: rest =>
    match splitOn rest ";" with
    | [] => err "format"
    | head :: opToks =>
      match parseReq px py pz n head, opToks.mapM parseOp with
      | some r, some ops =>
        if M3.det r.box.vects = 0 || r.pos.isEmpty then err "value" else
        " ; ".intercalate (runHist ⟨r.box, none, r.pbc, r.pos⟩ ops)
      | _, _ => err "format"
  | _ => err "op"

def main : IO Unit := runDriver handleC05
