import Atomman.C11
open Atomman Atomman.C11 Atomman.Gen

/-! line-protocol driver of the C11 model (`K := Rat`).  Every op that starts from a 6x6 first passes it
    through the `Cij` setter, as `ElasticConstants(Cij=c)` does.  The 6x6 inverse is the exact rational one. -/

namespace C11Drv

/-- exact Gauss–Jordan inverse of a 6x6 rational matrix (`none` = singular). -/
def inv6 (v : M6 Rat) : Option (M6 Rat) := Id.run do
  let n := 6
  let mut a : Array (Array Rat) := Array.ofFn (n := 6) fun i =>
    Array.ofFn (n := 12) fun j => if h : j.val < 6 then v i ⟨j.val, h⟩ else (if j.val - 6 = i.val then 1 else 0)
  for col in [0:n] do
    -- pivot
    let mut piv := n
    for r in [col:n] do
      if piv = n ∧ (a[r]!)[col]! ≠ 0 then piv := r
    if piv = n then return none
    let rowp := a[piv]!
    a := a.set! piv (a[col]!)
    let p := rowp[col]!
    let rowp := rowp.map (· / p)
    a := a.set! col rowp
    for r in [0:n] do
      if r ≠ col then
        let f := (a[r]!)[col]!
        if f ≠ 0 then
          a := a.set! r ((a[r]!).zipWith (fun x y => x - f * y) rowp)
  let res := a
  return some fun i j => (res[i.val]!)[j.val + 6]!

def errOf (e : String) : String := err e

def show6 (r : Except String (M6 Rat)) : String :=
  match r with
  | .ok v => "ok " ++ showRats (M6.toList v)
  | .error e => errOf e

def parseKeyed (n : Nat) (l : List String) : Option (List Rat × List String) :=
  if l.length < n then none else
  match parseRats? (l.take n) with
  | some xs => some (xs, l.drop n)
  | none => none

def withC (rest : List String) (k : M6 Rat → List String → String) : String :=
  match parseKeyed 36 rest with
  | none => err "format"
  | some (xs, more) =>
    match setCij (m6 xs) with
    | .error e => errOf e
    | .ok c => k c more

def withCS (rest : List String) (k : M6 Rat → M6 Rat → List String → String) : String :=
  withC rest fun c more =>
    match inv6 c with
    | none => err "value"
    | some s => let ts := Tab.of6 s; k c ts.get6 more

/-- split a token list at the `;` tokens. -/
def splitSemi (l : List String) : List (List String) :=
  l.foldr (fun t acc => if t = ";" then [] :: acc else
    match acc with
    | [] => [[t]]
    | g :: gs => (t :: g) :: gs) [[]]

def tab6 (xs : List Rat) : M6 Rat := let t := Tab.of6 (m6 xs); t.get6
def tab4 (xs : List Rat) : T4 Rat := let t := Tab.of4 (t4 xs); t.get4

/-- one operation of a `seq` request. -/
def parseOp (toks : List String) : Option (Op Rat) :=
  match toks with
  | ["get", "cij"] => some .getCij
  | ["get", "cij9"] => some .getCij9
  | ["get", "cijkl"] => some .getCijkl
  | ["get", "sij"] => some .getSij
  | ["get", "sijkl"] => some .getSijkl
  | ["est", which, style] => some (.est which style)
  | ["norm", sys] => some (.norm sys)
  | ["isn", sys, rt, at'] =>
    match parseRat? rt, parseRat? at' with
    | some r, some a => some (.isn sys r a)
    | _, _ => none
  | "tr" :: rest =>
    match parseRats? rest with
    | some xs =>
      if xs.length ≠ 12 ∧ xs.length ≠ 13 then none else
      let axes : M33 Rat := m33 (xs.take 9)
      let nl := (xs.drop 9).take 3
      some (.tr (if xs.length = 13 then some (xs.getD 12 0) else none) axes (fun i => nl.getD i.val 1))
    | none => none
  | "set" :: "named" :: keys :: nv :: rest =>
    match nv.toNat?, parseRats? rest with
    | some n, some xs => if xs.length < n then none else some (.putNamed keys (xs.take n) (xs.drop n))
    | _, _ => none
  | "set" :: what :: rest =>
    match parseRats? rest with
    | none => none
    | some xs =>
      if what = "cij" ∧ xs.length = 36 then some (.putCij (tab6 xs))
      else if what = "sij" ∧ xs.length = 36 then some (.putSij (tab6 xs))
      else if what = "cij9" ∧ xs.length = 81 then some (.putCij9 (m9 xs))
      else if what = "cijkl" ∧ xs.length = 81 then some (.putCijkl (tab4 xs))
      else if what = "sijkl" ∧ xs.length = 81 then some (.putSijkl (tab4 xs))
      else none
  | _ => none

def showObs (r : Except String (List Rat)) : String :=
  match r with
  | .ok [] => "ok"
  | .ok xs => "ok " ++ showRats xs
  | .error e => errOf e

end C11Drv
open C11Drv

def handleC11 (toks : List String) : String :=
  match toks with
  | "setcij" :: rest => withC rest fun c _ => "ok " ++ showRats (M6.toList c)
  | "cij9" :: rest => withC rest fun c _ => showRats (M9.toList (cij9Get c))
  | "cijkl" :: rest => withC rest fun c _ => showRats (T4.toList (cijklGet c))
  | "sij" :: rest => withCS rest fun _ s _ => showRats (M6.toList s)
  | "sijkl" :: rest => withCS rest fun _ s _ => showRats (T4.toList (sijklGet s))
  | "setcij9" :: rest =>
    match parseRats? rest with
    | some xs => if xs.length ≠ 81 then err "format" else show6 (setCij9 (m9 xs))
    | none => err "format"
  | "setcijkl" :: rest =>
    match parseRats? rest with
    | some xs => if xs.length ≠ 81 then err "format" else show6 (setCijkl (t4 xs))
    | none => err "format"
  | "setsijkl" :: rest =>
    match parseRats? rest with
    | some xs => if xs.length ≠ 81 then err "format" else show6 (setSijkl inv6 (t4 xs))
    | none => err "format"
  | "sijklraw" :: rest =>
    match parseRats? rest with
    | some xs => if xs.length ≠ 81 then err "format" else showRats (M6.toList (sijklSetRaw (t4 xs)))
    | none => err "format"
  | "setsij" :: rest =>
    match parseRats? rest with
    | some xs => if xs.length ≠ 36 then err "format" else show6 (setSij inv6 (m6 xs))
    | none => err "format"
  | "transform" :: rest =>
    -- 36 c, 9 axes, 3 norms, optional tol
    withC rest fun c more =>
      match parseRats? more with
      | some xs =>
        if xs.length ≠ 12 ∧ xs.length ≠ 13 then err "format" else
        let axes : M33 Rat := m33 (xs.take 9)
        let nl := (xs.drop 9).take 3
        let norms : Fin 3 → Rat := fun i => nl.getD i.val 1
        let tol := if xs.length = 13 then xs.getD 12 0 else transformTol
        show6 (transform tol axes norms c)
      | none => err "format"
  | "initroute" :: keys => (initRoute keys).show
  | "axescheck" :: rest =>
    -- `tools.axes_check` on its own: 9 axes, 3 norms, optional tol
    match parseRats? rest with
    | some xs =>
      if xs.length ≠ 12 ∧ xs.length ≠ 13 then err "format" else
      let axes : M33 Rat := m33 (xs.take 9)
      let nl := (xs.drop 9).take 3
      let norms : Fin 3 → Rat := fun i => nl.getD i.val 1
      let tol := if xs.length = 13 then xs.getD 12 0 else axesCheckTol
      match axesCheckT tol axes norms with
      | .ok u => "ok " ++ showRats (idx3.map fun p => u p.1 p.2)
      | .error e => errOf e
    | none => err "format"
  | "rot" :: rest =>
    -- raw tensor rotation of an arbitrary 6x6 (no setter, no clean-up): 36 c, 9 T -> 81
    match parseRats? rest with
    | some xs =>
      if xs.length ≠ 45 then err "format" else
      showRats (T4.toList (rot (m33 (xs.drop 36)) (cijklGet (m6 (xs.take 36)))))
    | none => err "format"
  | "radicands" :: keys :: rest =>
    match parseRats? rest with
    | some xs => match isoRadicands keys xs with
      | some l => "ok " ++ showRats l
      | none => err "op"
    | none => err "format"
  | "ctor" :: keys :: nv :: rest =>
    match nv.toNat?, parseRats? rest with
    | some n, some xs =>
      if xs.length < n then err "format" else
      match construct keys (xs.take n) (xs.drop n) with
      | none => err "op"
      | some r => show6 r
    | _, _ => err "format"
  | "normalized" :: sys :: rest =>
    withC rest fun c _ =>
      if sys = "isotropic" then
        match inv6 c with
        | none => err "value"
        | some s => let ts := Tab.of6 s; show6 (normalizedAs sys c ts.get6)
      else show6 (normalizedAs sys c c)
  | "isnormal" :: sys :: rest =>
    withC rest fun c more =>
      match parseRats? more with
      | some [rt, at'] =>
        let s := if sys = "isotropic" then inv6 c else some c
        match s with
        | none => err "value"
        | some s => let ts := Tab.of6 s; match isNormal rt at' sys c ts.get6 with
          | .ok b => showBool b
          | .error e => errOf e
      | _ => err "format"
  | "seq" :: rest =>
    -- one object, initially `ElasticConstants()` (all zeros); operations separated by `;`
    let groups := (splitSemi rest).filter (· ≠ [])
    match groups.mapM parseOp with
    | none => err "format"
    | some ops => " | ".intercalate ((run inv6 (fun _ _ => (0 : Rat)) ops).map showObs)
  | "estimate" :: which :: style :: rest =>
    withC rest fun c _ =>
      let needS := style ≠ "Voigt"
      match (if needS then inv6 c else some c) with
      | none => err "value"
      | some s =>
        let ts := Tab.of6 s
        let s := ts.get6
        if which = "bulk" then
          if style = "Hill" then showRat (bulkHill c s) else if style = "Voigt" then showRat (bulkVoigt c)
          else if style = "Reuss" then showRat (bulkReuss s) else err "value"
        else if which = "shear" then
          if style = "Hill" then showRat (shearHill c s) else if style = "Voigt" then showRat (shearVoigt c)
          else if style = "Reuss" then showRat (shearReuss s) else err "value"
        else err "op"
  | _ => err "op"

def main : IO Unit := runDriver handleC11
