import Atomman.Prelude
open Atomman

/-- stub: replaced when the C11 model is built. -/
def handleC11 (_toks : List String) : String := err "op"

def main : IO Unit := runDriver handleC11
