/-
  C01 driver — the Box model as a small state machine over exact rationals.
  One request line -> one reply line.  State: the current `Box Rat` (no reciprocal cache: `recip`
  and `c2r` are recomputed from the current vectors, so a stale cache in the implementation shows
  up as a disagreement).

  setters (reply `ok` or `err:…`):
    new                                             Box()
    vects   v0..v8 ox oy oz                         Box(vects=…, origin=…) / set(vects=…) / set_vectors
    lengths lx ly lz xy xz yz ox oy oz              set_lengths
    hilos   xlo xhi ylo yhi zlo zhi xy xz yz        set_hi_los
    abc     a b c alpha beta gamma ca cb cg ly lz ox oy oz
                                                    set_abc; ca cb cg = cosines, ly lz = the two roots
    attr_vects v0..v8                               box.vects = …   (origin kept)
    attr_origin ox oy oz                            box.origin = …
  readers:
    thr        the clean-up threshold
    get        vects(9) origin(3) a² b² c² b·c a·c a·b volume is_lammps_norm
    lammps     lx ly lz xy xz yz xlo xhi ylo yhi zlo zhi        | err:assert
    recip      reciprocal_vects(9)                               | err:value (singular)
    r2c x y z  position_relative_to_cartesian                    | err:value (not 3 numbers)
    c2r x y z  position_cartesian_to_relative                    | err:value
    inside x y z    inside(inclusive=True) inside(inclusive=False) margin
    outside x y z   outside(inclusive=True) outside(inclusive=False) margin
    abcres a b c ca cb cg ly lz   residuals ly² - (b²-xy²), lz² - (c²-xz²-yz²)  (hypotheses of abc_gram)
-/
import Atomman.C01
open Atomman Atomman.C01

/-- the double nearest to `1e-9` (the literal `atol=1e-9` of the setter), exactly. -/
def thr : Rat := mkRat 4835703278458517 4835703278458516698824704

def unitBox : Box Rat := ⟨⟨⟨1, 0, 0⟩, ⟨0, 1, 0⟩, ⟨0, 0, 1⟩⟩, ⟨0, 0, 0⟩⟩

def showBox (b : Box Rat) : String := showRats (b.vects.toList ++ b.origin.toList)

def setOr (old : Box Rat) (r : Option (Box Rat)) (e : String) : Box Rat × String :=
  match r with
  | some b => (b, "ok")
  | none => (old, err e)

def stepC01 (st : Box Rat) (toks : List String) : Box Rat × String :=
  match toks with
  | ["new"] => (setVects thr unitBox.vects unitBox.origin, "ok")
  | ["thr"] => (st, showRat thr)
  | "vects" :: rest =>
    match parseRats? rest with
    | some [a, b, c, d, e, f, g, h, i, ox, oy, oz] =>
      (setVects thr ⟨⟨a, b, c⟩, ⟨d, e, f⟩, ⟨g, h, i⟩⟩ ⟨ox, oy, oz⟩, "ok")
    | _ => (st, err "format")
  | "attr_vects" :: rest =>
    match parseRats? rest with
    | some [a, b, c, d, e, f, g, h, i] => (setVectsAttr thr st ⟨⟨a, b, c⟩, ⟨d, e, f⟩, ⟨g, h, i⟩⟩, "ok")
    | _ => (st, err "format")
  | "attr_origin" :: rest =>
    match parseRats? rest with
    | some [ox, oy, oz] => (setOriginAttr st ⟨ox, oy, oz⟩, "ok")
    | _ => (st, err "format")
  | "lengths" :: rest =>
    match parseRats? rest with
    | some [lx, ly, lz, xy, xz, yz, ox, oy, oz] =>
      setOr st (setLengths? thr ⟨lx, ly, lz, xy, xz, yz⟩ ⟨ox, oy, oz⟩) "assert"
    | _ => (st, err "format")
  | "hilos" :: rest =>
    match parseRats? rest with
    | some [xlo, xhi, ylo, yhi, zlo, zhi, xy, xz, yz] =>
      setOr st (setHiLos? thr ⟨xlo, xhi, ylo, yhi, zlo, zhi, xy, xz, yz⟩) "assert"
    | _ => (st, err "format")
  | "abc" :: rest =>
    match parseRats? rest with
    | some [a, b, c, al, be, ga, ca, cb, cg, ly, lz, ox, oy, oz] =>
      if !(anglesOk al be ga) then (st, err "value") else
      setOr st (setAbc? thr a b c ca cb cg ly lz ⟨ox, oy, oz⟩) "assert"
    | _ => (st, err "format")
  | ["abcres", a, b, c, ca, cb, cg, ly, lz] =>
    match parseRats? [a, b, c, ca, cb, cg, ly, lz] with
    | some [_, b, c, ca, cb, cg, ly, lz] =>
      if ly = 0 then (st, err "value") else
      (st, showRats [ly * ly - abcLySq b cg, lz * lz - abcLzSq b c ca cb cg ly])
    | _ => (st, err "format")
  | ["get"] =>
    (st, showBox st ++ " " ++ showRats [a2 st, b2 st, c2 st, dotBC st, dotAC st, dotAB st, volume st]
      ++ " " ++ showBool st.isLammpsNorm)
  | ["lammps"] =>
    match lengths? st, hilos? st with
    | some l, some h =>
      (st, showRats [l.lx, l.ly, l.lz, l.xy, l.xz, l.yz, h.xlo, h.xhi, h.ylo, h.yhi, h.zlo, h.zhi])
    | _, _ => (st, err "assert")
  | ["recip"] =>
    if st.vects.det = 0 then (st, err "value") else (st, showRats st.recip.toList)
  | "r2c" :: rest =>
    match parseRats? rest with
    | some [x, y, z] => (st, showRats (st.relToCart ⟨x, y, z⟩).toList)
    | some _ => (st, err "value")
    | none => (st, err "format")
  | "c2r" :: rest =>
    match parseRats? rest with
    | some [x, y, z] =>
      if st.vects.det = 0 then (st, err "value") else (st, showRats (st.cartToRel ⟨x, y, z⟩).toList)
    | some _ => (st, err "value")
    | none => (st, err "format")
  | "inside" :: rest =>
    match parseRats? rest with
    | some [x, y, z] =>
      if st.vects.det = 0 then (st, err "value") else
      let p : V3 Rat := ⟨x, y, z⟩
      (st, showBool (inside st Lams.ones p true) ++ " " ++ showBool (inside st Lams.ones p false) ++ " "
        ++ showRat (faceMargin (st.cartToRel p)))
    | _ => (st, err "format")
  | "outside" :: rest =>
    match parseRats? rest with
    | some [x, y, z] =>
      if st.vects.det = 0 then (st, err "value") else
      let p : V3 Rat := ⟨x, y, z⟩
      (st, showBool (outside st Lams.ones p true) ++ " " ++ showBool (outside st Lams.ones p false) ++ " "
        ++ showRat (faceMargin (st.cartToRel p)))
    | _ => (st, err "format")
  | _ => (st, err "op")

def main : IO Unit := runDriverS stepC01 unitBox
