/-
  C01 driver — the Box model as a small state machine over exact rationals.
  One request line -> one reply line.  State: the Box *object* `CBox Rat` of Atomman/C01.lean (current cell +
  the lazily computed reciprocal vectors, emptied by everything that assigns `vects`); Proofs/C01_Object.lean
  shows that this object reports, for every call sequence, what the cache-free cell would
  (`obj_run_refines`), so a stale cache in the implementation shows up as a disagreement.

  setters (reply `ok` or `err:…`):
    new                                             Box()
    vects   v0..v8 ox oy oz                         Box(vects=…, origin=…) / set(vects=…) / set_vectors
    lengths lx ly lz xy xz yz ox oy oz              set_lengths
    hilos   xlo xhi ylo yhi zlo zhi xy xz yz        set_hi_los
    abc     a b c alpha beta gamma ca cb cg ly lz ox oy oz
                                                    set_abc; ca cb cg = cosines, ly lz = the two roots
    attr_vects v0..v8                               box.vects = …   (origin kept)
    attr_origin ox oy oz                            box.origin = …
  readers:
    thr        the clean-up threshold
    get        vects(9) origin(3) a² b² c² b·c a·c a·b volume is_lammps_norm
    lammps     lx ly lz xy xz yz xlo xhi ylo yhi zlo zhi        | err:assert
    recip      reciprocal_vects(9)                               | err:value (singular)
    cached     1 if reciprocal vectors are cached in the model object
    r2c x y z  position_relative_to_cartesian                    | err:value (not 3 numbers)
    c2r x y z  position_cartesian_to_relative                    | err:value
    inside x y z    inside(inclusive=True) inside(inclusive=False) margin
    outside x y z   outside(inclusive=True) outside(inclusive=False) margin
    abcres a b c ca cb cg ly lz   residuals ly² - (b²-xy²), lz² - (c²-xz²-yz²)  (hypotheses of abc_gram)
    kw name…   Box.set(**{name: …}): ok:<unit|vects|vectors|lengths|hilos|abc|origin> | err:assert | err:type
-/
import Atomman.C01
open Atomman Atomman.C01

/-- the double nearest to `1e-9` (the literal `atol=1e-9` of the setter), exactly. -/
def thr : Rat := mkRat atolNum atolDen

/-- a flat list of numbers as rows of three (`none` unless the length is a multiple of 3). -/
def triples : List Rat → Option (List (V3 Rat))
  | [] => some []
  | x :: y :: z :: rest => (triples rest).map (fun t => ⟨x, y, z⟩ :: t)
  | _ => none

def famName : SetFamily → String
  | .unit => "unit" | .vects => "vects" | .vectors => "vectors" | .lengths => "lengths"
  | .hilos => "hilos" | .abc => "abc" | .origin => "origin"

def showBox (b : Box Rat) : String := showRats (b.vects.toList ++ b.origin.toList)

/-- run a setter call on the object; `e` is the error class the real code raises when it refuses. -/
def doSet (c : CBox Rat) (s : SetOp Rat) (e : String) : CBox Rat × String :=
  match c.set thr s with
  | (c', .ok) => (c', "ok")
  | (c', _) => (c', err e)

/-- run a read call on the object (the cache may be filled by it). -/
def doRead (c : CBox Rat) (r : ReadOp Rat) : CBox Rat × String :=
  match c.read r with
  | (c', .mat m) => (c', showRats m.toList)
  | (c', .vec v) => (c', showRats v.toList)
  | (c', .flag b) => (c', showBool b)
  | (c', .rejected) => (c', err "value")
  | (c', .ok) => (c', "ok")

def stepC01 (c : CBox Rat) (toks : List String) : CBox Rat × String :=
  let st := c.box
  match toks with
  | ["new"] => doSet CBox.fresh .reset "op"
  | ["thr"] => (c, showRat thr)
  | "vects" :: rest =>
    match parseRats? rest with
    | some [a, b, c', d, e, f, g, h, i, ox, oy, oz] =>
      doSet c (.vects ⟨⟨a, b, c'⟩, ⟨d, e, f⟩, ⟨g, h, i⟩⟩ ⟨ox, oy, oz⟩) "op"
    | _ => (c, err "format")
  | "attr_vects" :: rest =>
    match parseRats? rest with
    | some [a, b, c', d, e, f, g, h, i] => doSet c (.attrVects ⟨⟨a, b, c'⟩, ⟨d, e, f⟩, ⟨g, h, i⟩⟩) "op"
    | _ => (c, err "format")
  | "attr_origin" :: rest =>
    match parseRats? rest with
    | some [ox, oy, oz] => doSet c (.attrOrigin ⟨ox, oy, oz⟩) "op"
    | _ => (c, err "format")
  | "lengths" :: rest =>
    match parseRats? rest with
    | some [lx, ly, lz, xy, xz, yz, ox, oy, oz] =>
      doSet c (.lengths ⟨lx, ly, lz, xy, xz, yz⟩ ⟨ox, oy, oz⟩) "assert"
    | _ => (c, err "format")
  | "hilos" :: rest =>
    match parseRats? rest with
    | some [xlo, xhi, ylo, yhi, zlo, zhi, xy, xz, yz] =>
      doSet c (.hilos ⟨xlo, xhi, ylo, yhi, zlo, zhi, xy, xz, yz⟩) "assert"
    | _ => (c, err "format")
  | "abc" :: rest =>
    match parseRats? rest with
    | some [a, b, c', al, be, ga, ca, cb, cg, ly, lz, ox, oy, oz] =>
      -- ValueError from the angle guard, AssertionError from set_lengths
      doSet c (.abc al be ga a b c' ca cb cg ly lz ⟨ox, oy, oz⟩) (if anglesOk al be ga then "assert" else "value")
    | _ => (c, err "format")
  | ["abcres", a, b, c', ca, cb, cg, ly, lz] =>
    match parseRats? [a, b, c', ca, cb, cg, ly, lz] with
    | some [_, b, c', ca, cb, cg, ly, lz] =>
      if ly = 0 then (c, err "value") else
      (c, showRats [ly * ly - abcLySq b cg, lz * lz - abcLzSq b c' ca cb cg ly])
    | _ => (c, err "format")
  | ["get"] =>
    (c, showBox st ++ " " ++ showRats [a2 st, b2 st, c2 st, dotBC st, dotAC st, dotAB st, volume st]
      ++ " " ++ showBool st.isLammpsNorm)
  | ["lammps"] =>
    match lengths? st, hilos? st with
    | some l, some h =>
      (c, showRats [l.lx, l.ly, l.lz, l.xy, l.xz, l.yz, h.xlo, h.xhi, h.ylo, h.yhi, h.zlo, h.zhi])
    | _, _ => (c, err "assert")
  | ["recip"] => doRead c .recip
  | ["cached"] => (c, showBool c.cache.isSome)
  | "r2c" :: rest =>
    match parseRats? rest with
    | some [x, y, z] => doRead c (.r2c ⟨x, y, z⟩)
    | some _ => (c, err "value")
    | none => (c, err "format")
  | "c2r" :: rest =>
    match parseRats? rest with
    | some [x, y, z] => doRead c (.c2r ⟨x, y, z⟩)
    | some _ => (c, err "value")
    | none => (c, err "format")
  | "inside" :: rest =>
    match parseRats? rest with
    | some [x, y, z] =>
      if st.vects.det = 0 then (c, err "value") else
      let p : V3 Rat := ⟨x, y, z⟩
      let (c1, r1) := doRead c (.inside Lams.ones p true)
      let (c2, r2) := doRead c1 (.inside Lams.ones p false)
      (c2, r1 ++ " " ++ r2 ++ " " ++ showRat (faceMargin (st.cartToRel p)))
    | _ => (c, err "format")
  | "outside" :: rest =>
    match parseRats? rest with
    | some [x, y, z] =>
      if st.vects.det = 0 then (c, err "value") else
      let p : V3 Rat := ⟨x, y, z⟩
      let (c1, r1) := doRead c (.outside Lams.ones p true)
      let (c2, r2) := doRead c1 (.outside Lams.ones p false)
      (c2, r1 ++ " " ++ r2 ++ " " ++ showRat (faceMargin (st.cartToRel p)))
    | _ => (c, err "format")
  | "kw" :: names =>
    -- Box.set(**kwargs) / Box(**kwargs): which parameter set the keyword names select (state untouched)
    (c, match setOutcome names with
        | .ok f => "ok:" ++ famName f
        | .errAssert => err "assert"
        | .errType => err "type")
  | "shape" :: which :: dims =>
    match parseNats? dims with
    | none => (c, err "format")
    | some sh =>
      let o := if which == "conv" then some (convShape sh) else if which == "inside" then some (insideShape sh) else none
      (c, match o with
          | some (.ok r) => " ".intercalate ("ok" :: r.map toString)
          | some .errValue => err "value"
          | some .errIndex => err "index"
          | none => err "op")
  | ["angle", i, j, n1, n2] =>
    match i.toNat?, j.toNat?, parseRats? [n1, n2] with
    | some i, some j, some [n1, n2] =>
      let row : Nat → Option (V3 Rat) := fun k =>
        if k = 0 then some st.vects.r0 else if k = 1 then some st.vects.r1 else if k = 2 then some st.vects.r2 else none
      match row i, row j with
      | some u, some v => if n1 = 0 || n2 = 0 then (c, err "value") else (c, showRat (clampCos (angleCos u v n1 n2)))
      | _, _ => (c, err "value")
    | _, _, _ => (c, err "format")
  | "ctor" :: name :: rest =>
    match parseRats? rest with
    | none => (c, err "format")
    | some xs =>
      let k : Option (Ctor Rat) := match name, xs with
        | "cubic", [a] => some (.cubic a)
        | "hexagonal", [a, c'] => some (.hexagonal a c')
        | "tetragonal", [a, c'] => some (.tetragonal a c')
        | "trigonal", [a, al] => some (.trigonal a al)
        | "orthorhombic", [a, b, c'] => some (.orthorhombic a b c')
        | "monoclinic", [a, b, c', be] => some (.monoclinic a b c' be)
        | "triclinic", [a, b, c', al, be, ga] => some (.triclinic a b c' al be ga)
        | _, _ => none
      match k with
      | none => (c, err "op")
      | some k =>
        match k.params? with
        | some (.abc a b c' al be ga o) => (c, "ok " ++ showRats ([a, b, c', al, be, ga] ++ o.toList))
        | _ => (c, err "value")
  | "r2cs" :: rest =>
    match parseRats? rest with
    | some xs => match triples xs with
      | some pts => (c, showRats ((r2cAll st pts).flatMap V3.toList))
      | none => (c, err "value")
    | none => (c, err "format")
  | "c2rs" :: rest =>
    match parseRats? rest with
    | some xs => match triples xs with
      | some pts => if st.vects.det = 0 then (c, err "value") else (c, showRats ((c2rAll st pts).flatMap V3.toList))
      | none => (c, err "value")
    | none => (c, err "format")
  | "insides" :: incl :: rest =>
    match parseRats? rest with
    | some xs => match triples xs with
      | some pts => if st.vects.det = 0 then (c, err "value") else
          (c, " ".intercalate ((insideAll st Lams.ones pts (incl == "1")).map showBool))
      | none => (c, err "value")
    | none => (c, err "format")
  | _ => (c, err "op")

def main : IO Unit := runDriverS stepC01 CBox.fresh
