import Atomman.Prelude
open Atomman

/-- stub: replaced when the C01 model is built. -/
def handleC01 (_toks : List String) : String := err "op"

def main : IO Unit := runDriver handleC01
