import Atomman.Prelude
open Atomman

/-- stub: replaced when the C14 model is built. -/
def handleC14 (_toks : List String) : String := err "op"

def main : IO Unit := runDriver handleC14
